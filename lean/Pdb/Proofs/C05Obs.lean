/-
"Which transaction does a read observe": `lastWriter` and its relation to `spec`.
-/
import Pdb.Proofs.C05Steps

set_option linter.unusedSectionVars false
set_option linter.unusedSimpArgs false
set_option linter.unusedVariables false
namespace Pdb
namespace CRd
variable {K V : Type} [DecidableEq K]

theorem lastWriterAux_snoc (k : K) (txs : List (List (Op K V))) (tx : List (Op K V)) (i : Nat)
    (acc : Option Nat) :
    lastWriterAux k (txs ++ [tx]) i acc =
      if writes tx k then some (i + txs.length) else lastWriterAux k txs i acc := by
  induction txs generalizing i acc with
  | nil => simp [lastWriterAux]
  | cons t txs ih =>
    simp only [List.cons_append, lastWriterAux, ih, List.length_cons]
    have : i + 1 + txs.length = i + (txs.length + 1) := by omega
    rw [this]

theorem lastWriter_snoc (k : K) (txs : List (List (Op K V))) (tx : List (Op K V)) :
    lastWriter (txs ++ [tx]) k = if writes tx k then some txs.length else lastWriter txs k := by
  unfold lastWriter
  rw [lastWriterAux_snoc]
  simp

theorem lastWriter_nil (k : K) : lastWriter ([] : List (List (Op K V))) k = none := rfl

/-- The observed transaction exists and writes the key. -/
theorem lastWriter_some (k : K) (txs : List (List (Op K V))) (j : Nat)
    (h : lastWriter txs k = some j) : j < txs.length ∧ writes (txs.getD j []) k = true := by
  induction txs using list_snoc_induction with
  | nil => simp [lastWriter_nil] at h
  | snoc txs tx ih =>
    rw [lastWriter_snoc] at h
    by_cases hw : writes tx k = true
    · simp only [hw, if_true, Option.some.injEq] at h
      subst h
      simp [hw]
    · simp only [hw, if_false] at h
      have := ih h
      refine ⟨by simp; omega, ?_⟩
      rw [List.getD_eq_getElem?_getD, List.getElem?_append_left this.1]
      rw [← List.getD_eq_getElem?_getD]
      exact this.2

/-- Extending the history never moves the observed transaction backwards. -/
theorem lastWriter_append (k : K) (a c : List (List (Op K V))) (j : Nat)
    (h : lastWriter a k = some j) : ∃ j', j ≤ j' ∧ lastWriter (a ++ c) k = some j' := by
  induction c using list_snoc_induction with
  | nil => exact ⟨j, Nat.le_refl _, by simpa using h⟩
  | snoc c tx ih =>
    obtain ⟨j', hj, hl⟩ := ih
    rw [← List.append_assoc, lastWriter_snoc]
    by_cases hw : writes tx k = true
    · simp only [hw, if_true]
      have := (lastWriter_some k a j h).1
      exact ⟨(a ++ c).length, by simp; omega, rfl⟩
    · simp only [hw, if_false]
      exact ⟨j', hj, hl⟩

theorem take_split {α : Type} (l : List α) (n m : Nat) (h : n ≤ m) :
    l.take m = l.take n ++ (l.take m).drop n := by
  have : l.take n = (l.take m).take n := by
    rw [List.take_take, Nat.min_eq_left h]
  rw [this, List.take_append_drop]

/-- A transaction inside the snapshot that writes `k` is observed, or a later one is. -/
theorem lastWriter_ge (k : K) (txs : List (List (Op K V))) (j n : Nat) (hj : j < n)
    (hn : n ≤ txs.length) (hw : writes (txs.getD j []) k = true) :
    ∃ j', j ≤ j' ∧ lastWriter (txs.take n) k = some j' := by
  have hjl : j < txs.length := by omega
  have e1 : txs.take (j + 1) = txs.take j ++ [txs.getD j []] := by
    rw [List.take_add_one, List.getD_eq_getElem?_getD, List.getElem?_eq_getElem hjl]
    rfl
  have h1 : lastWriter (txs.take (j + 1)) k = some j := by
    rw [e1, lastWriter_snoc, hw]
    simp [List.length_take, Nat.min_eq_left (Nat.le_of_lt hjl)]
  rw [take_split txs (j + 1) n (by omega)]
  exact lastWriter_append k _ _ j h1

theorem writes_false_notin (tx : List (Op K V)) (k : K) (h : ¬ writes tx k = true) :
    k ∉ tx.map Op.key := by
  intro hm
  apply h
  unfold writes
  rw [List.any_eq_true]
  obtain ⟨op, hop, e⟩ := List.mem_map.mp hm
  exact ⟨op, hop, by simp [e]⟩

/-- The value at `k` is the one left by the observed transaction. -/
theorem spec_lastWriter (kind : K → Kind) (k : K) (txs : List (List (Op K V))) :
    (∀ j, lastWriter txs k = some j → spec kind txs k = spec kind (txs.take (j + 1)) k) ∧
    (lastWriter txs k = none → spec kind txs k = none) := by
  induction txs using list_snoc_induction with
  | nil => simp [lastWriter_nil, spec, applyOps]
  | snoc txs tx ih =>
    rw [lastWriter_snoc]
    by_cases hw : writes tx k = true
    · simp only [hw, if_true]
      constructor
      · intro j hj
        simp only [Option.some.injEq] at hj
        subst hj
        rw [List.take_of_length_le (by simp)]
      · intro hh; simp at hh
    · simp only [hw, if_false]
      have hn := writes_false_notin tx k hw
      have e : spec kind (txs ++ [tx]) k = spec kind txs k := by
        rw [spec_snoc, applyOps_notin kind _ tx k hn]
      constructor
      · intro j hj
        have hl := (lastWriter_some k txs j hj).1
        rw [e, ih.1 j hj, List.take_append_of_le_length (by omega)]
      · intro hh
        rw [e]; exact ih.2 hh

/-- Reads are ordered by completion: a read that completes earlier has the earlier snapshot. -/
theorem reads_order (kind : K → Kind) (N : Nat) (as : List (CAct K V))
    (l1 l2 l3 : List (ReadEvt K V)) (e1 e2 : ReadEvt K V)
    (hr : (crun kind N CSt.init as).reads = l1 ++ e1 :: (l2 ++ e2 :: l3)) :
    e1.startSeq ≤ e2.startSeq ∧ e2.startSeq ≤ (crun kind N CSt.init as).hist.length := by
  have hi := (CInv.init kind N (K := K) (V := V)).run as
  have hm := hi.mono
  rw [hr, List.pairwise_append] at hm
  have h1 := (List.pairwise_cons.mp hm.2.1).1 e2 (by simp)
  have hm1 : e1 ∈ (crun kind N CSt.init as).reads := by rw [hr]; simp
  have hm2 : e2 ∈ (crun kind N CSt.init as).reads := by rw [hr]; simp
  have a1 := hi.evs e1 hm1
  have a2 := hi.evs e2 hm2
  simp only [EvOk] at a1 a2
  omega

end CRd
end Pdb
