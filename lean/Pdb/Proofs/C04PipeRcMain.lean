/-
C04 pipeline, part 6: the invariant of the pipeline on a reference-counted btree column and the
step lemma against `specActR` (see Pdb/Model/BTreePipe.lean, "specification: reference-counted
columns").  The commit overlay mirrors only the `Set`s: it is the overlay `ovOf` of the SHADOW
queue (every queued transaction reduced to its `Set`s), so the overlay lemmas of the plain
pipeline apply; tree + counts hold the cells of the processed transactions.
-/
import Pdb.Proofs.C04PipeRc

namespace Pdb.C04

/-- every queued transaction reduced to what the commit overlay mirrors -/
def shadowQ (q : List (Nat × List ROp)) : List (Nat × List (Op String)) :=
  q.map (fun e => (e.1, setsOf e.2))

theorem setsOf_append (a b : List ROp) : setsOf (a ++ b) = setsOf a ++ setsOf b := by
  simp [setsOf, List.filterMap_append]

theorem flatQ_shadowQ (q : List (Nat × List ROp)) :
    flatQ (shadowQ q) = setsOf (q.map Prod.snd).flatten := by
  induction q with
  | nil => rfl
  | cons e q ih =>
    obtain ⟨id, ops⟩ := e
    simp only [shadowQ, List.map_cons, flatQ_cons, List.flatten_cons, setsOf_append]
    rw [← ih]; rfl

theorem ovPutR_fold (id : Nat) (ops : List ROp) (ov : Overlay) :
    ops.foldl (ovPutR id) ov = (setsOf ops).foldl (ovPut id) ov := by
  induction ops generalizing ov with
  | nil => rfl
  | cons op ops ih =>
    cases op with
    | set k v => simp only [List.foldl_cons, setsOf, List.filterMap_cons, setOf, ovPutR, ovPut]; exact ih _
    | deref k => simp only [List.foldl_cons, setsOf, List.filterMap_cons, setOf, ovPutR]; exact ih _
    | ref k => simp only [List.foldl_cons, setsOf, List.filterMap_cons, setOf, ovPutR]; exact ih _

theorem setsOf_keys (ops : List ROp) : ∀ op ∈ setsOf ops, op.key ∈ ops.map Pdb.Op.key := by
  intro op hop
  simp only [setsOf, List.mem_filterMap] at hop
  obtain ⟨r, hr, he⟩ := hop
  cases r with
  | set k v =>
    simp only [setOf, Option.some.injEq] at he
    subst he
    exact List.mem_map.mpr ⟨_, hr, rfl⟩
  | deref k => simp [setOf] at he
  | ref k => simp [setOf] at he

/-! ### the invariant -/

structure QInvR (s : Drv) (sp : SpecStR) : Prop where
  rc : s.rc = true
  var : s.variant = patched
  tinv : TreeInv s.tree
  nstuck : s.stuck = false
  vals : s.tree.toList = valuesOf (cellsAfter sp.done)
  cnts : s.counts = countsOf (cellsAfter sp.done)
  qeq : s.queueR.map Prod.snd = sp.queued
  sov : Sorted s.overlay
  ov : ∀ k, lookup s.overlay k = ovOf (shadowQ s.queueR) k
  ids : s.queueR.Pairwise (fun a b => a.1 < b.1)
  lo : ∀ e ∈ s.queueR, s.rid < e.1 ∧ e.1 ≤ s.nextId
  rid_le : s.rid ≤ s.nextId

structure PInvR (s : Drv) (sp : SpecStR) : Prop where
  q : QInvR s sp
  it : ItInv s sp.pos

theorem QInvR.sorted_be {s : Drv} {sp : SpecStR} (h : QInvR s sp) : Sorted s.tree.toList :=
  ((treeInvB_iff s.tree).mp h.tinv).1.2

theorem QInvR.visible_eq {s : Drv} {sp : SpecStR} (h : QInvR s sp) :
    sp.visible = specApply (flatQ (shadowQ s.queueR)) s.tree.toList := by
  rw [flatQ_shadowQ, h.qeq, h.vals]; rfl

theorem QInvR.sorted_visible {s : Drv} {sp : SpecStR} (h : QInvR s sp) : Sorted sp.visible := by
  rw [h.visible_eq]; exact sorted_specApply _ h.sorted_be

/-- A point read through overlay and tree is the lookup in the visible map. -/
theorem QInvR.view {s : Drv} {sp : SpecStR} (h : QInvR s sp) (k : Key) :
    mget s.env.ov s.tree.toList k = lookup sp.visible k := by
  rw [h.visible_eq, lookup_specApply _ h.sorted_be, ← view_eq_effect]
  simp only [mget, Drv.env, lookup_map_snd, h.ov k]
  cases ovOf (shadowQ s.queueR) k with
  | none => rfl
  | some x => obtain ⟨i, o⟩ := x; rfl

/-- The map the iterator enumerates on an rc column is the visible map. -/
theorem QInvR.sorted_env {s : Drv} {sp : SpecStR} (h : QInvR s sp) : Sorted s.env.ov :=
  sorted_map_snd h.sov

theorem QInvR.merged {s : Drv} {sp : SpecStR} (h : QInvR s sp) :
    merged s.env.ov s.tree.toList = sp.visible :=
  sorted_ext (sorted_merged _ h.sorted_be) h.sorted_visible
    (fun x => by rw [lookup_merged h.sorted_env h.sorted_be, h.view])

theorem QInvR.get {s : Drv} {sp : SpecStR} (h : QInvR s sp) (k : Key) :
    s.get k = lookup sp.visible k := by
  rw [← h.view k]
  simp only [Drv.get, mget, Drv.env, lookup_map_snd, Tree.get_spec s.tree h.tinv]
  cases lookup s.overlay k with
  | none => rfl
  | some x => obtain ⟨i, o⟩ := x; rfl

theorem PInvR.init : PInvR (Drv.init patched true) SpecStR.init :=
  { q := { rc := rfl, var := rfl,
           tinv := (show treeInvB (Tree.empty : Tree String) = true from rfl), nstuck := rfl,
           vals := rfl, cnts := rfl, qeq := rfl, sov := sorted_nil, ov := fun _ => rfl,
           ids := List.Pairwise.nil, lo := fun e he => by simp [Drv.init] at he,
           rid_le := Nat.le_refl _ },
    it := ItInv.fresh _ sorted_nil rfl }

/-! ### commit -/

theorem commitRc_spec {s : Drv} {sp : SpecStR} (h : PInvR s sp) (ops : List ROp) :
    PInvR (s.commitRc ops) { sp with queued := sp.queued ++ [ops] } := by
  obtain ⟨hq, hit⟩ := h
  refine ⟨?_, ?_⟩
  · refine { rc := hq.rc, var := hq.var, tinv := hq.tinv, nstuck := hq.nstuck, vals := hq.vals,
             cnts := hq.cnts, qeq := ?_, sov := ?_, ov := ?_, ids := ?_, lo := ?_, rid_le := ?_ }
    · simp only [Drv.commitRc, List.map_append, hq.qeq]; rfl
    · simp only [Drv.commitRc, ovPutR_fold]
      exact sorted_ovPut_fold _ _ hq.sov
    · intro k
      simp only [Drv.commitRc, ovPutR_fold, shadowQ, List.map_append, List.map_cons, List.map_nil]
      rw [lookup_ovPut_fold, ovOf_snoc, hq.ov k]; rfl
    · simp only [Drv.commitRc]
      rw [List.pairwise_append]
      refine ⟨hq.ids, List.pairwise_singleton _ _, ?_⟩
      intro a ha b hb
      simp only [List.mem_singleton] at hb
      subst hb
      have := (hq.lo a ha).2
      simp only
      omega
    · intro e he
      simp only [Drv.commitRc, List.mem_append, List.mem_singleton] at he ⊢
      rcases he with he | he
      · have := hq.lo e he
        omega
      · subst he
        have := hq.rid_le
        simp only
        omega
    · have := hq.rid_le
      simp only [Drv.commitRc]
      omega
  · obtain ⟨sA, beI, h1, h2, h3, h4, h5, h6⟩ := hit
    exact ⟨sA, beI, h1, h2, h3, h4, h5, h6⟩

/-! ### process -/

theorem processRc_spec {s : Drv} {sp : SpecStR} (h : PInvR s sp) : PInvR s.processRc sp.process := by
  obtain ⟨hq, hit⟩ := h
  unfold Drv.processRc SpecStR.process
  have hqeq := hq.qeq
  cases hqueue : s.queueR with
  | nil =>
    rw [hqueue] at hqeq
    rw [← hqeq]
    exact ⟨hq, hit⟩
  | cons e q =>
    obtain ⟨id, ops⟩ := e
    rw [hqueue] at hqeq
    rw [← hqeq]
    simp only [List.map_cons]
    -- the tree and the counts after the transaction
    have hrel0 : RcRel { tree := s.tree, counts := s.counts, ok := true, wrote := false }
        (cellsAfter sp.done) := ⟨hq.tinv, rfl, sorted_cellsAfter _, hq.vals, hq.cnts⟩
    have hrel := rcFold_spec (sortByKey Pdb.Op.key ops) hrel0
    rw [cellStep_sort (sorted_cellsAfter _), ← cellsAfter_snoc] at hrel
    generalize hacc : (sortByKey Pdb.Op.key ops).foldl rcOne
      { tree := s.tree, counts := s.counts, ok := true, wrote := false } = acc at hrel
    have hnw := rcFold_nowrite (sortByKey Pdb.Op.key ops)
      { tree := s.tree, counts := s.counts, ok := true, wrote := false }
    rw [hacc] at hnw
    have hids := hq.ids
    rw [hqueue] at hids
    have hidq : id ∉ (shadowQ q).map Prod.fst := by
      intro hmem
      simp only [shadowQ, List.map_map] at hmem
      obtain ⟨x, hx, hxe⟩ := List.mem_map.mp hmem
      have := (List.pairwise_cons.mp hids).1 x hx
      simp only [Function.comp] at hxe
      rw [hxe] at this
      exact Nat.lt_irrefl _ this
    have hlo := hq.lo
    rw [hqueue] at hlo
    have hid := hlo (id, ops) (List.mem_cons.mpr (Or.inl rfl))
    have hov := hq.ov
    rw [hqueue] at hov
    refine ⟨?_, ?_⟩
    · refine { rc := hq.rc, var := hq.var, tinv := hrel.tinv, nstuck := ?_, vals := hrel.vals,
               cnts := hrel.cnts, qeq := rfl, sov := ?_, ov := ?_, ids := ?_, lo := ?_, rid_le := ?_ }
      · simp only [hq.nstuck, hrel.ok, Bool.not_true, Bool.or_false]
      · exact sorted_cleanOverlay _ _ hq.sov
      · intro k
        exact lookup_clean_head' hq.sov id (setsOf ops) _ (setsOf_keys ops) (shadowQ q) hidq hov k
      · exact (List.pairwise_cons.mp hids).2
      · intro e he
        have h1 := hlo e (List.mem_cons_of_mem _ he)
        have h2 := (List.pairwise_cons.mp hids).1 e he
        simp only at h2 ⊢
        split <;> omega
      · simp only
        have := hq.rid_le
        split <;> omega
    · obtain ⟨sA, beI, h1, h2, h3, h4, h5, h6⟩ := hit
      by_cases hw : acc.wrote = true
      · simp only [hw, if_true]
        have hne : id ≠ sA.rid := by omega
        refine ⟨sA, beI, h1.rid_change hne, h2, h3, fun e => absurd e.symm hne, ?_, h6⟩
        show sA.rid ≤ id
        omega
      · have hw' : acc.wrote = false := by simpa using hw
        have hsame : acc.tree = s.tree := (hnw hw').2
        simp only [hw', Bool.false_eq_true, if_false, hsame]
        exact ⟨sA, beI, h1, h2, h3, h4, h5, h6⟩

theorem process_spec_rc {s : Drv} {sp : SpecStR} (h : PInvR s sp) : PInvR s.process sp.process := by
  unfold Drv.process
  rw [h.q.rc]
  exact processRc_spec h

theorem processAll_spec_rc : ∀ (n : Nat) {s : Drv} {sp : SpecStR}, PInvR s sp →
    PInvR (Drv.processAll n s) (SpecStR.processAll n sp)
  | 0, _, _, h => h
  | n + 1, _, _, h => processAll_spec_rc n (process_spec_rc h)

theorem specR_process_length (sp : SpecStR) : sp.process.queued.length = sp.queued.length - 1 := by
  unfold SpecStR.process
  cases hq : sp.queued with
  | nil => simp [hq]
  | cons tx q => simp

theorem specR_processAll_queued : ∀ (n : Nat) (sp : SpecStR), sp.queued.length ≤ n →
    (SpecStR.processAll n sp).queued = []
  | 0, sp, hn => List.eq_nil_of_length_eq_zero (Nat.le_zero.mp hn)
  | n + 1, sp, hn => by
    apply specR_processAll_queued n
    rw [specR_process_length]
    omega

theorem specR_processAll_pos : ∀ (n : Nat) (sp : SpecStR), (SpecStR.processAll n sp).pos = sp.pos
  | 0, _ => rfl
  | n + 1, sp => by
    rw [SpecStR.processAll, specR_processAll_pos n]
    unfold SpecStR.process
    cases sp.queued <;> rfl

/-- once the specification's queue is empty, further processing changes nothing -/
theorem specR_processAll_nil : ∀ (n : Nat) (sp : SpecStR), sp.queued = [] →
    SpecStR.processAll n sp = sp
  | 0, _, _ => rfl
  | n + 1, sp, h => by
    have : sp.process = sp := by unfold SpecStR.process; rw [h]
    rw [SpecStR.processAll, this]
    exact specR_processAll_nil n sp h

theorem specR_processAll_add (a b : Nat) (sp : SpecStR) :
    SpecStR.processAll (a + b) sp = SpecStR.processAll b (SpecStR.processAll a sp) := by
  induction a generalizing sp with
  | zero => simp [SpecStR.processAll]
  | succ a ih =>
    have : a + 1 + b = (a + b) + 1 := by omega
    rw [this, SpecStR.processAll, ih, SpecStR.processAll]

/-! ### reopen -/

theorem reopen_spec_rc {s : Drv} {sp : SpecStR} (h : PInvR s sp) :
    PInvR s.reopen { SpecStR.processAll sp.queued.length sp with pos := .start } := by
  have hlen : s.queueR.length = sp.queued.length := by rw [← h.q.qeq]; simp
  -- the implementation may run more `process` steps than the specification: the extra ones find
  -- an empty queue
  have hextra : SpecStR.processAll (s.queue.length + s.queueR.length) sp =
      SpecStR.processAll sp.queued.length sp := by
    rw [Nat.add_comm, hlen, specR_processAll_add,
      specR_processAll_nil _ _ (specR_processAll_queued _ sp (Nat.le_refl _))]
  have h1 := processAll_spec_rc (s.queue.length + s.queueR.length) h
  rw [hextra] at h1
  have hq0 := specR_processAll_queued sp.queued.length sp (Nat.le_refl _)
  unfold Drv.reopen
  generalize Drv.processAll (s.queue.length + s.queueR.length) s = s1 at h1
  generalize SpecStR.processAll sp.queued.length sp = sp1 at h1 hq0
  obtain ⟨hq, _⟩ := h1
  have hqr : s1.queueR = [] := by
    have := hq.qeq
    rw [hq0] at this
    exact List.map_eq_nil_iff.mp this
  refine ⟨?_, ?_⟩
  · refine ⟨hq.rc, hq.var, hq.tinv, hq.nstuck, hq.vals, hq.cnts, hq.qeq, sorted_nil, ?_, ?_, ?_,
      Nat.le_refl _⟩
    · intro k
      show lookup [] k = ovOf (shadowQ s1.queueR) k
      rw [hqr]; rfl
    · exact hq.ids
    · intro e he
      have he' : e ∈ s1.queueR := he
      rw [hqr] at he'
      cases he'
  · exact ItInv.fresh _ hq.sorted_be rfl

/-! ### every action -/

theorem act_spec_rc {s : Drv} {sp : SpecStR} (h : PInvR s sp) (a : PAct) :
    (s.act a).2 = (specActR sp a).2 ∧ PInvR (s.act a).1 (specActR sp a).1 := by
  have hrc := h.q.rc
  cases a with
  | commit ops =>
    simp only [Drv.act, specActR, hrc, if_true]
    exact ⟨trivial, commitRc_spec h _⟩
  | commitRc ops =>
    simp only [Drv.act, specActR, hrc, if_true]
    exact ⟨trivial, commitRc_spec h _⟩
  | process => exact ⟨rfl, process_spec_rc h⟩
  | flush => exact ⟨rfl, h⟩
  | enact => exact ⟨rfl, h⟩
  | clean => exact ⟨rfl, h⟩
  | reopen => exact ⟨rfl, reopen_spec_rc h⟩
  | get k =>
    refine ⟨?_, h⟩
    simp only [Drv.act, specActR]
    rw [h.q.get k]
  | iterNew =>
    refine ⟨rfl, ⟨?_, ?_⟩⟩
    · exact ⟨h.q.rc, h.q.var, h.q.tinv, h.q.nstuck, h.q.vals, h.q.cnts, h.q.qeq, h.q.sov, h.q.ov,
        h.q.ids, h.q.lo, h.q.rid_le⟩
    · exact ItInv.fresh _ h.q.sorted_be rfl
  | call c =>
    obtain ⟨h1, h2⟩ := call_generic (m := sp.visible) h.q.var h.q.tinv (sorted_map_snd h.q.sov)
      h.q.merged h.it c
    refine ⟨by simp only [Drv.act, specActR, h1], ⟨?_, h2⟩⟩
    exact ⟨h.q.rc, h.q.var, h.q.tinv, h.q.nstuck, h.q.vals, h.q.cnts, h.q.qeq, h.q.sov, h.q.ov,
      h.q.ids, h.q.lo, h.q.rid_le⟩

theorem run_spec_rc : ∀ (as : List PAct) {s : Drv} {sp : SpecStR}, PInvR s sp →
    (s.run as).2 = (specRunR sp as).2 ∧ PInvR (s.run as).1 (specRunR sp as).1
  | [], _, _, h => ⟨rfl, h⟩
  | a :: as, s, sp, h => by
    obtain ⟨h1, h2⟩ := act_spec_rc h a
    obtain ⟨i1, i2⟩ := run_spec_rc as h2
    simp only [Drv.run, specRunR]
    exact ⟨by rw [h1, i1], i2⟩

end Pdb.C04
