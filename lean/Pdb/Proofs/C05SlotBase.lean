/-
Basic lemmas for the slot-level reader model (Model/ConcSlot.lean): association-list lookups in an
index chunk, last-write lookups in records and in the log overlay, location selectors.
-/
import Pdb.Model.ConcSlot
import Pdb.Proofs.PipelineThm

set_option linter.unusedSectionVars false
set_option linter.unusedSimpArgs false
set_option linter.unusedVariables false
namespace Pdb
namespace CSlot
variable {K V : Type} [DecidableEq K]

/-! ### index chunk entries -/

theorem findA_cons (k : K) (e : K × Addr) (l : List (K × Addr)) :
    findA k (e :: l) = if e.1 = k then some e.2 else findA k l := rfl

theorem findA_mem (k : K) (l : List (K × Addr)) (a : Addr) (h : findA k l = some a) :
    (k, a) ∈ l := by
  induction l with
  | nil => simp [findA] at h
  | cons e l ih =>
    rw [findA_cons] at h
    by_cases he : e.1 = k
    · simp only [he, if_true, Option.some.injEq] at h
      have : e = (k, a) := by cases e; simp_all
      rw [this]; exact List.mem_cons_self
    · simp only [he, if_false] at h
      exact List.mem_cons_of_mem _ (ih h)

theorem findA_none (k : K) (l : List (K × Addr)) (h : findA k l = none) (a : Addr) :
    (k, a) ∉ l := by
  induction l with
  | nil => simp
  | cons e l ih =>
    rw [findA_cons] at h
    by_cases he : e.1 = k
    · simp [he] at h
    · simp only [he, if_false] at h
      intro hm
      rcases List.mem_cons.mp hm with hm | hm
      · apply he; rw [← hm]
      · exact ih h hm

theorem findA_isSome_of_mem (k : K) (l : List (K × Addr)) (a : Addr) (h : (k, a) ∈ l) :
    ∃ a', findA k l = some a' := by
  cases hf : findA k l with
  | some a' => exact ⟨a', rfl⟩
  | none => exact absurd h (findA_none k l hf a)

theorem findA_append (k : K) (l1 l2 : List (K × Addr)) :
    findA k (l1 ++ l2) = (findA k l1).or (findA k l2) := by
  induction l1 with
  | nil => simp [findA]
  | cons e l ih =>
    simp only [List.cons_append, findA_cons, ih]
    by_cases he : e.1 = k <;> simp [he]

theorem findA_removeA_self (k : K) (l : List (K × Addr)) : findA k (removeA k l) = none := by
  induction l with
  | nil => rfl
  | cons e l ih =>
    unfold removeA at ih ⊢
    by_cases he : e.1 = k
    · simp only [List.filter_cons, he, decide_true, Bool.not_true, Bool.false_eq_true, if_false]
      exact ih
    · simp only [List.filter_cons, he, decide_false, Bool.not_false, if_true, findA_cons, if_false]
      exact ih

theorem findA_removeA_other (k k' : K) (l : List (K × Addr)) (h : k' ≠ k) :
    findA k' (removeA k l) = findA k' l := by
  induction l with
  | nil => rfl
  | cons e l ih =>
    unfold removeA at ih ⊢
    by_cases he : e.1 = k
    · have h1 : ¬ k = k' := fun x => h x.symm
      have : ¬ e.1 = k' := by rw [he]; exact h1
      simp only [List.filter_cons, he, decide_true, Bool.not_true, Bool.false_eq_true, if_false,
        findA_cons, this, h1]
      exact ih
    · simp only [List.filter_cons, he, decide_false, Bool.not_false, if_true, findA_cons, ih]

theorem mem_removeA (k : K) (l : List (K × Addr)) (e : K × Addr) :
    e ∈ removeA k l ↔ e ∈ l ∧ e.1 ≠ k := by
  unfold removeA
  simp [List.mem_filter]

theorem findA_replaceA_other (k k' : K) (a : Addr) (l : List (K × Addr)) (h : k' ≠ k) :
    findA k' (replaceA k a l) = findA k' l := by
  induction l with
  | nil => rfl
  | cons e l ih =>
    unfold replaceA at ih ⊢
    simp only [List.map_cons, findA_cons, ih]
    by_cases he : e.1 = k
    · have h1 : ¬ k = k' := fun x => h x.symm
      have h2 : ¬ e.1 = k' := by rw [he]; exact h1
      simp [he, h1, h2]
    · simp [he]

theorem findA_replaceA_self (k : K) (a a0 : Addr) (l : List (K × Addr))
    (h : findA k l = some a0) : findA k (replaceA k a l) = some a := by
  induction l with
  | nil => simp [findA] at h
  | cons e l ih =>
    unfold replaceA at ih ⊢
    rw [findA_cons] at h
    simp only [List.map_cons, findA_cons]
    by_cases he : e.1 = k
    · simp [he]
    · simp only [he, if_false] at h ⊢
      exact ih h

theorem mem_replaceA (k : K) (a : Addr) (l : List (K × Addr)) (e : K × Addr)
    (h : e ∈ replaceA k a l) : (e ∈ l ∧ e.1 ≠ k) ∨ e = (k, a) := by
  unfold replaceA at h
  obtain ⟨e0, he0, rfl⟩ := List.mem_map.mp h
  by_cases he : e0.1 = k
  · right; simp [he]
  · left; simp [he, he0]

/-! ### last writes -/

theorem lastBy_append {C : Type} (f : Loc K V → Option C) (a b : List (Loc K V)) :
    lastBy f (a ++ b) = (lastBy f b).or (lastBy f a) := by
  induction a with
  | nil => simp [lastBy]
  | cons w a ih =>
    simp only [List.cons_append, lastBy, ih]
    cases lastBy f b <;> simp

theorem lastBy_none_iff {C : Type} (f : Loc K V → Option C) (ws : List (Loc K V)) :
    lastBy f ws = none ↔ ∀ w ∈ ws, f w = none := by
  induction ws with
  | nil => simp [lastBy]
  | cons w ws ih =>
    simp only [lastBy, List.mem_cons, forall_eq_or_imp]
    rw [← ih]
    cases lastBy f ws <;> cases f w <;> simp

theorem lastBy_some_mem {C : Type} (f : Loc K V → Option C) (ws : List (Loc K V)) (x : C)
    (h : lastBy f ws = some x) : ∃ w ∈ ws, f w = some x := by
  induction ws with
  | nil => simp [lastBy] at h
  | cons w ws ih =>
    simp only [lastBy] at h
    cases hl : lastBy f ws with
    | some y =>
      rw [hl] at h
      simp only [Option.or] at h
      obtain ⟨w', hw', e⟩ := ih (by rw [hl, h])
      exact ⟨w', List.mem_cons_of_mem _ hw', e⟩
    | none =>
      rw [hl] at h
      simp only [Option.or] at h
      exact ⟨w, List.mem_cons_self, h⟩

theorem ovBy_append {C : Type} (f : Loc K V → Option C) (a b : List (SRec K V)) :
    ovBy f (a ++ b) = (ovBy f b).or (ovBy f a) := by
  induction a with
  | nil => simp [ovBy]
  | cons r a ih =>
    simp only [List.cons_append, ovBy, ih]
    cases ovBy f b <;> simp

theorem ovBy_snoc {C : Type} (f : Loc K V → Option C) (a : List (SRec K V)) (r : SRec K V) :
    ovBy f (a ++ [r]) = (lastBy f r.writes).or (ovBy f a) := by
  rw [ovBy_append]
  simp [ovBy]

theorem ovBy_none_iff {C : Type} (f : Loc K V → Option C) (rs : List (SRec K V)) :
    ovBy f rs = none ↔ ∀ r ∈ rs, lastBy f r.writes = none := by
  induction rs with
  | nil => simp [ovBy]
  | cons r rs ih =>
    simp only [ovBy, List.mem_cons, forall_eq_or_imp]
    rw [← ih]
    cases ovBy f rs <;> cases lastBy f r.writes <;> simp

theorem ovBy_some_mem {C : Type} (f : Loc K V → Option C) (rs : List (SRec K V)) (x : C)
    (h : ovBy f rs = some x) : ∃ r ∈ rs, ∃ w ∈ r.writes, f w = some x := by
  induction rs with
  | nil => simp [ovBy] at h
  | cons r rs ih =>
    simp only [ovBy] at h
    cases hl : ovBy f rs with
    | some y =>
      rw [hl] at h
      simp only [Option.or] at h
      obtain ⟨r', hr', e⟩ := ih (by rw [hl, h])
      exact ⟨r', List.mem_cons_of_mem _ hr', e⟩
    | none =>
      rw [hl] at h
      simp only [Option.or] at h
      obtain ⟨w, hw, e⟩ := lastBy_some_mem f _ x h
      exact ⟨r, List.mem_cons_self, w, hw, e⟩

theorem chunkAt_some (c : Nat) (w : Loc K V) (x : List (K × Addr))
    (h : Loc.chunkAt c w = some x) : w = .chunk c x := by
  cases w with
  | chunk c' y =>
    simp only [Loc.chunkAt] at h
    by_cases e : c' = c
    · simp only [e, if_true, Option.some.injEq] at h; rw [e, h]
    · simp [e] at h
  | slot a y => simp [Loc.chunkAt] at h

theorem slotAt_some (a : Addr) (w : Loc K V) (x : Option (K × V))
    (h : Loc.slotAt a w = some x) : w = .slot a x := by
  cases w with
  | slot a' y =>
    simp only [Loc.slotAt] at h
    by_cases e : a' = a
    · simp only [e, if_true, Option.some.injEq] at h; rw [e, h]
    · simp [e] at h
  | chunk c y => simp [Loc.slotAt] at h

/-! ### location selectors: what one observer (of one chunk / one slot) sees of a write -/

structure Sel (K V C : Type) where
  sel : Loc K V → Option C
  rd : PV K V → C
  law : ∀ pv w, rd (pv.apply w) = (sel w).getD (rd pv)

def chunkSel (c : Nat) : Sel K V (List (K × Addr)) where
  sel := Loc.chunkAt c
  rd := fun pv => pv.chunk c
  law := by
    intro pv w
    cases w with
    | chunk c' x =>
      simp only [PV.apply, Loc.chunkAt]
      by_cases e : c' = c
      · simp [e]
      · have : ¬ c = c' := fun x => e x.symm
        simp [e, this]
    | slot a x => simp [PV.apply, Loc.chunkAt]

def slotSel (a : Addr) : Sel K V (Option (K × V)) where
  sel := Loc.slotAt a
  rd := fun pv => pv.slot a
  law := by
    intro pv w
    cases w with
    | slot a' x =>
      simp only [PV.apply, Loc.slotAt]
      by_cases e : a' = a
      · simp [e]
      · have : ¬ a = a' := fun x => e x.symm
        simp [e, this]
    | chunk c x => simp [PV.apply, Loc.slotAt]

theorem applyLocs_rd {C : Type} (σ : Sel K V C) (ws : List (Loc K V)) (pv : PV K V) :
    σ.rd (applyLocs pv ws) = (lastBy σ.sel ws).getD (σ.rd pv) := by
  induction ws generalizing pv with
  | nil => simp [applyLocs, lastBy]
  | cons w ws ih =>
    have : applyLocs pv (w :: ws) = applyLocs (pv.apply w) ws := rfl
    rw [this, ih, σ.law]
    simp only [lastBy]
    cases lastBy σ.sel ws <;> simp

theorem applyLocs_chunk (ws : List (Loc K V)) (pv : PV K V) (c : Nat) :
    (applyLocs pv ws).chunk c = (lastBy (Loc.chunkAt c) ws).getD (pv.chunk c) :=
  applyLocs_rd (chunkSel c) ws pv

theorem applyLocs_slot (ws : List (Loc K V)) (pv : PV K V) (a : Addr) :
    (applyLocs pv ws).slot a = (lastBy (Loc.slotAt a) ws).getD (pv.slot a) :=
  applyLocs_rd (slotSel a) ws pv

theorem applyLocs_append (pv : PV K V) (a b : List (Loc K V)) :
    applyLocs pv (a ++ b) = applyLocs (applyLocs pv a) b := by
  simp [applyLocs, List.foldl_append]

theorem PV.ext' (p q : PV K V) (h1 : ∀ c, p.chunk c = q.chunk c) (h2 : ∀ a, p.slot a = q.slot a) :
    p = q := by
  cases p; cases q
  simp only [PV.mk.injEq]
  exact ⟨funext h1, funext h2⟩

end CSlot
end Pdb
