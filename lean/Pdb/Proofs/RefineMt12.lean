/-
R6 lemmas, part 12: the claim phase with the shape of the supply: after `claim_tree_values` the supply holds, per tier,
exactly as many distinct claimed offsets as the tree has new nodes of that tier.
-/
import Pdb.Proofs.RefineMt11

namespace Pdb.MultiTreePhys
open Pdb.Gen Pdb.ValueTable Pdb.MultiTree

theorem nodup_eraseDups : ∀ (n : Nat) (l : List Nat), l.length ≤ n → l.eraseDups.Nodup := by
  intro n
  induction n with
  | zero => intro l h; have : l = [] := List.length_eq_zero_iff.mp (by omega); subst this; simp
  | succ n ih =>
    intro l h
    cases l with
    | nil => simp
    | cons a as =>
      rw [List.eraseDups_cons]
      refine List.nodup_cons.mpr ⟨?_, ih _ ?_⟩
      · intro hm
        have := List.mem_eraseDups.mp hm
        simp at this
      · have := List.length_filter_le (fun b => !b == a) as
        simp only [List.length_cons] at h
        omega

theorem claimed_nodup_lt {p : PCol} {h : Heap Key Bytes} {ly : Layout} (r : Rep p h ly) (tier : Nat) :
    (ly.claimed tier).Nodup ∧ ∀ o ∈ ly.claimed tier, o < 2 ^ 56 := by
  have hs := (r.tiers tier).slot
  have hnd := hs.nodup
  rw [List.flatten_append, singles_flatten] at hnd
  refine ⟨(List.nodup_append.mp (List.nodup_append.mp hnd).2.1).1, ?_⟩
  intro o ho
  have := (hs.range o (by rw [List.flatten_append, singles_flatten]; simp [ho])).2
  have := r.bound tier
  omega

/-- `for (tier, count) in tier_count { claim_entries(count) }` with the shape of the supply -/
theorem sim_claimList' : ∀ (todo : List (Nat × Nat)) (p : PCol) (h : Heap Key Bytes) (ly : Layout), Rep p h ly →
    (∀ tier, (p.vt tier).filled + (todo.map Prod.snd).sum ≤ 2 ^ 56) → (todo.map Prod.fst).Nodup →
    ∃ p' s ly', claimList p todo = .ok (p', s) ∧ Rep p' h ly' ∧ p'.variant = p.variant ∧
      (∀ tier o, o ∈ ly.claimed tier → o ∈ ly'.claimed tier) ∧
      (∀ tier o, o ∈ s.get tier → o ∈ ly'.claimed tier) ∧ SupOk s ∧
      (∀ e ∈ todo, (s.get e.1).length = e.2) ∧
      (∀ tier, (p'.vt tier).filled ≤ (p.vt tier).filled + (todo.map Prod.snd).sum) ∧
      (∀ tier o, o ∈ ly'.claimed tier → o ∈ ly.claimed tier ∨ o ∈ s.get tier) ∧
      (∀ tier, tier ∉ todo.map Prod.fst → s.get tier = []) := by
  intro todo
  induction todo with
  | nil =>
    intro p h ly r _ _
    refine ⟨p, [], ly, rfl, r, rfl, fun _ _ ho => ho, ?_, ?_, ?_, fun _ => by simp, fun _ _ ho => Or.inl ho,
      fun _ _ => rfl⟩
    · intro tier o ho; simp [Supply.get] at ho
    · intro tier; simp [Supply.get]
    · intro e he; simp at he
  | cons tn rest ih =>
    obtain ⟨tier, n⟩ := tn
    intro p h ly r hb hnd
    simp only [List.map_cons, List.sum_cons] at hb
    simp only [List.map_cons, List.nodup_cons] at hnd
    obtain ⟨t', hal, r1, hf, _⟩ := sim_claim p h ly r tier n (by have := hb tier; omega)
    obtain ⟨p', s, ly', hcl, r', hv', hmono', hs', hsup', hlen', hfl', hconv', hnil'⟩ := ih (p.setVT tier t') h _ r1 (by
      intro tier'
      by_cases he : tier' = tier
      · subst he; rw [setVT_same, hf]; have := hb tier'; omega
      · rw [setVT_other _ _ _ _ he]; have := hb tier'; omega) hnd.2
    have hoffs : ∀ o, o ∈ (ly.free tier).take n ++ List.range' (p.vt tier).filled (n - (ly.free tier).length) →
        o ∈ ly'.claimed tier := by
      intro o ho
      apply hmono'
      simp only [upd_same]
      exact List.mem_append_right _ ho
    have hlenoffs : ((ly.free tier).take n ++
        List.range' (p.vt tier).filled (n - (ly.free tier).length)).length = n := by
      simp only [List.length_append, List.length_take, List.length_range']; omega
    refine ⟨p', (tier, (ly.free tier).take n ++ List.range' (p.vt tier).filled (n - (ly.free tier).length)) :: s,
      ly', ?_, r', hv', ?_, ?_, ?_, ?_, ?_, ?_, ?_⟩
    · simp only [claimList, hal, hcl]
    · intro tier' o ho
      apply hmono'
      by_cases he : tier' = tier
      · subst he; simp only [upd_same]; exact List.mem_append_left _ ho
      · simp only [upd_other _ _ _ _ he]; exact ho
    · intro tier' o ho
      simp only [Supply.get] at ho
      split at ho
      · rename_i he; subst he; exact hoffs o ho
      · exact hs' tier' o ho
    · intro tier'
      simp only [Supply.get]
      split
      · rename_i he
        subst he
        have hc1 := claimed_nodup_lt r1 tier
        simp only [upd_same] at hc1
        exact ⟨hc1.1.sublist (List.sublist_append_right _ _), fun o ho => hc1.2 o (List.mem_append_right _ ho)⟩
      · exact hsup' tier'
    · intro e he
      rcases List.mem_cons.mp he with rfl | he
      · simp only [Supply.get, if_true]; exact hlenoffs
      · have hne : ¬ tier = e.1 := by
          intro eq
          exact hnd.1 (eq ▸ List.mem_map.mpr ⟨e, he, rfl⟩)
        simp only [Supply.get, hne, if_false]
        exact hlen' e he
    · intro tier'
      have h1 := hfl' tier'
      simp only [List.map_cons, List.sum_cons]
      by_cases he : tier' = tier
      · subst he; rw [setVT_same, hf] at h1; omega
      · rw [setVT_other _ _ _ _ he] at h1; omega
    · intro tier' o ho
      rcases hconv' tier' o ho with h1 | h1
      · by_cases he : tier' = tier
        · subst he
          simp only [upd_same] at h1
          rcases List.mem_append.mp h1 with h2 | h2
          · exact Or.inl h2
          · right; simp only [Supply.get, if_true]; exact h2
        · simp only [upd_other _ _ _ _ he] at h1; exact Or.inl h1
      · right
        simp only [Supply.get]
        split
        · rename_i he
          subst he
          rw [hnil' tier hnd.1] at h1; simp at h1
        · exact h1
    · intro tier' hni
      simp only [List.map_cons, List.mem_cons, not_or] at hni
      have hne : ¬ tier = tier' := fun e => hni.1 e.symm
      simp only [Supply.get, hne, if_false]
      exact hnil' tier' hni.2

end Pdb.MultiTreePhys
