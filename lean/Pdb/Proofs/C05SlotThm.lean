/-
Consequences of the slot-level invariants used by Props/C05Slot.lean.
-/
import Pdb.Proofs.C05SlotInv
import Pdb.Proofs.C05SlotProv

set_option linter.unusedSectionVars false
set_option linter.unusedSimpArgs false
set_option linter.unusedVariables false
namespace Pdb
namespace CSlot
variable {K V : Type} [DecidableEq K]

/-- The atomic lookup through a `PV` that represents `T` returns `T`'s value. -/
theorem Rep.slookup {chunkOf : K → Nat} {pv : PV K V} {al : Alloc} {T : Tbl K V}
    (h : Rep chunkOf pv al T) (k : K) : slookup chunkOf pv k = (T k).map Prod.fst := by
  unfold CSlot.slookup
  cases hT : T k with
  | none => rw [h.absent k hT]; rfl
  | some x =>
    obtain ⟨v, n⟩ := x
    obtain ⟨a, hf, hs⟩ := h.present k v n hT
    rw [hf]
    simp only
    rw [hs]
    simp

/-- Only `publish` changes the ghost image of the published records. -/
theorem pub_nonpublish_step (cfg : Cfg) (tier : V → Nat) (chunkOf : K → Nat) (N : Nat)
    (s : SSt K V) (a : SAct K V) (ha : a ≠ .publish) :
    (sstep cfg tier chunkOf N s a).pub = s.pub := by
  by_cases hr : a.isReader = true
  · exact (sameCore_reader cfg tier chunkOf N s a hr).pub
  · cases a with
    | commit tx =>
      simp only [sstep]
      split
      · rfl
      · split <;> rfl
    | pop =>
      simp only [sstep]
      split <;> rfl
    | publish => exact absurd rfl ha
    | cleanOverlay =>
      simp only [sstep]
      split
      · rfl
      · split <;> rfl
    | flush => rfl
    | enactWrite =>
      simp only [sstep]
      split
      · split <;> rfl
      · rfl
    | endRead =>
      simp only [sstep]
      split
      · split <;> rfl
      · rfl
    | _ => simp [SAct.isReader] at hr

/-- The view is unchanged by every action but `publish`: in particular by the commit worker's
    `flush`, `enactWrite`, `endRead`. -/
theorem sview_nonpublish_step {cfg : Cfg} (hx : cfg.exactEnd = true) (tier : V → Nat)
    (chunkOf : K → Nat) (N : Nat) {s : SSt K V} (h : ShInv s) (a : SAct K V)
    (ha : a ≠ .publish) : sview (sstep cfg tier chunkOf N s a) = sview s := by
  rw [(h.step hx tier chunkOf N a).sview_eq, pub_nonpublish_step cfg tier chunkOf N s a ha,
    h.sview_eq]

theorem ShInv.file_chunk {s : SSt K V} (h : ShInv s) (c : Nat) (hc : ovChunk s.logged c = none) :
    s.files.chunk c = s.pub.chunk c := by
  have := h.view (chunkSel c)
  unfold ovChunk at hc
  simp only [chunkSel] at this
  rw [hc] at this
  simpa using this

theorem ShInv.file_slot {s : SSt K V} (h : ShInv s) (a : Addr) (hc : ovSlot s.logged a = none) :
    s.files.slot a = s.pub.slot a := by
  have := h.view (slotSel a)
  unfold ovSlot at hc
  simp only [slotSel] at this
  rw [hc] at this
  simpa using this

end CSlot
end Pdb
