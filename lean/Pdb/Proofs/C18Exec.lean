/-
Lemmas for Pdb/Props/C18Exec.lean: closed forms of the LockDir operations that interpret the
generated open / drop programs, and the invariant of the machine.
-/
import Pdb.Model.LockDir

namespace Pdb.LockDir
open Pdb.Gen.Order

/-- the open program of the current source tree (regenerated; this equation is re-checked) -/
theorem openP_eq : Conc.Lock.genProg.openP =
    [.createDirAll, .isDirCheck, .metadataExists, .createLockFile, .tryLock, .returnLocked,
     .loadMetadata, .logOpen, .columnOpen, .returnHandle, .replayAllLogs, .clearReplayLogs,
     .callCleanAllLogs, .callLogKillLogs, .initTableData, .threadSpawn, .spawnCommitWorker,
     .threadSpawn, .spawnFlushWorker, .threadSpawn, .spawnLogWorker, .threadSpawn,
     .spawnCleanupWorker] := by decide

theorem dropP_eq : Conc.Lock.genProg.dropP =
    [.callShutdown, .joinLog, .joinFlush, .joinCommit, .joinCleanup, .callKillLogs, .unlockFile] := by
  decide

/-- Closed form of `open` (whole call). -/
def openSpec (a : OpenArgs) (s : St) : St × Res :=
  if !a.create && (!s.dirExists || s.cols.isNone) then (s, .err "DatabaseNotFound")
  else
    let s1 : St := { s with dirExists := a.create || s.dirExists, lockFile := true }
    if s.holder.isSome && s.holder != some a.h then (s1, .err "Locked")
    else match s.cols with
      | some stored =>
        match checkOptions stored a.opts with
        | some e => ({ s1 with holder := none }, e)
        | none => ({ s1 with holder := some a.h, live := a.h :: s.live }, .ok)
      | none => ({ s1 with holder := some a.h, cols := some a.opts, live := a.h :: s.live }, .ok)

theorem openRun_gen (a : OpenArgs) (s : St) :
    openRun a Conc.Lock.genProg.openP s = openSpec a s := by
  rw [openP_eq]
  obtain ⟨h, create, opts⟩ := a
  obtain ⟨de, cols, lf, content, holder, live, dead⟩ := s
  cases create <;> cases de <;> cases cols with
  | none =>
    cases holder with
    | none => simp [openRun, openMarker, openSpec]
    | some h' => by_cases hh : h' = h <;> simp [openRun, openMarker, openSpec, hh]
  | some stored =>
    cases hck : checkOptions stored opts <;> cases holder with
    | none => simp [openRun, openMarker, openSpec, hck]
    | some h' => by_cases hh : h' = h <;> simp [openRun, openMarker, openSpec, hh, hck]

theorem dropRun_gen (h : Handle) (s : St) :
    dropRun h Conc.Lock.genProg.dropP s =
      { s with live := s.live.erase h, holder := if s.holder == some h then none else s.holder } := by
  rw [dropP_eq]
  by_cases hh : s.holder = some h <;> simp [dropRun, dropMarker, hh]

theorem lopen_eq (s : St) (h : Handle) (c : Bool) (o : List Nat) :
    lopen s h c o = if s.dead.contains h.1 || s.live.contains h then (s, .badOp)
      else openSpec { h := h, create := c, opts := o } s := by
  unfold lopen; rw [openRun_gen]

theorem ldrop_eq (s : St) (h : Handle) :
    ldrop s h = if s.live.contains h then
      ({ s with live := s.live.erase h, holder := if s.holder == some h then none else s.holder }, .ok)
      else (s, .badOp) := by
  unfold ldrop; rw [dropRun_gen]

/-- Invariant of the machine (at the granularity of whole operations). -/
structure Inv (s : St) : Prop where
  live : s.live = s.holder.toList
  files : s.holder.isSome = true → s.dirExists = true ∧ s.lockFile = true ∧ s.cols.isSome = true
  colsDir : s.cols.isSome = true → s.dirExists = true
  lockDir : s.lockFile = true → s.dirExists = true
  alive : ∀ h, s.holder = some h → s.dead.contains h.1 = false

theorem inv_init : Inv init := by
  constructor <;> simp [init]

theorem checkOptions_ne_ok {a b : List Nat} {e : Res} (h : checkOptions a b = some e) : e ≠ .ok := by
  unfold checkOptions at h
  split at h
  · cases h
  · cases h; intro hh; cases hh

/-- What an `open` does to a state satisfying the invariant. -/
theorem lopen_cases (s : St) (hI : Inv s) (h : Handle) (c : Bool) (o : List Nat) :
    ((lopen s h c o).2 = .ok ∧ s.holder = none ∧ s.dead.contains h.1 = false ∧
       (c = true ∨ (s.dirExists = true ∧ s.cols.isSome = true)) ∧
       (∀ m, s.cols = some m → checkOptions m o = none) ∧
       (lopen s h c o).1 = { s with dirExists := true, lockFile := true, holder := some h, live := [h],
                                     cols := some (s.cols.getD o) }) ∨
    ((lopen s h c o).2 ≠ .ok ∧ (lopen s h c o).1 = { s with lockFile := (lopen s h c o).1.lockFile } ∧
       (s.lockFile = true → (lopen s h c o).1.lockFile = true) ∧
       ((lopen s h c o).1.lockFile = true → s.dirExists = true) ∧
       (s.holder.isSome = true → (lopen s h c o).1 = s)) := by
  rw [lopen_eq]
  obtain ⟨hl, hf, hcd, hld, hal⟩ := hI
  obtain ⟨de, cols, lf, content, holder, live, dead⟩ := s
  simp only at hl hf hcd hld hal
  subst hl
  by_cases hg : (dead.contains h.1 || holder.toList.contains h) = true
  · right; rw [if_pos hg]; simp; exact hld
  · rw [if_neg hg]
    have hd : h.1 ∉ dead := by
      intro hx; apply hg; simp [hx]
    cases holder with
    | some h' =>
      have hne : h' ≠ h := by
        intro e; subst e; simp at hg
      have hff := hf rfl
      obtain ⟨h1, h2, h3⟩ := hff
      subst h1; subst h2
      cases cols with
      | none => simp at h3
      | some m =>
        right
        cases c <;> simp [openSpec, hne]
    | none =>
      cases c <;> cases de <;> cases cols with
      | none => first | (right; simp [openSpec]; (try (cases lf <;> simp_all)); done) | (left; simp [openSpec, hd])
      | some m =>
        first
        | (exfalso; simp at hcd; done)
        | (cases hck : checkOptions m o with
           | none => left; simp [openSpec, hck, hd]
           | some e => right; simp [openSpec, hck]; exact checkOptions_ne_ok hck)

theorem inv_setLock {s : St} (hI : Inv s) (x : Bool) (hx : x = true → s.dirExists = true)
    (hh : s.holder.isSome = true → x = true) : Inv { s with lockFile := x } := by
  obtain ⟨hl, hf, hcd, hld, hal⟩ := hI
  exact ⟨hl, fun h => ⟨(hf h).1, hh h, (hf h).2.2⟩, hcd, hx, hal⟩

theorem inv_lopen {s : St} (hI : Inv s) (h : Handle) (c : Bool) (o : List Nat) : Inv (lopen s h c o).1 := by
  rcases lopen_cases s hI h c o with ⟨_, _, hd, _, _, he⟩ | ⟨_, he, _, hl2, hh⟩
  · rw [he]
    refine ⟨by simp, by simp, by simp, by simp, ?_⟩
    intro h' hh'
    simp at hh'
    subst hh'
    exact hd
  · by_cases hs : s.holder.isSome = true
    · rw [hh hs]; exact hI
    · rw [he]
      exact inv_setLock hI _ hl2 (fun h => absurd h hs)

theorem inv_ldrop {s : St} (hI : Inv s) (h : Handle) : Inv (ldrop s h).1 := by
  rw [ldrop_eq]
  obtain ⟨hl, hf, hcd, hld, hal⟩ := hI
  obtain ⟨de, cols, lf, content, holder, live, dead⟩ := s
  simp only at hl hf hcd hld hal
  subst hl
  by_cases hg : holder.toList.contains h = true
  · rw [if_pos hg]
    cases holder with
    | none => simp at hg
    | some h' =>
      have : h' = h := by have := hg; simp at this; exact this.symm
      subst this
      exact ⟨by simp, by simp, hcd, hld, by simp⟩
  · rw [if_neg hg]
    exact ⟨rfl, hf, hcd, hld, hal⟩

theorem inv_lkill {s : St} (hI : Inv s) (p : Nat) : Inv (lkill s p).1 := by
  unfold lkill
  obtain ⟨hl, hf, hcd, hld, hal⟩ := hI
  obtain ⟨de, cols, lf, content, holder, live, dead⟩ := s
  simp only at hl hf hcd hld hal
  subst hl
  by_cases hg : dead.contains p = true
  · rw [if_pos hg]; exact ⟨rfl, hf, hcd, hld, hal⟩
  · rw [if_neg hg]
    cases holder with
    | none => exact ⟨by simp, by simp, hcd, hld, by simp⟩
    | some h' =>
      by_cases hp : h'.1 = p
      · exact ⟨by simp [hp], by simp [hp], hcd, hld, by simp [hp]⟩
      · refine ⟨by simp [hp], by simpa [hp] using hf, hcd, hld, ?_⟩
        intro h'' hh''
        simp [hp] at hh''
        subst hh''
        have := hal h' rfl
        simp at this ⊢
        exact ⟨fun e => hp e, this⟩

/-- An open by anybody else while a handle is alive: Locked, state unchanged. -/
theorem lopen_held {s : St} (hI : Inv s) {h' : Handle} (hh : s.holder = some h') (h : Handle)
    (hd : s.dead.contains h.1 = false) (hne : h ≠ h') (c : Bool) (o : List Nat) :
    lopen s h c o = (s, .err "Locked") := by
  rw [lopen_eq]
  obtain ⟨hl, hf, hcd, hld, hal⟩ := hI
  obtain ⟨de, cols, lf, content, holder, live, dead⟩ := s
  simp only at hl hf hcd hld hal hh hd
  subst hl; subst hh
  obtain ⟨h1, h2, h3⟩ := hf rfl
  subst h1; subst h2
  have hg : ¬ ((dead.contains h.1 || (some h').toList.contains h) = true) := by
    simp [hne]; simpa using hd
  rw [if_neg hg]
  cases cols with
  | none => simp at h3
  | some m => cases c <;> simp [openSpec, Ne.symm hne]

theorem precheck_cases (s : St) (hI : Inv s) (pid : Nat) (opts : List Nat) :
    (precheck s pid opts = ({ s with lockFile := true }, none) ∧ s.holder = none ∧ s.dirExists = true ∧
      s.dead.contains pid = false ∧ ∃ m, s.cols = some m ∧ checkOptions m opts = none) ∨
    (∃ e x, precheck s pid opts = ({ s with lockFile := x }, some e) ∧ e ≠ .ok ∧
      (s.lockFile = true → x = true) ∧ (x = true → s.dirExists = true) ∧
      (s.holder.isSome = true → x = s.lockFile)) := by
  unfold precheck
  rcases lopen_cases s hI (pid, tmpSlot) false opts with ⟨h1, hn, hd, hc, hck, he⟩ | ⟨h1, he, hl1, hl2, hh⟩
  · left
    simp only [h1, if_true]
    rw [he, ldrop_eq]
    have hlive := hI.live
    obtain ⟨de, cols, lf, content, holder, live, dead⟩ := s
    simp only at hn hd hc hck hlive
    subst hn
    simp at hlive; subst hlive
    rcases hc with hc | ⟨hc1, hc2⟩
    · cases hc
    · subst hc1
      cases cols with
      | none => simp at hc2
      | some m => simp [hck m rfl]; simpa using hd
  · right
    refine ⟨(lopen s (pid, tmpSlot) false opts).2, (lopen s (pid, tmpSlot) false opts).1.lockFile, ?_, h1, hl1, hl2, ?_⟩
    · simp only [h1, if_false]
      rw [← he]
    · intro hs; rw [hh hs]

theorem inv_admin_mod {s : St} (hI : Inv s) (hn : s.holder = none) (hd : s.dirExists = true)
    (c : Option (List Nat)) (k : List ((Nat × Nat) × Nat)) :
    Inv { s with lockFile := true, cols := c, content := k } := by
  obtain ⟨hl, hf, hcd, hld, hal⟩ := hI
  exact ⟨hl, by simp [hn], fun _ => hd, fun _ => hd, hal⟩

theorem inv_precheck_err {s : St} (hI : Inv s) {x : Bool} (h2 : x = true → s.dirExists = true)
    (h3 : s.holder.isSome = true → x = s.lockFile) : Inv { s with lockFile := x } :=
  inv_setLock hI x h2 (fun hs => by rw [h3 hs]; exact (hI.files hs).2.1)

theorem inv_ladd {s : St} (hI : Inv s) (p : Nat) (o : List Nat) (c : Nat) : Inv (laddColumn s p o c).1 := by
  unfold laddColumn
  rcases precheck_cases s hI p o with ⟨he, hn, hd, _, _⟩ | ⟨e, x, he, _, _, h2, h3⟩
  · rw [he]; simp only
    split
    · exact inv_admin_mod hI hn hd s.cols s.content
    · exact inv_admin_mod hI hn hd _ s.content
  · rw [he]; exact inv_precheck_err hI h2 h3

theorem inv_ldropLast {s : St} (hI : Inv s) (p : Nat) (o : List Nat) : Inv (ldropLast s p o).1 := by
  unfold ldropLast
  rcases precheck_cases s hI p o with ⟨he, hn, hd, _, _⟩ | ⟨e, x, he, _, _, h2, h3⟩
  · rw [he]; simp only
    split
    · exact inv_admin_mod hI hn hd s.cols s.content
    · split
      · exact inv_admin_mod hI hn hd s.cols s.content
      · exact inv_admin_mod hI hn hd _ _
  · rw [he]; exact inv_precheck_err hI h2 h3

theorem inv_lreset {s : St} (hI : Inv s) (p : Nat) (o : List Nat) (i : Nat) (c : Option Nat) :
    Inv (lreset s p o i c).1 := by
  unfold lreset
  rcases precheck_cases s hI p o with ⟨he, hn, hd, _, _⟩ | ⟨e, x, he, _, _, h2, h3⟩
  · rw [he]; simp only
    split
    · exact inv_admin_mod hI hn hd s.cols s.content
    · cases c with
      | none => exact inv_admin_mod hI hn hd s.cols _
      | some y => exact inv_admin_mod hI hn hd _ _
  · rw [he]; exact inv_precheck_err hI h2 h3

theorem inv_lclear {s : St} (hI : Inv s) (p : Nat) (i : Nat) : Inv (lclear s p i).1 := by
  unfold lclear
  split
  · exact hI
  · split
    · exact hI
    · split
      · exact hI
      · rename_i stored _ _
        rcases precheck_cases s hI p stored with ⟨he, hn, hd, _, _⟩ | ⟨e, x, he, _, _, h2, h3⟩
        · rw [he]; exact inv_admin_mod hI hn hd s.cols _
        · rw [he]; exact inv_precheck_err hI h2 h3

theorem inv_apply {s : St} (hI : Inv s) (op : Op) : Inv (apply s op).1 := by
  cases op with
  | env e =>
    obtain ⟨hl, hf, hcd, hld, hal⟩ := hI
    cases e with
    | mkdir => exact ⟨hl, fun h => ⟨rfl, (hf h).2⟩, fun _ => rfl, fun _ => rfl, hal⟩
    | touchLock =>
      simp only [apply, lenv]
      split
      · rename_i hd; exact ⟨hl, fun h => ⟨(hf h).1, rfl, (hf h).2.2⟩, hcd, fun _ => hd, hal⟩
      · exact ⟨hl, hf, hcd, hld, hal⟩
    | rmLock =>
      simp only [apply, lenv]
      split
      · rename_i hn
        refine ⟨hl, fun h => ?_, hcd, fun h => by simp at h, hal⟩
        cases hx : s.holder <;> simp [hx] at hn h
      · exact ⟨hl, hf, hcd, hld, hal⟩
  | «open» h c o => exact inv_lopen hI h c o
  | commit h c k v =>
    obtain ⟨hl, hf, hcd, hld, hal⟩ := hI
    simp only [apply, lcommit]
    split
    · cases v <;> exact ⟨hl, hf, hcd, hld, hal⟩
    · exact ⟨hl, hf, hcd, hld, hal⟩
  | get h c k => exact hI
  | fp h => exact hI
  | drop h => exact inv_ldrop hI h
  | kill p => exact inv_lkill hI p
  | ls => exact hI
  | add p o c => simp only [apply]; split; exact hI; exact inv_ladd hI p o c
  | dropLast p o => simp only [apply]; split; exact hI; exact inv_ldropLast hI p o
  | reset p o i c => simp only [apply]; split; exact hI; exact inv_lreset hI p o i c
  | clear p i => exact inv_lclear hI p i

theorem inv_runOps : ∀ (ops : List Op) (s : St), Inv s → Inv (runOps s ops)
  | [], _, h => h
  | o :: os, s, h => inv_runOps os _ (inv_apply h o)

theorem inv_reachable {s : St} (h : Reachable s) : Inv s := by
  obtain ⟨ops, rfl⟩ := h
  exact inv_runOps ops init inv_init

/-- With the lock free an open with acceptable options succeeds and takes the lock. -/
theorem lopen_free {s : St} (hI : Inv s) (hn : s.holder = none) (h : Handle)
    (hd : s.dead.contains h.1 = false) (c : Bool) (o : List Nat)
    (hc : c = true ∨ s.cols.isSome = true) (hck : ∀ m, s.cols = some m → checkOptions m o = none) :
    lopen s h c o = ({ s with dirExists := true, lockFile := true, holder := some h, live := [h],
                              cols := some (s.cols.getD o) }, .ok) := by
  rw [lopen_eq]
  obtain ⟨hl, hf, hcd, hld, hal⟩ := hI
  obtain ⟨de, cols, lf, content, holder, live, dead⟩ := s
  simp only at hl hf hcd hld hal hn hd hc hck
  subst hn
  simp at hl; subst hl
  have hg : ¬ ((dead.contains h.1 || ([] : List Handle).contains h) = true) := by
    simpa using hd
  rw [if_neg hg]
  cases cols with
  | none =>
    rcases hc with hc | hc
    · subst hc; simp [openSpec]
    · simp at hc
  | some m =>
    have hde : de = true := hcd rfl
    subst hde
    cases c <;> simp [openSpec, hck m rfl]

theorem precheck_held {s : St} (hI : Inv s) {h' : Handle} (hh : s.holder = some h') (p : Nat)
    (hd : s.dead.contains p = false) (hne : h' ≠ (p, tmpSlot)) (o : List Nat) :
    precheck s p o = (s, some (.err "Locked")) := by
  unfold precheck
  rw [lopen_held hI hh (p, tmpSlot) hd (Ne.symm hne) false o]
  simp
