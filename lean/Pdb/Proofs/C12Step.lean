/-
C12: every event allowed by the discipline preserves the invariant (table part, control part).
-/
import Pdb.Proofs.C12

set_option linter.unusedSectionVars false
set_option linter.unusedSimpArgs false
set_option linter.unusedVariables false
namespace Pdb
namespace Dur
variable {V : Type}

/-! ### table part -/

theorem TblI.tableSync {t0 vol dur : Tbl Loc V} {recs : List (Rec Loc V)} {done wr cleaned : Nat}
    {dirty : List (Nat × Nat)} (h : TblI t0 vol dur recs done wr cleaned dirty) (t : Nat) :
    TblI t0 vol (fun l => if l.file = t then vol l else dur l) recs done wr cleaned
      (dirty.filter (fun d => d.1 ≠ t)) := by
  refine ⟨h.hvol, ?_, ?_⟩
  · intro l hl
    by_cases e : l.file = t
    · simp [e]
    · simp only [e, if_false]
      apply h.hdur
      intro d hd hdf r h1 h2
      refine hl d (List.mem_filter.mpr ⟨hd, ?_⟩) hdf r h1 h2
      simp [hdf, e]
  · intro d hd
    exact h.hdirty d (List.mem_filter.mp hd).1

theorem busyOf_succ (done wr : Nat) : busyOf done (wr + 1) = done + 1 := by
  simp [busyOf]

theorem busyOf_zero (done : Nat) : busyOf done 0 = done := by
  simp [busyOf]

theorem TblI.tableWrite {t0 vol dur : Tbl Loc V} {recs : List (Rec Loc V)}
    {done wr cleaned synced : Nat} {dirty : List (Nat × Nat)}
    (h : TblI t0 vol dur recs done wr cleaned dirty) (hc : CtlI recs synced cleaned done wr)
    (loc : Loc) (val : Cell V) (hget : (recOf recs (done + 1))[wr]? = some (loc, val)) :
    TblI t0 (upd vol loc val) dur recs done (wr + 1) cleaned
      (if dirty.any (fun d => d.1 = loc.file) then dirty else dirty ++ [(loc.file, done + 1)]) := by
  have hmem : (loc, val) ∈ recOf recs (done + 1) := List.mem_of_getElem? hget
  have hbusy : busyOf done wr ≤ done + 1 := busyOf_le done wr
  refine ⟨?_, ?_, ?_⟩
  · rw [List.take_add_one, hget, applyRec_append, ← h.hvol]
    rfl
  · intro l hl
    rw [busyOf_succ] at hl
    by_cases e : l = loc
    · subst e
      exfalso
      have hex : ∃ d, d ∈ (if dirty.any (fun d => d.1 = l.file) then dirty
          else dirty ++ [(l.file, done + 1)]) ∧ d.1 = l.file ∧ d.2 ≤ done + 1 := by
        by_cases hany : dirty.any (fun d => d.1 = l.file) = true
        · rw [List.any_eq_true] at hany
          obtain ⟨d, hd, hdf⟩ := hany
          have hany' : dirty.any (fun d => d.1 = l.file) = true :=
            List.any_eq_true.mpr ⟨d, hd, hdf⟩
          refine ⟨d, ?_, by simpa using hdf, Nat.le_trans (h.hdirty d hd).2 hbusy⟩
          rw [if_pos hany']
          exact hd
        · refine ⟨(l.file, done + 1), ?_, rfl, Nat.le_refl _⟩
          rw [if_neg hany]
          simp
      obtain ⟨d, hd, hdf, hd2⟩ := hex
      exact lastW_mem _ _ _ hmem (hl d hd hdf (done + 1) hd2 (Nat.le_refl _))
    · rw [upd_other _ _ _ _ e]
      apply h.hdur
      intro d hd hdf r h1 h2
      refine hl d ?_ hdf r h1 (Nat.le_trans h2 hbusy)
      split
      · exact hd
      · exact List.mem_append_left _ hd
  · intro d hd
    rw [busyOf_succ]
    have hd' : d ∈ dirty ∨ d = (loc.file, done + 1) := by
      split at hd
      · exact Or.inl hd
      · rcases List.mem_append.mp hd with hd | hd
        · exact Or.inl hd
        · exact Or.inr (by simpa using hd)
    rcases hd' with hd' | hd'
    · exact ⟨(h.hdirty d hd').1, Nat.le_trans (h.hdirty d hd').2 hbusy⟩
    · subst hd'
      have := hc.cd
      exact ⟨by simp only; omega, Nat.le_refl _⟩

theorem TblI.enactEnd {t0 vol dur : Tbl Loc V} {recs : List (Rec Loc V)} {done wr cleaned : Nat}
    {dirty : List (Nat × Nat)} (h : TblI t0 vol dur recs done wr cleaned dirty)
    (hwr : wr = (recOf recs (done + 1)).length) (hlt : done < recs.length) :
    TblI t0 vol dur recs (done + 1) 0 cleaned dirty := by
  have hbusy : busyOf done wr ≤ done + 1 := busyOf_le done wr
  refine ⟨?_, ?_, ?_⟩
  · rw [h.hvol, hwr, List.take_length, tablesAfter_succ t0 recs done hlt]
    simp [applyRec]
  · intro l hl
    rw [busyOf_zero] at hl
    apply h.hdur
    intro d hd hdf r h1 h2
    exact hl d hd hdf r h1 (Nat.le_trans h2 hbusy)
  · intro d hd
    rw [busyOf_zero]
    exact ⟨(h.hdirty d hd).1, Nat.le_trans (h.hdirty d hd).2 hbusy⟩

theorem CtlI.done_le {recs : List (Rec Loc V)} {synced cleaned done wr : Nat}
    (hc : CtlI recs synced cleaned done wr) : done ≤ recs.length :=
  Nat.le_trans (Nat.le_trans (le_busyOf done wr) hc.ds) hc.sn

theorem TblI.logAppend {t0 vol dur : Tbl Loc V} {recs : List (Rec Loc V)}
    {done wr cleaned synced : Nat} {dirty : List (Nat × Nat)}
    (h : TblI t0 vol dur recs done wr cleaned dirty) (hc : CtlI recs synced cleaned done wr)
    (ws : Rec Loc V) : TblI t0 vol dur (recs ++ [ws]) done wr cleaned dirty := by
  have hbn : busyOf done wr ≤ recs.length := Nat.le_trans hc.ds hc.sn
  refine ⟨?_, ?_, h.hdirty⟩
  · rw [tablesAfter_append t0 recs ws done hc.done_le]
    by_cases hw : wr = 0
    · have := h.hvol
      rw [hw] at this ⊢
      simpa using this
    · have : done + 1 ≤ recs.length := by
        have : busyOf done wr = done + 1 := by simp [busyOf, hw]
        omega
      rw [recOf_append_le recs ws (done + 1) this (by omega)]
      exact h.hvol
  · intro l hl
    apply h.hdur
    intro d hd hdf r h1 h2
    have := hl d hd hdf r h1 h2
    have hpos : 1 ≤ r := by have := (h.hdirty d hd).1; omega
    rwa [recOf_append_le recs ws r (by omega) hpos] at this

theorem TblI.clean {t0 vol dur : Tbl Loc V} {recs : List (Rec Loc V)} {done wr cleaned : Nat}
    {dirty : List (Nat × Nat)} (h : TblI t0 vol dur recs done wr cleaned dirty) (c' : Nat)
    (hd : ∀ d ∈ dirty, c' < d.2) : TblI t0 vol dur recs done wr c' dirty :=
  ⟨h.hvol, h.hdur, fun d hdm => ⟨hd d hdm, (h.hdirty d hdm).2⟩⟩

/-! ### control part -/

theorem CtlI.tableWrite {recs : List (Rec Loc V)} {synced cleaned done wr : Nat}
    (hc : CtlI recs synced cleaned done wr) (hs : done + 1 ≤ synced)
    (x : Loc × Cell V) (hget : (recOf recs (done + 1))[wr]? = some x) :
    CtlI recs synced cleaned done (wr + 1) := by
  refine ⟨hc.cd, by rw [busyOf_succ]; exact hs, hc.sn, ?_⟩
  rcases List.getElem?_eq_some_iff.mp hget with ⟨h', _⟩
  omega

theorem CtlI.enactEnd {recs : List (Rec Loc V)} {synced cleaned done wr : Nat}
    (hc : CtlI recs synced cleaned done wr) (hs : done + 1 ≤ synced) :
    CtlI recs synced cleaned (done + 1) 0 := by
  refine ⟨by have := hc.cd; omega, by rw [busyOf_zero]; exact hs, hc.sn, by simp⟩

theorem CtlI.logAppend {recs : List (Rec Loc V)} {synced cleaned done wr : Nat}
    (hc : CtlI recs synced cleaned done wr) (ws : Rec Loc V) :
    CtlI (recs ++ [ws]) synced cleaned done wr := by
  refine ⟨hc.cd, hc.ds, by have := hc.sn; simp; omega, ?_⟩
  by_cases hw : wr = 0
  · simp [hw]
  · have hb : busyOf done wr = done + 1 := by simp [busyOf, hw]
    have := hc.ds
    have := hc.sn
    rw [recOf_append_le recs ws (done + 1) (by omega) (by omega)]
    exact hc.wrl

theorem CtlI.logSync {recs : List (Rec Loc V)} {synced cleaned done wr : Nat}
    (hc : CtlI recs synced cleaned done wr) (p : Prop) [Decidable p] :
    CtlI recs (if p then recs.length else synced) cleaned done wr := by
  refine ⟨hc.cd, ?_, ?_, hc.wrl⟩
  · split
    · exact Nat.le_trans hc.ds hc.sn
    · exact hc.ds
  · split
    · exact Nat.le_refl _
    · exact hc.sn

theorem CtlI.clean {recs : List (Rec Loc V)} {synced cleaned done wr : Nat}
    (hc : CtlI recs synced cleaned done wr) (c' : Nat) (h : c' ≤ done) :
    CtlI recs synced c' done wr :=
  ⟨h, hc.ds, hc.sn, hc.wrl⟩

end Dur
end Pdb
