/-
R7 for histories WITH index growth: records are enacted with their validation pass (`enact`), a
history step either keeps the tables or grows the index by one step (`StepShape`).
-/
import Pdb.Model.PhysRecV
import Pdb.Proofs.PhysRecGrow

namespace Pdb.PhysRec
open Pdb.Gen Pdb.Index Pdb.IndexPage Pdb.ValueTable Pdb.Refine

theorem Write.Ok.mono {S S' : List Nat} {w : Write} (h : Write.Ok S w) (hs : ∀ b ∈ S, b ∈ S') :
    Write.Ok S' w := by
  obtain ⟨wl, wi⟩ := w
  cases wl with
  | idx b c i => exact ⟨hs b h.1, h.2⟩
  | val tier s => trivial
  | hdr tier => exact h

theorem namesMissing_false (q : PCol) (ws : List Write) (h : ∀ w ∈ ws, Write.Ok (shape q) w) :
    namesMissing q ws = false := by
  simp only [namesMissing, List.any_eq_false]
  intro w hw
  have := h w hw
  obtain ⟨wl, wi⟩ := w
  cases wl with
  | idx b c i => simp [this.1]
  | val tier s => simp
  | hdr tier => simp

theorem namesMissing_congr (q p : PCol) (h : shape q = shape p) (ws : List Write) :
    namesMissing q ws = namesMissing p ws := by
  simp only [namesMissing, h]

theorem validate_eq_grow (q : PCol) (ws : List Write) (h : namesMissing q ws = true) :
    validate q ws = grow1 q := by
  simp [validate, h, grow1]

theorem validate_eq_self (q : PCol) (ws : List Write) (h : namesMissing q ws = false) :
    validate q ws = q := by
  simp [validate, h]

theorem shape_grow1_congr (q p : PCol) (h : shape q = shape p) : shape (grow1 q) = shape (grow1 p) := by
  rw [shape_grow1, shape_grow1]
  simp only [shape, PCol.tables, List.map_cons, List.cons.injEq] at h
  rw [h.1, h.2]

theorem shape_sub_grow1' (p : PCol) : ∀ b ∈ shape p, b ∈ shape (grow1 p) := by
  intro b hb
  rw [shape_grow1]
  simp only [shape, PCol.tables, List.map_cons, List.mem_cons] at hb
  simp only [List.mem_cons, List.mem_append, List.not_mem_nil, or_false]
  rcases hb with h | h
  · exact Or.inr (Or.inr h)
  · exact Or.inr (Or.inl h)

/-- ENACTMENT OF ONE RECORD (validation + apply) on the memory: either the column has all the tables
the record names, or the record names a missing table and one growth step provides them. -/
theorem enact_mem (q : PCol) (ws : List Write) (S' : List Nat) (hok : ∀ w ∈ ws, Write.Ok S' w)
    (h : shape q = S' ∨ (shape (grow1 q) = S' ∧ S'.Nodup ∧ namesMissing q ws = true)) :
    (∀ l, Loc.Ok l → mem (enact q ws) l = mapplys (mem q) ws l) ∧ shape (enact q ws) = S' := by
  rcases h with h | ⟨h, hnd, hn⟩
  · have hok' : ∀ w ∈ ws, Write.Ok (shape q) w := by rw [h]; exact hok
    have : enact q ws = applyWrites q ws := by
      simp only [enact, validate_eq_self q ws (namesMissing_false q ws hok')]
    rw [this]
    obtain ⟨hm, hs⟩ := mem_applyWrites ws q hok'
    exact ⟨hm, hs.shape.trans h⟩
  · have : enact q ws = applyWrites (grow1 q) ws := by
      simp only [enact, validate_eq_grow q ws hn]
    rw [this]
    obtain ⟨hm, hs⟩ := mem_applyWrites ws (grow1 q) (by rw [h]; exact hok)
    refine ⟨fun l hl => ?_, hs.shape.trans h⟩
    rw [hm l hl]
    exact mapplys_congr ws _ _ l (mem_grow1 q (h ▸ hnd) l)

/-- how the tables change in one step of a history: not at all, or by one growth step whose record
names the new table (`namesMissing`: true of every growing record the crate writes - the insert
that did not fit goes into the new table; decidable, checked in the examples; the `physrec` tie
sees an `I<bits+1>` token in every such record) -/
def StepShape (p p1 : PCol) (ws : List Write) : Prop :=
  shape p1 = shape p ∨ (shape p1 = shape (grow1 p) ∧ (shape p1).Nodup ∧ namesMissing p ws = true)

theorem StepShape.sub {p p1 : PCol} {ws : List Write} (h : StepShape p p1 ws) :
    ∀ b ∈ shape p, b ∈ shape p1 := by
  rcases h with h | ⟨h, _, _⟩
  · rw [h]; exact fun _ hb => hb
  · rw [h]; exact shape_sub_grow1' p

/-- a history of framed steps, with or without growth, and their diff records -/
inductive HistV : PCol → List (List Write) → PCol → Prop
  | nil (p : PCol) : HistV p [] p
  | cons {p p1 p' : PCol} {T : List (Nat × Nat)} {recs : List (List Write)} :
      VFrame T p p1 → StepShape p p1 (recOf T p p1) → HistV p1 recs p' →
      HistV p (recOf T p p1 :: recs) p'

theorem HistV.sub {p recs p'} (h : HistV p recs p') : ∀ b ∈ shape p, b ∈ shape p' := by
  induction h with
  | nil p => exact fun _ hb => hb
  | cons _ hs _ ih => exact fun b hb => ih b (hs.sub b hb)

/-- every write of the history is enacted without skip in the final tables -/
theorem HistV.ok_final {p recs p'} (h : HistV p recs p') :
    ∀ w ∈ recs.flatten, Write.Ok (shape p') w := by
  induction h with
  | nil p => intro w hw; cases hw
  | @cons p p1 p' T recs _ hs hrest ih =>
    intro w hw
    rw [List.flatten_cons] at hw
    rcases List.mem_append.1 hw with hw | hw
    · exact (diff_ok' T p p1 (shape p1) hs.sub (fun _ hb => hb) w hw).mono hrest.sub
    · exact ih w hw

theorem enactAll_cons (q : PCol) (r : List Write) (rs : List (List Write)) :
    enactAll q (r :: rs) = enactAll (enact q r) rs := rfl

theorem enactAll_append (q : PCol) (a b : List (List Write)) :
    enactAll q (a ++ b) = enactAll (enactAll q a) b := by
  simp [enactAll, List.foldl_append]

/-- CORE: replaying the records of a history from any column that has the tables of its start is,
on the memory, the plain application of all their writes, and ends with the tables of its end. -/
theorem HistV.enact {p recs p'} (h : HistV p recs p') :
    ∀ q, shape q = shape p →
      (∀ l, Loc.Ok l → mem (enactAll q recs) l = mapplys (mem q) recs.flatten l) ∧
        shape (enactAll q recs) = shape p' := by
  induction h with
  | nil p => intro q hq; exact ⟨fun _ _ => rfl, hq⟩
  | @cons p p1 p' T recs _ hs _ ih =>
    intro q hq
    have hok : ∀ w ∈ recOf T p p1, Write.Ok (shape p1) w :=
      fun w hw => diff_ok' T p p1 (shape p1) hs.sub (fun _ hb => hb) w hw
    have hcase : shape q = shape p1 ∨
        (shape (grow1 q) = shape p1 ∧ (shape p1).Nodup ∧ namesMissing q (recOf T p p1) = true) := by
      rcases hs with h | ⟨h1, h2, h3⟩
      · exact Or.inl (hq.trans h.symm)
      · exact Or.inr ⟨(shape_grow1_congr q p hq).trans h1.symm, h2,
          (namesMissing_congr q p hq _).trans h3⟩
    obtain ⟨hm, hsh⟩ := enact_mem q (recOf T p p1) (shape p1) hok hcase
    obtain ⟨hm2, hsh2⟩ := ih (PhysRec.enact q (recOf T p p1)) hsh
    refine ⟨fun l hl => ?_, hsh2⟩
    rw [enactAll_cons, hm2 l hl, List.flatten_cons, mapplys_append]
    exact mapplys_congr _ _ _ l (hm l hl)

/-- the records of a history, on the memory of its start, give the memory of its end -/
theorem HistV.mapplys {p recs p'} (h : HistV p recs p') (l : Loc) (hl : Loc.Ok l) :
    ∀ m : Mem, m l = mem p l → PhysRec.mapplys m recs.flatten l = mem p' l := by
  induction h with
  | nil p => intro m hm; exact hm
  | @cons p p1 p' T recs hf _ _ ih =>
    intro m hm
    rw [List.flatten_cons, mapplys_append]
    apply ih
    rw [mapplys_congr _ m (mem p) l hm]
    unfold recOf
    rw [mapplys_diff_self]
    split
    · rfl
    · rename_i hn
      exact (frame_of_vframe T p p1 hf l hl hn).symm

theorem HistV.split {p' : PCol} (a : List (List Write)) : ∀ {b : List (List Write)} {p : PCol},
    HistV p (a ++ b) p' → ∃ pm, HistV p a pm ∧ HistV pm b p' := by
  induction a with
  | nil => intro b p h; exact ⟨p, .nil p, h⟩
  | cons x xs ih =>
    intro b p h
    cases h with
    | cons hf hs hrest =>
      obtain ⟨pm, h1, h2⟩ := ih hrest
      exact ⟨pm, .cons hf hs h1, h2⟩

/-- replaying records whose tables the column already has: plain application, tables unchanged -/
theorem enactAll_old (recs : List (List Write)) : ∀ (c : PCol),
    (∀ w ∈ recs.flatten, Write.Ok (shape c) w) →
    (∀ l, Loc.Ok l → mem (enactAll c recs) l = mapplys (mem c) recs.flatten l) ∧
      shape (enactAll c recs) = shape c := by
  induction recs with
  | nil => intro c _; exact ⟨fun _ _ => rfl, rfl⟩
  | cons r rs ih =>
    intro c hok
    have hr : ∀ w ∈ r, Write.Ok (shape c) w := fun w hw => hok w (by simp [hw])
    obtain ⟨hm, hs⟩ := enact_mem c r (shape c) hr (Or.inl rfl)
    obtain ⟨hm2, hs2⟩ := ih (enact c r) (fun w hw => by
      rw [hs]; exact hok w (by rw [List.flatten_cons]; exact List.mem_append_right _ hw))
    refine ⟨fun l hl => ?_, hs2.trans hs⟩
    rw [enactAll_cons, hm2 l hl, List.flatten_cons, mapplys_append]
    exact mapplys_congr _ _ _ l (hm l hl)

/-- TORN ENACTMENT + REPLAY in a history with growth.  `c` is the crash state: it reads like
"`pre ++ mid` enacted, the first `j` writes of `r` enacted" and has the tables of the state before
`r` or of the state after `r` (the validation pass of `r` grew the index in memory; on disk the new
table exists iff one of the enacted writes went into it).  Replaying `mid ++ r :: post` with
validation passes gives a column that reads like the end of the history and has its tables. -/
theorem HistV.redo {p p' : PCol} (pre mid post : List (List Write)) (r : List Write)
    (h : HistV p (pre ++ mid ++ r :: post) p') (j : Nat) (c : PCol)
    (hcm : ∀ l, Loc.Ok l →
      mem c l = PhysRec.mapplys (PhysRec.mapplys (mem p) (pre ++ mid).flatten) (r.take j) l) :
    ∃ pb pc, HistV p (pre ++ mid) pb ∧ HistV pb [r] pc ∧
      ((shape c = shape pb ∨ shape c = shape pc) →
        (∀ l, Loc.Ok l → mem (enactAll c (mid ++ r :: post)) l = mem p' l) ∧
          shape (enactAll c (mid ++ r :: post)) = shape p') := by
  have h0 : HistV p ((pre ++ mid) ++ ([r] ++ post)) p' := by simpa [List.append_assoc] using h
  obtain ⟨pb, hA, hB⟩ := HistV.split (pre ++ mid) h0
  obtain ⟨pc, hR, hP⟩ := HistV.split [r] hB
  obtain ⟨pa, _, hM⟩ := HistV.split pre hA
  refine ⟨pb, pc, hA, hR, fun hc => ?_⟩
  -- 1. mid over c
  have hsub_bc : ∀ b ∈ shape pb, b ∈ shape pc := hR.sub
  have hsub_b_c : ∀ b ∈ shape pb, b ∈ shape c := by
    rcases hc with e | e <;> rw [e]
    · exact fun _ hb => hb
    · exact hsub_bc
  have okMid : ∀ w ∈ mid.flatten, Write.Ok (shape c) w :=
    fun w hw => (hM.ok_final w hw).mono hsub_b_c
  obtain ⟨m1, s1⟩ := enactAll_old mid c okMid
  -- 2. r over c2
  have hRok : ∀ w ∈ r, Write.Ok (shape pc) w := fun w hw => hR.ok_final w (by simpa using hw)
  have hcase : shape (enactAll c mid) = shape pc ∨
      (shape (grow1 (enactAll c mid)) = shape pc ∧ (shape pc).Nodup ∧
        namesMissing (enactAll c mid) r = true) := by
    rcases hc with e | e
    · cases hR with
      | cons hf hs hn =>
        cases hn
        rcases hs with hs | ⟨g1, g2, g3⟩
        · exact Or.inl ((s1.trans e).trans hs.symm)
        · exact Or.inr ⟨(shape_grow1_congr _ pb (s1.trans e)).trans g1.symm, g2,
            (namesMissing_congr _ pb (s1.trans e) _).trans g3⟩
    · exact Or.inl (s1.trans e)
  obtain ⟨m2, s2⟩ := enact_mem (enactAll c mid) r (shape pc) hRok hcase
  -- 3. post
  obtain ⟨m3, s3⟩ := hP.enact (PhysRec.enact (enactAll c mid) r) s2
  have e : enactAll c (mid ++ r :: post) = enactAll (PhysRec.enact (enactAll c mid) r) post := by
    rw [enactAll_append, enactAll_cons]
  rw [e]
  refine ⟨fun l hl => ?_, s3⟩
  rw [m3 l hl]
  have step : PhysRec.mapplys (mem (PhysRec.enact (enactAll c mid) r)) post.flatten l =
      PhysRec.mapplys (mem c) (mid ++ r :: post).flatten l := by
    have : (mid ++ r :: post).flatten = mid.flatten ++ (r ++ post.flatten) := by simp
    rw [this, mapplys_append, mapplys_append]
    apply mapplys_congr
    rw [m2 l hl]
    exact mapplys_congr _ _ _ l (m1 l hl)
  rw [step, mapplys_congr _ _ _ l (hcm l hl), redo_seq]
  exact h.mapplys l hl (mem p) rfl

end Pdb.PhysRec
