/-
State-level invariants of the slot-level reader model:
  `RepInv`  the published image represents the key-level table of the published commits
            (any discipline);
  `RInv`    per-reader facts under the lock discipline: after the commit-overlay miss for `k`
            no later record writes `k`, so `k`'s index ENTRY and `k`'s SLOT are stable, and
            whatever the reader has read so far (log overlay or file, chunk or slot) is
            consistent with them although other entries of the chunk, other slots, and the
            files under the overlay keep changing.
-/
import Pdb.Proofs.C05SlotPlan

set_option linter.unusedSectionVars false
set_option linter.unusedSimpArgs false
set_option linter.unusedVariables false
namespace Pdb
namespace CSlot
variable {K V : Type} [DecidableEq K]

/-! ### RepInv -/

def RepInv (chunkOf : K → Nat) (s : SSt K V) : Prop := Rep chunkOf s.pub s.alloc (pubT s)

theorem RepInv.init (chunkOf : K → Nat) : RepInv chunkOf (SSt.init : SSt K V) := by
  have h := Rep.init (K := K) (V := V) chunkOf
  apply h.congrT
  intro k
  simp [pubT, SSt.init, spec, applyOps]

theorem RepInv.congr {chunkOf : K → Nat} {s s' : SSt K V} (h1 : s'.pub = s.pub)
    (h2 : s'.alloc = s.alloc) (h3 : s'.hist = s.hist) (h4 : s'.npub = s.npub)
    (h : RepInv chunkOf s) : RepInv chunkOf s' := by
  unfold RepInv pubT at *
  rw [h1, h2, h3, h4]; exact h

theorem RepInv.commit {chunkOf : K → Nat} {s : SSt K V} (ki : KInv s) (h : RepInv chunkOf s)
    (s' : SSt K V) (tx : List (Op K V)) (h1 : s'.pub = s.pub) (h2 : s'.alloc = s.alloc)
    (h3 : s'.hist = s.hist ++ [tx]) (h4 : s'.npub = s.npub) : RepInv chunkOf s' := by
  unfold RepInv
  rw [pubT_snoc ki s' tx h3 h4, h1, h2]
  exact h

theorem RepInv.publish {tier : V → Nat} {chunkOf : K → Nat} {s : SSt K V} (sh : ShInv s)
    (ki : KInv s) (h : RepInv chunkOf s) (c : Commit K V) (hi : s.inflight = some (c, false))
    (s' : SSt K V)
    (h1 : s'.pub = applyLocs s.pub (planOps tier chunkOf (sview s) s.alloc c.ops).1)
    (h2 : s'.alloc = (planOps tier chunkOf (sview s) s.alloc c.ops).2)
    (h3 : s'.hist = s.hist) (h4 : s'.npub = s.npub + 1) : RepInv chunkOf s' := by
  unfold RepInv
  rw [pubT_publish ki c hi s' h3 h4, h1, h2, sh.sview_eq]
  exact planOps_rep tier chunkOf h c.ops (ki.plan_facts c hi).2.2.1

theorem RepInv.step (cfg : Cfg) (tier : V → Nat) (chunkOf : K → Nat) (N : Nat) {s : SSt K V}
    (sh : ShInv s) (ki : KInv s) (h : RepInv chunkOf s) (a : SAct K V) :
    RepInv chunkOf (sstep cfg tier chunkOf N s a) := by
  by_cases hr : a.isReader = true
  · have hc := sameCore_reader cfg tier chunkOf N s a hr
    exact h.congr hc.pub hc.alloc hc.hist hc.npub
  · cases a with
    | commit tx =>
      simp only [sstep]
      split
      · exact h
      · split
        · exact h
        · exact RepInv.commit ki h _ tx rfl rfl rfl rfl
    | pop =>
      simp only [sstep]
      split
      · exact RepInv.congr (s := s) rfl rfl rfl rfl h
      · exact h
    | publish =>
      simp only [sstep]
      split
      · rename_i c hi
        exact RepInv.publish sh ki h c hi _ rfl rfl rfl rfl
      · exact h
    | cleanOverlay =>
      simp only [sstep]
      split
      · exact h
      · split
        · exact RepInv.congr (s := s) rfl rfl rfl rfl h
        · exact h
    | flush => exact RepInv.congr (s := s) rfl rfl rfl rfl h
    | enactWrite =>
      simp only [sstep]
      split
      · split
        · exact RepInv.congr (s := s) rfl rfl rfl rfl h
        · exact h
      · exact h
    | endRead =>
      simp only [sstep]
      split
      · split
        · exact RepInv.congr (s := s) rfl rfl rfl rfl h
        · exact h
      · exact h
    | _ => simp [SAct.isReader] at hr

/-! ### reader invariant -/

/-- What is known about a reader at each program point (under the lock discipline). -/
def RdOk (chunkOf : K → Nat) (s : SSt K V) : RPc K V → Prop
  | .idle => True
  | .started _ q => q = s.hist.length
  | .missedOv k q => q = s.hist.length ∧ s.overlay k = none
  | .missedIdx k q => q = s.hist.length ∧ s.overlay k = none ∧
      (∀ r ∈ s.logged, ∀ x, Loc.chunk (chunkOf k) x ∈ r.writes →
        findA k x = findA k (s.pub.chunk (chunkOf k))) ∧
      findA k (s.files.chunk (chunkOf k)) = findA k (s.pub.chunk (chunkOf k))
  | .gotAddr k q a => q = s.hist.length ∧ s.overlay k = none ∧
      findA k (s.pub.chunk (chunkOf k)) = some a
  | .missedVal k q a => q = s.hist.length ∧ s.overlay k = none ∧
      findA k (s.pub.chunk (chunkOf k)) = some a ∧
      (∀ r ∈ s.logged, ∀ x, Loc.slot a x ∉ r.writes) ∧
      s.files.slot a = s.pub.slot a
  | .done k q res _ _ => q = s.hist.length ∧ res = (spec plainK s.hist k).map Prod.fst

def EvOk (s : SSt K V) (e : ReadEvt K V) : Prop :=
  e.startSeq = e.endSeq ∧ e.endSeq ≤ s.hist.length ∧
  e.result = (spec plainK (s.hist.take e.startSeq) e.key).map Prod.fst

structure RInv (chunkOf : K → Nat) (N : Nat) (s : SSt K V) : Prop where
  rd : ∀ t, RdOk chunkOf s (s.readers t)
  rdN : ∀ t, (s.readers t).isIdle = false → t < N
  evs : ∀ e ∈ s.reads, EvOk s e
  mono : s.reads.Pairwise (fun a b => a.endSeq ≤ b.startSeq)

theorem RInv.init (chunkOf : K → Nat) (N : Nat) : RInv chunkOf N (SSt.init : SSt K V) := by
  constructor
  · intro t; simp [SSt.init, RdOk]
  · intro t; simp [SSt.init, RPc.isIdle]
  · simp [SSt.init]
  · simp [SSt.init]

/-- `RdOk` only looks at `hist`, `overlay`, `logged` (downwards closed), `pub`, `files`. -/
theorem RdOk.congr (chunkOf : K → Nat) (s s' : SSt K V) (pc : RPc K V)
    (h1 : s'.hist = s.hist) (h2 : s'.overlay = s.overlay) (h3 : ∀ r ∈ s'.logged, r ∈ s.logged)
    (h4 : s'.pub = s.pub) (h5 : s'.files = s.files)
    (h : RdOk chunkOf s pc) : RdOk chunkOf s' pc := by
  cases pc with
  | idle => trivial
  | started k q => simpa [RdOk, h1] using h
  | missedOv k q => simpa [RdOk, h1, h2] using h
  | missedIdx k q =>
    simp only [RdOk, h1, h2, h4, h5] at h ⊢
    exact ⟨h.1, h.2.1, fun r hr => h.2.2.1 r (h3 r hr), h.2.2.2⟩
  | gotAddr k q a => simpa [RdOk, h1, h2, h4] using h
  | missedVal k q a =>
    simp only [RdOk, h1, h2, h4, h5] at h ⊢
    exact ⟨h.1, h.2.1, h.2.2.1, fun r hr => h.2.2.2.1 r (h3 r hr), h.2.2.2.2⟩
  | done k q res a x => simpa [RdOk, h1] using h

theorem EvOk.congr (s s' : SSt K V) (e : ReadEvt K V) (h1 : s'.hist = s.hist) (h : EvOk s e) :
    EvOk s' e := by
  simpa [EvOk, h1] using h

/-- A step that leaves the readers, the reads and everything `RdOk` looks at alone. -/
theorem RInv.congr {chunkOf : K → Nat} {N : Nat} {s s' : SSt K V}
    (h1 : s'.hist = s.hist) (h2 : s'.overlay = s.overlay) (h3 : ∀ r ∈ s'.logged, r ∈ s.logged)
    (h4 : s'.pub = s.pub) (h5 : s'.files = s.files) (h6 : s'.readers = s.readers)
    (h7 : s'.reads = s.reads) (h : RInv chunkOf N s) : RInv chunkOf N s' := by
  constructor
  · intro t; rw [h6]; exact RdOk.congr chunkOf s s' _ h1 h2 h3 h4 h5 (h.rd t)
  · rw [h6]; exact h.rdN
  · rw [h7]; intro e he; exact EvOk.congr s s' e h1 (h.evs e he)
  · rw [h7]; exact h.mono

theorem holds_of_disc {cfg : Cfg} (hd : cfg.discipline = true) (pc : RPc K V)
    (h : pc.isIdle = false) : holds cfg pc = true := by
  cases pc <;> simp_all [holds, RPc.isIdle]

theorem inside_of {cfg : Cfg} (hd : cfg.discipline = true) {N : Nat} {s : SSt K V} (t : Nat)
    (hi : (s.readers t).isIdle = false) (ht : t < N) : inside cfg N s = true := by
  unfold inside
  rw [List.any_eq_true]
  exact ⟨t, List.mem_range.mpr ht, holds_of_disc hd _ hi⟩

theorem all_idle {cfg : Cfg} (hd : cfg.discipline = true) {chunkOf : K → Nat} {N : Nat}
    {s : SSt K V} (h : RInv chunkOf N s) (hin : ¬ inside cfg N s = true) (t : Nat) :
    s.readers t = .idle := by
  cases hr : s.readers t with
  | idle => rfl
  | _ =>
    have hi : (s.readers t).isIdle = false := by rw [hr]; rfl
    exact absurd (inside_of hd t hi (h.rdN t hi)) hin

/-- With every reader idle, any change of the rest of the state keeps `RInv`, provided the
    history only grows. -/
theorem RInv.of_idle {chunkOf : K → Nat} {N : Nat} {s s' : SSt K V} (h : RInv chunkOf N s)
    (hidle : ∀ t, s.readers t = .idle) (h6 : s'.readers = s.readers) (h7 : s'.reads = s.reads)
    (hh : ∃ l, s'.hist = s.hist ++ l) : RInv chunkOf N s' := by
  obtain ⟨l, hl⟩ := hh
  constructor
  · intro t; rw [h6, hidle t]; trivial
  · rw [h6]; exact h.rdN
  · rw [h7]
    intro e he
    have := h.evs e he
    simp only [EvOk, hl, List.length_append] at this ⊢
    refine ⟨this.1, by omega, ?_⟩
    rw [List.take_append_of_le_length (by omega)]
    exact this.2.2
  · rw [h7]; exact h.mono

theorem RInv.setReader {chunkOf : K → Nat} {N : Nat} {s : SSt K V} (h : RInv chunkOf N s)
    (t : Nat) (pc : RPc K V) (hpc : RdOk chunkOf s pc) (hN : pc.isIdle = false → t < N) :
    RInv chunkOf N (CSlot.setReader s t pc) := by
  constructor
  · intro t'
    simp only [CSlot.setReader]
    by_cases e : t' = t
    · simp only [e, if_true]
      exact RdOk.congr chunkOf s _ _ rfl rfl (fun r hr => hr) rfl rfl hpc
    · simp only [e, if_false]
      exact RdOk.congr chunkOf s _ _ rfl rfl (fun r hr => hr) rfl rfl (h.rd t')
  · intro t' ht'
    simp only [CSlot.setReader] at ht'
    by_cases e : t' = t
    · simp only [e, if_true] at ht'
      rw [e]; exact hN ht'
    · simp only [e, if_false] at ht'
      exact h.rdN t' ht'
  · intro e he
    exact EvOk.congr s _ e rfl (h.evs e he)
  · exact h.mono

theorem RInv.addRead {chunkOf : K → Nat} {N : Nat} {s : SSt K V} (h : RInv chunkOf N s)
    (e : ReadEvt K V) (he : EvOk s e) (hm : ∀ a ∈ s.reads, a.endSeq ≤ e.startSeq) :
    RInv chunkOf N ({ s with reads := s.reads ++ [e] } : SSt K V) := by
  constructor
  · intro t
    exact RdOk.congr chunkOf s _ _ rfl rfl (fun r hr => hr) rfl rfl (h.rd t)
  · exact h.rdN
  · intro e' he'
    simp only [List.mem_append, List.mem_singleton] at he'
    rcases he' with he' | he'
    · exact EvOk.congr s _ e' rfl (h.evs e' he')
    · subst he'; exact EvOk.congr s _ _ rfl he
  · simp only
    rw [List.pairwise_append]
    refine ⟨h.mono, by simp, ?_⟩
    intro a ha b hb
    simp only [List.mem_singleton] at hb
    subst hb
    exact hm a ha

/-! ### publish: a record that does not write `k` is invisible to a reader of `k` -/

theorem RdOk.publish {tier : V → Nat} {chunkOf : K → Nat} {s : SSt K V} (sh : ShInv s)
    (ki : KInv s) (rp : RepInv chunkOf s) (c : Commit K V) (hi : s.inflight = some (c, false))
    (s' : SSt K V) (id : Nat)
    (h1 : s'.hist = s.hist) (h2 : s'.overlay = s.overlay)
    (h3 : s'.logged = s.logged ++
      [{ id := id, writes := (planOps tier chunkOf (sview s) s.alloc c.ops).1 }])
    (h4 : s'.pub = applyLocs s.pub (planOps tier chunkOf (sview s) s.alloc c.ops).1)
    (h5 : s'.files = s.files) (pc : RPc K V) (h : RdOk chunkOf s pc) : RdOk chunkOf s' pc := by
  have hpf := ki.plan_facts c hi
  rw [sh.sview_eq] at h3 h4
  -- the frame facts for a key that missed the commit overlay
  have frame : ∀ k, s.overlay k = none →
      Stab chunkOf k (findA k (s.pub.chunk (chunkOf k)))
        (planOps tier chunkOf s.pub s.alloc c.ops).1 ∧
      findA k (s'.pub.chunk (chunkOf k)) = findA k (s.pub.chunk (chunkOf k)) ∧
      (∀ a, findA k (s.pub.chunk (chunkOf k)) = some a → s'.pub.slot a = s.pub.slot a) := by
    intro k hk
    have hst := planOps_stab tier chunkOf rp c.ops hpf.2.2.1 k (hpf.2.2.2 k hk)
    have hap := hst.apply chunkOf s.pub rfl
    refine ⟨hst, ?_, ?_⟩
    · rw [h4]; exact hap.1
    · intro a ha; rw [h4]; exact hap.2 a ha
  cases pc with
  | idle => trivial
  | started k q => simpa [RdOk, h1] using h
  | missedOv k q => simpa [RdOk, h1, h2] using h
  | done k q res a x => simpa [RdOk, h1] using h
  | gotAddr k q a =>
    simp only [RdOk, h1, h2] at h ⊢
    refine ⟨h.1, h.2.1, ?_⟩
    rw [(frame k h.2.1).2.1]; exact h.2.2
  | missedIdx k q =>
    simp only [RdOk, h1, h2, h5] at h ⊢
    obtain ⟨hst, hfe, _⟩ := frame k h.2.1
    refine ⟨h.1, h.2.1, ?_, ?_⟩
    · intro r hr x hx
      rw [hfe]
      rw [h3] at hr
      simp only [List.mem_append, List.mem_singleton] at hr
      rcases hr with hr | hr
      · exact h.2.2.1 r hr x hx
      · subst hr
        exact (hst _ hx).1 x rfl
    · rw [hfe]; exact h.2.2.2
  | missedVal k q a =>
    simp only [RdOk, h1, h2, h5] at h ⊢
    obtain ⟨hst, hfe, hsl⟩ := frame k h.2.1
    refine ⟨h.1, h.2.1, ?_, ?_, ?_⟩
    · rw [hfe]; exact h.2.2.1
    · intro r hr x hx
      rw [h3] at hr
      simp only [List.mem_append, List.mem_singleton] at hr
      rcases hr with hr | hr
      · exact h.2.2.2.1 r hr x hx
      · subst hr
        exact (hst _ hx).2 a x rfl h.2.2.1
    · rw [hsl a h.2.2.1]; exact h.2.2.2.2

/-! ### enactWrite: the files change under the overlay -/

theorem RdOk.enactWrite {chunkOf : K → Nat} {s : SSt K V} (r : SRec K V) (w : Loc K V)
    (hr : r ∈ s.logged) (hw : w ∈ r.writes) (s' : SSt K V)
    (h1 : s'.hist = s.hist) (h2 : s'.overlay = s.overlay) (h3 : s'.logged = s.logged)
    (h4 : s'.pub = s.pub) (h5 : s'.files = s.files.apply w) (pc : RPc K V)
    (h : RdOk chunkOf s pc) : RdOk chunkOf s' pc := by
  cases pc with
  | idle => trivial
  | started k q => simpa [RdOk, h1] using h
  | missedOv k q => simpa [RdOk, h1, h2] using h
  | done k q res a x => simpa [RdOk, h1] using h
  | gotAddr k q a => simpa [RdOk, h1, h2, h4] using h
  | missedIdx k q =>
    simp only [RdOk, h1, h2, h3, h4, h5] at h ⊢
    refine ⟨h.1, h.2.1, h.2.2.1, ?_⟩
    have hlaw : (s.files.apply w).chunk (chunkOf k) =
        (Loc.chunkAt (chunkOf k) w).getD (s.files.chunk (chunkOf k)) :=
      (chunkSel (chunkOf k)).law s.files w
    rw [hlaw]
    cases hs : Loc.chunkAt (chunkOf k) w with
    | none => exact h.2.2.2
    | some x =>
      have hw' := chunkAt_some _ w x hs
      subst hw'
      exact h.2.2.1 r hr x hw
  | missedVal k q a =>
    simp only [RdOk, h1, h2, h3, h4, h5] at h ⊢
    refine ⟨h.1, h.2.1, h.2.2.1, h.2.2.2.1, ?_⟩
    have hlaw : (s.files.apply w).slot a = (Loc.slotAt a w).getD (s.files.slot a) :=
      (slotSel a).law s.files w
    rw [hlaw]
    cases hs : Loc.slotAt a w with
    | none => exact h.2.2.2.2
    | some x =>
      have hw' := slotAt_some _ w x hs
      subst hw'
      exact absurd hw (h.2.2.2.1 r hr x)

/-! ### the reader's own steps -/

/-- the index lookup, whichever source (log overlay or file) the content came from -/
theorem RdOk.afterIdx {chunkOf : K → Nat} {s : SSt K V} (ki : KInv s) (rp : RepInv chunkOf s)
    (k : K) (q : Nat) (content : List (K × Addr)) (hq : q = s.hist.length)
    (hov : s.overlay k = none)
    (hc : findA k content = findA k (s.pub.chunk (chunkOf k))) :
    RdOk chunkOf s (afterIdx k q content) := by
  unfold CSlot.afterIdx
  cases hf : findA k content with
  | some a =>
    simp only [RdOk]
    exact ⟨hq, hov, by rw [← hc, hf]⟩
  | none =>
    simp only [RdOk]
    refine ⟨hq, ?_⟩
    rw [← ki.overlay_miss k hov]
    have : pubT s k = none := Rep.absent_of_find rp k (by rw [← hc, hf])
    rw [this]; rfl

/-- the value lookup, whichever source the slot content came from -/
theorem RdOk.afterVal {cfg : Cfg} {chunkOf : K → Nat} {s : SSt K V} (ki : KInv s)
    (rp : RepInv chunkOf s) (k : K) (q : Nat) (a : Addr) (x : Option (K × V))
    (hq : q = s.hist.length) (hov : s.overlay k = none)
    (hf : findA k (s.pub.chunk (chunkOf k)) = some a) (hx : x = s.pub.slot a) :
    RdOk chunkOf s (.done k q (valResult cfg k x) (some a) x) := by
  simp only [RdOk]
  refine ⟨hq, ?_⟩
  obtain ⟨v, n, hT, hs⟩ := Rep.present_of_find rp k a hf
  rw [← ki.overlay_miss k hov, hT, hx, hs]
  simp [valResult, accepts]

theorem RInv.reader {cfg : Cfg} {tier : V → Nat} {chunkOf : K → Nat} {N : Nat} {s : SSt K V}
    (sh : ShInv s) (ki : KInv s) (rp : RepInv chunkOf s) (h : RInv chunkOf N s) (a : SAct K V)
    (ha : a.isReader = true) : RInv chunkOf N (sstep cfg tier chunkOf N s a) := by
  cases a with
  | rBegin t k =>
    simp only [sstep]
    split
    · rename_i hg
      exact h.setReader t _ (by simp [RdOk]) (fun _ => hg.1)
    · exact h
  | rOverlay t =>
    simp only [sstep]
    have hr := h.rd t
    split
    · rename_i k q hpc
      rw [hpc] at hr
      simp only [RdOk] at hr
      have hN : t < N := h.rdN t (by rw [hpc]; rfl)
      split
      · rename_i i v hov
        refine h.setReader t _ ?_ (fun _ => hN)
        simp only [RdOk]
        exact ⟨hr, ki.overlay_hit k i v hov⟩
      · rename_i hov
        exact h.setReader t _ (by simp [RdOk, hr, hov]) (fun _ => hN)
    · exact h
  | rIdxLog t =>
    simp only [sstep]
    have hr := h.rd t
    split
    · rename_i k q hpc
      rw [hpc] at hr
      simp only [RdOk] at hr
      have hN : t < N := h.rdN t (by rw [hpc]; rfl)
      have hv := sh.view (chunkSel (chunkOf k))
      split
      · rename_i content hl
        refine h.setReader t _ ?_ (fun _ => ?_)
        · apply RdOk.afterIdx ki rp k q content hr.1 hr.2
          unfold ovChunk at hl
          simp only [chunkSel] at hv
          rw [hl] at hv
          simp only [Option.getD_some] at hv
          rw [hv]
        · exact hN
      · rename_i hl
        refine h.setReader t _ ?_ (fun _ => hN)
        simp only [RdOk]
        unfold ovChunk at hl
        simp only [chunkSel] at hv
        rw [hl] at hv
        simp only [Option.getD_none] at hv
        refine ⟨hr.1, hr.2, ?_, by rw [hv]⟩
        intro r hrm x hx
        have := (lastBy_none_iff _ _).mp ((ovBy_none_iff _ _).mp hl r hrm) _ hx
        simp [Loc.chunkAt] at this
    · exact h
  | rIdxFile t =>
    simp only [sstep]
    have hr := h.rd t
    split
    · rename_i k q hpc
      rw [hpc] at hr
      simp only [RdOk] at hr
      have hN : t < N := h.rdN t (by rw [hpc]; rfl)
      exact h.setReader t _ (RdOk.afterIdx ki rp k q _ hr.1 hr.2.1 hr.2.2.2) (fun _ => hN)
    · exact h
  | rValLog t =>
    simp only [sstep]
    have hr := h.rd t
    split
    · rename_i k q a hpc
      rw [hpc] at hr
      simp only [RdOk] at hr
      have hN : t < N := h.rdN t (by rw [hpc]; rfl)
      have hv := sh.view (slotSel a)
      split
      · rename_i x hl
        refine h.setReader t _ ?_ (fun _ => hN)
        apply RdOk.afterVal ki rp k q a x hr.1 hr.2.1 hr.2.2
        unfold ovSlot at hl
        simp only [slotSel] at hv
        rw [hl] at hv
        simpa using hv
      · rename_i hl
        refine h.setReader t _ ?_ (fun _ => hN)
        simp only [RdOk]
        unfold ovSlot at hl
        simp only [slotSel] at hv
        rw [hl] at hv
        simp only [Option.getD_none] at hv
        refine ⟨hr.1, hr.2.1, hr.2.2, ?_, hv⟩
        intro r hrm x hx
        have := (lastBy_none_iff _ _).mp ((ovBy_none_iff _ _).mp hl r hrm) _ hx
        simp [Loc.slotAt] at this
    · exact h
  | rValFile t =>
    simp only [sstep]
    have hr := h.rd t
    split
    · rename_i k q a hpc
      rw [hpc] at hr
      simp only [RdOk] at hr
      have hN : t < N := h.rdN t (by rw [hpc]; rfl)
      exact h.setReader t _
        (RdOk.afterVal ki rp k q a _ hr.1 hr.2.1 hr.2.2.1 hr.2.2.2.2) (fun _ => hN)
    · exact h
  | rEnd t =>
    simp only [sstep]
    have hr := h.rd t
    split
    · rename_i k q res a x hpc
      rw [hpc] at hr
      simp only [RdOk] at hr
      have h1 := h.setReader t .idle trivial (by intro hh; simp [RPc.isIdle] at hh)
      exact h1.addRead _ (by
            simp only [EvOk]
            refine ⟨hr.1, Nat.le_refl _, ?_⟩
            rw [hr.1]
            show res = (spec plainK (List.take s.hist.length s.hist) k).map Prod.fst
            rw [List.take_length]
            exact hr.2) (by
            intro a' ha'
            have := h.evs a' ha'
            simp only [EvOk] at this
            show a'.endSeq ≤ q
            omega)
    · exact h
  | _ => simp [SAct.isReader] at ha

/-! ### every action, under the discipline -/

theorem RInv.step {cfg : Cfg} (hd : cfg.discipline = true) (hx : cfg.exactEnd = true)
    (tier : V → Nat) (chunkOf : K → Nat) (N : Nat) {s : SSt K V}
    (sh : ShInv s) (ki : KInv s) (rp : RepInv chunkOf s) (h : RInv chunkOf N s) (a : SAct K V) :
    RInv chunkOf N (sstep cfg tier chunkOf N s a) := by
  by_cases hr : a.isReader = true
  · exact h.reader sh ki rp a hr
  · cases a with
    | commit tx =>
      simp only [sstep]
      split
      · exact h
      · rename_i hin
        split
        · exact h
        · exact h.of_idle (all_idle hd h hin) rfl rfl ⟨[tx], rfl⟩
    | pop =>
      simp only [sstep]
      split
      · exact RInv.congr (s := s) rfl rfl (fun r hr => hr) rfl rfl rfl rfl h
      · exact h
    | publish =>
      simp only [sstep]
      split
      · rename_i c hi
        constructor
        · intro t
          apply RdOk.publish (tier := tier) (s := s) sh ki rp c hi (id := s.nextRec + 1)
            (h := h.rd t) <;> rfl
        · exact h.rdN
        · intro e he; exact EvOk.congr s _ e rfl (h.evs e he)
        · exact h.mono
      · exact h
    | cleanOverlay =>
      simp only [sstep]
      split
      · exact h
      · rename_i hin
        split
        · exact h.of_idle (all_idle hd h hin) rfl rfl ⟨[], by simp⟩
        · exact h
    | flush => exact RInv.congr (s := s) rfl rfl (fun r hr => hr) rfl rfl rfl rfl h
    | enactWrite =>
      simp only [sstep]
      split
      · rename_i f r rs hf hl
        split
        · rename_i w hw
          constructor
          · intro t
            apply RdOk.enactWrite (s := s) r w (by rw [hl]; exact List.mem_cons_self)
              (List.mem_of_getElem? hw) (h := h.rd t) <;> rfl
          · exact h.rdN
          · intro e he; exact EvOk.congr s _ e rfl (h.evs e he)
          · exact h.mono
        · exact h
      · exact h
    | endRead =>
      simp only [sstep]
      split
      · rename_i f r rs hf hl
        split
        · simp only [dropEnded, hx, if_true]
          exact RInv.congr (s := s) rfl rfl
            (fun r' hr' => by rw [hl]; exact List.mem_cons_of_mem _ hr') rfl rfl rfl rfl h
        · exact h
      · exact h
    | _ => simp [SAct.isReader] at hr

/-! ### all invariants together -/

structure AllInv (chunkOf : K → Nat) (N : Nat) (s : SSt K V) : Prop where
  sh : ShInv s
  ki : KInv s
  rp : RepInv chunkOf s
  rd : RInv chunkOf N s

theorem AllInv.init (chunkOf : K → Nat) (N : Nat) : AllInv chunkOf N (SSt.init : SSt K V) :=
  ⟨ShInv.init, KInv.init, RepInv.init chunkOf, RInv.init chunkOf N⟩

theorem AllInv.step {cfg : Cfg} (hd : cfg.discipline = true) (hx : cfg.exactEnd = true)
    (tier : V → Nat) (chunkOf : K → Nat) (N : Nat) {s : SSt K V} (h : AllInv chunkOf N s)
    (a : SAct K V) : AllInv chunkOf N (sstep cfg tier chunkOf N s a) :=
  ⟨h.sh.step hx tier chunkOf N a, h.ki.step cfg tier chunkOf N a,
   h.rp.step cfg tier chunkOf N h.sh h.ki a, h.rd.step hd hx tier chunkOf N h.sh h.ki h.rp a⟩

theorem AllInv.run {cfg : Cfg} (hd : cfg.discipline = true) (hx : cfg.exactEnd = true)
    (tier : V → Nat) (chunkOf : K → Nat) (N : Nat) {s : SSt K V} (h : AllInv chunkOf N s)
    (as : List (SAct K V)) : AllInv chunkOf N (srun cfg tier chunkOf N s as) := by
  induction as generalizing s with
  | nil => exact h
  | cons a as ih => exact ih (h.step hd hx tier chunkOf N a)

/-- The Shadow / key-level / representation invariants hold in BOTH disciplines. -/
structure BaseInv (chunkOf : K → Nat) (s : SSt K V) : Prop where
  sh : ShInv s
  ki : KInv s
  rp : RepInv chunkOf s

theorem BaseInv.init (chunkOf : K → Nat) : BaseInv chunkOf (SSt.init : SSt K V) :=
  ⟨ShInv.init, KInv.init, RepInv.init chunkOf⟩

theorem BaseInv.step {cfg : Cfg} (hx : cfg.exactEnd = true)
    (tier : V → Nat) (chunkOf : K → Nat) (N : Nat) {s : SSt K V} (h : BaseInv chunkOf s)
    (a : SAct K V) : BaseInv chunkOf (sstep cfg tier chunkOf N s a) :=
  ⟨h.sh.step hx tier chunkOf N a, h.ki.step cfg tier chunkOf N a,
   h.rp.step cfg tier chunkOf N h.sh h.ki a⟩

theorem BaseInv.run {cfg : Cfg} (hx : cfg.exactEnd = true)
    (tier : V → Nat) (chunkOf : K → Nat) (N : Nat) {s : SSt K V} (h : BaseInv chunkOf s)
    (as : List (SAct K V)) : BaseInv chunkOf (srun cfg tier chunkOf N s as) := by
  induction as generalizing s with
  | nil => exact h
  | cons a as ih => exact ih (h.step hx tier chunkOf N a)

end CSlot
end Pdb
