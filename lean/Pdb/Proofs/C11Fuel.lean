/-
C11, fuel adequacy.  `reachN node n fr` (Pdb/Model/ConcRead.lean, Part 3) collects everything
within `n` child steps of the frontier `fr`; `derefTree fuel` frees every node that is not in
`liveAddrs fuel ..`, i.e. not within `fuel` child steps of the children of a remaining root.

This file shows that the fuel is a pure depth bound: once `fuel` is at least the height of the
graph below the frontier (`HeightLe`: no path with more than `d` edges starts in the frontier),
  * `reachN` no longer depends on the fuel (`reachN_fuel_stable`) and is exactly true
    reachability, the inductive predicate `Reach` (`reachN_adequate`);
  * `derefTree` frees exactly the nodes that are unreachable from the remaining roots
    (`derefTree_frees_unreachable` for ANY fuel, `derefTree_keeps_reachable` under the bound)
    and is independent of the fuel (`derefTree_fuel_irrelevant`).
The closing example shows that the bound is needed (fuel 1 on a forest of height 2 frees a node
that is still reachable from another root) and satisfiable (decidable on concrete forests).
-/
import Pdb.Model.C11Ghost
import Pdb.Proofs.C11Stable

set_option linter.unusedSectionVars false
set_option linter.unusedSimpArgs false
set_option linter.unusedVariables false
namespace Pdb
namespace CRd
namespace Tr
variable {K V TK : Type} [DecidableEq K] [DecidableEq TK]

/-! ### levels and true reachability -/

/-- One child step from a frontier (the step `reachN` takes). -/
def nextFr (node : Nat → Option (List Nat)) (fr : List Nat) : List Nat :=
  fr.flatMap (fun a => (node a).getD [])

/-- The addresses exactly `n` child steps below the frontier (with multiplicity). -/
def levelN (node : Nat → Option (List Nat)) : Nat → List Nat → List Nat
  | 0, fr => fr
  | n + 1, fr => levelN node n (nextFr node fr)

/-- True reachability from the frontier `fr` along child edges of present nodes. -/
inductive Reach (node : Nat → Option (List Nat)) (fr : List Nat) : Nat → Prop
  | base {x : Nat} : x ∈ fr → Reach node fr x
  | step {a x : Nat} {ch : List Nat} : Reach node fr a → node a = some ch → x ∈ ch → Reach node fr x

/-- every path starting in `fr` has at most `d` edges -/
def HeightLe (node : Nat → Option (List Nat)) (d : Nat) (fr : List Nat) : Prop :=
  levelN node (d + 1) fr = []

instance (node : Nat → Option (List Nat)) (d : Nat) (fr : List Nat) :
    Decidable (HeightLe node d fr) :=
  inferInstanceAs (Decidable (levelN node (d + 1) fr = []))

/-- the frontier `derefTree` uses: children of all roots except `key` -/
def remFrontier (f : Forest TK) (key : TK) : List Nat :=
  f.rootKeys.flatMap (fun k => ((if k = key then none else f.root k)).getD [])

/-- children of all roots -/
def Forest.frontier (f : Forest TK) : List Nat :=
  f.rootKeys.flatMap (fun k => (f.root k).getD [])

/-- no path below a root has more than `d` edges -/
def Forest.HeightLe (f : Forest TK) (d : Nat) : Prop := Tr.HeightLe f.node d f.frontier

instance (f : Forest TK) (d : Nat) : Decidable (f.HeightLe d) :=
  inferInstanceAs (Decidable (levelN f.node (d + 1) f.frontier = []))

theorem mem_nextFr (node : Nat → Option (List Nat)) (fr : List Nat) (x : Nat) :
    x ∈ nextFr node fr ↔ ∃ a ∈ fr, ∃ ch, node a = some ch ∧ x ∈ ch := by
  simp only [nextFr, List.mem_flatMap]
  constructor
  · rintro ⟨a, ha, hx⟩
    cases hn : node a with
    | none => rw [hn] at hx; simp at hx
    | some ch => rw [hn] at hx; exact ⟨a, ha, ch, hn, hx⟩
  · rintro ⟨a, ha, ch, hn, hx⟩
    refine ⟨a, ha, ?_⟩
    rw [hn]; exact hx

theorem nextFr_nil (node : Nat → Option (List Nat)) : nextFr node [] = [] := rfl

theorem reachN_succ (node : Nat → Option (List Nat)) (n : Nat) (fr : List Nat) :
    reachN node (n + 1) fr = fr ++ reachN node n (nextFr node fr) := rfl

theorem levelN_succ (node : Nat → Option (List Nat)) (n : Nat) (fr : List Nat) :
    levelN node (n + 1) fr = levelN node n (nextFr node fr) := rfl

/-- The levels can also be peeled from the far end. -/
theorem levelN_succ' (node : Nat → Option (List Nat)) (n : Nat) (fr : List Nat) :
    levelN node (n + 1) fr = nextFr node (levelN node n fr) := by
  induction n generalizing fr with
  | zero => rfl
  | succ n ih =>
    rw [levelN_succ node (n + 1) fr, ih (nextFr node fr)]
    rfl

theorem reachN_succ_snoc (node : Nat → Option (List Nat)) (n : Nat) (fr : List Nat) :
    reachN node (n + 1) fr = reachN node n fr ++ levelN node (n + 1) fr := by
  induction n generalizing fr with
  | zero => rfl
  | succ n ih =>
    rw [reachN_succ node (n + 1) fr, ih (nextFr node fr), reachN_succ node n fr,
      levelN_succ node (n + 1) fr, List.append_assoc]

theorem mem_reachN_iff (node : Nat → Option (List Nat)) (n : Nat) (fr : List Nat) (x : Nat) :
    x ∈ reachN node n fr ↔ ∃ m, m ≤ n ∧ x ∈ levelN node m fr := by
  induction n with
  | zero =>
    constructor
    · intro h; exact ⟨0, Nat.le_refl _, h⟩
    · rintro ⟨m, hm, h⟩
      have : m = 0 := by omega
      subst this
      exact h
  | succ n ih =>
    rw [reachN_succ_snoc, List.mem_append, ih]
    constructor
    · rintro (⟨m, hm, h⟩ | h)
      · exact ⟨m, by omega, h⟩
      · exact ⟨n + 1, Nat.le_refl _, h⟩
    · rintro ⟨m, hm, h⟩
      by_cases e : m = n + 1
      · subst e; exact Or.inr h
      · exact Or.inl ⟨m, by omega, h⟩

theorem reach_of_level (node : Nat → Option (List Nat)) (fr : List Nat) (m : Nat) :
    ∀ x, x ∈ levelN node m fr → Reach node fr x := by
  induction m with
  | zero => intro x h; exact Reach.base h
  | succ m ih =>
    intro x h
    rw [levelN_succ', mem_nextFr] at h
    obtain ⟨a, ha, ch, hn, hx⟩ := h
    exact Reach.step (ih a ha) hn hx

theorem reach_iff_level (node : Nat → Option (List Nat)) (fr : List Nat) (x : Nat) :
    Reach node fr x ↔ ∃ m, x ∈ levelN node m fr := by
  constructor
  · intro h
    induction h with
    | base h => exact ⟨0, h⟩
    | step _ hn hx ih =>
      obtain ⟨m, hm⟩ := ih
      refine ⟨m + 1, ?_⟩
      rw [levelN_succ', mem_nextFr]
      exact ⟨_, hm, _, hn, hx⟩
  · rintro ⟨m, h⟩
    exact reach_of_level node fr m x h

theorem levelN_nil (node : Nat → Option (List Nat)) (n : Nat) : levelN node n [] = [] := by
  induction n with
  | zero => rfl
  | succ n ih => rw [levelN_succ, nextFr_nil, ih]

theorem levelN_nil_of_le (node : Nat → Option (List Nat)) (n m : Nat) (fr : List Nat)
    (h : levelN node n fr = []) (hle : n ≤ m) : levelN node m fr = [] := by
  induction m with
  | zero =>
    have : n = 0 := by omega
    subst this
    exact h
  | succ m ih =>
    by_cases e : n = m + 1
    · subst e; exact h
    · rw [levelN_succ', ih (by omega)]
      rfl

/-! ### fuel adequacy of `reachN` -/

theorem reachN_fuel_stable (node : Nat → Option (List Nat)) (d fuel : Nat) (fr : List Nat)
    (h : HeightLe node d fr) (hle : d ≤ fuel) : reachN node fuel fr = reachN node d fr := by
  induction fuel with
  | zero =>
    have : d = 0 := by omega
    subst this
    rfl
  | succ fuel ih =>
    by_cases e : d = fuel + 1
    · subst e; rfl
    · rw [reachN_succ_snoc, ih (by omega),
        levelN_nil_of_le node (d + 1) (fuel + 1) fr h (by omega), List.append_nil]

theorem reachN_adequate (node : Nat → Option (List Nat)) (d fuel : Nat) (fr : List Nat) (x : Nat)
    (h : HeightLe node d fr) (hle : d ≤ fuel) : x ∈ reachN node fuel fr ↔ Reach node fr x := by
  rw [reach_iff_level, mem_reachN_iff]
  constructor
  · rintro ⟨m, _, hx⟩; exact ⟨m, hx⟩
  · rintro ⟨m, hx⟩
    refine ⟨m, ?_, hx⟩
    by_cases hm : m ≤ fuel
    · exact hm
    · have := levelN_nil_of_le node (d + 1) m fr h (by omega)
      rw [this] at hx
      simp at hx

/-- Without any bound: what `reachN` collects is reachable. -/
theorem reach_of_mem_reachN (node : Nat → Option (List Nat)) (n : Nat) (fr : List Nat) (x : Nat)
    (h : x ∈ reachN node n fr) : Reach node fr x := by
  rw [mem_reachN_iff] at h
  obtain ⟨m, _, hx⟩ := h
  exact reach_of_level node fr m x hx

theorem levelN_mono_fr (node : Nat → Option (List Nat)) (n : Nat) (fr fr' : List Nat)
    (h : ∀ x ∈ fr', x ∈ fr) : ∀ x ∈ levelN node n fr', x ∈ levelN node n fr := by
  induction n with
  | zero => exact h
  | succ n ih =>
    intro x hx
    rw [levelN_succ', mem_nextFr] at hx ⊢
    obtain ⟨a, ha, ch, hn, hxc⟩ := hx
    exact ⟨a, ih a ha, ch, hn, hxc⟩

theorem HeightLe.mono_fr (node : Nat → Option (List Nat)) (d : Nat) (fr fr' : List Nat)
    (hsub : ∀ x ∈ fr', x ∈ fr) (h : HeightLe node d fr) : HeightLe node d fr' := by
  unfold Tr.HeightLe at h ⊢
  rw [List.eq_nil_iff_forall_not_mem]
  intro x hx
  have := levelN_mono_fr node (d + 1) fr fr' hsub x hx
  rw [h] at this
  simp at this

/-! ### fuel adequacy of `derefTree` -/

theorem remFrontier_subset (f : Forest TK) (key : TK) :
    ∀ x ∈ remFrontier f key, x ∈ f.frontier := by
  intro x hx
  simp only [remFrontier, Forest.frontier, List.mem_flatMap] at hx ⊢
  obtain ⟨k, hk, hxk⟩ := hx
  refine ⟨k, hk, ?_⟩
  by_cases e : k = key
  · simp [e] at hxk
  · simpa [e] using hxk

theorem liveAddrs_eq (fuel : Nat) (f : Forest TK) (key : TK) :
    liveAddrs fuel (fun x => if x = key then none else f.root x) f.node f.rootKeys =
      reachN f.node fuel (remFrontier f key) := rfl

theorem Forest.HeightLe.rem {f : Forest TK} {d : Nat} (h : f.HeightLe d) (key : TK) :
    Tr.HeightLe f.node d (remFrontier f key) :=
  HeightLe.mono_fr f.node d f.frontier (remFrontier f key) (remFrontier_subset f key) h

/-- `derefTree` of an existing tree, with the kept set written as `reachN` of `remFrontier`. -/
theorem derefTree_some (fuel : Nat) (f : Forest TK) (key : TK) (ch : List Nat)
    (hch : f.root key = some ch) :
    derefTree fuel f key =
      { f with root := fun x => if x = key then none else f.root x,
               node := fun a => if (reachN f.node fuel (remFrontier f key)).contains a
                                then f.node a else none } := by
  unfold derefTree
  rw [hch]
  rfl

/-- Whatever the fuel, `derefTree` of an existing tree frees every node that is not reachable
    from a remaining root. -/
theorem derefTree_frees_unreachable (fuel : Nat) (f : Forest TK) (key : TK) (a : Nat)
    (hr : (f.root key).isSome) (hn : ¬ Reach f.node (remFrontier f key) a) :
    (derefTree fuel f key).node a = none := by
  obtain ⟨ch, hch⟩ := Option.isSome_iff_exists.mp hr
  rw [derefTree_some fuel f key ch hch]
  simp only
  split
  · rename_i hc
    exact absurd (reach_of_mem_reachN _ _ _ _ (List.contains_iff_mem.mp hc)) hn
  · rfl

/-- With enough fuel, `derefTree` keeps every node reachable from a remaining root. -/
theorem derefTree_keeps_reachable (fuel d : Nat) (f : Forest TK) (key : TK) (a : Nat)
    (hd : f.HeightLe d) (hle : d ≤ fuel) (hr : Reach f.node (remFrontier f key) a) :
    (derefTree fuel f key).node a = f.node a := by
  cases hch : f.root key with
  | none =>
    unfold derefTree
    rw [hch]
  | some ch =>
    rw [derefTree_some fuel f key ch hch]
    have hin : a ∈ reachN f.node fuel (remFrontier f key) :=
      (reachN_adequate f.node d fuel _ a (hd.rem key) hle).mpr hr
    simp only [List.contains_iff_mem.mpr hin, if_true]

/-- With enough fuel the result of `derefTree` does not depend on the fuel. -/
theorem derefTree_fuel_irrelevant (fuel fuel' d : Nat) (f : Forest TK) (key : TK)
    (hd : f.HeightLe d) (hle : d ≤ fuel) (hle' : d ≤ fuel') :
    derefTree fuel f key = derefTree fuel' f key := by
  cases hch : f.root key with
  | none =>
    unfold derefTree
    rw [hch]
  | some ch =>
    rw [derefTree_some fuel f key ch hch, derefTree_some fuel' f key ch hch,
      reachN_fuel_stable f.node d fuel _ (hd.rem key) hle,
      reachN_fuel_stable f.node d fuel' _ (hd.rem key) hle']

/-- With enough fuel, a node survives `derefTree` iff it is reachable from a remaining root. -/
theorem derefTree_node_iff (fuel d : Nat) (f : Forest TK) (key : TK) (a : Nat)
    (hr : (f.root key).isSome) (hd : f.HeightLe d) (hle : d ≤ fuel) :
    ((derefTree fuel f key).node a = f.node a ∧ Reach f.node (remFrontier f key) a) ∨
    ((derefTree fuel f key).node a = none ∧ ¬ Reach f.node (remFrontier f key) a) := by
  by_cases h : Reach f.node (remFrontier f key) a
  · exact Or.inl ⟨derefTree_keeps_reachable fuel d f key a hd hle h, h⟩
  · exact Or.inr ⟨derefTree_frees_unreachable fuel f key a hr h, h⟩

/-! ### the bound is needed, and satisfiable -/

/-- Height 2: root 1 -> [100], root 2 -> [100], 100 -> [101], 101 -> [102], 102 -> []. -/
def exForest : Forest Nat :=
  { root := fun k => if k = 1 then some [100] else if k = 2 then some [100] else none,
    node := fun a => if a = 100 then some [101] else if a = 101 then some [102]
                     else if a = 102 then some [] else none,
    rootKeys := [1, 2] }

example :
    -- fuel 1 is too small: dereferencing tree 1 frees node 102, which tree 2 still reaches
    (derefTree 1 exForest 1).node 102 = none ∧
    (derefTree 1 exForest 1).root 2 = some [100] ∧
    (derefTree 1 exForest 1).node 100 = some [101] ∧
    (derefTree 1 exForest 1).node 101 = some [102] ∧
    -- fuel 2 (the height) and any larger fuel keep it
    (derefTree 2 exForest 1).node 102 = some [] ∧
    (derefTree 7 exForest 1).node 102 = some [] ∧
    -- the hypothesis of the adequacy lemmas holds with d = 2 and fails with d = 1
    exForest.HeightLe 2 ∧ ¬ exForest.HeightLe 1 := by
  decide

#print axioms derefTree_frees_unreachable
#print axioms derefTree_keeps_reachable
#print axioms derefTree_fuel_irrelevant
#print axioms reachN_adequate

end Tr
end CRd
end Pdb
