/-
C02x: the invariant of the multitree pipeline with logged-vs-enacted (`CInv`) and what a crash
recovers to.

  sim    the pipeline state simulates the atomic heap of ALL accepted operations (C10's `Sim`)
  P      the tables of the pipeline state are the enacted base with the logged records applied
  F      applying the first i not-yet-enacted commits (logged, then queued) to the enacted base
         gives the atomic heap of the first nEnacted + i accepted operations
-/
import Pdb.Proofs.C02xReplay
import Pdb.Proofs.C10Stage

namespace Pdb.MultiTree
set_option linter.unusedSectionVars false
variable {K D : Type} [DecidableEq K]

/-! ### histories -/

theorem runOps_append (v : Variant) (a b : List (Op K D)) :
    ∀ h : Heap K D, runOps v h (a ++ b) = runOps v (runOps v h a) b := by
  induction a with
  | nil => intro h; rfl
  | cons op a ih => intro h; simp only [List.cons_append, runOps]; exact ih _

theorem LegalRun_append (v : Variant) (a b : List (Op K D)) :
    ∀ h : Heap K D, LegalRun v h (a ++ b) ↔ LegalRun v h a ∧ LegalRun v (runOps v h a) b := by
  induction a with
  | nil => intro h; simp [LegalRun, runOps]
  | cons op a ih =>
    intro h
    simp only [List.cons_append, LegalRun, runOps, ih, and_assoc]

theorem LegalRun_take (v : Variant) (h : Heap K D) (ops : List (Op K D)) (m : Nat)
    (hl : LegalRun v h ops) : LegalRun v h (ops.take m) := by
  rw [← List.take_append_drop m ops] at hl
  exact ((LegalRun_append v _ _ h).mp hl).1

theorem runOps_inv (v : Variant) (ops : List (Op K D)) :
    ∀ h : Heap K D, Inv v h → LegalRun v h ops → Inv v (runOps v h ops) := by
  induction ops with
  | nil => intro h hi _; exact hi
  | cons op ops ih =>
    intro h hi hl
    exact ih _ (stepOp_inv v h op hi hl.1) hl.2

theorem stepOp_next_mono (v : Variant) (h : Heap K D) (op : Op K D) :
    h.next ≤ (stepOp v h op).next := by
  simp only [stepOp, okOr]
  split
  · rename_i h' he
    cases op with
    | insert k t =>
      simp only [applyOp, insertTree] at he
      split at he
      · simp only [Except.ok.injEq] at he
        subst he
        rw [insertTreeAt_next]
        exact Nat.le_max_left _ _
      · cases he
    | reference k => exact Nat.le_of_eq (referenceTree_next v h h' k he).symm
    | dereference k =>
      simp only [applyOp, dereferenceTree] at he
      split at he
      · cases he
      · split at he
        · cases he
        · exact Nat.le_of_eq (derefProcess_next v h h' k _ he).symm
  · exact Nat.le_refl _

theorem runOps_next_mono (v : Variant) (ops : List (Op K D)) :
    ∀ h : Heap K D, h.next ≤ (runOps v h ops).next := by
  induction ops with
  | nil => intro h; exact Nat.le_refl _
  | cons op ops ih => intro h; exact Nat.le_trans (stepOp_next_mono v h op) (ih _)

/-! ### the pipeline steps -/

theorem cmdStep_commit (s : PState K D) (op : Op K D) :
    cmdStep s (.commit op) = okOr s (commitOp s op) := by
  cases op <;> rfl

theorem commitOp_ok (s s' : PState K D) (op : Op K D) (e : commitOp s op = .ok s') :
    ∃ pd, s'.queue = s.queue ++ [pd] ∧ core s'.heap = core s.heap ∧ s'.variant = s.variant := by
  cases op with
  | insert k t =>
    simp only [commitOp, commitInsert] at e
    split at e
    · cases e
    · simp only [Except.ok.injEq] at e
      subst e
      exact ⟨_, rfl, rfl, rfl⟩
  | reference k =>
    simp only [commitOp, commitRef] at e
    split at e
    · simp only [Except.ok.injEq] at e; subst e; exact ⟨_, rfl, rfl, rfl⟩
    · cases e
    · simp only [Except.ok.injEq] at e; subst e; exact ⟨_, rfl, rfl, rfl⟩
  | dereference k =>
    simp only [commitOp, commitDeref] at e
    split at e
    · cases e
    · split at e
      · cases e
      · simp only [Except.ok.injEq] at e; subst e; exact ⟨_, rfl, rfl, rfl⟩

theorem processOne_nil (s : PState K D) (hq : s.queue = []) : processOne s = .ok s := by
  simp only [processOne, hq]

theorem processOne_ok (s s' : PState K D) (pd : Pending K D) (rest : List (Pending K D))
    (hq : s.queue = pd :: rest) (e : processOne s = .ok s') :
    s'.heap = applyPending s.variant s.heap pd ∧ s'.queue = rest ∧ s'.variant = s.variant := by
  obtain ⟨sv, heap, queue⟩ := s
  simp only at hq
  subst hq
  cases pd with
  | insert k t n0 root ov =>
    simp only [processOne, Except.ok.injEq] at e
    subst e
    exact ⟨rfl, rfl, rfl⟩
  | ref k =>
    simp only [processOne] at e
    cases hr : referenceTree sv heap k with
    | error er => rw [hr] at e; cases e
    | ok h' =>
      rw [hr] at e
      simp only [Except.ok.injEq] at e
      subst e
      exact ⟨by simp only [applyPending, hr, okOr], rfl, rfl⟩
  | deref k cs =>
    simp only [processOne] at e
    cases hr : derefProcess sv heap k cs with
    | error er => rw [hr] at e; cases e
    | ok h' =>
      rw [hr] at e
      simp only [Except.ok.injEq] at e
      subst e
      exact ⟨by simp only [applyPending, hr, okOr], rfl, rfl⟩

/-- the `p` component of a step is the step of the C10 pipeline model -/
theorem cstep_p (c : CState K D) (cmd : CCmd K D) :
    (cstep c cmd).p = (toCmds [cmd]).foldl cmdStep c.p := by
  cases cmd with
  | commit op =>
    simp only [toCmds, List.foldl_cons, List.foldl_nil, cmdStep_commit, cstep]
    cases commitOp c.p op <;> rfl
  | process =>
    simp only [toCmds, List.foldl_cons, List.foldl_nil, cmdStep, cstep]
    split
    · rename_i hq
      rw [processOne_nil c.p hq]; rfl
    · cases processOne c.p <;> rfl
  | flush => rfl
  | enact =>
    simp only [toCmds, List.foldl_nil, cstep]
    split <;> rfl

theorem toCmds_cons (cmd : CCmd K D) (cmds : List (CCmd K D)) :
    toCmds (cmd :: cmds) = toCmds [cmd] ++ toCmds cmds := by
  cases cmd <;> rfl

/-- The `p` component of the refined model runs exactly the C10 pipeline model. -/
theorem toP_run (cmds : List (CCmd K D)) :
    ∀ c0 : CState K D, (cmds.foldl cstep c0).p = (toCmds cmds).foldl cmdStep c0.p := by
  induction cmds with
  | nil => intro c0; rfl
  | cons cmd cmds ih =>
    intro c0
    rw [List.foldl_cons, ih, cstep_p]
    conv => rhs; rw [toCmds_cons, List.foldl_append]

theorem drainHeap_app (v : Variant) (h : Heap K D) (a b : List (Pending K D)) :
    drainHeap v h (a ++ b) = drainHeap v (drainHeap v h a) b := by
  simp [drainHeap, List.foldl_append]

theorem drainHeap_core (v : Variant) (q : List (Pending K D)) :
    ∀ (h h' : Heap K D), core h = core h' → core (drainHeap v h q) = core (drainHeap v h' q) := by
  induction q with
  | nil => intro h h' e; exact e
  | cons p q ih =>
    intro h h' e
    simp only [drainHeap, List.foldl_cons]
    exact ih _ _ (applyPending_core v h h' p e)

theorem take_take_length {α : Type} (l q : List α) (j : Nat) :
    (l ++ q).take (l.take j).length = l.take j := by
  have h : l = l.take j ++ l.drop j := (List.take_append_drop j l).symm
  generalize l.take j = a at h ⊢
  generalize l.drop j = b at h
  subst h
  rw [List.append_assoc]
  exact List.take_left' rfl

theorem withNext_self (h : Heap K D) : withNext h.next h = h := by
  cases h; rfl

/-- a fresh pipeline state on tables `H` simulates `H` -/
theorem Sim.start (v : Variant) (H : Heap K D) : Sim v (⟨v, H, []⟩ : PState K D) H where
  var := rfl
  core := rfl
  next := rfl
  qok := trivial
  bound := by intro p hp; cases hp

/-! ### the invariant -/

structure CInv (v : Variant) (H0 : Heap K D) (c : CState K D) : Prop where
  legal : LegalRun v H0 c.hist
  sim : Sim v c.p (runOps v H0 c.hist)
  len : c.nEnacted + c.logged.length + c.p.queue.length = c.hist.length
  fl : c.flushed ≤ c.logged.length
  P : core c.p.heap = core (drainHeap v c.base c.logged)
  F : ∀ i, i ≤ (c.logged ++ c.p.queue).length →
    core (drainHeap v c.base ((c.logged ++ c.p.queue).take i)) =
      core (runOps v H0 (c.hist.take (c.nEnacted + i)))

theorem cinv_start (v : Variant) (H0 : Heap K D) : CInv v H0 (CState.start v H0) where
  legal := trivial
  sim := Sim.start v H0
  len := rfl
  fl := Nat.le_refl _
  P := rfl
  F := by
    intro i hi
    have : i = 0 := by simpa [CState.start] using hi
    subst this
    rfl

theorem cinv_commit (v : Variant) (H0 : Heap K D) (c : CState K D) (op : Op K D)
    (hi : CInv v H0 c) (hl : op.legal (runOps v H0 c.hist)) :
    CInv v H0 (cstep c (.commit op)) ∧
    runOps v H0 (cstep c (.commit op)).hist = stepOp v (runOps v H0 c.hist) op := by
  have hs := sim_commit v c.p _ hi.sim op hl
  rw [cmdStep_commit] at hs
  simp only [cstep]
  cases e : commitOp c.p op with
  | error er =>
    simp only [e, okOr] at hs
    refine ⟨hi, ?_⟩
    show runOps v H0 c.hist = stepOp v (runOps v H0 c.hist) op
    have hc : core (runOps v H0 c.hist) = core (stepOp v (runOps v H0 c.hist) op) :=
      hi.sim.core.trans hs.core.symm
    have := eq_withNext_of_core _ _ hc
    rw [this, hs.next, ← hi.sim.next, withNext_self]
  | ok p' =>
    simp only [e, okOr] at hs
    obtain ⟨pd, hq, hc, _⟩ := commitOp_ok c.p p' op e
    have hro : runOps v H0 (c.hist ++ [op]) = stepOp v (runOps v H0 c.hist) op := by
      rw [runOps_append]; rfl
    have hP' : core p'.heap = core (drainHeap v c.base c.logged) := by rw [hc]; exact hi.P
    refine ⟨⟨?_, ?_, ?_, hi.fl, hP', ?_⟩, hro⟩
    · show LegalRun v H0 (c.hist ++ [op])
      exact (LegalRun_append v _ _ H0).mpr ⟨hi.legal, hl, trivial⟩
    · show Sim v p' (runOps v H0 (c.hist ++ [op]))
      rw [hro]; exact hs
    · show c.nEnacted + c.logged.length + p'.queue.length = (c.hist ++ [op]).length
      have := hi.len
      rw [hq]
      simp only [List.length_append, List.length_cons, List.length_nil]
      omega
    · intro i hile
      show core (drainHeap v c.base ((c.logged ++ p'.queue).take i)) =
        core (runOps v H0 ((c.hist ++ [op]).take (c.nEnacted + i)))
      have hile' : i ≤ (c.logged ++ p'.queue).length := hile
      have hlen := hi.len
      by_cases hsmall : i ≤ (c.logged ++ c.p.queue).length
      · rw [hq, ← List.append_assoc, List.take_append_of_le_length hsmall,
          List.take_append_of_le_length (l₁ := c.hist) (by
            simp only [List.length_append] at hsmall; omega)]
        exact hi.F i hsmall
      · have hfull : (c.logged ++ p'.queue).length ≤ i := by
          rw [hq]
          simp only [List.length_append, List.length_cons, List.length_nil] at hsmall ⊢
          omega
        have hfull2 : (c.hist ++ [op]).length ≤ c.nEnacted + i := by
          rw [hq] at hfull
          simp only [List.length_append, List.length_cons, List.length_nil] at hfull ⊢
          omega
        rw [List.take_of_length_le hfull, List.take_of_length_le hfull2, hro, drainHeap_app]
        exact (drainHeap_core v p'.queue _ _ hP'.symm).trans hs.core.symm

theorem cinv_process (v : Variant) (H0 : Heap K D) (c : CState K D) (hi : CInv v H0 c) :
    CInv v H0 (cstep c .process) := by
  have hs : Sim v (okOr c.p (processOne c.p)) (runOps v H0 c.hist) :=
    sim_process v c.p _ hi.sim
  simp only [cstep]
  split
  · exact hi
  · rename_i pd rest hq
    split
    · rename_i p' e
      rw [e] at hs
      simp only [okOr] at hs
      obtain ⟨hh, hq', _⟩ := processOne_ok c.p p' pd rest hq e
      have happ : (c.logged ++ [pd]) ++ p'.queue = c.logged ++ c.p.queue := by
        rw [hq', hq]; simp
      refine ⟨hi.legal, hs, ?_, ?_, ?_, ?_⟩
      · show c.nEnacted + (c.logged ++ [pd]).length + p'.queue.length = c.hist.length
        have := hi.len
        rw [hq] at this
        rw [hq']
        simp only [List.length_append, List.length_cons, List.length_nil] at this ⊢
        omega
      · show c.flushed ≤ (c.logged ++ [pd]).length
        have := hi.fl
        simp only [List.length_append, List.length_cons, List.length_nil]
        omega
      · show core p'.heap = core (drainHeap v c.base (c.logged ++ [pd]))
        rw [hh, drainHeap_append, hi.sim.var]
        exact applyPending_core v _ _ pd hi.P
      · show ∀ i, i ≤ ((c.logged ++ [pd]) ++ p'.queue).length →
          core (drainHeap v c.base (((c.logged ++ [pd]) ++ p'.queue).take i)) =
            core (runOps v H0 (c.hist.take (c.nEnacted + i)))
        rw [happ]
        exact hi.F
    · exact hi

theorem cinv_flush (v : Variant) (H0 : Heap K D) (c : CState K D) (hi : CInv v H0 c) :
    CInv v H0 (cstep c .flush) :=
  ⟨hi.legal, hi.sim, hi.len, Nat.le_refl _, hi.P, hi.F⟩

theorem cinv_enact (v : Variant) (H0 : Heap K D) (c : CState K D) (hi : CInv v H0 c) :
    CInv v H0 (cstep c .enact) := by
  simp only [cstep]
  split
  · rename_i f r rs hfl hlog
    have hv : c.p.variant = v := hi.sim.var
    refine ⟨hi.legal, hi.sim, ?_, ?_, ?_, ?_⟩
    · show c.nEnacted + 1 + rs.length + c.p.queue.length = c.hist.length
      have := hi.len
      rw [hlog] at this
      simp only [List.length_cons] at this
      omega
    · show f ≤ rs.length
      have := hi.fl
      rw [hlog, hfl] at this
      simp only [List.length_cons] at this
      omega
    · show core c.p.heap = core (drainHeap v (applyPending c.p.variant c.base r) rs)
      have := hi.P
      rw [hlog] at this
      rw [hv]
      exact this
    · intro i hile
      show core (drainHeap v (applyPending c.p.variant c.base r) ((rs ++ c.p.queue).take i)) =
        core (runOps v H0 (c.hist.take (c.nEnacted + 1 + i)))
      have hile' : i ≤ (rs ++ c.p.queue).length := hile
      have := hi.F (i + 1) (by rw [hlog]; simp only [List.cons_append, List.length_cons]; omega)
      rw [hlog] at this
      simp only [List.cons_append, List.take_succ_cons] at this
      rw [hv, Nat.add_assoc, Nat.add_comm 1 i]
      exact this
  · exact hi

/-- The invariant along a whole command sequence; the ghost history executes to the same atomic
    heap as ALL committed operations (a rejected commit is a no-op on both sides). -/
theorem cinv_run (v : Variant) (H0 : Heap K D) (cmds : List (CCmd K D)) :
    ∀ c : CState K D, CInv v H0 c →
      LegalRun v (runOps v H0 c.hist) (committedOps (toCmds cmds)) →
      CInv v H0 (cmds.foldl cstep c) ∧
      runOps v H0 (cmds.foldl cstep c).hist =
        runOps v (runOps v H0 c.hist) (committedOps (toCmds cmds)) := by
  induction cmds with
  | nil => intro c hi _; exact ⟨hi, rfl⟩
  | cons cmd cmds ih =>
    intro c hi hl
    cases cmd with
    | commit op =>
      simp only [toCmds, committedOps, LegalRun, runOps, List.foldl_cons] at hl ⊢
      obtain ⟨hi', hr⟩ := cinv_commit v H0 c op hi hl.1
      rw [← hr] at hl ⊢
      exact ih _ hi' hl.2
    | process =>
      simp only [toCmds, committedOps, List.foldl_cons] at hl ⊢
      have hi' := cinv_process v H0 c hi
      have hh : (cstep c .process).hist = c.hist := by
        simp only [cstep]
        split
        · rfl
        · split <;> rfl
      have := ih _ hi' (by rw [hh]; exact hl)
      rw [hh] at this
      exact this
    | flush =>
      simp only [toCmds, List.foldl_cons] at hl ⊢
      exact ih _ (cinv_flush v H0 c hi) hl
    | enact =>
      simp only [toCmds, List.foldl_cons] at hl ⊢
      have hi' := cinv_enact v H0 c hi
      have hh : (cstep c .enact).hist = c.hist := by
        simp only [cstep]
        split <;> rfl
      have := ih _ hi' (by rw [hh]; exact hl)
      rw [hh] at this
      exact this

/-- the ghost history is a subsequence of the committed operations (the accepted ones) -/
theorem hist_sublist (cmds : List (CCmd K D)) :
    ∀ c : CState K D, ∃ l, (cmds.foldl cstep c).hist = c.hist ++ l ∧
      l.Sublist (committedOps (toCmds cmds)) := by
  induction cmds with
  | nil => intro c; exact ⟨[], by simp, List.Sublist.refl _⟩
  | cons cmd cmds ih =>
    intro c
    obtain ⟨l, e, hsub⟩ := ih (cstep c cmd)
    simp only [List.foldl_cons]
    cases cmd with
    | commit op =>
      simp only [toCmds, committedOps]
      simp only [cstep] at e ⊢
      cases hc : commitOp c.p op with
      | error er =>
        simp only [hc] at e ⊢
        exact ⟨l, e, List.Sublist.cons _ hsub⟩
      | ok p' =>
        simp only [hc] at e ⊢
        exact ⟨op :: l, by rw [e]; simp, List.Sublist.cons_cons _ hsub⟩
    | process =>
      have hh : (cstep c .process).hist = c.hist := by
        simp only [cstep]
        split
        · rfl
        · split <;> rfl
      rw [hh] at e
      exact ⟨l, e, hsub⟩
    | flush => exact ⟨l, e, hsub⟩
    | enact =>
      have hh : (cstep c .enact).hist = c.hist := by
        simp only [cstep]
        split <;> rfl
      rw [hh] at e
      exact ⟨l, e, hsub⟩

/-! ### the records made at process time are records of the logged commits over the base -/

/-- being a record of `p` only depends on the three maps of the tables it was made on -/
theorem RecOf_core (v : Variant) (h h' : Heap K D) (p : Pending K D) (r : Rec K D)
    (e : core h = core h') (hr : RecOf v h p r) : RecOf v h' p r := by
  simp only [RecOf] at hr ⊢
  rw [← tbl_of_core _ _ (applyPending_core v h h' p e), ← tbl_of_core h h' e]
  exact hr

theorem RecsOf_snoc (v : Variant) (ps : List (Pending K D)) :
    ∀ (h : Heap K D) (rs : List (Rec K D)) (p : Pending K D) (r : Rec K D),
      RecsOf v h ps rs → RecOf v (drainHeap v h ps) p r → RecsOf v h (ps ++ [p]) (rs ++ [r]) := by
  induction ps with
  | nil =>
    intro h rs p r hrs hr
    cases rs with
    | nil => exact ⟨hr, trivial⟩
    | cons r0 rs => exact absurd hrs (by simp [RecsOf])
  | cons p0 ps ih =>
    intro h rs p r hrs hr
    cases rs with
    | nil => exact absurd hrs (by simp [RecsOf])
    | cons r0 rs =>
      simp only [RecsOf] at hrs
      exact ⟨hrs.1, ih _ rs p r hrs.2 hr⟩

theorem RecsOf_take (v : Variant) (ps : List (Pending K D)) :
    ∀ (h : Heap K D) (rs : List (Rec K D)) (j : Nat),
      RecsOf v h ps rs → RecsOf v h (ps.take j) (rs.take j) := by
  induction ps with
  | nil =>
    intro h rs j hrs
    cases rs with
    | nil => simp [RecsOf]
    | cons r0 rs => exact absurd hrs (by simp [RecsOf])
  | cons p0 ps ih =>
    intro h rs j hrs
    cases rs with
    | nil => exact absurd hrs (by simp [RecsOf])
    | cons r0 rs =>
      cases j with
      | zero => simp [RecsOf]
      | succ j =>
        simp only [RecsOf] at hrs
        simp only [List.take_succ_cons, RecsOf]
        exact ⟨hrs.1, ih _ rs j hrs.2⟩

theorem RecsOf_length (v : Variant) (ps : List (Pending K D)) :
    ∀ (h : Heap K D) (rs : List (Rec K D)), RecsOf v h ps rs → rs.length = ps.length := by
  induction ps with
  | nil =>
    intro h rs hrs
    cases rs with
    | nil => rfl
    | cons r0 rs => exact absurd hrs (by simp [RecsOf])
  | cons p0 ps ih =>
    intro h rs hrs
    cases rs with
    | nil => exact absurd hrs (by simp [RecsOf])
    | cons r0 rs =>
      simp only [RecsOf] at hrs
      simp only [List.length_cons, ih _ rs hrs.2]

/-- process: the record made on the CURRENT tables of the pipeline state extends the records of
    the logged commits over the enacted base -/
theorem recs_process (v : Variant) (H0 : Heap K D) (c : CState K D) (hi : CInv v H0 c)
    (rs : List (Rec K D)) (hrs : RecsOf v c.base c.logged rs)
    (pd : Pending K D) (rest : List (Pending K D)) (p' : PState K D) (r : Rec K D)
    (hq : c.p.queue = pd :: rest) (e : processOne c.p = .ok p')
    (hr : RecOf c.p.variant c.p.heap pd r) :
    (cstep c .process).logged = c.logged ++ [pd] ∧ (cstep c .process).base = c.base ∧
    RecsOf v (cstep c .process).base (cstep c .process).logged (rs ++ [r]) := by
  have h1 : (cstep c .process).logged = c.logged ++ [pd] := by
    simp only [cstep, hq, e]
  have h2 : (cstep c .process).base = c.base := by
    simp only [cstep, hq, e]
  refine ⟨h1, h2, ?_⟩
  rw [h1, h2]
  apply RecsOf_snoc v c.logged c.base rs pd r hrs
  rw [hi.sim.var] at hr
  exact RecOf_core v _ _ pd r hi.P hr

/-- enact: the oldest record leaves the list -/
theorem recs_enact (v : Variant) (H0 : Heap K D) (c : CState K D) (hi : CInv v H0 c)
    (rs : List (Rec K D)) (hrs : RecsOf v c.base c.logged rs)
    (f : Nat) (p0 : Pending K D) (rest : List (Pending K D))
    (hf : c.flushed = f + 1) (hlog : c.logged = p0 :: rest) :
    (cstep c .enact).logged = rest ∧
    RecsOf v (cstep c .enact).base (cstep c .enact).logged rs.tail := by
  have h1 : (cstep c .enact).logged = rest := by
    simp only [cstep, hf, hlog]
  have h2 : (cstep c .enact).base = applyPending v c.base p0 := by
    simp only [cstep, hf, hlog, hi.sim.var]
  refine ⟨h1, ?_⟩
  rw [h1, h2]
  rw [hlog] at hrs
  cases rs with
  | nil => exact absurd hrs (by simp [RecsOf])
  | cons r0 rs => exact hrs.2

/-! ### what a crash recovers to -/

/-- Crash of a state satisfying the invariant: the recovered tables are the atomic heap of a
    prefix of the accepted operations that contains everything enacted or synced. -/
theorem cinv_recover (v : Variant) (H0 : Heap K D) (c : CState K D) (n : Nat)
    (hi : CInv v H0 c) :
    c.nEnacted + c.flushed ≤ c.nEnacted + (c.logged.take (max n c.flushed)).length ∧
    c.nEnacted + (c.logged.take (max n c.flushed)).length ≤ c.hist.length ∧
    core (recoverHeap c n) =
      core (runOps v H0 (c.hist.take (c.nEnacted + (c.logged.take (max n c.flushed)).length))) := by
  have hfl := hi.fl
  have hlen := hi.len
  refine ⟨?_, ?_, ?_⟩
  · simp only [List.length_take]
    omega
  · simp only [List.length_take]
    omega
  · have hle : (c.logged.take (max n c.flushed)).length ≤ (c.logged ++ c.p.queue).length := by
      simp only [List.length_take, List.length_append]
      omega
    have := hi.F _ hle
    have htk : (c.logged ++ c.p.queue).take (c.logged.take (max n c.flushed)).length =
        c.logged.take (max n c.flushed) := take_take_length _ _ _
    rw [htk] at this
    simp only [recoverHeap, hi.sim.var]
    exact this

/-! ### the recovered heap -/

theorem present_of_core (h h' : Heap K D) (e : core h = core h') (a : Addr) :
    present h a ↔ present h' a := by
  simp only [core, Prod.mk.injEq] at e
  simp only [present, e.1]

theorem Below_of_core (h h' : Heap K D) (e : core h = core h') (nx : Addr) (hb : Below h nx) :
    Below h' nx :=
  fun a ha => hb a ((present_of_core h h' e a).mpr ha)

theorem inv_withNext (v : Variant) (H : Heap K D) (hi : Inv v H) (nx : Addr) (hb : Below H nx) :
    Inv v (withNext nx H) where
  shape := hi.shape.withNext nx
  below := hb
  counts := fun hv => (hi.counts hv).withNext nx

/-- every live tree of a heap satisfying the invariant reads back -/
theorem readTree_isSome (v : Variant) (H : Heap K D) (hi : Inv v H) (k : K) (e : Node D × Nat)
    (hg : H.roots.get k = some e) : (readTree H k).isSome = true := by
  simp only [readTree, hg]
  have : (mapOpt (readNode H.nodes.get H.next) e.1.children).isSome = true := by
    apply mapOpt_isSome
    intro x hx
    have hp : present H x := hi.shape.closedR k e hg x hx
    rw [readNode_fuel _ hi.shape.acyclicView _ _ x (Nat.le_refl _) (hi.below x hp)]
    exact readAt_total H hi.shape x x (Nat.le_refl _) hp
  obtain ⟨ts, hts⟩ := Option.isSome_iff_exists.mp this
  simp [hts]

/-- the trees do not depend on the address counter, as long as it lies above every present node -/
theorem readTree_withNext (v : Variant) (H : Heap K D) (hi : Inv v H) (nx : Addr)
    (hb : Below H nx) (k : K) : readTree (withNext nx H) k = readTree H k := by
  simp only [readTree]
  have hr : (withNext nx H).roots = H.roots := rfl
  have hn : (withNext nx H).nodes = H.nodes := rfl
  have hx : (withNext nx H).next = nx := rfl
  rw [hr, hn, hx]
  cases hg : H.roots.get k with
  | none => rfl
  | some e =>
    simp only
    congr 1
    apply mapOpt_congr
    intro x hxm
    have hp : present H x := hi.shape.closedR k e hg x hxm
    rw [readNode_fuel _ hi.shape.acyclicView _ _ x (Nat.le_refl _) (hb x hp),
      readNode_fuel _ hi.shape.acyclicView _ _ x (Nat.le_refl _) (hi.below x hp)]

/-- C10's refinement theorem from an arbitrary start heap satisfying the invariant. -/
theorem pipeline_refines_from (v : Variant) (H0 : Heap K D) (hi0 : Inv v H0)
    (s0 : PState K D) (sim0 : Sim v s0 H0) (cmds : List (Cmd K D))
    (hl : LegalRun v H0 (committedOps cmds)) :
    Inv v (runOps v H0 (committedOps cmds)) ∧
    (∀ k r c, (runOps v H0 (committedOps cmds)).roots.get k = some (r, c) →
      viewRoot (cmds.foldl cmdStep s0) k = some r ∧
      (mapOpt (readNode (viewNode (cmds.foldl cmdStep s0)) (runOps v H0 (committedOps cmds)).next)
        r.children).map (LTree.node r.data) = readTree (runOps v H0 (committedOps cmds)) k) ∧
    ((cmds.foldl cmdStep s0).queue = [] →
      (cmds.foldl cmdStep s0).heap.nodes = (runOps v H0 (committedOps cmds)).nodes ∧
      (cmds.foldl cmdStep s0).heap.rc = (runOps v H0 (committedOps cmds)).rc ∧
      (cmds.foldl cmdStep s0).heap.roots = (runOps v H0 (committedOps cmds)).roots) := by
  have sim := sim_run v cmds s0 H0 sim0 hl
  have hi := runOps_inv v (committedOps cmds) H0 hi0 hl
  have hv := sim_views v _ _ sim
  refine ⟨hi, ?_, ?_⟩
  · intro k r c hg
    refine ⟨hv.1 k r c hg, ?_⟩
    simp only [readTree, hg]
    congr 1
    apply mapOpt_congr
    intro x hx
    exact readNode_view _ hi.shape _ hv.2 _ x (hi.shape.closedR k (r, c) hg x hx)
  · intro hq
    have hc := sim.core
    rw [hq] at hc
    simp only [drainHeap, List.foldl_nil, core, Prod.mk.injEq] at hc
    exact ⟨hc.1.symm, hc.2.1.symm, hc.2.2.symm⟩

/-- the recovered pipeline state shows exactly the tables of the recovered heap -/
theorem start_views (v : Variant) (h : Heap K D) :
    (∀ k, viewRoot (CState.start v h).p k = (h.roots.get k).map Prod.fst) ∧
    viewNode (CState.start v h).p = h.nodes.get := by
  constructor
  · intro k; simp [viewRoot, ovRoot, CState.start]
  · funext a; simp [viewNode, ovNode, CState.start]

end Pdb.MultiTree
