/-
C13: specification-side reading of one `enact_logs(true)` call: the validation pass decides,
the apply pass is the pure function `effectsOf` / `applyPass` on the parsed actions.
`Pdb.Proofs.C13Enact.parseRecord_eq_spec` proves that the byte-level model (`parseRecord`:
validation pass, then the apply pass reading the same bytes again, with every panic site) is
this function whenever the configuration is `Sane`.
-/
import Pdb.Model.Wal

namespace Pdb.Wal
open Pdb.Gen

def parseRecordSpec (crc : Bytes → Nat) (cfg : Cfg) (lastEnacted : Nat) (bytes : Bytes) :
    ParseResult :=
  match validatePass crc cfg lastEnacted bytes with
  | .ok r rest cfgV => .ok r (effectsOf cfgV r.actions) rest (applyPass cfgV r.actions)
  | .endOfLog => .endOfLog
  | .invalid why cfg' => .invalid why cfg'
  | .panic => .panic
  | .outOfFuel => .outOfFuel

end Pdb.Wal
