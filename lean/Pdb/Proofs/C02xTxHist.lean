/-
C02xTx: every entry of the surviving history is a legal, ACCEPTED transaction on the atomic heap of
the entries before it (so the transaction theorems of C10T - read back, RcInv, frame - apply to
every transaction of a recovered prefix).
-/
import Pdb.Proofs.C02xTxInv

namespace Pdb.MultiTree
set_option linter.unusedSectionVars false
variable {K D : Type} [DecidableEq K]

/-- entry `j` of the history is a legal accepted transaction on the specification of the first `j` -/
def EntryOk (v : Variant) (hist : List (TxEntry K D)) (j : Nat) (e : TxEntry K D) : Prop :=
  InvR v (atomRun v (hist.take j)) ∧ SupplyOk (atomRun v (hist.take j)) e.free e.next ∧
  DerefApart e.ops ∧ LegalInOrder v (atomRun v (hist.take j), e.free, e.next) e.ops ∧
  validateOps v (viewOf (atomRun v (hist.take j))) e.ops = .ok

def HistInv (v : Variant) (c : XState K D) : Prop :=
  ∀ j e, c.hist[j]? = some e → EntryOk v c.hist j e

theorem histInv_init (v : Variant) : HistInv v (XState.init v : XState K D) := by
  intro j e h; simp [XState.init] at h

theorem histInv_take (v : Variant) (hist : List (TxEntry K D)) (m : Nat)
    (h : ∀ j e, hist[j]? = some e → EntryOk v hist j e) :
    ∀ j e, (hist.take m)[j]? = some e → EntryOk v (hist.take m) j e := by
  intro j e he
  rw [List.getElem?_take] at he
  by_cases hj : j < m
  · simp only [hj, if_true] at he
    have := h j e he
    simp only [EntryOk, List.take_take, Nat.min_eq_left (Nat.le_of_lt hj)]
    exact this
  · simp only [hj, if_false] at he; cases he

theorem histInv_commit (v : Variant) (c : XState K D) (hi : XInv v c) (hh : HistInv v c)
    (ops : List (Op K D)) (hda : DerefApart ops) (hdl : DerefLive c.H ops)
    (hleg : LegalInOrder v (c.H, c.t.free, c.t.heap.next) ops) :
    HistInv v (xstep c (.commit ops)) := by
  simp only [xstep]
  rcases hc : c.t.commit ops with ⟨t', res⟩
  cases res with
  | error e => exact hh
  | ok u =>
    cases u
    simp only
    have hok : (c.t.commit ops).2 = .ok () := by rw [hc]
    have hV := (TState.commit_ok_iff c.t ops).mp hok
    have hval := (simL_commit_asm v c.t c.H c.leaked hi.sim ops hdl).1
    intro j e he
    have he' : (c.hist ++ [⟨ops, c.t.free, c.t.heap.next⟩])[j]? = some e := he
    show EntryOk v (c.hist ++ [_]) j e
    by_cases hj : j < c.hist.length
    · rw [List.getElem?_append_left hj] at he'
      have := hh j e he'
      simp only [EntryOk, take_snoc_le _ _ _ (Nat.le_of_lt hj)]
      exact this
    · have hge : c.hist.length ≤ j := Nat.le_of_not_lt hj
      rw [List.getElem?_append_right hge] at he'
      have hj0 : j - c.hist.length = 0 := by
        cases hd : j - c.hist.length with
        | zero => rfl
        | succ k => rw [hd] at he'; simp at he'
      rw [hj0] at he'
      simp only [List.getElem?_cons_zero, Option.some.injEq] at he'
      subst he'
      have hjl : j = c.hist.length := by omega
      subst hjl
      simp only [EntryOk, take_snoc_le _ _ _ (Nat.le_refl _), List.take_length, ← hi.hH]
      exact ⟨hi.sim.inv, hi.sim.supply, hda, hleg, by rw [← hval]; exact hV⟩

theorem histInv_run (v : Variant) (cmds : List (XCmd K D)) :
    ∀ (c : XState K D), XInv v c → HistInv v c → LegalX v c cmds → HistInv v (xrun c cmds) := by
  induction cmds with
  | nil => intro c _ hh _; exact hh
  | cons cmd cmds ih =>
    intro c hi hh hl
    simp only [xrun, List.foldl_cons]
    cases cmd with
    | commit ops =>
      simp only [LegalX] at hl
      obtain ⟨⟨hda, hdl, hleg⟩, hl2⟩ := hl
      exact ih _ (xinv_commit v c hi ops hda hdl hleg) (histInv_commit v c hi hh ops hda hdl hleg) hl2
    | process =>
      simp only [LegalX] at hl
      refine ih _ (xinv_process v c hi) ?_ hl
      have : (xstep c .process).hist = c.hist := by
        simp only [xstep]; split <;> rfl
      intro j e he; rw [this] at he ⊢; exact hh j e he
    | flush => simp only [LegalX] at hl; exact ih _ (xinv_flush v c hi) hh hl
    | enact =>
      simp only [LegalX] at hl
      refine ih _ (xinv_enact v c hi) ?_ hl
      have : (xstep c .enact).hist = c.hist := by
        simp only [xstep]; split <;> rfl
      intro j e he; rw [this] at he ⊢; exact hh j e he
    | crash n =>
      simp only [LegalX] at hl
      exact ih _ (xinv_crash v c hi n) (histInv_take v c.hist _ hh) hl

end Pdb.MultiTree
