/-
C04 (c): `write_sorted_changes` (one descent per change) and `write_plan` refine `specApply`
on the in-order enumeration and keep order + shape, as long as no step is `stuck`.
-/
import Pdb.Proofs.C04TreeDelete

namespace Pdb.C04
variable {V : Type}

/-- order and shape part of TreeInv: in-order keys strictly increasing, every leaf at the
    header depth, every internal node has one child more than separators. -/
def TreeWF (t : Tree V) : Prop := WF t.depth t.root ∧ Sorted t.toList

theorem TreeWF.empty : TreeWF (Tree.empty : Tree V) :=
  ⟨rfl, List.Pairwise.nil⟩

theorem specApply_cons (op : Op V) (ops : List (Op V)) (l : List (Key × V)) :
    specApply (op :: ops) l = specApply ops (specApply [op] l) := rfl

theorem sorted_specApply_one (op : Op V) {l : List (Key × V)} (h : Sorted l) :
    Sorted (specApply [op] l) := sorted_specApply [op] h

theorem applyOne_spec (t : Tree V) (op : Op V) (hw : TreeWF t)
    (hok : (applyOne t op).2 = true) :
    (applyOne t op).1.toList = specApply [op] t.toList ∧ TreeWF (applyOne t op).1 := by
  obtain ⟨root, depth⟩ := t
  obtain ⟨hwf, hs⟩ := hw
  simp only [Tree.toList] at hs ⊢
  have key : ∀ t' : Tree V, t'.toList = specApply [op] (toList depth root) →
      WF t'.depth t'.root → t'.toList = specApply [op] (toList depth root) ∧ TreeWF t' := by
    intro t' h1 h2
    refine ⟨h1, h2, ?_⟩
    rw [h1]; exact sorted_specApply_one op hs
  cases op with
  | set k v =>
    obtain ⟨c1, c2, c3, c4⟩ := change_set_spec depth root hwf hs k v
    unfold applyOne at hok ⊢
    simp only at hok ⊢
    cases hc : change depth root (.set k v) with
    | mk root' r =>
      rw [hc] at c1 c2 c3 c4
      simp only at c1 c2 c3 c4
      rcases c4 with rfl | ⟨sep, right, rfl⟩
      · exact key ⟨root', depth⟩ c1 c2
      · refine key ⟨.mk [sep] [root', right], depth + 1⟩ ?_ ?_
        · show toList (depth + 1) (.mk [sep] [root', right]) = _
          rw [toList_succ]
          simpa [interleave, zipR, flat, specApply] using c1
        · refine ⟨rfl, ?_⟩
          intro x hx
          simp only [Node.children_mk, List.mem_cons, List.not_mem_nil, or_false] at hx
          rcases hx with rfl | rfl
          · exact c2
          · exact c3
  | del k =>
    unfold applyOne at hok ⊢
    simp only at hok ⊢
    cases hc : change depth root (.del k) with
    | mk root' r =>
      rw [hc] at hok
      have hns : (change depth root (.del k)).2 ≠ .stuck := by
        rw [hc]; intro e; subst e; simp at hok
      obtain ⟨c1, c2, c3⟩ := change_del_spec depth root hwf hs k hns
      rw [hc] at c1 c2 c3
      simp only at c1 c2 c3
      rcases c3 with rfl | rfl
      · exact key ⟨root', depth⟩ c1 c2
      · -- `need_remove_root`
        simp only
        by_cases h0 : root'.seps.length = 0
        · rw [if_pos h0]
          cases depth with
          | zero =>
            have : root'.children = [] := c2
            simp only [this, List.getElem?_nil]
            exact key ⟨root', 0⟩ c1 c2
          | succ d =>
            obtain ⟨hl, hch⟩ := c2
            rw [h0] at hl
            obtain ⟨rs, rc⟩ := root'
            simp only [Node.children_mk, Node.seps_mk] at hl hch h0 ⊢
            cases rc with
            | nil => simp at hl
            | cons c rest =>
              have hrest : rest = [] := by
                cases rest with
                | nil => rfl
                | cons _ _ => simp at hl
              subst hrest
              have hrs : rs = [] := List.eq_nil_of_length_eq_zero h0
              subst hrs
              simp only [List.getElem?_cons_zero]
              refine key ⟨c, d + 1 - 1⟩ ?_ ?_
              · show toList d c = del (toList (d + 1) root) k
                rw [← c1, toList_succ]
                simp [interleave, zipR]
              · exact hch c (by simp)
        · rw [if_neg h0]
          exact key ⟨root', depth⟩ c1 c2

theorem applyList_spec (ops : List (Op V)) : ∀ (t : Tree V), TreeWF t →
    (applyList t ops).2 = true →
    (applyList t ops).1.toList = specApply ops t.toList ∧ TreeWF (applyList t ops).1 := by
  induction ops with
  | nil => intro t hw _; exact ⟨rfl, hw⟩
  | cons op ops ih =>
    intro t hw hok
    unfold applyList at hok ⊢
    simp only at hok ⊢
    by_cases h1 : (applyOne t op).2 = true
    · rw [if_pos h1] at hok ⊢
      obtain ⟨e1, w1⟩ := applyOne_spec t op hw h1
      obtain ⟨e2, w2⟩ := ih _ w1 hok
      exact ⟨by rw [e2, e1]; rfl, w2⟩
    · rw [if_neg h1] at hok
      exact absurd hok h1

/-- `write_plan` + `write_sorted_changes`: the tree after a transaction enumerates the map
    after the transaction; order and shape are kept. -/
theorem applyChanges_spec (t : Tree V) (cs : List (Op V)) (hw : TreeWF t)
    (hok : (applyChanges t cs).2 = true) :
    (applyChanges t cs).1.toList = specApply cs t.toList ∧ TreeWF (applyChanges t cs).1 := by
  unfold applyChanges at hok ⊢
  obtain ⟨e, w⟩ := applyList_spec _ t hw hok
  exact ⟨by rw [e, specApply_prepare cs _ hw.2], w⟩

/-- A change list of Sets only never gets stuck (no rebalancing is involved). -/
theorem applyOne_set_ok (t : Tree V) (k : Key) (v : V) (hw : TreeWF t) :
    (applyOne t (.set k v)).2 = true := by
  obtain ⟨root, depth⟩ := t
  obtain ⟨hwf, hs⟩ := hw
  obtain ⟨_, _, _, c4⟩ := change_set_spec depth root hwf hs k v
  unfold applyOne
  simp only
  cases hc : change depth root (.set k v) with
  | mk root' r =>
    rw [hc] at c4
    rcases c4 with rfl | ⟨sep, right, rfl⟩ <;> rfl

end Pdb.C04
