/-
The invariant of the concurrent-reader model and its preservation by every atomic action.

`CInv` = P1's `Inv` on the refinement image `abs s` (which packages HandOver: the commit
overlay covers every commit that is queued, being planned, or published-but-not-cleaned)
+ Shadow (`tbl`: the tables differ from the last ended image only by a prefix of the oldest
record's writes, all of which are covered by the log overlay)
+ the per-reader facts that make the three separately locked lookups add up to one snapshot.
-/
import Pdb.Proofs.C05Lemmas

set_option linter.unusedSectionVars false
set_option linter.unusedSimpArgs false
set_option linter.unusedVariables false
namespace Pdb
namespace CRd
variable {K V : Type} [DecidableEq K]

def inflAll (s : CSt K V) : List (Commit K V) :=
  match s.inflight with
  | some (c, _) => [c]
  | none => []

/-- What is known about a reader at each program point. -/
def RdOk (kind : K → Kind) (s : CSt K V) : RPc K V → Prop
  | .idle => True
  | .started _ q => q = s.hist.length
  | .missedOverlay k q => q = s.hist.length ∧ s.overlay k = none
  | .missedLog k q => q = s.hist.length ∧ s.overlay k = none ∧
      (kind k = .plain → ∀ r ∈ s.logged, lastW r k = none)
  | .done k q res => q = s.hist.length ∧
      (kind k = .plain → res = (spec kind s.hist k).map Prod.fst)

def EvOk (kind : K → Kind) (s : CSt K V) (e : ReadEvt K V) : Prop :=
  e.startSeq = e.endSeq ∧ e.endSeq ≤ s.hist.length ∧
  (kind e.key = .plain → e.result = (spec kind (s.hist.take e.startSeq) e.key).map Prod.fst)

structure CInv (kind : K → Kind) (N : Nat) (s : CSt K V) : Prop where
  abs : Inv kind (abs s)
  tbl : s.tables = applyRecPrefix s.enactPos s.base (s.logged.headD [])
  posFl : s.flushed = 0 → s.enactPos = 0
  inflId : ∀ c b, s.inflight = some (c, b) → c.id ≤ s.nextId
  stale : ∀ c, s.inflight = some (c, true) → ∀ k v, kind k = .plain →
      s.overlay k = some (c.id, v) → (view (CRd.abs s) k).map Prod.fst = v
  valid : ∀ c ∈ inflAll s ++ s.queue, c.ops.all (opValid kind) = true
  rd : ∀ t, RdOk kind s (s.readers t)
  rdN : ∀ t, (s.readers t).isIdle = false → t < N
  evs : ∀ e ∈ s.reads, EvOk kind s e
  mono : s.reads.Pairwise (fun a b => a.endSeq ≤ b.startSeq)

theorem CInv.init (kind : K → Kind) (N : Nat) : CInv kind N (CSt.init : CSt K V) := by
  constructor
  · exact Inv.init kind
  · simp [CSt.init, applyRecPrefix, applyRec]
  · simp [CSt.init]
  · simp [CSt.init]
  · simp [CSt.init]
  · simp [CSt.init, inflAll]
  · intro t; simp [CSt.init, RdOk]
  · intro t; simp [CSt.init, RPc.isIdle]
  · simp [CSt.init]
  · simp [CSt.init]

/-- Shadow: planner and readers see through (log overlay, tables) exactly what the
    abstraction sees through (log overlay, last ended image). -/
theorem cview_eq {kind : K → Kind} {N : Nat} {s : CSt K V} (h : CInv kind N s) :
    cview s = view (abs s) := by
  funext k
  unfold cview view
  show (logLookup s.logged k).getD (s.tables k) = (logLookup s.logged k).getD (s.base k)
  rw [h.tbl]
  exact shadow_view s.base s.logged s.enactPos k

theorem inside_of {N : Nat} {s : CSt K V} (t : Nat) (hi : (s.readers t).isIdle = false)
    (ht : t < N) : inside N s = true := by
  unfold inside
  rw [List.any_eq_true]
  exact ⟨t, List.mem_range.mpr ht, by simp [hi]⟩

theorem all_idle {kind : K → Kind} {N : Nat} {s : CSt K V} (h : CInv kind N s)
    (hin : inside N s = false) (t : Nat) : s.readers t = .idle := by
  cases hr : s.readers t with
  | idle => rfl
  | _ =>
    have hi : (s.readers t).isIdle = false := by rw [hr]; rfl
    have := inside_of t hi (h.rdN t hi)
    rw [hin] at this
    exact absurd this (by simp)

theorem RdOk_idle (kind : K → Kind) (s : CSt K V) : RdOk kind s (.idle : RPc K V) := trivial

/-- `RdOk` only looks at `hist`, `overlay`, `logged`. -/
theorem RdOk_congr (kind : K → Kind) (s s' : CSt K V) (pc : RPc K V)
    (h1 : s'.hist = s.hist) (h2 : s'.overlay = s.overlay) (h3 : ∀ r ∈ s'.logged, r ∈ s.logged)
    (h : RdOk kind s pc) : RdOk kind s' pc := by
  cases pc with
  | idle => trivial
  | started k q => simpa [RdOk, h1] using h
  | missedOverlay k q => simpa [RdOk, h1, h2] using h
  | missedLog k q =>
    simp only [RdOk, h1, h2] at h ⊢
    exact ⟨h.1, h.2.1, fun hk r hr => h.2.2 hk r (h3 r hr)⟩
  | done k q res => simpa [RdOk, h1] using h

theorem EvOk_congr (kind : K → Kind) (s s' : CSt K V) (e : ReadEvt K V)
    (h1 : s'.hist = s.hist) (h : EvOk kind s e) : EvOk kind s' e := by
  simpa [EvOk, h1] using h

/-! ### commit -/

theorem abs_commit {kind : K → Kind} {N : Nat} {s : CSt K V} (h : CInv kind N s)
    (tx : List (Op K V)) (hv : tx.all (opValid kind) = true) :
    abs ({ s with nextId := s.nextId + 1,
                  overlay := tx.foldl (ovOp kind (s.nextId + 1)) s.overlay,
                  queue := s.queue ++ [{ id := s.nextId + 1, ops := tx }],
                  hist := s.hist ++ [tx] } : CSt K V) = (Pdb.commit kind (abs s) tx).1 := by
  unfold Pdb.commit
  simp only [hv, Bool.not_true, Bool.false_eq_true, if_false]
  unfold abs
  simp only [Bool.false_eq_true, if_false, St.mk.injEq, true_and, and_true]
  refine ⟨?_, ?_⟩
  · unfold absOverlay
    simp only
    cases hi : s.inflight with
    | none => rfl
    | some x =>
      obtain ⟨c, b⟩ := x
      cases b with
      | false => rfl
      | true =>
        simp only
        have := h.inflId c true hi
        exact clean_ov_comm kind c.id (s.nextId + 1) (by omega) c.ops tx s.overlay
  · unfold pend
    simp only [List.append_assoc]

theorem CInv.commit {kind : K → Kind} {N : Nat} {s : CSt K V} (h : CInv kind N s)
    (tx : List (Op K V)) : CInv kind N (cstep kind N s (.commit tx)) := by
  unfold cstep
  by_cases hin : inside N s = true
  · simpa [hin] using h
  · simp only [Bool.not_eq_true] at hin
    by_cases hv : tx.all (opValid kind) = true
    · simp only [hin, hv, Bool.false_eq_true, if_false, Bool.not_true]
      have habs := abs_commit h tx hv
      have hidle := all_idle h hin
      constructor
      · rw [habs]; exact h.abs.commit tx
      · exact h.tbl
      · exact h.posFl
      · intro c b hc
        have := h.inflId c b hc
        simp only; omega
      · intro c hc k v hk hov
        simp only at hc hov
        rw [ovOp_fold] at hov
        have hid := h.inflId c true hc
        cases hw : lastW (opsW kind (s.nextId + 1) tx) k with
        | some x =>
          obtain ⟨i, w⟩ := x
          rw [hw] at hov
          simp at hov
          have := (opsW_tag kind (s.nextId + 1) tx k i w hw).1
          omega
        | none =>
          rw [hw] at hov
          simp only [Option.or] at hov
          exact h.stale c hc k v hk hov
      · intro c hc
        simp only [inflAll, List.mem_append, List.mem_singleton] at hc
        rcases hc with hc | hc | hc
        · exact h.valid c (by simp [inflAll, hc])
        · exact h.valid c (by simp [hc])
        · subst hc; exact hv
      · intro t
        simp only
        rw [hidle t]; trivial
      · intro t ht
        simp only at ht
        rw [hidle t] at ht
        simp [RPc.isIdle] at ht
      · intro e he
        have := h.evs e he
        simp only [EvOk, List.length_append, List.length_cons, List.length_nil] at this ⊢
        refine ⟨this.1, by omega, ?_⟩
        intro hk
        rw [List.take_append_of_le_length (by omega)]
        exact this.2.2 hk
      · exact h.mono
    · simpa [hin, hv] using h

end CRd
end Pdb
