/-
C06 helper lemmas, part 4: the free list (`next_free`, `clear_slot`, `clear_chain`), following an
existing chain, and frame lemmas for the structural predicates.
-/
import Pdb.Proofs.C06Chain

namespace Pdb.ValueTable
open Pdb.Gen

/-! ## frames -/

theorem FreeChain_congr (t t' : VT) (F : List Nat) (hs : ∀ x ∈ F, t'.slots x = t.slots x)
    (hf : t.filled ≤ t'.filled) : ∀ h, FreeChain t h F → FreeChain t' h F := by
  induction F with
  | nil => intro h hh; exact hh
  | cons a F ih =>
    intro h hh
    simp only [FreeChain] at hh ⊢
    obtain ⟨h1, h2, h3, h4, h5⟩ := hh
    have hsa := hs a (by simp)
    refine ⟨h1, h2, by omega, by rw [hsa]; exact h4, ?_⟩
    rw [hsa]
    exact ih (fun x hx => hs x (by simp [hx])) _ h5

theorem FreeChain_zero (t : VT) (F : List Nat) (h : FreeChain t 0 F) : F = [] := by
  cases F with
  | nil => rfl
  | cons a F => simp only [FreeChain] at h; exact absurd h.1.symm h.2.1

theorem FreeChain_head_lt (t : VT) (h : Nat) (F : List Nat) (hf : FreeChain t h F)
    (hpos : 0 < t.filled) : h < t.filled := by
  cases F with
  | nil => simp only [FreeChain] at hf; omega
  | cons a F => simp only [FreeChain] at hf; omega

theorem FreeChain_mem (t : VT) (F : List Nat) : ∀ h, FreeChain t h F →
    ∀ x ∈ F, x ≠ 0 ∧ x < t.filled ∧ isTombstone (t.slots x) := by
  induction F with
  | nil => intro h _ x hx; simp at hx
  | cons a F ih =>
    intro h hf x hx
    simp only [FreeChain] at hf
    rcases List.mem_cons.mp hx with rfl | hx
    · exact ⟨hf.2.1, hf.2.2.1, hf.2.2.2.1⟩
    · exact ih _ hf.2.2.2.2 x hx

theorem nextPart_congr (t t' : VT) (i : Nat) (hs : t'.slots i = t.slots i)
    (hm : t'.multipart = t.multipart) : nextPart t' i = nextPart t i := by
  unfold nextPart; rw [hs, hm]

theorem IsChain_congr (t t' : VT) (c : List Nat) (hs : ∀ x ∈ c, t'.slots x = t.slots x)
    (hm : t'.multipart = t.multipart) (h : IsChain t c) : IsChain t' c := by
  induction c with
  | nil => exact h
  | cons a r ih =>
    cases r with
    | nil =>
      simp only [IsChain] at h ⊢
      rw [nextPart_congr t t' a (hs a (by simp)) hm]; exact h
    | cons b r' =>
      simp only [IsChain] at h ⊢
      rw [nextPart_congr t t' a (hs a (by simp)) hm]
      exact ⟨h.1, ih (fun x hx => hs x (by simp [hx])) h.2⟩

theorem IsChain_ne_nil (t : VT) (c : List Nat) (h : IsChain t c) : c ≠ [] := by
  cases c with
  | nil => exact absurd h (by simp [IsChain])
  | cons a r => simp

/-! ## a written chain is a chain -/

theorem Written_isChain (s : VT) (compressed : Bool) (hfs : freeSpace s ≤ maxStoredLen) :
    ∀ (idxs : List Nat) (first : Bool) (chunks : List Bytes),
      Written s compressed first idxs chunks →
      GoodChunks (freeSpace s) (partCap s) chunks →
      (∀ j ∈ idxs.tail, j < 2 ^ 64) → (2 ≤ idxs.length → s.multipart = true) →
      IsChain s idxs := by
  intro idxs
  induction idxs with
  | nil =>
    intro first chunks hw hg
    cases chunks with
    | nil => simp [GoodChunks] at hg
    | cons c cs => simp [Written] at hw
  | cons i is ih =>
    intro first chunks hw hg hj hmp
    cases chunks with
    | nil => simp [Written] at hw
    | cons c cs =>
      cases is with
      | nil =>
        cases cs with
        | cons c' cs' => simp [Written] at hw
        | nil =>
          simp only [Written, List.head?_nil, encodePart] at hw
          simp only [GoodChunks] at hg
          simp only [IsChain]
          exact sized_nextPart s i c compressed (by have := maxStoredLen_lt; omega) hw.1
      | cons j js =>
        cases cs with
        | nil => simp [Written] at hw
        | cons c' cs' =>
          simp only [Written, List.head?_cons, encodePart] at hw
          simp only [GoodChunks] at hg
          have hmp' : s.multipart = true := hmp (by simp)
          have hj64 : j < 2 ^ 64 := hj j (by simp)
          simp only [IsChain]
          refine ⟨?_, ih false (c' :: cs') hw.2 hg.2 (fun x hx => hj x (by simp at hx ⊢; exact Or.inr hx))
            (fun _ => hmp')⟩
          have hml : (if first = true then headMarker compressed else MULTIPART).length = SIZE_SIZE := by
            split
            · exact headMarker_length _
            · decide
          obtain ⟨m1, m2, _⟩ := multi_slot _ hml j hj64 c
          unfold nextPart
          rw [hw.1, m2, if_pos]
          refine ⟨hmp', ?_⟩
          unfold isMulti isMultipart isMultiHead isMultiHeadCompressed
          rw [m1]
          cases first
          · left; rfl
          · right
            cases compressed
            · right; rfl
            · left; rfl

/-! ## next_free -/

theorem nextFree_zero (t : VT) (h0 : t.lastRemoved = 0) :
    nextFree t = .ok ({ t with filled := t.filled + 1 }, t.filled) := by
  simp [nextFree, h0]

theorem nextFree_pop (t : VT) (h0 : t.lastRemoved ≠ 0)
    (hlt : linkOf (t.slots t.lastRemoved) < t.filled) :
    nextFree t = .ok ({ t with lastRemoved := linkOf (t.slots t.lastRemoved) }, t.lastRemoved) := by
  simp only [nextFree, ne_eq, h0, not_false_eq_true, if_true]
  rw [if_neg (by omega)]

theorem allocN_spec (n : Nat) : ∀ (t : VT) (F : List Nat), FreeChain t t.lastRemoved F →
    0 < t.filled →
    ∃ t', allocN t n = .ok (t', F.take n ++ List.range' t.filled (n - F.length)) ∧
      t'.slots = t.slots ∧ SameCfg t t' ∧ t'.filled = t.filled + (n - F.length) ∧
      FreeChain t' t'.lastRemoved (F.drop n) := by
  induction n with
  | zero =>
    intro t F hF _
    exact ⟨t, by simp [allocN], rfl, SameCfg.refl t, by simp, by simpa using hF⟩
  | succ n ih =>
    intro t F hF hpos
    by_cases h0 : t.lastRemoved = 0
    · rw [h0] at hF
      have hnil := FreeChain_zero t F hF
      subst hnil
      obtain ⟨t', h1, h2, h3, h4, h5⟩ := ih { t with filled := t.filled + 1 } []
        (by simp only [FreeChain]; exact h0) (by simp)
      refine ⟨t', ?_, h2, h3, ?_, by simpa using h5⟩
      · simp only [allocN]
        rw [nextFree_zero t h0]
        simp only []
        rw [h1]
        simp [List.range'_succ]
      · rw [h4]; simp; omega
    · cases F with
      | nil => simp only [FreeChain] at hF; exact absurd hF h0
      | cons a F' =>
        simp only [FreeChain] at hF
        obtain ⟨ha, _, _, _, hrest⟩ := hF
        have hlt := FreeChain_head_lt t _ F' hrest hpos
        obtain ⟨t', h1, h2, h3, h4, h5⟩ := ih { t with lastRemoved := linkOf (t.slots a) } F'
          (FreeChain_congr t { t with lastRemoved := linkOf (t.slots a) } F' (fun _ _ => rfl)
            (Nat.le_refl _) _ hrest) hpos
        refine ⟨t', ?_, h2, h3, ?_, by simpa using h5⟩
        · simp only [allocN]
          rw [nextFree_pop t h0 (by rw [ha]; exact hlt)]
          simp only []
          rw [ha, h1]
          simp
        · rw [h4]; simp

/-! ## following an existing chain -/

theorem walk_spec (t : VT) : ∀ (k : Nat) (a : Nat) (r : List Nat), IsChain t (a :: r) →
    walk t k a = ((a :: r).take k, (a :: r)[k]?) := by
  intro k
  induction k with
  | zero => intro a r _; simp [walk]
  | succ k ih =>
    intro a r h
    cases r with
    | nil =>
      simp only [IsChain] at h
      simp [walk, h]
    | cons b r' =>
      simp only [IsChain] at h
      simp only [walk, h.1]
      rw [ih b r' h.2]
      simp

/-! ## clear_slot / clear_chain -/

theorem clearSlot_free (t : VT) (F : List Nat) (a : Nat) (hF : FreeChain t t.lastRemoved F)
    (ha0 : a ≠ 0) (halt : a < t.filled) (hnot : a ∉ F) (hb : t.filled ≤ 2 ^ 64) :
    FreeChain (clearSlot t a) (clearSlot t a).lastRemoved (a :: F) := by
  have hlr : t.lastRemoved < 2 ^ 64 := by
    have := FreeChain_head_lt t _ F hF (by omega); omega
  obtain ⟨m1, m2, _⟩ := multi_slot TOMBSTONE (by decide) t.lastRemoved hlr []
  simp only [List.append_nil] at m1 m2
  simp only [FreeChain]
  have hslot : (clearSlot t a).slots a = TOMBSTONE ++ leBytes INDEX_SIZE t.lastRemoved := by
    simp [clearSlot]
  refine ⟨rfl, ha0, halt, ?_, ?_⟩
  · unfold isTombstone; rw [hslot, m1]
  · rw [hslot, m2]
    refine FreeChain_congr t (clearSlot t a) F (fun x hx => ?_) (Nat.le_refl _) _ hF
    have : x ≠ a := fun h => hnot (h ▸ hx)
    simp [clearSlot, VT.setSlot, this]

theorem clearSlot_cfg (t : VT) (a : Nat) : SameCfg t (clearSlot t a) ∧ (clearSlot t a).filled = t.filled :=
  ⟨⟨rfl, rfl, rfl⟩, rfl⟩

theorem clearSlot_ne (t : VT) (a j : Nat) (h : j ≠ a) : (clearSlot t a).slots j = t.slots j := by
  simp [clearSlot, VT.setSlot, h]

theorem clearChain_spec : ∀ (r : List Nat) (a : Nat) (t : VT) (F : List Nat) (fuel : Nat),
    IsChain t (a :: r) → (a :: r).Nodup → (∀ x ∈ a :: r, x ≠ 0 ∧ x < t.filled) →
    (∀ x ∈ a :: r, x ∉ F) → FreeChain t t.lastRemoved F → t.filled ≤ 2 ^ 64 →
    (a :: r).length ≤ fuel →
    ∃ t', clearChain t fuel a = .ok (t', a :: r) ∧ SameCfg t t' ∧ t'.filled = t.filled ∧
      (∀ j, j ∉ a :: r → t'.slots j = t.slots j) ∧
      FreeChain t' t'.lastRemoved ((a :: r).reverse ++ F) := by
  intro r
  induction r with
  | nil =>
    intro a t F fuel hc _ hr hd hF hb hfuel
    cases fuel with
    | zero => simp at hfuel
    | succ f =>
      simp only [IsChain] at hc
      have ha := hr a (by simp)
      refine ⟨clearSlot t a, by simp [clearChain, hc], (clearSlot_cfg t a).1, rfl, ?_, ?_⟩
      · intro j hj; exact clearSlot_ne t a j (by simpa using hj)
      · simpa using clearSlot_free t F a hF ha.1 ha.2 (hd a (by simp)) hb
  | cons b r' ih =>
    intro a t F fuel hc hnd hr hd hF hb hfuel
    cases fuel with
    | zero => simp at hfuel
    | succ f =>
      simp only [IsChain] at hc
      have ha := hr a (by simp)
      rw [List.nodup_cons] at hnd
      have hfree := clearSlot_free t F a hF ha.1 ha.2 (hd a (by simp)) hb
      have hchain : IsChain (clearSlot t a) (b :: r') :=
        IsChain_congr t _ _ (fun x hx => clearSlot_ne t a x (fun h => hnd.1 (h ▸ hx))) rfl hc.2
      obtain ⟨t', h1, h2, h3, h4, h5⟩ := ih b (clearSlot t a) (a :: F) f hchain hnd.2
        (fun x hx => hr x (by simp [List.mem_cons] at hx ⊢; exact Or.inr hx))
        (fun x hx => by
          intro hmem
          rcases List.mem_cons.mp hmem with h | h
          · exact hnd.1 (h ▸ hx)
          · exact hd x (by simp [List.mem_cons] at hx ⊢; exact Or.inr hx) h)
        hfree hb (by simp at hfuel ⊢; omega)
      refine ⟨t', ?_, SameCfg.trans (clearSlot_cfg t a).1 h2, h3, ?_, ?_⟩
      · simp only [clearChain, hc.1, h1]
      · intro j hj
        have hja : j ≠ a := fun h => hj (by simp [h])
        have hjr : j ∉ b :: r' := fun h => hj (by simp [List.mem_cons] at h ⊢; exact Or.inr h)
        rw [h4 j hjr, clearSlot_ne t a j hja]
      · have : (a :: b :: r').reverse ++ F = (b :: r').reverse ++ (a :: F) := by simp
        rw [this]; exact h5

end Pdb.ValueTable
