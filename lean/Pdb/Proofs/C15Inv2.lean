/-
C15 helper lemmas (3): structural invariant, remaining steps.
-/
import Pdb.Proofs.C15Inv

namespace Pdb.Conc.Pipe

set_option maxHeartbeats 800000 in
theorem g1_tickD {cfg : Cfg} {s s' : St} (hI : G1 s) (h : tickD cfg s = some s') : G1 s' := by
  have hI0 := hI
  obtain ⟨a1, a2, a3, a4, a5, a6l, a6f, a6c, a6k, a7, a8, a9⟩ := hI
  unfold tickD at h
  split at h
  · g1fin
  · g1fin
  · split at h
    · g1fin
    · cases h
      rename_i hp _
      have hs : s.shutdown = true := a2 (by rw [hp]; rfl)
      have := g1_sdNotify cfg a1 a2 a6l a6f a6c a6k a7 a8 a9 hs
      obtain ⟨b1, b2, b3, b4, b5, b6l, b6f, b6c, b6k, b7, b8, b9⟩ := this
      have hpd : (sdNotify cfg s).pd = s.pd := by unfold sdNotify lqNotify; split <;> rfl
      have hsd : (sdNotify cfg s).sdDone = true := by unfold sdNotify lqNotify; split <;> rfl
      have hsh : (sdNotify cfg s).shutdown = true := by unfold sdNotify lqNotify; split <;> exact hs
      constructor <;> dsimp only <;>
        (first | assumption
               | (simp_all [A1, A2, A3, A4, A5, A8, A9, DPc.afterSd1, DPc.afterSd2, DPc.joined]; first | done | assumption))
  · split at h <;> g1fin
  · split at h <;> g1fin
  · split at h <;> g1fin
  · split at h <;> g1fin
  · obtain ⟨s1, he, hs⟩ := map_some h
    subst hs
    have e := ctlEq_killLogsSeq he
    have := g1_ctlEq hI0 e
    obtain ⟨b1, b2, b3, b4, b5, b6l, b6f, b6c, b6k, b7, b8, b9⟩ := this
    rename_i hp
    have hpd : s1.pd = .kill := by rw [e.pd, hp]
    constructor <;> dsimp only <;>
      (first | assumption
             | (simp_all [A1, A2, A3, A4, A5, A8, A9, DPc.afterSd1, DPc.afterSd2, DPc.joined]; first | done | assumption))
  · g1fin
  · g1fin
  · g1fin

theorem pd_idle_of_busy {s : St} (a1 : A1 s.pd s.cms) {i : Nat} {c : Cm} (hc : s.cms[i]? = some c)
    (hn : c ≠ .idle) : s.pd = .idle := by
  by_cases hp : s.pd = .idle
  · exact hp
  · exact absurd (a1 hp c (List.mem_of_getElem? hc)) hn

theorem g1_of_pd_idle {s s' : St} (hI : G1 s) (hp : s.pd = .idle) (e1 : s'.pd = s.pd)
    (e2 : s'.shutdown = s.shutdown) (e3 : s'.sdDone = s.sdDone) (e4 : s'.pl = s.pl) (e5 : s'.pf = s.pf)
    (e6 : s'.pc = s.pc) (e7 : s'.pk = s.pk) (e8 : s'.bgErr = s.bgErr) : G1 s' := by
  obtain ⟨a1, a2, a3, a4, a5, a6l, a6f, a6c, a6k, a7, a8, a9⟩ := hI
  constructor
  · intro h; rw [e1, hp] at h; exact absurd rfl h
  · rw [e1, e2]; exact a2
  · rw [e1, e3]; exact a3
  · rw [e3, e2]; exact a4
  · rw [e2, e3, e1, e4, e5, e6, e7]; exact a5
  · rw [e4, e2]; exact a6l
  · rw [e5, e2]; exact a6f
  · rw [e6, e2]; exact a6c
  · rw [e7, e2]; exact a6k
  · rw [e8, e2]; exact a7
  · rw [e1]; exact a8
  · rw [e1, e4, e5, e6, e7]; exact a9

theorem g1_commitFinish {s : St} (hI : G1 s) (hp : s.pd = .idle) (i b : Nat) : G1 (commitFinish s i b) := by
  unfold commitFinish
  split <;> exact g1_of_pd_idle hI hp rfl rfl rfl rfl rfl rfl rfl rfl

theorem g1_tickCm {s s' : St} {i : Nat} (hI : G1 s) (h : tickCm s i = some s') : G1 s' := by
  unfold tickCm at h
  split at h
  · rename_i b hc
    cases h
    exact g1_of_pd_idle hI (pd_idle_of_busy hI.a1 hc (by simp)) rfl rfl rfl rfl rfl rfl rfl rfl
  · rename_i b hc
    split at h
    · cases h; exact g1_commitFinish hI (pd_idle_of_busy hI.a1 hc (by simp)) _ _
    · cases h
  · cases h

theorem g1_init (cfg : Cfg) (hw : cfg.workers = true) (n r : Nat) : G1 (init cfg n r) := by
  unfold init
  rw [if_pos hw]
  constructor <;> dsimp only <;>
    simp [A1, A2, A3, A4, A5, A6l, A6f, A6c, A6k, A7, A8, A9, LPc.exited, FPc.exited, CPc.exited,
      KPc.exited, DPc.afterSd1, DPc.afterSd2, DPc.joined]

set_option maxHeartbeats 800000 in
theorem g1_step {cfg : Cfg} (hw : cfg.workers = true) {s s' : St} {a : Act} (hnp : a.isPanic = false) (hI : G1 s)
    (h : step cfg s a = some s') : G1 s' := by
  cases a with
  | tick t =>
    cases t
    · exact g1_tickL hI h
    · exact g1_tickF hI h
    · exact g1_tickC hI (tickCg_some h)
    · exact g1_tickK hI h
    · exact g1_tickD hI h
  | cmTick i => exact g1_tickCm hI h
  | commit i b =>
    simp only [step] at h
    split at h
    · rename_i hg
      have hp : s.pd = .idle := by simp at hg; exact hg.1.1
      split at h
      · cases h; exact g1_of_pd_idle hI hp rfl rfl rfl rfl rfl rfl rfl rfl
      · cases h; exact g1_commitFinish hI hp _ _
    · cases h
  | drop =>
    simp only [step] at h
    split at h
    · rename_i hg
      cases h
      have hg' : (s.pd = .idle ∧ ∀ c ∈ s.cms, c = .idle) ∧ s.iterHeld = false := by simpa using hg
      obtain ⟨a1, a2, a3, a4, a5, a6l, a6f, a6c, a6k, a7, a8, a9⟩ := hI
      constructor <;> dsimp only <;>
        (first | assumption
               | (simp_all [A1, A2, A3, A4, A5, A8, A9, DPc.afterSd1, DPc.afterSd2, DPc.joined]; first | done | assumption))
    · cases h
  | fail t =>
    obtain ⟨a1, a2, a3, a4, a5, a6l, a6f, a6c, a6k, a7, a8, a9⟩ := hI
    cases t
    · simp only [step, hw, if_true] at h
      split at h <;> g1fin
    · simp only [step] at h
      split at h <;> g1fin
    · simp only [step] at h
      split at h <;> g1fin
    · simp only [step] at h
      split at h <;> g1fin
    · simp only [step] at h
      cases h
  | apiProcess => simp [step, hw] at h
  | apiFlush => simp [step, hw] at h
  | apiEnact => simp [step, hw] at h
  | apiClean => simp [step, hw] at h
  | defer =>
    obtain ⟨a1, a2, a3, a4, a5, a6l, a6f, a6c, a6k, a7, a8, a9⟩ := hI
    simp only [step] at h
    split at h
    · split at h <;> g1fin
    · cases h
  | panic t => cases hnp
  | iterHold | iterRelease | dropEnacted k | makeCycle =>
    simp only [step] at h
    split at h
    · cases h; exact ⟨hI.a1, hI.a2, hI.a3, hI.a4, hI.a5, hI.a6l, hI.a6f, hI.a6c, hI.a6k, hI.a7, hI.a8, hI.a9⟩
    · cases h
  | lockTree | unlockTree =>
    simp only [step] at h
    cases h; exact ⟨hI.a1, hI.a2, hI.a3, hI.a4, hI.a5, hI.a6l, hI.a6f, hI.a6c, hI.a6k, hI.a7, hI.a8, hI.a9⟩
  | grow k =>
    simp only [step] at h
    split at h
    · cases h; exact ⟨hI.a1, hI.a2, hI.a3, hI.a4, hI.a5, hI.a6l, hI.a6f, hI.a6c, hI.a6k, hI.a7, hI.a8, hI.a9⟩
    · split at h
      · cases h; exact ⟨hI.a1, hI.a2, hI.a3, hI.a4, hI.a5, hI.a6l, hI.a6f, hI.a6c, hI.a6k, hI.a7, hI.a8, hI.a9⟩
      · cases h
    · cases h

theorem g1_reachable {cfg : Cfg} (hw : cfg.workers = true) {n r : Nat} {s : St}
    (h : Reachable cfg n r s) : G1 s :=
  reachable_induction G1 (g1_init cfg hw n r) (fun _ _ _ hnp hI hs => g1_step hw hnp hI hs) s h

end Pdb.Conc.Pipe
