/-
Consequences of the pipeline invariant: reads, drain / reopen, crash recovery.
-/
import Pdb.Proofs.PipelineInv

set_option linter.unusedSectionVars false
set_option linter.unusedSimpArgs false
namespace Pdb
variable {K V : Type} [DecidableEq K]

/-! ### the whole history as seen from a state -/

theorem qops_eq (q : List (Commit K V)) : qops q = (q.map (·.ops)).flatten := by
  simp [qops, List.flatMap]

theorem Inv.spec_hist {kind : K → Kind} {s : St K V} (h : Inv kind s) :
    spec kind s.hist = applyOps kind (view s) (qops s.queue) := by
  have e : s.hist = s.hist.take (s.nEnacted + s.logged.length) ++
      s.hist.drop (s.nEnacted + s.logged.length) := (List.take_append_drop _ _).symm
  rw [e, spec_append, ← h.queue, ← qops_eq, ← h.view_eq]

/-! ### reads on a plain column -/

theorem applyOp_plain (kind : K → Kind) (id : Nat) (t : Tbl K V) (op : Op K V) (k : K)
    (hk : kind k = .plain) :
    (applyOp kind t op k).map Prod.fst =
      ((lastW (opW kind id op).toList k).map (·.2)).getD ((t k).map Prod.fst) := by
  unfold applyOp
  by_cases h : op.key = k
  · cases op with
    | set k' v =>
      simp only [Op.key] at h; subst h
      simp [opW, lastW, applyCell, hk, Op.key]
    | deref k' =>
      simp only [Op.key] at h; subst h
      simp [opW, lastW, applyCell, hk, Op.key]
    | ref k' =>
      simp only [Op.key] at h; subst h
      simp [opW, lastW, applyCell, hk, Op.key]
  · have hne : k ≠ op.key := fun e => h e.symm
    rw [upd_other _ _ _ _ hne]
    cases op with
    | set k' v => simp only [Op.key] at h; simp [opW, lastW, h]
    | deref k' =>
      simp only [Op.key] at h
      by_cases hr : kind k' = .rc <;> simp [opW, lastW, h, hr]
    | ref k' => simp [opW, lastW]

theorem applyOps_plain (kind : K → Kind) (id : Nat) (ops : List (Op K V)) (t : Tbl K V) (k : K)
    (hk : kind k = .plain) :
    (applyOps kind t ops k).map Prod.fst =
      ((lastW (opsW kind id ops) k).map (·.2)).getD ((t k).map Prod.fst) := by
  induction ops generalizing t with
  | nil => simp [applyOps, opsW, lastW]
  | cons op ops ih =>
    have : applyOps kind t (op :: ops) = applyOps kind (applyOp kind t op) ops := rfl
    rw [this, ih, opsW_cons, lastW_append, applyOp_plain kind id t op k hk]
    cases lastW (opsW kind id ops) k <;> simp

theorem applyQ_plain (kind : K → Kind) (q : List (Commit K V)) (t : Tbl K V) (k : K)
    (hk : kind k = .plain) :
    (applyOps kind t (qops q) k).map Prod.fst =
      ((lastW (queueW kind q) k).map (·.2)).getD ((t k).map Prod.fst) := by
  induction q generalizing t with
  | nil => simp [applyOps, qops, queueW, lastW]
  | cons c q ih =>
    have e1 : qops (c :: q) = c.ops ++ qops q := by simp [qops]
    have e2 : queueW kind (c :: q) = opsW kind c.id c.ops ++ queueW kind q := by simp [queueW]
    rw [e1, e2, applyOps_append, ih, lastW_append, applyOps_plain kind c.id c.ops t k hk]
    cases lastW (queueW kind q) k <;> simp

/-- Reads of a plain column return the latest committed write, whatever the stage. -/
theorem Inv.get_plain {kind : K → Kind} {s : St K V} (h : Inv kind s) (k : K)
    (hk : kind k = .plain) : get s k = (spec kind s.hist k).map Prod.fst := by
  rw [h.spec_hist, applyQ_plain kind s.queue (view s) k hk, ← h.ov k]
  unfold get
  cases s.overlay k with
  | none => simp
  | some x => obtain ⟨i, v⟩ := x; simp

/-! ### drain and clean reopen -/

theorem enactOne_queue (s : St K V) : (enactOne s).queue = s.queue ∧ (enactOne s).hist = s.hist
    ∧ (enactOne s).overlay = s.overlay := by
  unfold enactOne
  cases s.flushed with
  | zero => simp
  | succ f => cases s.logged <;> simp

theorem enactAll_queue (n : Nat) (s : St K V) :
    (enactAll n s).queue = s.queue ∧ (enactAll n s).hist = s.hist ∧
    (enactAll n s).overlay = s.overlay := by
  induction n generalizing s with
  | zero => simp [enactAll]
  | succ n ih =>
    have a := ih (enactOne s)
    have b := enactOne_queue s
    simp only [enactAll]
    exact ⟨a.1.trans b.1, a.2.1.trans b.2.1, a.2.2.trans b.2.2⟩

theorem enactAll_flushed (n : Nat) (s : St K V) (hf : s.flushed = s.logged.length)
    (hn : s.logged.length ≤ n) : (enactAll n s).logged = [] := by
  induction n generalizing s with
  | zero => simp at hn; simpa [enactAll] using hn
  | succ n ih =>
    simp only [enactAll]
    cases hl : s.logged with
    | nil =>
      have : enactOne s = s := by
        unfold enactOne
        cases hff : s.flushed with
        | zero => rfl
        | succ f => simp [hl]
      rw [this]
      apply ih s hf
      simp [hl]
    | cons r rs =>
      rw [hl] at hf hn
      simp only [List.length_cons] at hf hn
      have e : enactOne s = ({ s with tables := applyRec s.tables r, logged := rs,
                                      flushed := rs.length, nEnacted := s.nEnacted + 1 } : St K V) := by
        unfold enactOne
        rw [hf, hl]
      rw [e]
      apply ih
      · rfl
      · simp only; omega

theorem process_hist (kind : K → Kind) (s : St K V) :
    (process kind s).hist = s.hist ∧ (process kind s).queue.length = s.queue.length - 1 := by
  unfold process
  cases hq : s.queue <;> simp [hq]

theorem processAll_queue (kind : K → Kind) (n : Nat) (s : St K V) (hn : s.queue.length ≤ n) :
    (processAll kind n s).queue = [] ∧ (processAll kind n s).hist = s.hist := by
  induction n generalizing s with
  | zero =>
    simp at hn
    simp [processAll, hn]
  | succ n ih =>
    simp only [processAll]
    have a := process_hist kind s
    have b := ih (process kind s) (by rw [a.2]; omega)
    exact ⟨b.1, b.2.trans a.1⟩

theorem drain_spec {kind : K → Kind} {s : St K V} (h : Inv kind s) :
    Inv kind (drain kind s) ∧ (drain kind s).queue = [] ∧ (drain kind s).logged = [] ∧
    (drain kind s).hist = s.hist := by
  unfold drain
  simp only
  let s1 := enactAll s.logged.length s
  let s2 := flush s1
  let s3 := processAll kind s2.queue.length s2
  let s4 := enactAll s3.logged.length s3
  let s5 := flush s4
  let s6 := enactAll s5.logged.length s5
  have i1 : Inv kind s1 := h.enactAll _
  have i2 : Inv kind s2 := i1.flush
  have i3 : Inv kind s3 := i2.processAll _
  have i4 : Inv kind s4 := i3.enactAll _
  have i5 : Inv kind s5 := i4.flush
  have i6 : Inv kind s6 := i5.enactAll _
  have q3 := processAll_queue kind s2.queue.length s2 (Nat.le_refl _)
  have q4 := enactAll_queue s3.logged.length s3
  have q6 := enactAll_queue s5.logged.length s5
  have h1 := enactAll_queue s.logged.length s
  have l6 : s6.logged = [] := enactAll_flushed s5.logged.length s5 rfl (Nat.le_refl _)
  refine ⟨i6, ?_, l6, ?_⟩
  · show s6.queue = []
    rw [q6.1]
    show s4.queue = []
    rw [q4.1]
    exact q3.1
  · show s6.hist = s.hist
    rw [q6.2.1]
    show s4.hist = s.hist
    rw [q4.2.1, q3.2]
    show s1.hist = s.hist
    exact h1.2.1

theorem Inv.cleanReopen {kind : K → Kind} {s : St K V} (h : Inv kind s) :
    Inv kind (Pdb.cleanReopen kind s) ∧ (Pdb.cleanReopen kind s).hist = s.hist ∧
    (Pdb.cleanReopen kind s).tables = spec kind s.hist := by
  obtain ⟨i, q, l, hh⟩ := drain_spec h
  have hlen := i.len
  rw [q, l] at hlen
  simp only [List.length_nil, Nat.add_zero] at hlen
  have ht := i.tables_eq
  rw [hlen, List.take_length] at ht
  unfold Pdb.cleanReopen reopenOf
  refine ⟨?_, hh, by rw [← hh]; exact ht⟩
  constructor
  · intro k; simp [St.init, queueW, lastW]
  · simp [St.init]
  · simp [St.init]
  · intro i' hi'
    simp only [St.init, List.length_nil, Nat.le_zero_eq] at hi'
    subst hi'
    simp only [St.init, List.take_zero, applyRecs, List.foldl_nil, Nat.add_zero]
    rw [hlen, List.take_length]
    exact ht
  · simp [St.init, hlen]
  · simp [St.init, hlen]
  · simp [St.init]

/-! ### frame facts: history and error flag through the stages -/

theorem enactOne_bgErr (s : St K V) : (enactOne s).bgErr = s.bgErr := by
  unfold enactOne
  cases s.flushed with
  | zero => simp
  | succ f => cases s.logged <;> simp

theorem enactAll_bgErr (n : Nat) (s : St K V) : (enactAll n s).bgErr = s.bgErr := by
  induction n generalizing s with
  | zero => simp [enactAll]
  | succ n ih => simp only [enactAll]; rw [ih, enactOne_bgErr]

theorem process_bgErr (kind : K → Kind) (s : St K V) : (process kind s).bgErr = s.bgErr := by
  unfold process
  cases hq : s.queue <;> simp [hq]

theorem processAll_frame (kind : K → Kind) (n : Nat) (s : St K V) :
    (processAll kind n s).bgErr = s.bgErr ∧ (processAll kind n s).hist = s.hist := by
  induction n generalizing s with
  | zero => simp [processAll]
  | succ n ih =>
    simp only [processAll]
    have a := ih (process kind s)
    exact ⟨a.1.trans (process_bgErr kind s), a.2.trans (process_hist kind s).1⟩

theorem drain_frame (kind : K → Kind) (s : St K V) :
    (drain kind s).hist = s.hist ∧ (drain kind s).bgErr = s.bgErr := by
  unfold drain
  simp only
  let s1 := enactAll s.logged.length s
  let s2 := flush s1
  let s3 := processAll kind s2.queue.length s2
  let s4 := enactAll s3.logged.length s3
  let s5 := flush s4
  have a1 : s1.hist = s.hist ∧ s1.bgErr = s.bgErr :=
    ⟨(enactAll_queue _ _).2.1, enactAll_bgErr _ _⟩
  have a2 : s2.hist = s.hist ∧ s2.bgErr = s.bgErr := a1
  have a3 : s3.hist = s.hist ∧ s3.bgErr = s.bgErr :=
    ⟨(processAll_frame kind _ s2).2.trans a2.1, (processAll_frame kind _ s2).1.trans a2.2⟩
  have a4 : s4.hist = s.hist ∧ s4.bgErr = s.bgErr :=
    ⟨((enactAll_queue _ s3).2.1).trans a3.1, (enactAll_bgErr _ s3).trans a3.2⟩
  have a5 : s5.hist = s.hist ∧ s5.bgErr = s.bgErr := a4
  exact ⟨((enactAll_queue _ s5).2.1).trans a5.1, (enactAll_bgErr _ s5).trans a5.2⟩

/-! ### crash recovery -/

theorem applyRecs_take_head (t : Tbl K V) (r : Rec K V) (rs : List (Rec K V)) (j n : Nat)
    (hn : 1 ≤ n) :
    applyRecs (applyRecPrefix j t r) ((r :: rs).take n) = applyRecs t ((r :: rs).take n) := by
  cases n with
  | zero => omega
  | succ n =>
    simp only [List.take_succ_cons, applyRecs, List.foldl_cons]
    rw [overwrite_idempotent]

/-- The recovered state after a crash: a prefix of the committed transactions that contains
    every transaction whose record had been flushed (synced), and the invariant holds again. -/
theorem Inv.crashRecover {kind : K → Kind} {s : St K V} (h : Inv kind s) (j n : Nat)
    (hn : s.flushed ≤ n) :
    let s' := Pdb.crashRecover s j n
    let m := s.nEnacted + min n s.logged.length
    Inv kind s' ∧ s.nEnacted + s.flushed ≤ m ∧ m ≤ s.hist.length ∧
    s'.hist = s.hist.take m ∧ s'.tables = spec kind (s.hist.take m) := by
  have hfl := h.fl
  have hlen := h.len
  have hkl : (s.logged.take n).length = min n s.logged.length := List.length_take
  have htab : (Pdb.crashRecover s j n).tables = spec kind (s.hist.take (s.nEnacted + min n s.logged.length)) := by
    unfold Pdb.crashRecover
    simp only
    have hd := h.data (min n s.logged.length) (Nat.min_le_right _ _)
    have tk : s.logged.take (min n s.logged.length) = s.logged.take n := by
      rw [List.take_eq_take_iff]; omega
    rw [tk] at hd
    cases hf : s.flushed with
    | zero =>
      simp only [St.init]
      exact hd
    | succ f =>
      cases hl : s.logged with
      | nil => rw [hl] at hfl; simp at hfl; omega
      | cons r rs =>
        simp only [St.init]
        rw [applyRecs_take_head _ _ _ _ _ (by omega), ← hl]
        exact hd
  have hh : (Pdb.crashRecover s j n).hist = s.hist.take (s.nEnacted + min n s.logged.length) := by
    unfold Pdb.crashRecover; simp only [St.init, hkl]
  have hne : (Pdb.crashRecover s j n).nEnacted = s.nEnacted + min n s.logged.length := by
    unfold Pdb.crashRecover; simp only [St.init, hkl]
  have hq : (Pdb.crashRecover s j n).queue = [] := by unfold Pdb.crashRecover; simp [St.init]
  have hlg : (Pdb.crashRecover s j n).logged = [] := by unfold Pdb.crashRecover; simp [St.init]
  have hov : (Pdb.crashRecover s j n).overlay = fun _ => none := by
    unfold Pdb.crashRecover; simp [St.init]
  have hflz : (Pdb.crashRecover s j n).flushed = 0 := by unfold Pdb.crashRecover; simp [St.init]
  have hm : s.nEnacted + min n s.logged.length ≤ s.hist.length := by omega
  refine ⟨?_, by omega, hm, hh, htab⟩
  constructor
  · intro k; rw [hov, hq]; simp [queueW, lastW]
  · rw [hq]; simp
  · rw [hq]; simp
  · intro i hi
    rw [hlg] at hi
    simp only [List.length_nil, Nat.le_zero_eq] at hi
    subst hi
    rw [hlg, hh, hne, htab]
    simp [applyRecs, List.take_take]
  · rw [hq, hh, hne, hlg]
    simp
  · rw [hq, hh, hne, hlg]
    simp
    omega
  · rw [hflz]; omega

/-! ### every action preserves the invariant -/

theorem Inv.step {kind : K → Kind} {s : St K V} (h : Inv kind s) (a : Action K V) :
    Inv kind (step kind s a) := by
  cases a with
  | commit tx => exact h.commit tx
  | process => exact h.process
  | flush => exact h.flush
  | enact => exact h.enactOne
  | clean => exact h
  | reindex => exact h
  | reopen => exact h.cleanReopen.1
  | crash j n => exact (h.crashRecover j (max n s.flushed) (Nat.le_max_right _ _)).1

theorem Inv.run {kind : K → Kind} {s : St K V} (h : Inv kind s) (as : List (Action K V)) :
    Inv kind (run kind s as) := by
  induction as generalizing s with
  | nil => exact h
  | cons a as ih => exact ih (h.step a)

end Pdb
