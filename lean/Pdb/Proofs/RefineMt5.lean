/-
R6 lemmas, part 5: the fuel of the executable walk.  The number of abstract nodes is at most the number of used slots
(every node address is in the node list of its tier, every chain has a slot), so `physFuel` covers `walkFuel`.
-/
import Pdb.Proofs.RefineMt4

namespace Pdb.MultiTreePhys
open Pdb.Gen Pdb.ValueTable Pdb.MultiTree

/-- `Address::size_tier` is a `u8` (same statement as `Refine.size_tier_lt`, repeated to keep the import closure small) -/
theorem size_tier_lt' (a : Nat) : Address.size_tier a < 256 := by
  simp only [Address.size_tier, wcast, wand, wsub, wshl, SIZE_TIERS_BITS]
  have hm : ((1 <<< (8 % 64) % 2 ^ 64 % 2 ^ 64 + 2 ^ 64 - 1 % 2 ^ 64) % 2 ^ 64) = 2 ^ 8 - 1 := by decide
  rw [hm, Nat.and_two_pow_sub_one_eq_mod]
  have : (2 : Nat) ^ 8 = 256 := by decide
  rw [this]
  omega

theorem sum_map_le (l : List Nat) (f g : Nat → Nat) (h : ∀ i ∈ l, f i ≤ g i) :
    (l.map f).sum ≤ (l.map g).sum := by
  induction l with
  | nil => simp
  | cons a l ih =>
    simp only [List.map_cons, List.sum_cons]
    have := h a (by simp)
    have := ih (fun i hi => h i (by simp [hi]))
    omega

theorem length_le_flatten_of_ne_nil (l : List (List Nat)) (h : ∀ c ∈ l, c ≠ []) : l.length ≤ l.flatten.length := by
  induction l with
  | nil => simp
  | cons c l ih =>
    simp only [List.length_cons, List.flatten_cons, List.length_append]
    have hc : 0 < c.length := List.length_pos_iff.mpr (h c (by simp))
    have := ih (fun c' hc' => h c' (by simp [hc']))
    omega

theorem tier_nodes_le_filled {p : PCol} {h : Heap Key Bytes} {ly : Layout} (r : Rep p h ly) (tier : Nat) :
    (ly.nodes tier).length ≤ (p.vt tier).filled := by
  have hs := (r.tiers tier).slot
  have hc := hs.count
  have hne : ∀ c ∈ (ly.nodes tier).map ly.chain, c ≠ [] := by
    intro c hc'
    exact IsChain_ne_nil _ c (hs.chains c (List.mem_append_right _ (List.mem_append_left _ hc')))
  have h1 := length_le_flatten_of_ne_nil _ hne
  rw [List.length_map] at h1
  simp only [List.flatten_append, List.length_append] at hc
  omega

/-- the executable walk's fuel covers the abstract one -/
theorem walkFuel_le_physFuel {p : PCol} {h : Heap Key Bytes} {ly : Layout} (r : Rep p h ly) (cs : List Nat) :
    walkFuel h ≤ physFuel p cs := by
  unfold walkFuel physFuel FMap.size
  have hA : (h.nodes.l.map Prod.fst).length ≤
      ((List.range SIZE_TIERS).flatMap (fun i => ly.nodes i)).length := by
    apply List.Nodup.length_le_of_subset r.wf
    intro a ha
    obtain ⟨⟨a', v⟩, hm, rfl⟩ := List.mem_map.mp ha
    have hg : h.nodes.get a' = some v := (FMap.mem_iff h.nodes r.wf a' v).mp hm
    have hin : a' ∈ ly.nodes (Address.size_tier a') := (r.dom _ a').mpr ⟨rfl, by simp [hg]⟩
    exact List.mem_flatMap.mpr ⟨Address.size_tier a', List.mem_range.mpr (size_tier_lt' a'), hin⟩
  rw [List.length_map] at hA
  rw [List.length_flatMap] at hA
  have hB := sum_map_le (List.range SIZE_TIERS) (fun i => (ly.nodes i).length) (fun i => (p.vt i).filled)
    (fun i _ => tier_nodes_le_filled r i)
  omega

/-- `NodeChange::DereferenceChildren(key, children)` on a plain column, whole, with the model's own fuel -/
theorem sim_derefChange_plain_full (p : PCol) (h h' : Heap Key Bytes) (ly : Layout) (r : Rep p h ly) (k : Key)
    (cs : List Nat) (hv : p.variant = .plain) (hlive : (h.roots.get k).isSome)
    (hw : derefProcess .plain h k cs = .ok h') :
    ∃ p' ly', physApplyNode p (.derefChildren k cs) = .ok p' ∧ Rep p' h' ly' ∧ p'.variant = p.variant ∧
      ly'.claimed = ly.claimed := by
  cases hg : h.roots.get k with
  | none => rw [hg] at hlive; simp at hlive
  | some rc =>
    obtain ⟨n, c⟩ := rc
    have hrcol : p.isRc = false := by simp [PCol.isRc, hv]
    obtain ⟨p1, a, ha, hd, r1, hv1⟩ := sim_derefRoot_plain p h ly r k n c hrcol hg
    simp only [derefProcess, hg] at hw
    have hne : ¬ ((Variant.plain = Variant.rcRoots) ∧ c > 1) := by intro hh; exact absurd hh.1 (by decide)
    simp only [hne, if_false] at hw
    obtain ⟨p', ly', hp, r', hpu, hv'⟩ := sim_walk _ cs p1 _ h' _ r1 hw
    refine ⟨p', ly', ?_, r', hv'.trans hv1, hpu.2.1⟩
    simp only [physApplyNode, ha, hd]
    exact physDeref_mono _ _ (walkFuel_le_physFuel r1 cs) p1 cs p' hp

/-- a node with a ref-count entry survives a decrement: only the count changes, the node is still read from its slot -/
theorem sim_shared_survives (p : PCol) (h : Heap Key Bytes) (ly : Layout) (r : Rep p h ly) (a : Nat) (n : Node Bytes)
    (c : Nat) (hg : h.nodes.get a = some n) (hrc : h.rc.get a = some c) :
    ∃ p', physDecRef p a = .ok (true, p') ∧ Rep p' (MultiTree.decRef h a).2 ly ∧ (MultiTree.decRef h a).1 = true ∧
      physGetNode p' a = some n := by
  refine ⟨{ p with rc := p.rc.set a (if c - 1 > 1 then some (c - 1) else none) }, ?_, ?_, ?_, ?_⟩
  · simp only [physDecRef, r.rc, hrc]
  · have : (MultiTree.decRef h a).2 = { h with rc := h.rc.set a (if c - 1 > 1 then some (c - 1) else none) } := by
      simp only [MultiTree.decRef, hrc]
    rw [this]
    exact ⟨r.tiers, r.cfg, r.nodup, r.dom, r.node, by simp only [r.rc], r.bound,
      r.roots.frame rfl rfl rfl rfl rfl (fun _ _ _ _ => rfl), r.wf⟩
  · simp only [MultiTree.decRef, hrc]
  · have := r.getNode a n hg
    unfold physGetNode physGetBytes at this ⊢
    exact this

end Pdb.MultiTreePhys
