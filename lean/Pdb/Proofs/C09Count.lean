/-
C09 (totality): counting index entries.

Every non-empty entry of every table is (a copy of) an entry written by a planned `set`:
`TablesLe ts L` says that, page by page, the multiset of entry codes
`(recovered 50-bit key prefix, address)` of every table in `ts` is below the multiset `L` of
codes written so far.  A reindex batch copies a code only into a page that does not hold it,
so `L` grows only with planned writes; a page of a table with at least `K` index bits holds
codes of ONE `K`-bit class, hence at most as many entries as `set` operations of that class.
This is the counting half of the totality theorem (Pdb/Proofs/C09Total.lean).
-/
import Pdb.Proofs.C09Check

namespace Pdb.Index
open Pdb.Gen Pdb.IndexPage

/-! ## lists -/

def hit {β : Type} [DecidableEq β] (q : β) (o : Option β) : Nat := if o = some q then 1 else 0

theorem count_filterMap_cons {α β : Type} [DecidableEq β] (g : α → Option β) (q : β) (y : α)
    (ys : List α) :
    ((y :: ys).filterMap g).count q = hit q (g y) + (ys.filterMap g).count q := by
  rcases ho : g y with _ | c
  · simp [ho, hit]
  · simp only [List.filterMap_cons, ho, List.count_cons, hit]
    by_cases hc : c = q
    · subst hc; simp; omega
    · have : ¬ some c = some q := fun h => hc (Option.some.inj h)
      simp [hc, this]

/-- replacing one element: the count of `q` among the images changes by the two images -/
theorem count_filterMap_set {α β : Type} [DecidableEq β] (g : α → Option β) (q : β) (x : α) :
    ∀ (l : List α) (i : Nat) (hi : i < l.length),
      ((l.set i x).filterMap g).count q + hit q (g l[i]) =
        (l.filterMap g).count q + hit q (g x) := by
  intro l
  induction l with
  | nil => intro i hi; simp at hi
  | cons y ys ih =>
    intro i hi
    cases i with
    | zero =>
      simp only [List.set_cons_zero, List.getElem_cons_zero]
      rw [count_filterMap_cons, count_filterMap_cons]
      omega
    | succ i =>
      have hi' : i < ys.length := by simpa using hi
      have := ih i hi'
      simp only [List.set_cons_succ, List.getElem_cons_succ]
      rw [count_filterMap_cons, count_filterMap_cons]
      omega

/-- a multiset below `L` whose members all satisfy `P` has at most `countP P L` members -/
theorem length_le_countP_of_count_le {β : Type} [DecidableEq β] (P : β → Bool) :
    ∀ (l L : List β), (∀ x, l.count x ≤ L.count x) → (∀ x ∈ l, P x = true) →
      l.length ≤ L.countP P := by
  intro l
  induction l with
  | nil => intro L _ _; simp
  | cons y ys ih =>
    intro L hc hP
    have hy : y ∈ L := by
      have := hc y
      rw [List.count_cons_self] at this
      exact List.count_pos_iff.1 (by omega)
    have hperm := List.perm_cons_erase hy
    have hc' : ∀ x, ys.count x ≤ (L.erase y).count x := by
      intro x
      have h1 := hc x
      have h2 := hperm.count_eq x
      rw [List.count_cons] at h1 h2
      by_cases hxy : y = x
      · subst hxy; simp only [beq_self_eq_true, if_true] at h1 h2; omega
      · have : (y == x) = false := by simpa using hxy
        simp only [this] at h1 h2
        simp only [Bool.false_eq_true, if_false] at h1 h2
        omega
    have := ih (L.erase y) hc' (fun x hx => hP x (List.mem_cons_of_mem _ hx))
    have hcp := hperm.countP_eq P
    rw [List.countP_cons, hP y (by simp)] at hcp
    simp only [if_true] at hcp
    simp only [List.length_cons]
    omega

/-- a page with fewer non-empty entries than slots has an empty slot -/
theorem exists_zero_of_filter_lt (page : List Nat)
    (h : (page.filter (fun e => e != 0)).length < page.length) :
    ∃ i, i < page.length ∧ page.getD i 0 = 0 := by
  by_cases hall : ∀ e ∈ page, (e != 0) = true
  · have := List.filter_eq_self.2 hall
    rw [this] at h; omega
  · have : ∃ e ∈ page, e = 0 := by
      apply Classical.byContradiction
      intro hne
      apply hall
      intro e he
      have : e ≠ 0 := fun h0 => hne ⟨e, he, h0⟩
      simpa using this
    obtain ⟨e, he, h0⟩ := this
    obtain ⟨i, hi, hget⟩ := List.getElem_of_mem he
    refine ⟨i, hi, ?_⟩
    rw [List.getD_eq_getElem?_getD, List.getElem?_eq_getElem hi]
    simp [hget, h0]

theorem firstEmpty_complete (page : List Nat) :
    ∀ (f p j : Nat), p ≤ j → j < p + f → page.getD j 0 = 0 →
      (firstEmpty page f p).isSome = true := by
  intro f
  induction f with
  | zero => intro p j h1 h2 _; omega
  | succ f ih =>
    intro p j h1 h2 h0
    unfold firstEmpty
    by_cases hc : entryAt page p = 0
    · simp [hc]
    · simp only [hc, if_false]
      have hne : p ≠ j := by
        intro e; subst e; exact hc h0
      exact ih (p + 1) j (by omega) (by omega) h0

/-! ## bits: the recovered key prefix -/

/-- the index-visible part of a key prefix: bits 63..14 -/
def rk (kp : Nat) : Nat := (kp >>> 14) <<< 14

theorem rk_testBit (kp j : Nat) : (rk kp).testBit j = (decide (14 ≤ j) && kp.testBit j) := by
  unfold rk
  rw [Nat.testBit_shiftLeft, Nat.testBit_shiftRight]
  by_cases h : 14 ≤ j
  · have : 14 + (j - 14) = j := by omega
    simp [h, this]
  · simp [h]

theorem rk_lt (kp : Nat) (h : kp < 2 ^ 64) : rk kp < 2 ^ 64 := by
  apply Nat.lt_pow_two_of_testBit
  intro i hi
  rw [rk_testBit]
  have : kp.testBit i = false :=
    Nat.testBit_lt_two_pow (Nat.lt_of_lt_of_le h (Nat.pow_le_pow_right (by omega) hi))
  simp [this]

theorem rk_rk (kp : Nat) : rk (rk kp) = rk kp := by
  apply Nat.eq_of_testBit_eq
  intro j
  rw [rk_testBit, rk_testBit]
  by_cases h : 14 ≤ j <;> simp [h]

theorem rk_shift (kp s : Nat) (hs : 14 ≤ s) : rk kp >>> s = kp >>> s := by
  apply Nat.eq_of_testBit_eq
  intro j
  rw [Nat.testBit_shiftRight, Nat.testBit_shiftRight, rk_testBit]
  have : 14 ≤ s + j := by omega
  simp [this]

/-- the prefix recovered from a freshly written entry is the index-visible part of the key -/
theorem recover_new (b kp a : Nat) (hb16 : 16 ≤ b) (hb : b ≤ 49) (hkp : kp < 2 ^ 64)
    (ha : a ≤ Entry.last_address b) :
    recover_index_key b (chunk_index b kp) (Entry.new a (Entry.extract_key kp b) b) = rk kp := by
  apply Nat.eq_of_testBit_eq
  intro j
  rw [recover_testBit b kp _ hb16 hb hkp
    (entry_partial_key_new a _ b hb (extract_key_lt kp b hb) ha), rk_testBit]

theorem partial_key_lt (e b : Nat) (hb : b ≤ 49) (he : e < 2 ^ 64) :
    Entry.partial_key e b < 2 ^ (50 - b) := by
  rw [partial_key_plain e b hb, Nat.shiftRight_eq_div_pow,
    Nat.div_lt_iff_lt_mul (Nat.two_pow_pos _), ← Nat.pow_add]
  have : 50 - b + (b + 14) = 64 := by omega
  rw [this]; exact he

/-- bits of a recovered prefix: the chunk number above `64 - b`, the partial key between, zero
below 14 -/
theorem recover_testBit' (b c e : Nat) (hb16 : 16 ≤ b) (hb : b ≤ 49) (hc : c < 2 ^ b)
    (he : e < 2 ^ 64) (j : Nat) :
    (recover_index_key b c e).testBit j =
      if 64 - b ≤ j then c.testBit (j - (64 - b))
      else (decide (14 ≤ j) && (Entry.partial_key e b).testBit (j - 14)) := by
  rw [recover_plain b c e hb16 hb]
  simp only [Nat.testBit_or, Nat.testBit_mod_two_pow, Nat.testBit_shiftLeft]
  have hpk := partial_key_lt e b hb he
  by_cases h1 : 64 - b ≤ j
  · have hpkb : (Entry.partial_key e b).testBit (j - 14) = false :=
      Nat.testBit_lt_two_pow (Nat.lt_of_lt_of_le hpk (Nat.pow_le_pow_right (by omega) (by omega)))
    by_cases h64 : j < 64
    · simp [h1, h64, hpkb]
    · have hcb : c.testBit (j - (64 - b)) = false :=
        Nat.testBit_lt_two_pow (Nat.lt_of_lt_of_le hc (Nat.pow_le_pow_right (by omega) (by omega)))
      simp [h1, h64, hcb]
  · have h64 : j < 64 := by omega
    simp [h1, h64]

theorem recover_lt (b c e : Nat) (hb16 : 16 ≤ b) (hb : b ≤ 49) :
    recover_index_key b c e < 2 ^ 64 := by
  rw [recover_plain b c e hb16 hb]
  exact Nat.or_lt_two_pow (Nat.mod_lt _ (Nat.two_pow_pos 64)) (Nat.mod_lt _ (Nat.two_pow_pos 64))

theorem rk_recover (b c e : Nat) (hb16 : 16 ≤ b) (hb : b ≤ 49) :
    rk (recover_index_key b c e) = recover_index_key b c e := by
  apply Nat.eq_of_testBit_eq
  intro j
  rw [rk_testBit]
  by_cases h : 14 ≤ j
  · simp [h]
  · rw [recover_plain b c e hb16 hb]
    simp only [Nat.testBit_or, Nat.testBit_mod_two_pow, Nat.testBit_shiftLeft]
    have h1 : ¬ 64 - b ≤ j := by omega
    simp [h, h1]

/-- the `K`-bit class of a code in the page `c` of a table with `b ≥ K` bits is given by `c` -/
theorem recover_prefix (b c e K : Nat) (hb16 : 16 ≤ b) (hb : b ≤ 49) (hK : K ≤ b)
    (hc : c < 2 ^ b) (he : e < 2 ^ 64) :
    recover_index_key b c e >>> (64 - K) = c >>> (b - K) := by
  apply Nat.eq_of_testBit_eq
  intro j
  rw [Nat.testBit_shiftRight, Nat.testBit_shiftRight, recover_testBit' b c e hb16 hb hc he]
  have h1 : 64 - b ≤ 64 - K + j := by omega
  have h2 : 64 - K + j - (64 - b) = b - K + j := by omega
  simp [h1, h2]

/-- a recovered prefix determines the partial key of its entry -/
theorem recover_partial (b c e : Nat) (hb16 : 16 ≤ b) (hb : b ≤ 49) (hc : c < 2 ^ b)
    (he : e < 2 ^ 64) :
    Entry.extract_key (recover_index_key b c e) b = Entry.partial_key e b := by
  rw [extract_key_plain _ b hb]
  apply Nat.eq_of_testBit_eq
  intro i
  simp only [Nat.testBit_shiftRight, Nat.testBit_mod_two_pow, Nat.testBit_shiftLeft]
  have hpk := partial_key_lt e b hb he
  by_cases h : b + 14 + i < 64
  · have e1 : b ≤ b + 14 + i := by omega
    have e2 : b + 14 + i - b = 14 + i := by omega
    rw [recover_testBit' b c e hb16 hb hc he]
    have h3 : ¬ 64 - b ≤ 14 + i := by omega
    have e3 : 14 + i - 14 = i := by omega
    simp [h, e1, e2, h3, e3]
  · have : (Entry.partial_key e b).testBit i = false :=
      Nat.testBit_lt_two_pow (Nat.lt_of_lt_of_le hpk (Nat.pow_le_pow_right (by omega) (by omega)))
    simp [h, this]

theorem recover_chunk (b c e : Nat) (hb16 : 16 ≤ b) (hb : b ≤ 49) (hc : c < 2 ^ b)
    (he : e < 2 ^ 64) : chunk_index b (recover_index_key b c e) = c := by
  rw [chunk_index_eq b _ (by omega) (by omega)]
  have := recover_prefix b c e b hb16 hb (Nat.le_refl _) hc he
  rw [this]; simp

theorem chunk_lt (b kp : Nat) (hb16 : 16 ≤ b) (hb : b ≤ 49) (hkp : kp < 2 ^ 64) :
    chunk_index b kp < 2 ^ b := by
  rw [chunk_index_eq b kp (by omega) (by omega), Nat.shiftRight_eq_div_pow,
    Nat.div_lt_iff_lt_mul (Nat.two_pow_pos _), ← Nat.pow_add]
  have : b + (64 - b) = 64 := by omega
  rw [this]; exact hkp

/-! ## entry codes and the counting invariant -/

structure Code where
  pre : Nat
  addr : Nat
deriving DecidableEq, Repr

/-- code of a raw entry of chunk `c` of a table with `b` bits (`none` for an empty slot): the
recovered key prefix (what `reindex` re-inserts it under) and the address -/
def codeOf (b c e : Nat) : Option Code :=
  if e = 0 then none else some ⟨recover_index_key b c e, Entry.address e b⟩

def pageCodes (t : Table) (c : Nat) : List Code := (t.page c).filterMap (codeOf t.bits c)

/-- page by page, the entry codes of `t` form a sub-multiset of `L` -/
def TableLe (L : List Code) (t : Table) : Prop := ∀ c q, (pageCodes t c).count q ≤ L.count q

def TablesLe (L : List Code) (ts : List Table) : Prop := ∀ t ∈ ts, TableLe L t

theorem TableLe.new (L : List Code) (b : Nat) : TableLe L (Table.new b) := by
  intro c q
  have : pageCodes (Table.new b) c = [] := by
    unfold pageCodes
    rw [Table.page_new]
    simp only [emptyPage]
    apply List.filterMap_eq_nil_iff.2
    intro e he
    rw [(List.mem_replicate.1 he).2]
    rfl
  rw [this]; simp

theorem TableLe.mono {L L' : List Code} {t : Table} (h : TableLe L t)
    (hL : ∀ q, L.count q ≤ L'.count q) : TableLe L' t :=
  fun c q => Nat.le_trans (h c q) (hL q)

theorem TablesLe.mono {L L' : List Code} {ts : List Table} (h : TablesLe L ts)
    (hL : ∀ q, L.count q ≤ L'.count q) : TablesLe L' ts :=
  fun t ht => (h t ht).mono hL

theorem count_le_cons (L : List Code) (q0 q : Code) : L.count q ≤ (q0 :: L).count q := by
  rw [List.count_cons]; omega

theorem getD_eq_getElem (page : List Nat) (i : Nat) (hi : i < page.length) :
    page.getD i 0 = page[i] := by
  rw [List.getD_eq_getElem?_getD, List.getElem?_eq_getElem hi]; rfl

/-- the codes of a table after one entry of one page has been rewritten -/
theorem pageCodes_update (t t' : Table) (hb : t'.bits = t.bits) (c0 i e : Nat)
    (hi : i < (t.page c0).length)
    (hp : ∀ c, t'.page c = if c0 = c then (t.page c0).set i e else t.page c) (c : Nat) (q : Code) :
    (pageCodes t' c).count q + (if c0 = c then hit q (codeOf t.bits c ((t.page c0).getD i 0)) else 0) =
      (pageCodes t c).count q + (if c0 = c then hit q (codeOf t.bits c e) else 0) := by
  unfold pageCodes
  rw [hp c, hb]
  by_cases h : c0 = c
  · subst h
    simp only [if_true]
    rw [getD_eq_getElem _ _ hi]
    exact count_filterMap_set (codeOf t.bits c0) q e (t.page c0) i hi
  · simp only [h, if_false]

/-- number of non-empty entries of a page -/
theorem pageCodes_length (t : Table) (c : Nat) :
    (pageCodes t c).length = ((t.page c).filter (fun e => e != 0)).length := by
  unfold pageCodes
  generalize t.page c = l
  induction l with
  | nil => rfl
  | cons y ys ih =>
    by_cases hy : y = 0
    · subst hy
      simp [codeOf, ih]
    · have h1 : codeOf t.bits c y = some ⟨recover_index_key t.bits c y, Entry.address y t.bits⟩ := by
        simp [codeOf, hy]
      have h2 : (y != 0) = true := by simpa using hy
      rw [List.filterMap_cons, h1, List.filter_cons, h2]
      simp [ih]

theorem mem_pageCodes (t : Table) (c : Nat) (q : Code) (h : q ∈ pageCodes t c) :
    ∃ e ∈ t.page c, e ≠ 0 ∧ q = ⟨recover_index_key t.bits c e, Entry.address e t.bits⟩ := by
  unfold pageCodes at h
  rw [List.mem_filterMap] at h
  obtain ⟨e, he, hq⟩ := h
  unfold codeOf at hq
  by_cases h0 : e = 0
  · simp [h0] at hq
  · simp only [h0, if_false] at hq
    exact ⟨e, he, h0, (Option.some.inj hq).symm⟩

/-! ## room in a page -/

/-- codes of the `K`-bit class of `kp` -/
def clsP (K kp : Nat) (q : Code) : Bool := q.pre >>> (64 - K) == kp >>> (64 - K)

/-- every code of the page of `kp` in a table with at least `K` bits is of the class of `kp` -/
theorem pageCodes_cls (t : Table) (hwf : TableWF t) (K kp : Nat) (hK : K ≤ t.bits)
    (hkp : kp < 2 ^ 64) (q : Code) (h : q ∈ pageCodes t (t.chunk kp)) : clsP K kp q = true := by
  obtain ⟨e, he, _, rfl⟩ := mem_pageCodes t _ q h
  have hc := chunk_lt t.bits kp hwf.lo hwf.hi hkp
  have he64 := (hwf.pages (t.chunk kp)).2 e he
  unfold clsP
  simp only [beq_iff_eq]
  show recover_index_key t.bits (chunk_index t.bits kp) e >>> (64 - K) = kp >>> (64 - K)
  rw [recover_prefix t.bits _ e K hwf.lo hwf.hi hK hc he64,
    chunk_index_eq t.bits kp (by have := hwf.lo; omega) (by have := hwf.hi; omega),
    ← Nat.shiftRight_add]
  congr 1
  have := hwf.hi
  omega

/-- If the codes of the page of `kp` together with one more code `q0` of the same class are
below `L`, and `L` has at most 64 codes of that class, the page has an empty slot. -/
theorem page_room (t : Table) (hwf : TableWF t) (K kp : Nat) (hK : K ≤ t.bits)
    (hkp : kp < 2 ^ 64) (L : List Code) (q0 : Code) (hq0 : clsP K kp q0 = true)
    (hle : ∀ q, (pageCodes t (t.chunk kp)).count q + (if q = q0 then 1 else 0) ≤ L.count q)
    (hcls : L.countP (clsP K kp) ≤ 64) :
    (firstEmpty (t.page (t.chunk kp)) INDEX_CHUNK_ENTRIES 0).isSome = true := by
  have h1 : ∀ x, (q0 :: pageCodes t (t.chunk kp)).count x ≤ L.count x := by
    intro x
    have := hle x
    rw [List.count_cons]
    by_cases hx : x = q0
    · subst hx; simp only [beq_self_eq_true, if_true] at this ⊢; omega
    · have hx' : (q0 == x) = false := by
        simp only [beq_eq_false_iff_ne, ne_eq]; exact fun e => hx e.symm
      simp only [hx, if_false] at this
      simp only [hx', Bool.false_eq_true, if_false]
      omega
  have h2 : ∀ x ∈ q0 :: pageCodes t (t.chunk kp), clsP K kp x = true := by
    intro x hx
    rcases List.mem_cons.1 hx with h | h
    · rw [h]; exact hq0
    · exact pageCodes_cls t hwf K kp hK hkp x h
  have h3 := length_le_countP_of_count_le (clsP K kp) _ L h1 h2
  simp only [List.length_cons] at h3
  have hlen := (hwf.pages (t.chunk kp)).1
  have h4 : ((t.page (t.chunk kp)).filter (fun e => e != 0)).length < (t.page (t.chunk kp)).length := by
    rw [← pageCodes_length, hlen]; omega
  obtain ⟨i, hi, h0⟩ := exists_zero_of_filter_lt _ h4
  exact firstEmpty_complete _ INDEX_CHUNK_ENTRIES 0 i (Nat.zero_le _)
    (by simp only [INDEX_CHUNK_ENTRIES]; omega) h0

/-! ## the insert loop terminates -/

/-- what `insertLoop s kp a` needs from the counting invariant: the tables are below `L`, even
with one more copy of the code to be inserted in the current table -/
structure InsHyp (L : List Code) (s : Col) (kp a : Nat) : Prop where
  older : TablesLe L s.older
  cur : ∀ c q, (pageCodes s.current c).count q +
      (if c = s.current.chunk kp ∧ q = ⟨rk kp, a⟩ then 1 else 0) ≤ L.count q

theorem InsHyp.curLe {L : List Code} {s : Col} {kp a : Nat} (h : InsHyp L s kp a) :
    TableLe L s.current := by
  intro c q
  have := h.cur c q
  omega

theorem InsHyp.trigger {L : List Code} {s : Col} {kp a : Nat} (h : InsHyp L s kp a) :
    InsHyp L (triggerReindex s) kp a := by
  refine ⟨fun t ht => ?_, fun c q => ?_⟩
  · simp only [triggerReindex] at ht
    rcases List.mem_append.1 ht with h1 | h1
    · exact h.older t h1
    · have : t = s.current := by simpa using h1
      rw [this]; exact h.curLe
  · have h0 : (pageCodes (triggerReindex s).current c).count q = 0 := by
      have := TableLe.new [] (s.current.bits + 1) c q
      simpa [triggerReindex] using this
    rw [h0]
    by_cases hc : c = (triggerReindex s).current.chunk kp ∧ q = ⟨rk kp, a⟩
    · simp only [hc, and_self, if_true]
      have := h.cur (s.current.chunk kp) ⟨rk kp, a⟩
      simp only [and_self, if_true] at this
      omega
    · simp only [hc, if_false]; omega

/-- the code of the entry `insert` writes for `kp`, `a` is `⟨rk kp, a⟩` (or nothing) -/
theorem hit_new (b kp a : Nat) (hb16 : 16 ≤ b) (hb : b ≤ 49) (hkp : kp < 2 ^ 64)
    (ha : a ≤ Entry.last_address b) (q : Code) :
    hit q (codeOf b (chunk_index b kp) (Entry.new a (Entry.extract_key kp b) b)) ≤
      (if q = ⟨rk kp, a⟩ then 1 else 0) := by
  unfold codeOf
  by_cases h0 : Entry.new a (Entry.extract_key kp b) b = 0
  · simp [h0, hit]
  · simp only [h0, if_false]
    rw [recover_new b kp a hb16 hb hkp ha,
      entry_address_new a _ b hb (extract_key_lt kp b hb) ha]
    unfold hit
    by_cases hq : q = ⟨rk kp, a⟩
    · simp [hq]
    · have : ¬ (some (Code.mk (rk kp) a) = some q) := fun e => hq (Option.some.inj e).symm
      simp [this]

theorem hit_zero (b c : Nat) (q : Code) : hit q (codeOf b c 0) = 0 := by
  simp [codeOf, hit]

theorem addr_fits (K b a : Nat) (hK : K ≤ b) (hb : b ≤ 49) (ha : a < 2 ^ (K + 14)) :
    a ≤ Entry.last_address b := by
  rw [last_address_eq b hb]
  have : 2 ^ (K + 14) ≤ 2 ^ (b + 14) := Nat.pow_le_pow_right (by omega) (by omega)
  omega

theorem insertLoop_total (K : Nat) (hK : K ≤ 49) (L : List Code) (kp a : Nat)
    (hkp : kp < 2 ^ 64) (b0 : Nat)
    (hfit : ∀ b, K ≤ b → b0 ≤ b → b ≤ 49 → a ≤ Entry.last_address b)
    (hcls : L.countP (clsP K kp) ≤ 64) :
    ∀ (f : Nat) (s : Col), Shape s → InsHyp L s kp a → K - s.current.bits < f →
      b0 ≤ s.current.bits →
      ∃ s', insertLoop s kp a f = .ok s' ∧ TablesLe L s'.tables ∧
        s'.current.bits ≤ max s.current.bits K := by
  intro f
  induction f with
  | zero => intro s _ _ h _; omega
  | succ f ih =>
    intro s hS hH hf hb0
    have hcur := hS.wf s.current (by simp [Col.tables])
    rw [insertLoop_succ]
    rcases Table.insert_none_cases s.current kp a with ⟨t, ht⟩ | ht
    · rw [ht]
      refine ⟨{ s with current := t }, rfl, ?_, ?_⟩
      · obtain ⟨hla, hbits, i, hi, hz, hp⟩ := Table.insert_none_written _ _ _ _ ht
        intro t' ht'
        simp only [Col.tables] at ht'
        rcases List.mem_cons.1 ht' with h1 | h1
        · rw [h1]
          intro c q
          have hlen := (hcur.pages (s.current.chunk kp)).1
          have hu := pageCodes_update s.current t hbits (s.current.chunk kp) i _ (by omega) hp c q
          have hc := hH.cur c q
          by_cases hcc : s.current.chunk kp = c
          · subst hcc
            simp only [if_true] at hu
            rw [hz, hit_zero] at hu
            have hn : hit q (codeOf s.current.bits (s.current.chunk kp)
                (Entry.new a (Entry.extract_key kp s.current.bits) s.current.bits)) ≤
                (if q = ⟨rk kp, a⟩ then 1 else 0) :=
              hit_new s.current.bits kp a hcur.lo hcur.hi hkp hla q
            by_cases hq : q = ⟨rk kp, a⟩
            · simp only [hq, and_self, if_true] at hc hn hu ⊢; omega
            · simp only [hq, and_false, if_false] at hc hn; omega
          · simp only [hcc, if_false] at hu
            omega
        · exact hH.older t' h1
      · have := (Table.insert_none_written _ _ _ _ ht).2.1
        show t.bits ≤ _
        omega
    · rw [ht]
      simp only [insertCont]
      by_cases hb : K ≤ s.current.bits
      · -- the entry fits and the page has room: `insert` cannot have answered NeedReindex
        exfalso
        have hla := hfit s.current.bits hb hb0 hcur.hi
        have hq0 : clsP K kp ⟨rk kp, a⟩ = true := by
          unfold clsP
          simp only [beq_iff_eq]
          exact rk_shift kp _ (by omega)
        have hroom := page_room s.current hcur K kp hb hkp L ⟨rk kp, a⟩ hq0
          (fun q => by
            have := hH.cur (s.current.chunk kp) q
            by_cases hq : q = ⟨rk kp, a⟩
            · simp only [hq, and_self, if_true] at this ⊢; exact this
            · simp only [hq, and_false, if_false] at this ⊢; exact this) hcls
        unfold Table.insert at ht
        have h1 : ¬ a > Entry.last_address s.current.bits := Nat.not_lt.2 hla
        simp only [h1, if_false] at ht
        cases hf' : firstEmpty (s.current.page (s.current.chunk kp)) INDEX_CHUNK_ENTRIES 0 with
        | none => rw [hf'] at hroom; simp at hroom
        | some i => simp [hf'] at ht
      · have hb1 : s.current.bits + 1 ≤ 49 := by omega
        obtain ⟨s', h1, h2, h3⟩ := ih (triggerReindex s) (hS.trigger hb1) hH.trigger
          (by simp only [triggerReindex, Table.new]; omega)
          (by simp only [triggerReindex, Table.new]; omega)
        refine ⟨s', h1, h2, ?_⟩
        simp only [triggerReindex, Table.new] at h3
        omega

end Pdb.Index
