/-
C09 helper: page search (`findEntry`, `scanPage`), table updates (`Table.insert`,
`Table.remove`) and the predicate `Table.Has` the invariant is written with.
-/
import Pdb.Proofs.C09Map
import Pdb.Proofs.C09Bits
import Pdb.Props.C19

namespace Pdb.Index
open Pdb.Gen Pdb.IndexPage

/-! ## well-formed pages -/

def PageWF (page : List Nat) : Prop := page.length = 64 ∧ ∀ e ∈ page, e < 2 ^ 64

theorem emptyPage_wf : PageWF emptyPage := by
  refine ⟨by simp [emptyPage, INDEX_CHUNK_ENTRIES], fun e he => ?_⟩
  have : e = 0 := by
    simp only [emptyPage] at he
    exact (List.mem_replicate.1 he).2
  rw [this]; decide

theorem emptyPage_getD (i : Nat) : emptyPage.getD i 0 = 0 := by
  simp only [emptyPage, List.getD_eq_getElem?_getD]
  cases h : (List.replicate INDEX_CHUNK_ENTRIES 0)[i]? with
  | none => rfl
  | some e =>
    have := List.mem_of_getElem? h
    simp [(List.mem_replicate.1 this).2]

theorem PageWF.set {page : List Nat} (h : PageWF page) (i e : Nat) (he : e < 2 ^ 64) :
    PageWF (page.set i e) := by
  refine ⟨by simp [h.1], fun x hx => ?_⟩
  rcases List.mem_or_eq_of_mem_set hx with h1 | h1
  · exact h.2 x h1
  · rw [h1]; exact he

theorem getD_set (page : List Nat) (i j e : Nat) (hi : i < page.length) :
    (page.set i e).getD j 0 = if i = j then e else page.getD j 0 := by
  simp only [List.getD_eq_getElem?_getD, List.getElem?_set]
  by_cases h : i = j
  · subst h; simp [hi]
  · simp [h]

theorem getD_set_ne (page : List Nat) (i j e : Nat) (h : i ≠ j) :
    (page.set i e).getD j 0 = page.getD j 0 := by
  simp only [List.getD_eq_getElem?_getD, List.getElem?_set]
  simp [h]

/-! ## `findEntry` -/

/-- results are in range and non-empty -/
theorem findConfirm_range (ib kp : Nat) (page : List Nat) (hib : ib ≤ 49) (hp : ∀ e ∈ page, e < 2 ^ 64) :
    ∀ (f p i : Nat), findConfirm ib kp page f p = some i →
      p ≤ i ∧ i < 64 ∧ page.getD i 0 ≠ 0 ∧ BaseMatch ib kp page i := by
  intro f
  induction f with
  | zero => intro p i h; simp [findConfirm] at h
  | succ f ih =>
    intro p i h
    unfold findConfirm at h
    cases hs : findSse2 ib kp p page with
    | none => simp [hs] at h
    | some s =>
      have hr := C19_sse2_never_before_p ib kp p page hib hp s hs
      have hne := C19_sse2_never_empty ib kp p page hib hp s hs
      simp only [hs] at h
      by_cases hc : Entry.partial_key (entryAt page s) ib = Entry.extract_key kp ib
      · simp only [hc, if_true] at h
        have : s = i := by injection h
        subst this
        exact ⟨hr.1, hr.2, hne, ⟨hc, hne⟩⟩
      · simp only [hc, if_false] at h
        have := ih (s + 1) i h
        exact ⟨by omega, this.2.1, this.2.2.1, this.2.2.2⟩

theorem findConfirm_nomiss (ib kp : Nat) (page : List Nat) (hib : ib ≤ 49) (hp : ∀ e ∈ page, e < 2 ^ 64)
    (j : Nat) (hj : j < 64) (hm : BaseMatch ib kp page j) :
    ∀ (f p : Nat), p ≤ j → j - p < f → ∃ i, findConfirm ib kp page f p = some i ∧ i ≤ j := by
  intro f
  induction f with
  | zero => intro p _ h; omega
  | succ f ih =>
    intro p hpj hf
    unfold findConfirm
    -- the scalar search from p finds something at or before j
    have hb : ∃ b, findBase ib kp p page = some b ∧ b ≤ j := by
      cases hfb : findBase ib kp p page with
      | none => exact absurd hm ((C19_base_result ib kp p page).2 hfb j hpj hj)
      | some b =>
        refine ⟨b, rfl, ?_⟩
        have := (C19_base_result ib kp p page).1 b hfb
        apply Nat.le_of_not_lt
        intro hlt
        exact this.2.2.2 j hpj hlt hm
    obtain ⟨b, hb1, hb2⟩ := hb
    obtain ⟨s, hs, hps, hsb⟩ := C19_sse2_finds_if_base_finds ib kp p page hib hp b hb1
    simp only [hs]
    by_cases hc : Entry.partial_key (entryAt page s) ib = Entry.extract_key kp ib
    · simp only [hc, if_true]
      exact ⟨s, rfl, by omega⟩
    · simp only [hc, if_false]
      have hsj : s ≠ j := by
        intro h; subst h; exact hc hm.1
      exact ih (s + 1) (by omega) (by omega)

/-- `findEntry` never returns a position before `p`, past the page, or an empty slot. -/
theorem findEntry_range (ex : Bool) (ib kp p : Nat) (page : List Nat) (hib : ib ≤ 49)
    (hp : ∀ e ∈ page, e < 2 ^ 64) (i : Nat) (h : findEntry ex ib kp p page = some i) :
    p ≤ i ∧ i < 64 ∧ page.getD i 0 ≠ 0 := by
  unfold findEntry at h
  cases ex with
  | true =>
    simp only [if_true] at h
    have := findConfirm_range ib kp page hib hp _ p i h
    exact ⟨this.1, this.2.1, this.2.2.1⟩
  | false =>
    simp only [Bool.false_eq_true, if_false] at h
    have := C19_sse2_never_before_p ib kp p page hib hp i h
    exact ⟨this.1, this.2, C19_sse2_never_empty ib kp p page hib hp i h⟩

/-- `findEntry` never skips an exact match. -/
theorem findEntry_nomiss (ex : Bool) (ib kp p : Nat) (page : List Nat) (hib : ib ≤ 49)
    (hp : ∀ e ∈ page, e < 2 ^ 64) (j : Nat) (hpj : p ≤ j) (hj : j < 64)
    (hm : BaseMatch ib kp page j) : ∃ i, findEntry ex ib kp p page = some i ∧ i ≤ j := by
  unfold findEntry
  cases ex with
  | true =>
    simp only [if_true]
    exact findConfirm_nomiss ib kp page hib hp j hj hm _ p hpj (by simp [INDEX_CHUNK_ENTRIES]; omega)
  | false =>
    simp only [Bool.false_eq_true, if_false]
    have hb : ∃ b, findBase ib kp p page = some b ∧ b ≤ j := by
      cases hfb : findBase ib kp p page with
      | none => exact absurd hm ((C19_base_result ib kp p page).2 hfb j hpj hj)
      | some b =>
        refine ⟨b, rfl, ?_⟩
        have := (C19_base_result ib kp p page).1 b hfb
        apply Nat.le_of_not_lt
        intro hlt
        exact this.2.2.2 j hpj hlt hm
    obtain ⟨b, hb1, hb2⟩ := hb
    obtain ⟨s, hs, _, hsb⟩ := C19_sse2_finds_if_base_finds ib kp p page hib hp b hb1
    exact ⟨s, hs, by omega⟩

/-- Exact search: with the confirming loop, or from 18 index bits on, every candidate has the
key's partial key. -/
def ExactAt (ex : Bool) (ib : Nat) : Prop := ex = true ∨ 18 ≤ ib

theorem findEntry_exact (ex : Bool) (ib kp p : Nat) (page : List Nat) (hib : ib ≤ 49)
    (hp : ∀ e ∈ page, e < 2 ^ 64) (hx : ExactAt ex ib) (i : Nat)
    (h : findEntry ex ib kp p page = some i) : BaseMatch ib kp page i := by
  unfold findEntry at h
  cases ex with
  | true =>
    simp only [if_true] at h
    exact (findConfirm_range ib kp page hib hp _ p i h).2.2.2
  | false =>
    simp only [Bool.false_eq_true, if_false] at h
    have h18 : 18 ≤ ib := by
      rcases hx with h | h
      · exact absurd h (by simp)
      · exact h
    rw [C19_sse2_eq_base ib kp p page h18 hib hp] at h
    exact ((C19_base_result ib kp p page).1 i h).2.2.1

/-! ## `scanPage` -/

theorem scanPage_sound (ex : Bool) (ib kp : Nat) (page : List Nat) (ok : Nat → Bool) (hib : ib ≤ 49)
    (hp : ∀ e ∈ page, e < 2 ^ 64) :
    ∀ (f p i a : Nat), scanPage ex ib kp page ok f p = some (i, a) →
      p ≤ i ∧ i < 64 ∧ page.getD i 0 ≠ 0 ∧ a = Entry.address (page.getD i 0) ib ∧ ok a = true ∧
      (ExactAt ex ib → BaseMatch ib kp page i) := by
  intro f
  induction f with
  | zero => intro p i a h; simp [scanPage] at h
  | succ f ih =>
    intro p i a h
    unfold scanPage at h
    cases hs : findEntry ex ib kp p page with
    | none => simp [hs] at h
    | some s =>
      have hr := findEntry_range ex ib kp p page hib hp s hs
      simp only [hs] at h
      by_cases hc : ok (Entry.address (entryAt page s) ib) = true
      · simp only [hc, if_true] at h
        have h1 : s = i := by injection h with h; injection h
        have h2 : Entry.address (entryAt page s) ib = a := by injection h with h; injection h
        subst h1
        refine ⟨hr.1, hr.2.1, hr.2.2, ?_, ?_, fun hx => findEntry_exact ex ib kp p page hib hp hx s hs⟩
        · rw [← h2]; rfl
        · rw [← h2]; exact hc
      · simp only [hc] at h
        have := ih (s + 1) i a h
        exact ⟨by omega, this.2⟩

theorem scanPage_complete (ex : Bool) (ib kp : Nat) (page : List Nat) (ok : Nat → Bool) (hib : ib ≤ 49)
    (hp : ∀ e ∈ page, e < 2 ^ 64) (j : Nat) (hj : j < 64) (hm : BaseMatch ib kp page j)
    (hok : ok (Entry.address (page.getD j 0) ib) = true) :
    ∀ (f p : Nat), p ≤ j → j - p < f → (scanPage ex ib kp page ok f p).isSome = true := by
  intro f
  induction f with
  | zero => intro p _ h; omega
  | succ f ih =>
    intro p hpj hf
    unfold scanPage
    obtain ⟨s, hs, hsj⟩ := findEntry_nomiss ex ib kp p page hib hp j hpj hj hm
    have hr := findEntry_range ex ib kp p page hib hp s hs
    simp only [hs]
    by_cases hc : ok (Entry.address (entryAt page s) ib) = true
    · simp [hc]
    · simp only [hc]
      have hsj' : s ≠ j := by
        intro h; subst h; exact hc hok
      exact ih (s + 1) (by omega) (by omega)

/-! ## tables -/

structure TableWF (t : Table) : Prop where
  lo : 16 ≤ t.bits
  hi : t.bits ≤ 49
  pages : ∀ c, PageWF (t.page c)

theorem Table.page_setPage (t : Table) (c c' : Nat) (p : List Nat) (n : Nat) :
    (t.setPage c p n).page c' = if c = c' then p else t.page c' := by
  simp only [Table.page, Table.setPage, Trie.get_set]
  by_cases h : c = c' <;> simp [h]

@[simp] theorem Table.bits_setPage (t : Table) (c : Nat) (p : List Nat) (n : Nat) :
    (t.setPage c p n).bits = t.bits := rfl

theorem Table.page_new (b c : Nat) : (Table.new b).page c = emptyPage := rfl

theorem TableWF.new (b : Nat) (h1 : 16 ≤ b) (h2 : b ≤ 49) : TableWF (Table.new b) :=
  ⟨h1, h2, fun _ => emptyPage_wf⟩

/-- `t` holds, in the page of `kp`, a non-empty entry with `kp`'s partial key and address `a`. -/
def Table.Has (t : Table) (kp a : Nat) : Prop :=
  ∃ i, i < 64 ∧ BaseMatch t.bits kp (t.page (t.chunk kp)) i ∧
    Entry.address ((t.page (t.chunk kp)).getD i 0) t.bits = a

theorem Table.not_has_new (b kp a : Nat) : ¬ (Table.new b).Has kp a := by
  rintro ⟨i, _, hm, _⟩
  rw [Table.page_new] at hm
  exact hm.2 (emptyPage_getD i)

theorem firstEmpty_spec (page : List Nat) :
    ∀ (f p i : Nat), firstEmpty page f p = some i → p ≤ i ∧ i < p + f ∧ page.getD i 0 = 0 := by
  intro f
  induction f with
  | zero => intro p i h; simp [firstEmpty] at h
  | succ f ih =>
    intro p i h
    unfold firstEmpty at h
    by_cases hc : entryAt page p = 0
    · simp only [hc, if_true] at h
      have : p = i := by injection h
      subst this
      exact ⟨Nat.le_refl _, by omega, hc⟩
    · simp only [hc, if_false] at h
      have := ih (p + 1) i h
      exact ⟨by omega, by omega, this.2.2⟩

/-- A successful `insert` into the first empty slot. -/
theorem Table.insert_none_written (t t' : Table) (kp a : Nat)
    (h : t.insert kp a none = .written t') :
    a ≤ Entry.last_address t.bits ∧ t'.bits = t.bits ∧
    ∃ i, i < 64 ∧ (t.page (t.chunk kp)).getD i 0 = 0 ∧
      (∀ c, t'.page c = if t.chunk kp = c then
        (t.page (t.chunk kp)).set i (Entry.new a (Entry.extract_key kp t.bits) t.bits) else t.page c) := by
  unfold Table.insert at h
  by_cases hla : a > Entry.last_address t.bits
  · simp [hla] at h
  · simp only [hla, if_false] at h
    refine ⟨Nat.le_of_not_gt hla, ?_⟩
    cases hf : firstEmpty (t.page (t.chunk kp)) INDEX_CHUNK_ENTRIES 0 with
    | none => simp [hf] at h
    | some i =>
      simp only [hf] at h
      injection h with h
      subst h
      have := firstEmpty_spec _ _ _ _ hf
      exact ⟨rfl, i, by simpa [INDEX_CHUNK_ENTRIES] using this.2.1, this.2.2,
        fun c => Table.page_setPage _ _ _ _ _⟩

/-- `insert` into the first empty slot never panics or skips. -/
theorem Table.insert_none_cases (t : Table) (kp a : Nat) :
    (∃ t', t.insert kp a none = .written t') ∨ t.insert kp a none = .needReindex := by
  unfold Table.insert
  by_cases hla : a > Entry.last_address t.bits
  · simp [hla]
  · simp only [hla, if_false]
    cases hf : firstEmpty (t.page (t.chunk kp)) INDEX_CHUNK_ENTRIES 0 with
    | none => simp
    | some i => simp

/-- A successful `insert` over position `j` (replace). -/
theorem Table.insert_some_written (t t' : Table) (kp a j : Nat) (hwf : TableWF t)
    (h : t.insert kp a (some j) = .written t') :
    a ≤ Entry.last_address t.bits ∧ t'.bits = t.bits ∧
    Entry.partial_key ((t.page (t.chunk kp)).getD j 0) t.bits = Entry.extract_key kp t.bits ∧
    (∀ c, t'.page c = if t.chunk kp = c then
        (t.page (t.chunk kp)).set j (Entry.new a (Entry.extract_key kp t.bits) t.bits) else t.page c) := by
  unfold Table.insert at h
  by_cases hla : a > Entry.last_address t.bits
  · simp [hla] at h
  · simp only [hla, if_false] at h
    have hla' : a ≤ Entry.last_address t.bits := Nat.le_of_not_gt hla
    refine ⟨hla', ?_⟩
    by_cases hc : Entry.partial_key (entryAt (t.page (t.chunk kp)) j) t.bits =
        Entry.partial_key (Entry.new a (Entry.extract_key kp t.bits) t.bits) t.bits
    · simp only [hc, if_true] at h
      injection h with h
      subst h
      refine ⟨rfl, ?_, fun c => Table.page_setPage _ _ _ _ _⟩
      rw [entry_partial_key_new a _ t.bits hwf.hi (extract_key_lt kp t.bits hwf.hi) hla'] at hc
      exact hc
    · simp [hc] at h

/-- `insert` over position `j` does not panic when the entry there has the key's partial key. -/
theorem Table.insert_some_no_panic (t : Table) (kp a j : Nat) (hwf : TableWF t)
    (hm : Entry.partial_key ((t.page (t.chunk kp)).getD j 0) t.bits = Entry.extract_key kp t.bits) :
    (∃ t', t.insert kp a (some j) = .written t') ∨ t.insert kp a (some j) = .needReindex := by
  unfold Table.insert
  by_cases hla : a > Entry.last_address t.bits
  · simp [hla]
  · simp only [hla, if_false]
    have hla' : a ≤ Entry.last_address t.bits := Nat.le_of_not_gt hla
    have : Entry.partial_key (entryAt (t.page (t.chunk kp)) j) t.bits =
        Entry.partial_key (Entry.new a (Entry.extract_key kp t.bits) t.bits) t.bits := by
      rw [entry_partial_key_new a _ t.bits hwf.hi (extract_key_lt kp t.bits hwf.hi) hla']
      exact hm
    simp [this]

theorem Table.remove_some (t t' : Table) (kp i : Nat) (h : t.remove kp i = some t') :
    t'.bits = t.bits ∧
    (∀ c, t'.page c = if t.chunk kp = c then (t.page (t.chunk kp)).set i 0 else t.page c) := by
  unfold Table.remove at h
  by_cases hc : entryAt (t.page (t.chunk kp)) i ≠ 0 ∧
      Entry.partial_key (entryAt (t.page (t.chunk kp)) i) t.bits = Entry.extract_key kp t.bits
  · rw [if_pos hc] at h
    injection h with h
    subst h
    exact ⟨rfl, fun c => Table.page_setPage _ _ _ _ _⟩
  · rw [if_neg hc] at h
    exact absurd h (by simp)

/-! ### `Has` under page updates -/

theorem TableWF.of_pages (t t' : Table) (hwf : TableWF t) (hb : t'.bits = t.bits) (c0 i e : Nat)
    (he : e < 2 ^ 64)
    (hp : ∀ c, t'.page c = if c0 = c then (t.page c0).set i e else t.page c) : TableWF t' := by
  refine ⟨hb ▸ hwf.lo, hb ▸ hwf.hi, fun c => ?_⟩
  rw [hp c]
  by_cases h : c0 = c
  · simp only [h, if_true]
    exact (hwf.pages c).set i e he
  · simp only [h, if_false]
    exact hwf.pages c

/-- Writing position `i` of chunk `c0` keeps every `Has` witness that is not that position. -/
theorem Table.has_of_pages (t t' : Table) (hb : t'.bits = t.bits) (c0 i e : Nat)
    (hp : ∀ c, t'.page c = if c0 = c then (t.page c0).set i e else t.page c)
    (kp a : Nat) (h : t.Has kp a)
    (hne : t.chunk kp = c0 → Entry.address ((t.page c0).getD i 0) t.bits ≠ a ∨ (t.page c0).getD i 0 = 0) :
    t'.Has kp a := by
  obtain ⟨j, hj, hm, ha⟩ := h
  have hch : t'.chunk kp = t.chunk kp := by simp [Table.chunk, hb]
  refine ⟨j, hj, ?_, ?_⟩ <;> rw [hch, hp (t.chunk kp), hb]
  · by_cases hc : c0 = t.chunk kp
    · simp only [hc, if_true]
      have hij : i ≠ j := by
        intro hij
        subst hij
        rcases hne hc.symm with h1 | h1
        · rw [hc] at h1; exact h1 ha
        · rw [hc] at h1; exact hm.2 h1
      unfold BaseMatch
      rw [getD_set_ne _ _ _ _ hij]
      exact hm
    · simp only [hc, if_false]; exact hm
  · by_cases hc : c0 = t.chunk kp
    · simp only [hc, if_true]
      have hij : i ≠ j := by
        intro hij
        subst hij
        rcases hne hc.symm with h1 | h1
        · rw [hc] at h1; exact h1 ha
        · rw [hc] at h1; exact hm.2 h1
      rw [getD_set_ne _ _ _ _ hij]
      exact ha
    · simp only [hc, if_false]; exact ha

/-- A `Has` witness after writing `e` at position `i` of chunk `c0` is an old witness or `e`. -/
theorem Table.has_rev_of_pages (t t' : Table) (hb : t'.bits = t.bits) (c0 i e : Nat)
    (hp : ∀ c, t'.page c = if c0 = c then (t.page c0).set i e else t.page c)
    (kp a : Nat) (h : t'.Has kp a) :
    t.Has kp a ∨ (t.chunk kp = c0 ∧ e ≠ 0 ∧ Entry.address e t.bits = a) := by
  obtain ⟨j, hj, hm, ha⟩ := h
  have hch : t'.chunk kp = t.chunk kp := by simp [Table.chunk, hb]
  rw [hch, hp (t.chunk kp), hb] at hm ha
  by_cases hc : c0 = t.chunk kp
  · simp only [hc, if_true] at hm ha
    by_cases hij : i = j
    · subst hij
      by_cases hlen : i < (t.page (t.chunk kp)).length
      · unfold BaseMatch at hm
        rw [getD_set _ _ _ _ hlen] at hm ha
        simp only [if_true] at hm ha
        exact Or.inr ⟨hc.symm, hm.2, ha⟩
      · have : (t.page (t.chunk kp)).set i e = t.page (t.chunk kp) :=
          List.set_eq_of_length_le (Nat.le_of_not_lt hlen)
        rw [this] at hm ha
        exact Or.inl ⟨i, hj, hm, ha⟩
    · unfold BaseMatch at hm
      rw [getD_set_ne _ _ _ _ hij] at hm ha
      exact Or.inl ⟨j, hj, hm, ha⟩
  · simp only [hc, if_false] at hm ha
    exact Or.inl ⟨j, hj, hm, ha⟩

/-- The entry written by `insert` is a `Has` witness for its key and address. -/
theorem Table.has_written (t t' : Table) (hwf : TableWF t) (hb : t'.bits = t.bits) (kp a i : Nat)
    (hi : i < 64) (hla : a ≤ Entry.last_address t.bits) (ha0 : a ≠ 0)
    (hp : ∀ c, t'.page c = if t.chunk kp = c then
        (t.page (t.chunk kp)).set i (Entry.new a (Entry.extract_key kp t.bits) t.bits) else t.page c) :
    t'.Has kp a := by
  have hch : t'.chunk kp = t.chunk kp := by simp [Table.chunk, hb]
  have hlen := (hwf.pages (t.chunk kp)).1
  have hpk := extract_key_lt kp t.bits hwf.hi
  refine ⟨i, hi, ?_, ?_⟩ <;> rw [hch, hp (t.chunk kp), hb] <;> simp only [if_true]
  · unfold BaseMatch
    rw [getD_set _ _ _ _ (by omega)]
    simp only [if_true]
    exact ⟨entry_partial_key_new a _ t.bits hwf.hi hpk hla,
      entry_new_ne_zero a _ t.bits hwf.hi hpk hla ha0⟩
  · rw [getD_set _ _ _ _ (by omega)]
    simp only [if_true]
    exact entry_address_new a _ t.bits hwf.hi hpk hla

end Pdb.Index
