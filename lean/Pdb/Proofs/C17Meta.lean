/-
C17 helper lemmas, part 2: the metadata file round trip (with the T0 obligations on the
generated line formats, keys, join separator and split character) and the invariant of
the salt returned by `load_metadata_file`.  Core Lean only.
-/
import Pdb.Proofs.C17Gen

namespace Pdb.C17

/-! ### T0 obligations on the generated metadata literals -/

/-- T0 obligation: the `version` / `salt` lines are `<key><split char>{}` for exactly the keys
the loader compares with, the `col` line is `<prefix>{}<split char>{}` for the prefix the loader
tests with `starts_with`. -/
theorem metaLine_shape :
    Gen.Text.metaVersionPieces = [Gen.Text.metaKeyVersion ++ [Gen.Text.metaSplitChar], []] ∧
    Gen.Text.metaSaltPieces = [Gen.Text.metaKeySalt ++ [Gen.Text.metaSplitChar], []] ∧
    Gen.Text.metaColPieces = [Gen.Text.metaColPrefix, [Gen.Text.metaSplitChar], []] := by decide

/-- T0 obligation: the loader's key tests do not shadow each other: `salt` is not `version`,
and no `col<i>` key can be `version` or `salt`. -/
theorem metaKeys_distinct : Gen.Text.metaKeySalt ≠ Gen.Text.metaKeyVersion ∧
    Gen.Text.metaColPrefix.isPrefixOf Gen.Text.metaKeyVersion = false ∧
    Gen.Text.metaColPrefix.isPrefixOf Gen.Text.metaKeySalt = false := by decide

/-- T0 obligation: the keys contain neither the split character nor a line break. -/
theorem metaKeys_plain : Gen.Text.metaKeyVersion.all plainChar = true ∧
    Gen.Text.metaKeySalt.all plainChar = true ∧ Gen.Text.metaColPrefix.all plainChar = true := by
  decide

/-- T0 obligation: the lines are joined with exactly the line terminator `BufRead::lines`
splits at. -/
theorem metaJoinSep_newline : Gen.Text.metaJoinSep = ['\n'] := by decide

theorem joinWith_newline (ls : List Text) : joinWith Gen.Text.metaJoinSep ls = joinLines ls := by
  rw [metaJoinSep_newline]
  induction ls with
  | nil => rfl
  | cons l r ih =>
    cases r with
    | nil => rfl
    | cons l2 r2 => simp only [joinWith, joinLines, ih, List.cons_append, List.nil_append]

theorem not_mem_of_plain {t : Text} (h : t.all plainChar = true) :
    Gen.Text.metaSplitChar ∉ t ∧ '\n' ∉ t ∧ '\r' ∉ t :=
  ⟨not_mem_of_all h (by decide), not_mem_of_all h (by decide), not_mem_of_all h (by decide)⟩

/-- A `key=value` line with plain key and value splits into exactly these two pieces. -/
theorem splitChar_kv {k v : Text} (hk : k.all plainChar = true) (hv : v.all plainChar = true) :
    splitChar Gen.Text.metaSplitChar (k ++ Gen.Text.metaSplitChar :: v) = [k, v] := by
  rw [splitChar_first _ (not_mem_of_plain hk).1, splitChar_absent (not_mem_of_plain hv).1]

theorem cleanLine_kv {k v : Text} (hk : k.all plainChar = true) (hv : v.all plainChar = true) :
    CleanLine (k ++ Gen.Text.metaSplitChar :: v) := by
  refine ⟨by simp, ?_, ?_⟩
  · intro h
    rcases List.mem_append.mp h with h | h
    · exact (not_mem_of_plain hk).2.1 h
    · rcases List.mem_cons.mp h with h | h
      · revert h; decide
      · exact (not_mem_of_plain hv).2.1 h
  · intro h
    rcases List.mem_append.mp h with h | h
    · exact (not_mem_of_plain hk).2.2 h
    · rcases List.mem_cons.mp h with h | h
      · revert h; decide
      · exact (not_mem_of_plain hv).2.2 h

theorem versionLine_eq (version : Nat) : fmt Gen.Text.metaVersionPieces [dec version] =
    Gen.Text.metaKeyVersion ++ Gen.Text.metaSplitChar :: dec version := by
  rw [metaLine_shape.1]; simp [fmt]

theorem saltLine_eq (salt : List Nat) : fmt Gen.Text.metaSaltPieces [hexEncode salt] =
    Gen.Text.metaKeySalt ++ Gen.Text.metaSplitChar :: hexEncode salt := by
  rw [metaLine_shape.2.1]; simp [fmt]

theorem colLine_eq (i : Nat) (o : ColumnOptions) : colLine i o =
    (Gen.Text.metaColPrefix ++ dec i) ++ Gen.Text.metaSplitChar :: asString o := by
  unfold colLine
  rw [metaLine_shape.2.2]; simp [fmt]

theorem plain_colKey (i : Nat) : (Gen.Text.metaColPrefix ++ dec i).all plainChar = true := by
  simp only [List.all_append, plain_dec, Bool.and_true]
  exact metaKeys_plain.2.2

/-- A key `col<i>` is neither `version` nor `salt`. -/
theorem colKey_ne {i : Nat} {k : Text} (hk : Gen.Text.metaColPrefix.isPrefixOf k = false) :
    Gen.Text.metaColPrefix ++ dec i ≠ k := by
  intro h
  have : Gen.Text.metaColPrefix.isPrefixOf k = true := by
    rw [← h]; exact List.isPrefixOf_iff_prefix.mpr (List.prefix_append _ _)
  rw [hk] at this
  cases this

theorem stepLine_col (st : MetaAcc) (i : Nat) (o : ColumnOptions) :
    stepLine st (colLine i o) = .ok { st with columns := st.columns ++ [o] } := by
  unfold stepLine
  rw [colLine_eq, splitChar_kv (plain_colKey i) (plain_asString o)]
  have h1 := colKey_ne (i := i) metaKeys_distinct.2.1
  have h2 := colKey_ne (i := i) metaKeys_distinct.2.2
  have h3 : Gen.Text.metaColPrefix.isPrefixOf (Gen.Text.metaColPrefix ++ dec i) = true :=
    List.isPrefixOf_iff_prefix.mpr (List.prefix_append _ _)
  simp only [h1, h2, h3, if_false, if_true, fromString_asString]

theorem foldLines_cols (st : MetaAcc) (i : Nat) (cols : List ColumnOptions) :
    foldLines st (colLines i cols) = .ok { st with columns := st.columns ++ cols } := by
  induction cols generalizing st i with
  | nil => simp [colLines, foldLines]
  | cons o r ih =>
    simp only [colLines, foldLines, stepLine_col, ih]
    simp

theorem stepLine_version (st : MetaAcc) {version : Nat} (hv : version ≤ u32Max) :
    stepLine st (fmt Gen.Text.metaVersionPieces [dec version]) =
      .ok { st with version := version } := by
  unfold stepLine
  rw [versionLine_eq, splitChar_kv metaKeys_plain.1 (plain_dec version)]
  simp only [if_true, parseUnsigned_dec hv]

theorem stepLine_salt (st : MetaAcc) {salt : List Nat} (hl : salt.length = 32)
    (hb : ∀ b ∈ salt, b < 256) :
    stepLine st (fmt Gen.Text.metaSaltPieces [hexEncode salt]) =
      .ok { st with salt := some salt } := by
  unfold stepLine
  rw [saltLine_eq, splitChar_kv metaKeys_plain.2.1 (plain_hexEncode salt)]
  have h1 := metaKeys_distinct.1
  simp only [h1, if_false, if_true, hexDecode_hexEncode hb, hl]

theorem cleanLine_colLines (cols : List ColumnOptions) :
    ∀ i, ∀ l ∈ colLines i cols, CleanLine l := by
  induction cols with
  | nil => intro i l h; cases h
  | cons o r ih =>
    intro i l h
    rcases List.mem_cons.mp h with h | h
    · subst h; rw [colLine_eq]; exact cleanLine_kv (plain_colKey i) (plain_asString o)
    · exact ih (i + 1) l h

theorem cleanLine_metaLines (version : Nat) (salt : List Nat) (cols : List ColumnOptions) :
    ∀ l ∈ metaLines version salt cols, CleanLine l := by
  intro l hl
  unfold metaLines at hl
  rcases List.mem_cons.mp hl with hl | hl
  · subst hl
    rw [versionLine_eq]; exact cleanLine_kv metaKeys_plain.1 (plain_dec _)
  rcases List.mem_cons.mp hl with hl | hl
  · subst hl
    rw [saltLine_eq]; exact cleanLine_kv metaKeys_plain.2.1 (plain_hexEncode _)
  · exact cleanLine_colLines cols 0 l hl

/-- `load_metadata_file` reads back what `write_metadata_file_with_version` wrote, for
every supported version number. -/
theorem decodeMeta_encodeMeta {version : Nat} (hv1 : Pdb.Gen.LAST_SUPPORTED_VERSION ≤ version)
    (hv2 : version ≤ u32Max) {salt : List Nat} (hl : salt.length = 32)
    (hb : ∀ b ∈ salt, b < 256) (cols : List ColumnOptions) :
    decodeMeta (encodeMeta version salt cols) =
      .ok { salt := salt, version := version, columns := cols } := by
  unfold decodeMeta encodeMeta
  rw [joinWith_newline, lines_joinLines (cleanLine_metaLines _ _ _)]
  unfold metaLines
  simp only [foldLines, stepLine_version _ hv2, stepLine_salt _ hl hb, foldLines_cols]
  simp [Nat.not_lt.mpr hv1]

/-- A version below `LAST_SUPPORTED_VERSION` is rejected. -/
theorem decodeMeta_encodeMeta_old {version : Nat} (hv1 : version < Pdb.Gen.LAST_SUPPORTED_VERSION)
    {salt : List Nat} (hl : salt.length = 32)
    (hb : ∀ b ∈ salt, b < 256) (cols : List ColumnOptions) :
    decodeMeta (encodeMeta version salt cols) = .err .invalidConfigVersion := by
  have hv2 : version ≤ u32Max := by
    simp only [Pdb.Gen.LAST_SUPPORTED_VERSION, u32Max] at *; omega
  unfold decodeMeta encodeMeta
  rw [joinWith_newline, lines_joinLines (cleanLine_metaLines _ _ _)]
  unfold metaLines
  simp only [foldLines, stepLine_version _ hv2, stepLine_salt _ hl hb, foldLines_cols]
  simp [hv1]

/-! ### The salt of a successfully loaded metadata file is 32 bytes -/

def SaltOk (s : Option (List Nat)) : Prop :=
  ∀ x, s = some x → x.length = 32 ∧ ∀ b ∈ x, b < 256

theorem stepLine_saltOk {st st' : MetaAcc} {l : Text} (h : stepLine st l = .ok st')
    (hs : SaltOk st.salt) : SaltOk st'.salt := by
  unfold stepLine at h
  split at h
  · split at h
    · split at h
      · cases h; exact hs
      · cases h
    · split at h
      · split at h
        · cases h
        · rename_i bytes hd
          split at h
          · rename_i hlen
            cases h
            intro x hx
            cases hx
            exact ⟨hlen, hexDecode_lt hd⟩
          · cases h
      · split at h
        · split at h
          · cases h; exact hs
          · cases h
          · cases h
        · cases h; exact hs
  · cases h

theorem foldLines_saltOk {ls : List Text} {st st' : MetaAcc} (h : foldLines st ls = .ok st')
    (hs : SaltOk st.salt) : SaltOk st'.salt := by
  induction ls generalizing st with
  | nil => simp only [foldLines] at h; cases h; exact hs
  | cons l r ih =>
    simp only [foldLines] at h
    split at h
    · rename_i st1 h1
      exact ih h (stepLine_saltOk h1 hs)
    · cases h
    · cases h

theorem decodeMeta_salt {t : Text} {m : Metadata} (h : decodeMeta t = .ok m) :
    m.salt.length = 32 ∧ ∀ b ∈ m.salt, b < 256 := by
  unfold decodeMeta at h
  split at h
  · rename_i st hst
    have hs : SaltOk st.salt := foldLines_saltOk hst (by intro x hx; cases hx)
    split at h
    · cases h
    · split at h
      · cases h
      · rename_i s hsome
        cases h
        exact hs s hsome
  · cases h
  · cases h

theorem decodeMeta_version {t : Text} {m : Metadata} (h : decodeMeta t = .ok m) :
    Pdb.Gen.LAST_SUPPORTED_VERSION ≤ m.version := by
  unfold decodeMeta at h
  split at h
  · split at h
    · cases h
    · rename_i hv
      split at h
      · cases h
      · cases h
        exact Nat.le_of_not_lt hv
  · cases h
  · cases h

/-! ### The version of a successfully loaded metadata file fits in `u32` -/

theorem parseUnsigned_le {max : Nat} {s : Text} {n : Nat} (h : parseUnsigned max s = some n) :
    n ≤ max := by
  unfold parseUnsigned at h
  split at h
  · cases h
  · split at h
    · split at h
      · cases h; assumption
      · cases h
    · cases h

theorem stepLine_versionOk {st st' : MetaAcc} {l : Text} (h : stepLine st l = .ok st')
    (hv : st.version ≤ u32Max) : st'.version ≤ u32Max := by
  unfold stepLine at h
  split at h
  · split at h
    · split at h
      · rename_i n hn
        cases h
        exact parseUnsigned_le hn
      · cases h
    · split at h
      · split at h
        · cases h
        · split at h
          · cases h; exact hv
          · cases h
      · split at h
        · split at h
          · cases h; exact hv
          · cases h
          · cases h
        · cases h; exact hv
  · cases h

theorem foldLines_versionOk {ls : List Text} {st st' : MetaAcc} (h : foldLines st ls = .ok st')
    (hv : st.version ≤ u32Max) : st'.version ≤ u32Max := by
  induction ls generalizing st with
  | nil => simp only [foldLines] at h; cases h; exact hv
  | cons l r ih =>
    simp only [foldLines] at h
    split at h
    · rename_i st1 h1
      exact ih h (stepLine_versionOk h1 hv)
    · cases h
    · cases h

theorem decodeMeta_version_le {t : Text} {m : Metadata} (h : decodeMeta t = .ok m) :
    m.version ≤ u32Max := by
  unfold decodeMeta at h
  split at h
  · rename_i st hst
    have hv : st.version ≤ u32Max := foldLines_versionOk hst (by decide)
    split at h
    · cases h
    · split at h
      · cases h
      · cases h
        exact hv
  · cases h
  · cases h

end Pdb.C17
