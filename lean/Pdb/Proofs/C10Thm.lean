/-
C10: DereferenceTree preserves the invariant; presence = reachability; emptiness.
-/
import Pdb.Proofs.C10Walk

namespace Pdb.MultiTree
set_option linter.unusedSectionVars false
variable {K D : Type} [DecidableEq K]

/-- `a` is reachable from a root entry by following child addresses. -/
inductive Reach (h : Heap K D) : Addr → Prop where
  | root (k : K) (e : Node D × Nat) (a : Addr) :
      h.roots.get k = some e → a ∈ e.1.children → Reach h a
  | step (b : Addr) (n : Node D) (a : Addr) :
      Reach h b → h.nodes.get b = some n → a ∈ n.children → Reach h a

theorem present_of_reach (h : Heap K D) (hs : Shape h) (a : Addr) (hr : Reach h a) :
    present h a := by
  induction hr with
  | root k e a hg hm => exact hs.closedR k e hg a hm
  | step b n a _ hg hm _ => exact hs.closedN b n hg a hm

theorem count_pos (h : Heap K D) (P : List Addr) (hc : Counts h P) (a : Addr) : 1 ≤ h.count a := by
  simp only [Heap.count]
  cases hr : h.rc.get a with
  | none => simp
  | some c => have := (hc.rcEntries a c hr).1; simp only [Option.getD_some]; omega

/-- RcInv + acyclicity: no garbage.  Every present node is reachable from a root. -/
theorem reach_of_present (h : Heap K D) (hs : Shape h) (hb : Below h h.next) (hc : Counts h []) :
    ∀ (m : Nat) (a : Addr), h.next - a ≤ m → present h a → Reach h a := by
  intro m
  induction m with
  | zero =>
    intro a hm ha
    have := hb a ha
    omega
  | succ m ih =>
    intro a hm ha
    have h1 := hc.rcEq a ha
    have h2 := count_pos h [] hc a
    simp only [List.count_nil, Nat.add_zero, refs] at h1
    by_cases hr : 0 < rootRefs h a
    · obtain ⟨k, e, hmem, hpos⟩ := FMap.exists_of_sum_pos h.roots _ hr
      exact Reach.root k e a ((FMap.mem_iff h.roots hs.wfRoots k e).mp hmem)
        (List.count_pos_iff.mp hpos)
    · have hn : 0 < nodeRefs h a := by omega
      obtain ⟨b, n, hmem, hpos⟩ := FMap.exists_of_sum_pos h.nodes _ hn
      have hg := (FMap.mem_iff h.nodes hs.wfN b n).mp hmem
      have hin : a ∈ n.children := List.count_pos_iff.mp hpos
      have hlt := hs.acyclic b n hg a hin
      have hpb : present h b := (present_iff h b).mpr ⟨n, hg⟩
      have hbn := hb b hpb
      exact Reach.step b n a (ih b (by omega) hpb) hg hin

theorem present_iff_reach (v : Variant) (h : Heap K D) (hi : Inv v h) (hv : v ≠ .appendOnly)
    (a : Addr) : present h a ↔ Reach h a :=
  ⟨reach_of_present h hi.shape hi.below (hi.counts hv) (h.next - a) a (Nat.le_refl _),
   present_of_reach h hi.shape a⟩

/-- Without roots nothing is reachable. -/
theorem not_reach_of_no_roots (h : Heap K D) (hn : ∀ k, h.roots.get k = none) (a : Addr) :
    ¬ Reach h a := by
  intro hr
  induction hr with
  | root k e a hg _ => rw [hn k] at hg; cases hg
  | step _ _ _ _ _ _ ih => exact ih

/-! ### DereferenceTree -/

/-- What `derefProcess` does to a heap satisfying the invariant when the root exists and the
    children are the root's children. -/
theorem derefProcess_ok (v : Variant) (h : Heap K D) (k : K) (hv : v ≠ .appendOnly) (hi : Inv v h)
    (r : Node D) (c : Nat) (hk : h.roots.get k = some (r, c)) :
    ∃ h', derefProcess v h k r.children = .ok h' ∧ Inv v h' ∧ h'.next = h.next ∧
      h'.roots = h.roots.set k (if v = .rcRoots ∧ c > 1 then some (r, c - 1) else none) ∧
      (∀ b n, h'.nodes.get b = some n → h.nodes.get b = some n) := by
  simp only [derefProcess, hk]
  by_cases hcase : v = .rcRoots ∧ c > 1
  · simp only [hcase, and_self, if_true]
    refine ⟨_, rfl, ⟨?_, hi.below, ?_⟩, rfl, rfl, fun _ _ hg => hg⟩
    · exact setRoot_shape h hi.shape k (r, c - 1) (by simp; omega) (hi.shape.closedR k (r, c) hk)
    · intro _
      exact setRoot_count_counts h hi.shape k r c (c - 1) hk [] (hi.counts hv)
  · simp only [hcase, if_false]
    have hs1 := removeRoot_shape h hi.shape k
    have hc1 := removeRoot_counts h hi.shape k (r, c) hk (hi.counts hv)
    have hc1' : Counts { h with roots := h.roots.set k none } (r.children ++ []) := by
      simpa using hc1
    obtain ⟨h', e, w⟩ := derefChildren_ok (walkFuel { h with roots := h.roots.set k none })
      r.children _ [] hs1 hc1' (by simp [walkFuel])
    refine ⟨h', e, ⟨w.shape, ?_, fun _ => w.counts⟩, w.next, w.roots, w.sub⟩
    intro a ha
    rw [w.next]
    obtain ⟨n, hn⟩ := (present_iff h' a).mp ha
    exact hi.below a ((present_iff h a).mpr ⟨n, w.sub a n hn⟩)

/-- DereferenceTree (atomic) on a heap satisfying the invariant. -/
theorem dereferenceTree_ok (v : Variant) (h : Heap K D) (k : K) (hv : v ≠ .appendOnly)
    (hi : Inv v h) (r : Node D) (c : Nat) (hk : h.roots.get k = some (r, c)) :
    ∃ h', dereferenceTree v h k = .ok h' ∧ Inv v h' ∧ h'.next = h.next ∧
      h'.roots = h.roots.set k (if v = .rcRoots ∧ c > 1 then some (r, c - 1) else none) ∧
      (∀ b n, h'.nodes.get b = some n → h.nodes.get b = some n) := by
  simp only [dereferenceTree, hv, if_false, hk]
  exact derefProcess_ok v h k hv hi r c hk

/-- Same reachability when roots agree and every node of the smaller heap is a node of the
    bigger one with the same content. -/
theorem reach_transfer (h h' : Heap K D) (hroots : h'.roots = h.roots)
    (hsub : ∀ b n, h'.nodes.get b = some n → h.nodes.get b = some n) (a : Addr)
    (hr : Reach h' a) : Reach h a := by
  induction hr with
  | root k e a hg hm => exact Reach.root k e a (by rw [← hroots]; exact hg) hm
  | step b n a _ hg hm ih => exact Reach.step b n a ih (hsub b n hg) hm

theorem reach_transfer_back (h h' : Heap K D) (hs' : Shape h') (hroots : h'.roots = h.roots)
    (hsub : ∀ b n, h'.nodes.get b = some n → h.nodes.get b = some n) (a : Addr)
    (hr : Reach h a) : Reach h' a ∧ present h' a := by
  induction hr with
  | root k e a hg hm =>
    have hg' : h'.roots.get k = some e := by rw [hroots]; exact hg
    exact ⟨Reach.root k e a hg' hm, hs'.closedR k e hg' a hm⟩
  | step b n a _ hg hm ih =>
    obtain ⟨n', hn'⟩ := (present_iff h' b).mp ih.2
    have := hsub b n' hn'
    rw [hg] at this
    simp only [Option.some.injEq] at this
    subst this
    exact ⟨Reach.step b n a ih.1 hn' hm, hs'.closedN b n hn' a hm⟩

end Pdb.MultiTree
