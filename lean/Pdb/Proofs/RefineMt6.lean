/-
R6 lemmas, part 6: the claim phase of `commit_changes` (`claim_tree_values`): the heap is untouched, the claimed offsets of
every tier join the claimed slots, and the assembled node changes are the abstract plan.
-/
import Pdb.Proofs.RefineMt5

namespace Pdb.MultiTreePhys
open Pdb.Gen Pdb.ValueTable Pdb.MultiTree

/-- `for (tier, count) in tier_count { claim_entries(count) }` -/
theorem sim_claimList : ∀ (todo : List (Nat × Nat)) (p : PCol) (h : Heap Key Bytes) (ly : Layout), Rep p h ly →
    (∀ tier, (p.vt tier).filled + (todo.map Prod.snd).sum ≤ 2 ^ 56) →
    ∃ p' s ly', claimList p todo = .ok (p', s) ∧ Rep p' h ly' ∧ p'.variant = p.variant ∧
      (∀ e ∈ s, ∀ o ∈ e.2, o ∈ ly'.claimed e.1) ∧
      (∀ tier o, o ∈ ly.claimed tier → o ∈ ly'.claimed tier) := by
  intro todo
  induction todo with
  | nil =>
    intro p h ly r _
    exact ⟨p, [], ly, rfl, r, rfl, fun e he => by simp at he, fun _ _ ho => ho⟩
  | cons tn rest ih =>
    obtain ⟨tier, n⟩ := tn
    intro p h ly r hb
    simp only [List.map_cons, List.sum_cons] at hb
    obtain ⟨t', hal, r1, hf, _⟩ := sim_claim p h ly r tier n (by have := hb tier; omega)
    obtain ⟨p', s, ly', hcl, r', hv', hs', hmono'⟩ := ih (p.setVT tier t') h _ r1 (by
      intro tier'
      by_cases he : tier' = tier
      · subst he; rw [setVT_same, hf]; have := hb tier'; omega
      · rw [setVT_other _ _ _ _ he]; have := hb tier'; omega)
    refine ⟨p', (tier, (ly.free tier).take n ++ List.range' (p.vt tier).filled (n - (ly.free tier).length)) :: s,
      ly', ?_, r', hv', ?_, ?_⟩
    · simp only [claimList, hal, hcl]
    · intro e he o ho
      rcases List.mem_cons.mp he with rfl | he
      · apply hmono'
        simp only [upd_same]
        exact List.mem_append_right _ ho
      · exact hs' e he o ho
    · intro tier' o ho
      apply hmono'
      by_cases he : tier' = tier
      · subst he; simp only [upd_same]; exact List.mem_append_left _ ho
      · simp only [upd_other _ _ _ _ he]; exact ho

/-- `claim_tree_values`: the heap is untouched (`Rep` with the same `h`), every offset of the supply is a claimed slot of
    its tier, the root node carries the tree's data and the children addresses of the plan, and the node changes are the
    abstract plan `planRefs` run on the claimed addresses in push order. -/
theorem sim_claimTree (p : PCol) (h : Heap Key Bytes) (ly : Layout) (r : Rep p h ly) (t : NewNode Bytes)
    (hb : ∀ tier, (p.vt tier).filled +
      ((tierCounts (tiersRefs p.isRc t.children)).map Prod.snd).sum ≤ 2 ^ 56) :
    ∃ p' root chs ly', physClaimTree p t = .ok (p', root, chs) ∧ Rep p' h ly' ∧ p'.variant = p.variant ∧
      root.data = t.data ∧
      planRefs (K := Key) p.isAppendOnly (newAddrs chs) t.children = (chs, [], root.children) ∧
      (∀ tier o, o ∈ ly.claimed tier → o ∈ ly'.claimed tier) := by
  obtain ⟨p', s, ly', hcl, r', hv', _, hmono⟩ := sim_claimList _ p h ly r hb
  refine ⟨p', ⟨t.data, (physPlanRefs p.isRc p.isAppendOnly s t.children).2.2⟩,
    (physPlanRefs p.isRc p.isAppendOnly s t.children).1, ly', ?_, r', hv', rfl, ?_, hmono⟩
  · simp only [physClaimTree, claimTiers, hcl]
  · have := physPlanRefs_eq p.isRc p.isAppendOnly s t.children []
    simpa using this

end Pdb.MultiTreePhys
