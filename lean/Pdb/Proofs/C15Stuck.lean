/-
C15 helper lemmas (7): which program counters a thread can be blocked at.
-/
import Pdb.Proofs.C15Shut

namespace Pdb.Conc.Pipe

theorem errStep_some_of_free {cfg : Cfg} {s : St} (e : ETail) (hl : lqFree s = true) (hq : qFree s = true) :
    ∃ r, errStep cfg s e = some r := by
  cases e <;> simp only [errStep]
  · split <;> exact ⟨_, rfl⟩
  · simp [hl]
  · simp [hq]

theorem parked_of_not_canStep {c : Cv} (h : c.canStep = false) : c.waiting = true ∧ c.notified = false := by
  simpa [Cv.canStep] using h

theorem tickL_none {cfg : Cfg} {s : St} (h : tickL cfg s = none) (hl : lqFree s = true) (hq : qFree s = true) :
    s.pl = .done ∨ (s.pl = .waitL ∧ s.cvL.waiting = true ∧ s.cvL.notified = false) ∨
    (s.pl = .lqParked ∧ s.lqNotified = false) := by
  unfold tickL at h
  split at h
  · cases h
  · split at h
    · split at h <;> cases h
    · cases h
  · rename_i hp
    split at h
    · cases h
    · rename_i hc
      exact Or.inr (Or.inl ⟨hp, parked_of_not_canStep (by simpa using hc)⟩)
  · split at h <;> cases h
  · cases h
  · rename_i hp
    split at h
    · cases h
    · rename_i hn; exact Or.inr (Or.inr ⟨hp, by simpa using hn⟩)
  · rw [if_pos hq] at h
    split at h <;> cases h
  · cases h
  · cases h
  · cases h
  · cases h
  · rename_i e _
    obtain ⟨r, hr⟩ := errStep_some_of_free (cfg := cfg) e hl hq
    rw [hr] at h; cases h
  · rename_i hp; exact Or.inl hp

theorem tickF_none {cfg : Cfg} {s : St} (h : tickF cfg s = none) (hl : lqFree s = true) (hq : qFree s = true) :
    s.pf = .done ∨ (s.pf = .waitF ∧ s.cvF.waiting = true ∧ s.cvF.notified = false) := by
  unfold tickF at h
  split at h
  · split at h
    · split at h <;> cases h
    · cases h
  · rename_i hp
    split at h
    · cases h
    · rename_i hc
      exact Or.inr ⟨hp, parked_of_not_canStep (by simpa using hc)⟩
  · split at h <;> cases h
  · cases h
  · rename_i e _
    obtain ⟨r, hr⟩ := errStep_some_of_free (cfg := cfg) e hl hq
    rw [hr] at h; cases h
  · rename_i hp; exact Or.inl hp

theorem tickC_none {cfg : Cfg} {s : St} (h : tickC cfg s = none) (hl : lqFree s = true) (hq : qFree s = true) :
    s.pc = .done ∨ (s.pc = .waitC ∧ s.cvC.waiting = true ∧ s.cvC.notified = false) ∨
    (s.pc = .waitQ ∧ s.cvQ.waiting = true ∧ s.cvQ.notified = false) := by
  unfold tickC at h
  split at h
  · split at h
    · split at h <;> cases h
    · cases h
  · cases h
  · split at h <;> cases h
  · rename_i hp
    split at h
    · cases h
    · rename_i hc
      exact Or.inr (Or.inl ⟨hp, parked_of_not_canStep (by simpa using hc)⟩)
  · split at h
    · cases h
    · cases h
    · rw [if_pos hl] at h; cases h
  · split at h <;> cases h
  · rename_i hp
    split at h
    · cases h
    · rename_i hc
      exact Or.inr (Or.inr ⟨hp, parked_of_not_canStep (by simpa using hc)⟩)
  · rename_i e _
    obtain ⟨r, hr⟩ := errStep_some_of_free (cfg := cfg) e hl hq
    rw [hr] at h; cases h
  · rename_i hp; exact Or.inl hp

/-- with the iteration lock free the guard of `tickCg` is void -/
theorem tickCg_none {cfg : Cfg} {s : St} (h : tickCg cfg s = none) (hi : s.iterHeld = false) : tickC cfg s = none := by
  unfold tickCg at h
  rw [hi] at h
  simpa using h

/-- the commit worker blocked by a client that holds the iteration lock -/
theorem tickCg_none_held {cfg : Cfg} {s : St} (h : tickCg cfg s = none) :
    tickC cfg s = none ∨ (s.iterHeld = true ∧ s.pc = .enRead) := by
  unfold tickCg at h
  split at h
  · rename_i hg
    right
    simpa using hg
  · exact Or.inl h

theorem tickK_none {cfg : Cfg} {s : St} (h : tickK cfg s = none) (hl : lqFree s = true) (hq : qFree s = true) :
    s.pk = .done ∨ (s.pk = .waitK ∧ s.cvK.waiting = true ∧ s.cvK.notified = false) := by
  unfold tickK at h
  split at h
  · split at h
    · split at h <;> cases h
    · cases h
  · rename_i hp
    split at h
    · cases h
    · rename_i hc
      exact Or.inr ⟨hp, parked_of_not_canStep (by simpa using hc)⟩
  · split at h <;> cases h
  · cases h
  · rename_i e _
    obtain ⟨r, hr⟩ := errStep_some_of_free (cfg := cfg) e hl hq
    rw [hr] at h; cases h
  · rename_i hp; exact Or.inl hp

/-- the dropping thread is blocked only while it waits for a worker to exit (or at the ends) -/
theorem tickD_none {cfg : Cfg} (p1 : cfg.enactChecksShutdown = true) {s : St} (h : tickD cfg s = none)
    (hl : lqFree s = true) (hs : s.pd = .kill → s.shutdown = true) (ht : s.treeLocked = false)
    (hdc : s.deferCycle = false) :
    s.pd = .idle ∨ s.pd = .done ∨ s.pd = .stuck ∨ (s.pd = .joinL ∧ s.pl ≠ .done) ∨
    (s.pd = .joinF ∧ s.pf ≠ .done) ∨ (s.pd = .joinC ∧ s.pc ≠ .done) ∨ (s.pd = .joinK ∧ s.pk ≠ .done) := by
  unfold tickD at h
  split at h
  · rename_i hp; exact Or.inl hp
  · cases h
  · simp [hl] at h
  · rename_i hp; split at h
    · cases h
    · rename_i hn; exact Or.inr (Or.inr (Or.inr (Or.inl ⟨hp, hn⟩)))
  · rename_i hp; split at h
    · cases h
    · rename_i hn; exact Or.inr (Or.inr (Or.inr (Or.inr (Or.inl ⟨hp, hn⟩))))
  · rename_i hp; split at h
    · cases h
    · rename_i hn; exact Or.inr (Or.inr (Or.inr (Or.inr (Or.inr (Or.inl ⟨hp, hn⟩)))))
  · rename_i hp; split at h
    · cases h
    · rename_i hn; exact Or.inr (Or.inr (Or.inr (Or.inr (Or.inr (Or.inr ⟨hp, hn⟩)))))
  · rename_i hp
    obtain ⟨s', hk⟩ := killLogsSeq_some p1 (hs hp) ht hdc
    rw [hk] at h; cases h
  · cases h
  · rename_i hp; exact Or.inr (Or.inr (Or.inl hp))
  · rename_i hp; exact Or.inr (Or.inl hp)

/-- no committer can take a step: none is about to park, and the parked ones are not notified -/
theorem cms_blocked {s : St} (h : (List.range s.cms.length).all (fun i => (tickCm s i).isNone) = true) :
    qFree s = true ∧ ∀ c ∈ s.cms, c = .idle ∨ ∃ b, c = .parked b false := by
  have hall : ∀ i, i < s.cms.length → tickCm s i = none := by
    intro i hi
    have := List.all_eq_true.1 h i (List.mem_range.2 hi)
    simpa using this
  have hnab : ∀ c ∈ s.cms, c.isAbout = false := by
    intro c hc
    obtain ⟨i, hi, rfl⟩ := List.getElem_of_mem hc
    have := hall i hi
    unfold tickCm at this
    rw [List.getElem?_eq_getElem hi] at this
    cases hci : s.cms[i] with
    | idle => rfl
    | about b => rw [hci] at this; simp at this
    | parked b n => rfl
  have hqf : qFree s = true := by
    unfold qFree
    apply List.all_eq_true.2
    intro c hc; simp [hnab c hc]
  refine ⟨hqf, ?_⟩
  intro c hc
  obtain ⟨i, hi, rfl⟩ := List.getElem_of_mem hc
  have := hall i hi
  unfold tickCm at this
  rw [List.getElem?_eq_getElem hi] at this
  cases hci : s.cms[i] with
  | idle => exact Or.inl rfl
  | about b => rw [hci] at this; simp at this
  | parked b n =>
    cases n with
    | false => exact Or.inr ⟨b, rfl⟩
    | true => rw [hci] at this; simp [hqf] at this

end Pdb.Conc.Pipe
