/-
C04 pipeline, part 2: facts about the tree needed by the pipeline proof that are not in the
update proofs:
  * `nodeGet_spec`: `Node::get` (the descent by `position`) is the lookup in the in-order
    enumeration;
  * `applyOne_del_absent`: removing a key that is not in the tree leaves the TREE (not only
    its enumeration) unchanged - a commit that writes nothing keeps `last_record_id`, and an
    open cursor stays valid.
-/
import Pdb.Proofs.C04TreeOcc

namespace Pdb.C04
variable {V : Type}

theorem lookup_append_left {β : Type} {L R : List (Key × β)} {k : Key} (h : ∀ x ∈ L, x.1 ≠ k) :
    lookup (L ++ R) k = lookup R k := by
  induction L with
  | nil => rfl
  | cons a L ih =>
    obtain ⟨k', b⟩ := a
    have ha : ¬ k' = k := h (k', b) (List.mem_cons.mpr (Or.inl rfl))
    simp only [List.cons_append, lookup, ha, if_false]
    exact ih (fun x hx => h x (List.mem_cons_of_mem _ hx))

theorem lookup_append_right {β : Type} {L R : List (Key × β)} {k : Key} (h : ∀ x ∈ R, x.1 ≠ k) :
    lookup (L ++ R) k = lookup L k := by
  induction L with
  | nil => exact lookup_none.mpr h
  | cons a L ih =>
    obtain ⟨k', b⟩ := a
    simp only [List.cons_append, lookup]
    by_cases ha : k' = k
    · simp only [ha, if_true]
    · simp only [ha, if_false]; exact ih

theorem lookup_middle {β : Type} {L M R : List (Key × β)} {k : Key}
    (hL : ∀ x ∈ L, keyLt x.1 k = true) (hR : ∀ x ∈ R, keyLt k x.1 = true) :
    lookup (L ++ (M ++ R)) k = lookup M k := by
  rw [lookup_append_left (fun x hx => keyLt_ne (hL x hx)),
    lookup_append_right (fun x hx e => keyLt_ne (hR x hx) e.symm)]

/-- a separator of a node is in its enumeration -/
theorem seps_sub_toList (d : Nat) (n : Node V) (hw : WF d n) : ∀ x ∈ n.seps, x ∈ toList d n := by
  cases d with
  | zero => intro x hx; exact hx
  | succ d =>
    intro x hx
    rw [toList_succ]
    have hlen := hw.1
    cases hc : n.children.map (toList d) with
    | nil => simp at hc; rw [hc] at hlen; simp at hlen
    | cons c cs =>
      have hl : n.seps.length ≤ cs.length := by
        have : (n.children.map (toList d)).length = n.seps.length + 1 := by simpa using hlen
        rw [hc] at this; simp at this; omega
      have : n.seps.Sublist (c ++ zipR n.seps cs) :=
        (zipR_sublist _ _ hl).trans (List.sublist_append_right c _)
      exact this.subset hx

/-- `Node::get` is the lookup in the in-order enumeration. -/
theorem nodeGet_spec : ∀ (d : Nat) (n : Node V), WF d n → Sorted (toList d n) → ∀ k,
    nodeGet d n k = lookup (toList d n) k := by
  intro d
  induction d with
  | zero =>
    intro n hw hs k
    have hss : Sorted n.seps := hs
    unfold nodeGet
    cases hp : (position n.seps k).1 with
    | true =>
      obtain ⟨S1, v, S2, e, hl, _, _⟩ := position_true hss hp
      rw [if_pos hp]
      have hm : (k, v) ∈ toList 0 n := by show (k, v) ∈ n.seps; rw [e]; simp
      rw [(mem_iff_lookup hs k v).mp hm, ← hl, e]
      simp
    | false =>
      obtain ⟨S1, S2, e, _, h1, h2⟩ := position_false hss hp
      rw [if_neg (by rw [hp]; decide)]
      symm
      apply lookup_none.mpr
      intro x hx
      have hx' : x ∈ S1 ++ S2 := by rw [← e]; exact hx
      rcases List.mem_append.mp hx' with h | h
      · exact keyLt_ne (h1 x h)
      · exact fun e' => keyLt_ne (h2 x h) e'.symm
  | succ d ih =>
    intro n hw hs k
    have hss : Sorted n.seps := seps_sorted hw.1 hs
    unfold nodeGet
    cases hp : (position n.seps k).1 with
    | true =>
      obtain ⟨S1, v, S2, e, hl, _, _⟩ := position_true hss hp
      rw [if_pos hp]
      have hm : (k, v) ∈ toList (d + 1) n := seps_sub_toList (d + 1) n hw _ (by rw [e]; simp)
      rw [(mem_iff_lookup hs k v).mp hm, ← hl, e]
      simp
    | false =>
      obtain ⟨S1, S2, e, hl, h1, h2⟩ := position_false hss hp
      rw [if_neg (by rw [hp]; decide)]
      have hlen : n.children.length = (S1.length + S2.length) + 1 := by
        rw [hw.1, e]; simp
      obtain ⟨A, c, B, ec, hA, _⟩ := split_children hlen (Nat.le_add_right S1.length S2.length)
      have hget : n.children[(position n.seps k).2]? = some c := by
        rw [ec, ← hl]; exact getElem?_mid hA
      rw [hget]
      simp only
      have hn : n = .mk (S1 ++ S2) (A ++ c :: B) := by rw [← e, ← ec]; exact Node.eta n
      have htl : toList (d + 1) n =
          zipL (A.map (toList d)) S1 ++ (toList d c ++ zipR S2 (B.map (toList d))) := by
        rw [hn]; exact toList_node d A c B S1 S2 hA
      rw [htl] at hs ⊢
      have hcw : WF d c := hw.2 c (by rw [ec]; simp)
      have hcs : Sorted (toList d c) := (sorted_append.mp (sorted_append.mp hs).2.1).1
      rw [lookup_middle (zipL_lt hs h1) (zipR_gt (sorted_append.mp (sorted_append.mp hs).2.1).2.1 h2)]
      exact ih c hcw hcs k

theorem Tree.get_spec (t : Tree V) (h : treeInvB t = true) (k : Key) :
    nodeGet t.depth t.root k = lookup t.toList k := by
  obtain ⟨hw, _⟩ := (treeInvB_iff t).mp h
  exact nodeGet_spec t.depth t.root hw.1 hw.2 k

/-! ### removing an absent key -/

theorem set_self {α : Type} {A : List α} {c : α} {B : List α} {i : Nat} (h : A.length = i) :
    (A ++ c :: B).set i c = A ++ c :: B := set_mid h

theorem change_del_absent : ∀ (d : Nat) (n : Node V), WF d n → Sorted (toList d n) → ∀ k,
    lookup (toList d n) k = none → change d n (.del k) = (n, .ok) := by
  intro d
  induction d with
  | zero =>
    intro n hw hs k hk
    have hss : Sorted n.seps := hs
    have hp : (position n.seps k).1 = false := by
      cases hp : (position n.seps k).1 with
      | false => rfl
      | true =>
        obtain ⟨S1, v, S2, e, _, _, _⟩ := position_true hss hp
        have hm : (k, v) ∈ toList 0 n := by show (k, v) ∈ n.seps; rw [e]; simp
        rw [(mem_iff_lookup hs k v).mp hm] at hk
        cases hk
    unfold change
    simp only [Op.key, hp]
  | succ d ih =>
    intro n hw hs k hk
    have hss : Sorted n.seps := seps_sorted hw.1 hs
    have hp : (position n.seps k).1 = false := by
      cases hp : (position n.seps k).1 with
      | false => rfl
      | true =>
        obtain ⟨S1, v, S2, e, _, _, _⟩ := position_true hss hp
        have hm : (k, v) ∈ toList (d + 1) n := seps_sub_toList (d + 1) n hw _ (by rw [e]; simp)
        rw [(mem_iff_lookup hs k v).mp hm] at hk
        cases hk
    obtain ⟨S1, S2, e, hl, h1, h2⟩ := position_false hss hp
    have hlen : n.children.length = (S1.length + S2.length) + 1 := by
      rw [hw.1, e]; simp
    obtain ⟨A, c, B, ec, hA, _⟩ := split_children hlen (Nat.le_add_right S1.length S2.length)
    have hget : n.children[(position n.seps k).2]? = some c := by
      rw [ec, ← hl]; exact getElem?_mid hA
    have hn : n = .mk (S1 ++ S2) (A ++ c :: B) := by rw [← e, ← ec]; exact Node.eta n
    have htl : toList (d + 1) n =
        zipL (A.map (toList d)) S1 ++ (toList d c ++ zipR S2 (B.map (toList d))) := by
      rw [hn]; exact toList_node d A c B S1 S2 hA
    rw [htl] at hs hk
    have hcw : WF d c := hw.2 c (by rw [ec]; simp)
    have hcs : Sorted (toList d c) := (sorted_append.mp (sorted_append.mp hs).2.1).1
    rw [lookup_middle (zipL_lt hs h1) (zipR_gt (sorted_append.mp (sorted_append.mp hs).2.1).2.1 h2)] at hk
    have hc := ih c hcw hcs k hk
    unfold change
    simp only [Op.key, hp, hget, hc, afterChild]
    have : n.children.set (position n.seps k).2 c = n.children := by
      rw [ec, ← hl]; exact set_self hA
    rw [this]
    exact congrArg (fun x => (x, Res.ok)) (Node.eta n).symm

/-- Removing a key that is not in the tree returns the same tree. -/
theorem applyOne_del_absent (t : Tree V) (h : treeInvB t = true) (k : Key)
    (hk : lookup t.toList k = none) : applyOne t (.del k) = (t, true) := by
  obtain ⟨hw, _⟩ := (treeInvB_iff t).mp h
  unfold applyOne
  rw [change_del_absent t.depth t.root hw.1 hw.2 k hk]

end Pdb.C04
