/-
C04 pipeline, part 8: the driver interleaves `c04b cursor ..` lines (the run-time check of the
stack cursor on DUMPED real trees, `Drv.cursor`) with the pipeline actions.  Those lines only touch
the fields `real` / `rit`, which `Drv.act` never reads: the answers of the actions are the same
with or without them (`act_core`, `cursor_core`), so the pipeline theorems speak about the driver's
runs.
-/
import Pdb.Model.BTreePipe

namespace Pdb.C04

/-- the state without the run-time check fields -/
def Drv.core (s : Drv) : Drv := { s with real := Tree.empty, rit := IterCSt.new 0 }

theorem processPlain_core (s : Drv) : s.processPlain.core = s.core.processPlain := by
  unfold Drv.processPlain
  show (match s.queue with
        | [] => s
        | (id, ops) :: q => _).core = (match s.queue with
        | [] => s.core
        | (id, ops) :: q => _)
  cases s.queue with
  | nil => rfl
  | cons e q => obtain ⟨id, ops⟩ := e; rfl

theorem processRc_core (s : Drv) : s.processRc.core = s.core.processRc := by
  unfold Drv.processRc
  show (match s.queueR with
        | [] => s
        | (id, ops) :: q => _).core = (match s.queueR with
        | [] => s.core
        | (id, ops) :: q => _)
  cases s.queueR with
  | nil => rfl
  | cons e q => obtain ⟨id, ops⟩ := e; rfl

theorem process_core (s : Drv) : s.process.core = s.core.process := by
  unfold Drv.process
  show (if s.rc = true then s.processRc else s.processPlain).core =
    (if s.rc = true then s.core.processRc else s.core.processPlain)
  cases s.rc with
  | true => exact processRc_core s
  | false => exact processPlain_core s

theorem processAll_core : ∀ (n : Nat) (s : Drv),
    (Drv.processAll n s).core = Drv.processAll n s.core
  | 0, _ => rfl
  | n + 1, s => by
    rw [Drv.processAll, Drv.processAll, processAll_core n, process_core]

theorem reopen_core (s : Drv) : s.reopen.core = s.core.reopen := by
  unfold Drv.reopen
  show ({ Drv.processAll (s.queue.length + s.queueR.length) s with
            rid := 0, nextId := 0, overlay := [], it := IterCSt.new 0, rit := IterCSt.new 0 } : Drv).core =
    { Drv.processAll (s.queue.length + s.queueR.length) s.core with
            rid := 0, nextId := 0, overlay := [], it := IterCSt.new 0, rit := IterCSt.new 0 }
  rw [← processAll_core]
  rfl

/-- An action does not read the run-time check fields. -/
theorem act_core (s : Drv) (a : PAct) :
    (s.act a).1.core = (s.core.act a).1 ∧ (s.act a).2 = (s.core.act a).2 := by
  cases a with
  | commit ops =>
    simp only [Drv.act]
    show ((if s.rc = true then s.commitRc (ops.map toROp) else s.commitPlain ops).core =
      (if s.rc = true then s.core.commitRc (ops.map toROp) else s.core.commitPlain ops)) ∧ _
    cases s.rc <;> exact ⟨rfl, trivial⟩
  | commitRc ops =>
    show ((if s.rc = true then (s.commitRc ops, PAns.ok)
            else if ops.any isRef = true then (s, PAns.rejected)
            else (s.commitPlain (ops.map ofROp), PAns.ok)).1.core =
          (if s.rc = true then (s.core.commitRc ops, PAns.ok)
            else if ops.any isRef = true then (s.core, PAns.rejected)
            else (s.core.commitPlain (ops.map ofROp), PAns.ok)).1) ∧
         ((if s.rc = true then (s.commitRc ops, PAns.ok)
            else if ops.any isRef = true then (s, PAns.rejected)
            else (s.commitPlain (ops.map ofROp), PAns.ok)).2 =
          (if s.rc = true then (s.core.commitRc ops, PAns.ok)
            else if ops.any isRef = true then (s.core, PAns.rejected)
            else (s.core.commitPlain (ops.map ofROp), PAns.ok)).2)
    cases s.rc with
    | true => exact ⟨rfl, rfl⟩
    | false => cases ops.any isRef <;> exact ⟨rfl, rfl⟩
  | process => exact ⟨process_core s, rfl⟩
  | flush => exact ⟨rfl, rfl⟩
  | enact => exact ⟨rfl, rfl⟩
  | clean => exact ⟨rfl, rfl⟩
  | reopen => exact ⟨reopen_core s, rfl⟩
  | get k => exact ⟨rfl, rfl⟩
  | iterNew => exact ⟨rfl, rfl⟩
  | call c => exact ⟨rfl, rfl⟩

/-- A `c04b cursor ..` line changes nothing an action can see. -/
theorem cursor_core (s : Drv) (ws : List String) : (s.cursor ws).1.core = s.core := by
  unfold Drv.cursor
  split
  · split <;> rfl
  · rfl
  · split <;> rfl

end Pdb.C04
