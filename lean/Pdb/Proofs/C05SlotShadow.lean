/-
Slot-level Shadow invariant: (log overlay over files) is a function of the published records
only.  Independent of the reader discipline and of the planner (any list of location writes may
be published); needs the exact `end_read`.
-/
import Pdb.Proofs.C05SlotBase

set_option linter.unusedSectionVars false
set_option linter.unusedSimpArgs false
set_option linter.unusedVariables false
namespace Pdb
namespace CSlot
variable {K V : Type} [DecidableEq K]

def SAct.isReader : SAct K V → Bool
  | .rBegin _ _ | .rOverlay _ | .rIdxLog _ | .rIdxFile _ | .rValLog _ | .rValFile _ | .rEnd _ => true
  | _ => false

/-- Everything but the reader registers and the list of completed reads is unchanged. -/
structure SameCore (s s' : SSt K V) : Prop where
  nextId : s'.nextId = s.nextId
  overlay : s'.overlay = s.overlay
  queue : s'.queue = s.queue
  inflight : s'.inflight = s.inflight
  logged : s'.logged = s.logged
  flushed : s'.flushed = s.flushed
  enactPos : s'.enactPos = s.enactPos
  files : s'.files = s.files
  alloc : s'.alloc = s.alloc
  nextRec : s'.nextRec = s.nextRec
  pub : s'.pub = s.pub
  npub : s'.npub = s.npub
  hist : s'.hist = s.hist

theorem SameCore.refl (s : SSt K V) : SameCore s s := by constructor <;> rfl

theorem sameCore_setReader (s : SSt K V) (t : Nat) (pc : RPc K V) :
    SameCore s (setReader s t pc) := by constructor <;> rfl

theorem sameCore_reader (cfg : Cfg) (tier : V → Nat) (chunkOf : K → Nat) (N : Nat) (s : SSt K V)
    (a : SAct K V) (ha : a.isReader = true) : SameCore s (sstep cfg tier chunkOf N s a) := by
  cases a <;> simp only [SAct.isReader, Bool.false_eq_true] at ha <;> simp only [sstep] <;>
    repeat' split
  all_goals (constructor <;> rfl)

/-- first writes of the oldest logged record (the one being enacted) -/
def headWrites (l : List (SRec K V)) : List (Loc K V) :=
  match l with
  | r :: _ => r.writes
  | [] => []

structure ShInv (s : SSt K V) : Prop where
  view : ∀ {C : Type} (σ : Sel K V C), (ovBy σ.sel s.logged).getD (σ.rd s.files) = σ.rd s.pub
  enacted : ∀ {C : Type} (σ : Sel K V C) (x : C),
    lastBy σ.sel ((headWrites s.logged).take s.enactPos) = some x → σ.rd s.files = x
  posFl : s.flushed = 0 → s.enactPos = 0
  fl : s.flushed ≤ s.logged.length

theorem ShInv.init : ShInv (SSt.init : SSt K V) := by
  constructor
  · intro C σ; simp [SSt.init, ovBy]
  · intro C σ x h; simp [SSt.init, headWrites, lastBy] at h
  · intro _; rfl
  · simp [SSt.init]

theorem ShInv.congr {s s' : SSt K V} (hc : SameCore s s') (h : ShInv s) : ShInv s' := by
  constructor
  · intro C σ; rw [hc.logged, hc.files, hc.pub]; exact h.view σ
  · intro C σ x; rw [hc.logged, hc.files, hc.enactPos]; exact h.enacted σ x
  · rw [hc.flushed, hc.enactPos]; exact h.posFl
  · rw [hc.flushed, hc.logged]; exact h.fl

theorem ShInv.congr5 {s s' : SSt K V} (h1 : s'.logged = s.logged) (h2 : s'.files = s.files)
    (h3 : s'.pub = s.pub) (h4 : s'.flushed = s.flushed) (h5 : s'.enactPos = s.enactPos)
    (h : ShInv s) : ShInv s' := by
  constructor
  · intro C σ; rw [h1, h2, h3]; exact h.view σ
  · intro C σ x; rw [h1, h2, h5]; exact h.enacted σ x
  · rw [h4, h5]; exact h.posFl
  · rw [h4, h1]; exact h.fl

theorem ShInv.pos0 {s : SSt K V} (h : ShInv s) (hl : s.logged = []) : s.enactPos = 0 := by
  apply h.posFl
  have := h.fl
  rw [hl] at this
  simpa using this

/-- Publishing ANY list of location writes keeps the view in step with `pub`. -/
theorem ShInv.publish {s : SSt K V} (h : ShInv s) (id : Nat) (ws : List (Loc K V))
    (s' : SSt K V) (hl : s'.logged = s.logged ++ [{ id := id, writes := ws }])
    (hp : s'.pub = applyLocs s.pub ws) (hf : s'.files = s.files) (hfl : s'.flushed = s.flushed)
    (he : s'.enactPos = s.enactPos) : ShInv s' := by
  constructor
  · intro C σ
    rw [hl, hp, hf, ovBy_snoc, applyLocs_rd]
    cases hw : lastBy σ.sel ws with
    | some x => simp
    | none => simpa using h.view σ
  · intro C σ x hx
    rw [hl, he] at hx
    rw [hf]
    cases hlog : s.logged with
    | nil =>
      rw [h.pos0 hlog] at hx
      simp [lastBy] at hx
    | cons r rs =>
      rw [hlog] at hx
      apply h.enacted σ x
      rw [hlog]
      exact hx
  · rw [hfl, he]; exact h.posFl
  · rw [hfl, hl]
    have := h.fl
    simp only [List.length_append, List.length_cons, List.length_nil]
    omega

theorem ShInv.flush {s : SSt K V} (h : ShInv s) :
    ShInv ({ s with flushed := s.logged.length } : SSt K V) := by
  constructor
  · exact h.view
  · exact h.enacted
  · intro hz
    simp only at hz
    apply h.posFl
    have := h.fl
    omega
  · simp

theorem ShInv.enactWrite {s : SSt K V} (h : ShInv s) (r : SRec K V) (rs : List (SRec K V))
    (w : Loc K V) (f : Nat) (hf : s.flushed = f + 1) (hl : s.logged = r :: rs)
    (hw : r.writes[s.enactPos]? = some w) :
    ShInv ({ s with files := s.files.apply w, enactPos := s.enactPos + 1 } : SSt K V) := by
  have hmem : w ∈ r.writes := List.mem_of_getElem? hw
  constructor
  · intro C σ
    simp only
    rw [σ.law]
    cases hs : σ.sel w with
    | none => simpa using h.view σ
    | some y =>
      have hne : lastBy σ.sel r.writes ≠ none := by
        intro hn
        have := (lastBy_none_iff σ.sel r.writes).mp hn w hmem
        rw [hs] at this
        exact absurd this (by simp)
      have hv := h.view σ
      rw [hl] at hv ⊢
      simp only [ovBy] at hv ⊢
      cases ho : ovBy σ.sel rs with
      | some z => rw [ho] at hv; simpa using hv
      | none =>
        rw [ho] at hv
        cases hb : lastBy σ.sel r.writes with
        | none => exact absurd hb hne
        | some z => rw [hb] at hv; simpa using hv
  · intro C σ x hx
    simp only at hx ⊢
    rw [hl] at hx
    simp only [headWrites] at hx
    rw [List.take_add_one, hw, lastBy_append] at hx
    rw [σ.law]
    simp only [Option.toList_some, lastBy] at hx
    cases hs : σ.sel w with
    | some y =>
      rw [hs] at hx
      simp at hx
      simp [hx]
    | none =>
      rw [hs] at hx
      simp only [Option.getD_none]
      apply h.enacted σ x
      rw [hl]
      simpa [headWrites] using hx
  · intro hz
    simp only at hz
    omega
  · exact h.fl

theorem ShInv.endRead {s : SSt K V} (h : ShInv s) (r : SRec K V) (rs : List (SRec K V)) (f : Nat)
    (hl : s.logged = r :: rs) (hf : s.flushed = f + 1) (hp : s.enactPos = r.writes.length) :
    ShInv ({ s with logged := rs, flushed := f, enactPos := 0 } : SSt K V) := by
  constructor
  · intro C σ
    simp only
    have hv := h.view σ
    rw [hl] at hv
    simp only [ovBy] at hv
    cases ho : ovBy σ.sel rs with
    | some z => rw [ho] at hv; simpa using hv
    | none =>
      rw [ho] at hv
      cases hb : lastBy σ.sel r.writes with
      | none => rw [hb] at hv; simpa using hv
      | some z =>
        rw [hb] at hv
        simp only [Option.none_or, Option.getD_some] at hv
        simp only [Option.getD_none]
        rw [← hv]
        apply h.enacted σ z
        rw [hl, hp]
        simpa [headWrites] using hb
  · intro C σ x hx
    simp [lastBy] at hx
  · intro _; rfl
  · have := h.fl
    rw [hl, hf] at this
    simp only [List.length_cons] at this
    simp only
    omega

theorem ShInv.step {cfg : Cfg} (hx : cfg.exactEnd = true) (tier : V → Nat) (chunkOf : K → Nat)
    (N : Nat) {s : SSt K V} (h : ShInv s) (a : SAct K V) :
    ShInv (sstep cfg tier chunkOf N s a) := by
  by_cases hr : a.isReader = true
  · exact h.congr (sameCore_reader cfg tier chunkOf N s a hr)
  · cases a with
    | commit tx =>
      simp only [sstep]
      split
      · exact h
      · split
        · exact h
        · exact ShInv.congr5 (s := s) rfl rfl rfl rfl rfl h
    | pop =>
      simp only [sstep]
      split
      · exact ShInv.congr5 (s := s) rfl rfl rfl rfl rfl h
      · exact h
    | publish =>
      simp only [sstep]
      split
      · exact h.publish _ _ _ rfl rfl rfl rfl rfl
      · exact h
    | cleanOverlay =>
      simp only [sstep]
      split
      · exact h
      · split
        · exact ShInv.congr5 (s := s) rfl rfl rfl rfl rfl h
        · exact h
    | flush => exact h.flush
    | enactWrite =>
      simp only [sstep]
      split
      · rename_i f r rs hf hl
        split
        · rename_i w hw
          exact h.enactWrite r rs w f hf hl hw
        · exact h
      · exact h
    | endRead =>
      simp only [sstep]
      split
      · rename_i f r rs hf hl
        split
        · rename_i hp
          simp only [dropEnded, hx, if_true]
          exact h.endRead r rs f hl hf hp
        · exact h
      · exact h
    | _ => simp [SAct.isReader] at hr

theorem ShInv.run {cfg : Cfg} (hx : cfg.exactEnd = true) (tier : V → Nat) (chunkOf : K → Nat)
    (N : Nat) {s : SSt K V} (h : ShInv s) (as : List (SAct K V)) :
    ShInv (srun cfg tier chunkOf N s as) := by
  induction as generalizing s with
  | nil => exact h
  | cons a as ih => exact ih (h.step hx tier chunkOf N a)

/-- The view as a `PV` equals the ghost image of the published records. -/
theorem ShInv.sview_eq {s : SSt K V} (h : ShInv s) : sview s = s.pub := by
  apply PV.ext'
  · intro c; exact h.view (chunkSel c)
  · intro a; exact h.view (slotSel a)

end CSlot
end Pdb
