/-
Refinement: every whole operation of the executable machine `Pdb.LockDir` is a run of the
interleaving model `Pdb.Conc.Lock` (Pdb/Model/Conc.lean) executing the generated programs.
-/
import Pdb.Proofs.C18Exec
import Pdb.Proofs.C18

namespace Pdb.LockDir
open Pdb.Gen.Order
open Pdb.Conc.Lock (Th Phase Act setTh exec release genProg)

abbrev MSt := Pdb.Conc.Lock.St

/-- thread of the interleaving model that stands for a handle -/
def tid (h : Handle) : Nat := h.1 * 256 + h.2.val
/-- process of a thread -/
def pidOf (t : Nat) : Nat := t / 256
def hOf (t : Nat) : Handle := (t / 256, ⟨t % 256, Nat.mod_lt _ (by decide)⟩)

theorem hOf_tid (h : Handle) : hOf (tid h) = h := by
  obtain ⟨p, sl, hsl⟩ := h
  simp only [hOf, tid]
  have h1 : (p * 256 + sl) / 256 = p := by omega
  have h2 : (p * 256 + sl) % 256 = sl := by omega
  simp [h1, h2]

theorem tid_hOf (t : Nat) : tid (hOf t) = t := by
  simp only [hOf, tid]; omega

theorem pidOf_tid (h : Handle) : pidOf (tid h) = h.1 := by
  have := hOf_tid h
  simp only [hOf] at this
  exact congrArg Prod.fst this

theorem hOf_eq_iff (u : Nat) (h : Handle) : hOf u = h ↔ u = tid h := by
  constructor
  · intro e; rw [← e, tid_hOf]
  · intro e; rw [e, hOf_tid]

/-- the thread state a LockDir state assigns to thread `t` -/
def thOf (s : St) (t : Nat) : Th :=
  if s.dead.contains (pidOf t) then { phase := .dead, holds := false }
  else if s.live.contains (hOf t) then { phase := .live, holds := true }
  else { phase := .idle, holds := false }

/-- Abstraction relation (content counter and ghost of the interleaving model are not related:
    LockDir tracks the actual content). -/
structure Rel (a : MSt) (s : St) : Prop where
  th : ∀ t, a.th t = thOf s t
  holder : a.holder = s.holder.map tid
  dir : a.dirExists = s.dirExists
  lock : a.lockFile = s.lockFile

theorem rel_init : Rel Conc.Lock.init init := by
  constructor <;> simp [Conc.Lock.init, init, thOf]

/-- Only these fields matter. -/
theorem rel_congr {a : MSt} {s s' : St} (h : Rel a s) (h1 : s'.dead = s.dead) (h2 : s'.live = s.live)
    (h3 : s'.holder = s.holder) (h4 : s'.dirExists = s.dirExists) (h5 : s'.lockFile = s.lockFile) :
    Rel a s' := by
  obtain ⟨a1, a2, a3, a4⟩ := h
  refine ⟨?_, by rw [h3]; exact a2, by rw [h4]; exact a3, by rw [h5]; exact a4⟩
  intro t; rw [a1 t]; simp only [thOf, h1, h2]

abbrev mrun := Conc.Lock.run genProg pidOf

/-- running thread `t` alone for `n` steps -/
def solo (t n : Nat) : List Act := List.replicate n (.run t)

theorem mrun_append : ∀ (l1 l2 : List Act) (x y : MSt), mrun x l1 = some y →
    mrun x (l1 ++ l2) = mrun y l2 := by
  intro l1
  induction l1 with
  | nil => intro l2 x y hxy; simp [Conc.Lock.run] at hxy; subst hxy; rfl
  | cons a l ih =>
    intro l2 x y hxy
    simp only [Conc.Lock.run, List.cons_append] at hxy ⊢
    cases hst : Conc.Lock.step genProg pidOf x a with
    | none => rw [hst] at hxy; cases hxy
    | some z => rw [hst] at hxy; exact ih l2 z y hxy

/-- markers whose execution changes only the thread's own program counter (and the content
    counter / ghost) -/
def plain (m : Marker) : Bool :=
  m != .tryLock && m != .unlockFile && m != .createDirAll && m != .createLockFile

theorem exec_plain_fields (a : MSt) (t : Nat) (m : Marker) (r : List Marker) (k : List Marker → Phase)
    (hp : plain m = true) :
    (exec a t m r k).th = (fun u => if u = t then { (a.th t) with phase := k r } else a.th u) ∧
    (exec a t m r k).holder = a.holder ∧ (exec a t m r k).dirExists = a.dirExists ∧
    (exec a t m r k).lockFile = a.lockFile := by
  simp only [plain, Bool.and_eq_true, bne_iff_ne, ne_eq] at hp
  obtain ⟨⟨⟨h1, h2⟩, h3⟩, h4⟩ := hp
  have e1 : (m == Marker.tryLock) = false := by simpa using h1
  have e2 : (m == Marker.unlockFile) = false := by simpa using h2
  have e3 : (m == Marker.createDirAll) = false := by simpa using h3
  have e4 : (m == Marker.createLockFile) = false := by simpa using h4
  unfold exec
  simp only [e1, e2, e3, e4, Bool.false_eq_true, if_false]
  split <;> simp [setTh]

/-- running `t` alone through plain markers of an open -/
theorem solo_plain_open (t : Nat) : ∀ (r : List Marker) (a : MSt),
    (a.th t).phase = .opening r → r.all plain = true →
    ∃ a', mrun a (solo t r.length) = some a' ∧
      a'.th = (fun u => if u = t then { (a.th t) with phase := .opening [] } else a.th u) ∧
      a'.holder = a.holder ∧ a'.dirExists = a.dirExists ∧ a'.lockFile = a.lockFile
  | [], a, hp, _ => by
    refine ⟨a, rfl, ?_, rfl, rfl, rfl⟩
    funext u
    by_cases hu : u = t
    · subst hu; simp; rw [← hp]
    · simp [hu]
  | m :: r, a, hp, hall => by
    simp only [List.all_cons, Bool.and_eq_true] at hall
    obtain ⟨e1, e2, e3, e4⟩ := exec_plain_fields a t m r .opening hall.1
    obtain ⟨a', h1, h2, h3, h4, h5⟩ := solo_plain_open t r (exec a t m r .opening) (by rw [e1]; simp) hall.2
    refine ⟨a', ?_, ?_, by rw [h3, e2], by rw [h4, e3], by rw [h5, e4]⟩
    · have : solo t (m :: r).length = .run t :: solo t r.length := by
        simp [solo, List.replicate_succ]
      rw [this]
      simp only [Conc.Lock.run, Conc.Lock.step, hp]
      exact h1
    · rw [h2, e1]
      funext u
      by_cases hu : u = t <;> simp [hu]

/-- the same for a drop -/
theorem solo_plain_drop (t : Nat) : ∀ (r rest : List Marker) (a : MSt),
    (a.th t).phase = .dropping (r ++ rest) → r.all plain = true →
    ∃ a', mrun a (solo t r.length) = some a' ∧
      a'.th = (fun u => if u = t then { (a.th t) with phase := .dropping rest } else a.th u) ∧
      a'.holder = a.holder ∧ a'.dirExists = a.dirExists ∧ a'.lockFile = a.lockFile
  | [], rest, a, hp, _ => by
    refine ⟨a, rfl, ?_, rfl, rfl, rfl⟩
    funext u
    by_cases hu : u = t
    · subst hu; simp at hp ⊢; rw [← hp]
    · simp [hu]
  | m :: r, rest, a, hp, hall => by
    simp only [List.all_cons, Bool.and_eq_true] at hall
    obtain ⟨e1, e2, e3, e4⟩ := exec_plain_fields a t m (r ++ rest) .dropping hall.1
    obtain ⟨a', h1, h2, h3, h4, h5⟩ := solo_plain_drop t r rest (exec a t m (r ++ rest) .dropping)
      (by rw [e1]; simp) hall.2
    refine ⟨a', ?_, ?_, by rw [h3, e2], by rw [h4, e3], by rw [h5, e4]⟩
    · have : solo t (m :: r).length = .run t :: solo t r.length := by
        simp [solo, List.replicate_succ]
      rw [this]
      simp only [List.cons_append] at hp
      simp only [Conc.Lock.run, Conc.Lock.step, hp]
      exact h1
    · rw [h2, e1]
      funext u
      by_cases hu : u = t <;> simp [hu]

def openPost : List Marker := genProg.openP.drop 5

theorem openP_split : genProg.openP =
    .createDirAll :: .isDirCheck :: .metadataExists :: .createLockFile :: .tryLock :: openPost := by decide

theorem openPost_plain : openPost.all plain = true := by decide

theorem openPost_length : openPost.length = 18 := by decide

/-- `start` + the five steps up to and including `tryLock` of an idle thread -/
theorem model_open_prefix (a : MSt) (t : Nat) (hidle : a.th t = { phase := .idle, holds := false }) :
    ∃ a5, mrun a (.start t :: solo t 5) = some a5 ∧
      a5.th = (fun u => if u = t then
        (if a.holder.isSome then { phase := .idle, holds := false }
         else { phase := .opening openPost, holds := true }) else a.th u) ∧
      a5.holder = (if a.holder.isSome then a.holder else some t) ∧
      a5.dirExists = true ∧ a5.lockFile = true := by
  have key : ∀ r, mrun a (.start t :: solo t 5) = r → ∃ a5, r = some a5 ∧
      a5.th = (fun u => if u = t then
        (if a.holder.isSome then { phase := .idle, holds := false }
         else { phase := .opening openPost, holds := true }) else a.th u) ∧
      a5.holder = (if a.holder.isSome then a.holder else some t) ∧
      a5.dirExists = true ∧ a5.lockFile = true := by
    intro r hr
    cases hh : a.holder with
    | none =>
      simp [mrun, Conc.Lock.run, Conc.Lock.step, solo, List.replicate, openP_split, hidle, exec, setTh,
        Conc.Lock.isFree, hh] at hr
      subst hr
      refine ⟨_, rfl, ?_, ?_, ?_, ?_⟩ <;> simp
      all_goals (funext u; by_cases hu : u = t <;> simp [hu])
    | some x =>
      simp [mrun, Conc.Lock.run, Conc.Lock.step, solo, List.replicate, openP_split, hidle, exec, setTh,
        Conc.Lock.isFree, hh] at hr
      subst hr
      refine ⟨_, rfl, ?_, ?_, ?_, ?_⟩ <;> simp
      all_goals (funext u; by_cases hu : u = t <;> simp [hu])
  obtain ⟨a5, h1, h2⟩ := key _ rfl
  exact ⟨a5, h1, h2⟩

/-- an open that returns before its first marker had any effect (`DatabaseNotFound`) -/
theorem model_open_notfound (a : MSt) (t : Nat) (hidle : a.th t = { phase := .idle, holds := false }) :
    ∃ a', mrun a [.start t, .failOpen t] = some a' ∧ a'.th = a.th ∧ a'.holder = a.holder ∧
      a'.dirExists = a.dirExists ∧ a'.lockFile = a.lockFile := by
  have key : ∀ r, mrun a [.start t, .failOpen t] = r → ∃ a', r = some a' ∧ a'.th = a.th ∧
      a'.holder = a.holder ∧ a'.dirExists = a.dirExists ∧ a'.lockFile = a.lockFile := by
    intro r hr
    simp [mrun, Conc.Lock.run, Conc.Lock.step, hidle, release, setTh] at hr
    subst hr
    refine ⟨_, rfl, ?_, ?_, ?_, ?_⟩ <;> simp
    funext u; by_cases hu : u = t <;> simp [hu, hidle]
  obtain ⟨a', h1, h2⟩ := key _ rfl
  exact ⟨a', h1, h2⟩

/-- an open that fails after it took the lock (metadata rejected): the lock file is closed -/
theorem model_failOpen_holder (a : MSt) (t : Nat) (r : List Marker)
    (hth : a.th t = { phase := .opening r, holds := true }) :
    ∃ a', mrun a [.failOpen t] = some a' ∧
      a'.th = (fun u => if u = t then { phase := .idle, holds := false } else a.th u) ∧
      a'.holder = none ∧ a'.dirExists = a.dirExists ∧ a'.lockFile = a.lockFile := by
  have key : ∀ x, mrun a [.failOpen t] = x → ∃ a', x = some a' ∧
      a'.th = (fun u => if u = t then { phase := .idle, holds := false } else a.th u) ∧
      a'.holder = none ∧ a'.dirExists = a.dirExists ∧ a'.lockFile = a.lockFile := by
    intro x hx
    simp [mrun, Conc.Lock.run, Conc.Lock.step, hth, release, setTh] at hx
    subst hx
    refine ⟨_, rfl, ?_, ?_, ?_, ?_⟩ <;> simp
  obtain ⟨a', h1, h2⟩ := key _ rfl
  exact ⟨a', h1, h2⟩

/-- the rest of a successful open -/
theorem model_open_finish (a : MSt) (t : Nat)
    (hth : a.th t = { phase := .opening openPost, holds := true }) :
    ∃ a', mrun a (solo t 18 ++ [.run t]) = some a' ∧
      a'.th = (fun u => if u = t then { phase := .live, holds := true } else a.th u) ∧
      a'.holder = a.holder ∧ a'.dirExists = a.dirExists ∧ a'.lockFile = a.lockFile := by
  obtain ⟨a1, h1, h2, h3, h4, h5⟩ := solo_plain_open t openPost a (by rw [hth]) openPost_plain
  rw [openPost_length] at h1
  have hth1 : a1.th t = { phase := .opening [], holds := true } := by rw [h2]; simp [hth]
  have key : ∀ x, mrun a1 [.run t] = x → ∃ a', x = some a' ∧
      a'.th = (fun u => if u = t then { phase := .live, holds := true } else a1.th u) ∧
      a'.holder = a1.holder ∧ a'.dirExists = a1.dirExists ∧ a'.lockFile = a1.lockFile := by
    intro x hx
    simp [mrun, Conc.Lock.run, Conc.Lock.step, hth1, setTh] at hx
    subst hx
    refine ⟨_, rfl, ?_, ?_, ?_, ?_⟩ <;> simp
  obtain ⟨a', g1, g2, g3, g4, g5⟩ := key _ rfl
  refine ⟨a', ?_, ?_, by rw [g3, h3], by rw [g4, h4], by rw [g5, h5]⟩
  · rw [mrun_append _ _ _ _ h1]; exact g1
  · rw [g2, h2]; funext u; by_cases hu : u = t <;> simp [hu]

def dropPre : List Marker := genProg.dropP.take 6

theorem dropP_split : genProg.dropP = dropPre ++ [.unlockFile] := by decide
theorem dropPre_plain : dropPre.all plain = true := by decide
theorem dropPre_length : dropPre.length = 6 := by decide

/-- a whole drop of the live handle -/
theorem model_drop (a : MSt) (t : Nat) (hth : a.th t = { phase := .live, holds := true }) :
    ∃ a', mrun a (.drop t :: (solo t 6 ++ [.run t, .run t])) = some a' ∧
      a'.th = (fun u => if u = t then { phase := .idle, holds := false } else a.th u) ∧
      a'.holder = none ∧ a'.dirExists = a.dirExists ∧ a'.lockFile = a.lockFile := by
  let a0 : MSt := setTh a t { (a.th t) with phase := .dropping genProg.dropP }
  have h0 : mrun a (.drop t :: (solo t 6 ++ [.run t, .run t])) = mrun a0 (solo t 6 ++ [.run t, .run t]) := by
    simp [mrun, Conc.Lock.run, Conc.Lock.step, hth, a0]
  have hth0 : a0.th t = { phase := .dropping (dropPre ++ [.unlockFile]), holds := true } := by
    simp [a0, setTh, hth, dropP_split]
  obtain ⟨a1, h1, h2, h3, h4, h5⟩ := solo_plain_drop t dropPre [.unlockFile] a0 (by rw [hth0]) dropPre_plain
  rw [dropPre_length] at h1
  have hth1 : a1.th t = { phase := .dropping [.unlockFile], holds := true } := by rw [h2]; simp [hth0]
  have key : ∀ x, mrun a1 [.run t, .run t] = x → ∃ a', x = some a' ∧
      a'.th = (fun u => if u = t then { phase := .idle, holds := false } else a1.th u) ∧
      a'.holder = none ∧ a'.dirExists = a1.dirExists ∧ a'.lockFile = a1.lockFile := by
    intro x hx
    simp [mrun, Conc.Lock.run, Conc.Lock.step, hth1, setTh, exec, release] at hx
    subst hx
    refine ⟨_, rfl, ?_, ?_, ?_, ?_⟩ <;> simp
    funext u; by_cases hu : u = t <;> simp [hu]
  obtain ⟨a', g1, g2, g3, g4, g5⟩ := key _ rfl
  refine ⟨a', ?_, ?_, g3, by rw [g4, h4]; rfl, by rw [g5, h5]; rfl⟩
  · rw [h0, mrun_append _ _ _ _ h1]; exact g1
  · rw [g2, h2]; funext u; by_cases hu : u = t <;> simp [hu, a0, setTh]

/-! ### simulation of the LockDir operations -/

theorem thOf_idle (s : St) (h : Handle) (hd : s.dead.contains h.1 = false) (hl : s.live.contains h = false) :
    thOf s (tid h) = { phase := .idle, holds := false } := by
  simp only [thOf, pidOf_tid, hOf_tid, hd, hl]; simp

theorem thOf_cons_live (s s' : St) (h : Handle) (h1 : s'.dead = s.dead) (h2 : s'.live = h :: s.live)
    (hd : s.dead.contains h.1 = false) (u : Nat) :
    thOf s' u = if u = tid h then { phase := .live, holds := true } else thOf s u := by
  by_cases hu : u = tid h
  · subst hu
    simp only [thOf, h1, h2, pidOf_tid, hOf_tid, hd]; simp
  · have : (hOf u == h) = false := by
      simp only [beq_eq_false_iff_ne, ne_eq, hOf_eq_iff]; exact hu
    simp only [thOf, h1, h2, hu, if_false, List.contains_cons, this, Bool.false_or]

theorem sim_open (a : MSt) (s : St) (hI : Inv s) (hR : Rel a s) (h : Handle) (c : Bool) (o : List Nat) :
    ∃ as a', mrun a as = some a' ∧ Rel a' (lopen s h c o).1 := by
  rw [lopen_eq]
  by_cases hg : (s.dead.contains h.1 || s.live.contains h) = true
  · rw [if_pos hg]; exact ⟨[], a, rfl, hR⟩
  · rw [if_neg hg]
    have hd : s.dead.contains h.1 = false := by
      cases hx : s.dead.contains h.1 <;> simp_all
    have hl : s.live.contains h = false := by
      cases hx : s.live.contains h <;> simp_all
    have hidle : a.th (tid h) = { phase := .idle, holds := false } := by
      rw [hR.th]; exact thOf_idle s h hd hl
    unfold openSpec
    by_cases hnf : (!c && (!s.dirExists || s.cols.isNone)) = true
    · rw [if_pos hnf]
      obtain ⟨a', h1, h2, h3, h4, h5⟩ := model_open_notfound a (tid h) hidle
      exact ⟨_, a', h1, ⟨fun t => by rw [h2]; exact hR.th t, by rw [h3]; exact hR.holder,
        by rw [h4]; exact hR.dir, by rw [h5]; exact hR.lock⟩⟩
    · rw [if_neg hnf]
      have hdir : (c || s.dirExists) = true := by
        cases c <;> cases hx : s.dirExists <;> simp_all
      obtain ⟨a5, g1, g2, g3, g4, g5⟩ := model_open_prefix a (tid h) hidle
      simp only []
      by_cases hlk : (s.holder.isSome && s.holder != some h) = true
      · rw [if_pos hlk]
        have hs : a.holder.isSome = true := by
          rw [hR.holder]; cases hx : s.holder <;> simp_all
        refine ⟨_, a5, g1, ⟨?_, ?_, ?_, ?_⟩⟩
        · intro u
          rw [g2]
          simp only [hs, if_true]
          have : thOf { s with dirExists := c || s.dirExists, lockFile := true } u = thOf s u := rfl
          rw [this, ← hR.th u]
          by_cases hu : u = tid h
          · subst hu; simp [hidle]
          · simp [hu]
        · rw [g3]; simp only [hs, if_true]; exact hR.holder
        · rw [g4]; exact hdir.symm
        · rw [g5]
      · rw [if_neg hlk]
        have hn : s.holder = none := by
          cases hx : s.holder with
          | none => rfl
          | some h' =>
            exfalso
            have hlive := hI.live
            rw [hx] at hlive hlk
            by_cases he : h' = h
            · subst he; rw [hlive] at hl; simp at hl
            · apply hlk; simp [he]
        have hs : a.holder.isSome = false := by rw [hR.holder, hn]; rfl
        have hth5 : a5.th (tid h) = { phase := .opening openPost, holds := true } := by
          rw [g2]; simp [hs]
        have hfin : ∀ (s' : St), s'.dead = s.dead → s'.live = h :: s.live → s'.holder = some h →
            s'.dirExists = true → s'.lockFile = true → ∃ as a', mrun a as = some a' ∧ Rel a' s' := by
          intro s' e1 e2 e3 e4 e5
          obtain ⟨a', k1, k2, k3, k4, k5⟩ := model_open_finish a5 (tid h) hth5
          refine ⟨(.start (tid h) :: solo (tid h) 5) ++ (solo (tid h) 18 ++ [.run (tid h)]), a', ?_, ⟨?_, ?_, ?_, ?_⟩⟩
          · rw [mrun_append _ _ _ _ g1]; exact k1
          · intro u
            rw [k2, thOf_cons_live s s' h e1 e2 hd u, g2]
            by_cases hu : u = tid h
            · simp [hu]
            · simp [hu]; exact hR.th u
          · rw [k3, g3, e3]; simp [hs]
          · rw [k4, g4, e4]
          · rw [k5, g5, e5]
        cases hc : s.cols with
        | none => exact hfin _ rfl rfl rfl hdir rfl
        | some stored =>
          simp only []
          cases hck : checkOptions stored o with
          | none => exact hfin _ rfl rfl rfl hdir rfl
          | some e =>
            obtain ⟨a', k1, k2, k3, k4, k5⟩ := model_failOpen_holder a5 (tid h) openPost hth5
            refine ⟨(.start (tid h) :: solo (tid h) 5) ++ [.failOpen (tid h)], a', ?_, ⟨?_, ?_, ?_, ?_⟩⟩
            · rw [mrun_append _ _ _ _ g1]; exact k1
            · intro u
              rw [k2, g2]
              change _ = thOf s u
              rw [← hR.th u]
              by_cases hu : u = tid h
              · subst hu; simp [hidle]
              · simp [hu]
            · rw [k3]; rfl
            · rw [k4, g4]; exact hdir.symm
            · rw [k5, g5]

theorem sim_drop (a : MSt) (s : St) (hI : Inv s) (hR : Rel a s) (h : Handle) :
    ∃ as a', mrun a as = some a' ∧ Rel a' (ldrop s h).1 := by
  rw [ldrop_eq]
  by_cases hg : s.live.contains h = true
  · rw [if_pos hg]
    have hlive := hI.live
    cases hx : s.holder with
    | none => rw [hx] at hlive; rw [hlive] at hg; simp at hg
    | some h' =>
      rw [hx] at hlive
      have he : h' = h := by rw [hlive] at hg; simp at hg; exact hg.symm
      subst he
      have hd := hI.alive h' hx
      have hth : a.th (tid h') = { phase := .live, holds := true } := by
        rw [hR.th]; simp only [thOf, pidOf_tid, hOf_tid, hd, hg]; simp
      obtain ⟨a', k1, k2, k3, k4, k5⟩ := model_drop a (tid h') hth
      refine ⟨_, a', k1, ⟨?_, ?_, ?_, ?_⟩⟩
      · intro u
        rw [k2]
        by_cases hu : u = tid h'
        · subst hu; simp only [thOf, pidOf_tid, hOf_tid, hd, hlive]; simp
        · have hne : hOf u ≠ h' := by rw [ne_eq, hOf_eq_iff]; exact hu
          simp only [hu, if_false, hR.th u, thOf, hlive]
          simp [hne]
      · rw [k3]; simp
      · rw [k4]; exact hR.dir
      · rw [k5]; exact hR.lock
  · rw [if_neg hg]; exact ⟨[], a, rfl, hR⟩

theorem contains_filter_pid (l : List Handle) (x : Handle) (p : Nat) (hx : x.1 ≠ p) :
    (l.filter (fun h => h.1 != p)).contains x = l.contains x := by
  induction l with
  | nil => rfl
  | cons y l ih =>
    simp only [List.filter]
    by_cases hy : y.1 = p
    · have h1 : (y.1 != p) = false := by simp [hy]
      have h2 : (x == y) = false := by
        simp only [beq_eq_false_iff_ne, ne_eq]; intro e; apply hx; rw [e]; exact hy
      rw [h1]; simp only [List.contains_cons, h2, Bool.false_or]; exact ih
    · have h1 : (y.1 != p) = true := by simp [hy]
      rw [h1]; simp only [List.contains_cons, ih]

theorem sim_kill (a : MSt) (s : St) (hR : Rel a s) (p : Nat) :
    ∃ as a', mrun a as = some a' ∧ Rel a' (lkill s p).1 := by
  unfold lkill
  by_cases hg : s.dead.contains p = true
  · rw [if_pos hg]; exact ⟨[], a, rfl, hR⟩
  · rw [if_neg hg]
    refine ⟨[.die p], _, rfl, ⟨?_, ?_, ?_, ?_⟩⟩
    · intro u
      simp only [thOf, List.contains_cons]
      by_cases hu : pidOf u = p
      · simp [hu]
      · have h1 : (pidOf u == p) = false := by simpa using hu
        have h2 : (hOf u).1 = pidOf u := rfl
        simp only [hu, if_false, h1, Bool.false_or, hR.th u, thOf]
        have : (List.filter (fun h => h.1 != p) s.live).contains (hOf u) = s.live.contains (hOf u) :=
          contains_filter_pid s.live (hOf u) p (by rw [h2]; exact hu)
        rw [this]
    · simp only [hR.holder]
      cases hx : s.holder with
      | none => simp
      | some h' =>
        by_cases hp : h'.1 = p
        · simp [pidOf_tid, hp]
        · simp [pidOf_tid, hp]
    · exact hR.dir
    · exact hR.lock

theorem sim_precheck (a : MSt) (s : St) (hI : Inv s) (hR : Rel a s) (p : Nat) (o : List Nat) :
    ∃ as a', mrun a as = some a' ∧ Rel a' (precheck s p o).1 := by
  unfold precheck
  obtain ⟨as1, a1, r1, R1⟩ := sim_open a s hI hR (p, tmpSlot) false o
  by_cases hok : (lopen s (p, tmpSlot) false o).2 = .ok
  · simp only [hok, if_true]
    obtain ⟨as2, a2, r2, R2⟩ := sim_drop a1 _ (inv_lopen hI (p, tmpSlot) false o) R1 (p, tmpSlot)
    exact ⟨as1 ++ as2, a2, by rw [mrun_append _ _ _ _ r1]; exact r2, R2⟩
  · simp only [hok, if_false]
    exact ⟨as1, a1, r1, R1⟩

/-- the fields the abstraction looks at -/
def fieldsEq (x y : St) : Prop :=
  x.dead = y.dead ∧ x.live = y.live ∧ x.holder = y.holder ∧ x.dirExists = y.dirExists ∧ x.lockFile = y.lockFile

theorem rel_fields {a : MSt} {s s' : St} (h : Rel a s) (e : fieldsEq s' s) : Rel a s' :=
  rel_congr h e.1 e.2.1 e.2.2.1 e.2.2.2.1 e.2.2.2.2

theorem ladd_fields (s : St) (p : Nat) (o : List Nat) (c : Nat) :
    fieldsEq (laddColumn s p o c).1 (precheck s p o).1 := by
  unfold laddColumn
  generalize precheck s p o = r
  obtain ⟨s1, e⟩ := r
  cases e with
  | some e => exact ⟨rfl, rfl, rfl, rfl, rfl⟩
  | none => simp only; split <;> exact ⟨rfl, rfl, rfl, rfl, rfl⟩

theorem ldropLast_fields (s : St) (p : Nat) (o : List Nat) :
    fieldsEq (ldropLast s p o).1 (precheck s p o).1 := by
  unfold ldropLast
  generalize precheck s p o = r
  obtain ⟨s1, e⟩ := r
  cases e with
  | some e => exact ⟨rfl, rfl, rfl, rfl, rfl⟩
  | none =>
    simp only
    split
    · exact ⟨rfl, rfl, rfl, rfl, rfl⟩
    · split <;> exact ⟨rfl, rfl, rfl, rfl, rfl⟩

theorem lreset_fields (s : St) (p : Nat) (o : List Nat) (i : Nat) (c : Option Nat) :
    fieldsEq (lreset s p o i c).1 (precheck s p o).1 := by
  unfold lreset
  generalize precheck s p o = r
  obtain ⟨s1, e⟩ := r
  cases e with
  | some e => exact ⟨rfl, rfl, rfl, rfl, rfl⟩
  | none =>
    simp only
    split
    · exact ⟨rfl, rfl, rfl, rfl, rfl⟩
    · cases c <;> exact ⟨rfl, rfl, rfl, rfl, rfl⟩

theorem sim_clear (a : MSt) (s : St) (hI : Inv s) (hR : Rel a s) (p i : Nat) :
    ∃ as a', mrun a as = some a' ∧ Rel a' (lclear s p i).1 := by
  unfold lclear
  split
  · exact ⟨[], a, rfl, hR⟩
  · split
    · exact ⟨[], a, rfl, hR⟩
    · split
      · exact ⟨[], a, rfl, hR⟩
      · rename_i stored _ _
        obtain ⟨as, a', r, R⟩ := sim_precheck a s hI hR p stored
        refine ⟨as, a', r, rel_fields R ?_⟩
        generalize precheck s p stored = x
        obtain ⟨s1, e⟩ := x
        cases e <;> exact ⟨rfl, rfl, rfl, rfl, rfl⟩

def Op.isEnv : Op → Bool
  | .env _ => true
  | _ => false

/-- **Forward simulation.**  Every operation of the machine other than the outside `env` steps is
    matched by a run of the interleaving model executing the generated open / drop programs
    (possibly the empty run: observations, commits, rejected calls). -/
theorem sim_apply (a : MSt) (s : St) (hI : Inv s) (hR : Rel a s) (op : Op) (hop : op.isEnv = false) :
    ∃ as a', mrun a as = some a' ∧ Rel a' (apply s op).1 := by
  cases op with
  | env e => simp [Op.isEnv] at hop
  | «open» h c o => exact sim_open a s hI hR h c o
  | commit h c k v =>
    refine ⟨[], a, rfl, rel_fields hR ?_⟩
    simp only [apply, lcommit]
    split
    · cases v <;> exact ⟨rfl, rfl, rfl, rfl, rfl⟩
    · exact ⟨rfl, rfl, rfl, rfl, rfl⟩
  | get h c k => exact ⟨[], a, rfl, hR⟩
  | fp h => exact ⟨[], a, rfl, hR⟩
  | drop h => exact sim_drop a s hI hR h
  | kill p => exact sim_kill a s hR p
  | ls => exact ⟨[], a, rfl, hR⟩
  | add p o c =>
    simp only [apply]
    split
    · exact ⟨[], a, rfl, hR⟩
    · obtain ⟨as, a', r, R⟩ := sim_precheck a s hI hR p o
      exact ⟨as, a', r, rel_fields R (ladd_fields s p o c)⟩
  | dropLast p o =>
    simp only [apply]
    split
    · exact ⟨[], a, rfl, hR⟩
    · obtain ⟨as, a', r, R⟩ := sim_precheck a s hI hR p o
      exact ⟨as, a', r, rel_fields R (ldropLast_fields s p o)⟩
  | reset p o i c =>
    simp only [apply]
    split
    · exact ⟨[], a, rfl, hR⟩
    · obtain ⟨as, a', r, R⟩ := sim_precheck a s hI hR p o
      exact ⟨as, a', r, rel_fields R (lreset_fields s p o i c)⟩
  | clear p i => exact sim_clear a s hI hR p i

theorem sim_runOps : ∀ (ops : List Op) (a : MSt) (s : St), Inv s → Rel a s →
    ops.all (fun o => !o.isEnv) = true →
    ∃ as a', mrun a as = some a' ∧ Rel a' (runOps s ops)
  | [], a, s, _, hR, _ => ⟨[], a, rfl, hR⟩
  | o :: os, a, s, hI, hR, hall => by
    simp only [List.all_cons, Bool.and_eq_true, Bool.not_eq_true'] at hall
    obtain ⟨as1, a1, r1, R1⟩ := sim_apply a s hI hR o hall.1
    obtain ⟨as2, a2, r2, R2⟩ := sim_runOps os a1 _ (inv_apply hI o) R1 (by simpa using hall.2)
    exact ⟨as1 ++ as2, a2, by rw [mrun_append _ _ _ _ r1]; exact r2, R2⟩

end Pdb.LockDir
