/-
C04, GAP 1 (cursor), part 2: one `BTreeIterState::next` call from every state the cursor can
rest in: `exit`, the leftmost / rightmost descent into a child, the step from `At(i)`,
`Seeked(i)`, `Before(i)`; in both directions.
-/
import Pdb.Proofs.C04Cursor

namespace Pdb.C04
variable {V : Type}

/-- The stack after a step that yielded `e`: `At(i)` on top of a well-formed chain; `L` / `R`
    are the elements of the tree left / right of `e`. -/
def AtPos (t : Tree V) (st : Stack V) (L : List (Key × V)) (e : Key × V) (R : List (Key × V)) :
    Prop :=
  ∃ dl n i anc, st = (.at i, n) :: anc ∧ AncOK t dl n anc ∧ n.seps[i]? = some e ∧
    L = ancL dl anc ++ pre dl n i ∧ R = postA dl n i ++ ancR dl anc

/-- Result of a forward step from the gap between `Lf` and `Rf`. -/
def FwdRes (t : Tree V) (res : Stack V × CurOut V) (Lf Rf : List (Key × V)) : Prop :=
  (Rf = [] ∧ res = ([], .ok none)) ∨
  (∃ e R' st', Rf = e :: R' ∧ res = (st', .ok (some e)) ∧ AtPos t st' Lf e R')

/-- Result of a backward step from the gap between `Lb` and `Rb`. -/
def BwdRes (t : Tree V) (res : Stack V × CurOut V) (Lb Rb : List (Key × V)) : Prop :=
  (Lb = [] ∧ res = ([], .ok none)) ∨
  (∃ e L' st', Lb = L' ++ [e] ∧ res = (st', .ok (some e)) ∧ AtPos t st' L' e Rb)

/-! ### unfolding -/

theorem nextLoop_exit {depth : Nat} {d : Dir} {fuel : Nat} {ix : LastIndex} {node : Node V}
    {rest : Stack V} (h : action depth d (rest.length + 1) ix node = .exit) :
    nextLoop depth d (fuel + 1) ((ix, node) :: rest) =
      if (exitC d ((ix, node) :: rest)).2 = true then ((exitC d ((ix, node) :: rest)).1, .ok none)
      else nextLoop depth d fuel (exitC d ((ix, node) :: rest)).1 := by
  simp only [nextLoop, h]

theorem nextLoop_yield {depth : Nat} {d : Dir} {fuel : Nat} {ix : LastIndex} {node : Node V}
    {rest : Stack V} {a : Nat} {e : Key × V}
    (h : action depth d (rest.length + 1) ix node = .yield a e) :
    nextLoop depth d (fuel + 1) ((ix, node) :: rest) = ((.at a, node) :: rest, .ok (some e)) := by
  simp only [nextLoop, h]

theorem nextLoop_push {depth : Nat} {d : Dir} {fuel : Nat} {ix : LastIndex} {node : Node V}
    {rest : Stack V} {c : Nat} {child : Node V}
    (h : action depth d (rest.length + 1) ix node = .push c child) :
    nextLoop depth d (fuel + 1) ((ix, node) :: rest) =
      nextLoop depth d fuel
        ((nodeStart child d (depth == rest.length + 1), child) :: (.descend c, node) :: rest) := by
  simp only [nextLoop, h]

theorem action_descend (depth : Nat) (d : Dir) (len c : Nat) (n : Node V) :
    action depth d len (.descend c) n =
      match n.children[c]? with
      | some child => .push c child
      | none => .exit := by
  cases d <;> rfl

theorem action_seeked (depth : Nat) (d : Dir) (len i : Nat) (n : Node V) :
    action depth d len (.seeked i) n =
      match n.seps[i]? with
      | some e => .yield i e
      | none => .exit := by
  cases d <;> rfl

theorem action_fwd_before (depth len i : Nat) (n : Node V) :
    action depth .fwd len (.before i) n =
      if (i == ORDER) = true then .exit
      else match n.seps[i]? with
           | some e => .yield i e
           | none => .exit := rfl

theorem action_bwd_before (depth len i : Nat) (n : Node V) :
    action depth .bwd len (.before i) n =
      if (i == 0) = true then .exit
      else match n.seps[i - 1]? with
           | some e => .yield (i - 1) e
           | none => .exit := rfl

theorem action_fwd_at (depth len i : Nat) (n : Node V) :
    action depth .fwd len (.at i) n =
      if ((depth + 1 == len) && (i + 1 == ORDER)) = true then .exit
      else if (depth + 1 == len) = true then
        (match n.seps[i + 1]? with
         | some e => .yield (i + 1) e
         | none => .exit)
      else
        (match n.children[i + 1]? with
         | some child => .push (i + 1) child
         | none => .exit) := rfl

theorem action_bwd_at (depth len i : Nat) (n : Node V) :
    action depth .bwd len (.at i) n =
      if ((depth + 1 == len) && (i == 0)) = true then .exit
      else if (depth + 1 == len) = true then
        (match n.seps[i - 1]? with
         | some e => .yield (i - 1) e
         | none => .exit)
      else
        (match n.children[i]? with
         | some child => .push i child
         | none => .exit) := rfl

theorem exitC_single (d : Dir) (x : LastIndex × Node V) : exitC d [x] = ([], true) := rfl

theorem exitC_descend (d : Dir) (x : LastIndex × Node V) (c : Nat) (p : Node V) (rest : Stack V) :
    exitC d (x :: (.descend c, p) :: rest) =
      if (d = .bwd ∧ c = 0) ∨ (d = .fwd ∧ (c = ORDER ∨ p.seps[c]? = none)) then
        exitC d ((.descend c, p) :: rest)
      else ((.before c, p) :: rest, false) := by
  simp only [exitC]

/-- is the top of the stack a leaf: `btree.depth + 1 == self.state.len()` -/
theorem isLeaf_eq {t : Tree V} {dl : Nat} {n : Node V} {anc : Stack V} (h : AncOK t dl n anc) :
    (t.depth + 1 == anc.length + 1) = (dl == 0) := by
  have := h.len
  rw [Bool.eq_iff_iff]
  simp only [beq_iff_eq]
  omega

/-- is the pushed child a leaf: `btree.depth == self.state.len()` -/
theorem isChildLeaf_eq {t : Tree V} {dl : Nat} {n : Node V} {anc : Stack V}
    (h : AncOK t (dl + 1) n anc) : (t.depth == anc.length + 1) = (dl == 0) := by
  have := h.len
  rw [Bool.eq_iff_iff]
  simp only [beq_iff_eq]
  omega

theorem seps_zero_of_pos {n : Node V} (h : 1 ≤ n.seps.length) : ∃ e, n.seps[0]? = some e :=
  ⟨n.seps[0], List.getElem?_eq_getElem (by omega)⟩

theorem getElem?_some_of_lt {α : Type} {l : List α} {i : Nat} (h : i < l.length) :
    ∃ e, l[i]? = some e := ⟨l[i], List.getElem?_eq_getElem h⟩

theorem getElem?_none_of_le {α : Type} {l : List α} {i : Nat} (h : l.length ≤ i) : l[i]? = none :=
  List.getElem?_eq_none h

theorem ORDER_pos : (0 == ORDER) = false := by decide

/-! ### forward: `exit`, then the separator of the first ancestor that has one to the right -/

theorem exitFwd {t : Tree V} : ∀ (anc : Stack V) (dl : Nat) (n : Node V) (ix : LastIndex),
    AncOK t dl n anc →
    (ancR dl anc = [] ∧ exitC .fwd ((ix, n) :: anc) = ([], true)) ∨
    (∃ e R' c p rest dl', ancR dl anc = e :: R' ∧
       exitC .fwd ((ix, n) :: anc) = ((.before c, p) :: rest, false) ∧
       AncOK t (dl' + 1) p rest ∧ p.seps[c]? = some e ∧ c ≠ ORDER ∧
       ancL dl anc ++ toList dl n = ancL (dl' + 1) rest ++ pre (dl' + 1) p c ∧
       R' = postA (dl' + 1) p c ++ ancR (dl' + 1) rest) := by
  intro anc
  induction anc with
  | nil => intro dl n ix _; exact Or.inl ⟨rfl, rfl⟩
  | cons a rest ih =>
    intro dl n ix h
    obtain ⟨ix', p⟩ := a
    obtain ⟨⟨c, rfl, hc⟩, _, hp⟩ := h
    have hcl : c ≤ p.seps.length := by
      have := lt_of_getElem?_some hc
      rw [hp.good.len] at this; omega
    rw [exitC_descend, ancR_cons, ancL_cons]
    cases hs : p.seps[c]? with
    | none =>
      rw [if_pos (Or.inr ⟨rfl, Or.inr rfl⟩), post_of_none _ hs]
      have hfull : toList (dl + 1) p = preC dl p c ++ toList dl n := by
        rw [toList_at_child hc hcl, post_of_none _ hs, List.append_nil]
      rcases ih (dl + 1) p (.descend c) hp with ⟨h1, h2⟩ | ⟨e, R', c', p', rest', dl', h1, h2, h3, h4, h5, h6, h7⟩
      · exact Or.inl ⟨by rw [h1]; rfl, h2⟩
      · refine Or.inr ⟨e, R', c', p', rest', dl', by rw [h1]; rfl, h2, h3, h4, h5, ?_, h7⟩
        rw [List.append_assoc, ← hfull]; exact h6
    | some e =>
      have hlt : c < p.seps.length := lt_of_getElem?_some hs
      have hne : c ≠ ORDER := by have := hp.good.le_order; omega
      have hcond : ¬ ((Dir.fwd = Dir.bwd ∧ c = 0) ∨ (Dir.fwd = Dir.fwd ∧ (c = ORDER ∨ some e = none))) := by
        simp [hne]
      rw [if_neg hcond]
      obtain ⟨c1, hc1⟩ := hp.good.child_some (j := c + 1) (by omega)
      refine Or.inr ⟨e, postA (dl + 1) p c ++ ancR (dl + 1) rest, c, p, rest, dl, ?_, rfl, hp, hs, hne, ?_, rfl⟩
      · rw [post_eq_cons_node hs hc1]; rfl
      · rw [List.append_assoc, pre_succ_of_child hc]

theorem exitStepFwd {t : Tree V} {dl : Nat} {n : Node V} {anc : Stack V} {ix : LastIndex}
    (fuel : Nat) (h : AncOK t dl n anc)
    (ha : action t.depth .fwd (anc.length + 1) ix n = .exit) :
    FwdRes t (nextLoop t.depth .fwd (fuel + 2) ((ix, n) :: anc))
      (ancL dl anc ++ toList dl n) (ancR dl anc) := by
  rw [nextLoop_exit ha]
  rcases exitFwd anc dl n ix h with ⟨h1, h2⟩ | ⟨e, R', c, p, rest, dl', h1, h2, h3, h4, h5, h6, h7⟩
  · rw [h2]
    exact Or.inl ⟨h1, rfl⟩
  · rw [h2]
    simp only [Bool.false_eq_true, if_false]
    have hy : action t.depth .fwd (rest.length + 1) (.before c) p = .yield c e := by
      rw [action_fwd_before]
      have : (c == ORDER) = false := by simpa using h5
      simp [this, h4]
    rw [nextLoop_yield hy]
    exact Or.inr ⟨e, R', _, h1, rfl, dl' + 1, p, c, rest, rfl, h3, h4, h6, h7⟩

/-! ### forward: leftmost descent -/

theorem descFwd {t : Tree V} : ∀ (dl : Nat) (c : Node V) (anc : Stack V) (fuel : Nat),
    AncOK t dl c anc → 1 ≤ c.seps.length → dl + 1 ≤ fuel →
    ∃ e tl st', toList dl c = e :: tl ∧
      nextLoop t.depth .fwd fuel ((nodeStart c .fwd (dl == 0), c) :: anc) = (st', .ok (some e)) ∧
      AtPos t st' (ancL dl anc) e (tl ++ ancR dl anc) := by
  intro dl
  induction dl with
  | zero =>
    intro c anc fuel h h1 hf
    obtain ⟨f, rfl⟩ : ∃ f, fuel = f + 1 := ⟨fuel - 1, by omega⟩
    obtain ⟨e, he⟩ := seps_zero_of_pos h1
    have hy : action t.depth .fwd (anc.length + 1) (.before 0) c = .yield 0 e := by
      rw [action_fwd_before]; simp [ORDER_pos, he]
    refine ⟨e, c.seps.drop 1, (.at 0, c) :: anc, ?_, ?_, ?_⟩
    · show c.seps = _
      have := drop_cons_of_getElem? he
      simpa using this
    · show nextLoop t.depth .fwd (f + 1) ((.before 0, c) :: anc) = _
      rw [nextLoop_yield hy]
    · exact ⟨0, c, 0, anc, rfl, h, he, by simp [pre], rfl⟩
  | succ dl ih =>
    intro c anc fuel h h1 hf
    obtain ⟨f, rfl⟩ : ∃ f, fuel = f + 1 := ⟨fuel - 1, by omega⟩
    obtain ⟨c0, hc0⟩ := h.good.child_some (j := 0) (by omega)
    have hp : action t.depth .fwd (anc.length + 1) (.descend 0) c = .push 0 c0 := by
      rw [action_descend]; simp [hc0]
    obtain ⟨e, tl0, st', e1, e2, e3⟩ := ih c0 ((.descend 0, c) :: anc) f (h.push hc0)
      (by have := (h.good.child hc0).2; have : MIDDLE = 4 := rfl; omega) (by omega)
    refine ⟨e, tl0 ++ post (dl + 1) c 0, st', ?_, ?_, ?_⟩
    · rw [toList_at_child hc0 (by omega), preC_zero, e1]; rfl
    · show nextLoop t.depth .fwd (f + 1) ((.descend 0, c) :: anc) = _
      rw [nextLoop_push hp, isChildLeaf_eq h]
      exact e2
    · rw [ancL_cons, ancR_cons, preC_zero, List.append_nil] at e3
      rw [List.append_assoc]
      exact e3

/-! ### backward: `exit`, rightmost descent -/

theorem exitBwd {t : Tree V} : ∀ (anc : Stack V) (dl : Nat) (n : Node V) (ix : LastIndex),
    AncOK t dl n anc →
    (ancL dl anc = [] ∧ exitC .bwd ((ix, n) :: anc) = ([], true)) ∨
    (∃ e L' c p rest dl', ancL dl anc = L' ++ [e] ∧
       exitC .bwd ((ix, n) :: anc) = ((.before (c + 1), p) :: rest, false) ∧
       AncOK t (dl' + 1) p rest ∧ p.seps[c]? = some e ∧
       L' = ancL (dl' + 1) rest ++ pre (dl' + 1) p c ∧
       toList dl n ++ ancR dl anc = postA (dl' + 1) p c ++ ancR (dl' + 1) rest) := by
  intro anc
  induction anc with
  | nil => intro dl n ix _; exact Or.inl ⟨rfl, rfl⟩
  | cons a rest ih =>
    intro dl n ix h
    obtain ⟨ix', p⟩ := a
    obtain ⟨⟨cc, rfl, hc⟩, _, hp⟩ := h
    have hcl : cc ≤ p.seps.length := by
      have := lt_of_getElem?_some hc
      rw [hp.good.len] at this; omega
    rw [exitC_descend, ancR_cons, ancL_cons]
    cases cc with
    | zero =>
      rw [if_pos (Or.inl ⟨rfl, rfl⟩), preC_zero, List.append_nil]
      have hfull : toList (dl + 1) p = toList dl n ++ post (dl + 1) p 0 := by
        rw [toList_at_child hc hcl, preC_zero]; rfl
      rcases ih (dl + 1) p (.descend 0) hp with ⟨h1, h2⟩ | ⟨e, L', c', p', rest', dl', h1, h2, h3, h4, h5, h6⟩
      · exact Or.inl ⟨h1, h2⟩
      · refine Or.inr ⟨e, L', c', p', rest', dl', h1, h2, h3, h4, h5, ?_⟩
        rw [← List.append_assoc, ← hfull]; exact h6
    | succ c =>
      have hcond : ¬ ((Dir.bwd = Dir.bwd ∧ c + 1 = 0) ∨
          (Dir.bwd = Dir.fwd ∧ (c + 1 = ORDER ∨ p.seps[c + 1]? = none))) := by simp
      rw [if_neg hcond]
      obtain ⟨e, hs⟩ := getElem?_some_of_lt (l := p.seps) (i := c) (by omega)
      obtain ⟨c1, hc1⟩ := hp.good.child_some (j := c) (by omega)
      refine Or.inr ⟨e, ancL (dl + 1) rest ++ pre (dl + 1) p c, c, p, rest, dl, ?_, rfl, hp, hs, rfl, ?_⟩
      · rw [preC_succ hc1 hs, List.append_assoc]
      · rw [postA_succ_of_child hc, List.append_assoc]

theorem exitStepBwd {t : Tree V} {dl : Nat} {n : Node V} {anc : Stack V} {ix : LastIndex}
    (fuel : Nat) (h : AncOK t dl n anc)
    (ha : action t.depth .bwd (anc.length + 1) ix n = .exit) :
    BwdRes t (nextLoop t.depth .bwd (fuel + 2) ((ix, n) :: anc))
      (ancL dl anc) (toList dl n ++ ancR dl anc) := by
  rw [nextLoop_exit ha]
  rcases exitBwd anc dl n ix h with ⟨h1, h2⟩ | ⟨e, L', c, p, rest, dl', h1, h2, h3, h4, h5, h6⟩
  · rw [h2]
    exact Or.inl ⟨h1, rfl⟩
  · rw [h2]
    simp only [Bool.false_eq_true, if_false]
    have hy : action t.depth .bwd (rest.length + 1) (.before (c + 1)) p = .yield c e := by
      rw [action_bwd_before]
      simp [h4]
    rw [nextLoop_yield hy]
    exact Or.inr ⟨e, L', _, h1, rfl, dl' + 1, p, c, rest, rfl, h3, h4, h5, h6⟩

theorem descBwd {t : Tree V} : ∀ (dl : Nat) (c : Node V) (anc : Stack V) (fuel : Nat),
    AncOK t dl c anc → 1 ≤ c.seps.length → dl + 1 ≤ fuel →
    ∃ e hd st', toList dl c = hd ++ [e] ∧
      nextLoop t.depth .bwd fuel ((nodeStart c .bwd (dl == 0), c) :: anc) = (st', .ok (some e)) ∧
      AtPos t st' (ancL dl anc ++ hd) e (ancR dl anc) := by
  intro dl
  induction dl with
  | zero =>
    intro c anc fuel h h1 hf
    obtain ⟨f, rfl⟩ : ∃ f, fuel = f + 1 := ⟨fuel - 1, by omega⟩
    obtain ⟨m, hm⟩ : ∃ m, c.seps.length = m + 1 := ⟨c.seps.length - 1, by omega⟩
    obtain ⟨e, he⟩ := getElem?_some_of_lt (l := c.seps) (i := m) (by omega)
    have hy : action t.depth .bwd (anc.length + 1) (.before (m + 1)) c = .yield m e := by
      rw [action_bwd_before]; simp [he]
    have htk : c.seps = c.seps.take m ++ [e] := by
      rw [← take_succ_of_getElem? he, ← hm, List.take_length]
    refine ⟨e, c.seps.take m, (.at m, c) :: anc, htk, ?_, ?_⟩
    · show nextLoop t.depth .bwd (f + 1) ((.before c.seps.length, c) :: anc) = _
      rw [hm, nextLoop_yield hy]
    · refine ⟨0, c, m, anc, rfl, h, he, rfl, ?_⟩
      have : postA 0 c m = [] := by
        simp only [postA]
        exact List.drop_eq_nil_of_le (by omega)
      rw [this]; rfl
  | succ dl ih =>
    intro c anc fuel h h1 hf
    obtain ⟨f, rfl⟩ : ∃ f, fuel = f + 1 := ⟨fuel - 1, by omega⟩
    obtain ⟨c0, hc0⟩ := h.good.child_some (j := c.seps.length) (Nat.le_refl _)
    have hp : action t.depth .bwd (anc.length + 1) (.descend c.seps.length) c =
        .push c.seps.length c0 := by
      rw [action_descend]; simp [hc0]
    obtain ⟨e, hd0, st', e1, e2, e3⟩ := ih c0 ((.descend c.seps.length, c) :: anc) f (h.push hc0)
      (by have := (h.good.child hc0).2; have : MIDDLE = 4 := rfl; omega) (by omega)
    have hnone : c.seps[c.seps.length]? = none := getElem?_none_of_le (Nat.le_refl _)
    refine ⟨e, preC dl c c.seps.length ++ hd0, st', ?_, ?_, ?_⟩
    · rw [toList_at_child hc0 (Nat.le_refl _), post_of_none _ hnone, List.append_nil, e1,
        List.append_assoc]
    · show nextLoop t.depth .bwd (f + 1) ((.descend c.seps.length, c) :: anc) = _
      rw [nextLoop_push hp, isChildLeaf_eq h]
      exact e2
    · rw [ancL_cons, ancR_cons, post_of_none _ hnone, List.nil_append, List.append_assoc] at e3
      exact e3

/-! ### one step from a resting state -/

theorem step_seeked {t : Tree V} {n : Node V} {i : Nat} {e0 : Key × V} (anc : Stack V) (d : Dir)
    (f : Nat) (hs : n.seps[i]? = some e0) :
    nextLoop t.depth d (f + 1) ((.seeked i, n) :: anc) = ((.at i, n) :: anc, .ok (some e0)) := by
  have hy : action t.depth d (anc.length + 1) (.seeked i) n = .yield i e0 := by
    rw [action_seeked]; simp [hs]
  rw [nextLoop_yield hy]

theorem take_eq_self_snoc {α : Type} {l : List α} {i : Nat} {e : α} (he : l[i]? = some e)
    (hl : l.length ≤ i + 1) : l = l.take i ++ [e] := by
  rw [← take_succ_of_getElem? he, List.take_of_length_le hl]

theorem stepFwd_at {t : Tree V} {dl : Nat} {n : Node V} {i : Nat} {e0 : Key × V} {anc : Stack V}
    (fuel : Nat) (h : AncOK t dl n anc) (hs : n.seps[i]? = some e0) (hf : dl + 2 ≤ fuel) :
    FwdRes t (nextLoop t.depth .fwd fuel ((.at i, n) :: anc))
      (ancL dl anc ++ pre dl n i ++ [e0]) (postA dl n i ++ ancR dl anc) := by
  have hi : i < n.seps.length := lt_of_getElem?_some hs
  cases dl with
  | zero =>
    obtain ⟨f, rfl⟩ : ∃ f, fuel = f + 2 := ⟨fuel - 2, by omega⟩
    have hleaf : (t.depth + 1 == anc.length + 1) = true := by rw [isLeaf_eq h]; rfl
    -- the two ways to leave the leaf
    have hexit : action t.depth .fwd (anc.length + 1) (.at i) n = .exit → n.seps.length ≤ i + 1 →
        FwdRes t (nextLoop t.depth .fwd (f + 2) ((.at i, n) :: anc))
          (ancL 0 anc ++ pre 0 n i ++ [e0]) (postA 0 n i ++ ancR 0 anc) := by
      intro ha hl
      have := exitStepFwd f h ha
      have e1 : toList 0 n = pre 0 n i ++ [e0] := take_eq_self_snoc hs hl
      have e2 : postA 0 n i = [] := List.drop_eq_nil_of_le hl
      rw [e1, ← List.append_assoc] at this
      rw [e2, List.nil_append]
      exact this
    by_cases hO : i + 1 = ORDER
    · have ha : action t.depth .fwd (anc.length + 1) (.at i) n = .exit := by
        rw [action_fwd_at, hleaf]; simp [hO]
      exact hexit ha (by have := h.good.le_order; omega)
    · cases hs1 : n.seps[i + 1]? with
      | none =>
        have ha : action t.depth .fwd (anc.length + 1) (.at i) n = .exit := by
          rw [action_fwd_at, hleaf]; simp [hO, hs1]
        have hl : n.seps.length ≤ i + 1 := by
          rcases Nat.lt_or_ge (i + 1) n.seps.length with h' | h'
          · rw [List.getElem?_eq_getElem h'] at hs1; cases hs1
          · exact h'
        exact hexit ha hl
      | some e =>
        have hy : action t.depth .fwd (anc.length + 1) (.at i) n = .yield (i + 1) e := by
          rw [action_fwd_at, hleaf]; simp [hO, hs1]
        rw [nextLoop_yield hy]
        refine Or.inr ⟨e, postA 0 n (i + 1) ++ ancR 0 anc, _, ?_, rfl, 0, n, i + 1, anc, rfl, h, hs1, ?_, rfl⟩
        · show n.seps.drop (i + 1) ++ _ = _
          rw [drop_cons_of_getElem? hs1]; rfl
        · rw [pre_succ_leaf hs, List.append_assoc]
  | succ dl =>
    obtain ⟨f, rfl⟩ : ∃ f, fuel = f + 1 := ⟨fuel - 1, by omega⟩
    have hleaf : (t.depth + 1 == anc.length + 1) = false := by rw [isLeaf_eq h]; rfl
    obtain ⟨c', hc'⟩ := h.good.child_some (j := i + 1) (by omega)
    obtain ⟨ci, hci⟩ := h.good.child_some (j := i) (by omega)
    have hp : action t.depth .fwd (anc.length + 1) (.at i) n = .push (i + 1) c' := by
      rw [action_fwd_at, hleaf]; simp [hc']
    rw [nextLoop_push hp, isChildLeaf_eq h]
    obtain ⟨e, tl, st', e1, e2, e3⟩ := descFwd dl c' ((.descend (i + 1), n) :: anc) f (h.push hc')
      (by have := (h.good.child hc').2; have : MIDDLE = 4 := rfl; omega) (by omega)
    rw [e2]
    refine Or.inr ⟨e, tl ++ ancR dl ((.descend (i + 1), n) :: anc), st', ?_, rfl, ?_⟩
    · rw [postA_succ_of_child hc', e1, ancR_cons]; simp
    · rw [ancL_cons, preC_succ hci hs, ← List.append_assoc] at e3
      exact e3

theorem stepFwd_before {t : Tree V} {n : Node V} {i : Nat} {anc : Stack V}
    (f : Nat) (h : AncOK t 0 n anc) :
    FwdRes t (nextLoop t.depth .fwd (f + 2) ((.before i, n) :: anc))
      (ancL 0 anc ++ pre 0 n i) (post 0 n i ++ ancR 0 anc) := by
  cases hs : n.seps[i]? with
  | none =>
    have ha : action t.depth .fwd (anc.length + 1) (.before i) n = .exit := by
      rw [action_fwd_before]; simp [hs]
    have hl : n.seps.length ≤ i := by
      rcases Nat.lt_or_ge i n.seps.length with h' | h'
      · rw [List.getElem?_eq_getElem h'] at hs; cases hs
      · exact h'
    have := exitStepFwd f h ha
    have e1 : toList 0 n = pre 0 n i := (List.take_of_length_le hl).symm
    rw [e1] at this
    rw [post_of_none 0 hs, List.nil_append]
    exact this
  | some e =>
    have hi : i < n.seps.length := lt_of_getElem?_some hs
    have hne : (i == ORDER) = false := by
      have := h.good.le_order
      simp only [beq_eq_false_iff_ne, ne_eq]; omega
    have hy : action t.depth .fwd (anc.length + 1) (.before i) n = .yield i e := by
      rw [action_fwd_before]; simp [hne, hs]
    rw [nextLoop_yield hy]
    refine Or.inr ⟨e, postA 0 n i ++ ancR 0 anc, _, ?_, rfl, 0, n, i, anc, rfl, h, hs, rfl, rfl⟩
    rw [post_eq_cons_leaf hs]; rfl

theorem stepBwd_at {t : Tree V} {dl : Nat} {n : Node V} {i : Nat} {e0 : Key × V} {anc : Stack V}
    (fuel : Nat) (h : AncOK t dl n anc) (hs : n.seps[i]? = some e0) (hf : dl + 2 ≤ fuel) :
    BwdRes t (nextLoop t.depth .bwd fuel ((.at i, n) :: anc))
      (ancL dl anc ++ pre dl n i) (e0 :: postA dl n i ++ ancR dl anc) := by
  have hi : i < n.seps.length := lt_of_getElem?_some hs
  cases dl with
  | zero =>
    obtain ⟨f, rfl⟩ : ∃ f, fuel = f + 2 := ⟨fuel - 2, by omega⟩
    have hleaf : (t.depth + 1 == anc.length + 1) = true := by rw [isLeaf_eq h]; rfl
    cases i with
    | zero =>
      have ha : action t.depth .bwd (anc.length + 1) (.at 0) n = .exit := by
        rw [action_bwd_at, hleaf]; simp
      have := exitStepBwd f h ha
      have e1 : toList 0 n = e0 :: postA 0 n 0 := by
        have := drop_cons_of_getElem? hs
        rw [List.drop_zero] at this
        exact this
      rw [e1] at this
      simpa [pre] using this
    | succ i' =>
      obtain ⟨e, he⟩ := getElem?_some_of_lt (l := n.seps) (i := i') (by omega)
      have hy : action t.depth .bwd (anc.length + 1) (.at (i' + 1)) n = .yield i' e := by
        rw [action_bwd_at, hleaf]; simp [he]
      rw [nextLoop_yield hy]
      refine Or.inr ⟨e, ancL 0 anc ++ pre 0 n i', _, ?_, rfl, 0, n, i', anc, rfl, h, he, rfl, ?_⟩
      · rw [pre_succ_leaf he, List.append_assoc]
      · show _ = n.seps.drop (i' + 1) ++ _
        rw [drop_cons_of_getElem? hs]; rfl
  | succ dl =>
    obtain ⟨f, rfl⟩ : ∃ f, fuel = f + 1 := ⟨fuel - 1, by omega⟩
    have hleaf : (t.depth + 1 == anc.length + 1) = false := by rw [isLeaf_eq h]; rfl
    obtain ⟨c', hc'⟩ := h.good.child_some (j := i) (by omega)
    obtain ⟨c1, hc1⟩ := h.good.child_some (j := i + 1) (by omega)
    have hp : action t.depth .bwd (anc.length + 1) (.at i) n = .push i c' := by
      rw [action_bwd_at, hleaf]; simp [hc']
    rw [nextLoop_push hp, isChildLeaf_eq h]
    obtain ⟨e, hd, st', e1, e2, e3⟩ := descBwd dl c' ((.descend i, n) :: anc) f (h.push hc')
      (by have := (h.good.child hc').2; have : MIDDLE = 4 := rfl; omega) (by omega)
    rw [e2]
    refine Or.inr ⟨e, ancL dl ((.descend i, n) :: anc) ++ hd, st', ?_, rfl, ?_⟩
    · rw [pre_succ_of_child hc', e1, ancL_cons]; simp
    · rw [ancR_cons, post_eq_cons_node hs hc1] at e3
      exact e3

theorem stepBwd_before {t : Tree V} {n : Node V} {i : Nat} {anc : Stack V}
    (f : Nat) (h : AncOK t 0 n anc) (hi : i ≤ n.seps.length) :
    BwdRes t (nextLoop t.depth .bwd (f + 2) ((.before i, n) :: anc))
      (ancL 0 anc ++ pre 0 n i) (post 0 n i ++ ancR 0 anc) := by
  cases i with
  | zero =>
    have ha : action t.depth .bwd (anc.length + 1) (.before 0) n = .exit := by
      rw [action_bwd_before]; simp
    have := exitStepBwd f h ha
    have e : toList 0 n = n.seps := rfl
    rw [e] at this
    simpa [pre, post] using this
  | succ i' =>
    obtain ⟨e, he⟩ := getElem?_some_of_lt (l := n.seps) (i := i') (by omega)
    have hy : action t.depth .bwd (anc.length + 1) (.before (i' + 1)) n = .yield i' e := by
      rw [action_bwd_before]; simp [he]
    rw [nextLoop_yield hy]
    refine Or.inr ⟨e, ancL 0 anc ++ pre 0 n i', _, ?_, rfl, 0, n, i', anc, rfl, h, he, rfl, rfl⟩
    rw [pre_succ_leaf he, List.append_assoc]

end Pdb.C04
