/-
C02xTx: replay at the level of LOCATIONS (node slot, reference count, root, table header).

The commands of Model/MultiTreeCrashTx.lean enact / replay whole records.  Here a log record is
what the log file holds: a set of written locations with ABSOLUTE after-images (`PRec`); enacting /
replaying it OVERWRITES exactly the written locations (`applyP`).  `PRecOf before after p`: `p` is a
physical record of a step that takes the disk from `before` to `after`: it writes at least every
location that changes, with the value after the step (it may also rewrite unchanged locations,
e.g. a header that did not change).  `replayP_absorbs`: replaying the physical records of the
surviving logged records over ANY disk image that agrees with the enacted base outside the
locations those records write - whatever part of an interrupted enactment (crash (j, n)) or of an
interrupted earlier recovery (crash during recovery) reached the files - yields exactly the disk
(`snapFold`: tables AND header) the record-level model recovers to.
-/
import Pdb.Proofs.C02xTxInv

namespace Pdb.MultiTree
set_option linter.unusedSectionVars false
variable {K D : Type} [DecidableEq K]

inductive XLoc (K : Type) where
  | node (a : Addr)
  | rc (a : Addr)
  | root (k : K)
  /-- the table header: `filled`, `last_removed` (+ the chain it starts) -/
  | header

inductive XVal (K D : Type) where
  | node (o : Option (Node D))
  | rc (o : Option Nat)
  | root (o : Option (Node D × Nat))
  | header (filled : Addr) (free : List Addr)

/-- what the disk holds at each location -/
def diskTbl (x : Heap K D × List Addr × List Addr) : XLoc K → XVal K D
  | .node a => .node (x.1.nodes.get a)
  | .rc a => .rc (x.1.rc.get a)
  | .root k => .root (x.1.roots.get k)
  | .header => .header x.1.next x.2.1

/-- a physical log record: written locations, absolute after-images -/
structure PRec (K D : Type) where
  W : XLoc K → Prop
  img : XLoc K → XVal K D

open Classical in
noncomputable def applyP (t : XLoc K → XVal K D) (p : PRec K D) : XLoc K → XVal K D :=
  fun l => if p.W l then p.img l else t l

noncomputable def replayP (t : XLoc K → XVal K D) (ps : List (PRec K D)) : XLoc K → XVal K D :=
  ps.foldl applyP t

def PRecOf (before after : XLoc K → XVal K D) (p : PRec K D) : Prop :=
  (∀ l, p.W l → p.img l = after l) ∧ (∀ l, ¬ p.W l → after l = before l)

/-- physical records of replaying the logged records `rs` from the disk `x0` -/
def PRecsOf (v : Variant) : Heap K D × List Addr × List Addr → List (XRec K D) → List (PRec K D) → Prop
  | _, [], [] => True
  | x0, r :: rs, p :: ps =>
    PRecOf (diskTbl x0) (diskTbl (snapStep v x0 r)) p ∧ PRecsOf v (snapStep v x0 r) rs ps
  | _, _, _ => False

/-- the smallest physical record of a step: exactly the locations whose content changes -/
def minPRec (before after : XLoc K → XVal K D) : PRec K D := ⟨fun l => after l ≠ before l, after⟩

theorem minPRec_of (before after : XLoc K → XVal K D) : PRecOf before after (minPRec before after) :=
  ⟨fun _ _ => rfl, fun _ h => Classical.not_not.mp h⟩

def minPRecs (v : Variant) : Heap K D × List Addr × List Addr → List (XRec K D) → List (PRec K D)
  | _, [] => []
  | x0, r :: rs => minPRec (diskTbl x0) (diskTbl (snapStep v x0 r)) :: minPRecs v (snapStep v x0 r) rs

theorem minPRecs_of (v : Variant) (rs : List (XRec K D)) :
    ∀ x0, PRecsOf v x0 rs (minPRecs v x0 rs) := by
  induction rs with
  | nil => intro _; trivial
  | cons r rs ih => intro x0; exact ⟨minPRec_of _ _, ih _⟩

theorem replayP_absorbs (v : Variant) (rs : List (XRec K D)) :
    ∀ (x0 : Heap K D × List Addr × List Addr) (ps : List (PRec K D)) (x : XLoc K → XVal K D),
      PRecsOf v x0 rs ps →
      (∀ l, (∀ p ∈ ps, ¬ p.W l) → x l = diskTbl x0 l) →
      replayP x ps = diskTbl (snapFold v x0 rs) := by
  induction rs with
  | nil =>
    intro x0 ps x hp hx
    cases ps with
    | nil => funext l; exact hx l (fun p hp => by cases hp)
    | cons p ps => cases hp
  | cons r rs ih =>
    intro x0 ps x hp hx
    cases ps with
    | nil => cases hp
    | cons p ps =>
      obtain ⟨h1, h2⟩ := hp
      show replayP (applyP x p) ps = diskTbl (snapFold v (snapStep v x0 r) rs)
      apply ih _ _ _ h2
      intro l hl
      by_cases hw : p.W l
      · simp only [applyP, hw, if_true]; exact h1.1 l hw
      · simp only [applyP, hw, if_false]
        rw [h1.2 l hw]
        apply hx
        intro p' hp'
        rcases List.mem_cons.mp hp' with e | e
        · rw [e]; exact hw
        · exact hl p' e

theorem replayP_other (ps : List (PRec K D)) :
    ∀ (x : XLoc K → XVal K D) (l : XLoc K), (∀ p ∈ ps, ¬ p.W l) → replayP x ps l = x l := by
  induction ps with
  | nil => intro x l _; rfl
  | cons p ps ih =>
    intro x l h
    show replayP (applyP x p) ps l = x l
    rw [ih _ l (fun p' hp' => h p' (List.mem_cons_of_mem _ hp'))]
    simp only [applyP, h p List.mem_cons_self, if_false]

theorem diskTbl_claims (h : Heap K D) (f c c' : List Addr) : diskTbl (h, f, c) = diskTbl (h, f, c') := by
  funext l; cases l <;> rfl

end Pdb.MultiTree
