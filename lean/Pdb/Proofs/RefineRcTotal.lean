/-
R5, totality (progress) for hash columns with `preimage` (with or without reference counters).

On these columns the index-model steps a physical action amounts to depend on the P1 cell of the
key BEFORE the action (a `Set` of a present key writes no index entry: the counter is bumped or
the operation is skipped; a `Dereference` removes the entry only when the counter reaches zero),
so the mirrored action list is computed from the action list and P1's specification table
(`rMirror`: a function of the input alone, threading `Pdb.applyOps`), not from a state of the
model.

`rprog_run`: if the C09 input-side invariant `Index.TotL` holds for the mirrored list, the
physical run `rRun` is `.ok` and `RAllBounded`.  The induction carries, besides the simulation
`SimR`, the invariants of C09's totality proof (`Good`, `TierLink`, `TotL`); a counter update is a
stutter step of the index model (`setVal` on a live slot), which preserves all three.
-/
import Pdb.Proofs.RefineRc3
import Pdb.Proofs.RefineTotal

namespace Pdb.RefineRc
open Pdb.Gen Pdb.Index Pdb.ValueTable Pdb.Refine

/-! ## the mirrored action list -/

/-- index-model actions of one planned write, given the P1 cell of its key before the write -/
def wMirror (kind : Pdb.Kind) (cmp : Bytes → Bytes) (thr : Nat) :
    Pdb.Cell Bytes → Key → ROp → List Index.Action
  | none, k, .set v =>
    [.set k (tierFor cmp thr (refCounted kind) (tkey k) v).2
      (extForR cmp thr (refCounted kind) k v) (codeCell v 1)]
  | none, _, .deref => []
  | none, _, .ref => []
  | some _, _, .set _ => []
  | some _, _, .ref => []
  | some c, k, .deref => if refCounted kind = true ∧ ¬ goes false c.2 then [] else [.del k]

/-- index-model actions of one action, given P1's table before it -/
def rMirror1 (kind : Pdb.Kind) (cmp : Bytes → Bytes) (thr : Nat) (T : Pdb.Tbl Key Bytes) :
    RAction → List Index.Action
  | .set k v => wMirror kind cmp thr (T k) k (.set v)
  | .deref k => wMirror kind cmp thr (T k) k .deref
  | .ref k => wMirror kind cmp thr (T k) k .ref
  | .reindex => [.reindex]
  | .enact => [.enact]
  | .reopen => [.reopen]
  | .relaunch => [.relaunch]

/-- THE MIRRORED ACTION LIST of a history of a column of kind `kind` that starts from P1's table
`T`: a function of (kind, compressor, threshold, table, action list) alone -/
def rMirror (kind : Pdb.Kind) (cmp : Bytes → Bytes) (thr : Nat) :
    Pdb.Tbl Key Bytes → List RAction → List Index.Action
  | _, [] => []
  | T, a :: as =>
    rMirror1 kind cmp thr T a ++ rMirror kind cmp thr (Pdb.applyOps (fun _ => kind) T a.ops) as

/-! ## small lemmas -/

theorem SimR.pbounded {rc cmp thr p s} (hS : SimR rc cmp thr p s) (hB : Bounded s) : PBounded p := by
  refine ⟨by rw [hS.current]; exact hB.bits, fun tier ht => ?_⟩
  obtain ⟨L, hr⟩ := hS.vs.rep tier ht
  have := hr.filled
  simp only [storeOfR] at this
  rw [this]; exact hB.filled tier ht

theorem sim_ixopR_t {rc cmp thr p s s'} (f : Col → Res)
    (hf : ∀ (s : Col) V T N, f (s.withVals V T N) = (f s).map (·.withVals V T N))
    (hcfg : ∀ s s', f s = .ok s' → s'.cfg = s.cfg)
    (hS : SimR rc cmp thr p s) (hfs : f s = .ok s') :
    ∃ p', liftIx p (f p.ix) = .ok p' ∧ SimR rc cmp thr p' s' := by
  have h := ixop_prog f hf hS.ix hfs
  obtain ⟨s'', g1, g2⟩ := sim_ixopR f hf hcfg hS h
  rw [hfs] at g1
  injection g1 with g1
  subst g1
  exact ⟨_, h, g2⟩

/-- one action of the index model from C09's input-side invariant: it succeeds and the invariants
hold for the remaining actions (the step of `Index.runA_total`) -/
theorem idx_step {U : Key → Prop} {s : Col} {m : Key → Option Val} {mt : Key → Option Nat}
    (hU : Univ U) (hG : Good U s m) (hL : TierLink U s m mt) (hex : s.cfg.exact = true)
    (hgrow : s.cfg.growOnMove = true) (K : Nat) (hK16 : 16 ≤ K) (hK : K ≤ 49) (a : Index.Action)
    (ha : ActOK U a) (L : List Code) (rest : List Index.Action) (hT : TotL K L mt s (a :: rest)) :
    ∃ s1 L1, stepA s a = .ok s1 ∧ Good U s1 (specStep m a) ∧
      TierLink U s1 (specStep m a) (tierStep mt a) ∧ TotL K L1 (tierStep mt a) s1 rest ∧
      s1.cfg = s.cfg := by
  rcases stepA_total hU hG hL hgrow K hK16 hK a ha L rest hT with hp | ⟨s1, L1, h1, hT1⟩
  · exact absurd hp (stepA_ne_panic hG hex a)
  · have hB1 := hT1.bounded
    have hG1 := stepA_ok hU hG hex hgrow a ha h1 hB1
    have hfil : ∀ tier, tier < 256 → (s.tier tier).filled < 2 ^ 56 := by
      intro tier ht
      have h2 := hT.filled tier ht
      have : 2 ^ (K + 6) ≤ 2 ^ 55 := Nat.pow_le_pow_right (by omega) (by omega)
      omega
    have hL1 := stepA_link hU hG hgrow hL a ha hfil h1 hG1
    exact ⟨s1, L1, h1, hG1, hL1, hT1, stepA_cfg s s1 a h1⟩

/-- a counter update (a new value under the same key tail in a live slot) is a stutter step: the
invariants of the totality proof are kept -/
theorem stutter_setVal {U : Key → Prop} {s : Col} {m : Key → Option Val} {mt : Key → Option Nat}
    {K : Nat} {L : List Code} {rest : List Index.Action}
    (hU : Univ U) (hG : Good U s m) (hL : TierLink U s m mt) (hT : TotL K L mt s rest)
    (k : Key) (hk : U k) (a : Nat) (w v : Val) (hm : m k = some w)
    (hl : s.tailAt a = some k.tail) :
    Good U (s.setVal a (some ⟨k.tail, v⟩) s.nLive) (Index.upd m k (some v)) ∧
    TierLink U (s.setVal a (some ⟨k.tail, v⟩) s.nLive) (Index.upd m k (some v)) mt ∧
    TotL K L mt (s.setVal a (some ⟨k.tail, v⟩) s.nLive) rest := by
  have ht : ∀ x, (s.setVal a (some ⟨k.tail, v⟩) s.nLive).tailAt x = s.tailAt x := by
    intro x
    rw [Col.tailAt_setVal]
    by_cases h : a = x
    · subst h; simp [hl]
    · simp [h]
  refine ⟨good_setVal hU hG k hk a v hl, ⟨fun k' => ?_, fun k' hk' x hx => ?_⟩, ?_⟩
  · simp only [Index.upd]
    by_cases e : k' = k
    · subst e
      simp only [if_true]
      constructor
      · intro h0
        have := (hL.dom k').1 h0
        rw [hm] at this; cases this
      · intro h0; cases h0
    · simp only [e, if_false]
      exact hL.dom k'
  · rw [ht] at hx
    exact hL.tier k' hk' x hx
  · exact hT.frame hT.le (fun _ => rfl) (Nat.le_max_left _ _)

/-! ## value-table operations: they succeed -/

/-- `write_new_value_plan` succeeds, and leaves the table below the physical limit when the index
model's allocator does -/
theorem insertR_prog {rc cmp thr p s} (h : VSimR rc cmp thr p s) (k : Key) (v : Bytes)
    (hpre : (p.vt (tierFor cmp thr rc (tkey k) v).2).filled ≤ 2 ^ 56)
    (hnp : extForR cmp thr rc k v < 2 ^ 62)
    (hpostS : ((((s.alloc (tierFor cmp thr rc (tkey k) v).2).2.tier
        (tierFor cmp thr rc (tkey k) v).2).resize
        (s.alloc (tierFor cmp thr rc (tkey k) v).2).1 (extForR cmp thr rc k v)).filled ≤ 2 ^ 56)) :
    ∃ r, writeChain (p.vt (tierFor cmp thr rc (tkey k) v).2) (tkey k)
        (tierFor cmp thr rc (tkey k) v).1.1 none (tierFor cmp thr rc (tkey k) v).1.2 = .ok r ∧
      r.table.filled ≤ 2 ^ 56 := by
  have ht := tier_ltR cmp thr rc (tkey k) v
  unfold extForR at hnp hpostS
  generalize htf : tierFor cmp thr rc (tkey k) v = tf at *
  obtain ⟨L, hr⟩ := h.rep tf.2 ht
  have hok : WriteOk (p.vt tf.2) (tkey k) tf.1.1 := by
    rw [← htf]
    exact C06_tier_writeOk cmp thr rc (tkey k) v (tkey_ok k) _ (by rw [htf]; exact h.cfgs tf.2 ht)
  have hnpe : numParts (p.vt tf.2) (TKey.partialKey (encTail k.tail)) tf.1.1 =
      numParts (tableOfTier rc tf.2) (tkey k) tf.1.1 := numParts_cfg _ _ _ _ (h.cfgs tf.2 ht)
  have hb : (p.vt tf.2).filled + numParts (p.vt tf.2) (TKey.partialKey (encTail k.tail)) tf.1.1
      ≤ 2 ^ 64 := by
    rw [hnpe]
    have hpos := @numParts_pos (tableOfTier rc tf.2) (tkey k) tf.1.1
    omega
  obtain ⟨r', h1, h2, h3, h4, h5⟩ := hr.insert (encTail k.tail) tf.1.1 tf.1.2 hok hb
  rw [hnpe] at h3
  refine ⟨r', h1, ?_⟩
  have hal := storeOfR_alloc (cmp := cmp) (thr := thr) s tf.2
  have e := h3.filled
  have e' : ((storeOfR cmp thr s tf.2).insert (encTail k.tail, tf.1.1, tf.1.2)
      (numParts (tableOfTier rc tf.2) (tkey k) tf.1.1 - 1)).2.tier =
      ((s.alloc tf.2).2.tier tf.2).resize (s.alloc tf.2).1
        (numParts (tableOfTier rc tf.2) (tkey k) tf.1.1 - 1) := by
    show ((storeOfR cmp thr s tf.2).alloc.2.tier).resize (storeOfR cmp thr s tf.2).alloc.1 _ = _
    rw [hal.1, hal.2.1]
  rw [e'] at e
  rw [e]; exact hpostS

/-- `write_plan_new`, backward -/
theorem prog_writeNewR {rc cmp thr p s s'} (hS : SimR rc cmp thr p s) (k : Key) (v : Bytes)
    (hB : PBounded p) (hnp : extForR cmp thr rc k v < 2 ^ 62)
    (hi : writeNew s k (tierFor cmp thr rc (tkey k) v).2 (extForR cmp thr rc k v) (codeCell v 1) = .ok s')
    (hBs' : Bounded s') :
    ∃ p', pWriteNew p k (tierFor cmp thr rc (tkey k) v) = .ok p' ∧ SimR rc cmp thr p' s' := by
  have ht := tier_ltR cmp thr rc (tkey k) v
  unfold writeNew at hi
  simp only at hi
  have hpostS : ((((s.alloc (tierFor cmp thr rc (tkey k) v).2).2.tier
      (tierFor cmp thr rc (tkey k) v).2).resize
      (s.alloc (tierFor cmp thr rc (tkey k) v).2).1 (extForR cmp thr rc k v)).filled ≤ 2 ^ 56) := by
    have ht' := insertLoop_tiers _ _ _ _ _ hi
    have := hBs'.filled _ ht
    rw [tier_of_tiers ht', Col.tier_resize, if_pos rfl] at this
    exact this
  obtain ⟨r, hw, hpost⟩ := insertR_prog hS.vs k v (hB.filled _ ht) hnp hpostS
  obtain ⟨e2, e3⟩ := vsim_insertR hS.vs k v
    ((s.alloc (tierFor cmp thr rc (tkey k) v).2).2.nLive + 1) r hw (hB.filled _ ht) hpost
  unfold pWriteNew pInsertVal
  rw [hw]
  simp only
  rw [e2]
  have hix : (p.setVT (tierFor cmp thr rc (tkey k) v).2 r.table).ix =
      strip (((s.alloc (tierFor cmp thr rc (tkey k) v).2).2.setVal
        (Address.new (s.alloc (tierFor cmp thr rc (tkey k) v).2).1
          (tierFor cmp thr rc (tkey k) v).2) (some ⟨k.tail, codeCell v 1⟩)
        ((s.alloc (tierFor cmp thr rc (tkey k) v).2).2.nLive + 1)).resize
        (tierFor cmp thr rc (tkey k) v).2 (s.alloc (tierFor cmp thr rc (tkey k) v).2).1
        (extForR cmp thr rc k v)) := by
    rw [setVT_ix]
    show p.ix = strip (s.alloc (tierFor cmp thr rc (tkey k) v).2).2
    rw [strip_alloc]; exact hS.ix
  exact sim_ixopR_t
    (fun x => insertLoop x k.pre (Address.new (s.alloc (tierFor cmp thr rc (tkey k) v).2).1
      (tierFor cmp thr rc (tkey k) v).2) LOOP_FUEL)
    (fun x V T N => insertLoop_hf _ _ _ x V T N) (fun x x' hx => insertLoop_cfg _ _ _ x x' hx)
    ⟨hix, e3⟩ hi

/-- the removal of a found key succeeds on the physical column -/
theorem prog_removeR {rc cmp thr p s} {U : Key → Prop} (hS : SimR rc cmp thr p s)
    (hI : IdxInv U s) (k : Key) (j sub a : Nat) (hs : searchAll s k = some (j, sub, a))
    (hB : PBounded p) : ∃ p', pWriteExisting p k none j sub a = .ok p' := by
  obtain ⟨w, hw⟩ := found_val hI k j sub a hs
  obtain ⟨t', e1, _, _⟩ := vsim_removeR hS.vs 0 a _ hw (hB.filled _ (size_tier_lt a))
  unfold pWriteExisting
  have hf : pFrees none a = true := rfl
  rw [hf]
  simp only [if_true]
  unfold pWriteExisting0
  simp only
  rw [e1]
  simp only
  cases ((p.setVT (Address.size_tier a) t').ix.tableAt j).remove k.pre sub with
  | none => exact ⟨_, rfl⟩
  | some t => exact ⟨_, rfl⟩

/-- removal of a found key: the physical step succeeds and is the `del` step of the index model -/
theorem rprog_remove {rc cmp thr p s s1} {U : Key → Prop} (hS : SimR rc cmp thr p s)
    (hI : IdxInv U s) (k : Key) (j sub a : Nat) (hs : searchAll s k = some (j, sub, a))
    (hB : PBounded p) (hstep : stepA s (.del k) = .ok s1) :
    ∃ p', pWriteExisting p k none j sub a = .ok p' ∧ SimR rc cmp thr p' s1 := by
  obtain ⟨p', h⟩ := prog_removeR hS hI k j sub a hs hB
  obtain ⟨s', e1, hS'⟩ := sim_removeR' hS hI k j sub a hs hB h
  have : stepA s (.del k) = .ok s' := by
    simp only [stepA]
    unfold write
    rw [hs]
    exact e1
  rw [hstep] at this
  injection this with this
  subst this
  exact ⟨p', h, hS'⟩

/-! ## the invariant of the induction -/

structure RInv (kind : Pdb.Kind) (cmp : Bytes → Bytes) (thr : Nat) (U : Key → Prop) (K : Nat)
    (p : PCol) (s : Col) (m : Key → Option Val) (mt : Key → Option Nat) (L : List Code)
    (rest : List Index.Action) : Prop where
  sim : SimR (refCounted kind) cmp thr p s
  good : Good U s m
  link : TierLink U s m mt
  tot : TotL K L mt s rest
  ex : s.cfg.exact = true
  gr : s.cfg.growOnMove = true

theorem RInv.pbounded {kind cmp thr U K p s m mt L rest}
    (h : RInv kind cmp thr U K p s m mt L rest) : PBounded p := h.sim.pbounded h.tot.bounded

/-- PROGRESS of one planned write on a column of kind preimage or rc -/
theorem rprog_write {kind : Pdb.Kind} {cmp thr} {U : Key → Prop} {K : Nat} {p s m mt L}
    (hkind : kind ≠ .plain) (hU : PUniv U) (hK16 : 16 ≤ K) (hK : K ≤ 49)
    (k : Key) (hk : U k) (op : ROp) (rest : List Index.Action)
    (hI : RInv kind cmp thr U K p s m mt L (wMirror kind cmp thr (liftC m k) k op ++ rest)) :
    ∃ p' s' m' mt' L', rWrite kind cmp thr p k op = .ok p' ∧
      RInv kind cmp thr U K p' s' m' mt' L' rest ∧
      liftC m' = Pdb.applyOp (fun _ => kind) (liftC m) (op.toOp k) := by
  have hS := hI.sim
  have hG := hI.good
  have hB := hI.pbounded
  have hT := hI.tot
  unfold rWrite
  rw [pSearchAll_eqR hS hU hG.idx k hk]
  rw [applyOp_eq]
  cases hs : searchAll s k with
  | none =>
    simp only
    have hm := lookup_absent hU.univ hG k hk hs
    have hTk : liftC m k = none := by simp only [liftC, hm, Option.map_none]
    rw [hTk] at hT ⊢
    cases op with
    | set v =>
      simp only
      have hT' : TotL K L mt s (.set k (tierFor cmp thr (refCounted kind) (tkey k) v).2
          (extForR cmp thr (refCounted kind) k v) (codeCell v 1) :: rest) := hT
      have hact : ActOK U (.set k (tierFor cmp thr (refCounted kind) (tkey k) v).2
          (extForR cmp thr (refCounted kind) k v) (codeCell v 1)) :=
        ⟨hk, tier_ltR cmp thr _ (tkey k) v⟩
      obtain ⟨s1, L1, h1, hG1, hL1, hT1, hc⟩ := idx_step hU.univ hG hI.link hI.ex hI.gr K hK16 hK _
        hact L rest hT'
      have hnp : extForR cmp thr (refCounted kind) k v < 2 ^ 62 := by
        have := hT'.filled _ (tier_ltR cmp thr (refCounted kind) (tkey k) v)
        simp only [nSlots, slotCost] at this
        have h2 : (2 : Nat) ^ (K + 6) ≤ 2 ^ 55 := Nat.pow_le_pow_right (by decide) (by omega)
        omega
      have hi : writeNew s k (tierFor cmp thr (refCounted kind) (tkey k) v).2
          (extForR cmp thr (refCounted kind) k v) (codeCell v 1) = .ok s1 := by
        simp only [stepA] at h1
        unfold write at h1
        rw [hs] at h1
        exact h1
      obtain ⟨p', e1, hS'⟩ := prog_writeNewR hS k v hB hnp hi hT1.bounded
      refine ⟨p', s1, _, _, L1, e1, ⟨hS', hG1, hL1, hT1, by rw [hc]; exact hI.ex,
        by rw [hc]; exact hI.gr⟩, ?_⟩
      simp only [specStep]
      rw [liftC_upd_some, valOf_codeCell, cntOf_codeCell]
      cases kind with
      | plain => exact absurd rfl hkind
      | preimage => rfl
      | rc => rfl
    | deref =>
      simp only
      refine ⟨p, s, m, mt, L, rfl, ⟨hS, hG, hI.link, hT, hI.ex, hI.gr⟩, ?_⟩
      cases kind <;> exact (upd_self _ k _ hTk).symm
    | ref =>
      simp only
      refine ⟨p, s, m, mt, L, rfl, ⟨hS, hG, hI.link, hT, hI.ex, hI.gr⟩, ?_⟩
      cases kind <;> exact (upd_self _ k _ hTk).symm
  | some r =>
    obtain ⟨j, sub, a⟩ := r
    simp only
    obtain ⟨w, hw, hm, hl⟩ := lookup_found hU.univ hG k hk j sub a hs
    have hTk : liftC m k = some (valOf w, cntOf w) := by simp only [liftC, hm, Option.map_some]
    rw [hTk] at hT ⊢
    -- the removal, shared by preimage / rc
    have hrem : TotL K L mt s (.del k :: rest) →
        ∃ p' s' m' mt' L', pWriteExisting p k none j sub a = .ok p' ∧
          RInv kind cmp thr U K p' s' m' mt' L' rest ∧ liftC m' = Pdb.upd (liftC m) k none := by
      intro hT'
      obtain ⟨s1, L1, h1, hG1, hL1, hT1, hc⟩ := idx_step hU.univ hG hI.link hI.ex hI.gr K hK16 hK
        (.del k) hk L rest hT'
      obtain ⟨p', e1, hS'⟩ := rprog_remove hS hG.idx k j sub a hs hB h1
      exact ⟨p', s1, _, _, L1, e1, ⟨hS', hG1, hL1, hT1, by rw [hc]; exact hI.ex,
        by rw [hc]; exact hI.gr⟩, liftC_upd_none m k⟩
    unfold rWriteExisting
    cases kind with
    | plain => exact absurd rfl hkind
    | preimage =>
      have hrc : refCounted .preimage = false := rfl
      have hpi : preimage .preimage = true := rfl
      cases op with
      | set v =>
        simp only [hrc, hpi, Bool.false_eq_true, if_false, if_true]
        exact ⟨p, s, m, mt, L, rfl, ⟨hS, hG, hI.link, hT, hI.ex, hI.gr⟩, (upd_self _ k _ hTk).symm⟩
      | ref =>
        simp only [hrc, Bool.false_eq_true, if_false]
        exact ⟨p, s, m, mt, L, rfl, ⟨hS, hG, hI.link, hT, hI.ex, hI.gr⟩, (upd_self _ k _ hTk).symm⟩
      | deref =>
        simp only [hrc, Bool.false_eq_true, if_false]
        have hT' : TotL K L mt s (.del k :: rest) := by
          have : wMirror .preimage cmp thr (some (valOf w, cntOf w)) k .deref = [.del k] := by
            simp [wMirror, hrc]
          rw [this] at hT; exact hT
        exact hrem hT'
    | rc =>
      have hrc : refCounted .rc = true := rfl
      rw [hrc] at hS
      obtain ⟨b1, b2⟩ := vsim_bumpR hS.vs a k w hw true
      obtain ⟨d1, d2⟩ := vsim_bumpR hS.vs a k w hw false
      have hng : ¬ goes true (cntOf w) := fun hg => hg.1 rfl
      -- the increment, shared by Set and Reference
      have hinc : TotL K L mt s rest → ∃ p' s' m' mt' L', PRes.ok (rIncRef p a) = .ok p' ∧
          RInv .rc cmp thr U K p' s' m' mt' L' rest ∧
          liftC m' = Pdb.upd (liftC m) k (some (valOf w, Pdb.incRc (cntOf w))) := by
        intro hT'
        obtain ⟨_, hv⟩ := b2 hng
        obtain ⟨g1, g2, g3⟩ := stutter_setVal hU.univ hG hI.link hT' k hk a w
          (codeCell (valOf w) (newCount true (cntOf w))) hm hl
        refine ⟨_, _, _, mt, L, rfl, ⟨⟨?_, hv⟩, g1, g2, g3, hI.ex, hI.gr⟩, ?_⟩
        · show (p.setVT _ _).ix = _
          rw [setVT_ix, strip_setVal]; exact hS.ix
        · rw [liftC_upd_some, valOf_codeCell, cntOf_codeCell, incRc_eq]
      cases op with
      | set v =>
        simp only [hrc, if_true]
        exact hinc hT
      | ref =>
        simp only [hrc, if_true]
        exact hinc hT
      | deref =>
        simp only [hrc, if_true]
        by_cases hg : goes false (cntOf w)
        · rw [d1 hg]
          simp only [Bool.false_eq_true, if_false]
          have hT' : TotL K L mt s (.del k :: rest) := by
            have : wMirror .rc cmp thr (some (valOf w, cntOf w)) k .deref = [.del k] := by
              simp [wMirror, hg]
            rw [this] at hT; exact hT
          obtain ⟨p', s', m', mt', L', e1, e2, e3⟩ := hrem hT'
          refine ⟨p', s', m', mt', L', e1, e2, ?_⟩
          rw [e3]
          congr 1
          obtain ⟨_, g2, g3⟩ := hg
          have hLk : Pdb.LOCKED = LOCKED_REF := rfl
          have g3' : cntOf w - 1 = 0 := by
            unfold newCount at g3
            simp only [Bool.false_eq_true, if_false, g2, ne_eq, not_false_eq_true, if_true] at g3
            exact g3
          show none = Pdb.applyCell .rc (.deref k) (some (valOf w, cntOf w))
          simp only [Pdb.applyCell, hLk, if_neg g2]
          rw [if_pos (by omega)]
        · obtain ⟨e2, hv⟩ := d2 hg
          rw [e2]
          simp only [if_true]
          have hT' : TotL K L mt s rest := by
            have : wMirror .rc cmp thr (some (valOf w, cntOf w)) k .deref = [] := by
              simp [wMirror, hrc, hg]
            rw [this] at hT; exact hT
          obtain ⟨g1, g2, g3⟩ := stutter_setVal hU.univ hG hI.link hT' k hk a w
            (codeCell (valOf w) (newCount false (cntOf w))) hm hl
          refine ⟨_, _, _, mt, L, rfl, ⟨⟨?_, hv⟩, g1, g2, g3, hI.ex, hI.gr⟩, ?_⟩
          · show (p.setVT _ _).ix = _
            rw [setVT_ix, strip_setVal]; exact hS.ix
          · rw [liftC_upd_some, valOf_codeCell, cntOf_codeCell]
            congr 1
            have hLk : Pdb.LOCKED = LOCKED_REF := rfl
            show some (valOf w, newCount false (cntOf w)) =
              Pdb.applyCell .rc (.deref k) (some (valOf w, cntOf w))
            simp only [Pdb.applyCell, hLk]
            by_cases e : cntOf w = LOCKED_REF
            · rw [if_pos e]
              unfold newCount
              simp only [Bool.false_eq_true, if_false, e, ne_eq, not_true_eq_false]
            · rw [if_neg e]
              have hnc : newCount false (cntOf w) = cntOf w - 1 := by
                unfold newCount
                simp only [Bool.false_eq_true, if_false, ne_eq, e, not_false_eq_true, if_true]
              have : ¬ cntOf w ≤ 1 := by
                intro hle
                exact hg ⟨by simp, e, by rw [hnc]; omega⟩
              rw [if_neg this, hnc]

/-- PROGRESS of one action -/
theorem rprog_step {kind : Pdb.Kind} {cmp thr} {U : Key → Prop} {K : Nat} {p s m mt L}
    (hkind : kind ≠ .plain) (hU : PUniv U) (hK16 : 16 ≤ K) (hK : K ≤ 49)
    (a : RAction) (ha : RActKeys U a) (rest : List Index.Action)
    (hI : RInv kind cmp thr U K p s m mt L (rMirror1 kind cmp thr (liftC m) a ++ rest)) :
    ∃ p' s' m' mt' L', rStep kind cmp thr p a = .ok p' ∧
      RInv kind cmp thr U K p' s' m' mt' L' rest ∧
      liftC m' = Pdb.applyOps (fun _ => kind) (liftC m) a.ops := by
  have maint : ∀ (ia : Index.Action) (f : Col → Res),
      (∀ (s : Col) V T N, f (s.withVals V T N) = (f s).map (·.withVals V T N)) →
      (∀ s s', f s = .ok s' → s'.cfg = s.cfg) → (∀ x, stepA x ia = f x) → ActOK U ia →
      specStep m ia = m →
      RInv kind cmp thr U K p s m mt L (ia :: rest) →
      ∃ p' s' m' mt' L', liftIx p (f p.ix) = .ok p' ∧
        RInv kind cmp thr U K p' s' m' mt' L' rest ∧ liftC m' = liftC m := by
    intro ia f hf hcfg hst hact hsp hI'
    obtain ⟨s1, L1, h1, hG1, hL1, hT1, hc⟩ := idx_step hU.univ hI'.good hI'.link hI'.ex hI'.gr K
      hK16 hK ia hact L rest hI'.tot
    rw [hst] at h1
    obtain ⟨p', e1, hS'⟩ := sim_ixopR_t f hf hcfg hI'.sim h1
    rw [hsp] at hG1 hL1
    exact ⟨p', s1, m, _, L1, e1, ⟨hS', hG1, hL1, hT1, by rw [hc]; exact hI'.ex,
      by rw [hc]; exact hI'.gr⟩, rfl⟩
  cases a with
  | set k v => exact rprog_write hkind hU hK16 hK k ha (.set v) rest hI
  | deref k => exact rprog_write hkind hU hK16 hK k ha .deref rest hI
  | ref k => exact rprog_write hkind hU hK16 hK k ha .ref rest hI
  | reindex =>
    exact maint .reindex reindexBatch reindexBatch_withVals reindexBatch_cfg (fun _ => rfl) trivial
      rfl hI
  | enact =>
    obtain ⟨p', s', m', mt', L', e1, e2, e3⟩ := maint .enact (fun x => .ok (enactDrop x))
      (fun x V T N => by simp only [enactDrop_withVals]; rfl)
      (fun x x' hx => by injection hx with hx; subst hx; exact enactDrop_cfg x) (fun _ => rfl)
      trivial rfl hI
    exact ⟨p', s', m', mt', L', e1, e2, e3⟩
  | reopen =>
    obtain ⟨p', s', m', mt', L', e1, e2, e3⟩ := maint .reopen (fun x => .ok (reopen x))
      (fun x V T N => by simp only [reopen_withVals]; rfl)
      (fun x x' hx => by injection hx with hx; subst hx; exact reopen_cfg x) (fun _ => rfl)
      trivial rfl hI
    exact ⟨p', s', m', mt', L', e1, e2, e3⟩
  | relaunch =>
    obtain ⟨p', s', m', mt', L', e1, e2, e3⟩ := maint .relaunch (fun x => .ok (triggerReindex x))
      (fun x V T N => rfl)
      (fun x x' hx => by injection hx with hx; subst hx; rfl) (fun _ => rfl) trivial rfl hI
    exact ⟨p', s', m', mt', L', e1, e2, e3⟩

/-- PROGRESS of runs (kinds preimage and rc): from C09's input-side invariant for the mirrored
action list, the run of the physical column succeeds within the physical limits, and its final
state represents a good state of the index model whose coded table is P1's fold. -/
theorem rprog_run {kind : Pdb.Kind} {cmp thr} {U : Key → Prop} {K : Nat}
    (hkind : kind ≠ .plain) (hU : PUniv U) (hK16 : 16 ≤ K) (hK : K ≤ 49) :
    ∀ (acts : List RAction) (p : PCol) (s : Col) (m : Key → Option Val) (mt : Key → Option Nat)
      (L : List Code), (∀ a ∈ acts, RActKeys U a) →
      RInv kind cmp thr U K p s m mt L (rMirror kind cmp thr (liftC m) acts) →
      ∃ p' s' m', rRun kind cmp thr p acts = .ok p' ∧ RAllBounded kind cmp thr p acts ∧
        SimR (refCounted kind) cmp thr p' s' ∧ Good U s' m' ∧
        liftC m' = Pdb.applyOps (fun _ => kind) (liftC m) (acts.flatMap RAction.ops) := by
  intro acts
  induction acts with
  | nil =>
    intro p s m mt L _ hI
    exact ⟨p, s, m, rfl, trivial, hI.sim, hI.good, rfl⟩
  | cons a as ih =>
    intro p s m mt L hact hI
    simp only [rMirror] at hI
    obtain ⟨p1, s1, m1, mt1, L1, e1, hI1, hl⟩ := rprog_step hkind hU hK16 hK a (hact a (by simp)) _ hI
    rw [← hl] at hI1
    obtain ⟨p', s', m', e2, hb2, hS', hG', hl'⟩ := ih p1 s1 m1 mt1 L1
      (fun a' ha' => hact a' (List.mem_cons_of_mem _ ha')) hI1
    refine ⟨p', s', m', ?_, ?_, hS', hG', ?_⟩
    · simp only [rRun, e1, PRes.bind]
      exact e2
    · intro q hq
      rw [e1] at hq
      injection hq with hq
      subst hq
      exact ⟨hI1.pbounded, hb2⟩
    · rw [hl', hl, List.flatMap_cons, Pdb.applyOps_append]

end Pdb.RefineRc
