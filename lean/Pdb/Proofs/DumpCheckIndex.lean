/-
T2 soundness, index part: what `checkIndex d = true` establishes about the model state `colOf d`.
-/
import Pdb.Proofs.DumpCheck
import Pdb.Props.C14

namespace Pdb.DumpCheck
open Pdb.Gen Pdb.Index Pdb.IndexPage

/-! ## generic list / trie lemmas -/

theorem inj_of_nodup_map {α β : Type} (f : α → β) :
    ∀ (l : List α), (l.map f).Nodup → ∀ x ∈ l, ∀ y ∈ l, f x = f y → x = y := by
  intro l
  induction l with
  | nil => intro _ x hx; cases hx
  | cons a r ih =>
    intro hn x hx y hy hf
    rw [List.map_cons, List.nodup_cons] at hn
    rcases List.mem_cons.1 hx with rfl | hx'
    · rcases List.mem_cons.1 hy with rfl | hy'
      · rfl
      · exact absurd (hf ▸ List.mem_map_of_mem hy') hn.1
    · rcases List.mem_cons.1 hy with rfl | hy'
      · exact absurd (hf ▸ List.mem_map_of_mem hx') hn.1
      · exact ih hn.2 x hx' y hy' hf

theorem get_foldl_set {α β : Type} (f : β → Nat) (g : β → α) (a : Nat) (v : α) :
    ∀ (l : List β) (t0 : Trie α),
      (l.foldl (fun t x => t.set DEPTH (f x) (some (g x))) t0).get a = some v →
      (∃ x ∈ l, f x = a ∧ g x = v) ∨ t0.get a = some v := by
  intro l
  induction l with
  | nil => intro t0 h; exact Or.inr h
  | cons b r ih =>
    intro t0 h
    rw [List.foldl_cons] at h
    rcases ih _ h with ⟨x, hx, h1, h2⟩ | h'
    · exact Or.inl ⟨x, List.mem_cons_of_mem _ hx, h1, h2⟩
    · rw [Trie.get_set] at h'
      by_cases hb : f b = a
      · simp only [hb, if_true] at h'
        exact Or.inl ⟨b, List.mem_cons_self, hb, by injection h'⟩
      · simp only [hb, if_false] at h'
        exact Or.inr h'

/-! ## the abstraction `colOf` -/

theorem valAt_colOf (d : ColumnDump) (a : Nat) (sl : Slot) (h : (colOf d).valAt a = some sl) :
    ∃ x ∈ headsOf d, x.addr = a ∧ x.slot = sl := by
  have := get_foldl_set (fun x : Head => x.addr) (fun x => x.slot) a sl (headsOf d) Trie.empty h
  rcases this with h1 | h1
  · exact h1
  · rw [Trie.get_empty] at h1; cases h1

theorem tailAt_colOf (d : ColumnDump) (a tl : Nat) (h : (colOf d).tailAt a = some tl) :
    ∃ x ∈ headsOf d, x.addr = a ∧ x.slot.tail = tl := by
  obtain ⟨v, hv⟩ := (tailAt_eq_some _ a tl).1 h
  obtain ⟨x, hx, h1, h2⟩ := valAt_colOf d a _ hv
  exact ⟨x, hx, h1, by rw [h2]⟩

theorem tiers_colOf (d : ColumnDump) (t : Nat) (T : Tier) (h : (colOf d).tiers.get t = some T) :
    ∃ td ∈ d.tables, td.tier = t ∧ T = ⟨td.filled, freeOf td, chainRecs td⟩ := by
  have := get_foldl_set (fun x : TableDump => x.tier) (fun x => (⟨x.filled, freeOf x, chainRecs x⟩ : Tier)) t T
    d.tables Trie.empty h
  rcases this with ⟨x, hx, h1, h2⟩ | h1
  · exact ⟨x, hx, h1, h2.symm⟩
  · rw [Trie.get_empty] at h1; cases h1

theorem tables_colOf (d : ColumnDump) (h : d.index.isEmpty = false) :
    (colOf d).tables = d.index.map indexOf := by
  unfold Col.tables colOf
  simp only
  cases hd : d.index with
  | nil => rw [hd] at h; simp at h
  | cons x r => simp

/-! ## index tables -/

theorem addEntry_bits (t : Table) (x : Nat × Nat × Nat) : (addEntry t x).bits = t.bits := by
  unfold addEntry
  split <;> rfl

theorem addEntry_pages (t : Table) (x : Nat × Nat × Nat) (h : ∀ c, PageWF (t.page c)) :
    ∀ c, PageWF ((addEntry t x).page c) := by
  intro c
  unfold addEntry
  split
  · rename_i hx
    rw [Table.page_setPage]
    split
    · exact (h x.1).set _ _ hx
    · exact h c
  · exact h c

theorem foldl_addEntry (l : List (Nat × Nat × Nat)) :
    ∀ (t : Table), (∀ c, PageWF (t.page c)) →
      (l.foldl addEntry t).bits = t.bits ∧ ∀ c, PageWF ((l.foldl addEntry t).page c) := by
  induction l with
  | nil => intro t h; exact ⟨rfl, h⟩
  | cons x r ih =>
    intro t h
    rw [List.foldl_cons]
    have := ih (addEntry t x) (addEntry_pages t x h)
    exact ⟨by rw [this.1, addEntry_bits], this.2⟩

theorem indexOf_bits (x : IndexDump) : (indexOf x).bits = x.bits :=
  (foldl_addEntry x.entries (Table.new x.bits) (fun _ => emptyPage_wf)).1

theorem indexOf_wf (x : IndexDump) (h1 : 16 ≤ x.bits) (h2 : x.bits ≤ 49) : TableWF (indexOf x) := by
  have := foldl_addEntry x.entries (Table.new x.bits) (fun _ => emptyPage_wf)
  refine ⟨?_, ?_, this.2⟩
  · rw [indexOf_bits]; exact h1
  · rw [indexOf_bits]; exact h2

theorem hasB_iff (t : Table) (kp a : Nat) : hasB t kp a = true ↔ t.Has kp a := by
  unfold hasB Table.Has
  rw [List.any_eq_true]
  constructor
  · rintro ⟨i, hi, h⟩
    rw [Bool.and_eq_true, baseHit_iff, beq_iff_eq] at h
    exact ⟨i, List.mem_range.1 hi, h.1, h.2⟩
  · rintro ⟨i, hi, h1, h2⟩
    refine ⟨i, List.mem_range.2 hi, ?_⟩
    rw [Bool.and_eq_true, baseHit_iff, beq_iff_eq]
    exact ⟨h1, h2⟩

theorem any_hasB (ts : List Table) (kp a : Nat) :
    ts.any (hasB · kp a) = true ↔ ∃ t ∈ ts, t.Has kp a := by
  rw [List.any_eq_true]
  constructor
  · rintro ⟨t, ht, h⟩; exact ⟨t, ht, (hasB_iff t kp a).1 h⟩
  · rintro ⟨t, ht, h⟩; exact ⟨t, ht, (hasB_iff t kp a).2 h⟩

/-! ## keys of the live heads -/

theorem keyFor_some (s : Col) (cands : Trie (List Nat)) (ex : Option (List Key)) (h : Head) (k : Key)
    (hk : keyFor s cands ex h = some k) :
    k.tail = h.slot.tail ∧ (∃ t ∈ s.tables, t.Has k.pre h.addr) ∧ expectedOk ex k = true := by
  unfold keyFor at hk
  cases hf : (((cands.get h.addr).getD []).map (composePre · h.slot.tail)).find?
      (fun pre => s.tables.any (hasB · pre h.addr) && expectedOk ex ⟨pre, h.slot.tail⟩) with
  | none => rw [hf] at hk; cases hk
  | some pre =>
    rw [hf] at hk
    simp only [Option.map_some, Option.some.injEq] at hk
    have hp := List.find?_some hf
    rw [Bool.and_eq_true] at hp
    subst hk
    exact ⟨rfl, (any_hasB _ _ _).1 hp.1, hp.2⟩

theorem keyedOf_ok (s : Col) (cands : Trie (List Nat)) (ex : Option (List Key)) :
    ∀ (hs : List Head) (ks : List (Head × Key)), keyedOf s cands ex hs = .ok ks →
      ks.map (·.1) = hs ∧ ∀ x ∈ ks, x.2.tail = x.1.slot.tail ∧
        (∃ t ∈ s.tables, t.Has x.2.pre x.1.addr) ∧ expectedOk ex x.2 = true := by
  intro hs
  induction hs with
  | nil =>
    intro ks h
    unfold keyedOf at h
    injection h with h
    subst h
    exact ⟨rfl, fun x hx => by cases hx⟩
  | cons h0 r ih =>
    intro ks h
    unfold keyedOf at h
    cases hk : keyFor s cands ex h0 with
    | none => rw [hk] at h; cases h
    | some k =>
      rw [hk] at h
      simp only at h
      cases hr : keyedOf s cands ex r with
      | error e => rw [hr] at h; cases h
      | ok r' =>
        rw [hr] at h
        simp only at h
        injection h with h
        subst h
        obtain ⟨i1, i2⟩ := ih r' hr
        refine ⟨by simp [i1], fun x hx => ?_⟩
        rcases List.mem_cons.1 hx with rfl | hx'
        · exact keyFor_some s cands ex h0 k hk
        · exact i2 x hx'

/-! ## what the cascade of `indexReason` establishes -/

theorem badEntries_none : ∀ (l : List IndexDump) (n : Nat), badEntries l n = none →
    ∀ x ∈ l, x.entries.all (entryOk x.bits (indexOf x)) = true := by
  intro l
  induction l with
  | nil => intro _ _ x hx; cases hx
  | cons a r ih =>
    intro n h x hx
    unfold badEntries at h
    split at h
    · rename_i ha
      rcases List.mem_cons.1 hx with rfl | hx'
      · exact ha
      · exact ih _ h x hx'
    · cases h

theorem firstBadTable_none : ∀ (l : List TableDump), firstBadTable l = none →
    ∀ t ∈ l, SlotsOk t := by
  intro l
  induction l with
  | nil => intro _ t ht; cases ht
  | cons a r ih =>
    intro h t ht
    unfold firstBadTable at h
    split at h
    · cases h
    · rename_i ha
      rcases List.mem_cons.1 ht with rfl | ht'
      · exact slotsReason_none _ ha
      · exact ih h t ht'

/-- everything `indexReason d = none` establishes -/
structure IndexOk (d : ColumnDump) : Prop where
  nonempty : d.index.isEmpty = false
  bits : ∀ x ∈ d.index, 16 ≤ x.bits ∧ x.bits ≤ 49
  entries : ∀ x ∈ d.index, x.entries.all (entryOk x.bits (indexOf x)) = true
  order : List.Pairwise (· < ·) (((colOf d).older ++ [(colOf d).current]).map (·.bits))
  prog0 : (colOf d).older = [] → (colOf d).progress = 0
  tables : ∀ t ∈ d.tables, SlotsOk t
  tiers : (∀ t ∈ d.tables, t.tier < 256) ∧ (d.tables.map (·.tier)).Nodup
  heads : ∀ h ∈ headsOf d, (colOf d).valAt h.addr = some h.slot ∧ h.slot.tail < 2 ^ 208
  tails : ((headsOf d).map (·.slot.tail)).Nodup
  keyedEq : keyedOf (colOf d) (candsOf d.index) d.expected (headsOf d) = .ok (keyed d)
  pre : ∀ x ∈ keyed d, x.2.pre < 2 ^ 64
  prog : progOk (colOf d) (keyed d) = true
  expected : ∀ ex, d.expected = some ex →
    (∀ k ∈ ex, k ∈ keysOf d) ∧ (∀ k ∈ keysOf d, k ∈ ex)
  absSlots : absSlotsOk d (colOf d) = true

theorem guardR_none (c : Bool) (r : String) (k : Unit → Option String) :
    guardR c r k = none ↔ c = true ∧ k () = none := by
  unfold guardR
  cases c <;> simp

theorem orR_none (o : Option String) (k : Unit → Option String) :
    orR o k = none ↔ o = none ∧ k () = none := by
  unfold orR
  cases o <;> simp

theorem indexReason_none (d : ColumnDump) (h : indexReason d = none) : IndexOk d := by
  rw [indexReason, indexReasonAux] at h
  rw [guardR_none] at h; obtain ⟨h1, h⟩ := h
  rw [guardR_none] at h; obtain ⟨h2, h⟩ := h
  rw [orR_none] at h; obtain ⟨h3, h⟩ := h
  rw [guardR_none] at h; obtain ⟨h4, h⟩ := h
  rw [guardR_none] at h; obtain ⟨h5, h⟩ := h
  rw [orR_none] at h; obtain ⟨h6, h⟩ := h
  rw [guardR_none] at h; obtain ⟨h7, h⟩ := h
  rw [guardR_none] at h; obtain ⟨h8, h⟩ := h
  rw [guardR_none] at h; obtain ⟨h9, h⟩ := h
  rw [reachReason] at h
  cases h10 : keyedOf (colOf d) (candsOf d.index) d.expected (headsOf d) with
  | error e => rw [h10] at h; cases h
  | ok ks =>
  rw [h10] at h
  simp only at h
  rw [keyedReason] at h
  rw [guardR_none] at h; obtain ⟨h11, h⟩ := h
  rw [guardR_none] at h; obtain ⟨h12, h⟩ := h
  rw [guardR_none] at h; obtain ⟨h13, h⟩ := h
  rw [guardR_none] at h; obtain ⟨h14, _⟩ := h
  have hkeyed : keyed d = ks := by unfold keyed; rw [h10]
  refine
    { nonempty := by simpa using h1
      bits := ?_
      entries := ?_
      order := of_decide_eq_true h4
      prog0 := ?_
      tables := firstBadTable_none _ h6
      tiers := ?_
      heads := ?_
      tails := of_decide_eq_true h9
      keyedEq := by rw [hkeyed]; exact h10
      pre := ?_
      prog := by rw [hkeyed]; exact h12
      expected := ?_
      absSlots := ?_ }
  · intro x hx
    rw [List.all_eq_true] at h2
    exact of_decide_eq_true (h2 x hx)
  · cases hb : badEntries d.index 0 with
    | none => exact badEntries_none _ _ hb
    | some n => rw [hb] at h3; cases h3
  · intro ho
    rw [ho] at h5
    simpa using h5
  · rw [Bool.and_eq_true, List.all_eq_true] at h7
    exact ⟨fun t ht => of_decide_eq_true (h7.1 t ht), of_decide_eq_true h7.2⟩
  · intro x hx
    rw [List.all_eq_true] at h8
    have := h8 x hx
    rw [Bool.and_eq_true, beq_iff_eq] at this
    exact ⟨this.1, of_decide_eq_true this.2⟩
  · intro x hx
    rw [hkeyed] at hx
    rw [List.all_eq_true] at h11
    exact of_decide_eq_true (h11 x hx)
  · intro ex hex
    rw [hex, expectedMatch] at h13
    simp only [Bool.and_eq_true, List.all_eq_true, List.any_eq_true, beq_iff_eq] at h13
    unfold keysOf
    rw [hkeyed]
    constructor
    · intro k hk
      obtain ⟨x, hx, he⟩ := h13.1 k hk
      exact List.mem_map.2 ⟨x, hx, he⟩
    · intro k hk
      obtain ⟨x, hx, he⟩ := List.mem_map.1 hk
      obtain ⟨y, hy, he'⟩ := h13.2 x hx
      rw [← he, ← he']; exact hy
  · exact h14

theorem checkIndex_ok (d : ColumnDump) (h : checkIndex d = true) : IndexOk d := by
  apply indexReason_none
  unfold checkIndex at h
  cases hr : indexReason d with
  | none => rfl
  | some r => rw [hr] at h; cases h

end Pdb.DumpCheck
