/-
R7: the record of a transaction applied to (a state that reads like) the state before gives the
state after; histories of transactions; replay of their records over a torn enactment.
-/
import Pdb.Proofs.PhysRecFrame

namespace Pdb.PhysRec
open Pdb.Gen Pdb.Index Pdb.IndexPage Pdb.ValueTable Pdb.Refine

theorem planWrites_eq (cmp : Bytes → Bytes) (thr : Nat) (p p' : PCol) (tx : Tx)
    (hrun : runTx cmp thr p tx = some p') :
    planWrites cmp thr p tx =
      diffWrites (cands (txTouched cmp thr p tx) p p') (mem p) (mem p') := by
  simp [planWrites, hrun]

theorem planWrites_ok (cmp : Bytes → Bytes) (thr : Nat) (p p' : PCol) (tx : Tx)
    (hrun : runTx cmp thr p tx = some p') (hng : NoGrow p p') :
    ∀ w ∈ planWrites cmp thr p tx, Write.Ok (shape p) w := by
  rw [planWrites_eq cmp thr p p' tx hrun]
  exact fun w hw => diff_ok _ p p' hng w hw

/-- core of R7_full, for any state `q` that has the tables of `p` and reads like `p` -/
theorem full_mem (cmp : Bytes → Bytes) (thr : Nat) (p p' q : PCol) (tx : Tx)
    (hrun : runTx cmp thr p tx = some p') (hng : NoGrow p p')
    (hqs : shape q = shape p) (hqm : ∀ l, Loc.Ok l → mem q l = mem p l) :
    (∀ l, Loc.Ok l → mem (applyWrites q (planWrites cmp thr p tx)) l = mem p' l) ∧
      Static q (applyWrites q (planWrites cmp thr p tx)) := by
  have hok : ∀ w ∈ planWrites cmp thr p tx, Write.Ok (shape q) w := by
    rw [hqs]; exact planWrites_ok cmp thr p p' tx hrun hng
  obtain ⟨hm, hst⟩ := mem_applyWrites _ q hok
  refine ⟨fun l hl => ?_, hst⟩
  rw [hm l hl, mapplys_congr _ _ (mem p) l (hqm l hl), planWrites_eq cmp thr p p' tx hrun,
    mapplys_diff_self]
  split
  · rfl
  · rename_i hn
    exact (frame_holds cmp thr p p' tx hrun l hl hn).symm

/-- A history of transactions without index growth, each planned on the state its predecessor left
(`runTx` = `pRun`), with the physical records `planWrites` of the transactions. -/
inductive Hist (cmp : Bytes → Bytes) (thr : Nat) : PCol → List Tx → List (List Write) → PCol → Prop
  | nil (p : PCol) : Hist cmp thr p [] [] p
  | cons {p p1 p' : PCol} {tx : Tx} {txs : List Tx} {recs : List (List Write)} :
      runTx cmp thr p tx = some p1 → NoGrow p p1 → Hist cmp thr p1 txs recs p' →
      Hist cmp thr p (tx :: txs) (planWrites cmp thr p tx :: recs) p'

theorem Hist.shape {cmp thr p txs recs p'} (h : Hist cmp thr p txs recs p') : shape p' = shape p := by
  induction h with
  | nil p => rfl
  | cons _ hng _ ih => exact ih.trans hng

theorem Hist.ok {cmp thr p txs recs p'} (h : Hist cmp thr p txs recs p') :
    ∀ r ∈ recs, ∀ w ∈ r, Write.Ok (PhysRec.shape p) w := by
  induction h with
  | nil p => intro r hr; cases hr
  | cons hrun hng _ ih =>
    intro r hr w hw
    rcases List.mem_cons.1 hr with rfl | hr
    · exact planWrites_ok _ _ _ _ _ hrun hng w hw
    · have := ih r hr w hw
      rwa [hng] at this

theorem Hist.flatten_ok {cmp thr p txs recs p'} (h : Hist cmp thr p txs recs p') :
    ∀ w ∈ recs.flatten, Write.Ok (PhysRec.shape p) w := by
  intro w hw
  obtain ⟨r, hr, hwr⟩ := List.mem_flatten.1 hw
  exact h.ok r hr w hwr

theorem Hist.length {cmp thr p txs recs p'} (h : Hist cmp thr p txs recs p') :
    recs.length = txs.length := by
  induction h with
  | nil p => rfl
  | cons _ _ _ ih => simp [ih]

/-- all records of a history, applied in order to a state that reads like its start, give a state
that reads like its end -/
theorem Hist.mem {cmp thr p txs recs p'} (h : Hist cmp thr p txs recs p') :
    ∀ q, PhysRec.shape q = PhysRec.shape p → (∀ l, Loc.Ok l → PhysRec.mem q l = PhysRec.mem p l) →
      (∀ l, Loc.Ok l → PhysRec.mem (applyWrites q recs.flatten) l = PhysRec.mem p' l) ∧
        Static q (applyWrites q recs.flatten) := by
  induction h with
  | nil p => intro q _ hqm; exact ⟨hqm, Static.refl q⟩
  | @cons p p1 p' tx txs recs hrun hng _ ih =>
    intro q hqs hqm
    obtain ⟨h1, s1⟩ := full_mem cmp thr p p1 q tx hrun hng hqs hqm
    obtain ⟨h2, s2⟩ := ih (applyWrites q (planWrites cmp thr p tx))
      (s1.shape.trans (hqs.trans hng.symm)) h1
    rw [List.flatten_cons, applyWrites_append]
    exact ⟨h2, s1.trans s2⟩

/-- torn + redo on the column -/
theorem col_redo_torn (p : PCol) (ws : List Write) (j : Nat)
    (hok : ∀ w ∈ ws, Write.Ok (shape p) w) (l : Loc) (hl : Loc.Ok l) :
    mem (applyWrites (applyWrites p (ws.take j)) ws) l = mem (applyWrites p ws) l := by
  obtain ⟨h1, s1⟩ := mem_applyWrites (ws.take j) p (fun w hw => hok w (List.mem_of_mem_take hw))
  obtain ⟨h2, _⟩ := mem_applyWrites ws (applyWrites p (ws.take j)) (by rw [s1.shape]; exact hok)
  obtain ⟨h3, _⟩ := mem_applyWrites ws p hok
  rw [h2 l hl, h3 l hl, mapplys_congr ws _ (mapplys (mem p) (ws.take j)) l (h1 l hl), redo_torn]

/-- replay of a sequence over a torn enactment, on the column -/
theorem col_redo_seq (p : PCol) (pre mid post : List (List Write)) (r : List Write) (j : Nat)
    (hok : ∀ w ∈ (pre ++ mid ++ r :: post).flatten, Write.Ok (shape p) w) (l : Loc) (hl : Loc.Ok l) :
    mem (applyWrites (applyWrites (applyWrites p (pre ++ mid).flatten) (r.take j))
        (mid ++ r :: post).flatten) l =
      mem (applyWrites p (pre ++ mid ++ r :: post).flatten) l := by
  have e1 : (pre ++ mid ++ r :: post).flatten =
      (pre ++ mid).flatten ++ (r ++ post.flatten) := by simp [List.append_assoc]
  have e2 : (pre ++ mid ++ r :: post).flatten =
      pre.flatten ++ (mid ++ r :: post).flatten := by simp [List.append_assoc]
  have okA : ∀ w ∈ (pre ++ mid).flatten, Write.Ok (shape p) w :=
    fun w hw => hok w (by rw [e1]; exact List.mem_append_left _ hw)
  have okT : ∀ w ∈ r.take j, Write.Ok (shape p) w :=
    fun w hw => hok w (by
      rw [e1]; exact List.mem_append_right _ (List.mem_append_left _ (List.mem_of_mem_take hw)))
  have okR : ∀ w ∈ (mid ++ r :: post).flatten, Write.Ok (shape p) w :=
    fun w hw => hok w (by rw [e2]; exact List.mem_append_right _ hw)
  obtain ⟨h1, s1⟩ := mem_applyWrites _ p okA
  obtain ⟨h2, s2⟩ := mem_applyWrites (r.take j) (applyWrites p (pre ++ mid).flatten)
    (by rw [s1.shape]; exact okT)
  obtain ⟨h3, _⟩ := mem_applyWrites (mid ++ r :: post).flatten
    (applyWrites (applyWrites p (pre ++ mid).flatten) (r.take j))
    (by rw [s2.shape, s1.shape]; exact okR)
  obtain ⟨h4, _⟩ := mem_applyWrites _ p hok
  rw [h3 l hl, h4 l hl, ← redo_seq (mem p) pre mid post r j]
  apply mapplys_congr
  rw [h2 l hl]
  exact mapplys_congr _ _ _ l (h1 l hl)

end Pdb.PhysRec
