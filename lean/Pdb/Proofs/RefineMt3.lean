/-
R6 lemmas, part 3: the empty column, tier selection discharges `WriteOk`, the physical plan is the abstract plan with
the claimed addresses as supply, transfer of reads and of "zero entries".
-/
import Pdb.Proofs.RefineMt2

namespace Pdb.MultiTreePhys
open Pdb.Gen Pdb.ValueTable Pdb.MultiTree

/-! ## the empty column -/

def Layout.empty : Layout := ⟨fun _ => [], fun _ => [], fun _ => [], fun _ => [], fun _ => [], fun _ => [], fun _ => []⟩

theorem tierInv_empty (es : Nat) (mp rc : Bool) : TierInv (VT.empty es mp rc) [] [] [] := by
  refine ⟨⟨?_, ?_, ?_, ?_, ?_⟩, fun _ _ => rfl⟩
  · simp [FreeChain, VT.empty]
  · simp [singles]
  · intro i hi; simp [singles] at hi
  · simp [singles, VT.empty]
  · intro c hc; simp [singles] at hc

theorem rep_init (v : Variant) : Rep (PCol.init v) Heap.empty Layout.empty := by
  refine ⟨?_, ?_, ?_, ?_, ?_, rfl, ?_, ?_, FMap.WF_empty⟩
  rotate_left 6
  · refine ⟨fun _ => rfl, fun _ => List.nodup_nil, ?_, ?_, fun _ _ => rfl⟩
    · intro tier k; simp [Layout.empty, PCol.init, FMap.get, FMap.empty, alLookup]
    · intro k n c hg; simp [Heap.empty, FMap.get, FMap.empty, alLookup] at hg
  · intro tier
    simp only [PCol.init, Layout.empty, List.map_nil, List.append_nil]
    unfold tableOfTier
    split <;> exact tierInv_empty _ _ _
  · intro tier
    simp only [PCol.init, PCol.isRc]
    exact ⟨rfl, rfl, rfl⟩
  · intro tier; simp [Layout.empty]
  · intro tier a; simp [Layout.empty, Heap.empty, FMap.get, FMap.empty, alLookup]
  · intro a n hg; simp [Heap.empty, FMap.get, FMap.empty, alLookup] at hg
  · intro tier
    simp only [PCol.init]
    unfold tableOfTier
    split <;> simp [VT.empty]

theorem tableOfTier_filled (rc : Bool) (i : Nat) : (tableOfTier rc i).filled = 1 := by
  unfold tableOfTier; split <;> rfl

theorem init_filled (v : Variant) (i : Nat) : ((PCol.init v).vt i).filled = 1 := by
  simp only [PCol.init]
  exact tableOfTier_filled _ i

/-! ## tier selection -/

/-- `claim_node`'s tier (the first table whose `value_size(NoHash)` is at least the packed node size, else the multipart table)
    satisfies the `assert!` of `overwrite_chain` and the "long value" condition of the multipart table. -/
theorem node_writeOk (rc : Bool) (t : VT) (v : Bytes)
    (hcfg : SameCfg (tableOfTier rc (tierOfLen rc .noHash v.length)) t) : WriteOk t .noHash v := by
  have h := C06_tier_writeOk (fun x => x) v.length rc .noHash v (by decide) t
    (by simpa [tierFor, storedForm] using hcfg)
  simpa [tierFor, storedForm] using h

theorem encodeNode_tier (rc : Bool) (n : Node Bytes) (hn : NodeOk n) (hd : n.data.length < 2 ^ 63) :
    nodeTier rc n.data.length n.children.length = tierOfLen rc .noHash (encodeNode n).length := by
  unfold nodeTier encodeNode
  rw [packNode_size n.data n.children hn.1 hd]

theorem tierOfLen_lt_256 (rc : Bool) (key : TKey) (len : Nat) : tierOfLen rc key len < 256 := by
  have := tierOfLen_lt rc key len
  simpa [SIZE_TIERS] using this

/-! ## the physical plan is the abstract plan -/

/-- the addresses written by a list of node changes, in push order -/
def newAddrs (chs : List NChange) : List Nat :=
  chs.filterMap (fun c => match c with
    | .newValue a _ => some a
    | _ => none)

theorem newAddrs_append (a b : List NChange) : newAddrs (a ++ b) = newAddrs a ++ newAddrs b := by
  simp [newAddrs, List.filterMap_append]

mutual
  /-- `claim_node` assigns per tier parent-first; read as ONE supply in push order (children before parent) it is
      the supply the abstract `planRef` consumes: same node changes, same addresses. -/
  theorem physPlanRef_eq (rc ap : Bool) : ∀ (s : Supply) (r : NRef Bytes) (rest : List Nat),
      planRef (K := Key) ap (newAddrs (physPlanRef rc ap s r).1 ++ rest) r =
        ((physPlanRef rc ap s r).1, rest, (physPlanRef rc ap s r).2.2)
    | s, .existing a, rest => by
      cases ap <;> simp [physPlanRef, planRef, newAddrs]
    | s, .new d cs, rest => by
      have ih := physPlanRefs_eq rc ap (s.take (nodeTier rc d.length cs.length)).2 cs
        (Address.new (s.take (nodeTier rc d.length cs.length)).1 (nodeTier rc d.length cs.length) :: rest)
      rcases hP : physPlanRefs rc ap (s.take (nodeTier rc d.length cs.length)).2 cs with ⟨chs, s2, as⟩
      rw [hP] at ih
      simp only [physPlanRef, hP, newAddrs_append]
      have e : newAddrs [NodeChange.newValue (K := Key)
          (Address.new (s.take (nodeTier rc d.length cs.length)).1 (nodeTier rc d.length cs.length)) ⟨d, as⟩] =
          [Address.new (s.take (nodeTier rc d.length cs.length)).1 (nodeTier rc d.length cs.length)] := rfl
      rw [e, List.append_assoc, List.singleton_append]
      simp only [planRef, ih, List.headD_cons, List.tail_cons]
  theorem physPlanRefs_eq (rc ap : Bool) : ∀ (s : Supply) (cs : NRefs Bytes) (rest : List Nat),
      planRefs (K := Key) ap (newAddrs (physPlanRefs rc ap s cs).1 ++ rest) cs =
        ((physPlanRefs rc ap s cs).1, rest, (physPlanRefs rc ap s cs).2.2)
    | s, .nil, rest => by simp [physPlanRefs, planRefs, newAddrs]
    | s, .cons r rs, rest => by
      rcases hP1 : physPlanRef rc ap s r with ⟨c1, s1, a⟩
      rcases hP2 : physPlanRefs rc ap s1 rs with ⟨c2, s2, as⟩
      have ih1 := physPlanRef_eq rc ap s r (newAddrs c2 ++ rest)
      have ih2 := physPlanRefs_eq rc ap s1 rs rest
      rw [hP1] at ih1
      rw [hP2] at ih2
      simp only [physPlanRefs, hP1, hP2, newAddrs_append, List.append_assoc]
      simp only [planRefs, ih1, ih2]
end

/-! ## transfer -/

theorem mapOpt_transfer {α β : Type} (f g : α → Option β) (cs : List α)
    (hfg : ∀ c b, f c = some b → g c = some b) :
    ∀ bs, mapOpt f cs = some bs → mapOpt g cs = some bs := by
  induction cs with
  | nil => intro bs h; simpa [mapOpt] using h
  | cons c cs ih =>
    intro bs h
    simp only [mapOpt] at h ⊢
    cases hc : f c with
    | none => simp [hc] at h
    | some b =>
      rw [hc] at h
      rw [hfg c b hc]
      cases hr : mapOpt f cs with
      | none => simp [hr] at h
      | some r =>
        rw [hr] at h
        rw [ih r hr]
        exact h

/-- every tree the abstract heap reads is read, node for node, from the slot bytes -/
theorem readNode_transfer {p : PCol} {h : Heap Key Bytes} {ly : Layout} (r : Rep p h ly) :
    ∀ (fuel : Nat) (a : Nat) (t : LTree Bytes), readNode h.nodes.get fuel a = some t →
      readNode (physGetNode p) fuel a = some t := by
  intro fuel
  induction fuel with
  | zero => intro a t h; simp [readNode] at h
  | succ f ih =>
    intro a t ht
    simp only [readNode] at ht ⊢
    cases hg : h.nodes.get a with
    | none => simp [hg] at ht
    | some n =>
      rw [hg] at ht
      rw [r.getNode a n hg]
      simp only [] at ht ⊢
      cases hm : mapOpt (readNode h.nodes.get f) n.children with
      | none => simp [hm] at ht
      | some ts =>
        rw [hm] at ht
        rw [mapOpt_transfer _ (readNode (physGetNode p) f) n.children ih ts hm]
        exact ht

/-- no node, no root, no pending claim: every used slot of every table is on its free list -/
theorem rep_empty_all_free {p : PCol} {h : Heap Key Bytes} {ly : Layout} (r : Rep p h ly)
    (hn : ∀ a, h.nodes.get a = none) (hr : ∀ k, h.roots.get k = none) (hc : ∀ tier, ly.claimed tier = []) :
    ∀ tier, SlotInv (p.vt tier) (ly.free tier) [] ∧ (ly.free tier).length + 1 = (p.vt tier).filled := by
  intro tier
  have hnil : ly.nodes tier = [] := by
    apply List.eq_nil_iff_forall_not_mem.mpr
    intro a ha
    have := ((r.dom tier a).mp ha).2
    rw [hn a] at this; simp at this
  have hknil : ly.rootKeys tier = [] := by
    apply List.eq_nil_iff_forall_not_mem.mpr
    intro k hk
    obtain ⟨a, ha, _⟩ := (r.roots.rdom tier k).mp hk
    rw [r.roots.rootNone k (hr k)] at ha; simp at ha
  have ho : ly.other tier = [] := by rw [r.roots.otherEq, hknil]; rfl
  have hs := (r.tiers tier).slot
  rw [hnil, ho, hc tier] at hs
  simp only [singles, List.map_nil, List.append_nil] at hs
  refine ⟨hs, ?_⟩
  have := hs.count
  simpa using this

end Pdb.MultiTreePhys
