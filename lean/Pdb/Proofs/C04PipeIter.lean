/-
C04 pipeline, part 1: the iterator merge machine running on the NODE-STACK cursor
(`iterInnerCS` / `stepCV`, Pdb/Model/BTreePipe.lean) gives, on every tree satisfying TreeInv,
the answers of the machine of Pdb/Model/BTreeIter.lean running on the abstract cursor over
`toList tree` (`iterInner` / `stepV patched`), and the relation between the two states is kept.

Uses `C04b_next_backend` and `C04b_cursor_seek` (Props/C04b.lean).
-/
import Pdb.Props.C04b
import Pdb.Model.BTreePipe

namespace Pdb.C04
variable {V : Type}

/-- The stack machine state `sC` stands for the abstract machine state `sA`: same logical
    position, same cached item, same record id, and - if the cursor was built for the current
    record id `rid` of the column - the stack represents the abstract cursor on the tree `t`. -/
structure RelIt (t : Tree V) (rid : Nat) (sC : IterCSt V) (sA : IterSt V) : Prop where
  lk : sC.lastKey = sA.lastKey
  pd : sC.pending = sA.pending
  rd : sC.rid = sA.rid
  rep : rid = sA.rid → CursorRep t sC.stack sA.cur

theorem RelIt.new (t : Tree V) (rid rid0 : Nat) :
    RelIt t rid (IterCSt.new rid0 : IterCSt V) (IterSt.new rid0) :=
  ⟨rfl, rfl, rfl, fun _ => C04b_cursor_new t⟩

/-- A change of the column's record id (to one the cursor was not built for) and of the tree
    keeps the relation: the stack will be rebuilt before it is used. -/
theorem RelIt.rid_change {t t' : Tree V} {rid rid' : Nat} {sC : IterCSt V} {sA : IterSt V}
    (h : RelIt t rid sC sA) (hne : rid' ≠ sA.rid) : RelIt t' rid' sC sA :=
  ⟨h.lk, h.pd, h.rd, fun e => absurd e hne⟩

theorem bresOf_item (r : Option (Key × V)) : bresOf (COut.item r) = BRes.ok r := rfl

theorem nextBackendCS_sim {t : Tree V} (ht : TreeInv t) {rid : Nat} {sC : IterCSt V} {sA : IterSt V}
    (h : RelIt t rid sC sA) (d : Dir) :
    (nextBackendCS t sC rid d).1 = .ok (nextBackend t.toList sA rid d).1 ∧
      RelIt t rid (nextBackendCS t sC rid d).2 (nextBackend t.toList sA rid d).2 := by
  obtain ⟨h1, h2⟩ := C04b_next_backend t ht sC.stack sA rid d h.rep
  have hlk := h.lk
  have hrd := h.rd
  by_cases hr : rid = sA.rid
  · have hr' : ¬ rid ≠ sC.rid := by rw [hrd]; simpa using hr
    have hr2 : ¬ rid ≠ sA.rid := by simpa using hr
    rw [if_neg hr2] at h1 h2
    have e : nextBackendCS t sC rid d =
        (.ok (nextBackend t.toList sA rid d).1,
          { sC with stack := (stepC t sC.stack (.step d)).1, rid := rid }) := by
      rw [nextBackendCS, if_neg hr', stepBack, h1, bresOf_item]
    rw [e]
    refine ⟨rfl, ⟨?_, ?_, rfl, fun _ => ?_⟩⟩
    · simpa [nextBackend] using hlk
    · simpa [nextBackend] using h.pd
    · simpa [nextBackend] using h2
  · have hr' : rid ≠ sC.rid := by rw [hrd]; exact hr
    have hsk := (C04b_cursor_seek t ht sC.stack (reseekTo sC.lastKey)).1
    rw [if_pos hr, ← hlk] at h1 h2
    have e : nextBackendCS t sC rid d =
        (.ok (nextBackend t.toList sA rid d).1,
          { sC with stack := (stepC t (stepC t sC.stack (.seek (reseekTo sC.lastKey))).1 (.step d)).1,
                    rid := rid }) := by
      rw [nextBackendCS, if_pos hr']
      simp only [hsk, COut.isUnit, if_true, stepBack, h1, bresOf_item]
    rw [e]
    refine ⟨rfl, ⟨?_, ?_, rfl, fun _ => ?_⟩⟩
    · simpa [nextBackend] using hlk
    · simpa [nextBackend] using h.pd
    · simpa [nextBackend] using h2

/-- `backendItem` in the shape of `backendItemCS`. -/
theorem backendItem_eq (be : List (Key × V)) (rid : Nat) (d : Dir) (s : IterSt V) :
    backendItem be rid d s =
      match pendingItem (if rid ≠ s.rid then none else s.pending) d with
      | some item => (item, { s with pending := none })
      | none => nextBackend be { s with pending := none } rid d := by
  unfold backendItem pendingItem
  by_cases hr : rid = s.rid
  · have hr2 : ¬ rid ≠ s.rid := by simpa using hr
    simp only [hr2, if_false]
    cases hp : s.pending with
    | none => rfl
    | some p =>
      by_cases hd : p.dir = d
      · simp only [hd, if_true]
      · simp only [hd, if_false]
  · simp only [ne_eq, hr, not_false_eq_true, if_true]

theorem backendItemCS_sim {t : Tree V} (ht : TreeInv t) {rid : Nat} {sC : IterCSt V} {sA : IterSt V}
    (h : RelIt t rid sC sA) (d : Dir) :
    (backendItemCS t rid d sC).1 = .ok (backendItem t.toList rid d sA).1 ∧
      RelIt t rid (backendItemCS t rid d sC).2 (backendItem t.toList rid d sA).2 := by
  rw [backendItem_eq]
  unfold backendItemCS
  have hrel1 : RelIt t rid { sC with pending := none } { sA with pending := none } :=
    ⟨h.lk, rfl, h.rd, h.rep⟩
  have hp : (if rid ≠ sC.rid then none else sC.pending) = (if rid ≠ sA.rid then none else sA.pending) := by
    rw [h.rd, h.pd]
  simp only [hp]
  cases hpi : pendingItem (if rid ≠ sA.rid then none else sA.pending) d with
  | some item => exact ⟨rfl, hrel1⟩
  | none => exact nextBackendCS_sim ht hrel1 d

/-! ### the merge step -/

/-- the second half of one pass of the abstract `iterLoop`, in the shape of `mergeCS` -/
def mergeA (d : Dir) (s : IterSt V) (o : Option (Key × Option V)) (b : Option (Key × V)) :
    IterSt V × Option (Option (Key × V)) :=
  match o, b with
  | some (ck, cv), some (bk, bv) =>
    if dirLt d ck bk then
      let s := { s with pending := some { item := some (bk, bv), dir := d } }
      match cv with
      | some v => (s, some (some (ck, v)))
      | none => ({ s with lastKey := .at ck }, none)
    else if dirLt d bk ck then (s, some (some (bk, bv)))
    else
      match cv with
      | some v => (s, some (some (bk, v)))
      | none => ({ s with lastKey := .at ck }, none)
  | some (ck, some v), none =>
    ({ s with pending := some { item := none, dir := d } }, some (some (ck, v)))
  | some (ck, none), none =>
    ({ s with pending := some { item := none, dir := d }, lastKey := .at ck }, none)
  | none, some e => (s, some (some e))
  | none, none => ({ s with pending := some { item := none, dir := d } }, some none)

theorem iterLoop_succ (ov : List (Key × Option V)) (be : List (Key × V)) (rid : Nat) (d : Dir)
    (fuel : Nat) (s0 : IterSt V) :
    iterLoop ov be rid d (fuel + 1) s0 =
      match (mergeA d (backendItem be rid d s0).2 (ovStep d ov s0.lastKey)
              (backendItem be rid d s0).1).2 with
      | some r => finish d (mergeA d (backendItem be rid d s0).2 (ovStep d ov s0.lastKey)
                    (backendItem be rid d s0).1).1 r
      | none => iterLoop ov be rid d fuel
                  (mergeA d (backendItem be rid d s0).2 (ovStep d ov s0.lastKey)
                    (backendItem be rid d s0).1).1 := by
  rw [iterLoop]
  generalize ovStep d ov s0.lastKey = o
  generalize backendItem be rid d s0 = bs
  obtain ⟨b, s⟩ := bs
  simp only
  cases o with
  | none => cases b <;> rfl
  | some c =>
    obtain ⟨ck, cv⟩ := c
    cases b with
    | none => cases cv <;> rfl
    | some e =>
      obtain ⟨bk, bv⟩ := e
      simp only [mergeA]
      by_cases h1 : dirLt d ck bk = true
      · simp only [h1, if_true]; cases cv <;> rfl
      · simp only [h1, if_false, Bool.false_eq_true]
        by_cases h2 : dirLt d bk ck = true
        · simp only [h2, if_true]
        · simp only [h2, if_false, Bool.false_eq_true]; cases cv <;> rfl

theorem merge_sim {t : Tree V} {rid : Nat} {sC : IterCSt V} {sA : IterSt V}
    (h : RelIt t rid sC sA) (d : Dir) (o : Option (Key × Option V)) (b : Option (Key × V)) :
    (mergeCS d sC o b).2 = (mergeA d sA o b).2 ∧
      RelIt t rid (mergeCS d sC o b).1 (mergeA d sA o b).1 := by
  have r1 : ∀ p, RelIt t rid { sC with pending := p } { sA with pending := p } :=
    fun p => ⟨h.lk, rfl, h.rd, h.rep⟩
  have r2 : ∀ p L, RelIt t rid { sC with pending := p, lastKey := L }
      { sA with pending := p, lastKey := L } := fun p L => ⟨rfl, rfl, h.rd, h.rep⟩
  have r3 : ∀ L, RelIt t rid { sC with lastKey := L } { sA with lastKey := L } :=
    fun L => ⟨rfl, h.pd, h.rd, h.rep⟩
  cases o with
  | none =>
    cases b with
    | none => exact ⟨rfl, r1 _⟩
    | some e => exact ⟨rfl, h⟩
  | some c =>
    obtain ⟨ck, cv⟩ := c
    cases b with
    | none =>
      cases cv with
      | none => exact ⟨rfl, r2 _ _⟩
      | some v => exact ⟨rfl, r1 _⟩
    | some e =>
      obtain ⟨bk, bv⟩ := e
      simp only [mergeCS, mergeA]
      by_cases h1 : dirLt d ck bk = true
      · simp only [h1, if_true]
        cases cv with
        | none => exact ⟨by first | rfl | trivial, r2 _ _⟩
        | some v => exact ⟨by first | rfl | trivial, r1 _⟩
      · simp only [h1, if_false, Bool.false_eq_true]
        by_cases h2 : dirLt d bk ck = true
        · simp only [h2, if_true]; exact ⟨by first | rfl | trivial, h⟩
        · simp only [h2, if_false, Bool.false_eq_true]
          cases cv with
          | none => exact ⟨by first | rfl | trivial, r3 _⟩
          | some v => exact ⟨by first | rfl | trivial, h⟩

theorem finish_sim {t : Tree V} {rid : Nat} {sC : IterCSt V} {sA : IterSt V}
    (h : RelIt t rid sC sA) (d : Dir) (r : Option (Key × V)) :
    (finishCS d sC r).2 = outC (outOf (finish d sA r).2) ∧
      RelIt t rid (finishCS d sC r).1 (finish d sA r).1 := by
  constructor
  · rfl
  · refine ⟨?_, h.pd, h.rd, h.rep⟩
    simp only [finishCS, finish, posAfter]
    cases r <;> cases d <;> simp

/-! ### the loop, `iter_inner`, one call -/

theorem iterLoopCS_sim {t : Tree V} (ht : TreeInv t) (ov : List (Key × Option V)) (rid : Nat)
    (d : Dir) : ∀ (fuel : Nat) (sC : IterCSt V) (sA : IterSt V), RelIt t rid sC sA →
    (iterLoopCS ov t rid d fuel sC).2 = outC (outOf (iterLoop ov t.toList rid d fuel sA).2) ∧
      RelIt t rid (iterLoopCS ov t rid d fuel sC).1 (iterLoop ov t.toList rid d fuel sA).1 := by
  intro fuel
  induction fuel with
  | zero => intro sC sA h; exact ⟨rfl, h⟩
  | succ fuel ih =>
    intro sC sA h
    obtain ⟨hb1, hb2⟩ := backendItemCS_sim ht h d
    obtain ⟨hm1, hm2⟩ := merge_sim hb2 d (ovStep d ov sC.lastKey) (backendItem t.toList rid d sA).1
    rw [iterLoop_succ, iterLoopCS]
    simp only [hb1]
    rw [← h.lk]
    rw [hm1]
    cases hm : (mergeA d (backendItem t.toList rid d sA).2 (ovStep d ov sC.lastKey)
        (backendItem t.toList rid d sA).1).2 with
    | some r => exact finish_sim hm2 d r
    | none => exact ih _ _ hm2

theorem iterInnerCS_sim {t : Tree V} (ht : TreeInv t) (v : Variant) (ov : List (Key × Option V))
    (rid : Nat) (d : Dir) {sC : IterCSt V} {sA : IterSt V} (h : RelIt t rid sC sA) :
    (iterInnerCS v ov t rid d sC).2 = outC (outOf (iterInner v ov t.toList rid d sA).2) ∧
      RelIt t rid (iterInnerCS v ov t rid d sC).1 (iterInner v ov t.toList rid d sA).1 := by
  unfold iterInnerCS iterInner
  rw [h.lk]
  by_cases hg : (v.guardEnds && ((sA.lastKey = .start && d = .bwd) || (sA.lastKey = .end_ && d = .fwd))) = true
  · simp only [hg, if_true]; exact ⟨rfl, h⟩
  · simp only [hg, if_false, Bool.false_eq_true]
    exact iterLoopCS_sim ht ov rid d _ sC sA h

/-- One call: the stack machine on `t` answers as the abstract machine on `toList t`. -/
theorem stepCV_sim {t : Tree V} (ht : TreeInv t) (v : Variant) (e : Env V) {sC : IterCSt V}
    {sA : IterSt V} (h : RelIt t e.rid sC sA) (c : Call) :
    (stepCV v t sC e c).2 = outC (stepV v (fun _ => t.toList) sA e c).2 ∧
      RelIt t e.rid (stepCV v t sC e c).1 (stepV v (fun _ => t.toList) sA e c).1 := by
  cases c with
  | seek k =>
    obtain ⟨h1, h2⟩ := C04b_cursor_seek t ht sC.stack (.incl k)
    exact ⟨h1, ⟨rfl, rfl, rfl, fun _ => h2⟩⟩
  | seekFirst =>
    obtain ⟨h1, h2⟩ := C04b_cursor_seek t ht sC.stack (.incl [])
    exact ⟨h1, ⟨rfl, rfl, rfl, fun _ => h2⟩⟩
  | seekLast =>
    obtain ⟨h1, h2⟩ := C04b_cursor_seek t ht sC.stack .last
    refine ⟨h1, ⟨rfl, ?_, rfl, fun _ => h2⟩⟩
    simp only [stepCV, seekToLastCS, stepV, seekToLast, h.pd]
  | next => exact iterInnerCS_sim ht v e.ov e.rid .fwd h
  | prev => exact iterInnerCS_sim ht v e.ov e.rid .bwd h

end Pdb.C04
