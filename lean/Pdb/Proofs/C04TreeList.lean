/-
C04 (c): list-level lemmas for the tree proofs: the in-order enumeration of a node
decomposed around one child, `put` / `del` inside a sorted concatenation, `position`.
-/
import Pdb.Proofs.C04Tree

namespace Pdb.C04

/-! ### interleave decomposed -/

section
variable {α : Type}

/-- children each followed by the separator to their right -/
def zipL : List (List α) → List α → List α
  | c :: cs, s :: ss => c ++ s :: zipL cs ss
  | _, _ => []

theorem zipR_cons_of_ne_nil (s : α) (ss : List α) {cs : List (List α)} (h : cs ≠ []) :
    zipR (s :: ss) cs = s :: interleave cs ss := by
  cases cs with
  | nil => exact absurd rfl h
  | cons c cs => rfl

/-- The in-order enumeration around child number `A.length`. -/
theorem interleave_decomp (A : List (List α)) (S1 : List α) (c : List α) (B : List (List α))
    (S2 : List α) (h : A.length = S1.length) :
    interleave (A ++ c :: B) (S1 ++ S2) = zipL A S1 ++ (c ++ zipR S2 B) := by
  induction A generalizing S1 with
  | nil =>
    cases S1 with
    | nil => rfl
    | cons s S1 => simp at h
  | cons a A ih =>
    cases S1 with
    | nil => simp at h
    | cons s S1 =>
      have h' : A.length = S1.length := by simpa using h
      have hne : A ++ c :: B ≠ [] := by simp
      show a ++ zipR (s :: (S1 ++ S2)) (A ++ c :: B) = _
      rw [zipR_cons_of_ne_nil s _ hne, ih S1 h']
      simp [zipL]

theorem interleave_split (A B : List (List α)) (S1 : List α) (s : α) (S2 : List α)
    (h : A.length = S1.length + 1) (hB : B ≠ []) :
    interleave (A ++ B) (S1 ++ s :: S2) = interleave A S1 ++ s :: interleave B S2 := by
  -- A = A0 ++ [c]
  have hA : A ≠ [] := by intro e; simp [e] at h
  obtain ⟨A0, c, rfl⟩ : ∃ A0 c, A = A0 ++ [c] :=
    ⟨A.dropLast, A.getLast hA, (List.dropLast_concat_getLast hA).symm⟩
  have h0 : A0.length = S1.length := by simpa using h
  have e1 : A0 ++ [c] ++ B = A0 ++ c :: B := by simp
  have e2 : interleave (A0 ++ [c]) S1 = zipL A0 S1 ++ c := by
    have := interleave_decomp A0 S1 c [] [] h0
    simpa [zipR] using this
  rw [e1, interleave_decomp A0 S1 c B (s :: S2) h0, zipR_cons_of_ne_nil s S2 hB, e2]
  simp

theorem mem_zipL {A : List (List α)} {S : List α} {x : α} (h : x ∈ zipL A S) :
    (x ∈ S) ∨ ∃ a ∈ A, x ∈ a := by
  induction A generalizing S with
  | nil => simp [zipL] at h
  | cons a A ih =>
    cases S with
    | nil => simp [zipL] at h
    | cons s S =>
      simp only [zipL, List.mem_append, List.mem_cons] at h
      rcases h with h | h | h
      · exact Or.inr ⟨a, List.mem_cons.mpr (Or.inl rfl), h⟩
      · exact Or.inl (List.mem_cons.mpr (Or.inl h))
      · rcases ih h with h | ⟨b, hb, hx⟩
        · exact Or.inl (List.mem_cons_of_mem _ h)
        · exact Or.inr ⟨b, List.mem_cons_of_mem _ hb, hx⟩

end

/-! ### sorted concatenations -/

section
variable {β : Type}

theorem sorted_append {l1 l2 : List (Key × β)} :
    Sorted (l1 ++ l2) ↔ Sorted l1 ∧ Sorted l2 ∧ ∀ a ∈ l1, ∀ b ∈ l2, keyLt a.1 b.1 = true :=
  List.pairwise_append

/-- In `zipL A S ++ rest` (sorted) every element of `zipL A S` is at most some separator of
    `S`; so if all separators are below `k`, everything is. -/
theorem zipL_lt {A : List (List (Key × β))} {S : List (Key × β)} {rest : List (Key × β)} {k : Key}
    (hs : Sorted (zipL A S ++ rest)) (hS : ∀ s ∈ S, keyLt s.1 k = true) :
    ∀ x ∈ zipL A S, keyLt x.1 k = true := by
  induction A generalizing S with
  | nil => intro x hx; simp [zipL] at hx
  | cons a A ih =>
    cases S with
    | nil => intro x hx; simp [zipL] at hx
    | cons s S =>
      intro x hx
      simp only [zipL, List.mem_append, List.mem_cons] at hx
      have hs' : Sorted (a ++ (s :: (zipL A S ++ rest))) := by
        simpa [zipL, List.append_assoc] using hs
      have hsk := hS s (List.mem_cons.mpr (Or.inl rfl))
      rcases hx with hx | hx | hx
      · have := (sorted_append.mp hs').2.2 x hx s (List.mem_cons.mpr (Or.inl rfl))
        exact keyLt_trans this hsk
      · rw [hx]; exact hsk
      · have hs2 : Sorted (zipL A S ++ rest) := ((sorted_append.mp hs').2.1).tail
        exact ih hs2 (fun t ht => hS t (List.mem_cons_of_mem _ ht)) x hx

/-- In a sorted `zipR S B` every element is at least the first separator. -/
theorem zipR_gt {S : List (Key × β)} {B : List (List (Key × β))} {k : Key}
    (hs : Sorted (zipR S B)) (hS : ∀ s ∈ S, keyLt k s.1 = true) :
    ∀ x ∈ zipR S B, keyLt k x.1 = true := by
  induction S generalizing B with
  | nil => intro x hx; simp [zipR] at hx
  | cons s S ih =>
    cases B with
    | nil => intro x hx; simp [zipR] at hx
    | cons b B =>
      intro x hx
      have hx' : x ∈ s :: (b ++ zipR S B) := hx
      have hsk := hS s (List.mem_cons.mpr (Or.inl rfl))
      have hs' : Sorted (s :: (b ++ zipR S B)) := hs
      rcases List.mem_cons.mp hx' with hx | hx
      · rw [hx]; exact hsk
      · exact keyLt_trans hsk (hs'.head_lt x hx)

theorem put_append_left {L X : List (Key × β)} {k : Key} (v : β)
    (h : ∀ x ∈ L, keyLt x.1 k = true) : put (L ++ X) k v = L ++ put X k v := by
  induction L with
  | nil => rfl
  | cons a L ih =>
    obtain ⟨k', b'⟩ := a
    have ha := h (k', b') (List.mem_cons.mpr (Or.inl rfl))
    simp only at ha
    have h1 : ¬ keyLt k k' = true := by rw [keyLt_asymm ha]; decide
    have h2 : ¬ k = k' := fun e => keyLt_ne ha e.symm
    simp only [List.cons_append, put, h1, h2, if_false, Bool.false_eq_true]
    rw [ih (fun x hx => h x (List.mem_cons_of_mem _ hx))]

theorem put_append_right {M R : List (Key × β)} {k : Key} (v : β)
    (h : ∀ x ∈ R, keyLt k x.1 = true) : put (M ++ R) k v = put M k v ++ R := by
  induction M with
  | nil =>
    cases R with
    | nil => rfl
    | cons r R =>
      obtain ⟨k', b'⟩ := r
      have := h (k', b') (List.mem_cons.mpr (Or.inl rfl))
      simp only at this
      simp [put, this]
  | cons a M ih =>
    obtain ⟨k', b'⟩ := a
    simp only [List.cons_append, put]
    by_cases h1 : keyLt k k' = true
    · simp [h1]
    · by_cases h2 : k = k'
      · subst h2; simp [keyLt_irrefl]
      · simp only [h1, h2, if_false, ih, List.cons_append, Bool.false_eq_true]

theorem del_append_left {L X : List (Key × β)} {k : Key}
    (h : ∀ x ∈ L, x.1 ≠ k) : del (L ++ X) k = L ++ del X k := by
  induction L with
  | nil => rfl
  | cons a L ih =>
    obtain ⟨k', b'⟩ := a
    have ha := h (k', b') (List.mem_cons.mpr (Or.inl rfl))
    simp only [ne_eq] at ha
    simp only [List.cons_append, del, ha, if_false]
    rw [ih (fun x hx => h x (List.mem_cons_of_mem _ hx))]

theorem del_not_mem {R : List (Key × β)} {k : Key} (h : ∀ x ∈ R, x.1 ≠ k) : del R k = R := by
  induction R with
  | nil => rfl
  | cons a R ih =>
    obtain ⟨k', b'⟩ := a
    have ha := h (k', b') (List.mem_cons.mpr (Or.inl rfl))
    simp only [ne_eq] at ha
    simp only [del, ha, if_false]
    rw [ih (fun x hx => h x (List.mem_cons_of_mem _ hx))]

theorem del_append_right {M R : List (Key × β)} {k : Key}
    (hM : Sorted (M ++ R)) (h : ∀ x ∈ R, x.1 ≠ k) : del (M ++ R) k = del M k ++ R := by
  induction M with
  | nil => exact del_not_mem h
  | cons a M ih =>
    obtain ⟨k', b'⟩ := a
    simp only [List.cons_append, del]
    by_cases h1 : k' = k
    · simp [h1]
    · simp only [h1, if_false, List.cons_append]
      rw [ih hM.tail]

/-- `put` / `del` in the middle segment of a sorted list. -/
theorem put_middle {L M R : List (Key × β)} {k : Key} (v : β)
    (hL : ∀ x ∈ L, keyLt x.1 k = true) (hR : ∀ x ∈ R, keyLt k x.1 = true) :
    put (L ++ (M ++ R)) k v = L ++ (put M k v ++ R) := by
  rw [put_append_left v hL, put_append_right v hR]

theorem del_middle {L M R : List (Key × β)} {k : Key} (hs : Sorted (L ++ (M ++ R)))
    (hL : ∀ x ∈ L, keyLt x.1 k = true) (hR : ∀ x ∈ R, keyLt k x.1 = true) :
    del (L ++ (M ++ R)) k = L ++ (del M k ++ R) := by
  rw [del_append_left (fun x hx => keyLt_ne (hL x hx)),
    del_append_right (sorted_append.mp hs).2.1 (fun x hx e => keyLt_ne (hR x hx) e.symm)]

/-! ### `position` -/

theorem position_spec {seps : List (Key × β)} (hs : Sorted seps) (k : Key) :
    (position seps k).2 ≤ seps.length ∧
    (∀ x ∈ seps.take (position seps k).2, keyLt x.1 k = true) ∧
    ((position seps k).1 = true →
        ∃ v, seps.drop (position seps k).2 = (k, v) :: seps.drop ((position seps k).2 + 1)) ∧
    ((position seps k).1 = false → ∀ x ∈ seps.drop (position seps k).2, keyLt k x.1 = true) := by
  induction seps with
  | nil =>
    refine ⟨Nat.le_refl _, fun x hx => by simp at hx, fun h => by simp [position] at h,
      fun _ x hx => by simp at hx⟩
  | cons a seps ih =>
    obtain ⟨k', v'⟩ := a
    by_cases h1 : keyLt k k' = true
    · have e : position ((k', v') :: seps) k = (false, 0) := by simp [position, h1]
      rw [e]
      refine ⟨Nat.zero_le _, fun x hx => by simp at hx, fun h => by simp at h, ?_⟩
      intro _ x hx
      rcases List.mem_cons.mp hx with rfl | hx
      · exact h1
      · exact keyLt_trans h1 (hs.head_lt x hx)
    · by_cases h2 : k = k'
      · subst h2
        have e : position ((k, v') :: seps) k = (true, 0) := by simp [position, keyLt_irrefl]
        rw [e]
        exact ⟨Nat.zero_le _, fun x hx => by simp at hx, fun _ => ⟨v', rfl⟩,
          fun h => by simp at h⟩
      · have hlt : keyLt k' k = true := keyLt_of_not (by simpa using h1) h2
        obtain ⟨i1, i2, i3, i4⟩ := ih hs.tail
        have e : position ((k', v') :: seps) k =
            ((position seps k).1, (position seps k).2 + 1) := by simp [position, h1, h2]
        rw [e]
        refine ⟨by simp only [List.length_cons]; omega, ?_, ?_, ?_⟩
        · intro x hx
          simp only [List.take_succ_cons] at hx
          rcases List.mem_cons.mp hx with rfl | hx
          · exact hlt
          · exact i2 x hx
        · intro h; simpa using i3 h
        · intro h; simpa using i4 h

end

end Pdb.C04
