/-
C20 on the index model: `physOf s` is the physical walk's view (`Pdb.Migrate.PhysCol`) of a state
of the index-layer model `Pdb.Index.Col` - the index tables OLDEST first, every non-empty entry in
walk order (chunk by chunk, slot by slot) as (key bits 63..14 recovered from page and partial key,
address), a slot = (stored tail, value, count 1).  With `NoStale`, `AbsN` (reachable states of the
fixed code) it satisfies `PhysCol.InvN`.
-/
import Pdb.Proofs.C09NoStaleProg
import Pdb.Proofs.C20WalkN

namespace Pdb.Index
open Pdb.Gen Pdb.IndexPage Pdb.Migrate

/-- the entry at position `p` (= chunk * 64 + slot) as the walk sees it -/
def Table.enumAt (t : Table) (p : Nat) : Option (Nat × Nat) :=
  if (t.page (p / 64)).getD (p % 64) 0 = 0 then none
  else some (vis (recover_index_key t.bits (p / 64) ((t.page (p / 64)).getD (p % 64) 0)),
    Entry.address ((t.page (p / 64)).getD (p % 64) 0) t.bits)

/-- the non-empty entries of a table in walk order -/
def Table.enum (t : Table) : List (Nat × Nat) :=
  (List.range (total_chunks t.bits * 64)).filterMap t.enumAt

theorem Table.entry_lt {t : Table} (hwf : TableWF t) (c i : Nat) (hi : i < 64) :
    (t.page c).getD i 0 < 2 ^ 64 := by
  apply (hwf.pages c).2
  have hlen : i < (t.page c).length := by rw [(hwf.pages c).1]; exact hi
  rw [List.getD_eq_getElem?_getD, List.getElem?_eq_getElem hlen]
  exact List.getElem_mem hlen

/-- what a position contributes -/
theorem Table.enumAt_some {t : Table} (hwf : TableWF t) (p : Nat) (hp : p < total_chunks t.bits * 64)
    (x : Nat × Nat) (h : t.enumAt p = some x) :
    ∃ kp, kp < 2 ^ 64 ∧ x.1 = vis kp ∧ t.chunk kp = p / 64 ∧
      BaseMatch t.bits kp (t.page (t.chunk kp)) (p % 64) ∧
      Entry.address ((t.page (t.chunk kp)).getD (p % 64) 0) t.bits = x.2 := by
  unfold Table.enumAt at h
  by_cases h0 : (t.page (p / 64)).getD (p % 64) 0 = 0
  · rw [if_pos h0] at h; cases h
  · rw [if_neg h0] at h
    injection h with h
    have hc : p / 64 < total_chunks t.bits := by
      rw [Nat.div_lt_iff_lt_mul (by decide)]; exact hp
    have hi : p % 64 < 64 := Nat.mod_lt _ (by decide)
    obtain ⟨r1, r2, r3⟩ := recover_inv t.bits (p / 64) _ hwf.lo hwf.hi hc (Table.entry_lt hwf _ _ hi)
    refine ⟨_, r1, by rw [← h], r2, ?_, ?_⟩
    · show BaseMatch t.bits _ (t.page (chunk_index t.bits _)) _
      rw [r2]; exact ⟨r3.symm, h0⟩
    · show Entry.address ((t.page (chunk_index t.bits _)).getD _ 0) t.bits = _
      rw [r2, ← h]

theorem Table.mem_enum {t : Table} (hwf : TableWF t) (v a : Nat) :
    (v, a) ∈ t.enum ↔ ∃ kp, kp < 2 ^ 64 ∧ v = vis kp ∧ t.Has kp a := by
  unfold Table.enum
  rw [List.mem_filterMap]
  constructor
  · rintro ⟨p, hp, h⟩
    obtain ⟨kp, hkp, hv, _, hm, ha⟩ := Table.enumAt_some hwf p (List.mem_range.1 hp) _ h
    exact ⟨kp, hkp, hv, p % 64, Nat.mod_lt _ (by decide), hm, ha⟩
  · rintro ⟨kp, hkp, hv, i, hi, hm, ha⟩
    have hc : t.chunk kp < total_chunks t.bits := by
      rcases chunk_index_lt t.bits kp (by have := hwf.lo; omega) (by have := hwf.hi; omega) hkp with h1 | h1
      · exact h1
      · have := hwf.hi; omega
    refine ⟨t.chunk kp * 64 + i, List.mem_range.2 (by omega), ?_⟩
    have e1 : (t.chunk kp * 64 + i) / 64 = t.chunk kp := by omega
    have e2 : (t.chunk kp * 64 + i) % 64 = i := by omega
    unfold Table.enumAt
    rw [e1, e2, if_neg hm.2]
    have hvr := vis_recover t.bits kp ((t.page (t.chunk kp)).getD i 0) hwf.lo hwf.hi hkp hm.1
    show some (vis (recover_index_key t.bits (chunk_index t.bits kp) _), _) = _
    rw [hvr, ha, hv]

theorem Table.nodup_enum {t : Table} (hwf : TableWF t) (hu : t.Uniq) : t.enum.Nodup := by
  have := nodup_filterMap_map t.enumAt (fun x => x) (List.range (total_chunks t.bits * 64))
    List.nodup_range (fun p1 hp1 p2 hp2 x y hx hy hxy => by
      obtain ⟨k1, hk1, hv1, hc1, hm1, ha1⟩ := Table.enumAt_some hwf p1 (List.mem_range.1 hp1) x hx
      obtain ⟨k2, hk2, hv2, hc2, hm2, ha2⟩ := Table.enumAt_some hwf p2 (List.mem_range.1 hp2) y hy
      have hxy' : x = y := hxy
      subst hxy'
      have hv : vis k1 = vis k2 := hv1.symm.trans hv2
      obtain ⟨hc, hk⟩ := (vis_eq_iff_index t.bits k1 k2 hwf.lo hwf.hi hk1 hk2).1 hv
      have hcc : t.chunk k1 = t.chunk k2 := hc
      rw [← hcc] at hm2 ha2
      have hi := hu (t.chunk k1) (p1 % 64) (p2 % 64) (Nat.mod_lt _ (by decide)) (Nat.mod_lt _ (by decide))
        hm1.2 hm2.2 (hm1.1.trans (hk.trans hm2.1.symm)) (ha1.trans ha2.symm)
      have hd : p1 / 64 = p2 / 64 := by rw [← hc1, ← hc2, hcc]
      omega)
  simpa [Table.enum] using this

/-- the walk's view of a column state: tables oldest first -/
def physOf (s : Col) : PhysCol Nat Nat Nat Val :=
  { tables := (s.older ++ [s.current]).map Table.enum
    slot := fun a => (s.valAt a).map (fun sl => (sl.tail, sl.val, 1)) }

theorem physOf_mem_flatten (s : Col) (e : Nat × Nat) :
    e ∈ (physOf s).tables.flatten ↔ ∃ t ∈ s.tables, e ∈ t.enum := by
  simp only [physOf, List.mem_flatten, List.mem_map, Col.tables]
  constructor
  · rintro ⟨l, ⟨t, ht, rfl⟩, he⟩
    refine ⟨t, ?_, he⟩
    rcases List.mem_append.1 ht with h | h
    · exact List.mem_cons_of_mem _ h
    · have : t = s.current := by simpa using h
      rw [this]; simp
  · rintro ⟨t, ht, he⟩
    refine ⟨t.enum, ⟨t, ?_, rfl⟩, he⟩
    rcases List.mem_cons.1 ht with h | h
    · rw [h]; simp
    · exact List.mem_append_left _ h

theorem physOf_entry {s : Col} (hS : Shape s) (e : Nat × Nat) (he : e ∈ (physOf s).tables.flatten) :
    ∃ kp, kp < 2 ^ 64 ∧ e.1 = vis kp ∧ Ent s kp e.2 := by
  obtain ⟨t, ht, hm⟩ := (physOf_mem_flatten s e).1 he
  obtain ⟨kp, hkp, hv, hh⟩ := (Table.mem_enum (hS.wf t ht) e.1 e.2).1 hm
  exact ⟨kp, hkp, hv, t, ht, hh⟩

/-- the well-formed key named by key bits `vis kp` and a stored tail that continues them -/
def keyOf (kp tl : Nat) : Key := ⟨vis kp * 2 ^ 14 + tl / 2 ^ 192 % 2 ^ 14, tl⟩

theorem keyOf_wf (kp tl : Nat) (hkp : kp < 2 ^ 64) (hb : vis kp % 4 = tl / 2 ^ 206) :
    KeyWF (keyOf kp tl) ∧ vis (keyOf kp tl).pre = vis kp := by
  have hv : vis kp < 2 ^ 50 := by
    unfold vis; rw [Nat.shiftRight_eq_div_pow]; omega
  have hvis : vis (keyOf kp tl).pre = vis kp := by
    show vis (vis kp * 2 ^ 14 + tl / 2 ^ 192 % 2 ^ 14) = vis kp
    generalize vis kp = x
    unfold vis; rw [Nat.shiftRight_eq_div_pow]; omega
  refine ⟨⟨?_, ?_, ?_⟩, hvis⟩
  · show vis kp * 2 ^ 14 + tl / 2 ^ 192 % 2 ^ 14 < 2 ^ 64
    omega
  · show tl < 2 ^ 208
    omega
  · show (vis kp * 2 ^ 14 + tl / 2 ^ 192 % 2 ^ 14) % 2 ^ 16 = tl / 2 ^ 192
    omega

theorem physOf_invN {s : Col} {m : Key → Option Val} (hS : Shape s) (hN : NoStale s)
    (hA : AbsN s m) : (physOf s).InvN := by
  refine ⟨fun e1 h1 e2 h2 s1 s2 hs1 hs2 hv ht => ?_, fun l hl => ?_, fun l hl e he => ?_,
    fun a sl hsl => ?_⟩
  · obtain ⟨k1, hk1, hv1, t1, ht1, hh1⟩ := physOf_entry hS e1 h1
    obtain ⟨k2, hk2, hv2, t2, ht2, hh2⟩ := physOf_entry hS e2 h2
    simp only [physOf] at hs1 hs2
    cases hva : s.valAt e1.2 with
    | none => rw [hva] at hs1; cases hs1
    | some sl1 =>
      cases hvb : s.valAt e2.2 with
      | none => rw [hvb] at hs2; cases hs2
      | some sl2 =>
        rw [hva] at hs1; rw [hvb] at hs2
        simp only [Option.map_some, Option.some.injEq] at hs1 hs2
        subst hs1; subst hs2
        simp only at ht
        obtain ⟨tl, htl, hb⟩ := hN.live t1 ht1 k1 e1.2 hk1 hh1
        have htl1 : sl1.tail = tl := by
          unfold Col.tailAt at htl; rw [hva] at htl; simpa using htl
        obtain ⟨hwf, hvk⟩ := keyOf_wf k1 tl hk1 hb
        have hv12 : vis k1 = vis k2 := by rw [← hv1, ← hv2]; exact hv
        have E1 : Ent s (keyOf k1 tl).pre e1.2 :=
          Ent.of_vis hS hk1 hwf.pre_lt hvk.symm ⟨t1, ht1, hh1⟩
        have E2 : Ent s (keyOf k1 tl).pre e2.2 :=
          Ent.of_vis hS hk2 hwf.pre_lt (hv12.symm.trans hvk.symm) ⟨t2, ht2, hh2⟩
        obtain ⟨tl1, vl1⟩ := sl1
        obtain ⟨tl2, vl2⟩ := sl2
        simp only at htl1 ht
        subst htl1
        exact hA.one (keyOf k1 tl1) hwf e1.2 e2.2 vl1 vl2 E1 E2 hva (by rw [hvb, ← ht]; rfl)
  · simp only [physOf, List.mem_map] at hl
    obtain ⟨t, ht, rfl⟩ := hl
    have htm : t ∈ s.tables := by
      simp only [Col.tables]
      rcases List.mem_append.1 ht with h | h
      · exact List.mem_cons_of_mem _ h
      · have : t = s.current := by simpa using h
        rw [this]; simp
    exact Table.nodup_enum (hS.wf t htm) (hN.uniq t htm)
  · have hfl : e ∈ (physOf s).tables.flatten := List.mem_flatten.2 ⟨l, hl, he⟩
    obtain ⟨kp, hkp, _, t, ht, hh⟩ := physOf_entry hS e hfl
    obtain ⟨tl, htl, _⟩ := hN.live t ht kp e.2 hkp hh
    obtain ⟨v, hv⟩ := (tailAt_eq_some s e.2 tl).1 htl
    simp [physOf, hv]
  · simp only [physOf] at hsl
    cases hva : s.valAt a with
    | none => rw [hva] at hsl; cases hsl
    | some x =>
      rw [hva] at hsl
      simp only [Option.map_some, Option.some.injEq] at hsl
      subst hsl
      exact ⟨Nat.le_refl 1, (by decide : 1 < LOCKED)⟩

end Pdb.Index
