/-
C20, the physical walk WITHOUT A-tail: `PhysCol.InvN` replaces "one live slot per key tail"
(`PhysCol.Inv.inj`, which rests on assumption A-tail) by "one live slot per KEY" - a key of the
walk is (key bits shown by the entry, stored tail) - which holds in every reachable state of the
fixed index model (`Pdb.Index.NoStale` + `AbsN`, Pdb/Props/C20NoStale.lean).
-/
import Pdb.Proofs.C20Walk

namespace Pdb.Migrate
open Pdb Pdb.Gen

set_option linter.unusedSectionVars false

section
variable {P A T V : Type} [DecidableEq P] [DecidableEq A] [DecidableEq T]

/-- The hypotheses under which the walk is exact, without A-tail.
  * `one`: two entries that show the same key bits and address slots with the same stored tail
    address the same slot (one live slot per 256-bit key; two keys may share the tail).
  * `nodup`, `live`: as in `PhysCol.Inv` (`live` = no stale entry).
  * `count_ok`: as in `PhysCol.Inv`. -/
structure PhysCol.InvN (p : PhysCol P A T V) : Prop where
  one : ∀ e1 ∈ p.tables.flatten, ∀ e2 ∈ p.tables.flatten, ∀ s1 s2, p.slot e1.2 = some s1 →
    p.slot e2.2 = some s2 → e1.1 = e2.1 → s1.1 = s2.1 → e1.2 = e2.2
  nodup : ∀ t ∈ p.tables, t.Nodup
  live : ∀ t ∈ p.tables, ∀ e ∈ t, (p.slot e.2).isSome = true
  count_ok : ∀ a s, p.slot a = some s → 1 ≤ s.2.2 ∧ s.2.2 < LOCKED

theorem PhysCol.Inv.toN {p : PhysCol P A T V} (h : p.Inv) : p.InvN :=
  ⟨fun _ _ _ _ s1 s2 h1 h2 _ ht => h.inj _ _ s1 s2 h1 h2 ht, h.nodup, h.live, h.count_ok⟩

/-- what `get` finds for a key does not depend on the search order (one slot per key) -/
theorem content_eq_some_iff_N (p : PhysCol P A T V) (h : p.InvN) (k : P × T) (v : V) (n : Nat) :
    p.content k = some (v, n) ↔
      ∃ e ∈ p.tables.flatten, e.1 = k.1 ∧ p.slot e.2 = some (k.2, v, n) := by
  unfold PhysCol.content
  constructor
  · intro hc
    cases hf : p.searchOrder.find? (p.hit k) with
    | none => simp [hf] at hc
    | some e =>
      have hmem := (mem_searchOrder p e).mp (List.mem_of_find?_eq_some hf)
      have hhit : p.hit k e = true := List.find?_some hf
      simp only [hf, Option.bind_some] at hc
      cases hs : p.slot e.2 with
      | none => simp [hs] at hc
      | some s =>
        simp only [hs, Option.map_some, Option.some.injEq, Prod.mk.injEq] at hc
        simp only [PhysCol.hit, hs, Option.map_some, Option.getD_some, Bool.and_eq_true,
          decide_eq_true_eq] at hhit
        obtain ⟨t, v', n'⟩ := s
        simp only at hc hhit
        refine ⟨e, hmem, hhit.1, ?_⟩
        rw [hs, ← hc.1, ← hc.2, hhit.2]
  · rintro ⟨e, hmem, hk, hs⟩
    have hhit : p.hit k e = true := by simp [PhysCol.hit, hs, hk]
    cases hf : p.searchOrder.find? (p.hit k) with
    | none =>
      have := List.find?_eq_none.mp hf e ((mem_searchOrder p e).mpr hmem)
      exact absurd hhit this
    | some e' =>
      have hhit' : p.hit k e' = true := List.find?_some hf
      have hmem' := (mem_searchOrder p e').mp (List.mem_of_find?_eq_some hf)
      cases hs' : p.slot e'.2 with
      | none => simp [PhysCol.hit, hs'] at hhit'
      | some s' =>
        simp only [PhysCol.hit, hs', Option.map_some, Option.getD_some, Bool.and_eq_true,
          decide_eq_true_eq] at hhit'
        have ha : e'.2 = e.2 := h.one e' hmem' e hmem _ _ hs' hs (hhit'.1.trans hk.symm) hhit'.2
        rw [ha, hs] at hs'
        simp only [Option.bind_some, ha, hs, Option.map_some]

theorem walkItems_keys_nodup_N (p : PhysCol P A T V) (h : p.InvN) :
    ((walkItems p).map (·.1)).Nodup := by
  unfold walkItems
  apply nodup_filterMap_map
  · exact nodup_walkEntries [] p.tables h.nodup
  · intro a ha b hb x y hx hy hxy
    have hma := ((mem_walkEntries [] p.tables a).mp ha).2
    have hmb := ((mem_walkEntries [] p.tables b).mp hb).2
    simp only [PhysCol.itemAt] at hx hy
    cases hsa : p.slot a.2 with
    | none => simp [hsa] at hx
    | some sa =>
      cases hsb : p.slot b.2 with
      | none => simp [hsb] at hy
      | some sb =>
        simp only [hsa, hsb, Option.map_some, Option.some.injEq] at hx hy
        subst hx; subst hy
        simp only [Prod.mk.injEq] at hxy
        exact Prod.ext hxy.1 (h.one a hma b hmb _ _ hsa hsb hxy.1 hxy.2)

/-- Destination = source for the physical walk, without A-tail. -/
theorem walk_dest_eq_N (p : PhysCol P A T V) (h : p.InvN) (kd : Kind) (k : P × T) :
    migrateWith (walkItems p) setsOf kd k = expectCell kd (p.content k) := by
  have hcell : ∀ e ∈ walkItems p, p.content e.1 = some (e.2.2, e.2.1) := by
    intro e he
    obtain ⟨k', n', v'⟩ := e
    exact (content_eq_some_iff_N p h k' v' n').mpr ((mem_walkItems p k' v' n').mp he)
  rw [items_eq_filterMap p.content (walkItems p) hcell,
    migrateWith_keys _ setsOf keyLocal_setsOf kd _ (walkItems_keys_nodup_N p h)]
  by_cases hk : k ∈ (walkItems p).map (·.1)
  · simp only [hk, if_true]
    cases hc : p.content k with
    | none => simp [expectCell]
    | some c =>
      obtain ⟨v, n⟩ := c
      obtain ⟨e, _, _, hs⟩ := (content_eq_some_iff_N p h k v n).mp hc
      have := h.count_ok _ _ hs
      simpa using cellFold_setsOf kd k v n this.1 this.2
  · simp only [hk, if_false]
    cases hc : p.content k with
    | none => simp [expectCell]
    | some c =>
      exfalso
      obtain ⟨v, n⟩ := c
      have hm := (mem_walkItems p k v n).mpr ((content_eq_some_iff_N p h k v n).mp hc)
      exact hk (List.mem_map.mpr ⟨_, hm, rfl⟩)

end

end Pdb.Migrate
