/-
Helper lemmas for the concurrent-reader model (C05): overlay cleaning vs. commit, log-overlay
lookups, the shadowing of partially enacted records.
-/
import Pdb.Model.ConcRead
import Pdb.Proofs.PipelineThm

set_option linter.unusedSectionVars false
set_option linter.unusedSimpArgs false
namespace Pdb
namespace CRd
variable {K V : Type} [DecidableEq K]

/-! ### `clean_overlay` looks at one entry at a time -/

theorem cleanOp_congr (id : Nat) (ov ov' : K → Option (Nat × Option V)) (op : Op K V) (k : K)
    (h : ov k = ov' k) : cleanOp id ov op k = cleanOp id ov' op k := by
  cases op with
  | set k' v =>
    simp only [cleanOp]
    by_cases e : k = k'
    · subst e; simp [h]
    · simp [e, h]
  | deref k' =>
    simp only [cleanOp]
    by_cases e : k = k'
    · subst e; simp [h]
    · simp [e, h]
  | ref k' => simpa [cleanOp] using h

theorem clean_fold_congr (id : Nat) (ops : List (Op K V)) (ov ov' : K → Option (Nat × Option V))
    (k : K) (h : ov k = ov' k) :
    (ops.foldl (cleanOp id) ov) k = (ops.foldl (cleanOp id) ov') k := by
  induction ops generalizing ov ov' with
  | nil => simpa using h
  | cons op ops ih =>
    simp only [List.foldl_cons]
    exact ih _ _ (cleanOp_congr id ov ov' op k h)

theorem cleanOp_cases (id : Nat) (ov : K → Option (Nat × Option V)) (op : Op K V) (k : K) :
    cleanOp id ov op k = ov k ∨ cleanOp id ov op k = none := by
  cases h : ov k with
  | none => left; rw [cleanOp_other id ov op k (by intro v; rw [h]; simp), h]
  | some x =>
    obtain ⟨i, v⟩ := x
    by_cases hi : i = id
    · subst hi
      by_cases e : cleanKey op = some k
      · right; exact (cleanOp_hit i ov op k v h).1 e
      · left; rw [(cleanOp_hit i ov op k v h).2 e, h]
    · left
      rw [cleanOp_other id ov op k (by intro w; rw [h]; simp; intro e; exact absurd e hi), h]

theorem clean_fold_cases (id : Nat) (ops : List (Op K V)) (ov : K → Option (Nat × Option V))
    (k : K) : (ops.foldl (cleanOp id) ov) k = ov k ∨ (ops.foldl (cleanOp id) ov) k = none := by
  induction ops generalizing ov with
  | nil => left; rfl
  | cons op ops ih =>
    simp only [List.foldl_cons]
    rcases ih (cleanOp id ov op) with h | h
    · rcases cleanOp_cases id ov op k with h2 | h2
      · left; rw [h, h2]
      · right; rw [h, h2]
    · right; exact h

/-- Cleaning the entries of commit `i0` commutes with publishing a commit with another id. -/
theorem clean_ov_comm (kind : K → Kind) (i0 id : Nat) (hne : id ≠ i0) (ops0 tx : List (Op K V))
    (ov : K → Option (Nat × Option V)) :
    ops0.foldl (cleanOp i0) (tx.foldl (ovOp kind id) ov) =
      tx.foldl (ovOp kind id) (ops0.foldl (cleanOp i0) ov) := by
  funext k
  rw [ovOp_fold kind id tx (ops0.foldl (cleanOp i0) ov) k]
  cases hw : lastW (opsW kind id tx) k with
  | some x =>
    obtain ⟨i, v⟩ := x
    have ht := (opsW_tag kind id tx k i v hw).1
    subst ht
    have e : (tx.foldl (ovOp kind i) ov) k = some (i, v) := by
      rw [ovOp_fold, hw]; rfl
    rw [clean_fold_other i0 ops0 _ k (by intro w; rw [e]; simp; intro e2; exact absurd e2 hne), e]
    rfl
  | none =>
    have e : (tx.foldl (ovOp kind id) ov) k = ov k := by
      rw [ovOp_fold, hw]; rfl
    rw [clean_fold_congr i0 ops0 _ ov k e]
    rfl

/-! ### log-overlay lookups -/

theorem logLookup_none_iff (rs : List (Rec K V)) (k : K) :
    logLookup rs k = none ↔ ∀ r ∈ rs, lastW r k = none := by
  unfold logLookup
  rw [List.findSome?_eq_none_iff]
  constructor
  · intro h r hr
    rw [← recLookup_eq]
    exact h r (List.mem_reverse.mpr hr)
  · intro h r hr
    rw [recLookup_eq]
    exact h r (List.mem_reverse.mp hr)

theorem lastW_planRec_none (kind : K → Kind) (t : Tbl K V) (ops : List (Op K V)) (k : K)
    (h : k ∉ ops.map Op.key) : lastW (planRec kind t ops) k = none := by
  unfold planRec
  simp only
  rw [lastW_map_const]
  simp [h]

/-- On a plain column every valid operation on `k` leaves an entry in the commit overlay. -/
theorem opsW_none_notin (kind : K → Kind) (id : Nat) (ops : List (Op K V)) (k : K)
    (hk : kind k = .plain) (hv : ops.all (opValid kind) = true)
    (h : lastW (opsW kind id ops) k = none) : k ∉ ops.map Op.key := by
  induction ops with
  | nil => simp
  | cons op ops ih =>
    rw [opsW_cons, lastW_append] at h
    simp only [List.all_cons, Bool.and_eq_true] at hv
    have h2 : lastW (opsW kind id ops) k = none := by
      cases hh : lastW (opsW kind id ops) k with
      | none => rfl
      | some x => rw [hh] at h; simp at h
    rw [h2] at h
    simp only [Option.or] at h
    have := ih hv.2 h2
    simp only [List.map_cons, List.mem_cons, not_or]
    refine ⟨?_, this⟩
    intro e
    cases op with
    | set k' v =>
      simp only [Op.key] at e; subst e
      simp [opW, lastW] at h
    | deref k' =>
      simp only [Op.key] at e; subst e
      simp [opW, lastW, hk] at h
    | ref k' =>
      simp only [Op.key] at e; subst e
      simp [opValid, hk] at hv

/-! ### shadowing: a partially enacted record is covered by the log overlay -/

theorem shadow_key (base : Tbl K V) (logged : List (Rec K V)) (pos : Nat) (k : K)
    (h : logLookup logged k = none) :
    applyRecPrefix pos base (logged.headD []) k = base k := by
  cases logged with
  | nil => simp [applyRecPrefix, applyRec]
  | cons r rs =>
    have := (logLookup_none_iff (r :: rs) k).mp h r (by simp)
    simp only [List.headD_cons, applyRecPrefix]
    rw [applyRec_eq, lastW_take_none r pos k this]
    rfl

theorem shadow_view (base : Tbl K V) (logged : List (Rec K V)) (pos : Nat) (k : K) :
    (logLookup logged k).getD (applyRecPrefix pos base (logged.headD []) k) =
      (logLookup logged k).getD (base k) := by
  cases h : logLookup logged k with
  | some c => rfl
  | none =>
    have := shadow_key base logged pos k h
    simp only [Option.getD_none]
    exact this

theorem view_enactOne (s : St K V) : view (enactOne s) = view s := by
  rw [view_eq, view_eq]
  unfold enactOne
  cases hf : s.flushed with
  | zero => simp
  | succ f =>
    cases hl : s.logged with
    | nil => simp [hl]
    | cons r rs => simp [applyRecs]

end CRd
end Pdb
