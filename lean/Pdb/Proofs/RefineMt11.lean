/-
R6 lemmas, part 11: the supply bookkeeping of `claim_tree_values`: `claim_node` takes, per tier, the claimed offsets in
order; every NewValue of the plan goes to a different claimed slot of the tier selected for its node.
-/
import Pdb.Proofs.RefineMt10

namespace Pdb.MultiTreePhys
open Pdb.Gen Pdb.ValueTable Pdb.MultiTree

theorem address_new_lt (off tier : Nat) : Address.new off tier < 2 ^ 64 := by
  simp only [Address.new, wor, wshl, wcast]
  exact Nat.or_lt_two_pow (Nat.mod_lt _ (by decide)) (Nat.mod_lt _ (by decide))

/-- the remaining claimed offsets of a tier -/
def Supply.get : Supply → Nat → List Nat
  | [], _ => []
  | (t, l) :: r, tier => if t = tier then l else Supply.get r tier

theorem take_fst (s : Supply) (tier : Nat) : (Supply.take s tier).1 = (Supply.get s tier).headD 0 := by
  induction s with
  | nil => rfl
  | cons e r ih =>
    obtain ⟨t, l⟩ := e
    simp only [Supply.take, Supply.get]
    split <;> simp [ih]

theorem get_take_same (s : Supply) (tier : Nat) :
    Supply.get (Supply.take s tier).2 tier = (Supply.get s tier).tail := by
  induction s with
  | nil => rfl
  | cons e r ih =>
    obtain ⟨t, l⟩ := e
    simp only [Supply.take, Supply.get]
    split
    · rename_i h; simp [Supply.get, h]
    · rename_i h; simp [Supply.get, h, ih]

theorem get_take_other (s : Supply) (tier tier' : Nat) (hne : tier' ≠ tier) :
    Supply.get (Supply.take s tier).2 tier' = Supply.get s tier' := by
  induction s with
  | nil => rfl
  | cons e r ih =>
    obtain ⟨t, l⟩ := e
    simp only [Supply.take, Supply.get]
    split
    · rename_i h
      subst h
      have : ¬ t = tier' := fun e => hne e.symm
      simp [Supply.get, this]
    · rename_i h
      simp only [Supply.get]
      split
      · rfl
      · exact ih

mutual
  theorem planRef_len (rc ap : Bool) : ∀ (s : Supply) (r : NRef Bytes), True
    | _, _ => trivial
  /-- one address per child -/
  theorem planRefs_len (rc ap : Bool) : ∀ (s : Supply) (cs : NRefs Bytes),
      (physPlanRefs rc ap s cs).2.2.length = cs.length
    | s, .nil => rfl
    | s, .cons r rs => by
      rcases hP1 : physPlanRef rc ap s r with ⟨c1, s1, a⟩
      rcases hP2 : physPlanRefs rc ap s1 rs with ⟨c2, s2, as⟩
      have ih := planRefs_len rc ap s1 rs
      rw [hP2] at ih
      simp only [physPlanRefs, hP1, hP2, NRefs.length, List.length_cons]
      simp only [] at ih
      omega
end

theorem tail_drop (l : List Nat) (n : Nat) : l.tail.drop n = l.drop (n + 1) := by
  cases l <;> simp

theorem count_cons_eq (tier T : Nat) (l : List Nat) :
    (T :: l).count tier = l.count tier + (if tier = T then 1 else 0) := by
  rw [List.count_cons]
  by_cases h : tier = T
  · subst h; simp
  · have : ¬ T = tier := fun e => h e.symm
    simp [h, this]

mutual
  /-- the supply after planning a reference: per tier, as many offsets are gone as the reference has new nodes there -/
  theorem planRef_supply (rc ap : Bool) : ∀ (s : Supply) (r : NRef Bytes) (tier : Nat),
      (physPlanRef rc ap s r).2.1.get tier = (s.get tier).drop ((tiersRef rc r).count tier)
    | s, .existing a, tier => by simp [physPlanRef, tiersRef]
    | s, .new d cs, tier => by
      have ih := planRefs_supply rc ap (s.take (nodeTier rc d.length cs.length)).2 cs tier
      rcases hP : physPlanRefs rc ap (s.take (nodeTier rc d.length cs.length)).2 cs with ⟨chs, s2, as⟩
      rw [hP] at ih
      simp only [] at ih
      simp only [physPlanRef, hP, tiersRef, count_cons_eq]
      rw [ih]
      by_cases he : tier = nodeTier rc d.length cs.length
      · subst he; rw [get_take_same, tail_drop, if_pos rfl]
      · rw [get_take_other _ _ _ he, if_neg he]; rfl
  theorem planRefs_supply (rc ap : Bool) : ∀ (s : Supply) (cs : NRefs Bytes) (tier : Nat),
      (physPlanRefs rc ap s cs).2.1.get tier = (s.get tier).drop ((tiersRefs rc cs).count tier)
    | s, .nil, tier => by simp [physPlanRefs, tiersRefs]
    | s, .cons r rs, tier => by
      have ih1 := planRef_supply rc ap s r tier
      rcases hP1 : physPlanRef rc ap s r with ⟨c1, s1, a⟩
      rw [hP1] at ih1
      have ih2 := planRefs_supply rc ap s1 rs tier
      rcases hP2 : physPlanRefs rc ap s1 rs with ⟨c2, s2, as⟩
      rw [hP2] at ih2
      simp only [] at ih1 ih2
      simp only [physPlanRefs, hP1, hP2, tiersRefs, List.count_append]
      rw [ih2, ih1, List.drop_drop]
end

theorem mem_take_mono {l : List Nat} {n m : Nat} {x : Nat} (h : n ≤ m) (hx : x ∈ l.take n) : x ∈ l.take m := by
  have : l.take n = (l.take m).take n := by rw [List.take_take, Nat.min_eq_left h]
  rw [this] at hx
  exact List.mem_of_mem_take hx

theorem mem_drop_take {l : List Nat} {a b : Nat} {x : Nat} (hx : x ∈ (l.drop a).take b) : x ∈ l.take (a + b) := by
  rw [List.take_add]
  exact List.mem_append_right _ hx

theorem mem_tail_take {l : List Nat} {c : Nat} {x : Nat} (hx : x ∈ l.tail.take c) : x ∈ l.take (c + 1) := by
  cases l with
  | nil => simp at hx
  | cons y l' => simp only [List.tail_cons] at hx; simp [List.take_succ_cons, hx]

/-- what the plan says about one NewValue: its address is `Address.new off T` for the tier `T` selected for the node and
    one of the first `cnt T` remaining offsets of that tier -/
def NVFact (rc : Bool) (s : Supply) (cnt : Nat → Nat) (a : Nat) (n : Node Bytes) : Prop :=
  ∃ off, off ∈ (s.get (nodeTier rc n.data.length n.children.length)).take
      (cnt (nodeTier rc n.data.length n.children.length)) ∧
    a = Address.new off (nodeTier rc n.data.length n.children.length)

mutual
  theorem planRef_nv (rc ap : Bool) : ∀ (s : Supply) (r : NRef Bytes),
      (∀ tier, (tiersRef rc r).count tier ≤ (s.get tier).length) →
      ∀ a n, NodeChange.newValue a n ∈ (physPlanRef rc ap s r).1 →
        NVFact rc s (fun tier => (tiersRef rc r).count tier) a n
    | s, .existing a0, _ => by
      intro a n hm
      cases ap <;> simp [physPlanRef] at hm
    | s, .new d cs, hcap => by
      intro a n hm
      have hlen := planRefs_len rc ap (s.take (nodeTier rc d.length cs.length)).2 cs
      have hcap' : ∀ tier, (tiersRefs rc cs).count tier ≤
          ((s.take (nodeTier rc d.length cs.length)).2.get tier).length := by
        intro tier
        have := hcap tier
        simp only [tiersRef, count_cons_eq] at this
        by_cases he : tier = nodeTier rc d.length cs.length
        · subst he; rw [get_take_same, List.length_tail]; rw [if_pos rfl] at this; omega
        · rw [get_take_other _ _ _ he]; rw [if_neg he] at this; omega
      have ih := planRefs_nv rc ap (s.take (nodeTier rc d.length cs.length)).2 cs hcap'
      rcases hP : physPlanRefs rc ap (s.take (nodeTier rc d.length cs.length)).2 cs with ⟨chs, s2, as⟩
      rw [hP] at ih hlen
      simp only [] at ih hlen
      simp only [physPlanRef, hP] at hm
      rcases List.mem_append.mp hm with hm | hm
      · obtain ⟨off, ho, ha⟩ := ih a n hm
        refine ⟨off, ?_, ha⟩
        simp only [tiersRef, count_cons_eq]
        by_cases he : nodeTier rc n.data.length n.children.length = nodeTier rc d.length cs.length
        · rw [he] at ho ⊢
          rw [get_take_same] at ho
          rw [if_pos rfl]
          exact mem_tail_take ho
        · rw [get_take_other _ _ _ he] at ho
          rw [if_neg he]; exact ho
      · simp only [List.mem_singleton, NodeChange.newValue.injEq] at hm
        obtain ⟨rfl, rfl⟩ := hm
        unfold NVFact
        simp only [hlen]
        refine ⟨(s.take (nodeTier rc d.length cs.length)).1, ?_, rfl⟩
        rw [take_fst]
        have := hcap (nodeTier rc d.length cs.length)
        simp only [tiersRef, count_cons_eq, if_pos] at this ⊢
        cases hl : s.get (nodeTier rc d.length cs.length) with
        | nil => rw [hl] at this; simp at this
        | cons x xs => simp [List.take_succ_cons]
  theorem planRefs_nv (rc ap : Bool) : ∀ (s : Supply) (cs : NRefs Bytes),
      (∀ tier, (tiersRefs rc cs).count tier ≤ (s.get tier).length) →
      ∀ a n, NodeChange.newValue a n ∈ (physPlanRefs rc ap s cs).1 →
        NVFact rc s (fun tier => (tiersRefs rc cs).count tier) a n
    | s, .nil, _ => by intro a n hm; simp [physPlanRefs] at hm
    | s, .cons r rs, hcap => by
      intro a n hm
      have hsup := planRef_supply rc ap s r
      have hcap1 : ∀ tier, (tiersRef rc r).count tier ≤ (s.get tier).length := by
        intro tier; have := hcap tier; simp only [tiersRefs, List.count_append] at this; omega
      have ih1 := planRef_nv rc ap s r hcap1
      rcases hP1 : physPlanRef rc ap s r with ⟨c1, s1, a1⟩
      rw [hP1] at ih1 hsup
      simp only [] at ih1 hsup
      have hcap2 : ∀ tier, (tiersRefs rc rs).count tier ≤ (s1.get tier).length := by
        intro tier
        have := hcap tier
        simp only [tiersRefs, List.count_append] at this
        rw [hsup tier, List.length_drop]; omega
      have ih2 := planRefs_nv rc ap s1 rs hcap2
      rcases hP2 : physPlanRefs rc ap s1 rs with ⟨c2, s2, as⟩
      rw [hP2] at ih2
      simp only [] at ih2
      simp only [physPlanRefs, hP1, hP2] at hm
      simp only [tiersRefs, List.count_append]
      rcases List.mem_append.mp hm with hm | hm
      · obtain ⟨off, ho, ha⟩ := ih1 a n hm
        exact ⟨off, mem_take_mono (Nat.le_add_right _ _) ho, ha⟩
      · obtain ⟨off, ho, ha⟩ := ih2 a n hm
        rw [hsup] at ho
        exact ⟨off, mem_drop_take ho, ha⟩
end

theorem exists_of_mem_newAddrs {a : Nat} {chs : List NChange} (h : a ∈ newAddrs chs) :
    ∃ n, NodeChange.newValue a n ∈ chs := by
  unfold newAddrs at h
  obtain ⟨c, hc, he⟩ := List.mem_filterMap.mp h
  cases c with
  | newValue a' n => simp only [Option.some.injEq] at he; subst he; exact ⟨n, hc⟩
  | incRef _ => simp at he
  | derefChildren _ _ => simp at he

theorem nodeTier_lt (rc : Bool) (a b : Nat) : nodeTier rc a b < 256 := tierOfLen_lt_256 _ _ _

theorem address_new_inj (o1 t1 o2 t2 : Nat) (h1 : o1 < 2 ^ 56) (h2 : o2 < 2 ^ 56) (ht1 : t1 < 256) (ht2 : t2 < 256)
    (h : Address.new o1 t1 = Address.new o2 t2) : o1 = o2 ∧ t1 = t2 := by
  have a1 := Index.address_tier_new o1 t1 h1 ht1
  have a2 := Index.address_offset_new o1 t1 h1 ht1
  have b1 := Index.address_tier_new o2 t2 h2 ht2
  have b2 := Index.address_offset_new o2 t2 h2 ht2
  rw [h] at a1 a2
  exact ⟨a2.symm.trans b2, a1.symm.trans b1⟩

/-- a supply of claimed offsets: no offset twice per tier, offsets below 2^56 -/
def SupOk (s : Supply) : Prop := ∀ tier, (s.get tier).Nodup ∧ ∀ o ∈ s.get tier, o < 2 ^ 56

theorem SupOk.take {s : Supply} (h : SupOk s) (T : Nat) : SupOk (s.take T).2 := by
  intro tier
  by_cases he : tier = T
  · subst he
    rw [get_take_same]
    exact ⟨(h tier).1.sublist (List.tail_sublist _), fun o ho => (h tier).2 o (List.mem_of_mem_tail ho)⟩
  · rw [get_take_other _ _ _ he]; exact h tier

theorem take_drop_disjoint {l : List Nat} (hl : l.Nodup) (c : Nat) {x : Nat} (h1 : x ∈ l.take c)
    (h2 : x ∈ l.drop c) : False := by
  have := List.take_append_drop c l
  rw [← this] at hl
  exact (List.nodup_append.mp hl).2.2 x h1 x h2 rfl

mutual
  theorem planRef_nodup (rc ap : Bool) : ∀ (s : Supply) (r : NRef Bytes),
      (∀ tier, (tiersRef rc r).count tier ≤ (s.get tier).length) → SupOk s →
      (newAddrs (physPlanRef rc ap s r).1).Nodup
    | s, .existing a0, _, _ => by cases ap <;> simp [physPlanRef, newAddrs]
    | s, .new d cs, hcap, hs => by
      have hcap' : ∀ tier, (tiersRefs rc cs).count tier ≤
          ((s.take (nodeTier rc d.length cs.length)).2.get tier).length := by
        intro tier
        have := hcap tier
        simp only [tiersRef, count_cons_eq] at this
        by_cases he : tier = nodeTier rc d.length cs.length
        · subst he; rw [get_take_same, List.length_tail]; rw [if_pos rfl] at this; omega
        · rw [get_take_other _ _ _ he]; rw [if_neg he] at this; omega
      have ih := planRefs_nodup rc ap (s.take (nodeTier rc d.length cs.length)).2 cs hcap' (hs.take _)
      have hnv := planRefs_nv rc ap (s.take (nodeTier rc d.length cs.length)).2 cs hcap'
      rcases hP : physPlanRefs rc ap (s.take (nodeTier rc d.length cs.length)).2 cs with ⟨chs, s2, as⟩
      rw [hP] at ih hnv
      simp only [] at ih hnv
      simp only [physPlanRef, hP, newAddrs_append]
      have e : newAddrs [NodeChange.newValue (K := Key)
          (Address.new (s.take (nodeTier rc d.length cs.length)).1 (nodeTier rc d.length cs.length)) ⟨d, as⟩] =
          [Address.new (s.take (nodeTier rc d.length cs.length)).1 (nodeTier rc d.length cs.length)] := rfl
      rw [e]
      refine List.nodup_append.mpr ⟨ih, by simp, ?_⟩
      intro a ha b hb hab
      simp only [List.mem_singleton] at hb
      subst hb
      subst hab
      obtain ⟨n, hn⟩ := exists_of_mem_newAddrs ha
      obtain ⟨off, ho, hoa⟩ := hnv _ n hn
      -- head of the supply of the tier
      have hc := hcap (nodeTier rc d.length cs.length)
      simp only [tiersRef, count_cons_eq, if_pos] at hc
      cases hl : s.get (nodeTier rc d.length cs.length) with
      | nil => rw [hl] at hc; simp at hc
      | cons x xs =>
        have hx : (s.take (nodeTier rc d.length cs.length)).1 = x := by rw [take_fst, hl]; rfl
        rw [hx] at hoa
        have hsT := hs (nodeTier rc d.length cs.length)
        rw [hl] at hsT
        have hofftail := List.mem_of_mem_take ho
        have hoffT : off < 2 ^ 56 := by
          have := (hs.take (nodeTier rc d.length cs.length) (nodeTier rc n.data.length n.children.length)).2 off hofftail
          exact this
        obtain ⟨e1, e2⟩ := address_new_inj x _ off _ (hsT.2 x (by simp)) hoffT (nodeTier_lt _ _ _)
          (nodeTier_lt _ _ _) hoa
        rw [← e2, get_take_same, hl] at hofftail
        simp only [List.tail_cons] at hofftail
        rw [← e1] at hofftail
        exact (List.nodup_cons.mp hsT.1).1 hofftail
  theorem planRefs_nodup (rc ap : Bool) : ∀ (s : Supply) (cs : NRefs Bytes),
      (∀ tier, (tiersRefs rc cs).count tier ≤ (s.get tier).length) → SupOk s →
      (newAddrs (physPlanRefs rc ap s cs).1).Nodup
    | s, .nil, _, _ => by simp [physPlanRefs, newAddrs]
    | s, .cons r rs, hcap, hs => by
      have hsup := planRef_supply rc ap s r
      have hcap1 : ∀ tier, (tiersRef rc r).count tier ≤ (s.get tier).length := by
        intro tier; have := hcap tier; simp only [tiersRefs, List.count_append] at this; omega
      have ih1 := planRef_nodup rc ap s r hcap1 hs
      have hnv1 := planRef_nv rc ap s r hcap1
      rcases hP1 : physPlanRef rc ap s r with ⟨c1, s1, a1⟩
      rw [hP1] at ih1 hsup hnv1
      simp only [] at ih1 hsup hnv1
      have hcap2 : ∀ tier, (tiersRefs rc rs).count tier ≤ (s1.get tier).length := by
        intro tier
        have := hcap tier
        simp only [tiersRefs, List.count_append] at this
        rw [hsup tier, List.length_drop]; omega
      have hs1 : SupOk s1 := by
        intro tier
        rw [hsup tier]
        exact ⟨(hs tier).1.sublist (List.drop_sublist _ _), fun o ho => (hs tier).2 o (List.mem_of_mem_drop ho)⟩
      have ih2 := planRefs_nodup rc ap s1 rs hcap2 hs1
      have hnv2 := planRefs_nv rc ap s1 rs hcap2
      rcases hP2 : physPlanRefs rc ap s1 rs with ⟨c2, s2, as⟩
      rw [hP2] at ih2 hnv2
      simp only [] at ih2 hnv2
      simp only [physPlanRefs, hP1, hP2, newAddrs_append]
      refine List.nodup_append.mpr ⟨ih1, ih2, ?_⟩
      intro a ha b hb hab
      subst hab
      obtain ⟨n1, hn1⟩ := exists_of_mem_newAddrs ha
      obtain ⟨n2, hn2⟩ := exists_of_mem_newAddrs hb
      obtain ⟨o1, ho1, e1⟩ := hnv1 a n1 hn1
      obtain ⟨o2, ho2, e2⟩ := hnv2 a n2 hn2
      rw [hsup] at ho2
      have hb1 : o1 < 2 ^ 56 := (hs _).2 o1 (List.mem_of_mem_take ho1)
      have hb2 : o2 < 2 ^ 56 := (hs _).2 o2 (List.mem_of_mem_drop (List.mem_of_mem_take ho2))
      rw [e1] at e2
      obtain ⟨eo, et⟩ := address_new_inj o1 _ o2 _ hb1 hb2 (nodeTier_lt _ _ _) (nodeTier_lt _ _ _) e2
      rw [← et, ← eo] at ho2
      exact take_drop_disjoint (hs _).1 _ ho1 (List.mem_of_mem_take ho2)
end

theorem mem_take_add {l : List Nat} {a b : Nat} {x : Nat} (hx : x ∈ l.take (a + b)) :
    x ∈ l.take a ∨ x ∈ (l.drop a).take b := by
  rw [List.take_add] at hx
  exact List.mem_append.mp hx

theorem mem_take_succ {l : List Nat} {c : Nat} {x : Nat} (hx : x ∈ l.take (c + 1)) :
    (∃ y ys, l = y :: ys ∧ x = y) ∨ x ∈ l.tail.take c := by
  cases l with
  | nil => simp at hx
  | cons y ys =>
    simp only [List.take_succ_cons, List.mem_cons] at hx
    rcases hx with rfl | hx
    · exact Or.inl ⟨x, ys, rfl, rfl⟩
    · exact Or.inr (by simpa using hx)

mutual
  /-- converse of `planRef_nv`: every one of the first `count` offsets of a tier is written by a NewValue of the plan -/
  theorem planRef_used (rc ap : Bool) : ∀ (s : Supply) (r : NRef Bytes) (T off : Nat),
      off ∈ (s.get T).take ((tiersRef rc r).count T) →
      ∃ a n, NodeChange.newValue a n ∈ (physPlanRef rc ap s r).1 ∧ a = Address.new off T ∧
        T = nodeTier rc n.data.length n.children.length
    | s, .existing a0, T, off => by
      intro ho
      simp [tiersRef] at ho
    | s, .new d cs, T, off => by
      intro ho
      have hlen := planRefs_len rc ap (s.take (nodeTier rc d.length cs.length)).2 cs
      have ih := planRefs_used rc ap (s.take (nodeTier rc d.length cs.length)).2 cs T off
      rcases hP : physPlanRefs rc ap (s.take (nodeTier rc d.length cs.length)).2 cs with ⟨chs, s2, as⟩
      rw [hP] at ih hlen
      simp only [] at ih hlen
      simp only [physPlanRef, hP]
      simp only [tiersRef, count_cons_eq] at ho
      by_cases he : T = nodeTier rc d.length cs.length
      · subst he
        rw [if_pos rfl] at ho
        rcases mem_take_succ ho with ⟨y, ys, hl, hy⟩ | ho'
        · refine ⟨_, ⟨d, as⟩, List.mem_append_right _ (List.mem_singleton.mpr rfl), ?_, ?_⟩
          · rw [take_fst, hl, hy]; rfl
          · simp only [hlen]
        · rw [← get_take_same] at ho'
          obtain ⟨a, n, hm, ha, hT⟩ := ih ho'
          exact ⟨a, n, List.mem_append_left _ hm, ha, hT⟩
      · rw [if_neg he, Nat.add_zero, ← get_take_other _ _ _ he] at ho
        obtain ⟨a, n, hm, ha, hT⟩ := ih ho
        exact ⟨a, n, List.mem_append_left _ hm, ha, hT⟩
  theorem planRefs_used (rc ap : Bool) : ∀ (s : Supply) (cs : NRefs Bytes) (T off : Nat),
      off ∈ (s.get T).take ((tiersRefs rc cs).count T) →
      ∃ a n, NodeChange.newValue a n ∈ (physPlanRefs rc ap s cs).1 ∧ a = Address.new off T ∧
        T = nodeTier rc n.data.length n.children.length
    | s, .nil, T, off => by intro ho; simp [tiersRefs] at ho
    | s, .cons r rs, T, off => by
      intro ho
      have hsup := planRef_supply rc ap s r
      have ih1 := planRef_used rc ap s r T off
      rcases hP1 : physPlanRef rc ap s r with ⟨c1, s1, a1⟩
      rw [hP1] at ih1 hsup
      have ih2 := planRefs_used rc ap s1 rs T off
      rcases hP2 : physPlanRefs rc ap s1 rs with ⟨c2, s2, as⟩
      rw [hP2] at ih2
      simp only [] at ih1 ih2 hsup
      simp only [physPlanRefs, hP1, hP2]
      simp only [tiersRefs, List.count_append] at ho
      rcases mem_take_add ho with ho | ho
      · obtain ⟨a, n, hm, ha, hT⟩ := ih1 ho
        exact ⟨a, n, List.mem_append_left _ hm, ha, hT⟩
      · rw [← hsup] at ho
        obtain ⟨a, n, hm, ha, hT⟩ := ih2 ho
        exact ⟨a, n, List.mem_append_right _ hm, ha, hT⟩
end

end Pdb.MultiTreePhys
