/-
C09: the removal of stale entries from the queued tables (`purgeTable`, `purgeOlder`,
fix-c09-stale-index-entries) and how `writeExisting` (fixed code) relates to `writeExisting0`.

  * `purgeTable_ind`   one induction for every property of a purged table: it is enough to look at
                       a single `Table.remove` of an entry whose address is the freed one
  * `Sub a t t'`       `t'` is `t` without some entries of address `a`
  * `IdxInv.purgeOlder` the index invariant survives once no value lives at the freed address
  * `writeExisting_ok` a successful `writeExisting` is a successful `writeExisting0`, followed by
                       `purgeOlder` when the operation frees the slot
-/
import Pdb.Proofs.C09Steps

namespace Pdb.Index
open Pdb.Gen Pdb.IndexPage

/-! ## `purgeTable` -/

theorem purgeTable_zero (ex : Bool) (kp a : Nat) (t : Table) (p : Nat) :
    purgeTable ex kp a 0 t p = t := rfl

theorem purgeTable_succ (ex : Bool) (kp a f : Nat) (t : Table) (p : Nat) :
    purgeTable ex kp a (f + 1) t p =
      match findEntry ex t.bits kp p (t.page (t.chunk kp)) with
      | none => t
      | some i =>
        purgeTable ex kp a f
          (if Entry.address (entryAt (t.page (t.chunk kp)) i) t.bits = a then (t.remove kp i).getD t
            else t) (i + 1) := rfl

/-- Every property kept by the removal of one entry of address `a` is kept by `purgeTable`. -/
theorem purgeTable_ind (P : Table → Prop) (ex : Bool) (kp a : Nat)
    (hstep : ∀ t i t', P t → t.remove kp i = some t' →
      Entry.address (entryAt (t.page (t.chunk kp)) i) t.bits = a → P t') :
    ∀ (f : Nat) (t : Table) (p : Nat), P t → P (purgeTable ex kp a f t p) := by
  intro f
  induction f with
  | zero => intro t p h; exact h
  | succ f ih =>
    intro t p h
    rw [purgeTable_succ]
    cases hfe : findEntry ex t.bits kp p (t.page (t.chunk kp)) with
    | none => exact h
    | some i =>
      simp only
      apply ih
      by_cases ha : Entry.address (entryAt (t.page (t.chunk kp)) i) t.bits = a
      · rw [if_pos ha]
        cases hr : t.remove kp i with
        | none => exact h
        | some t' => exact hstep t i t' h hr ha
      · rw [if_neg ha]; exact h

/-- `t'` is `t` without some entries whose address is `a`. -/
structure Sub (a : Nat) (t t' : Table) : Prop where
  bits : t'.bits = t.bits
  wf : TableWF t'
  sub : ∀ kp' a', t'.Has kp' a' → t.Has kp' a'
  keep : ∀ kp' a', t.Has kp' a' → a' ≠ a → t'.Has kp' a'

theorem Sub.refl (a : Nat) (t : Table) (h : TableWF t) : Sub a t t :=
  ⟨rfl, h, fun _ _ hh => hh, fun _ _ hh _ => hh⟩

theorem Sub.trans {a : Nat} {t1 t2 t3 : Table} (h1 : Sub a t1 t2) (h2 : Sub a t2 t3) : Sub a t1 t3 :=
  ⟨h2.bits.trans h1.bits, h2.wf, fun _ _ hh => h1.sub _ _ (h2.sub _ _ hh),
    fun _ _ hh hne => h2.keep _ _ (h1.keep _ _ hh hne) hne⟩

theorem Sub.remove {a : Nat} {t t' : Table} (hwf : TableWF t) (kp i : Nat)
    (hr : t.remove kp i = some t')
    (ha : Entry.address (entryAt (t.page (t.chunk kp)) i) t.bits = a) : Sub a t t' := by
  obtain ⟨hb, hp⟩ := Table.remove_some t t' kp i hr
  refine ⟨hb, TableWF.of_pages t t' hwf hb _ i 0 (by decide) hp, fun kp' a' hh => ?_,
    fun kp' a' hh hne => ?_⟩
  · rcases Table.has_rev_of_pages t t' hb _ i 0 hp kp' a' hh with h1 | ⟨_, h2, _⟩
    · exact h1
    · exact absurd rfl h2
  · refine Table.has_of_pages t t' hb _ i 0 hp kp' a' hh (fun _ => Or.inl ?_)
    intro e
    apply hne
    rw [← e, ← ha]
    rfl

theorem purgeTable_sub (ex : Bool) (kp a : Nat) (t : Table) (hwf : TableWF t) (f p : Nat) :
    Sub a t (purgeTable ex kp a f t p) :=
  purgeTable_ind (fun t' => Sub a t t') ex kp a
    (fun _ i _ h1 hr ha => h1.trans (Sub.remove h1.wf kp i hr ha)) f t p (Sub.refl a t hwf)

theorem purgeTable_bits (ex : Bool) (kp a : Nat) (t : Table) (f p : Nat) :
    (purgeTable ex kp a f t p).bits = t.bits :=
  purgeTable_ind (fun t' => t'.bits = t.bits) ex kp a
    (fun t1 i t2 h1 hr _ => (Table.remove_some t1 t2 kp i hr).1.trans h1) f t p rfl

/-- once no value lives at `a`, a table without some entries of address `a` is the same table up
to dead addresses -/
theorem Sub.tabRel {s : Col} {a : Nat} {t t' : Table} (h : Sub a t t') (hdead : s.tailAt a = none) :
    TabRel s t t' :=
  ⟨h.bits, h.wf, fun _ _ hh hl => h.keep _ _ hh (fun e => hl (e ▸ hdead)),
    fun _ _ hh _ => h.sub _ _ hh⟩

/-! ## `purgeOlder` -/

theorem purgeOlder_off (s : Col) (kp a : Nat) (h : s.cfg.purge = false) : purgeOlder s kp a = s := by
  simp [purgeOlder, h]

theorem purgeOlder_on (s : Col) (kp a : Nat) (h : s.cfg.purge = true) :
    purgeOlder s kp a =
      { s with older := s.older.map (fun t => purgeTable s.cfg.exact kp a SCAN_FUEL t 0) } := by
  simp [purgeOlder, h]

theorem purgeOlder_cases (s : Col) (kp a : Nat) :
    purgeOlder s kp a = s ∨ purgeOlder s kp a =
      { s with older := s.older.map (fun t => purgeTable s.cfg.exact kp a SCAN_FUEL t 0) } := by
  cases h : s.cfg.purge
  · exact Or.inl (purgeOlder_off s kp a h)
  · exact Or.inr (purgeOlder_on s kp a h)

@[simp] theorem purgeOlder_cfg (s : Col) (kp a : Nat) : (purgeOlder s kp a).cfg = s.cfg := by
  rcases purgeOlder_cases s kp a with h | h <;> rw [h]

@[simp] theorem purgeOlder_current (s : Col) (kp a : Nat) : (purgeOlder s kp a).current = s.current := by
  rcases purgeOlder_cases s kp a with h | h <;> rw [h]

@[simp] theorem purgeOlder_progress (s : Col) (kp a : Nat) :
    (purgeOlder s kp a).progress = s.progress := by
  rcases purgeOlder_cases s kp a with h | h <;> rw [h]

@[simp] theorem purgeOlder_values (s : Col) (kp a : Nat) : (purgeOlder s kp a).values = s.values := by
  rcases purgeOlder_cases s kp a with h | h <;> rw [h]

@[simp] theorem purgeOlder_tiers (s : Col) (kp a : Nat) : (purgeOlder s kp a).tiers = s.tiers := by
  rcases purgeOlder_cases s kp a with h | h <;> rw [h]

@[simp] theorem purgeOlder_nLive (s : Col) (kp a : Nat) : (purgeOlder s kp a).nLive = s.nLive := by
  rcases purgeOlder_cases s kp a with h | h <;> rw [h]

theorem purgeOlder_valAt (s : Col) (kp a x : Nat) : (purgeOlder s kp a).valAt x = s.valAt x := by
  simp only [Col.valAt, purgeOlder_values]

theorem purgeOlder_tailAt (s : Col) (kp a x : Nat) : (purgeOlder s kp a).tailAt x = s.tailAt x := by
  simp only [Col.tailAt, purgeOlder_valAt]

theorem purgeOlder_tier (s : Col) (kp a t : Nat) : (purgeOlder s kp a).tier t = s.tier t := by
  simp only [Col.tier, purgeOlder_tiers]

theorem purgeOlder_older_length (s : Col) (kp a : Nat) :
    (purgeOlder s kp a).older.length = s.older.length := by
  rcases purgeOlder_cases s kp a with h | h <;> rw [h]
  simp

theorem purgeOlder_older_bits (s : Col) (kp a : Nat) :
    (purgeOlder s kp a).older.map (·.bits) = s.older.map (·.bits) := by
  rcases purgeOlder_cases s kp a with h | h <;> rw [h]
  simp only [List.map_map]
  apply List.map_congr_left
  intro t _
  exact purgeTable_bits _ _ _ _ _ _

/-- every queued table of the result is a `Sub` of the table at the same place -/
theorem purgeOlder_relL (R : Table → Table → Prop) (s : Col) (kp a : Nat)
    (hrefl : ∀ t ∈ s.older, R t t)
    (hp : ∀ t ∈ s.older, R t (purgeTable s.cfg.exact kp a SCAN_FUEL t 0)) :
    RelL R s.older (purgeOlder s kp a).older := by
  rcases purgeOlder_cases s kp a with h | h <;> rw [h]
  · generalize s.older = l at hrefl
    induction l with
    | nil => exact .nil
    | cons x xs ih =>
      exact .cons (hrefl x (by simp)) (ih (fun t ht => hrefl t (List.mem_cons_of_mem _ ht)))
  · simp only
    generalize s.older = l at hp
    induction l with
    | nil => exact .nil
    | cons x xs ih =>
      exact .cons (hp x (by simp)) (ih (fun t ht => hp t (List.mem_cons_of_mem _ ht)))

/-- members of the purged queue -/
theorem purgeOlder_mem (s : Col) (kp a : Nat) (t' : Table) (h : t' ∈ (purgeOlder s kp a).older) :
    ∃ t ∈ s.older, t' = t ∨ t' = purgeTable s.cfg.exact kp a SCAN_FUEL t 0 := by
  rcases purgeOlder_cases s kp a with e | e <;> rw [e] at h
  · exact ⟨t', h, Or.inl rfl⟩
  · simp only [List.mem_map] at h
    obtain ⟨t, ht, e2⟩ := h
    exact ⟨t, ht, Or.inr e2.symm⟩

theorem IdxInv.purgeOlder {U : Key → Prop} {s : Col} (h : IdxInv U s) (kp a : Nat)
    (hdead : s.tailAt a = none) : IdxInv U (purgeOlder s kp a) := by
  have hwfo : ∀ t ∈ s.older, TableWF t := fun t ht => h.wf t (by simp [Col.tables, ht])
  have hwfc : TableWF s.current := h.wf _ (by simp [Col.tables])
  refine h.pointwise (purgeOlder_progress s kp a) (purgeOlder_tailAt s kp a) ?_ ?_
  · rw [purgeOlder_current]; exact TabRel.refl s _ hwfc
  · exact purgeOlder_relL (TabRel s) s kp a (fun t ht => TabRel.refl s t (hwfo t ht))
      (fun t ht => (purgeTable_sub _ kp a t (hwfo t ht) _ _).tabRel hdead)

/-! ## `writeExisting` and `writeExisting0` -/

theorem writeExisting_of_frees (s : Col) (k : Key) (op : Option (Nat × Nat × Val)) (j i a : Nat)
    (h : frees op a = true) :
    writeExisting s k op j i a = (writeExisting0 s k op j i a).map (fun s' => purgeOlder s' k.pre a) := by
  simp [writeExisting, h]

theorem writeExisting_of_not_frees (s : Col) (k : Key) (op : Option (Nat × Nat × Val)) (j i a : Nat)
    (h : frees op a = false) : writeExisting s k op j i a = writeExisting0 s k op j i a := by
  simp [writeExisting, h]

theorem frees_none (a : Nat) : frees none a = true := rfl

theorem frees_some (tier' ext : Nat) (v : Val) (a : Nat) :
    frees (some (tier', ext, v)) a = true ↔ Address.size_tier a ≠ tier' := by
  simp [frees]

theorem writeExisting_inplace (s : Col) (k : Key) (tier' ext : Nat) (v : Val) (j i a : Nat)
    (h : Address.size_tier a = tier') :
    writeExisting s k (some (tier', ext, v)) j i a = writeExisting0 s k (some (tier', ext, v)) j i a :=
  writeExisting_of_not_frees s k _ j i a (by simp [frees, h])

theorem writeExisting_none (s : Col) (k : Key) (j i a : Nat) :
    writeExisting s k none j i a = (writeExisting0 s k none j i a).map (fun s' => purgeOlder s' k.pre a) :=
  writeExisting_of_frees s k none j i a rfl

theorem writeExisting_move (s : Col) (k : Key) (tier' ext : Nat) (v : Val) (j i a : Nat)
    (h : Address.size_tier a ≠ tier') :
    writeExisting s k (some (tier', ext, v)) j i a =
      (writeExisting0 s k (some (tier', ext, v)) j i a).map (fun s' => purgeOlder s' k.pre a) :=
  writeExisting_of_frees s k _ j i a ((frees_some tier' ext v a).2 h)

/-- the result of the fixed function: the result of the old one, purged if the slot was freed -/
theorem writeExisting_ok {s s' : Col} {k : Key} {op : Option (Nat × Nat × Val)} {j i a : Nat}
    (h : writeExisting s k op j i a = .ok s') :
    ∃ s0, writeExisting0 s k op j i a = .ok s0 ∧
      ((frees op a = true ∧ s' = purgeOlder s0 k.pre a) ∨ (frees op a = false ∧ s' = s0)) := by
  cases hf : frees op a
  · rw [writeExisting_of_not_frees _ _ _ _ _ _ hf] at h
    exact ⟨s', h, Or.inr ⟨rfl, rfl⟩⟩
  · rw [writeExisting_of_frees _ _ _ _ _ _ hf] at h
    cases h0 : writeExisting0 s k op j i a with
    | ok s0 =>
      rw [h0] at h
      simp only [Res.map] at h
      injection h with h
      exact ⟨s0, rfl, Or.inl ⟨rfl, h.symm⟩⟩
    | panic => rw [h0] at h; simp [Res.map] at h
    | diverge => rw [h0] at h; simp [Res.map] at h

theorem writeExisting_panic_iff (s : Col) (k : Key) (op : Option (Nat × Nat × Val)) (j i a : Nat) :
    writeExisting s k op j i a = .panic ↔ writeExisting0 s k op j i a = .panic := by
  cases hf : frees op a
  · rw [writeExisting_of_not_frees _ _ _ _ _ _ hf]
  · rw [writeExisting_of_frees _ _ _ _ _ _ hf]
    cases writeExisting0 s k op j i a <;> simp [Res.map]

theorem writeExisting_diverge_iff (s : Col) (k : Key) (op : Option (Nat × Nat × Val)) (j i a : Nat) :
    writeExisting s k op j i a = .diverge ↔ writeExisting0 s k op j i a = .diverge := by
  cases hf : frees op a
  · rw [writeExisting_of_not_frees _ _ _ _ _ _ hf]
  · rw [writeExisting_of_frees _ _ _ _ _ _ hf]
    cases writeExisting0 s k op j i a <;> simp [Res.map]

/-- `s'` is `s0` up to entries removed from the queued tables -/
structure PurgedOf (s' s0 : Col) : Prop where
  cfg : s'.cfg = s0.cfg
  current : s'.current = s0.current
  progress : s'.progress = s0.progress
  values : s'.values = s0.values
  tiers : s'.tiers = s0.tiers
  nLive : s'.nLive = s0.nLive
  bits : s'.older.map (·.bits) = s0.older.map (·.bits)
  len : s'.older.length = s0.older.length

theorem PurgedOf.refl (s : Col) : PurgedOf s s := ⟨rfl, rfl, rfl, rfl, rfl, rfl, rfl, rfl⟩

theorem PurgedOf.purge (s : Col) (kp a : Nat) : PurgedOf (purgeOlder s kp a) s :=
  ⟨purgeOlder_cfg _ _ _, purgeOlder_current _ _ _, purgeOlder_progress _ _ _, purgeOlder_values _ _ _,
    purgeOlder_tiers _ _ _, purgeOlder_nLive _ _ _, purgeOlder_older_bits _ _ _,
    purgeOlder_older_length _ _ _⟩

theorem PurgedOf.valAt {s' s0 : Col} (h : PurgedOf s' s0) (x : Nat) : s'.valAt x = s0.valAt x := by
  simp only [Col.valAt, h.values]

theorem PurgedOf.tailAt {s' s0 : Col} (h : PurgedOf s' s0) (x : Nat) : s'.tailAt x = s0.tailAt x := by
  simp only [Col.tailAt, h.valAt]

theorem PurgedOf.tier {s' s0 : Col} (h : PurgedOf s' s0) (t : Nat) : s'.tier t = s0.tier t := by
  simp only [Col.tier, h.tiers]

theorem Col.alloc_fst_congr (s s' : Col) (tier : Nat) (h : s'.tier tier = s.tier tier) :
    (s'.alloc tier).1 = (s.alloc tier).1 := by
  unfold Col.alloc
  simp only [h]
  cases (s.tier tier).free <;> rfl

theorem writeExisting_ok2 {s s' : Col} {k : Key} {op : Option (Nat × Nat × Val)} {j i a : Nat}
    (h : writeExisting s k op j i a = .ok s') :
    ∃ s0, writeExisting0 s k op j i a = .ok s0 ∧ PurgedOf s' s0 := by
  obtain ⟨s0, h0, hs⟩ := writeExisting_ok h
  refine ⟨s0, h0, ?_⟩
  rcases hs with ⟨_, e⟩ | ⟨_, e⟩ <;> rw [e]
  · exact PurgedOf.purge _ _ _
  · exact PurgedOf.refl _

/-- conversely: a successful old run gives a successful fixed run -/
theorem writeExisting_of_ok0 {s s0 : Col} {k : Key} {op : Option (Nat × Nat × Val)} {j i a : Nat}
    (h : writeExisting0 s k op j i a = .ok s0) :
    writeExisting s k op j i a = .ok (if frees op a then purgeOlder s0 k.pre a else s0) := by
  cases hf : frees op a
  · rw [writeExisting_of_not_frees _ _ _ _ _ _ hf, h]; simp
  · rw [writeExisting_of_frees _ _ _ _ _ _ hf, h]; simp [Res.map]

end Pdb.Index
