/-
C15 helper lemmas (10): PROGRESS of the running system.  A potential `phi` (remaining work:
queued commits, pending reindex batches, log records / files not yet enacted, dirty logs above
the keep level, the distance of every thread to its next park, and one credit per set
`WaitCondvar` flag) that EVERY step of EVERY thread strictly decreases, in every reachable
state of the fixed configuration, shutdown requested or not.  Client / environment actions
(commit, drop, lock / unlock, injected failures, index growth) are the only steps that can
increase it.
-/
import Pdb.Proofs.C15Acc

namespace Pdb.Conc.Pipe

/-! credits of the five `WaitCondvar` flags (an upper bound of the cascade a wake-up triggers) -/
def CQ : Nat := 4
def CK : Nat := 9
def CC : Nat := 15
def CF : Nat := 4
def CL : Nat := 9
def SUMC : Nat := CQ + CK + CC + CF + CL
/-! weights of the work items -/
def DT : Nat := 7      -- dirty logs above the keep level (one cleanup round)
def WR : Nat := 3      -- a record in a flushed log file
def WFile : Nat := 25  -- a flushed log file
def WA : Nat := 60     -- a record in the appending log file
def WQ : Nat := 100    -- a queued commit
def WB : Nat := 100    -- a pending reindex batch

def credit (c : Cv) (w : Nat) : Nat := if c.flag then w else 0

def posE : ETail → Nat
  | .e1 => SUMC + 3 | .e2 => SUMC + 2 | .e3 => 1

/-- the log worker: program counter, `more_commits`, `more_reindex`, parked? -/
def posLD (pl : LPc) (mc mr wL : Bool) : Nat :=
  match pl with
  | .init => 12
  | .loop => if !mc && !mr then 2 else 9
  | .waitL => if wL then 0 else 1
  | .thr => 8 | .lqAbout => 7 | .lqParked => 6 | .pop => 5
  | .write1 _ => WA + CF + 13
  | .write2 _ => CF + 12
  | .reindex => if mc then 11 else 4
  | .reClear => if mc then 10 else 3
  | .err e => posE e
  | .done => 0
def posL (s : St) : Nat := posLD s.pl s.moreCommits s.moreReindex s.cvL.waiting

def posFD (pf : FPc) (mf wF : Bool) : Nat :=
  match pf with
  | .loop => if mf then 4 else 2
  | .waitF => if wF then 0 else 1
  | .flOne => 3
  | .flSignal => CC + 5
  | .err e => posE e
  | .done => 0
def posF (s : St) : Nat := posFD s.pf s.moreF s.cvF.waiting

/-- `read_next` has a log file to work on -/
def hasFileD (reading : Option (List Nat)) (readQ : List (List Nat)) : Bool := reading.isSome || !readQ.isEmpty
def hasFile (s : St) : Bool := hasFileD s.reading s.readQ

def posCD (pc : CPc) (mC hf wC wQ : Bool) : Nat :=
  match pc with
  | .loop => if mC then (if hf then 1 else CK + 5) + 1 else CK + 4
  | .idle1 => CK + 3
  | .idle2 => 2
  | .waitC => if wC then 0 else 1
  | .enRead => if hf then 1 else CK + 5
  | .enDirty => (if hf then 1 else CK + 5) + 2
  | .waitQ => if wQ then 0 else 1
  | .err e => posE e
  | .done => 0
def posC (s : St) : Nat := posCD s.pc s.moreC (hasFile s) s.cvC.waiting s.cvQ.waiting

def posKD (pk : KPc) (mK wK : Bool) : Nat :=
  match pk with
  | .loop => if mK then CQ + 5 else 2
  | .waitK => if wK then 0 else 1
  | .clClean => CQ + 4
  | .clSignal true => 2 * CQ + 6
  | .clSignal false => CQ + 3
  | .err e => posE e
  | .done => 0
def posK (s : St) : Nat := posKD s.pk s.moreK s.cvK.waiting

def posD : DPc → Nat
  | .idle => 0 | .sd1 => SUMC + CC + CF + 8 | .sd2 => SUMC + CC + CF + 7 | .joinL => CC + CF + 6
  | .joinF => CC + CF + 5 | .joinC => CC + CF + 4 | .joinK => CC + CF + 3 | .kill => CC + CF + 2
  | .unlock => 1 | .stuck => 0 | .done => 0

def posCm : Cm → Nat
  | .idle => 0
  | .about _ => WQ + CL + 3
  | .parked _ _ => WQ + CL + 2

def dTp (cfg : Cfg) (s : St) : Nat := if s.dirty > cfg.keepLogs then DT else 0

/-- remaining work in the data -/
def phiData (cfg : Cfg) (s : St) : Nat :=
  WQ * s.q.length + WB * s.reidx + WA * s.app.length + WR * (lenSum s.readQ + optLen s.reading) +
  WFile * (s.readQ.length + optOne s.reading) + dTp cfg s

def phiFlags (s : St) : Nat :=
  credit s.cvL CL + credit s.cvF CF + credit s.cvC CC + credit s.cvK CK + credit s.cvQ CQ

/-- the potential -/
def phi (cfg : Cfg) (s : St) : Nat :=
  phiData cfg s + phiFlags s + posL s + posF s + posC s + posK s + posD s.pd + sum (s.cms.map posCm)

end Pdb.Conc.Pipe

namespace Pdb.Conc.Pipe

theorem posCm_wake (c : Cm) : posCm c.wake = posCm c := by cases c <;> rfl

theorem sum_posCm_wake (l : List Cm) : sum ((l.map Cm.wake).map posCm) = sum (l.map posCm) := by
  rw [List.map_map]
  congr 1
  apply List.map_congr_left
  intro c _; exact posCm_wake c

theorem sum_map_set (f : Cm → Nat) : ∀ (l : List Cm) (i : Nat) (x c : Cm), l[i]? = some c →
    sum ((l.set i x).map f) + f c = sum (l.map f) + f x
  | [], i, x, c, h => by simp at h
  | a :: l, 0, x, c, h => by
    simp at h; subst h
    simp only [List.set_cons_zero, List.map_cons, sum_cons]; omega
  | a :: l, i + 1, x, c, h => by
    simp at h
    have := sum_map_set f l i x c h
    simp only [List.set_cons_succ, List.map_cons, sum_cons]; omega

theorem hasFile_of_readQ {s : St} (h : s.readQ ≠ []) : hasFile s = true := by
  unfold hasFile hasFileD
  cases hq : s.readQ with
  | nil => exact absurd hq h
  | cons f fs => simp

theorem hasFile_of_reading {s : St} {f : List Nat} (h : s.reading = some f) : hasFile s = true := by
  unfold hasFile; rw [h]; rfl

theorem hasFile_of_curFile {s : St} {f : List Nat} {rq : List (List Nat)} (h : curFile s = (some f, rq)) :
    hasFile s = true := by
  rcases curFile_some h with ⟨h1, _⟩ | ⟨_, h2⟩
  · exact hasFile_of_reading h1
  · exact hasFile_of_readQ (by rw [h2]; simp)

theorem not_hasFile_of_curFile {s : St} {rq : List (List Nat)} (h : curFile s = (none, rq)) :
    hasFile s = false := by
  obtain ⟨h1, h2⟩ := curFile_none h
  unfold hasFile hasFileD; rw [h1, h2]; rfl

/-- unfold the potential; of the four workers' ranks only the one named is unfolded (the others
    stay opaque atoms for `omega`) -/
macro "psimp0" : tactic => `(tactic|
  simp_all [phi, phiData, phiFlags, posL, posF, posC, posK, posD, posE, hasFile, credit, dTp,
    CQ, CK, CC, CF, CL, SUMC, DT, WR, WFile, WA, WQ, WB, lenSum_append, lenSum_cons, Cv.waitStep, Cv.signal,
    Cv.canStep, notifyAllCm, lqNotify, sdNotify, sum_posCm_wake, List.length_append])
macro "psimpL" : tactic => `(tactic|
  simp_all [phi, phiData, phiFlags, posL, posF, posC, posK, posD, posE, hasFile, credit, dTp, posLD,
    CQ, CK, CC, CF, CL, SUMC, DT, WR, WFile, WA, WQ, WB, lenSum_append, lenSum_cons, Cv.waitStep, Cv.signal,
    Cv.canStep, notifyAllCm, lqNotify, sdNotify, sum_posCm_wake, List.length_append])
macro "psimpF" : tactic => `(tactic|
  simp_all [phi, phiData, phiFlags, posL, posF, posC, posK, posD, posE, hasFile, credit, dTp, posFD,
    CQ, CK, CC, CF, CL, SUMC, DT, WR, WFile, WA, WQ, WB, lenSum_append, lenSum_cons, Cv.waitStep, Cv.signal,
    Cv.canStep, notifyAllCm, lqNotify, sdNotify, sum_posCm_wake, List.length_append])
macro "psimpC" : tactic => `(tactic|
  simp_all [phi, phiData, phiFlags, posL, posF, posC, posK, posD, posE, hasFile, credit, dTp, posCD, hasFileD,
    CQ, CK, CC, CF, CL, SUMC, DT, WR, WFile, WA, WQ, WB, lenSum_append, lenSum_cons, Cv.waitStep, Cv.signal,
    Cv.canStep, notifyAllCm, lqNotify, sdNotify, sum_posCm_wake, List.length_append])
macro "psimpK" : tactic => `(tactic|
  simp_all [phi, phiData, phiFlags, posL, posF, posC, posK, posD, posE, hasFile, credit, dTp, posKD,
    CQ, CK, CC, CF, CL, SUMC, DT, WR, WFile, WA, WQ, WB, lenSum_append, lenSum_cons, Cv.waitStep, Cv.signal,
    Cv.canStep, notifyAllCm, lqNotify, sdNotify, sum_posCm_wake, List.length_append])

macro "pfinL" : tactic => `(tactic| (
  first
  | (cases ‹_ = some _›; done)
  | (cases ‹_ = some _›; psimpL; done)
  | (cases ‹_ = some _›; psimpL; omega)
  | (cases ‹_ = some _›; psimpL; grind)
  | (cases ‹_ = some _›; psimpL; split <;> omega)
  | (cases ‹_ = some _›; psimpL; split <;> split <;> omega)))
macro "pfinF" : tactic => `(tactic| (
  first
  | (cases ‹_ = some _›; done)
  | (cases ‹_ = some _›; psimpF; done)
  | (cases ‹_ = some _›; psimpF; omega)
  | (cases ‹_ = some _›; psimpF; grind)
  | (cases ‹_ = some _›; psimpF; split <;> omega)
  | (cases ‹_ = some _›; psimpF; split <;> split <;> omega)))
macro "pfinC" : tactic => `(tactic| (
  first
  | (cases ‹_ = some _›; done)
  | (cases ‹_ = some _›; psimpC; done)
  | (cases ‹_ = some _›; psimpC; omega)
  | (cases ‹_ = some _›; psimpC; grind)
  | (cases ‹_ = some _›; psimpC; split <;> omega)
  | (cases ‹_ = some _›; psimpC; split <;> split <;> omega)))
macro "pfinK" : tactic => `(tactic| (
  first
  | (cases ‹_ = some _›; done)
  | (cases ‹_ = some _›; psimpK; done)
  | (cases ‹_ = some _›; psimpK; omega)
  | (cases ‹_ = some _›; psimpK; grind)
  | (cases ‹_ = some _›; psimpK; split <;> omega)
  | (cases ‹_ = some _›; psimpK; split <;> split <;> omega)))

theorem phi_notifyAllCm (cfg : Cfg) (s : St) : phi cfg (notifyAllCm s) = phi cfg s := by
  have h : sum ((notifyAllCm s).cms.map posCm) = sum (s.cms.map posCm) := sum_posCm_wake s.cms
  unfold phi
  rw [h]
  rfl

theorem phi_lqNotify (cfg : Cfg) (s : St) : phi cfg (lqNotify s) = phi cfg s := by
  unfold lqNotify; split <;> rfl

/-- a waiter that can take a step and finds the flag unset is not parked yet -/
theorem park_fresh {c : Cv} (ok : c.Ok) (hc : c.canStep = true) (hf : c.flag = false) : c.waiting = false := by
  cases hw : c.waiting with
  | false => rfl
  | true =>
    exfalso
    simp [Cv.canStep, hw] at hc
    have := (ok.noted hc).1
    rw [hf] at this; cases this

end Pdb.Conc.Pipe

namespace Pdb.Conc.Pipe

theorem credit_le (c : Cv) (w : Nat) : credit c w ≤ w := by unfold credit; split <;> omega
theorem phiFlags_le (s : St) : phiFlags s ≤ SUMC := by
  unfold phiFlags SUMC
  have := credit_le s.cvL CL; have := credit_le s.cvF CF; have := credit_le s.cvC CC
  have := credit_le s.cvK CK; have := credit_le s.cvQ CQ
  omega

/-- everything `phi` reads except the flags, the program counters and the queue of committers -/
structure SameData (s s1 : St) : Prop where
  q : s1.q = s.q
  reidx : s1.reidx = s.reidx
  app : s1.app = s.app
  readQ : s1.readQ = s.readQ
  reading : s1.reading = s.reading
  dirty : s1.dirty = s.dirty
  mc : s1.moreCommits = s.moreCommits
  mr : s1.moreReindex = s.moreReindex
  mf : s1.moreF = s.moreF
  mC : s1.moreC = s.moreC
  mK : s1.moreK = s.moreK
  wL : s1.cvL.waiting = s.cvL.waiting
  wF : s1.cvF.waiting = s.cvF.waiting
  wC : s1.cvC.waiting = s.cvC.waiting
  wK : s1.cvK.waiting = s.cvK.waiting
  wQ : s1.cvQ.waiting = s.cvQ.waiting

theorem sameData_phiData {cfg : Cfg} {s s1 : St} (h : SameData s s1) : phiData cfg s1 = phiData cfg s := by
  unfold phiData dTp; rw [h.q, h.reidx, h.app, h.readQ, h.reading, h.dirty]

theorem sameData_hasFile {s s1 : St} (h : SameData s s1) : hasFile s1 = hasFile s := by
  unfold hasFile; rw [h.readQ, h.reading]

theorem sdNotify_same (cfg : Cfg) (s : St) : SameData s (sdNotify cfg s) ∧ (sdNotify cfg s).pl = s.pl ∧
    (sdNotify cfg s).pf = s.pf ∧ (sdNotify cfg s).pc = s.pc ∧ (sdNotify cfg s).pk = s.pk ∧
    (sdNotify cfg s).pd = s.pd ∧ (sdNotify cfg s).cms = s.cms := by
  unfold sdNotify lqNotify
  split <;> (refine ⟨?_, rfl, rfl, rfl, rfl, rfl, rfl⟩ <;> constructor <;> (first | rfl | (simp only; split <;> rfl)))

theorem errStep_phi {cfg : Cfg} {s s1 : St} {e : ETail} {n : Option ETail}
    (he : errStep cfg s e = some (s1, n)) :
    SameData s s1 ∧ phiFlags s1 + (match n with | some e' => posE e' | none => 0) < phiFlags s + posE e ∧
    s1.pl = s.pl ∧ s1.pf = s.pf ∧ s1.pc = s.pc ∧ s1.pk = s.pk ∧ s1.pd = s.pd ∧
    sum (s1.cms.map posCm) = sum (s.cms.map posCm) := by
  cases e with
  | e1 =>
    simp only [errStep] at he
    split at he <;> cases he <;>
      exact ⟨by constructor <;> rfl, by simp [posE, phiFlags], rfl, rfl, rfl, rfl, rfl, rfl⟩
  | e2 =>
    simp only [errStep] at he
    split at he
    · cases he
    · cases he
      have h1 := phiFlags_le (sdNotify cfg s)
      obtain ⟨a, b, c, d, e, f, g⟩ := sdNotify_same cfg s
      refine ⟨a, ?_, b, c, d, e, f, by rw [g]⟩
      simp only [posE]; omega
  | e3 =>
    simp only [errStep] at he
    split at he
    · cases he
    · cases he
      exact ⟨by constructor <;> rfl, by simp [posE, phiFlags, notifyAllCm], rfl, rfl, rfl, rfl, rfl,
        by show sum ((s.cms.map Cm.wake).map posCm) = _; exact sum_posCm_wake _⟩


set_option maxHeartbeats 3200000 in
theorem phi_tickL {cfg : Cfg} {s s' : St} (hcv : CvInv s) (h : tickL cfg s = some s') : phi cfg s' < phi cfg s := by
  have okL := hcv.l
  unfold tickL reindexStep reGate at h
  split at h
  · split at h
    · split at h <;> pfinL
    · pfinL
  · split at h
    · split at h <;> pfinL
    · pfinL
  · split at h
    · rename_i hc
      cases hf : s.cvL.flag
      · have hw := park_fresh okL hc hf
        pfinL
      · pfinL
    · pfinL
  · split at h <;> pfinL
  · pfinL
  · split at h <;> pfinL
  · split at h
    · split at h
      · pfinL
      · cases h
        split
        · rw [phi_notifyAllCm]; psimpL; omega
        · psimpL; omega
    · pfinL
  · pfinL
  · pfinL
  · split at h
    · split at h <;> pfinL
    · pfinL
  · pfinL
  · rename_i e hp
    obtain ⟨⟨s1, n⟩, he, hs⟩ := map_some h
    subst hs
    obtain ⟨sd, hfl, e1, e2, e3, e4, e5, e6⟩ := errStep_phi he
    simp only [phi, phiData, phiFlags, dTp, posL, posF, posC, posK, hasFile] at hfl ⊢
    simp only [sd.q, sd.reidx, sd.app, sd.readQ, sd.reading, sd.dirty, e2, e3, e4, e5, e6, hp, sd.mf, sd.mC, sd.mK,
      sd.wF, sd.wC, sd.wK, sd.wQ, sd.mc, sd.mr, sd.wL, posLD]
    cases n <;> simp only at hfl ⊢ <;> omega
  · pfinL
end Pdb.Conc.Pipe

namespace Pdb.Conc.Pipe

theorem posCD_mono (pc : CPc) (mC hf wC wQ : Bool) : posCD pc mC true wC wQ ≤ posCD pc mC hf wC wQ := by
  cases hf
  · cases pc <;> simp [posCD, CK] <;> (try split) <;> omega
  · exact Nat.le_refl _

theorem hasFileD_append (rd : Option (List Nat)) (rq : List (List Nat)) (f : List Nat) :
    hasFileD rd (rq ++ [f]) = true := by simp [hasFileD]

set_option maxHeartbeats 3200000 in
theorem phi_tickF {cfg : Cfg} {s s' : St} (hcv : CvInv s) (h : tickF cfg s = some s') : phi cfg s' < phi cfg s := by
  have okF := hcv.f
  unfold tickF at h
  split at h
  · split at h
    · split at h <;> pfinF
    · pfinF
  · split at h
    · rename_i hc
      cases hf : s.cvF.flag
      · have hw := park_fresh okF hc hf
        pfinF
      · pfinF
    · pfinF
  · split at h
    · rename_i hgt
      have hne : s.app.length ≥ 1 := by
        cases hap : s.app with
        | nil => rw [hap] at hgt; simp at hgt
        | cons r rs => simp
      cases h
      have h1 := hasFileD_append s.reading s.readQ s.app
      have h2 := posCD_mono s.pc s.moreC (hasFileD s.reading s.readQ) s.cvC.waiting s.cvQ.waiting
      psimpF
      omega
    · pfinF
  · pfinF
  · rename_i e hp
    obtain ⟨⟨s1, n⟩, he, hs⟩ := map_some h
    subst hs
    obtain ⟨sd, hfl, e1, e2, e3, e4, e5, e6⟩ := errStep_phi he
    simp only [phi, phiData, phiFlags, dTp, posL, posF, posC, posK, hasFile] at hfl ⊢
    simp only [sd.q, sd.reidx, sd.app, sd.readQ, sd.reading, sd.dirty, e1, e3, e4, e5, e6, hp, sd.mf, sd.mC, sd.mK,
      sd.wF, sd.wC, sd.wK, sd.wQ, sd.mc, sd.mr, sd.wL, posFD]
    cases n <;> simp only at hfl ⊢ <;> omega
  · pfinF

set_option maxHeartbeats 3200000 in
theorem phi_tickK {cfg : Cfg} {s s' : St} (hcv : CvInv s) (h : tickK cfg s = some s') : phi cfg s' < phi cfg s := by
  have okK := hcv.k
  unfold tickK at h
  split at h
  · split at h
    · split at h <;> pfinK
    · pfinK
  · split at h
    · rename_i hc
      cases hf : s.cvK.flag
      · have hw := park_fresh okK hc hf
        pfinK
      · pfinK
    · pfinK
  · split at h
    · cases h
      cases hk : decide (cfg.keepLogs > 0) <;> (psimpK; omega)
    · pfinK
  · rename_i r _
    cases r <;> pfinK
  · rename_i e hp
    obtain ⟨⟨s1, n⟩, he, hs⟩ := map_some h
    subst hs
    obtain ⟨sd, hfl, e1, e2, e3, e4, e5, e6⟩ := errStep_phi he
    simp only [phi, phiData, phiFlags, dTp, posL, posF, posC, posK, hasFile] at hfl ⊢
    simp only [sd.q, sd.reidx, sd.app, sd.readQ, sd.reading, sd.dirty, e1, e2, e3, e5, e6, hp, sd.mf, sd.mC, sd.mK,
      sd.wF, sd.wC, sd.wK, sd.wQ, sd.mc, sd.mr, sd.wL, posKD]
    cases n <;> simp only at hfl ⊢ <;> omega
  · pfinK
end Pdb.Conc.Pipe

namespace Pdb.Conc.Pipe

set_option maxHeartbeats 3200000 in
theorem phi_tickC {cfg : Cfg} {s s' : St} (hcv : CvInv s) (h7 : RA7 s.pc s.reading) (h : tickC cfg s = some s') :
    phi cfg s' < phi cfg s := by
  have okC := hcv.c
  have okQ := hcv.q
  unfold tickC at h
  split at h
  · split at h
    · split at h <;> pfinC
    · pfinC
  · pfinC
  · split at h
    · pfinC
    · rename_i hpc hne
      have hf := hasFile_of_readQ (s := s) (by simpa using hne)
      pfinC
  · split at h
    · rename_i hc
      cases hf : s.cvC.flag
      · have hw := park_fresh okC hc hf
        pfinC
      · pfinC
    · pfinC
  · split at h
    · rename_i rq hcf
      have hf := not_hasFile_of_curFile hcf
      have hc := curFile_none hcf
      pfinC
    · rename_i rq' hcf
      have hf := hasFile_of_curFile hcf
      have hc := curFile_counts hcf
      cases h
      psimpC
      split <;> split <;> omega
    · rename_i r rs rq' hcf
      have hf := hasFile_of_curFile hcf
      have hc := curFile_counts hcf
      split at h
      · cases h
        split
        · rw [phi_lqNotify]; psimpC; omega
        · psimpC; omega
      · pfinC
  · split at h <;> pfinC
  · rename_i hpc
    have hrd := h7 (Or.inr hpc)
    split at h
    · rename_i hc
      cases hf : s.cvQ.flag
      · have hw := park_fresh okQ hc hf
        pfinC
      · cases h
        cases hr : s.reading with
        | none => exact absurd hr hrd
        | some f => psimpC; omega
    · pfinC
  · rename_i e hp
    obtain ⟨⟨s1, n⟩, he, hs⟩ := map_some h
    subst hs
    obtain ⟨sd, hfl, e1, e2, e3, e4, e5, e6⟩ := errStep_phi he
    simp only [phi, phiData, phiFlags, dTp, posL, posF, posC, posK, hasFile] at hfl ⊢
    simp only [sd.q, sd.reidx, sd.app, sd.readQ, sd.reading, sd.dirty, e1, e2, e4, e5, e6, hp, sd.mf, sd.mC, sd.mK,
      sd.wF, sd.wC, sd.wK, sd.wQ, sd.mc, sd.mr, sd.wL, posCD]
    cases n <;> simp only at hfl ⊢ <;> omega
  · pfinC
end Pdb.Conc.Pipe

namespace Pdb.Conc.Pipe

/-- the part of the potential the sequential pieces (`kill_logs`) can change, without the two
    flags they may set (`commit_worker_wait` by `flush_logs`, `flush_worker_wait` by
    `process_commits`) -/
def phiK (cfg : Cfg) (s : St) : Nat :=
  phiData cfg s + credit s.cvL CL + credit s.cvK CK + credit s.cvQ CQ

theorem phiK_seqEnactOnce {cfg : Cfg} {s s1 : St} {b : Bool} (h : seqEnactOnce cfg s = some (s1, b)) :
    phiK cfg s1 ≤ phiK cfg s := by
  unfold seqEnactOnce at h
  split at h
  · cases h; exact Nat.le_refl _
  · rename_i rq' hcf
    have hc := curFile_counts hcf
    cases h
    simp only [phiK, phiData, dTp, optLen_none, optOne_none, List.length_nil, WQ, WB, WA, WR, WFile, DT] at hc ⊢
    split <;> split <;> omega
  · rename_i r rs rq' hcf
    have hc := curFile_counts hcf
    simp only at h
    split at h
    · cases h
    · cases h
      simp only [phiK, phiData, dTp, optLen_some, optOne_some, List.length_cons, WQ, WB, WA, WR, WFile, DT] at hc ⊢
      omega

theorem phiK_seqEnactLoop {cfg : Cfg} : ∀ (n : Nat) {s s' : St}, seqEnactLoop cfg n s = some s' →
    phiK cfg s' ≤ phiK cfg s
  | 0, s, s', h => by simp [seqEnactLoop] at h; subst h; exact Nat.le_refl _
  | n + 1, s, s', h => by
    simp only [seqEnactLoop] at h
    split at h
    · cases h
    · rename_i s1 he; exact Nat.le_trans (phiK_seqEnactLoop n h) (phiK_seqEnactOnce he)
    · rename_i s1 he; cases h; exact phiK_seqEnactOnce he

theorem phiK_seqFlush0 (cfg : Cfg) (s : St) : phiK cfg (seqFlush0 s) ≤ phiK cfg s := by
  unfold seqFlush0
  split
  · rename_i hgt
    have hne : s.app.length ≥ 1 := by
      cases hap : s.app with
      | nil => rw [hap] at hgt; simp at hgt
      | cons r rs => simp
    simp only [phiK, phiData, dTp, lenSum_append, List.length_append, List.length_nil, List.length_cons,
      WQ, WB, WA, WR, WFile, DT]
    omega
  · exact Nat.le_refl _

theorem phiK_seqProcessOnce (cfg : Cfg) (s : St) : phiK cfg (seqProcessOnce s).1 ≤ phiK cfg s := by
  unfold seqProcessOnce
  split
  · exact Nat.le_refl _
  · rename_i b q' hq
    simp only [phiK, phiData, dTp, hq, List.length_append, List.length_cons, List.length_nil, WQ, WB, WA, WR, WFile, DT]
    omega

theorem phiK_seqProcessLoop (cfg : Cfg) : ∀ (n : Nat) (s : St), phiK cfg (seqProcessLoop n s) ≤ phiK cfg s
  | 0, s => by simp only [seqProcessLoop]; exact Nat.le_refl _
  | n + 1, s => by
    simp only [seqProcessLoop]
    split
    · exact Nat.le_trans (phiK_seqProcessLoop cfg n _) (phiK_seqProcessOnce cfg s)
    · exact Nat.le_refl _

theorem phiK_killLogsSeq {cfg : Cfg} {s s' : St} (h : killLogsSeq cfg s = some s') : phiK cfg s' ≤ phiK cfg s := by
  unfold killLogsSeq at h
  split at h
  · cases h
    simp only [phiK, phiData, dTp, WQ, WB, WA, WR, WFile, DT]
    split <;> omega
  · obtain ⟨s1, h1, h⟩ := bind_some h
    split at h
    · cases h
    obtain ⟨s4, h4, h⟩ := bind_some h
    obtain ⟨s6, h6, h⟩ := bind_some h
    cases h
    have a1 := phiK_seqEnactLoop _ h1
    have a2 := phiK_seqFlush0 cfg s1
    have a3 := phiK_seqProcessLoop cfg (fuel s1) (seqFlush0 s1)
    have a4 := phiK_seqEnactLoop _ h4
    have a5 := phiK_seqFlush0 cfg s4
    have a6 := phiK_seqEnactLoop _ h6
    have a7 : phiK cfg { s6 with dirty := 0, killLost := optLen s6.reading } ≤ phiK cfg s6 := by
      simp only [phiK, phiData, dTp, WQ, WB, WA, WR, WFile, DT]
      split <;> omega
    omega

set_option maxHeartbeats 3200000 in
theorem phi_tickD {cfg : Cfg} {s s' : St} (hG : G1 s) (h : tickD cfg s = some s') : phi cfg s' < phi cfg s := by
  unfold tickD at h
  split at h
  · cases h
  · rename_i hp
    cases h; simp [phi, phiData, phiFlags, posL, posF, posC, posK, hasFile, dTp, posD, hp]
  · split at h
    · cases h
    · rename_i hp _
      cases h
      have h1 := phiFlags_le (sdNotify cfg s)
      obtain ⟨sd, b, c, d, e, f, g⟩ := sdNotify_same cfg s
      simp only [phi, phiData, phiFlags, dTp, posL, posF, posC, posK, hasFile] at h1 ⊢
      simp only [sd.q, sd.reidx, sd.app, sd.readQ, sd.reading, sd.dirty, b, c, d, e, g, hp, posD, sd.mc, sd.mr, sd.mf,
        sd.mC, sd.mK, sd.wL, sd.wF, sd.wC, sd.wK, sd.wQ]
      simp only [SUMC, CQ, CK, CC, CF, CL] at h1 ⊢
      omega
  · rename_i hp
    split at h
    · cases h; simp [phi, phiData, phiFlags, posL, posF, posC, posK, hasFile, dTp, posD, hp]
    · cases h
  · rename_i hp
    split at h
    · cases h; simp [phi, phiData, phiFlags, posL, posF, posC, posK, hasFile, dTp, posD, hp]
    · cases h
  · rename_i hp
    split at h
    · cases h; simp [phi, phiData, phiFlags, posL, posF, posC, posK, hasFile, dTp, posD, hp]
    · cases h
  · rename_i hp
    split at h
    · cases h; simp [phi, phiData, phiFlags, posL, posF, posC, posK, hasFile, dTp, posD, hp]
    · cases h
  · rename_i hp
    obtain ⟨s1, he, hs⟩ := map_some h
    subst hs
    have e := ctlEq_killLogsSeq he
    have hj : 4 ≤ s.pd.joined := by rw [hp]; decide
    have hl := hG.a9.1 (by omega)
    have hf := hG.a9.2.1 (by omega)
    have hc := hG.a9.2.2.1 (by omega)
    have hk := hG.a9.2.2.2 hj
    have hK := phiK_killLogsSeq he
    have c1 := credit_le s1.cvF CF
    have c2 := credit_le s1.cvC CC
    simp only [phi, phiK, phiData, phiFlags, dTp, posL, posF, posC, posK, hasFile] at hK ⊢
    simp only [posD, hp, e.pl, e.pf, e.pc, e.pk, hl, hf, hc, hk, e.cms, posLD, posFD, posCD, posKD]
    simp only [CC, CF] at c1 c2 ⊢
    omega
  · rename_i hp
    cases h; simp [phi, phiData, phiFlags, posL, posF, posC, posK, hasFile, dTp, posD, hp]
  · cases h
  · cases h

theorem phi_commitFinish (cfg : Cfg) (s : St) (i b : Nat) (n : Bool) (hc : s.cms[i]? = some (.parked b n)) :
    phi cfg (commitFinish s i b) < phi cfg s := by
  have hs := sum_map_set posCm s.cms i .idle (.parked b n) hc
  unfold commitFinish setCm
  split
  · simp only [phi, phiData, phiFlags, posL, posF, posC, posK, hasFile, dTp]
    simp only [posCm, WQ, CL] at hs ⊢
    omega
  · simp only [phi, phiData, phiFlags, posL, posF, posC, posK, hasFile, dTp, Cv.signal, credit, List.length_append,
      List.length_cons, List.length_nil, if_true]
    simp only [posCm, WQ, CL, WB, WA, WR, WFile] at hs ⊢
    split <;> omega

theorem phi_tickCm {cfg : Cfg} {s s' : St} {i : Nat} (h : tickCm s i = some s') : phi cfg s' < phi cfg s := by
  unfold tickCm at h
  split at h
  · rename_i b hc
    cases h
    have hs := sum_map_set posCm s.cms i (.parked b false) (.about b) hc
    unfold setCm
    simp only [phi, phiData, phiFlags, posL, posF, posC, posK, hasFile, dTp]
    simp only [posCm] at hs ⊢
    omega
  · rename_i b hc
    split at h
    · cases h; exact phi_commitFinish cfg s i b true hc
    · cases h
  · cases h

end Pdb.Conc.Pipe

namespace Pdb.Conc.Pipe

/-- a step of one of the threads (worker, owner, committer inside a commit call), as opposed to
    an action of the client / environment -/
def Act.isThread : Act → Bool
  | .tick _ => true
  | .cmTick _ => true
  | _ => false

theorem isThread_not_panic {a : Act} (h : a.isThread = true) : a.isPanic = false := by
  cases a <;> simp_all [Act.isThread, Act.isPanic]

/-- every step of every thread strictly decreases the potential (any configuration with workers) -/
theorem phi_thread_step {cfg : Cfg} (hw : cfg.workers = true) {n r : Nat} {s s' : St} {a : Act}
    (h : Reachable cfg n r s) (ha : a.isThread = true) (hs : step cfg s a = some s') : phi cfg s' < phi cfg s := by
  have hcv := cvInv_reachable h
  obtain ⟨hG, hA⟩ := ga_reachable hw h
  cases a with
  | tick t =>
    cases t
    · exact phi_tickL hcv hs
    · exact phi_tickF hcv hs
    · exact phi_tickC hcv hA.r7 (tickCg_some hs)
    · exact phi_tickK hcv hs
    · exact phi_tickD hG hs
  | cmTick i => exact phi_tickCm hs
  | _ => cases ha

theorem reachable_step {cfg : Cfg} {n r : Nat} {s s' : St} {a : Act} (h : Reachable cfg n r s)
    (hnp : a.isPanic = false) (hs : step cfg s a = some s') : Reachable cfg n r s' := by
  obtain ⟨as, hall, hr⟩ := h
  refine ⟨as ++ [a], ?_, ?_⟩
  · intro b hb
    rcases List.mem_append.1 hb with hb | hb
    · exact hall b hb
    · simp at hb; subst hb; exact hnp
  · have : ∀ (l : List Act) (x y : St), run cfg x l = some y → run cfg x (l ++ [a]) = step cfg y a := by
      intro l
      induction l with
      | nil => intro x y hx; simp [run] at hx; subst hx; simp [run]; cases step cfg x a <;> rfl
      | cons b l ih =>
        intro x y hx
        simp only [run, List.cons_append] at hx ⊢
        cases hb : step cfg x b with
        | none => rw [hb] at hx; cases hx
        | some z => rw [hb] at hx; simp only; exact ih z y hx
    rw [this as _ _ hr]; exact hs

/-- a run made of thread steps only is at most as long as the potential it starts with -/
theorem phi_bounds_run {cfg : Cfg} (hw : cfg.workers = true) {n r : Nat} :
    ∀ (as : List Act) (s s' : St), Reachable cfg n r s → (∀ a ∈ as, a.isThread = true) →
      run cfg s as = some s' → as.length + phi cfg s' ≤ phi cfg s ∧ Reachable cfg n r s'
  | [], s, s', h, _, hr => by simp [run] at hr; subst hr; exact ⟨by simp, h⟩
  | a :: as, s, s', h, hall, hr => by
    simp only [run] at hr
    cases hs : step cfg s a with
    | none => rw [hs] at hr; cases hr
    | some y =>
      rw [hs] at hr
      have ha := hall a List.mem_cons_self
      have h1 := phi_thread_step hw h ha hs
      have hy := reachable_step h (isThread_not_panic ha) hs
      obtain ⟨h2, h3⟩ := phi_bounds_run hw as y s' hy (fun b hb => hall b (List.mem_cons_of_mem _ hb)) hr
      exact ⟨by simp only [List.length_cons]; omega, h3⟩

/-- when not every thread is blocked, some thread can take a step -/
theorem exists_thread_step {cfg : Cfg} {s : St} (h : allBlocked cfg s = false) :
    ∃ a s', a.isThread = true ∧ step cfg s a = some s' := by
  unfold allBlocked at h
  simp only [Bool.and_eq_false_iff] at h
  rcases h with ((((h | h) | h) | h) | h) | h
  · cases ht : tickL cfg s with
    | none => rw [ht] at h; cases h
    | some s' => exact ⟨.tick .L, s', rfl, ht⟩
  · cases ht : tickF cfg s with
    | none => rw [ht] at h; cases h
    | some s' => exact ⟨.tick .F, s', rfl, ht⟩
  · cases ht : tickCg cfg s with
    | none => rw [ht] at h; cases h
    | some s' => exact ⟨.tick .C, s', rfl, ht⟩
  · cases ht : tickK cfg s with
    | none => rw [ht] at h; cases h
    | some s' => exact ⟨.tick .K, s', rfl, ht⟩
  · cases ht : tickD cfg s with
    | none => rw [ht] at h; cases h
    | some s' => exact ⟨.tick .D, s', rfl, ht⟩
  · have : ∃ i, (tickCm s i).isNone = false := by
      by_cases hx : ∃ i, (tickCm s i).isNone = false
      · exact hx
      · exfalso
        have hall : (List.range s.cms.length).all (fun i => (tickCm s i).isNone) = true := by
          apply List.all_eq_true.2
          intro i _
          cases hi : (tickCm s i).isNone with
          | true => rfl
          | false => exact absurd ⟨i, hi⟩ hx
        rw [hall] at h; cases h
    obtain ⟨i, hi⟩ := this
    cases ht : tickCm s i with
    | none => rw [ht] at hi; cases hi
    | some s' => exact ⟨.cmTick i, s', rfl, ht⟩

/-- from every reachable state the threads alone reach a state in which all of them are
    blocked, in at most `phi` steps -/
theorem reaches_quiescence {cfg : Cfg} (hw : cfg.workers = true) {n r : Nat} :
    ∀ (k : Nat) (s : St), Reachable cfg n r s → phi cfg s ≤ k →
      ∃ as s', (∀ a ∈ as, a.isThread = true) ∧ run cfg s as = some s' ∧ allBlocked cfg s' = true ∧
        as.length ≤ phi cfg s
  | 0, s, h, hk => by
    cases hb : allBlocked cfg s with
    | true => exact ⟨[], s, by simp, rfl, hb, by simp⟩
    | false =>
      obtain ⟨a, s', ha, hs⟩ := exists_thread_step hb
      have := phi_thread_step hw h ha hs
      omega
  | k + 1, s, h, hk => by
    cases hb : allBlocked cfg s with
    | true => exact ⟨[], s, by simp, rfl, hb, by simp⟩
    | false =>
      obtain ⟨a, s1, ha, hs⟩ := exists_thread_step hb
      have h1 := phi_thread_step hw h ha hs
      obtain ⟨as, s', hall, hr, hbl, hlen⟩ :=
        reaches_quiescence hw k s1 (reachable_step h (isThread_not_panic ha) hs) (by omega)
      refine ⟨a :: as, s', ?_, ?_, hbl, ?_⟩
      · intro b hb'
        rcases List.mem_cons.1 hb' with rfl | hb'
        · exact ha
        · exact hall b hb'
      · simp only [run, hs]; exact hr
      · simp only [List.length_cons]; omega

end Pdb.Conc.Pipe
