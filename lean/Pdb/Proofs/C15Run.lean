/-
C15 helper lemmas (4): hand-over invariants of the running system (shutdown flag not set):
whoever has pending work either finds the flag of its WaitCondvar set or is on its way to
look at the work again.
-/
import Pdb.Proofs.C15Inv2

namespace Pdb.Conc.Pipe

def lHead : LPc → Bool → Bool
  | .thr, _ | .lqAbout, _ | .lqParked, _ | .pop, _ | .write1 _, _ | .write2 _, _ | .err _, _ => true
  | .reindex, mc | .loop, mc | .reClear, mc => mc
  | _, _ => false
def fHead : FPc → Bool → Bool
  | .flOne, _ | .flSignal, _ | .err _, _ => true
  | .loop, m => m
  | _, _ => false
def isWrite2 : LPc → Bool
  | .write2 _ => true
  | _ => false
def cHead : CPc → Bool → Bool
  | .enRead, _ | .enDirty, _ | .waitQ, _ | .err _, _ => true
  | .loop, m => m
  | _, _ => false
def kHead : KPc → Bool → Bool
  | .clClean, _ | .err _, _ => true
  | .loop, m => m
  | _, _ => false
def cSig : CPc → Bool → Bool
  | .loop, m => !m
  | .idle1, _ | .err _, _ => true
  | _, _ => false
def isClSignal : KPc → Bool
  | .clSignal _ => true
  | _ => false

/-- queued commits: the log worker's flag is set or it is on its way to the queue -/
def RL (sh : Bool) (q : List Nat) (cvL : Cv) (pl : LPc) (mc : Bool) : Prop :=
  sh = false → q ≠ [] → cvL.flag = true ∨ lHead pl mc = true
/-- a log file above the flush threshold: the flush worker's flag is set, or it is on its way,
    or the log worker is about to signal it -/
def RF (sh : Bool) (minLog : Nat) (app : List Nat) (cvF : Cv) (pf : FPc) (mf : Bool) (pl : LPc) : Prop :=
  sh = false → sum app > minLog → cvF.flag = true ∨ fHead pf mf = true ∨ isWrite2 pl = true
/-- flushed files while the commit worker is in its idle wait: flag set or signal pending -/
def RC1 (sh : Bool) (readQ : List (List Nat)) (pc : CPc) (cvC : Cv) (pf : FPc) : Prop :=
  sh = false → readQ ≠ [] → pc = .waitC → cvC.flag = true ∨ pf = .flSignal
/-- a partially read file: the commit worker is reading or will continue without waiting -/
def RC2 (sh : Bool) (reading : Option (List Nat)) (pc : CPc) (mC : Bool) : Prop :=
  sh = false → reading ≠ none → cHead pc mC = true
/-- too many dirty logs: the cleanup worker's flag is set, or it is on its way, or the commit
    worker is about to signal it -/
def RK (sh : Bool) (maxLogs dirty : Nat) (cvK : Cv) (pk : KPc) (mk : Bool) (pc : CPc) (mC : Bool) : Prop :=
  sh = false → dirty > maxLogs → cvK.flag = true ∨ kHead pk mk = true ∨ cSig pc mC = true
/-- the commit worker waits for a cleanup: there still are too many dirty logs or the cleanup
    worker is about to signal -/
def RCQ (sh : Bool) (pc : CPc) (cvQ : Cv) (dirty maxLogs : Nat) (pk : KPc) : Prop :=
  sh = false → pc = .waitQ → cvQ.flag = false → dirty > maxLogs ∨ isClSignal pk = true

structure GP (cfg : Cfg) (s : St) : Prop where
  rl : RL s.shutdown s.q s.cvL s.pl s.moreCommits
  rf : RF s.shutdown cfg.minLog s.app s.cvF s.pf s.moreF s.pl
  rc1 : RC1 s.shutdown s.readQ s.pc s.cvC s.pf
  rc2 : RC2 s.shutdown s.reading s.pc s.moreC
  rk : RK s.shutdown cfg.maxLogs s.dirty s.cvK s.pk s.moreK s.pc s.moreC
  rcq : RCQ s.shutdown s.pc s.cvQ s.dirty cfg.maxLogs s.pk

@[simp] theorem sum_nil : sum [] = 0 := rfl

theorem keep_le_max (cfg : Cfg) : cfg.keepLogs ≤ cfg.maxLogs := by
  unfold Cfg.keepLogs Cfg.maxLogs
  split <;> simp

/-- all six predicates are vacuous once the shutdown flag is set -/
theorem gp_of_shutdown {cfg : Cfg} {s : St} (h : s.shutdown = true) : GP cfg s := by
  constructor <;> (intro h0; rw [h] at h0; cases h0)

macro "gpsimp" : tactic => `(tactic|
  simp_all [RL, RF, RC1, RC2, RK, RCQ, lHead, fHead, isWrite2, cHead, kHead, cSig, isClSignal, Cv.signal,
    Cv.waitStep, Cv.canStep])

macro "gpfin" : tactic => `(tactic| (
  first
  | (cases ‹_ = some _›; done)
  | (cases ‹_ = some _›
     constructor <;> dsimp only <;>
       (first | assumption
              | (gpsimp; first | done | assumption | omega | grind)
              | (split <;> gpsimp; done)))))

theorem gp_reindexStep {cfg : Cfg} {s : St} (hI : GP cfg s) (hp : s.pl = .loop) : GP cfg (reindexStep s) := by
  obtain ⟨rl, rf, rc1, rc2, rk, rcq⟩ := hI
  unfold reindexStep
  split
  · split <;> (constructor <;> dsimp only <;> (first | assumption | (gpsimp; done)))
  · constructor <;> dsimp only <;> (first | assumption | (gpsimp; done))

theorem gp_notifyAllCm {cfg : Cfg} {s : St} (hI : GP cfg s) : GP cfg (notifyAllCm s) :=
  ⟨hI.rl, hI.rf, hI.rc1, hI.rc2, hI.rk, hI.rcq⟩

theorem gp_lqNotify {cfg : Cfg} {s : St} (hI : GP cfg s) : GP cfg (lqNotify s) := by
  unfold lqNotify; split
  · exact ⟨hI.rl, hI.rf, hI.rc1, hI.rc2, hI.rk, hI.rcq⟩
  · exact hI

theorem curFile_none {s : St} {rq : List (List Nat)} (h : curFile s = (none, rq)) :
    s.reading = none ∧ s.readQ = [] := by
  unfold curFile at h
  split at h
  · cases h
  · rename_i hr
    split at h
    · rename_i hq; exact ⟨hr, hq⟩
    · cases h

theorem curFile_some {s : St} {f : List Nat} {rq : List (List Nat)} (h : curFile s = (some f, rq)) :
    (s.reading = some f ∧ rq = s.readQ) ∨ (s.reading = none ∧ s.readQ = f :: rq) := by
  unfold curFile at h
  split at h
  · rename_i g hr; cases h; left; exact ⟨hr, rfl⟩
  · rename_i hr
    split at h
    · cases h
    · rename_i g fs hq; cases h; right; exact ⟨hr, hq⟩

/-- error tails: e1 sets the shutdown flag (everything vacuous), e2 / e3 run with it set -/
theorem gp_err {cfg : Cfg} {s s1 : St} {e : ETail} {n : Option ETail} (_hI : GP cfg s)
    (hs : e ≠ .e1 → s.shutdown = true) (he : errStep cfg s e = some (s1, n)) :
    (s1.shutdown = true) ∨ (s1 = s ∧ n = some .e3 ∧ e = .e1) := by
  cases e with
  | e1 =>
    simp only [errStep] at he
    split at he
    · cases he; right; exact ⟨rfl, rfl, rfl⟩
    · cases he; left; rfl
  | e2 =>
    simp only [errStep] at he
    split at he
    · cases he
    · cases he; left
      have := hs (by simp)
      unfold sdNotify lqNotify; split <;> exact this
  | e3 =>
    simp only [errStep] at he
    split at he
    · cases he
    · cases he; left; exact hs (by simp)

set_option maxHeartbeats 1600000 in
theorem gp_tickL {cfg : Cfg} {s s' : St} (hG : G1 s) (hI : GP cfg s) (h : tickL cfg s = some s') : GP cfg s' := by
  have hI0 := hI
  obtain ⟨rl, rf, rc1, rc2, rk, rcq⟩ := hI
  unfold tickL at h
  split at h
  · cases h
    apply gp_reindexStep _ rfl
    constructor <;> dsimp only <;> (first | assumption | (gpsimp; done))
  · split at h
    · split at h <;> gpfin
    · gpfin
  · split at h <;> gpfin
  · split at h <;> gpfin
  · gpfin
  · split at h <;> gpfin
  · split at h
    · split at h
      · gpfin
      · cases h
        split
        · apply gp_notifyAllCm
          constructor <;> dsimp only <;> (first | assumption | (gpsimp; done))
        · constructor <;> dsimp only <;> (first | assumption | (gpsimp; done))
    · gpfin
  · gpfin
  · gpfin
  · cases h
    apply gp_reindexStep _ rfl
    constructor <;> dsimp only <;> (first | assumption | (gpsimp; done))
  · gpfin
  · rename_i e hp
    obtain ⟨⟨s1, n⟩, he, hs⟩ := map_some h
    subst hs
    have hsh : e ≠ .e1 → s.shutdown = true := by
      intro hne
      apply hG.a6l
      rw [hp]; cases e <;> simp_all [LPc.exited]
    rcases gp_err hI0 hsh he with h1 | ⟨h1, _, _⟩
    · exact gp_of_shutdown h1
    · subst h1
      constructor <;> dsimp only <;> (first | assumption | (gpsimp; done))
  · gpfin

set_option maxHeartbeats 1600000 in
theorem gp_tickF {cfg : Cfg} {s s' : St} (hG : G1 s) (hI : GP cfg s) (h : tickF cfg s = some s') : GP cfg s' := by
  have hI0 := hI
  obtain ⟨rl, rf, rc1, rc2, rk, rcq⟩ := hI
  unfold tickF at h
  split at h
  · split at h
    · split at h <;> gpfin
    · gpfin
  · split at h
    · cases h
      cases hf : s.cvF.flag <;> (constructor <;> dsimp only <;> (first | assumption | (gpsimp; done)))
    · gpfin
  · split at h <;> gpfin
  · gpfin
  · rename_i e hp
    obtain ⟨⟨s1, n⟩, he, hs⟩ := map_some h
    subst hs
    have hsh : e ≠ .e1 → s.shutdown = true := by
      intro hne
      apply hG.a6f
      rw [hp]; cases e <;> simp_all [FPc.exited]
    rcases gp_err hI0 hsh he with h1 | ⟨h1, _, _⟩
    · exact gp_of_shutdown h1
    · subst h1
      constructor <;> dsimp only <;> (first | assumption | (gpsimp; done))
  · gpfin

set_option maxHeartbeats 1600000 in
theorem gp_tickC {cfg : Cfg} {s s' : St} (hG : G1 s) (hI : GP cfg s) (h : tickC cfg s = some s') : GP cfg s' := by
  have hI0 := hI
  obtain ⟨rl, rf, rc1, rc2, rk, rcq⟩ := hI
  unfold tickC at h
  split at h
  · split at h
    · split at h <;> gpfin
    · gpfin
  · gpfin
  · split at h <;> gpfin
  · split at h
    · cases h
      cases hf : s.cvC.flag <;> (constructor <;> dsimp only <;> (first | assumption | (gpsimp; done)))
    · gpfin
  · split at h
    · rename_i hcf
      have hc := curFile_none hcf
      gpfin
    · rename_i hcf
      have hc := curFile_some hcf
      gpfin
    · rename_i hcf
      have hc := curFile_some hcf
      split at h
      · cases h
        split
        · apply gp_lqNotify
          constructor <;> dsimp only <;> (first | assumption | (gpsimp; done))
        · constructor <;> dsimp only <;> (first | assumption | (gpsimp; done))
      · gpfin
  · unfold waitCond at h
    split at h <;> gpfin
  · split at h
    · cases h
      cases hf : s.cvQ.flag <;> (constructor <;> dsimp only <;> (first | assumption | (gpsimp; done)))
    · gpfin
  · rename_i e hp
    obtain ⟨⟨s1, n⟩, he, hs⟩ := map_some h
    subst hs
    have hsh : e ≠ .e1 → s.shutdown = true := by
      intro hne
      apply hG.a6c
      rw [hp]; cases e <;> simp_all [CPc.exited]
    rcases gp_err hI0 hsh he with h1 | ⟨h1, _, _⟩
    · exact gp_of_shutdown h1
    · subst h1
      constructor <;> dsimp only <;> (first | assumption | (gpsimp; done))
  · gpfin

set_option maxHeartbeats 1600000 in
theorem gp_tickK {cfg : Cfg} {s s' : St} (hG : G1 s) (hI : GP cfg s) (h : tickK cfg s = some s') : GP cfg s' := by
  have hI0 := hI
  have hkm := keep_le_max cfg
  obtain ⟨rl, rf, rc1, rc2, rk, rcq⟩ := hI
  unfold tickK at h
  split at h
  · split at h
    · split at h <;> gpfin
    · gpfin
  · split at h
    · cases h
      cases hf : s.cvK.flag <;> (constructor <;> dsimp only <;> (first | assumption | (gpsimp; done)))
    · gpfin
  · split at h
    · cases h
      constructor <;> dsimp only <;> (first | assumption | (gpsimp; first | done | omega))
    · gpfin
  · gpfin
  · rename_i e hp
    obtain ⟨⟨s1, n⟩, he, hs⟩ := map_some h
    subst hs
    have hsh : e ≠ .e1 → s.shutdown = true := by
      intro hne
      apply hG.a6k
      rw [hp]; cases e <;> simp_all [KPc.exited]
    rcases gp_err hI0 hsh he with h1 | ⟨h1, _, _⟩
    · exact gp_of_shutdown h1
    · subst h1
      constructor <;> dsimp only <;> (first | assumption | (gpsimp; done))
  · gpfin

theorem gp_tickD {cfg : Cfg} {s s' : St} (_hG : G1 s) (hG' : G1 s') (h : tickD cfg s = some s') : GP cfg s' := by
  -- every step of the dropping thread ends with the shutdown flag set
  apply gp_of_shutdown
  have hpd : s'.pd.afterSd1 = true := by
    unfold tickD at h
    split at h
    · cases h
    · cases h; rfl
    · split at h
      · cases h
      · cases h; rfl
    · split at h
      · cases h; rfl
      · cases h
    · split at h
      · cases h; rfl
      · cases h
    · split at h
      · cases h; rfl
      · cases h
    · split at h
      · cases h; rfl
      · cases h
    · obtain ⟨s1, _, hs⟩ := map_some h
      subst hs; rfl
    · cases h; rfl
    · cases h
    · cases h
  exact hG'.a2 hpd

theorem gp_commitFinish {cfg : Cfg} {s : St} (hI : GP cfg s) (i b : Nat) : GP cfg (commitFinish s i b) := by
  obtain ⟨rl, rf, rc1, rc2, rk, rcq⟩ := hI
  unfold commitFinish setCm
  split <;> (constructor <;> dsimp only <;> (first | assumption | (gpsimp; done)))

theorem gp_tickCm {cfg : Cfg} {s s' : St} {i : Nat} (hI : GP cfg s) (h : tickCm s i = some s') : GP cfg s' := by
  unfold tickCm at h
  split at h
  · cases h; exact ⟨hI.rl, hI.rf, hI.rc1, hI.rc2, hI.rk, hI.rcq⟩
  · split at h
    · cases h; exact gp_commitFinish hI _ _
    · cases h
  · cases h

theorem gp_init (cfg : Cfg) (n r : Nat) : GP cfg (init cfg n r) := by
  unfold init
  split <;> (constructor <;> dsimp only <;> simp [RL, RF, RC1, RC2, RK, RCQ])

set_option maxHeartbeats 800000 in
theorem gp_step {cfg : Cfg} (hw : cfg.workers = true) {s s' : St} {a : Act} (hnp : a.isPanic = false) (hG : G1 s)
    (hI : GP cfg s) (h : step cfg s a = some s') : GP cfg s' := by
  have hG' := g1_step hw hnp hG h
  cases a with
  | tick t =>
    cases t
    · exact gp_tickL hG hI h
    · exact gp_tickF hG hI h
    · exact gp_tickC hG hI (tickCg_some h)
    · exact gp_tickK hG hI h
    · exact gp_tickD hG hG' h
  | cmTick i => exact gp_tickCm hI h
  | commit i b =>
    simp only [step] at h
    split at h
    · split at h
      · cases h; exact ⟨hI.rl, hI.rf, hI.rc1, hI.rc2, hI.rk, hI.rcq⟩
      · cases h; exact gp_commitFinish hI _ _
    · cases h
  | drop =>
    simp only [step] at h
    split at h
    · cases h; exact ⟨hI.rl, hI.rf, hI.rc1, hI.rc2, hI.rk, hI.rcq⟩
    · cases h
  | fail t =>
    obtain ⟨rl, rf, rc1, rc2, rk, rcq⟩ := hI
    cases t
    · simp only [step, hw, if_true] at h
      split at h <;> gpfin
    · simp only [step] at h
      split at h <;> gpfin
    · simp only [step] at h
      split at h <;> gpfin
    · simp only [step] at h
      split at h <;> gpfin
    · simp only [step] at h
      cases h
  | apiProcess => simp [step, hw] at h
  | apiFlush => simp [step, hw] at h
  | apiEnact => simp [step, hw] at h
  | apiClean => simp [step, hw] at h
  | defer =>
    obtain ⟨rl, rf, rc1, rc2, rk, rcq⟩ := hI
    simp only [step] at h
    split at h
    · split at h <;> gpfin
    · cases h
  | panic t => cases hnp
  | iterHold | iterRelease | dropEnacted k | makeCycle =>
    simp only [step] at h
    split at h
    · cases h; exact ⟨hI.rl, hI.rf, hI.rc1, hI.rc2, hI.rk, hI.rcq⟩
    · cases h
  | lockTree | unlockTree =>
    simp only [step] at h
    cases h; exact ⟨hI.rl, hI.rf, hI.rc1, hI.rc2, hI.rk, hI.rcq⟩
  | grow k =>
    simp only [step] at h
    split at h
    · cases h; exact ⟨hI.rl, hI.rf, hI.rc1, hI.rc2, hI.rk, hI.rcq⟩
    · split at h
      · cases h; exact ⟨hI.rl, hI.rf, hI.rc1, hI.rc2, hI.rk, hI.rcq⟩
      · cases h
    · cases h

theorem gp_reachable {cfg : Cfg} (hw : cfg.workers = true) {n r : Nat} {s : St}
    (h : Reachable cfg n r s) : G1 s ∧ GP cfg s :=
  reachable_induction (fun s => G1 s ∧ GP cfg s) ⟨g1_init cfg hw n r, gp_init cfg n r⟩
    (fun _ _ _ hnp hI hs => ⟨g1_step hw hnp hI.1 hs, gp_step hw hnp hI.1 hI.2 hs⟩) s h

end Pdb.Conc.Pipe
