/-
C04, GAP 2: the batched descent (`Pdb/Model/BTreeBatch.lean`) against the one-change-per-
descent model (`Pdb/Model/BTree.lean`).  Part 1: runs of single changes on one node, replay
of a run of the child in the parent, runs at the root and `applyList`.
-/
import Pdb.Model.BTreeBatch
import Pdb.Proofs.C04TreeOcc

namespace Pdb.C04
variable {V : Type}

/-- `Run d n ops n' r`: the changes `ops` (at least one) applied to the node `n` one after
    the other by the single-change `change`, every result but the last being `ok`, give
    the node `n'` and the result `r`. -/
inductive Run (d : Nat) : Node V → List (Op V) → Node V → Res V → Prop
  | one (n : Node V) (op : Op V) : Run d n [op] (change d n op).1 (change d n op).2
  | cons (n : Node V) (op : Op V) (ops : List (Op V)) (n' : Node V) (r : Res V) :
      (change d n op).2 = .ok → Run d (change d n op).1 ops n' r → Run d n (op :: ops) n' r

theorem Run.ne_nil {d : Nat} {n n' : Node V} {ops : List (Op V)} {r : Res V}
    (h : Run d n ops n' r) : ops ≠ [] := by
  cases h <;> simp

theorem Run.append' {d : Nat} {n n1 : Node V} {ops1 : List (Op V)} {r1 : Res V}
    (h1 : Run d n ops1 n1 r1) : r1 = .ok → ∀ {n2 : Node V} {ops2 : List (Op V)} {r : Res V},
      Run d n1 ops2 n2 r → Run d n (ops1 ++ ops2) n2 r := by
  induction h1 with
  | one n op =>
    intro hr n2 ops2 r h2
    exact Run.cons n op ops2 n2 r hr h2
  | cons n op ops n' r' hok _ ih =>
    intro hr n2 ops2 r h2
    exact Run.cons n op (ops ++ ops2) n2 r hok (ih hr h2)

theorem Run.append {d : Nat} {n n1 n2 : Node V} {ops1 ops2 : List (Op V)} {r : Res V}
    (h1 : Run d n ops1 n1 .ok) (h2 : Run d n1 ops2 n2 r) : Run d n (ops1 ++ ops2) n2 r :=
  h1.append' rfl h2

/-! ### one change with result `ok` keeps the node invariants -/

theorem specApply_one (op : Op V) (l : List (Key × V)) :
    specApply [op] l = match op with
                       | .set k v => put l k v
                       | .del k => del l k := by
  cases op <;> rfl

theorem mem_specApply_one {op : Op V} {l : List (Key × V)} {x : Key × V}
    (h : x ∈ specApply [op] l) : x ∈ l ∨ x.1 = op.key := by
  cases op with
  | set k v =>
    rcases mem_put (show x ∈ put l k v from h) with e | e
    · exact Or.inr (by rw [e]; rfl)
    · exact Or.inl e
  | del k => exact Or.inl ((del_sublist l k).subset h)

theorem change_ok_inv (d lb : Nat) (n : Node V) (op : Op V) (hw : WF d n)
    (hs : Sorted (toList d n)) (ho : Occ lb d n) (hlb : lb ≤ MIDDLE) (hlb1 : 0 < d → 1 ≤ lb)
    (hok : (change d n op).2 = .ok) :
    WF d (change d n op).1 ∧ toList d (change d n op).1 = specApply [op] (toList d n) ∧
      Occ lb d (change d n op).1 := by
  cases op with
  | set k v =>
    obtain ⟨h1, h2, _, _⟩ := change_set_spec d n hw hs k v
    rw [hok] at h1
    refine ⟨h2, h1, ?_⟩
    rcases change_set_occ d lb n hw hs ho hlb k v with ⟨_, h⟩ | ⟨sep, right, h, _⟩
    · exact h
    · rw [h] at hok; cases hok
  | del k =>
    have hns : (change d n (.del k)).2 ≠ .stuck := by rw [hok]; intro h; cases h
    obtain ⟨h1, h2, _⟩ := change_del_spec d n hw hs k hns
    refine ⟨h2, h1, ?_⟩
    rcases change_del_occ d lb n hw hs ho hlb hlb1 k with ⟨_, h⟩ | ⟨h, _⟩
    · exact h
    · rw [h] at hok; cases hok

/-- A run ending in `ok` keeps shape, order and occupancy; the enumeration is `specApply`;
    every element is an old one or carries the key of one of the changes. -/
theorem Run.inv {d lb : Nat} {n n' : Node V} {ops : List (Op V)} {r : Res V}
    (h : Run d n ops n' r) (hr : r = .ok) (hw : WF d n) (hs : Sorted (toList d n))
    (ho : Occ lb d n) (hlb : lb ≤ MIDDLE) (hlb1 : 0 < d → 1 ≤ lb) :
    WF d n' ∧ Sorted (toList d n') ∧ Occ lb d n' ∧
      toList d n' = specApply ops (toList d n) ∧
      ∀ x ∈ toList d n', x ∈ toList d n ∨ ∃ op ∈ ops, x.1 = op.key := by
  induction h with
  | one n op =>
    obtain ⟨h1, h2, h3⟩ := change_ok_inv d lb n op hw hs ho hlb hlb1 hr
    refine ⟨h1, ?_, h3, h2, ?_⟩
    · rw [h2]; exact sorted_specApply_one op hs
    · intro x hx
      rw [h2] at hx
      rcases mem_specApply_one hx with e | e
      · exact Or.inl e
      · exact Or.inr ⟨op, List.mem_cons_self, e⟩
  | cons n op ops n' r hok _ ih =>
    obtain ⟨h1, h2, h3⟩ := change_ok_inv d lb n op hw hs ho hlb hlb1 hok
    have hs1 : Sorted (toList d (change d n op).1) := by
      rw [h2]; exact sorted_specApply_one op hs
    obtain ⟨i1, i2, i3, i4, i5⟩ := ih hr h1 hs1 h3
    refine ⟨i1, i2, i3, ?_, ?_⟩
    · rw [i4, h2]; rfl
    · intro x hx
      rcases i5 x hx with e | ⟨o, ho', e⟩
      · rw [h2] at e
        rcases mem_specApply_one e with e | e
        · exact Or.inl e
        · exact Or.inr ⟨op, List.mem_cons_self, e⟩
      · exact Or.inr ⟨o, List.mem_cons_of_mem _ ho', e⟩

/-! ### replay of a run of the child in the parent -/

/-- A change whose key is not a separator of an internal node is the change of the child at
    `position`, followed by `afterChild`. -/
theorem change_descend (d : Nat) (n : Node V) (op : Op V) (i : Nat) (child : Node V)
    (hp : position n.seps op.key = (false, i)) (hc : n.children[i]? = some child) :
    change (d + 1) n op =
      afterChild (.mk n.seps (n.children.set i (change d child op).1)) i (change d child op).2 := by
  have h1 : (position n.seps op.key).1 = false := by rw [hp]
  have h2 : (position n.seps op.key).2 = i := by rw [hp]
  cases op with
  | set k v =>
    simp only [Op.key] at h1 h2
    simp only [change, Op.key, h1, h2, hc]
  | del k =>
    simp only [Op.key] at h1 h2
    simp only [change, Op.key, h1, h2, hc]

theorem afterChild_ok (n1 : Node V) (i : Nat) : afterChild n1 i .ok = (n1, .ok) := rfl

theorem Run.replay {d : Nat} {child c' : Node V} {ops : List (Op V)} {r : Res V}
    (h : Run d child ops c' r) : ∀ (n : Node V) (i : Nat), n.children[i]? = some child →
      (∀ op ∈ ops, position n.seps op.key = (false, i)) →
      Run (d + 1) n ops (afterChild (.mk n.seps (n.children.set i c')) i r).1
        (afterChild (.mk n.seps (n.children.set i c')) i r).2 := by
  induction h with
  | one child op =>
    intro n i hc hp
    have e := change_descend d n op i child (hp op List.mem_cons_self) hc
    rw [← e]
    exact Run.one n op
  | cons child op ops c' r hok _ ih =>
    intro n i hc hp
    have e := change_descend d n op i child (hp op List.mem_cons_self) hc
    rw [hok, afterChild_ok] at e
    have hi : i < n.children.length := by
      rcases Nat.lt_or_ge i n.children.length with h | h
      · exact h
      · rw [List.getElem?_eq_none h] at hc; cases hc
    have hc1 : (Node.mk n.seps (n.children.set i (change d child op).1)).children[i]? =
        some (change d child op).1 := by
      simp [hi]
    have := ih (.mk n.seps (n.children.set i (change d child op).1)) i hc1
      (fun o ho => hp o (List.mem_cons_of_mem _ ho))
    simp only [Node.seps_mk, Node.children_mk, List.set_set] at this
    refine Run.cons n op ops _ _ (by rw [e]) ?_
    rw [e]
    exact this

/-! ### runs at the root -/

theorem applyOne_eq_finishRoot (t : Tree V) (op : Op V) :
    applyOne t op = finishRoot t.depth (change t.depth t.root op).1 (change t.depth t.root op).2 := by
  unfold applyOne finishRoot
  cases h : change t.depth t.root op with
  | mk root' r =>
    cases r <;> rfl

theorem Run.toApplyList {d : Nat} {root n' : Node V} {ops : List (Op V)} {r : Res V}
    (h : Run d root ops n' r) (rest : List (Op V)) :
    applyList { root := root, depth := d } (ops ++ rest) =
      if (finishRoot d n' r).2 = true then applyList (finishRoot d n' r).1 rest
      else finishRoot d n' r := by
  induction h with
  | one n op =>
    show applyList _ (op :: rest) = _
    simp only [applyList]
    rw [applyOne_eq_finishRoot]
  | cons n op ops n' r hok _ ih =>
    show applyList _ (op :: (ops ++ rest)) = _
    simp only [applyList]
    rw [applyOne_eq_finishRoot]
    simp only [hok, finishRoot, if_true]
    exact ih

theorem Run.toApplyList_nil {d : Nat} {root n' : Node V} {ops : List (Op V)} {r : Res V}
    (h : Run d root ops n' r) :
    applyList { root := root, depth := d } ops = finishRoot d n' r := by
  have := h.toApplyList []
  rw [List.append_nil] at this
  rw [this]
  by_cases hf : (finishRoot d n' r).2 = true
  · rw [if_pos hf]
    simp only [applyList]
    exact Prod.ext rfl hf.symm
  · rw [if_neg hf]

end Pdb.C04
