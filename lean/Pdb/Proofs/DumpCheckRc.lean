/-
Soundness of the forest dump checker (Pdb/Model/DumpCheckRc.lean): what `checkRc d = true`
implies for the model heap `heapOf d`.

  generic part   the Bool tests of the model file imply the conjuncts of `ShapeC` / `AcyclicR` /
                 `Counts` for ANY heap (`closedNB_sound`, ..., `countsB_sound`)
  dump part      `RcOk d`: all facts an accepted dump satisfies; `checkRc_ok`
-/
import Pdb.Model.DumpCheckRc
import Pdb.Proofs.DumpCheckRcInv

namespace Pdb.DumpCheckRc
open Pdb.MultiTree
set_option linter.unusedSectionVars false

/-! ## generic part -/

section Generic
variable {K D : Type} [DecidableEq K]

theorem keysNodupB_sound {α β : Type} [DecidableEq α] (l : List (α × β))
    (h : keysNodupB l = true) : (l.map Prod.fst).Nodup := by
  simpa [keysNodupB] using h

theorem closedNB_sound (h : Heap K D) (hb : closedNB h = true) :
    ∀ a n, h.nodes.get a = some n → ∀ c ∈ n.children, present h c := by
  intro a n hg c hc
  have hm := mem_of_alLookup h.nodes.l a n hg
  simp only [closedNB, List.all_eq_true] at hb
  exact hb (a, n) hm c hc

theorem closedRB_sound (h : Heap K D) (hb : closedRB h = true) :
    ∀ k e, h.roots.get k = some e → ∀ c ∈ e.1.children, present h c := by
  intro k e hg c hc
  have hm := mem_of_alLookup h.roots.l k e hg
  simp only [closedRB, List.all_eq_true] at hb
  exact hb (k, e) hm c hc

theorem rootPosB_sound (h : Heap K D) (hb : rootPosB h = true) :
    ∀ k e, h.roots.get k = some e → 1 ≤ e.2 := by
  intro k e hg
  have hm := mem_of_alLookup h.roots.l k e hg
  simp only [rootPosB, List.all_eq_true, decide_eq_true_eq] at hb
  exact hb (k, e) hm

theorem rankB_sound (rank : Nat → Nat) (h : Heap K D) (hb : rankB rank h = true) :
    AcyclicR rank h := by
  intro a n hg c hc
  have hm := mem_of_alLookup h.nodes.l a n hg
  simp only [rankB, List.all_eq_true, decide_eq_true_eq] at hb
  exact hb (a, n) hm c hc

theorem rcEntriesB_sound (h : Heap K D) (hb : rcEntriesB h = true) :
    ∀ a c, h.rc.get a = some c → 2 ≤ c ∧ present h a := by
  intro a c hg
  have hm := mem_of_alLookup h.rc.l a c hg
  simp only [rcEntriesB, List.all_eq_true, Bool.and_eq_true, decide_eq_true_eq] at hb
  exact hb (a, c) hm

theorem refsB_eq (h : Heap K D) (a : Nat) : refsB h a = refs h a := rfl

theorem countsB_sound (h : Heap K D) (hb : countsB h = true) :
    ∀ a, present h a → h.count a = refs h a + ([] : List Nat).count a := by
  intro a ha
  obtain ⟨n, hn⟩ := (present_iff h a).mp ha
  have hm := mem_of_alLookup h.nodes.l a n hn
  simp only [countsB, List.all_eq_true, beq_iff_eq] at hb
  have := hb (a, n) hm
  simp only [refsB_eq] at this
  simpa using this

theorem parentB_sound (h : Heap K D) (hb : parentB h = true) :
    ∀ a, present h a → 0 < refs h a := by
  intro a ha
  obtain ⟨n, hn⟩ := (present_iff h a).mp ha
  have hm := mem_of_alLookup h.nodes.l a n hn
  simp only [parentB, List.all_eq_true, decide_eq_true_eq] at hb
  have := hb (a, n) hm
  simpa only [refsB_eq] using this

/-- The structural tests give the rank-generalised shape of the model invariant. -/
theorem shapeR_of_tests (rank : Nat → Nat) (h : Heap K D)
    (h1 : keysNodupB h.nodes.l = true) (h2 : keysNodupB h.rc.l = true)
    (h3 : keysNodupB h.roots.l = true) (h4 : closedNB h = true) (h5 : closedRB h = true)
    (h6 : rootPosB h = true) (h7 : rankB rank h = true) : ShapeR rank h :=
  ⟨⟨keysNodupB_sound _ h1, keysNodupB_sound _ h2, keysNodupB_sound _ h3, closedNB_sound h h4,
      closedRB_sound h h5, rootPosB_sound h h6⟩, rankB_sound rank h h7⟩

/-- ... and the counting tests give RcInv. -/
theorem counts_of_tests (h : Heap K D) (h1 : rcEntriesB h = true) (h2 : countsB h = true) :
    Counts h [] :=
  ⟨rcEntriesB_sound h h1, countsB_sound h h2, by simp⟩

end Generic

/-! ## dump part -/

theorem firstFail_cons (name : String) (t : Unit → Bool) (rest : List (String × (Unit → Bool)))
    (h : firstFail ((name, t) :: rest) = none) : t () = true ∧ firstFail rest = none := by
  simp only [firstFail] at h
  split at h
  · rename_i ht; exact ⟨ht, h⟩
  · cases h

/-- presence in the rebuilt heap = being a dumped node slot outside the allowed list -/
theorem alLookup_map_isSome {β γ : Type} (f : β → γ) (l : List (Nat × β)) (a : Nat) :
    (alLookup a (l.map fun e => (e.1, f e.2))).isSome = true ↔ a ∈ l.map Prod.fst := by
  induction l with
  | nil => simp [alLookup]
  | cons e l ih =>
    simp only [List.map_cons, alLookup, List.mem_cons]
    by_cases he : e.1 = a
    · simp [he]
    · simp only [he, if_false, ih]
      constructor
      · exact fun h => Or.inr h
      · rintro (h | h)
        · exact absurd h.symm he
        · exact h

theorem present_heapOf (d : RcDump) (a : Nat) :
    present (heapOf d) a ↔ a ∈ (liveNodes d).map Prod.fst := by
  simp only [present, heapOf, FMap.get]
  exact alLookup_map_isSome (fun cs => (⟨(), cs⟩ : Node Unit)) (liveNodes d) a

theorem mem_liveNodes (d : RcDump) (a : Nat) :
    a ∈ (liveNodes d).map Prod.fst ↔ a ∈ d.nodes.map Prod.fst ∧ a ∉ d.allowed := by
  simp only [liveNodes, List.mem_map, List.mem_filter, Bool.not_eq_true', List.contains_eq_mem,
    decide_eq_false_iff_not]
  constructor
  · rintro ⟨e, ⟨hm, hn⟩, rfl⟩
    exact ⟨⟨e, hm, rfl⟩, hn⟩
  · rintro ⟨⟨e, hm, rfl⟩, hn⟩
    exact ⟨e, ⟨hm, hn⟩, rfl⟩

/-- cache = table as maps -/
theorem cacheB_sound (d : RcDump) (h : cacheB d = true) (a : Nat) :
    alLookup a d.cache = alLookup a d.rc := by
  simp only [cacheB, Bool.and_eq_true, List.all_eq_true, beq_iff_eq] at h
  obtain ⟨⟨_, h1⟩, h2⟩ := h
  cases hc : alLookup a d.cache with
  | some v =>
    have := h1 (a, v) (mem_of_alLookup d.cache a v hc)
    exact this.symm
  | none =>
    cases hr : alLookup a d.rc with
    | none => rfl
    | some v =>
      have := h2 (a, v) (mem_of_alLookup d.rc a v hr)
      simp only at this
      rw [hc] at this
      cases this

/-- Everything an accepted dump satisfies. -/
structure RcOk (d : RcDump) : Prop where
  shape : ShapeR (rankOf d) (heapOf d)
  rcEntries : ∀ a c, (heapOf d).rc.get a = some c → 2 ≤ c ∧ present (heapOf d) a
  counts : d.hasRc = true → Counts (heapOf d) []
  parent : ∀ a, present (heapOf d) a → 0 < refs (heapOf d) a
  bad : ∀ a ∈ d.bad, a ∈ d.allowed
  rootCount : d.refCounted = false → ∀ r ∈ d.roots, r.2.1 = 1
  noTable : d.hasRc = false → d.rc = [] ∧ d.cache = []
  cache : ∀ a, alLookup a d.cache = alLookup a d.rc

theorem checkRc_iff (d : RcDump) : checkRc d = true ↔ rcReason d = none := by
  simp [checkRc, Option.isNone_iff_eq_none]

theorem checkRc_ok (d : RcDump) (h : checkRc d = true) : RcOk d := by
  have h0 := (checkRc_iff d).1 h
  simp only [rcReason, tests] at h0
  obtain ⟨t1, h0⟩ := firstFail_cons _ _ _ h0
  obtain ⟨t2, h0⟩ := firstFail_cons _ _ _ h0
  obtain ⟨t3, h0⟩ := firstFail_cons _ _ _ h0
  obtain ⟨t4, h0⟩ := firstFail_cons _ _ _ h0
  obtain ⟨t5, h0⟩ := firstFail_cons _ _ _ h0
  obtain ⟨t6, h0⟩ := firstFail_cons _ _ _ h0
  obtain ⟨t7, h0⟩ := firstFail_cons _ _ _ h0
  obtain ⟨t8, h0⟩ := firstFail_cons _ _ _ h0
  obtain ⟨t9, h0⟩ := firstFail_cons _ _ _ h0
  obtain ⟨t10, h0⟩ := firstFail_cons _ _ _ h0
  obtain ⟨t11, h0⟩ := firstFail_cons _ _ _ h0
  obtain ⟨t12, _⟩ := firstFail_cons _ _ _ h0
  simp only [Bool.and_eq_true] at t5 t8
  exact {
    shape := shapeR_of_tests (rankOf d) (heapOf d) t1 t3 t2 t8.1 t8.2 t5.1 t12
    rcEntries := rcEntriesB_sound (heapOf d) t9
    counts := by
      intro hrc
      simp only [hrc, Bool.not_true, Bool.false_or] at t10
      exact counts_of_tests (heapOf d) t9 t10
    parent := parentB_sound (heapOf d) t11
    bad := by
      intro a ha
      simp only [List.all_eq_true, List.contains_eq_mem, decide_eq_true_eq] at t4
      exact t4 a ha
    rootCount := by
      intro hrc r hr
      have := t5.2
      simp only [hrc, Bool.false_or, List.all_eq_true, beq_iff_eq] at this
      exact this r hr
    noTable := by
      intro hrc
      simp only [hrc, Bool.false_or, Bool.and_eq_true, List.isEmpty_iff] at t6
      exact t6
    cache := cacheB_sound d t7 }

/-! ### consequences -/

/-- every dumped slot is a node of a live tree or an allowed orphan -/
theorem RcOk.reach {d : RcDump} (ok : RcOk d) (a : Nat) (ha : a ∈ slotsOf d) :
    a ∈ d.allowed ∨ Reach (heapOf d) a := by
  simp only [slotsOf, List.mem_append] at ha
  rcases ha with ha | ha
  · by_cases hal : a ∈ d.allowed
    · exact Or.inl hal
    · right
      have hp : present (heapOf d) a :=
        (present_heapOf d a).mpr ((mem_liveNodes d a).mpr ⟨ha, hal⟩)
      exact reach_of_presentR (rankOf d) (heapOf d) ok.shape ok.parent a hp
  · exact Or.inl (ok.bad a ha)

/-- nothing refers to an allowed orphan -/
theorem RcOk.allowed_isolated {d : RcDump} (ok : RcOk d) (a : Nat) (ha : a ∈ d.allowed) :
    ¬ present (heapOf d) a ∧ refs (heapOf d) a = 0 ∧ (heapOf d).rc.get a = none := by
  have hnp : ¬ present (heapOf d) a := by
    intro hp
    exact ((mem_liveNodes d a).mp ((present_heapOf d a).mp hp)).2 ha
  refine ⟨hnp, ?_, ?_⟩
  · simp only [refs, nodeRefs_absentC _ ok.shape.core a hnp, rootRefs_absentC _ ok.shape.core a hnp]
  · cases hr : (heapOf d).rc.get a with
    | none => rfl
    | some c => exact absurd (ok.rcEntries a c hr).2 hnp

theorem variantOf_ne_appendOnly (d : RcDump) : variantOf d ≠ .appendOnly ↔ d.hasRc = true := by
  cases h : d.hasRc <;> cases h2 : d.refCounted <;> simp [variantOf, h, h2]

theorem RcOk.invR {d : RcDump} (ok : RcOk d) : InvR (variantOf d) (heapOf d) :=
  ⟨⟨rankOf d, ok.shape⟩, fun hv => ok.counts ((variantOf_ne_appendOnly d).mp hv)⟩

end Pdb.DumpCheckRc
