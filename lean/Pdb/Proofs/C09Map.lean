/-
C09 helper: specification of the radix map of Pdb/Model/Index.lean.

  Trie.get_set :  (Trie.set d t k o).get k' = if k = k' then o else t.get k'
-/
import Pdb.Model.Index

namespace Pdb.Index

theorem alGet_alErase {α : Type} (l : List (Nat × α)) (k k' : Nat) :
    alGet (alErase l k) k' = if k = k' then none else alGet l k' := by
  induction l with
  | nil => simp [alErase, alGet]
  | cons x r ih =>
    obtain ⟨kx, vx⟩ := x
    by_cases h1 : kx = k
    · subst h1
      simp only [alErase, if_true, ih]
      by_cases h2 : kx = k'
      · simp [h2]
      · simp [h2, alGet]
    · simp only [alErase, h1, if_false, alGet]
      by_cases h2 : kx = k'
      · subst h2
        have : ¬ k = kx := fun h => h1 h.symm
        simp [this]
      · simp only [h2, if_false, ih]

theorem alGet_alSet {α : Type} (l : List (Nat × α)) (k k' : Nat) (o : Option α) :
    alGet (alSet l k o) k' = if k = k' then o else alGet l k' := by
  cases o with
  | none => simp [alSet, alGet_alErase]
  | some v =>
    simp only [alSet, alGet]
    by_cases h : k = k'
    · simp [h]
    · simp [h, alGet_alErase]

theorem Trie.get_empty {α : Type} (k : Nat) : (Trie.empty : Trie α).get k = none := rfl

theorem Trie.get_single {α : Type} (d k k' : Nat) (v : α) :
    (Trie.single d k v).get k' = if k = k' then some v else none := by
  induction d generalizing k k' with
  | zero => simp [Trie.single, Trie.get, alGet]
  | succ d ih =>
    unfold Trie.single
    by_cases hk : k % 2 = 0
    · simp only [hk, if_true, Trie.get]
      by_cases hk' : k' % 2 = 0
      · simp only [hk', if_true, ih]
        by_cases h : k = k'
        · simp [h]
        · have : ¬ k / 2 = k' / 2 := by omega
          simp [h, this]
      · have : ¬ k = k' := by intro h; rw [h] at hk; exact hk' hk
        simp [hk', this, alGet]
    · simp only [hk, if_false, Trie.get]
      by_cases hk' : k' % 2 = 0
      · have : ¬ k = k' := by intro h; rw [h] at hk; exact hk hk'
        simp [hk', this, alGet]
      · simp only [hk', if_false, ih]
        by_cases h : k = k'
        · simp [h]
        · have : ¬ k / 2 = k' / 2 := by omega
          simp [h, this]

theorem Trie.get_set {α : Type} (d : Nat) (t : Trie α) (k k' : Nat) (o : Option α) :
    (Trie.set d t k o).get k' = if k = k' then o else t.get k' := by
  induction t generalizing d k k' with
  | bucket l =>
    cases l with
    | nil =>
      cases o with
      | none => simp [Trie.set, Trie.get, alGet]
      | some v => simp [Trie.set, Trie.get_single, Trie.get, alGet]
    | cons x r => simp only [Trie.set, Trie.get, alGet_alSet]
  | node l r ihl ihr =>
    unfold Trie.set
    by_cases hk : k % 2 = 0
    · simp only [hk, if_true, Trie.get]
      by_cases hk' : k' % 2 = 0
      · simp only [hk', if_true, ihl]
        by_cases h : k = k'
        · simp [h]
        · have : ¬ k / 2 = k' / 2 := by omega
          simp [h, this]
      · have : ¬ k = k' := by intro h; rw [h] at hk; exact hk' hk
        simp [hk', this]
    · simp only [hk, if_false, Trie.get]
      by_cases hk' : k' % 2 = 0
      · have : ¬ k = k' := by intro h; rw [h] at hk; exact hk hk'
        simp [hk', this]
      · simp only [hk', if_false, ihr]
        by_cases h : k = k'
        · simp [h]
        · have : ¬ k / 2 = k' / 2 := by omega
          simp [h, this]

theorem Trie.get_set_self {α : Type} (d : Nat) (t : Trie α) (k : Nat) (o : Option α) :
    (Trie.set d t k o).get k = o := by simp [Trie.get_set]

theorem Trie.get_set_ne {α : Type} (d : Nat) (t : Trie α) (k k' : Nat) (o : Option α)
    (h : k ≠ k') : (Trie.set d t k o).get k' = t.get k' := by simp [Trie.get_set, h]

end Pdb.Index
