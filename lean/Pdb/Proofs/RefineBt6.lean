/-
R8 (physical btree column), part 6: whole transactions WITHOUT the hypothesis `hfinal` of
`R8_tx_partial`, for trees whose root is a leaf (header depth 0): the changed root leaf is written
back (`writeBack` with no parent), in place or - when its entry changes tier - to a new address,
and then the header entry is rewritten (`finishRoot`).
-/
import Pdb.Proofs.RefineBt5
import Pdb.Props.C04

namespace Pdb.BTreePhys
open Pdb.Gen Pdb.ValueTable

/-! ## addresses and the header entry -/

theorem address_new_lt (off tier : Nat) : Address.new off tier < 2 ^ 64 := by
  unfold Address.new wor wshl wcast
  exact Nat.or_lt_two_pow (Nat.mod_lt _ (by decide)) (Nat.mod_lt _ (by decide))

theorem physWriteNew_addr {cp : Cmp} {c c' : PCol} {v : Bytes} {a : Nat}
    (h : physWriteNew cp c v = .ok (c', a)) : a < 2 ^ 64 := by
  unfold physWriteNew at h
  simp only at h
  split at h
  · obtain ⟨_, rfl⟩ := Prod.mk.inj (Except.ok.inj h)
    exact address_new_lt _ _
  · exact absurd h (by simp)

theorem physWriteExisting_addr {cp : Cmp} {c c' : PCol} {v : Bytes} {a na : Nat}
    (h : physWriteExisting cp c a v = .ok (c', some na)) : na < 2 ^ 64 := by
  unfold physWriteExisting at h
  simp only at h
  split at h
  · exact absurd h (by simp)
  · split at h
    · split at h
      · have := Prod.mk.inj (Except.ok.inj h); exact absurd this.2 (by simp)
      · exact absurd h (by simp)
    · split at h
      · exact absurd h (by simp)
      · split at h
        · rename_i c2 na' hw
          obtain ⟨_, e⟩ := Prod.mk.inj (Except.ok.inj h)
          obtain rfl := Option.some.inj e
          exact physWriteNew_addr hw
        · exact absurd h (by simp)

theorem header_tier_zero : Address.size_tier HEADER_ADDRESS = 0 := by decide

theorem tierOfLen_small (rc : Bool) (len : Nat) (h : len ≤ 12) : tierOfLen rc .noHash len = 0 := by
  have hts : tableSizes = 32 :: tableSizes.tail := rfl
  unfold tierOfLen
  rw [hts, List.findIdx?_cons]
  have : tierFits rc .noHash len 32 = true := by
    unfold tierFits valueSizeOf
    cases rc <;> simp [TKey.encodedSize, SIZE_SIZE, REFS_SIZE] <;> omega
  rw [this]
  rfl

theorem header_newTier (cp : Cmp) (c : PCol) (root depth : Nat) :
    newTier cp c (headerBytes root depth) = 0 := by
  unfold newTier
  apply tierOfLen_small
  have h1 := (C06_compress_kept_only_if_smaller cp.cmp cp.threshold (headerBytes root depth)).2.2.2
  have h2 : (headerBytes root depth).length = 12 := by simp [headerBytes, C04.leBytes_length]
  omega

theorem header_fetch (decomp : Bytes → Option Bytes) (cp : Cmp) (c' : PCol) (root depth : Nat)
    (hr : root < 2 ^ 64) (hd : depth < 2 ^ 32)
    (h : entryAt c' HEADER_ADDRESS =
      .ok (some (storedForm cp.cmp cp.threshold (headerBytes root depth))))
    (hdec : decodeEntry decomp (some (storedForm cp.cmp cp.threshold (headerBytes root depth))) =
      .ok (some (headerBytes root depth))) :
    physHeader decomp c' = .ok (root, depth) := by
  unfold physHeader valueAt
  rw [h]
  simp only [hdec]
  have hl : (headerBytes root depth).length = 12 := by
    simp [headerBytes, C04.leBytes_length]
  have h8 : (headerBytes root depth).take 8 = C04.leBytes 8 root := by
    unfold headerBytes
    rw [List.take_append_of_le_length (by rw [C04.leBytes_length]; omega),
      List.take_of_length_le (by rw [C04.leBytes_length]; omega)]
  have h4 : ((headerBytes root depth).drop 8).take 4 = C04.leBytes 4 depth := by
    unfold headerBytes
    rw [List.drop_append_of_le_length (by rw [C04.leBytes_length]; omega),
      List.drop_of_length_le (by rw [C04.leBytes_length]; omega), List.nil_append,
      List.take_of_length_le (by rw [C04.leBytes_length]; omega)]
  rw [if_neg (by rw [hl]; decide), h8, h4, C04.fromLe_leBytes, C04.fromLe_leBytes]
  have e1 : root % 256 ^ 8 = root := Nat.mod_eq_of_lt (by
    have : (256 : Nat) ^ 8 = 2 ^ 64 := by decide
    omega)
  have e2 : depth % 256 ^ 4 = depth := Nat.mod_eq_of_lt (by
    have : (256 : Nat) ^ 4 = 2 ^ 32 := by decide
    omega)
  rw [e1, e2]

/-! ## a leaf written and read back -/

/-- a leaf as `Node::change` holds it: no child set, separators within the bounds of the codec -/
structure LeafOk (n : C04.RawNode) : Prop where
  len : n.seps.length ≤ C04.ORDER
  keys : ∀ s ∈ n.seps, s.1.length < 2 ^ 32 ∧ 0 < s.2 ∧ s.2 < 2 ^ 64
  kids : ∀ x ∈ n.children, x = 0

theorem leaf_slot_zero {n : C04.RawNode} (h : LeafOk n) (i : Nat) : n.slot i = 0 := by
  unfold C04.RawNode.slot
  rw [List.getD_eq_getElem?_getD]
  cases hi : n.children[i]? with
  | none => rfl
  | some x => exact h.kids x (List.mem_of_getElem? hi)

theorem leaf_fetch (decomp : Bytes → Option Bytes) (c' : PCol) (a : Nat) (n : C04.RawNode)
    (hl : LeafOk n)
    (h : entryAt c' a = .ok (some (storedForm noCompression.cmp noCompression.threshold
      (C04.encodeNode n)))) :
    absNode decomp c' 0 a = some (.mk n.seps []) := by
  rw [node_stored] at h
  have hf : fetchNode decomp c' a = .ok n.normal := by
    unfold fetchNode valueAt
    rw [h]
    simp only [decodeEntry]
    rw [C04.C04_node_roundtrip n hl.len hl.keys (fun x hx => by rw [hl.kids x hx]; decide)]
  rw [absNode, hf]
  have hz : n.normal.children.all (fun x => x == 0) = true := by
    rw [List.all_eq_true]
    intro x hx
    unfold C04.RawNode.normal at hx
    simp only [List.mem_map] at hx
    obtain ⟨i, _, rfl⟩ := hx
    simp [leaf_slot_zero hl i]
  simp only [absStep, if_true, hz]
  rfl

/-! ## the root leaf written back -/

/-- ROOT-LEAF WRITE-BACK.  The header says `(root, 0)`; the changed root leaf `n'` is written back
and the header follows if the leaf moved.  Afterwards the header says `(root', 0)`, the abstraction
of `root'` is the leaf `n'`, the owners are the old ones with `root'` for `root`, every other
owner's entry is as before. -/
theorem root_leaf_writeBack (decomp : Bytes → Option Bytes) (cp : Cmp) (c1 : PCol) (root : Nat)
    (rest : List Nat) (n' : C04.RawNode) (hl : LeafOk n')
    (hci : ColInv c1 (root :: HEADER_ADDRESS :: rest))
    (hhdr : physHeader decomp c1 = .ok (root, 0))
    (hdec : ∀ r, decodeEntry decomp (some (storedForm cp.cmp cp.threshold (headerBytes r 0))) =
      .ok (some (headerBytes r 0)))
    (hb1 : (c1.tables (Address.size_tier root)).filled ≤ 2 ^ 64)
    (hb2 : (c1.tables (newTier noCompression c1 (C04.encodeNode n'))).filled +
        numParts (c1.tables (newTier noCompression c1 (C04.encodeNode n'))) .noHash
          (storedForm noCompression.cmp noCompression.threshold (C04.encodeNode n')).1 ≤ 2 ^ 56)
    (hb3 : ∀ r, (c1.tables 0).filled +
        numParts (c1.tables (newTier noCompression c1 (C04.encodeNode n'))) .noHash
          (storedForm noCompression.cmp noCompression.threshold (C04.encodeNode n')).1 +
        numParts (c1.tables 0) .noHash (storedForm cp.cmp cp.threshold (headerBytes r 0)).1
          ≤ 2 ^ 56) :
    ∃ c2 r c3 root', writeBack c1 root n' [] = .ok (c2, r) ∧ finishRoot cp c2 0 r = .ok c3 ∧
      root' = r.getD root ∧
      physHeader decomp c3 = .ok (root', 0) ∧
      absNode decomp c3 0 root' = some (.mk n'.seps []) ∧
      ColInv c3 (root' :: HEADER_ADDRESS :: rest) ∧
      (∀ b ∈ rest, entryAt c3 b = entryAt c1 b) ∧ c3.rc = c1.rc := by
  by_cases hτ : Address.size_tier root = newTier noCompression c1 (C04.encodeNode n')
  · -- the leaf stays in its tier: written in place, header untouched
    obtain ⟨c2, hw, hrd, hinv2, hfr2, hrc2, _⟩ :=
      step_replace noCompression c1 root (HEADER_ADDRESS :: rest) (C04.encodeNode n') hci hτ hb2
    refine ⟨c2, none, c2, root, hw, rfl, rfl, ?_, leaf_fetch decomp c2 root n' hl hrd, hinv2,
      fun b hb => hfr2 b (List.mem_cons_of_mem _ hb), hrc2⟩
    rw [physHeader_congr (hfr2 HEADER_ADDRESS List.mem_cons_self)]; exact hhdr
  · -- the leaf moves: new address, then the header entry is rewritten in place
    obtain ⟨c2, root', hw, hrd, _, hinv2, hfr2, hrc2, hlt, hfl2⟩ :=
      step_move noCompression c1 root (HEADER_ADDRESS :: rest) (C04.encodeNode n') hci hτ hb1 hb2
    have hperm : ColInv c2 (HEADER_ADDRESS :: root' :: rest) :=
      hinv2.perm (List.Perm.swap HEADER_ADDRESS root' rest)
    have hτh : Address.size_tier HEADER_ADDRESS = newTier cp c2 (headerBytes root' 0) := by
      rw [header_tier_zero, header_newTier]
    have hsc : SameCfg (c1.tables 0) (c2.tables 0) := sameCfg_of_tier hrc2 0 (hci.cfg 0) (hinv2.cfg 0)
    have hbh : (c2.tables (newTier cp c2 (headerBytes root' 0))).filled +
        numParts (c2.tables (newTier cp c2 (headerBytes root' 0))) .noHash
          (storedForm cp.cmp cp.threshold (headerBytes root' 0)).1 ≤ 2 ^ 56 := by
      rw [header_newTier, Refine.numParts_cfg _ _ _ _ hsc]
      have h1 := hfl2 0
      have h2 := hb3 root'
      omega
    obtain ⟨c3, hw3, hrd3, hinv3, hfr3, hrc3, _⟩ :=
      step_replace cp c2 HEADER_ADDRESS (root' :: rest) (headerBytes root' 0) hperm hτh hbh
    refine ⟨c2, some root', c3, root', hw, ?_, rfl, ?_, ?_, ?_, ?_, hrc3.trans hrc2⟩
    · unfold finishRoot physSetHeader
      simp only [hw3]
    · exact header_fetch decomp cp c3 root' 0 hlt (by decide) hrd3 (hdec root')
    · exact leaf_fetch decomp c3 root' n' hl (by rw [hfr3 root' List.mem_cons_self]; exact hrd)
    · exact hinv3.perm (List.Perm.swap root' HEADER_ADDRESS rest)
    · intro b hb
      rw [hfr3 b (List.mem_cons_of_mem _ hb)]
      exact hfr2 b (List.mem_cons_of_mem _ hb)

/-! ## Set of an absent key into a root leaf with room -/

theorem ColInv.addr_pos {c : PCol} {own : List Nat} (h : ColInv c own) (a : Nat) (ha : a ∈ own) :
    0 < a := by
  obtain ⟨F, hF⟩ := h.slots _ (h.tiers a ha)
  have hm : chainOf (c.tables (Address.size_tier a)) (Address.offset a) ∈
      tierChains c own (Address.size_tier a) := (mem_tierChains c own _ _).mpr ⟨a, ha, rfl, rfl⟩
  obtain ⟨h1, _, h3⟩ := hF.chain_facts _ hm
  have hhead := chainOf_head (c.tables (Address.size_tier a)) (Address.offset a) h3
  have hne := IsChain_ne_nil _ _ h1
  have hin : Address.offset a ∈ F ++ (tierChains c own (Address.size_tier a)).flatten :=
    List.mem_append_right _ (List.mem_flatten.mpr ⟨_, hm, by
      have hh := headD_mem_of_ne_nil _ hne
      rw [hhead] at hh; exact hh⟩)
  have := (hF.range _ hin).1
  have hd := Refine.addr_decomp a
  omega

theorem insertAtL_length {α : Type} (l : List α) (i : Nat) (x : α) :
    (insertAtL l i x).length = l.length + 1 := by
  unfold insertAtL
  simp only [List.length_append, List.length_cons, List.length_take, List.length_drop]
  omega

theorem mem_insertAtL {α : Type} (l : List α) (i : Nat) (x y : α) (h : y ∈ insertAtL l i x) :
    y = x ∨ y ∈ l := by
  unfold insertAtL at h
  rcases List.mem_append.mp h with h | h
  · exact Or.inr (List.mem_of_mem_take h)
  · rcases List.mem_cons.mp h with h | h
    · exact Or.inl h
    · exact Or.inr (List.mem_of_mem_drop h)

theorem insertAtL_perm {α : Type} (l : List α) (i : Nat) (x : α) : (insertAtL l i x).Perm (x :: l) := by
  unfold insertAtL
  have := (List.perm_middle (a := x) (l₁ := l.take i) (l₂ := l.drop i))
  rw [List.take_append_drop] at this
  exact this

/-- the abstract side: the one-change transaction on a root leaf with room -/
theorem applyChanges_root_leaf (seps : List (Key × Nat)) (k : Key) (va : Nat)
    (hk : (C04.position seps k).1 = false) (hlen : seps.length < C04.ORDER) :
    (C04.applyChanges (⟨.mk seps [], 0⟩ : C04.Tree Nat) [.set k va]).1 =
      ⟨.mk (insertAtL seps (C04.position seps k).2 (k, va)) [], 0⟩ := by
  have hne : seps.length ≠ C04.ORDER := by omega
  simp [C04.applyChanges, C04.stableSort, C04.insertFront, C04.dedupLast, C04.applyList, C04.applyOne,
    C04.change, C04.Op.key, C04.Node.seps, C04.Node.children, hk, C04.insertSep, hne, C04.insertAt,
    insertAtL]

/-- The offset space (56 bits) is not exhausted by the writes of the transaction: for every column
`c1` with the configuration of `c` whose fill marks exceed those of `c` by at most `pv` slots, the
leaf `mk va` and the header fit (the three bounds `root_leaf_writeBack` asks for). -/
def SpaceOk (cp : Cmp) (c : PCol) (pv : Nat) (mk : Nat → C04.RawNode) : Prop :=
  ∀ (c1 : PCol) (va : Nat), c1.rc = c.rc → (∀ tier, SameCfg (c.tables tier) (c1.tables tier)) →
    (∀ tier, (c1.tables tier).filled ≤ (c.tables tier).filled + pv) →
    (∀ tier, (c1.tables tier).filled ≤ 2 ^ 64) ∧
    (c1.tables (newTier noCompression c1 (C04.encodeNode (mk va)))).filled +
      numParts (c1.tables (newTier noCompression c1 (C04.encodeNode (mk va)))) .noHash
        (storedForm noCompression.cmp noCompression.threshold (C04.encodeNode (mk va))).1 ≤ 2 ^ 56 ∧
    ∀ r, (c1.tables 0).filled +
      numParts (c1.tables (newTier noCompression c1 (C04.encodeNode (mk va)))) .noHash
        (storedForm noCompression.cmp noCompression.threshold (C04.encodeNode (mk va))).1 +
      numParts (c1.tables 0) .noHash (storedForm cp.cmp cp.threshold (headerBytes r 0)).1 ≤ 2 ^ 56

/-- WHOLE TRANSACTION `Set(k, v)`, `k` ABSENT, the tree is a root leaf with room (header depth 0,
at least one and fewer than `ORDER` separators): value entry written, leaf written back in place
or to a new address, header rewritten if it moved - in the order of `write_sorted_changes`.  The
joint invariant holds for the tree of the abstract `write_plan` (`C04.applyChanges`). -/
theorem tx_insert_root_leaf (decomp : Bytes → Option Bytes) (cp : Cmp) (c : PCol) (t : C04.Tree Nat)
    (k : Key) (v : Bytes)
    (hcfg : ∀ tier, SameCfg (tableOfTier c.rc tier) (c.tables tier))
    (hj : JointInv decomp c t) (hd : t.depth = 0) (hne : t.root.seps ≠ [])
    (hk : (C04.position t.root.seps k).1 = false) (hlen : t.root.seps.length < C04.ORDER)
    (hkl : k.length < 2 ^ 32)
    (hsb : ∀ s ∈ t.root.seps, s.1.length < 2 ^ 32 ∧ s.2 < 2 ^ 64)
    (hdec : ∀ r, decodeEntry decomp (some (storedForm cp.cmp cp.threshold (headerBytes r 0))) =
      .ok (some (headerBytes r 0)))
    (hbv : (c.tables (newTier cp c v)).filled +
      numParts (c.tables (newTier cp c v)) .noHash (storedForm cp.cmp cp.threshold v).1 ≤ 2 ^ 56)
    (hspace : SpaceOk cp c
      (numParts (c.tables (newTier cp c v)) .noHash (storedForm cp.cmp cp.threshold v).1)
      (fun va => ⟨insertAtL t.root.seps (C04.position t.root.seps k).2 (k, va),
        List.replicate (t.root.seps.length + 1) 0⟩)) :
    ∃ c3 va, physInsertAbsent decomp cp c k v = .ok (some c3) ∧
      JointInv decomp c3 (C04.applyChanges t [.set k va]).1 ∧
      (∀ tier, SameCfg (tableOfTier c3.rc tier) (c3.tables tier)) ∧
      entryAt c3 va = .ok (some (storedForm cp.cmp cp.threshold v)) := by
  obtain ⟨habs, hti, hci⟩ := (jointInv_iff decomp c t hcfg).mp hj
  obtain ⟨root, hp, h0, h1⟩ := abs_header decomp c t habs
  rw [hd] at hp h1
  have hr : root ≠ NULL_ADDRESS := by
    intro e
    rw [h0 e] at hne
    exact hne rfl
  obtain ⟨n, hfn, hz, htr⟩ := absNode_zero (h1 hr)
  have hshape := fetchNode_shape hfn
  obtain ⟨ns, nc⟩ := n
  simp only at hz htr hshape
  have hnc : nc = List.replicate (ns.length + 1) 0 := by
    apply List.eq_replicate_iff.mpr
    refine ⟨hshape.2.1, fun x hx => ?_⟩
    have := List.all_eq_true.mp hz x hx
    simpa using this
  subst hnc
  -- the tree is the decoded root leaf
  obtain ⟨troot, tdepth⟩ := t
  simp only at hd htr hne hk hlen hsb h0 h1 hp
  subst hd
  subst htr
  simp only [C04.Node.seps] at hne hk hlen hsb hspace
  generalize hi : (C04.position ns k).2 = i at hspace
  have hrootNodes : rootNodes decomp c = [root] := by
    unfold rootNodes; rw [hp]; simp only [if_neg hr, reachNodes]
  have hown : owners decomp c ⟨.mk ns [], 0⟩ = HEADER_ADDRESS :: root :: ns.map (·.2) := by
    unfold owners valAddrs C04.Tree.toList
    rw [hrootNodes]
    simp [C04.toList, C04.Node.seps]
  rw [hown] at hci
  -- step 1: the value
  obtain ⟨c1, va, hw1, hrd1, _, hinv1, hfr1, hrc1, hva_lt, hfl1⟩ :=
    step_insert cp c _ v hci hbv
  have hva_pos : 0 < va := hinv1.addr_pos va List.mem_cons_self
  have hperm1 : (va :: HEADER_ADDRESS :: root :: ns.map (·.2)).Perm
      (root :: HEADER_ADDRESS :: va :: ns.map (·.2)) := by
    have p1 : (va :: HEADER_ADDRESS :: root :: ns.map (·.2)).Perm
        (HEADER_ADDRESS :: va :: root :: ns.map (·.2)) := List.Perm.swap _ _ _
    have p2 : (HEADER_ADDRESS :: va :: root :: ns.map (·.2)).Perm
        (HEADER_ADDRESS :: root :: va :: ns.map (·.2)) := (List.Perm.swap _ _ _).cons _
    have p3 : (HEADER_ADDRESS :: root :: va :: ns.map (·.2)).Perm
        (root :: HEADER_ADDRESS :: va :: ns.map (·.2)) := List.Perm.swap _ _ _
    exact (p1.trans p2).trans p3
  have hci1 := hinv1.perm hperm1
  have hhdr1 : physHeader decomp c1 = .ok (root, 0) := by
    rw [physHeader_congr (hfr1 HEADER_ADDRESS List.mem_cons_self)]; exact hp
  -- step 2: the leaf (and the header)
  have hl : LeafOk ⟨insertAtL ns i (k, va), List.replicate (ns.length + 1) 0⟩ := by
    refine ⟨by rw [insertAtL_length]; exact hlen, ?_, ?_⟩
    · intro s hs
      rcases mem_insertAtL _ _ _ _ hs with rfl | hs
      · exact ⟨hkl, hva_pos, hva_lt⟩
      · exact ⟨(hsb s hs).1, hshape.2.2 s hs, (hsb s hs).2⟩
    · intro x hx
      exact (List.mem_replicate.mp hx).2
  have hsp := hspace c1 va hrc1
    (fun tier => sameCfg_of_tier hrc1 tier (hcfg tier) (hinv1.cfg tier)) hfl1
  obtain ⟨c2, r, c3, root', e1, e2, _, hh3, ha3, hinv3, hfr3, hrc3⟩ :=
    root_leaf_writeBack decomp cp c1 root (va :: ns.map (·.2)) _ hl hci1 hhdr1 hdec
      (hsp.1 _) hsp.2.1 hsp.2.2
  have hroot'_pos : root' ≠ NULL_ADDRESS := by
    have := hinv3.addr_pos root' List.mem_cons_self
    unfold NULL_ADDRESS; omega
  -- the abstract transaction
  have htree := applyChanges_root_leaf ns k va hk hlen
  rw [hi] at htree
  have hti' := (C04.C04_change_refines (⟨.mk ns [], 0⟩ : C04.Tree Nat) [.set k va] hti).2.2
  have habs3 : absTree decomp c3 = some ⟨.mk (insertAtL ns i (k, va)) [], 0⟩ := by
    unfold absTree
    rw [hh3]
    simp only [if_neg hroot'_pos, ha3, Option.map_some]
  have hrootNodes3 : rootNodes decomp c3 = [root'] := by
    unfold rootNodes; rw [hh3]; simp only [if_neg hroot'_pos, reachNodes]
  have hown3 : owners decomp c3 ⟨.mk (insertAtL ns i (k, va)) [], 0⟩ =
      HEADER_ADDRESS :: root' :: (insertAtL ns i (k, va)).map (·.2) := by
    unfold owners valAddrs C04.Tree.toList
    rw [hrootNodes3]
    simp [C04.toList, C04.Node.seps]
  have hperm3 : (root' :: HEADER_ADDRESS :: va :: ns.map (·.2)).Perm
      (HEADER_ADDRESS :: root' :: (insertAtL ns i (k, va)).map (·.2)) := by
    have p1 : (root' :: HEADER_ADDRESS :: va :: ns.map (·.2)).Perm
        (HEADER_ADDRESS :: root' :: va :: ns.map (·.2)) := List.Perm.swap _ _ _
    have p2 : ((insertAtL ns i (k, va)).map (·.2)).Perm (va :: ns.map (·.2)) :=
      (insertAtL_perm ns i (k, va)).map _
    exact p1.trans ((p2.symm.cons _).cons _)
  refine ⟨c3, va, ?_, ?_, hinv3.cfg, ?_⟩
  · have hw1' : physWriteValue cp c none v = .ok (c1, some va) := by
      unfold physWriteValue; simp only [hw1]
    have hpath : physPath decomp c 0 root ⟨ns, List.replicate (ns.length + 1) 0⟩ k =
        .ok (some ([(root, ⟨ns, List.replicate (ns.length + 1) 0⟩, i)], false)) := by
      rw [physPath]; simp only [hk, hi]
    have hcond : ¬ ((false = true) ∨ C04.ORDER ≤ ns.length ∨ [(root, (⟨ns, List.replicate (ns.length + 1) 0⟩ : C04.RawNode), i)].length ≠ 0 + 1) := by
      simp; omega
    unfold physInsertAbsent
    simp only [hp, if_neg hr, hfn, hpath, List.reverse_singleton, if_neg hcond, hw1', e1, e2]
  · rw [htree]
    refine (jointInv_iff decomp c3 _ hinv3.cfg).mpr ⟨habs3, ?_, ?_⟩
    · rw [← htree]; exact hti'
    · rw [hown3]; exact hinv3.perm hperm3
  · rw [hfr3 va List.mem_cons_self]; exact hrd1

/-! ## removal of a key from a root leaf that keeps `ORDER/2` separators -/

theorem eraseIdx_perm {α : Type} : ∀ (l : List α) (i : Nat) (x : α), l[i]? = some x →
    l.Perm (x :: l.eraseIdx i) := by
  intro l
  induction l with
  | nil => intro i x h; simp at h
  | cons a r ih =>
    intro i x h
    cases i with
    | zero =>
      simp at h
      subst h
      simp
    | succ i =>
      simp at h
      have := ih i x h
      simp only [List.eraseIdx_cons_succ]
      exact (this.cons a).trans (List.Perm.swap _ _ _)

theorem applyChanges_root_leaf_del (seps : List (Key × Nat)) (k : Key)
    (hk : (C04.position seps k).1 = true) (hlen : C04.MIDDLE < seps.length)
    (hi : (C04.position seps k).2 < seps.length) :
    (C04.applyChanges (⟨.mk seps [], 0⟩ : C04.Tree Nat) [.del k]).1 =
      ⟨.mk (seps.eraseIdx (C04.position seps k).2) [], 0⟩ := by
  have hnr : ¬ (seps.eraseIdx (C04.position seps k).2).length < C04.MIDDLE := by
    rw [List.length_eraseIdx, if_pos hi]; omega
  simp [C04.applyChanges, C04.stableSort, C04.insertFront, C04.dedupLast, C04.applyList, C04.applyOne,
    C04.change, C04.Op.key, C04.Node.seps, C04.Node.children, hk, C04.needRebalance, hnr]

/-- WHOLE TRANSACTION `Dereference(k)` (column not ref-counted), `k` held by a root leaf (header
depth 0) that keeps at least `ORDER/2` separators: value entry freed, leaf written back in place or
to a new address, header rewritten if it moved. -/
theorem tx_remove_root_leaf (decomp : Bytes → Option Bytes) (cp : Cmp) (c : PCol) (t : C04.Tree Nat)
    (k : Key)
    (hcfg : ∀ tier, SameCfg (tableOfTier c.rc tier) (c.tables tier))
    (hj : JointInv decomp c t) (hd : t.depth = 0)
    (hk : (C04.position t.root.seps k).1 = true) (hlen : C04.MIDDLE < t.root.seps.length)
    (hsb : ∀ s ∈ t.root.seps, s.1.length < 2 ^ 32 ∧ s.2 < 2 ^ 64)
    (hdec : ∀ r, decodeEntry decomp (some (storedForm cp.cmp cp.threshold (headerBytes r 0))) =
      .ok (some (headerBytes r 0)))
    (hspace : SpaceOk cp c 0
      (fun _ => ⟨t.root.seps.eraseIdx (C04.position t.root.seps k).2,
        List.replicate (t.root.seps.length + 1) 0⟩)) :
    ∃ c3, physRemoveLeafKey decomp cp c k = .ok (some c3) ∧
      JointInv decomp c3 (C04.applyChanges t [.del k]).1 ∧
      (∀ tier, SameCfg (tableOfTier c3.rc tier) (c3.tables tier)) := by
  obtain ⟨habs, hti, hci⟩ := (jointInv_iff decomp c t hcfg).mp hj
  obtain ⟨root, hp, h0, h1⟩ := abs_header decomp c t habs
  rw [hd] at hp h1
  have hr : root ≠ NULL_ADDRESS := by
    intro e
    rw [h0 e] at hlen
    simp [C04.Node.empty, C04.Node.seps] at hlen
  obtain ⟨n, hfn, hz, htr⟩ := absNode_zero (h1 hr)
  have hshape := fetchNode_shape hfn
  obtain ⟨ns, nc⟩ := n
  simp only at hz htr hshape
  have hnc : nc = List.replicate (ns.length + 1) 0 := by
    apply List.eq_replicate_iff.mpr
    refine ⟨hshape.2.1, fun x hx => ?_⟩
    have := List.all_eq_true.mp hz x hx
    simpa using this
  subst hnc
  obtain ⟨troot, tdepth⟩ := t
  simp only at hd htr hk hlen hsb h0 h1 hp
  subst hd
  subst htr
  simp only [C04.Node.seps] at hk hlen hsb hspace
  -- the separator found
  have hpos := C04.position_spec (seps := ns) ((C04.treeInvB_iff _).mp hti).1.2 k
  obtain ⟨vv, hdrop⟩ := hpos.2.2.1 hk
  generalize hi : (C04.position ns k).2 = i at hspace hdrop hpos
  have hget : ns[i]? = some (k, vv) := by
    have : (ns.drop i)[0]? = some (k, vv) := by rw [hdrop]; rfl
    rw [List.getElem?_drop] at this
    simpa using this
  have hilt : i < ns.length := by
    rcases Nat.lt_or_ge i ns.length with h | h
    · exact h
    · rw [List.getElem?_eq_none_iff.mpr h] at hget; exact absurd hget (by simp)
  have hrootNodes : rootNodes decomp c = [root] := by
    unfold rootNodes; rw [hp]; simp only [if_neg hr, reachNodes]
  have hown : owners decomp c ⟨.mk ns [], 0⟩ = HEADER_ADDRESS :: root :: ns.map (·.2) := by
    unfold owners valAddrs C04.Tree.toList
    rw [hrootNodes]
    simp [C04.toList, C04.Node.seps]
  rw [hown] at hci
  -- step 1: the value entry is freed
  have hpv : (ns.map (·.2)).Perm (vv :: (ns.eraseIdx i).map (·.2)) := by
    have := (eraseIdx_perm ns i (k, vv) hget).map (·.2)
    simpa using this
  have hperm0 : (HEADER_ADDRESS :: root :: ns.map (·.2)).Perm
      (vv :: root :: HEADER_ADDRESS :: (ns.eraseIdx i).map (·.2)) := by
    have p1 : (HEADER_ADDRESS :: root :: ns.map (·.2)).Perm
        (HEADER_ADDRESS :: root :: vv :: (ns.eraseIdx i).map (·.2)) := (hpv.cons _).cons _
    have p2 : (HEADER_ADDRESS :: root :: vv :: (ns.eraseIdx i).map (·.2)).Perm
        (HEADER_ADDRESS :: vv :: root :: (ns.eraseIdx i).map (·.2)) := (List.Perm.swap _ _ _).cons _
    have p3 : (HEADER_ADDRESS :: vv :: root :: (ns.eraseIdx i).map (·.2)).Perm
        (vv :: HEADER_ADDRESS :: root :: (ns.eraseIdx i).map (·.2)) := List.Perm.swap _ _ _
    have p4 : (vv :: HEADER_ADDRESS :: root :: (ns.eraseIdx i).map (·.2)).Perm
        (vv :: root :: HEADER_ADDRESS :: (ns.eraseIdx i).map (·.2)) := (List.Perm.swap _ _ _).cons _
    exact ((p1.trans p2).trans p3).trans p4
  have hci0 := hci.perm hperm0
  have hsp0 := hspace c 0 rfl (fun tier => SameCfg.refl _) (fun tier => by omega)
  obtain ⟨c1, hrm, hinv1, hfr1, hrc1, hfl1, _⟩ := step_remove c vv _ hci0 (hsp0.1 _)
  have hhdr1 : physHeader decomp c1 = .ok (root, 0) := by
    rw [physHeader_congr (hfr1 HEADER_ADDRESS (by simp))]; exact hp
  -- step 2: the leaf (and the header)
  have hl : LeafOk ⟨ns.eraseIdx i, List.replicate (ns.length + 1) 0⟩ := by
    refine ⟨by rw [List.length_eraseIdx, if_pos hilt]; have := hshape.1; omega, ?_, ?_⟩
    · intro s hs
      have hs' := List.mem_of_mem_eraseIdx hs
      exact ⟨(hsb s hs').1, hshape.2.2 s hs', (hsb s hs').2⟩
    · intro x hx
      exact (List.mem_replicate.mp hx).2
  have hsp := hspace c1 0 hrc1
    (fun tier => sameCfg_of_tier hrc1 tier (hcfg tier) (hinv1.cfg tier))
    (fun tier => by rw [hfl1 tier]; omega)
  obtain ⟨c2, r, c3, root', e1, e2, _, hh3, ha3, hinv3, hfr3, hrc3⟩ :=
    root_leaf_writeBack decomp cp c1 root ((ns.eraseIdx i).map (·.2)) _ hl hinv1 hhdr1 hdec
      (hsp.1 _) hsp.2.1 hsp.2.2
  have hroot'_pos : root' ≠ NULL_ADDRESS := by
    have := hinv3.addr_pos root' List.mem_cons_self
    unfold NULL_ADDRESS; omega
  have htree := applyChanges_root_leaf_del ns k hk hlen (by rw [hi]; exact hilt)
  rw [hi] at htree
  have hti' := (C04.C04_change_refines (⟨.mk ns [], 0⟩ : C04.Tree Nat) [.del k] hti).2.2
  have habs3 : absTree decomp c3 = some ⟨.mk (ns.eraseIdx i) [], 0⟩ := by
    unfold absTree
    rw [hh3]
    simp only [if_neg hroot'_pos, ha3, Option.map_some]
  have hrootNodes3 : rootNodes decomp c3 = [root'] := by
    unfold rootNodes; rw [hh3]; simp only [if_neg hroot'_pos, reachNodes]
  have hown3 : owners decomp c3 ⟨.mk (ns.eraseIdx i) [], 0⟩ =
      HEADER_ADDRESS :: root' :: (ns.eraseIdx i).map (·.2) := by
    unfold owners valAddrs C04.Tree.toList
    rw [hrootNodes3]
    simp [C04.toList, C04.Node.seps]
  refine ⟨c3, ?_, ?_, hinv3.cfg⟩
  · have hpath : physPath decomp c 0 root ⟨ns, List.replicate (ns.length + 1) 0⟩ k =
        .ok (some ([(root, ⟨ns, List.replicate (ns.length + 1) 0⟩, i)], true)) := by
      rw [physPath]; simp only [hk, hi]
    have hcond : ¬ ((true = false) ∨ ns.length ≤ C04.MIDDLE ∨ [(root, (⟨ns, List.replicate (ns.length + 1) 0⟩ : C04.RawNode), i)].length ≠ 0 + 1) := by
      simp; omega
    unfold physRemoveLeafKey
    simp only [hp, if_neg hr, hfn, hpath, List.reverse_singleton, if_neg hcond, hget, hrm, e1, e2]
  · rw [htree]
    refine (jointInv_iff decomp c3 _ hinv3.cfg).mpr ⟨habs3, ?_, ?_⟩
    · rw [← htree]; exact hti'
    · rw [hown3]; exact hinv3.perm (List.Perm.swap _ _ _)

/-! ## a value of a root leaf that moves to another tier -/

theorem writeSeparator_length (key : List Nat) (a b : Nat) :
    (C04.writeSeparator key a).length = (C04.writeSeparator key b).length := by
  unfold C04.writeSeparator
  simp [C04.leBytes_length]

theorem layoutFrom_length (n m : C04.RawNode) : ∀ (l l' : List (Key × Nat)) (j : Nat),
    l.map (·.1) = l'.map (·.1) →
    (C04.layoutFrom n l j).length = (C04.layoutFrom m l' j).length := by
  intro l
  induction l with
  | nil =>
    intro l' j h
    cases l' with
    | nil => rfl
    | cons a r => simp at h
  | cons a r ih =>
    intro l' j h
    cases l' with
    | nil => simp at h
    | cons b r' =>
      simp only [List.map_cons, List.cons.injEq] at h
      simp only [C04.layoutFrom, List.length_append, C04.writeChildIndex_length]
      rw [ih r' (j + 1) h.2]
      have : (C04.writeSeparator a.1 a.2).length = (C04.writeSeparator b.1 b.2).length := by
        rw [h.1]; exact writeSeparator_length _ _ _
      omega

/-- the length of a node's encoding depends on the keys only -/
theorem encodeNode_length_keys (n m : C04.RawNode) (hn : n.seps.length ≤ C04.ORDER)
    (h : n.seps.map (·.1) = m.seps.map (·.1)) :
    (C04.encodeNode n).length = (C04.encodeNode m).length := by
  have hm : m.seps.length ≤ C04.ORDER := by
    have := congrArg List.length h
    simp at this; omega
  rw [C04.encodeNode_layout n hn, C04.encodeNode_layout m hm]
  simp only [C04.nodeLayout, List.length_append, C04.writeChildIndex_length]
  rw [layoutFrom_length n m n.seps m.seps 0 h]

theorem newTier_node_length (c c' : PCol) (hrc : c'.rc = c.rc) (a b : Bytes) (h : a.length = b.length) :
    newTier noCompression c' a = newTier noCompression c b := by
  unfold newTier
  rw [node_stored, node_stored, hrc, h]

theorem set_perm {α : Type} : ∀ (l : List α) (i : Nat) (x y : α), l[i]? = some x →
    (l.set i y).Perm (y :: l.eraseIdx i) := by
  intro l
  induction l with
  | nil => intro i x y h; simp at h
  | cons a r ih =>
    intro i x y h
    cases i with
    | zero => simp
    | succ i =>
      simp at h
      simp only [List.set_cons_succ, List.eraseIdx_cons_succ]
      exact ((ih i x y h).cons a).trans (List.Perm.swap _ _ _)

theorem applyChanges_root_leaf_set (seps : List (Key × Nat)) (k : Key) (va : Nat)
    (hk : (C04.position seps k).1 = true) :
    (C04.applyChanges (⟨.mk seps [], 0⟩ : C04.Tree Nat) [.set k va]).1 =
      ⟨.mk (seps.set (C04.position seps k).2 (k, va)) [], 0⟩ := by
  simp [C04.applyChanges, C04.stableSort, C04.insertFront, C04.dedupLast, C04.applyList, C04.applyOne,
    C04.change, C04.Op.key, C04.Node.seps, C04.Node.children, hk]

/-- WHOLE TRANSACTION `Set(k, v)`, `k` held by a root leaf (header depth 0), the new stored form
goes to ANOTHER tier than the old value entry: the old entry is freed, the value gets a new address,
the leaf is rewritten at its address with the new address in the separator (its encoding keeps its
length, `encodeNode_length_keys`, hence its tier).  `hroot`: the root entry sits in the tier of the
re-encoding of the node it decodes to (what `write_node_plan` established; `enc=same` for every
real node in the harness). -/
theorem tx_move_root_leaf (decomp : Bytes → Option Bytes) (cp : Cmp) (c : PCol) (t : C04.Tree Nat)
    (k : Key) (v : Bytes)
    (hcfg : ∀ tier, SameCfg (tableOfTier c.rc tier) (c.tables tier))
    (hj : JointInv decomp c t) (hd : t.depth = 0)
    (hk : (C04.position t.root.seps k).1 = true)
    (hτv : ∀ x, t.root.seps[(C04.position t.root.seps k).2]? = some (k, x) →
      Address.size_tier x ≠ newTier cp c v)
    (hsb : ∀ s ∈ t.root.seps, s.1.length < 2 ^ 32 ∧ s.2 < 2 ^ 64)
    (hroot : ∀ root n, root ∈ rootNodes decomp c → fetchNode decomp c root = .ok n →
      Address.size_tier root = newTier noCompression c (C04.encodeNode n))
    (hbv : (c.tables (newTier cp c v)).filled +
      numParts (c.tables (newTier cp c v)) .noHash (storedForm cp.cmp cp.threshold v).1 ≤ 2 ^ 56)
    (hspace : SpaceOk cp c
      (numParts (c.tables (newTier cp c v)) .noHash (storedForm cp.cmp cp.threshold v).1)
      (fun va' => ⟨t.root.seps.set (C04.position t.root.seps k).2 (k, va'),
        List.replicate (t.root.seps.length + 1) 0⟩)) :
    ∃ c2 va', physSetExisting decomp cp c k v = .ok (some (c2, true)) ∧
      JointInv decomp c2 (C04.applyChanges t [.set k va']).1 ∧
      (∀ tier, SameCfg (tableOfTier c2.rc tier) (c2.tables tier)) ∧
      entryAt c2 va' = .ok (some (storedForm cp.cmp cp.threshold v)) := by
  obtain ⟨habs, hti, hci⟩ := (jointInv_iff decomp c t hcfg).mp hj
  obtain ⟨root, hp, h0, h1⟩ := abs_header decomp c t habs
  rw [hd] at hp h1
  have hr : root ≠ NULL_ADDRESS := by
    intro e
    rw [h0 e] at hk
    simp [C04.Node.empty, C04.Node.seps, C04.position] at hk
  obtain ⟨n, hfn, hz, htr⟩ := absNode_zero (h1 hr)
  have hshape := fetchNode_shape hfn
  obtain ⟨ns, nc⟩ := n
  simp only at hz htr hshape
  have hnc : nc = List.replicate (ns.length + 1) 0 := by
    apply List.eq_replicate_iff.mpr
    refine ⟨hshape.2.1, fun x hx => ?_⟩
    have := List.all_eq_true.mp hz x hx
    simpa using this
  subst hnc
  obtain ⟨troot, tdepth⟩ := t
  simp only at hd htr hk hτv hsb h0 h1 hp
  subst hd
  subst htr
  simp only [C04.Node.seps] at hk hτv hsb hspace
  have hpos := C04.position_spec (seps := ns) ((C04.treeInvB_iff _).mp hti).1.2 k
  obtain ⟨vv, hdrop⟩ := hpos.2.2.1 hk
  generalize hi : (C04.position ns k).2 = i at hspace hdrop hpos hτv
  have hget : ns[i]? = some (k, vv) := by
    have : (ns.drop i)[0]? = some (k, vv) := by rw [hdrop]; rfl
    rw [List.getElem?_drop] at this
    simpa using this
  have hrootNodes : rootNodes decomp c = [root] := by
    unfold rootNodes; rw [hp]; simp only [if_neg hr, reachNodes]
  have hown : owners decomp c ⟨.mk ns [], 0⟩ = HEADER_ADDRESS :: root :: ns.map (·.2) := by
    unfold owners valAddrs C04.Tree.toList
    rw [hrootNodes]
    simp [C04.toList, C04.Node.seps]
  rw [hown] at hci
  have hτroot := hroot root _ (by rw [hrootNodes]; simp) hfn
  -- step 1: the value moves
  have hpv : (ns.map (·.2)).Perm (vv :: (ns.eraseIdx i).map (·.2)) := by
    have := (eraseIdx_perm ns i (k, vv) hget).map (·.2)
    simpa using this
  have hperm0 : (HEADER_ADDRESS :: root :: ns.map (·.2)).Perm
      (vv :: HEADER_ADDRESS :: root :: (ns.eraseIdx i).map (·.2)) := by
    have p1 : (HEADER_ADDRESS :: root :: ns.map (·.2)).Perm
        (HEADER_ADDRESS :: root :: vv :: (ns.eraseIdx i).map (·.2)) := (hpv.cons _).cons _
    have p2 : (HEADER_ADDRESS :: root :: vv :: (ns.eraseIdx i).map (·.2)).Perm
        (HEADER_ADDRESS :: vv :: root :: (ns.eraseIdx i).map (·.2)) := (List.Perm.swap _ _ _).cons _
    have p3 : (HEADER_ADDRESS :: vv :: root :: (ns.eraseIdx i).map (·.2)).Perm
        (vv :: HEADER_ADDRESS :: root :: (ns.eraseIdx i).map (·.2)) := List.Perm.swap _ _ _
    exact (p1.trans p2).trans p3
  have hci0 := hci.perm hperm0
  have hsp0 := hspace c 0 rfl (fun tier => SameCfg.refl _) (fun tier => by omega)
  obtain ⟨c1, va', hw1, hrd1, _, hinv1, hfr1, hrc1, hlt, hfl1⟩ :=
    step_move cp c vv _ v hci0 (hτv vv hget) (hsp0.1 _) hbv
  have hva_pos : 0 < va' := hinv1.addr_pos va' List.mem_cons_self
  have hperm1 : (va' :: HEADER_ADDRESS :: root :: (ns.eraseIdx i).map (·.2)).Perm
      (root :: va' :: HEADER_ADDRESS :: (ns.eraseIdx i).map (·.2)) := by
    have q1 : (va' :: HEADER_ADDRESS :: root :: (ns.eraseIdx i).map (·.2)).Perm
        (va' :: root :: HEADER_ADDRESS :: (ns.eraseIdx i).map (·.2)) := (List.Perm.swap _ _ _).cons _
    exact q1.trans (List.Perm.swap _ _ _)
  have hci1 := hinv1.perm hperm1
  -- step 2: the leaf, in place
  have hl : LeafOk ⟨ns.set i (k, va'), List.replicate (ns.length + 1) 0⟩ := by
    refine ⟨by rw [List.length_set]; exact hshape.1, ?_, ?_⟩
    · intro s hs
      rcases List.mem_or_eq_of_mem_set hs with hs | rfl
      · exact ⟨(hsb s hs).1, hshape.2.2 s hs, (hsb s hs).2⟩
      · exact ⟨(hsb _ (List.mem_of_getElem? hget)).1, hva_pos, hlt⟩
    · intro x hx
      exact (List.mem_replicate.mp hx).2
  have hkeys : (ns.set i (k, va')).map (·.1) = ns.map (·.1) := by
    rw [List.map_set]
    apply set_self
    rw [List.getElem?_map, hget]; rfl
  have hτn : Address.size_tier root = newTier noCompression c1
      (C04.encodeNode ⟨ns.set i (k, va'), List.replicate (ns.length + 1) 0⟩) := by
    rw [hτroot]
    exact (newTier_node_length c c1 hrc1 _ _
      (encodeNode_length_keys ⟨ns.set i (k, va'), List.replicate (ns.length + 1) 0⟩
        ⟨ns, List.replicate (ns.length + 1) 0⟩ hl.len hkeys)).symm
  have hsp := hspace c1 va' hrc1
    (fun tier => sameCfg_of_tier hrc1 tier (hcfg tier) (hinv1.cfg tier)) hfl1
  obtain ⟨c2, hw2, hrd2, hinv2, hfr2, hrc2, _⟩ :=
    step_replace noCompression c1 root _ _ hci1 hτn hsp.2.1
  have hh2 : physHeader decomp c2 = .ok (root, 0) := by
    rw [physHeader_congr (hfr2 HEADER_ADDRESS (by simp)),
      physHeader_congr (hfr1 HEADER_ADDRESS (by simp))]
    exact hp
  have ha2 := leaf_fetch decomp c2 root _ hl hrd2
  have htree := applyChanges_root_leaf_set ns k va' hk
  rw [hi] at htree
  have hti' := (C04.C04_change_refines (⟨.mk ns [], 0⟩ : C04.Tree Nat) [.set k va'] hti).2.2
  have habs2 : absTree decomp c2 = some ⟨.mk (ns.set i (k, va')) [], 0⟩ := by
    unfold absTree
    rw [hh2]
    simp only [if_neg hr, ha2, Option.map_some]
  have hrootNodes2 : rootNodes decomp c2 = [root] := by
    unfold rootNodes; rw [hh2]; simp only [if_neg hr, reachNodes]
  have hown2 : owners decomp c2 ⟨.mk (ns.set i (k, va')) [], 0⟩ =
      HEADER_ADDRESS :: root :: (ns.set i (k, va')).map (·.2) := by
    unfold owners valAddrs C04.Tree.toList
    rw [hrootNodes2]
    simp [C04.toList, C04.Node.seps]
  have hperm2 : (root :: va' :: HEADER_ADDRESS :: (ns.eraseIdx i).map (·.2)).Perm
      (HEADER_ADDRESS :: root :: (ns.set i (k, va')).map (·.2)) := by
    have r1 : (root :: va' :: HEADER_ADDRESS :: (ns.eraseIdx i).map (·.2)).Perm
        (root :: HEADER_ADDRESS :: va' :: (ns.eraseIdx i).map (·.2)) := (List.Perm.swap _ _ _).cons _
    have r2 : (root :: HEADER_ADDRESS :: va' :: (ns.eraseIdx i).map (·.2)).Perm
        (HEADER_ADDRESS :: root :: va' :: (ns.eraseIdx i).map (·.2)) := List.Perm.swap _ _ _
    have r3 : ((ns.set i (k, va')).map (·.2)).Perm (va' :: (ns.eraseIdx i).map (·.2)) := by
      have := (set_perm ns i (k, vv) (k, va') hget).map (·.2)
      simpa using this
    exact (r1.trans r2).trans ((r3.symm.cons _).cons _)
  refine ⟨c2, va', ?_, ?_, hinv2.cfg, ?_⟩
  · obtain ⟨f, hf⟩ : ∃ f, getFuel c 0 = f + 1 := ⟨getFuel c 0 - 1, by unfold getFuel; omega⟩
    have hfind : physFind decomp c (getFuel c 0) root ⟨ns, List.replicate (ns.length + 1) 0⟩ k =
        .ok (some (root, ⟨ns, List.replicate (ns.length + 1) 0⟩, i)) := by
      rw [hf, physFind]; simp only [findStep, hk, hi, if_true]
    have hw1' : physWriteValue cp c (some vv) v = .ok (c1, some va') := hw1
    have hw2' : physWriteNode c1 ⟨ns.set i (k, va'), List.replicate (ns.length + 1) 0⟩ (some root) =
        .ok (c2, none) := hw2
    unfold physSetExisting
    simp only [hp, if_neg hr, hfn, hfind, hget, hw1', Option.getD_some, hw2', Option.isSome_some]
  · rw [htree]
    refine (jointInv_iff decomp c2 _ hinv2.cfg).mpr ⟨habs2, ?_, ?_⟩
    · rw [← htree]; exact hti'
    · rw [hown2]; exact hinv2.perm hperm2
  · rw [hfr2 va' (by simp)]; exact hrd1

end Pdb.BTreePhys
