/-
Preservation of `CInv` by the worker actions and the reader actions.
-/
import Pdb.Proofs.C05Inv

set_option linter.unusedSectionVars false
set_option linter.unusedSimpArgs false
set_option linter.unusedVariables false
namespace Pdb
namespace CRd
variable {K V : Type} [DecidableEq K]

/-! ### pop -/

theorem CInv.pop {kind : K → Kind} {N : Nat} {s : CSt K V} (h : CInv kind N s) :
    CInv kind N (cstep kind N s .pop) := by
  unfold cstep
  cases hi : s.inflight with
  | some x => simpa [hi] using h
  | none =>
    cases hq : s.queue with
    | nil => simpa [hi, hq] using h
    | cons c q =>
      simp only
      have habs : CRd.abs ({ s with inflight := some (c, false), queue := q } : CSt K V) = CRd.abs s := by
        unfold CRd.abs absOverlay pend
        simp [hi, hq]
      have hmem : c ∈ (CRd.abs s).queue := by
        unfold CRd.abs pend; simp [hi, hq]
      constructor
      · rw [habs]; exact h.abs
      · exact h.tbl
      · exact h.posFl
      · intro c' b hc
        simp only [Option.some.injEq, Prod.mk.injEq] at hc
        rw [← hc.1]
        exact h.abs.ids c hmem
      · intro c' hc
        simp at hc
      · intro c' hc
        apply h.valid c'
        simp only [inflAll, hi, hq, List.nil_append]
        simpa [inflAll] using hc
      · intro t
        exact RdOk_congr kind s _ _ rfl rfl (fun r hr => hr) (h.rd t)
      · exact h.rdN
      · intro e he
        exact EvOk_congr kind s _ e rfl (h.evs e he)
      · exact h.mono

/-! ### publish -/

theorem abs_publish {kind : K → Kind} {N : Nat} {s : CSt K V} (h : CInv kind N s)
    (c : Commit K V) (hi : s.inflight = some (c, false)) :
    CRd.abs ({ s with inflight := some (c, true), logged := s.logged ++ [planRec kind (cview s) c.ops] } : CSt K V) =
      Pdb.process kind (CRd.abs s) := by
  rw [cview_eq h]
  have hq : (CRd.abs s).queue = c :: s.queue := by unfold CRd.abs pend; simp [hi]
  have hov : (CRd.abs s).overlay = s.overlay := by unfold CRd.abs absOverlay; simp [hi]
  unfold Pdb.process
  rw [hq]
  simp only
  rw [hov]
  unfold CRd.abs absOverlay pend
  simp

theorem view_process {kind : K → Kind} {s : St K V} (c : Commit K V) (q : List (Commit K V))
    (hq : s.queue = c :: q) : view (Pdb.process kind s) = applyOps kind (view s) c.ops := by
  rw [view_eq]
  unfold Pdb.process
  rw [hq]
  simp only
  rw [applyRecs_snoc, ← view_eq, planRec_apply]

theorem CInv.publish {kind : K → Kind} {N : Nat} {s : CSt K V} (h : CInv kind N s) :
    CInv kind N (cstep kind N s .publish) := by
  unfold cstep
  cases hi : s.inflight with
  | none => simpa [hi] using h
  | some x =>
    obtain ⟨c, b⟩ := x
    cases b with
    | true => simpa [hi] using h
    | false =>
      simp only
      have habs := abs_publish h c hi
      have hq : (CRd.abs s).queue = c :: s.queue := by unfold CRd.abs pend; simp [hi]
      have hov : (CRd.abs s).overlay = s.overlay := by unfold CRd.abs absOverlay; simp [hi]
      have hovk : ∀ k, s.overlay k =
          (lastW (queueW kind s.queue) k).or (lastW (opsW kind c.id c.ops) k) := by
        intro k
        have := h.abs.ov k
        rw [hov, hq] at this
        have e : queueW kind (c :: s.queue) = opsW kind c.id c.ops ++ queueW kind s.queue := by
          simp [queueW]
        rw [e, lastW_append] at this
        exact this
      have hnod := h.abs.nodup
      rw [hq, List.pairwise_cons] at hnod
      have hvalid : c.ops.all (opValid kind) = true := h.valid c (by simp [inflAll, hi])
      constructor
      · rw [habs]; exact h.abs.process
      · simp only
        cases hl : s.logged with
        | nil =>
          have hf : s.flushed = 0 := by
            have := h.abs.fl
            simp only [CRd.abs, hl, List.length_nil] at this
            omega
          have hp := h.posFl hf
          have ht := h.tbl
          rw [hl, hp] at ht
          rw [hp, ht]
          simp [applyRecPrefix, applyRec]
        | cons r rs =>
          have ht := h.tbl
          rw [hl] at ht
          simpa using ht
      · exact h.posFl
      · intro c' b hc
        simp only [Option.some.injEq, Prod.mk.injEq] at hc
        rw [← hc.1]
        exact h.inflId c false hi
      · intro c' hc k v hk hovv
        simp only [Option.some.injEq, Prod.mk.injEq, and_true] at hc
        subst hc
        simp only at hovv
        rw [habs, view_process c s.queue hq]
        rw [applyOps_plain kind c.id c.ops (view (CRd.abs s)) k hk]
        have := hovk k
        rw [hovv] at this
        cases h2 : lastW (queueW kind s.queue) k with
        | some x =>
          obtain ⟨i, w⟩ := x
          rw [h2] at this
          simp at this
          obtain ⟨c', hc', hid⟩ := queueW_tag kind s.queue k i w h2
          exact absurd (hid.trans this.1.symm).symm (hnod.1 c' hc')
        | none =>
          rw [h2] at this
          simp only [Option.or] at this
          rw [← this]
          rfl
      · intro c' hc
        apply h.valid c'
        simpa [inflAll, hi] using hc
      · intro t
        have hr := h.rd t
        cases hpc : s.readers t with
        | idle => trivial
        | started k q => rw [hpc] at hr; simpa [RdOk] using hr
        | missedOverlay k q => rw [hpc] at hr; simpa [RdOk] using hr
        | done k q res => rw [hpc] at hr; simpa [RdOk] using hr
        | missedLog k q =>
          rw [hpc] at hr
          simp only [RdOk] at hr ⊢
          refine ⟨hr.1, hr.2.1, ?_⟩
          intro hk r hr'
          simp only [List.mem_append, List.mem_singleton] at hr'
          rcases hr' with hr' | hr'
          · exact hr.2.2 hk r hr'
          · subst hr'
            apply lastW_planRec_none
            apply opsW_none_notin kind c.id c.ops k hk hvalid
            have := hovk k
            rw [hr.2.1] at this
            cases h2 : lastW (queueW kind s.queue) k with
            | some x => rw [h2] at this; simp at this
            | none => rw [h2] at this; simp only [Option.or] at this; exact this.symm
      · exact h.rdN
      · intro e he
        exact EvOk_congr kind s _ e rfl (h.evs e he)
      · exact h.mono

/-! ### cleanOverlay -/

theorem CInv.cleanOverlay {kind : K → Kind} {N : Nat} {s : CSt K V} (h : CInv kind N s) :
    CInv kind N (cstep kind N s .cleanOverlay) := by
  unfold cstep
  by_cases hin : inside N s = true
  · simpa [hin] using h
  · simp only [Bool.not_eq_true] at hin
    simp only [hin, Bool.false_eq_true, if_false]
    cases hi : s.inflight with
    | none => simpa [hi] using h
    | some x =>
      obtain ⟨c, b⟩ := x
      cases b with
      | false => simpa [hi] using h
      | true =>
        simp only
        have hidle := all_idle h hin
        have habs : CRd.abs ({ s with inflight := none, overlay := c.ops.foldl (cleanOp c.id) s.overlay } : CSt K V) = CRd.abs s := by
          unfold CRd.abs absOverlay pend
          simp [hi]
        constructor
        · rw [habs]; exact h.abs
        · exact h.tbl
        · exact h.posFl
        · intro c' b hc; simp at hc
        · intro c' hc; simp at hc
        · intro c' hc
          apply h.valid c'
          simp only [inflAll, hi]
          simp only [inflAll, List.nil_append] at hc
          simp [hc]
        · intro t; simp only; rw [hidle t]; trivial
        · intro t ht
          simp only at ht
          rw [hidle t] at ht
          simp [RPc.isIdle] at ht
        · intro e he
          exact EvOk_congr kind s _ e rfl (h.evs e he)
        · exact h.mono

/-! ### flush -/

theorem CInv.flush {kind : K → Kind} {N : Nat} {s : CSt K V} (h : CInv kind N s) :
    CInv kind N (cstep kind N s .flush) := by
  unfold cstep
  have habs : CRd.abs ({ s with flushed := s.logged.length } : CSt K V) = Pdb.flush (CRd.abs s) := rfl
  constructor
  · rw [habs]; exact h.abs.flush
  · exact h.tbl
  · intro hf
    simp only at hf
    apply h.posFl
    have := h.abs.fl
    simp only [CRd.abs] at this
    omega
  · exact h.inflId
  · exact h.stale
  · exact h.valid
  · intro t
    exact RdOk_congr kind s _ _ rfl rfl (fun r hr => hr) (h.rd t)
  · exact h.rdN
  · intro e he
    exact EvOk_congr kind s _ e rfl (h.evs e he)
  · exact h.mono

/-! ### enactWrite -/

theorem CInv.enactWrite {kind : K → Kind} {N : Nat} {s : CSt K V} (h : CInv kind N s) :
    CInv kind N (cstep kind N s .enactWrite) := by
  simp only [cstep]
  split
  · rename_i f r rs hf hl
    split
    · rename_i kc hg
      have habs : CRd.abs ({ s with tables := upd s.tables kc.1 kc.2, enactPos := s.enactPos + 1 } : CSt K V) = CRd.abs s := rfl
      constructor
      · rw [habs]; exact h.abs
      · simp only
        have ht := h.tbl
        rw [hl] at ht ⊢
        simp only [List.headD_cons] at ht
        simp only [List.headD_cons, applyRecPrefix, applyRec]
        rw [List.take_add_one, hg, List.foldl_append]
        simp only [Option.toList_some, List.foldl_cons, List.foldl_nil]
        rw [ht]
        rfl
      · intro hz; simp only at hz; omega
      · exact h.inflId
      · exact h.stale
      · exact h.valid
      · intro t
        exact RdOk_congr kind s _ _ rfl rfl (fun r hr => hr) (h.rd t)
      · exact h.rdN
      · intro e he
        exact EvOk_congr kind s _ e rfl (h.evs e he)
      · exact h.mono
    · exact h
  · exact h

/-! ### endRead -/

theorem CInv.endRead {kind : K → Kind} {N : Nat} {s : CSt K V} (h : CInv kind N s) :
    CInv kind N (cstep kind N s .endRead) := by
  simp only [cstep]
  split
  · rename_i f r rs hf hl
    split
    · rename_i hp
      have ht : s.tables = applyRec s.base r := by
        have := h.tbl
        rw [hl, hp] at this
        simpa [applyRecPrefix] using this
      have habs : CRd.abs ({ s with logged := rs, flushed := f, enactPos := 0, base := s.tables, nEnacted := s.nEnacted + 1 } : CSt K V) = Pdb.enactOne (CRd.abs s) := by
        have h1 : (CRd.abs s).flushed = f + 1 := hf
        have h2 : (CRd.abs s).logged = r :: rs := hl
        unfold Pdb.enactOne
        rw [h1, h2]
        simp only
        unfold CRd.abs absOverlay pend
        simp [ht]
      constructor
      · rw [habs]; exact h.abs.enactOne
      · simp [applyRecPrefix, applyRec]
      · intro _; rfl
      · exact h.inflId
      · intro c hc k v hk hov
        rw [habs, view_enactOne]
        exact h.stale c hc k v hk hov
      · exact h.valid
      · intro t
        exact RdOk_congr kind s _ _ rfl rfl
          (fun r' hr => by rw [hl]; exact List.mem_cons_of_mem _ hr) (h.rd t)
      · exact h.rdN
      · intro e he
        exact EvOk_congr kind s _ e rfl (h.evs e he)
      · exact h.mono
    · exact h
  · exact h

/-! ### reader actions -/

theorem CInv.setReader {kind : K → Kind} {N : Nat} {s : CSt K V} (h : CInv kind N s) (t : Nat)
    (pc : RPc K V) (hpc : RdOk kind s pc) (hN : pc.isIdle = false → t < N) :
    CInv kind N (CRd.setReader s t pc) := by
  have habs : CRd.abs (CRd.setReader s t pc) = CRd.abs s := rfl
  constructor
  · rw [habs]; exact h.abs
  · exact h.tbl
  · exact h.posFl
  · exact h.inflId
  · exact h.stale
  · exact h.valid
  · intro t'
    simp only [CRd.setReader]
    by_cases e : t' = t
    · simp only [e, if_true]
      exact RdOk_congr kind s _ _ rfl rfl (fun r hr => hr) hpc
    · simp only [e, if_false]
      exact RdOk_congr kind s _ _ rfl rfl (fun r hr => hr) (h.rd t')
  · intro t' ht'
    simp only [CRd.setReader] at ht'
    by_cases e : t' = t
    · simp only [e, if_true] at ht'
      rw [e]; exact hN ht'
    · simp only [e, if_false] at ht'
      exact h.rdN t' ht'
  · intro e he
    exact EvOk_congr kind s _ e rfl (h.evs e he)
  · exact h.mono

theorem CInv.addRead {kind : K → Kind} {N : Nat} {s : CSt K V} (h : CInv kind N s)
    (e : ReadEvt K V) (he : EvOk kind s e) (hm : ∀ a ∈ s.reads, a.endSeq ≤ e.startSeq) :
    CInv kind N ({ s with reads := s.reads ++ [e] } : CSt K V) := by
  have habs : CRd.abs ({ s with reads := s.reads ++ [e] } : CSt K V) = CRd.abs s := rfl
  constructor
  · rw [habs]; exact h.abs
  · exact h.tbl
  · exact h.posFl
  · exact h.inflId
  · exact h.stale
  · exact h.valid
  · intro t
    exact RdOk_congr kind s _ _ rfl rfl (fun r hr => hr) (h.rd t)
  · exact h.rdN
  · intro e' he'
    simp only [List.mem_append, List.mem_singleton] at he'
    rcases he' with he' | he'
    · exact EvOk_congr kind s _ e' rfl (h.evs e' he')
    · subst he'; exact EvOk_congr kind s _ _ rfl he
  · simp only
    rw [List.pairwise_append]
    refine ⟨h.mono, by simp, ?_⟩
    intro a ha b hb
    simp only [List.mem_singleton] at hb
    subst hb
    exact hm a ha

theorem absOverlay_none {s : CSt K V} (k : K) (hov : s.overlay k = none) :
    absOverlay s k = none := by
  unfold absOverlay
  cases hi : s.inflight with
  | none => simpa using hov
  | some x =>
    obtain ⟨c, b⟩ := x
    cases b with
    | false => simpa using hov
    | true =>
      simp only
      rw [clean_fold_other c.id c.ops s.overlay k (by intro w; rw [hov]; simp), hov]

/-- A miss in the commit overlay: the view below it is the specification of every accepted
    commit (nothing queued or in flight writes the key). -/
theorem overlay_miss {kind : K → Kind} {N : Nat} {s : CSt K V} (h : CInv kind N s) (k : K)
    (hk : kind k = .plain) (hov : s.overlay k = none) :
    (view (CRd.abs s) k).map Prod.fst = (spec kind s.hist k).map Prod.fst := by
  have hg := h.abs.get_plain k hk
  have : get (CRd.abs s) k = (view (CRd.abs s) k).map Prod.fst := by
    unfold get
    have e : (CRd.abs s).overlay k = none := absOverlay_none k hov
    rw [e]
  rw [← this]
  exact hg

/-- A hit in the commit overlay returns the specification value, even when the entry is the
    stale one of a commit whose record is already published (HandOver). -/
theorem overlay_hit {kind : K → Kind} {N : Nat} {s : CSt K V} (h : CInv kind N s) (k : K)
    (hk : kind k = .plain) (i : Nat) (v : Option V) (hov : s.overlay k = some (i, v)) :
    v = (spec kind s.hist k).map Prod.fst := by
  have hg := h.abs.get_plain k hk
  have hh : (CRd.abs s).hist = s.hist := rfl
  rw [hh] at hg
  rw [← hg]
  unfold get
  have hao : (CRd.abs s).overlay k = absOverlay s k := rfl
  rw [hao]
  unfold absOverlay
  cases hi : s.inflight with
  | none => simp [hov]
  | some x =>
    obtain ⟨c, b⟩ := x
    cases b with
    | false => simp [hov]
    | true =>
      simp only
      rcases clean_fold_cases c.id c.ops s.overlay k with e | e
      · rw [e, hov]
      · rw [e]
        simp only
        by_cases hid : i = c.id
        · subst hid
          exact (h.stale c hi k v hk hov).symm
        · have := clean_fold_other c.id c.ops s.overlay k
            (by intro w; rw [hov]; simp; intro e2; exact absurd e2 hid)
          rw [e, hov] at this
          simp at this

theorem CInv.reader {kind : K → Kind} {N : Nat} {s : CSt K V} (h : CInv kind N s)
    (a : CAct K V)
    (ha : (∃ t k, a = .rBegin t k) ∨ (∃ t, a = .rOverlay t) ∨ (∃ t, a = .rLog t) ∨
      (∃ t, a = .rTable t) ∨ (∃ t, a = .rEnd t)) :
    CInv kind N (cstep kind N s a) := by
  rcases ha with ⟨t, k, rfl⟩ | ⟨t, rfl⟩ | ⟨t, rfl⟩ | ⟨t, rfl⟩ | ⟨t, rfl⟩
  · -- rBegin
    unfold cstep
    by_cases hg : t < N ∧ (s.readers t).isIdle = true
    · simp only [hg, and_self, if_true]
      exact h.setReader t _ (by simp [RdOk]) (fun _ => hg.1)
    · simp only [hg, if_false]; exact h
  · -- rOverlay
    simp only [cstep]
    have hr := h.rd t
    split
    · rename_i k q hpc
      rw [hpc] at hr
      simp only [RdOk] at hr
      have hN : t < N := h.rdN t (by rw [hpc]; rfl)
      split
      · rename_i i v hov
        refine h.setReader t _ ?_ (fun _ => hN)
        simp only [RdOk]
        exact ⟨hr, fun hk => overlay_hit h k hk i v hov⟩
      · rename_i hov
        exact h.setReader t _ (by simp [RdOk, hr, hov]) (fun _ => hN)
    · exact h
  · -- rLog
    simp only [cstep]
    have hr := h.rd t
    split
    · rename_i k q hpc
      rw [hpc] at hr
      simp only [RdOk] at hr
      have hN : t < N := h.rdN t (by rw [hpc]; rfl)
      split
      · rename_i c hl
        refine h.setReader t _ ?_ (fun _ => hN)
        simp only [RdOk]
        refine ⟨hr.1, fun hk => ?_⟩
        rw [← overlay_miss h k hk hr.2]
        show c.map Prod.fst = ((logLookup s.logged k).getD (s.base k)).map Prod.fst
        rw [hl]; rfl
      · rename_i hl
        refine h.setReader t _ ?_ (fun _ => hN)
        simp only [RdOk]
        exact ⟨hr.1, hr.2, fun _ => (logLookup_none_iff s.logged k).mp hl⟩
    · exact h
  · -- rTable
    simp only [cstep]
    have hr := h.rd t
    split
    · rename_i k q hpc
      rw [hpc] at hr
      simp only [RdOk] at hr
      have hN : t < N := h.rdN t (by rw [hpc]; rfl)
      refine h.setReader t _ ?_ (fun _ => hN)
      simp only [RdOk]
      refine ⟨hr.1, fun hk => ?_⟩
      have hl : logLookup s.logged k = none := (logLookup_none_iff s.logged k).mpr (hr.2.2 hk)
      rw [← overlay_miss h k hk hr.2.1]
      show (s.tables k).map Prod.fst = ((logLookup s.logged k).getD (s.base k)).map Prod.fst
      rw [hl, h.tbl, shadow_key s.base s.logged s.enactPos k hl]
      rfl
    · exact h
  · -- rEnd
    simp only [cstep]
    have hr := h.rd t
    split
    · rename_i k q res hpc
      rw [hpc] at hr
      simp only [RdOk] at hr
      have h1 := h.setReader t .idle trivial (by intro hh; simp [RPc.isIdle] at hh)
      exact h1.addRead { tid := t, key := k, result := res, startSeq := q, endSeq := s.hist.length } (by
            simp only [EvOk]
            refine ⟨hr.1, Nat.le_refl _, fun hk => ?_⟩
            rw [hr.1]
            show res = (spec kind (List.take s.hist.length s.hist) k).map Prod.fst
            rw [List.take_length]
            exact hr.2 hk) (by
            intro a ha
            have := h.evs a ha
            simp only [EvOk] at this
            simp only
            omega)
    · exact h

/-! ### every action -/

theorem CInv.step {kind : K → Kind} {N : Nat} {s : CSt K V} (h : CInv kind N s) (a : CAct K V) :
    CInv kind N (cstep kind N s a) := by
  cases a with
  | commit tx => exact h.commit tx
  | pop => exact h.pop
  | publish => exact h.publish
  | cleanOverlay => exact h.cleanOverlay
  | flush => exact h.flush
  | enactWrite => exact h.enactWrite
  | endRead => exact h.endRead
  | rBegin t k => exact h.reader _ (Or.inl ⟨t, k, rfl⟩)
  | rOverlay t => exact h.reader _ (Or.inr (Or.inl ⟨t, rfl⟩))
  | rLog t => exact h.reader _ (Or.inr (Or.inr (Or.inl ⟨t, rfl⟩)))
  | rTable t => exact h.reader _ (Or.inr (Or.inr (Or.inr (Or.inl ⟨t, rfl⟩))))
  | rEnd t => exact h.reader _ (Or.inr (Or.inr (Or.inr (Or.inr ⟨t, rfl⟩))))

theorem CInv.run {kind : K → Kind} {N : Nat} {s : CSt K V} (h : CInv kind N s)
    (as : List (CAct K V)) : CInv kind N (crun kind N s as) := by
  induction as generalizing s with
  | nil => exact h
  | cons a as ih => exact ih (h.step a)

end CRd
end Pdb
