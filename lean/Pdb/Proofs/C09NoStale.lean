/-
C09 / C14 / C20: the global invariant "no stale index entry" (`NoStale`) of the fixed write path
(fix-c09-stale-index-entries, `cfg.purge = true`) - definitions and the table-level lemmas.

`NoStale s`:
  * `live`   every entry of every index table (the current one and every queued older one, whole
             table: also the chunks a reindex batch has already copied) points to a LIVE value slot,
             and the index-visible bits of the entry continue into the stored key tail (bits 15, 14
             of the key prefix are the top two bits of the tail): the key recovered from (page,
             partial key, stored tail) hashes to the page and partial key of the entry;
  * `agree`  all entries, of whatever table, that point to one slot carry the same index-visible
             key bits 63..14: together with the stored tail (bits 15..0 and bytes 8..32) they name
             ONE 256-bit key, the owner of the slot;
  * `uniq`   a table holds at most one entry per (partial key, slot).
-/
import Pdb.Proofs.C09NoStaleBits
import Pdb.Proofs.C09Run

namespace Pdb.Index
open Pdb.Gen Pdb.IndexPage

/-- at most one entry per (page, partial key, address) -/
def Table.Uniq (t : Table) : Prop :=
  ∀ c i j, i < 64 → j < 64 → (t.page c).getD i 0 ≠ 0 → (t.page c).getD j 0 ≠ 0 →
    Entry.partial_key ((t.page c).getD i 0) t.bits = Entry.partial_key ((t.page c).getD j 0) t.bits →
    Entry.address ((t.page c).getD i 0) t.bits = Entry.address ((t.page c).getD j 0) t.bits → i = j

/-- No stale index entry. -/
structure NoStale (s : Col) : Prop where
  live : ∀ t ∈ s.tables, ∀ kp a, kp < 2 ^ 64 → t.Has kp a →
    ∃ tl, s.tailAt a = some tl ∧ vis kp % 4 = tl / 2 ^ 206
  agree : ∀ t1 ∈ s.tables, ∀ t2 ∈ s.tables, ∀ kp1 kp2 a, kp1 < 2 ^ 64 → kp2 < 2 ^ 64 →
    t1.Has kp1 a → t2.Has kp2 a → vis kp1 = vis kp2
  uniq : ∀ t ∈ s.tables, t.Uniq

/-- A well-formed hashed key: `pre` = bytes 0..8, `tail` = bytes 6..32 of ONE 32-byte string. -/
structure KeyWF (k : Key) : Prop where
  pre_lt : k.pre < 2 ^ 64
  tail_lt : k.tail < 2 ^ 208
  overlap : k.pre % 2 ^ 16 = k.tail / 2 ^ 192

theorem KeyWF.vis_tail {k : Key} (h : KeyWF k) : vis k.pre % 4 = k.tail / 2 ^ 206 := by
  have := h.overlap
  unfold vis
  rw [Nat.shiftRight_eq_div_pow]
  omega

/-- well-formed keys are determined by the index-visible bits and the tail -/
theorem KeyWF.ext {k1 k2 : Key} (h1 : KeyWF k1) (h2 : KeyWF k2) (hv : vis k1.pre = vis k2.pre)
    (ht : k1.tail = k2.tail) : k1 = k2 := by
  have o1 := h1.overlap
  have o2 := h2.overlap
  unfold vis at hv
  rw [Nat.shiftRight_eq_div_pow, Nat.shiftRight_eq_div_pow] at hv
  have : k1.pre = k2.pre := by rw [ht] at o1; omega
  cases k1; cases k2; simp_all

/-! ## the generic step -/

/-- One planning step seen from the entries: values at the addresses in `D` disappear, a value
may appear at the addresses in `N` (at most one, in fact); every entry of the new state is an entry
of the old state (possibly copied to another table, with the same index-visible bits) whose slot
was not touched, or a new entry for the new value. -/
theorem NoStale.step {s s' : Col} (h : NoStale s) (D N : Nat → Prop) (vn : Nat)
    (hval : ∀ x, ¬ D x → ¬ N x → s'.tailAt x = s.tailAt x)
    (huniq : ∀ t' ∈ s'.tables, t'.Uniq)
    (hent : ∀ t' ∈ s'.tables, ∀ kp a, kp < 2 ^ 64 → t'.Has kp a →
      (¬ D a ∧ ¬ N a ∧ ∃ t ∈ s.tables, ∃ kp0, kp0 < 2 ^ 64 ∧ t.Has kp0 a ∧ vis kp0 = vis kp) ∨
      (N a ∧ vis kp = vn ∧ ∃ tl, s'.tailAt a = some tl ∧ vn % 4 = tl / 2 ^ 206)) :
    NoStale s' := by
  refine ⟨fun t' ht' kp a hkp hh => ?_, fun t1 ht1 t2 ht2 kp1 kp2 a h1 h2 hh1 hh2 => ?_, huniq⟩
  · rcases hent t' ht' kp a hkp hh with ⟨hD, hne, t, ht, kp0, hkp0, hh0, hv⟩ | ⟨ha, hv, tl, htl, hb⟩
    · obtain ⟨tl, htl, hb⟩ := h.live t ht kp0 a hkp0 hh0
      exact ⟨tl, by rw [hval a hD hne]; exact htl, by rw [← hv]; exact hb⟩
    · exact ⟨tl, htl, by rw [hv]; exact hb⟩
  · rcases hent t1 ht1 kp1 a h1 hh1 with ⟨_, hne1, u1, hu1, q1, hq1, hh1', hv1⟩ | ⟨ha1, hv1, _⟩
    · rcases hent t2 ht2 kp2 a h2 hh2 with ⟨_, _, u2, hu2, q2, hq2, hh2', hv2⟩ | ⟨ha2, _, _⟩
      · rw [← hv1, ← hv2]; exact h.agree u1 hu1 u2 hu2 q1 q2 a hq1 hq2 hh1' hh2'
      · exact absurd ha2 hne1
    · rcases hent t2 ht2 kp2 a h2 hh2 with ⟨_, hne2, _⟩ | ⟨_, hv2, _⟩
      · exact absurd ha1 hne2
      · rw [hv1, hv2]

/-- the entries only get fewer or are copied (tables dropped, re-ordered, entries removed or
copied with the same index-visible bits), values untouched -/
theorem NoStale.mono {s s' : Col} (h : NoStale s) (hval : ∀ x, s'.tailAt x = s.tailAt x)
    (huniq : ∀ t' ∈ s'.tables, t'.Uniq)
    (hent : ∀ t' ∈ s'.tables, ∀ kp a, kp < 2 ^ 64 → t'.Has kp a →
      ∃ t ∈ s.tables, ∃ kp0, kp0 < 2 ^ 64 ∧ t.Has kp0 a ∧ vis kp0 = vis kp) : NoStale s' :=
  h.step (fun _ => False) (fun _ => False) 0 (fun x _ _ => hval x) huniq
    (fun t' ht' kp a hkp hh => Or.inl ⟨fun h => h, fun h => h, hent t' ht' kp a hkp hh⟩)

/-! ## one position of one page is written -/

/-- a `Has` witness after writing `e` at position `i` of chunk `c0`: an old witness, or `e` -/
theorem Table.has_rev_pk (t t' : Table) (hb : t'.bits = t.bits) (c0 i e : Nat)
    (hp : ∀ c, t'.page c = if c0 = c then (t.page c0).set i e else t.page c)
    (kp a : Nat) (h : t'.Has kp a) :
    t.Has kp a ∨ (t.chunk kp = c0 ∧ e ≠ 0 ∧ Entry.address e t.bits = a ∧
      Entry.partial_key e t.bits = Entry.extract_key kp t.bits) := by
  obtain ⟨j, hj, hm, ha⟩ := h
  have hch : t'.chunk kp = t.chunk kp := by simp [Table.chunk, hb]
  rw [hch, hp (t.chunk kp), hb] at hm ha
  by_cases hc : c0 = t.chunk kp
  · simp only [hc, if_true] at hm ha
    by_cases hij : i = j
    · subst hij
      by_cases hlen : i < (t.page (t.chunk kp)).length
      · unfold BaseMatch at hm
        rw [getD_set _ _ _ _ hlen] at hm ha
        simp only [if_true] at hm ha
        exact Or.inr ⟨hc.symm, hm.2, ha, hm.1⟩
      · have : (t.page (t.chunk kp)).set i e = t.page (t.chunk kp) :=
          List.set_eq_of_length_le (Nat.le_of_not_lt hlen)
        rw [this] at hm ha
        exact Or.inl ⟨i, hj, hm, ha⟩
    · unfold BaseMatch at hm
      rw [getD_set_ne _ _ _ _ hij] at hm ha
      exact Or.inl ⟨j, hj, hm, ha⟩
  · simp only [hc, if_false] at hm ha
    exact Or.inl ⟨j, hj, hm, ha⟩

/-- the new entry of `insert`: whoever matches it has the index-visible bits of the inserted key -/
theorem vis_of_new_entry (t : Table) (hwf : TableWF t) (kp0 kp a : Nat) (hkp0 : kp0 < 2 ^ 64)
    (hkp : kp < 2 ^ 64) (hla : a ≤ Entry.last_address t.bits) (hc : t.chunk kp = t.chunk kp0)
    (hpk : Entry.partial_key (Entry.new a (Entry.extract_key kp0 t.bits) t.bits) t.bits =
      Entry.extract_key kp t.bits) : vis kp = vis kp0 := by
  rw [entry_partial_key_new a _ t.bits hwf.hi (extract_key_lt kp0 t.bits hwf.hi) hla] at hpk
  exact (vis_eq_iff_index t.bits kp kp0 hwf.lo hwf.hi hkp hkp0).2 ⟨hc, hpk.symm⟩

/-- entries with the same index-visible bits are found by the same keys -/
theorem Table.has_of_vis (t : Table) (hwf : TableWF t) (kp1 kp2 a : Nat) (h1 : kp1 < 2 ^ 64)
    (h2 : kp2 < 2 ^ 64) (hv : vis kp1 = vis kp2) (h : t.Has kp1 a) : t.Has kp2 a := by
  obtain ⟨hc, hk⟩ := (vis_eq_iff_index t.bits kp1 kp2 hwf.lo hwf.hi h1 h2).1 hv
  exact Table.has_congr t kp1 kp2 a hc hk h

/-- `Uniq` survives the writing of position `i` of chunk `c0` when no OTHER entry of that page
has the partial key and the address of the entry written (or the position is cleared). -/
theorem Table.Uniq.of_pages {t t' : Table} (hu : t.Uniq) (hwf : TableWF t) (hb : t'.bits = t.bits)
    (c0 i e : Nat) (hi : i < 64)
    (hp : ∀ c, t'.page c = if c0 = c then (t.page c0).set i e else t.page c)
    (hno : e = 0 ∨ ∀ j, j < 64 → j ≠ i → (t.page c0).getD j 0 ≠ 0 →
      Entry.partial_key ((t.page c0).getD j 0) t.bits = Entry.partial_key e t.bits →
      Entry.address ((t.page c0).getD j 0) t.bits ≠ Entry.address e t.bits) : t'.Uniq := by
  intro c x y hx hy
  rw [hp c, hb]
  by_cases hc : c0 = c
  · subst hc
    simp only [if_true]
    have hlen : i < (t.page c0).length := by rw [(hwf.pages c0).1]; exact hi
    have gi : ((t.page c0).set i e).getD i 0 = e := by
      rw [getD_set _ _ _ _ hlen]; simp
    have gne : ∀ z, i ≠ z → ((t.page c0).set i e).getD z 0 = (t.page c0).getD z 0 :=
      fun z hz => getD_set_ne _ _ _ _ hz
    by_cases hxi : i = x
    · by_cases hyi : i = y
      · intros; omega
      · subst hxi
        rw [gi, gne y hyi]
        intro nx ny hpk had
        rcases hno with h0 | h0
        · exact absurd h0 nx
        · exact absurd had.symm (h0 y hy (fun h => hyi h.symm) ny hpk.symm)
    · by_cases hyi : i = y
      · subst hyi
        rw [gi, gne x hxi]
        intro nx ny hpk had
        rcases hno with h0 | h0
        · exact absurd h0 ny
        · exact absurd had (h0 x hx (fun h => hxi h.symm) nx hpk)
      · rw [gne x hxi, gne y hyi]
        exact hu c0 x y hx hy
  · simp only [hc, if_false]
    exact hu c x y hx hy

theorem Table.Uniq.new (b : Nat) : (Table.new b).Uniq := by
  intro c i j _ _ h
  rw [Table.page_new] at h
  exact absurd (emptyPage_getD i) h

/-- `Uniq` in terms of `Has`-style witnesses -/
theorem Table.Uniq.base {t : Table} (hu : t.Uniq) (kp i j : Nat) (hi : i < 64) (hj : j < 64)
    (h1 : BaseMatch t.bits kp (t.page (t.chunk kp)) i) (h2 : BaseMatch t.bits kp (t.page (t.chunk kp)) j)
    (ha : Entry.address ((t.page (t.chunk kp)).getD i 0) t.bits =
      Entry.address ((t.page (t.chunk kp)).getD j 0) t.bits) : i = j :=
  hu _ i j hi hj h1.2 h2.2 (h1.1.trans h2.1.symm) ha

end Pdb.Index
