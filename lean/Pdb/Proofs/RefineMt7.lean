/-
R6 lemmas, part 7: root counters of `ref_counted` columns.  `Operation::Set` on a live key and `Operation::Reference`
are `write_inc_ref`, `Operation::Dereference` is `write_dec_ref` (`ValueTable.changeRef` on the counter field in front of
the key tail); on top of the R5 lemmas about `changeRef` (Pdb/Proofs/RefineRc1.lean).
-/
import Pdb.Proofs.RefineMt6
import Pdb.Proofs.RefineRc1

namespace Pdb.MultiTreePhys
open Pdb.Gen Pdb.ValueTable Pdb.MultiTree Pdb.RefineRc

/-- `change_ref(+1 / -1)` on the head slot of a live keyed value whose counter does not reach zero: only the counter field
    changes; structure, claimed slots, every other chain and the fill mark are untouched. -/
theorem tier_bump (t : VT) (F C : List Nat) (L : List (List Nat)) (hinv : TierInv t F C L)
    (hrc : t.refCounted = true) (c0 : List Nat) (hc0 : c0 ∈ L) (i : Nat) (hhd : c0.headD 0 = i)
    (tl v : Bytes) (cf : Bool) (n : Nat) (htl : tl.length = PARTIAL_SIZE)
    (hrd : readChain t (.partialKey tl) i = .ok (some (v, cf, n))) (inc : Bool)
    (hg : ¬ goes inc n) (hle : n ≤ LOCKED_REF) :
    ValueTable.changeRef t i inc = (bumped t i (newCount inc n), true) ∧
      TierInv (bumped t i (newCount inc n)) F C L ∧
      readChain (bumped t i (newCount inc n)) (.partialKey tl) i = .ok (some (v, cf, newCount inc n)) ∧
      (∀ c1 ∈ L, c1 ≠ c0 → ∀ key', readChain (bumped t i (newCount inc n)) key' (c1.headD 0) =
        readChain t key' (c1.headD 0)) ∧
      (bumped t i (newCount inc n)).filled = t.filled := by
  obtain ⟨f1, _, _, f4, f5, f6, f7⟩ := head_facts t tl i v cf n htl hrc hrd
  have hb : BumpOk t i := ⟨hrc, f5, f4⟩
  have hc : newCount inc n < 256 ^ REFS_SIZE := Nat.lt_of_le_of_lt (newCount_le inc n hle) locked_lt
  have hpos := newCount_pos inc n f7 hg
  obtain ⟨g1, g2, g3, _, _⟩ := bumped_spec t i (newCount inc n) F (singles C ++ L) c0 hinv.slot
    (List.mem_append_right _ hc0) hhd hb hc hpos
  refine ⟨?_, ⟨g1, ?_⟩, g2 _ v cf n hrd, ?_, rfl⟩
  · rw [changeRef_eq t i inc f1, ← f6, if_neg hg]; rfl
  · intro j hj
    have hi : i < t.filled := by
      have hne := IsChain_ne_nil t c0 (hinv.slot.chains c0 (List.mem_append_right _ hc0))
      have hmem : i ∈ c0 := by
        cases hcc : c0 with
        | nil => exact absurd hcc hne
        | cons x xs => rw [hcc] at hhd; simp only [List.headD_cons] at hhd; rw [← hhd]; exact List.mem_cons_self
      exact (hinv.slot.range i (List.mem_append_right _ (List.mem_flatten.mpr
        ⟨c0, List.mem_append_right _ hc0, hmem⟩))).2
    have hj' : t.filled ≤ j := hj
    rw [bumped_ne t i _ j (by omega)]
    exact hinv.fresh j hj'
  · intro c1 hc1 hne key'
    exact g3 c1 (List.mem_append_right _ hc1) hne key'

/-- the root value chains of one tier are pairwise different (they are disjoint and not empty) -/
theorem rchain_ne {p : PCol} {h : Heap Key Bytes} {ly : Layout} (r : Rep p h ly) (tier : Nat) (k k' : Key)
    (hk : k ∈ ly.rootKeys tier) (hk' : k' ∈ ly.rootKeys tier) (hne : k' ≠ k) : ly.rchain k' ≠ ly.rchain k := by
  intro e
  have hs := (r.tiers tier).slot
  have hmem : ∀ x, x ∈ ly.rootKeys tier → ly.rchain x ∈ singles (ly.claimed tier) ++
      ((ly.nodes tier).map ly.chain ++ ly.other tier) := by
    intro x hx
    rw [r.roots.otherEq]
    exact List.mem_append_right _ (List.mem_append_right _ (List.mem_map.mpr ⟨x, hx, rfl⟩))
  have hne0 := IsChain_ne_nil _ _ (hs.chains _ (hmem k hk))
  -- the list of root chains has no duplicate because the flattened partition has none
  have hnd := hs.nodup
  rw [List.flatten_append, List.flatten_append, r.roots.otherEq] at hnd
  have hnd2 := (List.nodup_append.mp (List.nodup_append.mp (List.nodup_append.mp hnd).2.1).2.1).2.1
  -- split the key list at k and k'
  obtain ⟨x, hx⟩ : ∃ x, x ∈ ly.rchain k := by
    cases hc : ly.rchain k with
    | nil => exact absurd hc hne0
    | cons x xs => exact ⟨x, List.mem_cons_self⟩
  have hperm := (List.perm_cons_erase hk).map ly.rchain
  have hk'e : k' ∈ (ly.rootKeys tier).erase k := (List.Nodup.mem_erase_iff (r.roots.rnodup tier)).mpr ⟨hne, hk'⟩
  have hnd3 : ((k :: (ly.rootKeys tier).erase k).map ly.rchain).flatten.Nodup :=
    (hperm.flatten.nodup_iff).mp hnd2
  simp only [List.map_cons, List.flatten_cons] at hnd3
  have hdisj := (List.nodup_append.mp hnd3).2.2
  exact hdisj x hx x (List.mem_flatten.mpr ⟨ly.rchain k', List.mem_map.mpr ⟨k', hk'e, rfl⟩, by rw [e]; exact hx⟩) rfl

/-- `write_inc_ref` / `write_dec_ref` (counter stays > 0) on the value of a live root of a `ref_counted` column:
    simulated by `roots.set k (some (n, newCount inc c))`; the layout is unchanged. -/
theorem sim_rootBump (p : PCol) (h : Heap Key Bytes) (ly : Layout) (r : Rep p h ly) (k : Key) (n : Node Bytes)
    (c : Nat) (hk : k.length = 32) (hrcol : p.isRc = true) (hg : h.roots.get k = some (n, c)) (inc : Bool)
    (hgo : ¬ goes inc c) (hle : c ≤ LOCKED_REF) :
    ∃ a, p.index.get k = some a ∧
      ValueTable.changeRef (p.vt (Address.size_tier a)) (Address.offset a) inc =
        (bumped (p.vt (Address.size_tier a)) (Address.offset a) (newCount inc c), true) ∧
      Rep (p.setVT (Address.size_tier a) (bumped (p.vt (Address.size_tier a)) (Address.offset a) (newCount inc c)))
        { h with roots := h.roots.set k (some (n, newCount inc c)) } ly := by
  obtain ⟨a, ha, hok, hhd, hrd⟩ := r.roots.root k n c hg
  have hm : k ∈ ly.rootKeys (Address.size_tier a) := (r.roots.rdom _ k).mpr ⟨a, ha, rfl⟩
  have hc0 : ly.rchain k ∈ (ly.nodes (Address.size_tier a)).map ly.chain ++ ly.other (Address.size_tier a) := by
    rw [r.roots.otherEq]; exact List.mem_append_right _ (List.mem_map.mpr ⟨k, hm, rfl⟩)
  have hrcT : (p.vt (Address.size_tier a)).refCounted = true := by
    have := (r.cfg (Address.size_tier a)).2.2
    rw [this, hrcol]
    unfold tableOfTier; split <;> rfl
  have htl : (k.drop 6).length = PARTIAL_SIZE := by simp [hk, PARTIAL_SIZE]
  obtain ⟨b1, b2, b3, b4, b5⟩ := tier_bump _ _ _ _ (r.tiers (Address.size_tier a)) hrcT (ly.rchain k) hc0
    (Address.offset a) hhd (k.drop 6) (encodeNode n) false c htl hrd inc hgo hle
  refine ⟨a, ha, b1, ?_⟩
  -- chains of nodes differ from the root chain: they are in the same duplicate-free partition
  have hnodes_ne : ∀ b, b ∈ ly.nodes (Address.size_tier a) → ly.chain b ≠ ly.rchain k := by
    intro b hb e
    have hs := (r.tiers (Address.size_tier a)).slot
    have hnd := hs.nodup
    rw [List.flatten_append, List.flatten_append] at hnd
    have hnd2 := (List.nodup_append.mp (List.nodup_append.mp hnd).2.1).2.1
    have hdisj := (List.nodup_append.mp hnd2).2.2
    have hne0 := IsChain_ne_nil _ _ (hs.chains _ (List.mem_append_right _ hc0))
    obtain ⟨x, hx⟩ : ∃ x, x ∈ ly.rchain k := by
      cases hc : ly.rchain k with
      | nil => exact absurd hc hne0
      | cons x xs => exact ⟨x, List.mem_cons_self⟩
    exact hdisj x (List.mem_flatten.mpr ⟨ly.chain b, List.mem_map.mpr ⟨b, hb, rfl⟩, by rw [e]; exact hx⟩) x
      (List.mem_flatten.mpr ⟨ly.rchain k, by rw [r.roots.otherEq]; exact List.mem_map.mpr ⟨k, hm, rfl⟩, hx⟩) rfl
  refine ⟨?_, ?_, r.nodup, r.dom, ?_, r.rc, ?_, ?_, r.wf⟩
  · intro tier'
    by_cases he : tier' = Address.size_tier a
    · subst he; rw [setVT_same]; exact b2
    · rw [setVT_other _ _ _ _ he]; exact r.tiers tier'
  · intro tier'
    show SameCfg (tableOfTier p.isRc tier') ((p.setVT (Address.size_tier a) _).vt tier')
    by_cases he : tier' = Address.size_tier a
    · subst he; rw [setVT_same]; exact SameCfg.trans (r.cfg _) (bumped_cfg _ _ _)
    · rw [setVT_other _ _ _ _ he]; exact r.cfg tier'
  · intro b n' hgb
    obtain ⟨g1, g2, g3⟩ := r.node b n' hgb
    refine ⟨g1, g2, ?_⟩
    show readChain ((p.setVT (Address.size_tier a) _).vt (Address.size_tier b)) _ _ = _
    by_cases he : Address.size_tier b = Address.size_tier a
    · rw [he, setVT_same]
      have hmb : b ∈ ly.nodes (Address.size_tier a) := (r.dom _ b).mpr ⟨he, by simp [hgb]⟩
      have := b4 (ly.chain b) (List.mem_append_left _ (List.mem_map.mpr ⟨b, hmb, rfl⟩)) (hnodes_ne b hmb) .noHash
      rw [g2] at this
      rw [this, ← he]; exact g3
    · rw [setVT_other _ _ _ _ he]; exact g3
  · intro tier'
    show ((p.setVT (Address.size_tier a) _).vt tier').filled ≤ 2 ^ 56
    by_cases he : tier' = Address.size_tier a
    · subst he; rw [setVT_same, b5]; exact r.bound _
    · rw [setVT_other _ _ _ _ he]; exact r.bound tier'
  · refine ⟨r.roots.otherEq, r.roots.rnodup, r.roots.rdom, ?_, ?_⟩
    · intro k' n' c' hg'
      show ∃ a', p.index.get k' = some a' ∧ NodeOk n' ∧ (ly.rchain k').headD 0 = Address.offset a' ∧
        readChain ((p.setVT (Address.size_tier a) _).vt (Address.size_tier a')) (keyTail k') (Address.offset a') =
          .ok (some (encodeNode n', false, c'))
      simp only [FMap.get_set] at hg'
      by_cases hk' : k' = k
      · subst hk'
        simp only [if_true, Option.some.injEq, Prod.mk.injEq] at hg'
        obtain ⟨rfl, rfl⟩ := hg'
        refine ⟨a, ha, hok, hhd, ?_⟩
        rw [setVT_same]; exact b3
      · simp only [hk', if_false] at hg'
        obtain ⟨a', g1, g2, g3, g4⟩ := r.roots.root k' n' c' hg'
        refine ⟨a', g1, g2, g3, ?_⟩
        by_cases he : Address.size_tier a' = Address.size_tier a
        · rw [he, setVT_same]
          have hmk : k' ∈ ly.rootKeys (Address.size_tier a) := (r.roots.rdom _ k').mpr ⟨a', g1, he⟩
          have hc1 : ly.rchain k' ∈ (ly.nodes (Address.size_tier a)).map ly.chain ++ ly.other (Address.size_tier a) := by
            rw [r.roots.otherEq]; exact List.mem_append_right _ (List.mem_map.mpr ⟨k', hmk, rfl⟩)
          have := b4 (ly.rchain k') hc1 (rchain_ne r _ k k' hm hmk hk') (keyTail k')
          rw [g3] at this
          rw [this, ← he]; exact g4
        · rw [setVT_other _ _ _ _ he]; exact g4
    · intro k' hg'
      simp only [FMap.get_set] at hg'
      by_cases hk' : k' = k
      · subst hk'; simp at hg'
      · simp only [hk', if_false] at hg'; exact r.roots.rootNone k' hg'

theorem newCount_inc (c : Nat) (h : c + 1 < LOCKED_REF) : newCount true c = c + 1 := by
  unfold newCount
  simp only [if_true]
  rw [if_neg (by omega)]

theorem newCount_dec (c : Nat) (h : c < LOCKED_REF) : newCount false c = c - 1 := by
  unfold newCount
  simp only [Bool.false_eq_true, if_false]
  rw [if_pos (by omega)]

theorem not_goes_inc (c : Nat) : ¬ goes true c := by
  unfold goes; simp

theorem not_goes_dec (c : Nat) (h1 : 1 < c) (h : c < LOCKED_REF) : ¬ goes false c := by
  unfold goes
  rw [newCount_dec c h]
  intro hh
  omega

/-- `Operation::Set(key, _)` on a LIVE key of a `ref_counted` column (`write_inc_ref`): the stored count goes up by one,
    value and layout stay: `applyRootChange .rcRoots h (.set k _)` on a live key. -/
theorem sim_setRoot_rc_live (p : PCol) (h : Heap Key Bytes) (ly : Layout) (r : Rep p h ly) (k : Key)
    (n root' : Node Bytes) (c : Nat) (hk : k.length = 32) (hv : p.variant = .rcRoots)
    (hg : h.roots.get k = some (n, c)) (hle : c + 1 < LOCKED_REF) :
    ∃ p', physApplyRoot p (.set k root') = .ok p' ∧ Rep p' (applyRootChange .rcRoots h (.set k root')) ly ∧
      p'.variant = p.variant := by
  have hrcol : p.isRc = true := by simp [PCol.isRc, hv]
  obtain ⟨a, ha, hcr, r'⟩ := sim_rootBump p h ly r k n c hk hrcol hg true (not_goes_inc c) (by omega)
  rw [newCount_inc c hle] at hcr r'
  refine ⟨p.setVT (Address.size_tier a) (bumped (p.vt (Address.size_tier a)) (Address.offset a) (c + 1)), ?_, ?_, rfl⟩
  · simp only [physApplyRoot, physSetRoot, ha, hrcol, if_true, hcr]
  · have : applyRootChange .rcRoots h (.set k root') = { h with roots := h.roots.set k (some (n, c + 1)) } := by
      simp only [applyRootChange, hg, rootEntry]
    rw [this]; exact r'

/-- `Operation::Reference(key)` on a live root of a `ref_counted` column = `referenceTree .rcRoots`. -/
theorem sim_refRoot_rc (p : PCol) (h : Heap Key Bytes) (ly : Layout) (r : Rep p h ly) (k : Key)
    (n : Node Bytes) (c : Nat) (hk : k.length = 32) (hv : p.variant = .rcRoots)
    (hg : h.roots.get k = some (n, c)) (hle : c + 1 < LOCKED_REF) :
    ∃ p', physApplyRoot p (.reference k) = .ok p' ∧ Rep p' (applyRootChange .rcRoots h (.reference k)) ly ∧
      p'.variant = p.variant := by
  have hrcol : p.isRc = true := by simp [PCol.isRc, hv]
  obtain ⟨a, ha, hcr, r'⟩ := sim_rootBump p h ly r k n c hk hrcol hg true (not_goes_inc c) (by omega)
  rw [newCount_inc c hle] at hcr r'
  refine ⟨p.setVT (Address.size_tier a) (bumped (p.vt (Address.size_tier a)) (Address.offset a) (c + 1)), ?_, ?_, rfl⟩
  · simp only [physApplyRoot, physRefRoot, ha, hrcol, if_true, hcr]
  · have : applyRootChange .rcRoots h (.reference k) = { h with roots := h.roots.set k (some (n, c + 1)) } := by
      simp only [applyRootChange, referenceTree, hg, okOr]
    rw [this]; exact r'

/-- `Operation::Dereference(key)` on a root with count > 1 of a `ref_counted` column (`write_dec_ref` keeps the entry) -/
theorem sim_derefRoot_rc_keep (p : PCol) (h : Heap Key Bytes) (ly : Layout) (r : Rep p h ly) (k : Key)
    (n : Node Bytes) (c : Nat) (hk : k.length = 32) (hv : p.variant = .rcRoots)
    (hg : h.roots.get k = some (n, c)) (h1 : 1 < c) (hle : c < LOCKED_REF) :
    ∃ p', physDerefRoot p k = .ok (false, p') ∧
      Rep p' { h with roots := h.roots.set k (some (n, c - 1)) } ly ∧ p'.variant = p.variant := by
  have hrcol : p.isRc = true := by simp [PCol.isRc, hv]
  obtain ⟨a, ha, hcr, r'⟩ := sim_rootBump p h ly r k n c hk hrcol hg false (not_goes_dec c h1 hle) (by omega)
  rw [newCount_dec c hle] at hcr r'
  refine ⟨p.setVT (Address.size_tier a) (bumped (p.vt (Address.size_tier a)) (Address.offset a) (c - 1)), ?_, r', rfl⟩
  simp only [physDerefRoot, ha, hrcol, if_true, ValueTable.decRef, hcr]

/-- `Operation::Dereference(key)` on a root with count 1 of a `ref_counted` column: `change_ref` answers "has to go",
    `write_remove_plan` removes the value -/
theorem sim_derefRoot_rc_last (p : PCol) (h : Heap Key Bytes) (ly : Layout) (r : Rep p h ly) (k : Key)
    (n : Node Bytes) (hk : k.length = 32) (hv : p.variant = .rcRoots) (hg : h.roots.get k = some (n, 1)) :
    ∃ p' a, p.index.get k = some a ∧ physDerefRoot p k = .ok (true, p') ∧
      Rep p' { h with roots := h.roots.set k none }
        { ly with
          free := upd ly.free (Address.size_tier a) ((ly.rchain k).reverse ++ ly.free (Address.size_tier a)),
          other := upd ly.other (Address.size_tier a) (((ly.rootKeys (Address.size_tier a)).erase k).map ly.rchain),
          rootKeys := upd ly.rootKeys (Address.size_tier a) ((ly.rootKeys (Address.size_tier a)).erase k) } ∧
      p'.variant = p.variant := by
  have hrcol : p.isRc = true := by simp [PCol.isRc, hv]
  obtain ⟨t', a, ha, h1, r'⟩ := sim_removeRoot p h ly r k n 1 hg
  obtain ⟨a2, ha2, _, _, hrd⟩ := r.roots.root k n 1 hg
  rw [ha] at ha2
  injection ha2 with ha2
  subst ha2
  have hrcT : (p.vt (Address.size_tier a)).refCounted = true := by
    have := (r.cfg (Address.size_tier a)).2.2
    rw [this, hrcol]
    unfold tableOfTier; split <;> rfl
  have htl : (k.drop 6).length = PARTIAL_SIZE := by simp [hk, PARTIAL_SIZE]
  obtain ⟨f1, _, _, _, _, f6, _⟩ := head_facts _ (k.drop 6) _ _ _ _ htl hrcT hrd
  have hgo : goes false (rcAt (p.vt (Address.size_tier a)) (Address.offset a)) := by
    rw [← f6]; unfold goes newCount; decide
  refine ⟨{ p.setVT (Address.size_tier a) t' with index := p.index.set k none }, a, ha, ?_, r', rfl⟩
  simp only [physDerefRoot, ha, hrcol, if_true, ValueTable.decRef]
  rw [changeRef_eq _ _ false f1, if_pos hgo]
  simp only [h1]

/-- `NodeChange::DereferenceChildren(key, children)` on a `ref_counted` multitree column, whole: the stored root count is
    lowered; only when it was 1 the root entry is removed and the children are walked (= `derefProcess .rcRoots`). -/
theorem sim_derefChange_rc (p : PCol) (h h' : Heap Key Bytes) (ly : Layout) (r : Rep p h ly) (k : Key)
    (cs : List Nat) (n : Node Bytes) (c : Nat) (hk : k.length = 32) (hv : p.variant = .rcRoots)
    (hg : h.roots.get k = some (n, c)) (hle : c < LOCKED_REF)
    (hw : derefProcess .rcRoots h k cs = .ok h') :
    ∃ p' ly', physApplyNode p (.derefChildren k cs) = .ok p' ∧ Rep p' h' ly' ∧ p'.variant = p.variant ∧
      ly'.claimed = ly.claimed := by
  have hrcol : p.isRc = true := by simp [PCol.isRc, hv]
  obtain ⟨a, ha, _, _, hrd⟩ := r.roots.root k n c hg
  have hrcT : (p.vt (Address.size_tier a)).refCounted = true := by
    have := (r.cfg (Address.size_tier a)).2.2
    rw [this, hrcol]
    unfold tableOfTier; split <;> rfl
  have htl : (k.drop 6).length = PARTIAL_SIZE := by simp [hk, PARTIAL_SIZE]
  obtain ⟨_, _, _, _, _, _, hpos⟩ := head_facts _ (k.drop 6) _ _ _ _ htl hrcT hrd
  by_cases h1 : 1 < c
  · simp only [derefProcess, hg] at hw
    rw [if_pos (by first | exact ⟨trivial, h1⟩ | exact ⟨rfl, h1⟩ | simp [h1])] at hw
    injection hw with hw
    subst hw
    obtain ⟨p', hd, r', hv'⟩ := sim_derefRoot_rc_keep p h ly r k n c hk hv hg h1 hle
    refine ⟨p', ly, ?_, r', hv', rfl⟩
    simp only [physApplyNode, ha, hd]
  · have hc1 : c = 1 := by omega
    subst hc1
    simp only [derefProcess, hg] at hw
    rw [if_neg (by intro hh; exact absurd hh.2 (by omega))] at hw
    obtain ⟨p1, a1, _, hd, r1, hv1⟩ := sim_derefRoot_rc_last p h ly r k n hk hv hg
    obtain ⟨p', ly', hp, r', hpu, hv'⟩ := sim_walk _ cs p1 _ h' _ r1 hw
    refine ⟨p', ly', ?_, r', hv'.trans hv1, hpu.2.1⟩
    simp only [physApplyNode, ha, hd]
    exact physDeref_mono _ _ (walkFuel_le_physFuel r1 cs) p1 cs p' hp

end Pdb.MultiTreePhys
