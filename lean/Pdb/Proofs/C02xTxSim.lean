/-
C02xTx: the simulation of Pdb/Proofs/C10TxSim.lean with LEAKED slots.

`SimL v s H L` is `SimC v s H` (pipeline state `s` of one multitree column against the atomic heap
`H` of the accepted transactions) with the slot accounting generalised: the free stack, the slots
claimed by queued commits, the table nodes AND the list `L` of leaked slots partition the
addresses below the fill mark.  `L = []` is `SimC`.  After a crash the slots claimed by lost
transactions that a surviving header after-image covers are in `L` for ever (finding F19); every
legal commit / process step keeps the relation with the same `L` (`simL_commit`, `simL_process`:
the proofs of `simC_commit` / `simC_process` with the accounting lemmas `Acct.claim`,
`sim_nodeFold_acct` used at the claimed list `queueClaimed q ++ L`).
-/
import Pdb.Proofs.C10TxSim
import Pdb.Proofs.C10TxInv

namespace Pdb.MultiTree
set_option linter.unusedSectionVars false
variable {K D : Type} [DecidableEq K]

theorem Acct.perm {N : Addr} {h : Heap K D} {f C C' : List Addr} (ac : Acct N h f C)
    (p : C.Perm C') : Acct N h f C' where
  nodup := ((List.Perm.append_left f p).nodup_iff).mp ac.nodup
  notPresent := fun a ha => ac.notPresent a (by
    rcases List.mem_append.mp ha with h1 | h1
    · exact List.mem_append.mpr (Or.inl h1)
    · exact List.mem_append.mpr (Or.inr (p.mem_iff.mpr h1)))
  cover := fun a => by rw [ac.cover a, p.mem_iff]

/-- the simulation relation with leaked slots `L` -/
structure SimL (v : Variant) (s : TState K D) (H : Heap K D) (L : List Addr) : Prop where
  var : s.variant = v
  core : core H = core (drainT v s.heap s.queue)
  qok : QueueOkT v s.heap s.queue
  alloc : Acct s.heap.next s.heap s.free (queueClaimed s.queue ++ L)
  inv : InvR v H

theorem SimL.init (v : Variant) : SimL v (TState.init v : TState K D) Heap.empty [] where
  var := rfl
  core := rfl
  qok := trivial
  alloc := by
    have := (sim_allocInv_iff _).mp (SimC.init (K := K) (D := D) v).alloc
    simpa using this
  inv := InvR.empty v

theorem SimL.viewR {v : Variant} {s : TState K D} {H : Heap K D} {L : List Addr}
    (sim : SimL v s H L) : ∀ k r c, H.roots.get k = some (r, c) → s.viewRoot k = some r := by
  intro k r c hg
  have hc := sim.core
  simp only [Pdb.MultiTree.core, Prod.mk.injEq] at hc
  have hv : viewOf (drainT v s.heap s.queue) k = some r := by
    simp only [viewOf, ← hc.2.2, hg, Option.map_some]
  exact drain_root_viewT v s.queue s.heap sim.qok k r hv

theorem SimL.viewN {v : Variant} {s : TState K D} {H : Heap K D} {L : List Addr}
    (sim : SimL v s H L) : ∀ a n, H.nodes.get a = some n → s.viewNode a = some n := by
  intro a n hg
  have hc := sim.core
  simp only [Pdb.MultiTree.core, Prod.mk.injEq] at hc
  rw [hc.1] at hg
  exact drain_node_viewT v s.queue s.heap sim.qok a n hg

theorem SimL.supply {v : Variant} {s : TState K D} {H : Heap K D} {L : List Addr}
    (sim : SimL v s H L) : SupplyOk H s.free s.heap.next := by
  have hc := sim.core
  simp only [Pdb.MultiTree.core, Prod.mk.injEq] at hc
  have hsub : ∀ a, present H a → a ∈ queueClaimed s.queue ∨ present s.heap a := by
    intro a hp
    exact drain_nodes_sub v s.queue s.heap sim.qok a
      ((sim_present_congr H _ hc.1.symm a).mpr hp)
  have hnd := List.nodup_append.mp sim.alloc.nodup
  refine ⟨hnd.1, ?_, ?_, ?_⟩
  · intro a ha hp
    rcases hsub a hp with h1 | h1
    · exact hnd.2.2 a ha a (List.mem_append.mpr (Or.inl h1)) rfl
    · exact sim.alloc.notPresent a (List.mem_append.mpr (Or.inl ha)) h1
  · intro a ha
    exact (sim.alloc.cover a).mpr (Or.inl ha)
  · intro a hp
    rcases hsub a hp with h1 | h1
    · exact (sim.alloc.cover a).mpr (Or.inr (Or.inl (List.mem_append.mpr (Or.inl h1))))
    · exact (sim.alloc.cover a).mpr (Or.inr (Or.inr h1))

/-- what `TState.process` does when it succeeds on a non-empty queue -/
theorem process_ok_shape (sv : Variant) (heap : Heap K D) (free : List Addr) (cs : ChangeSet K D)
    (h : Heap K D) (f : List Addr)
    (hp : applyChangeSet sv (heap, free) cs = .ok (h, f)) :
    drainStep sv heap cs = h ∧ h.next = heap.next := by
  have hH : simCsH sv heap cs = .ok h := by
    rw [← sim_applyChangeSet_fst sv heap free cs, hp]; rfl
  exact ⟨by rw [drainStep_eq, hH]; rfl, sim_applyCsH_next sv heap h cs hH⟩

theorem simL_process (v : Variant) (s : TState K D) (H : Heap K D) (L : List Addr)
    (sim : SimL v s H L) : SimL v (okOr s s.process) H L := by
  obtain ⟨sv, heap, free, queue, td⟩ := s
  have hv : sv = v := sim.var
  subst hv
  cases queue with
  | nil => exact sim
  | cons cs q =>
    simp only [TState.process]
    cases hp : applyChangeSet sv (heap, free) cs with
    | error e => exact sim
    | ok x =>
      obtain ⟨h, f⟩ := x
      simp only [okOr]
      obtain ⟨hstep, hnext⟩ := process_ok_shape sv heap free cs h f hp
      refine ⟨rfl, ?_, ?_, ?_, sim.inv⟩
      · have := sim.core
        simp only [drainT_cons, hstep] at this
        exact this
      · have := sim.qok.2
        simp only [hstep] at this
        exact this
      · have ac := sim.alloc
        simp only [sim_queueClaimed_cons, List.append_assoc] at ac
        show Acct h.next h f (queueClaimed q ++ L)
        simp only [hnext]
        simp only [applyChangeSet] at hp
        cases hp1 : applyChangeSetF41 sv (heap, free) cs.early with
        | error er => rw [hp1] at hp; cases hp
        | ok y =>
          obtain ⟨h1, f1⟩ := y
          rw [hp1] at hp
          simp only [Except.ok.injEq, Prod.mk.injEq] at hp
          obtain ⟨e1, e2⟩ := hp
          subst e1 e2
          simp only [applyChangeSetF41] at hp1
          exact (sim_nodeFold_acct sv heap.next cs.early.nodeChanges _ free _ h1 f1
            (ac.congr (sim_rootFold_frame sv cs.early.changes heap).1) hp1).congr
              (sim_rootFold_frame sv cs.late h1).1

theorem simL_commit_asm (v : Variant) (s : TState K D) (H : Heap K D) (L : List Addr)
    (sim : SimL v s H L) (ops : List (Op K D)) (hdl : DerefLive H ops) :
    validateOps s.variant s.viewRoot ops = validateOps v (viewOf H) ops ∧
    (validateOps v (viewOf H) ops = .ok →
      (asmOps s.variant s.viewRoot s.asm0 ops).2 = .ok () ∧
      (asmOps s.variant s.viewRoot s.asm0 ops).1.cs = specCs v H s.free s.heap.next ops) := by
  have hview : ∀ op ∈ ops, op.isDeref = true → s.viewRoot op.key = viewOf H op.key := by
    intro op ho hd
    have := hdl op ho hd
    cases hg : H.roots.get op.key with
    | none => simp [viewOf, hg] at this
    | some e =>
      obtain ⟨r, c⟩ := e
      rw [sim.viewR op.key r c hg]
      simp [viewOf, hg]
  have hval : validateOps s.variant s.viewRoot ops = validateOps v (viewOf H) ops := by
    rw [sim.var]; exact sim_validateOps_congr v _ _ ops hview
  refine ⟨hval, ?_⟩
  intro hV
  refine ⟨sim_asmOps_ok s.variant s.viewRoot ops s.asm0 (by rw [hval]; exact hV), ?_⟩
  rw [sim.var, sim_asmOps_congr v _ _ ops hview s.asm0]
  have := (sim_asmOps_strip v (viewOf H) ops s.asm0 ⟨s.free, s.heap.next, .empty, .empty⟩ rfl).1
  simp only [Asm.strip, Asm.mk.injEq] at this
  exact this.2.2.2

/-- the state after an ACCEPTED commit -/
theorem commit_shape (s : TState K D) (ops : List (Op K D))
    (hV : validateOps s.variant s.viewRoot ops = .ok)
    (hA : (asmOps s.variant s.viewRoot s.asm0 ops).2 = .ok ()) :
    s.commit ops =
      ({ s.withAsm (asmOps s.variant s.viewRoot s.asm0 ops).1 with
          queue := s.queue ++ [(asmOps s.variant s.viewRoot s.asm0 ops).1.cs] }, .ok ()) := by
  simp only [TState.commit, hV]
  rcases hAA : asmOps s.variant s.viewRoot s.asm0 ops with ⟨a, res⟩
  rw [hAA] at hA
  simp only at hA
  subst hA
  rfl

theorem simL_commit (v : Variant) (s : TState K D) (H : Heap K D) (L : List Addr)
    (sim : SimL v s H L) (ops : List (Op K D))
    (hda : DerefApart ops) (hdl : DerefLive H ops)
    (hleg : LegalInOrder v (H, s.free, s.heap.next) ops) :
    SimL v (s.commit ops).1 (specTx v H s.free s.heap.next ops) L := by
  have hinv : InvR v (specTx v H s.free s.heap.next ops) :=
    specTx_invR v H s.free s.heap.next ops sim.inv sim.supply hda hleg
  obtain ⟨hval, hasm⟩ := simL_commit_asm v s H L sim ops hdl
  by_cases hV : validateOps v (viewOf H) ops = .ok
  · obtain ⟨hAok, hAcs⟩ := hasm hV
    have hsup := sim.supply
    have acct := sim_asmOps_acct s.variant s.viewRoot ops s.asm0 hAok
    have hcommit : (s.commit ops).1 =
        { s.withAsm (asmOps s.variant s.viewRoot s.asm0 ops).1 with
          queue := s.queue ++ [(asmOps s.variant s.viewRoot s.asm0 ops).1.cs] } := by
      rw [commit_shape s ops (by rw [hval]; exact hV) hAok]
    rw [hcommit, sim_specTx_eq_drainStep v H _ _ ops hV]
    rw [sim_specTx_eq_drainStep v H _ _ ops hV] at hinv
    generalize (asmOps s.variant s.viewRoot s.asm0 ops).1 = a at acct hAcs
    rw [← hAcs] at hinv ⊢
    obtain ⟨a1, a2, a3⟩ := acct
    simp only [TState.asm0, ChangeSet.empty, sim_claimedL_nil, List.nil_append, List.filterMap_nil] at a1 a2 a3
    have hc := sim.core
    have hcoreD : Pdb.MultiTree.core H =
        Pdb.MultiTree.core (drainT v (withNext a.next s.heap) s.queue) := by
      rw [drainT_withNext]; exact hc
    have hcsok : CsOk v H a.cs := by
      refine ⟨?_, ?_⟩
      · intro k r hg
        rw [hAcs] at hg ⊢
        rw [← sim_specTx_eq_drainStep v H _ _ ops hV] at hg
        exact specTx_root_view v H s.free s.heap.next ops sim.inv hsup hda hleg hV k r hg
      · intro b hb hp
        have : b ∈ claimedL a.cs.nodeChanges ++ a.free := List.mem_append.mpr (Or.inl hb)
        rw [a1] at this
        rcases List.mem_append.mp this with h1 | h1
        · exact hsup.fresh b h1 hp
        · have h2 := hsup.nodesBelow b hp
          simp only [List.mem_range'_1] at h1
          omega
    refine ⟨sim.var, ?_, ?_, ?_, hinv⟩
    · show Pdb.MultiTree.core (drainStep v H a.cs) =
        Pdb.MultiTree.core (drainT v (withNext a.next s.heap) (s.queue ++ [a.cs]))
      rw [drainT_append, drainStep_eq, drainStep_eq]
      exact sim_applyCsH_core v _ _ a.cs hcoreD
    · show QueueOkT v (withNext a.next s.heap) (s.queue ++ [a.cs])
      exact QueueOkT_append v s.queue a.cs _ (QueueOkT_withNext v a.next s.queue s.heap sim.qok)
        (hcsok.of_core hcoreD)
    · show Acct a.next (withNext a.next s.heap) a.free (queueClaimed (s.queue ++ [a.cs]) ++ L)
      rw [sim_queueClaimed_append]
      have hperm : (queueClaimed s.queue ++ L ++ claimedL a.cs.nodeChanges).Perm
          (queueClaimed s.queue ++ claimedL a.cs.nodeChanges ++ L) := by
        rw [List.append_assoc, List.append_assoc]
        exact List.Perm.append_left _ List.perm_append_comm
      exact (Acct.perm (sim.alloc.claim a1 a2) hperm).congr rfl
  · have hV' : validateOps s.variant s.viewRoot ops ≠ .ok := by rw [hval]; exact hV
    have hcommit : (s.commit ops).1 = s := by
      simp only [TState.commit]
    rw [hcommit, sim_specTx_rejected v H _ _ ops hV]
    exact sim

end Pdb.MultiTree
