/-
C10: simulation between the pipeline model and the atomic operations.
-/
import Pdb.Proofs.C10Hist

namespace Pdb.MultiTree
set_option linter.unusedSectionVars false
variable {K D : Type} [DecidableEq K]

structure Sim (v : Variant) (s : PState K D) (H : Heap K D) : Prop where
  var : s.variant = v
  core : core H = core (drainHeap v s.heap s.queue)
  next : H.next = s.heap.next
  qok : QueueOk v s.heap s.queue
  bound : ∀ p ∈ s.queue, pendEnd p ≤ s.heap.next

theorem Sim.init (v : Variant) : Sim v (PState.init v : PState K D) Heap.empty where
  var := rfl
  core := rfl
  next := rfl
  qok := trivial
  bound := by intro p hp; simp [PState.init] at hp

theorem applyPending_core (v : Variant) (h h' : Heap K D) (p : Pending K D)
    (e : core h = core h') : core (applyPending v h p) = core (applyPending v h' p) := by
  have := eq_withNext_of_core h h' e
  rw [this]
  obtain ⟨m', em⟩ := applyPending_withNext v h h'.next p
  rw [em]
  rfl

theorem referenceTree_next (v : Variant) (h h' : Heap K D) (k : K)
    (e : referenceTree v h k = .ok h') : h'.next = h.next := by
  cases v with
  | appendOnly => simp only [referenceTree, Except.ok.injEq] at e; subst e; rfl
  | plain => simp [referenceTree] at e
  | rcRoots =>
    simp only [referenceTree] at e
    split at e <;> (simp only [Except.ok.injEq] at e; subst e; rfl)

theorem derefProcess_next (v : Variant) (h h' : Heap K D) (k : K) (cs : List Addr)
    (e : derefProcess v h k cs = .ok h') : h'.next = h.next := by
  simp only [derefProcess] at e
  split at e
  · simp only [Except.ok.injEq] at e; subst e; rfl
  · split at e
    · simp only [Except.ok.injEq] at e; subst e; rfl
    · exact (derefChildren_roots_next _ cs _ h' e).2

theorem applyPending_next (v : Variant) (h : Heap K D) (p : Pending K D)
    (hb : pendEnd p ≤ h.next) : (applyPending v h p).next = h.next := by
  cases p with
  | insert k t n0 root ov =>
    simp only [applyPending, insertTreeAt_next]
    simp only [pendEnd] at hb
    exact Nat.max_eq_left hb
  | ref k =>
    simp only [applyPending]
    cases e : referenceTree v h k with
    | ok h' => exact referenceTree_next v h h' k e
    | error _ => rfl
  | deref k cs =>
    simp only [applyPending]
    cases e : derefProcess v h k cs with
    | ok h' => exact derefProcess_next v h h' k cs e
    | error _ => rfl

/-- appending a commit whose effect on the atomic heap is `applyPending` -/
theorem Sim.push (v : Variant) (heap : Heap K D) (queue : List (Pending K D)) (H : Heap K D)
    (sim : Sim v ⟨v, heap, queue⟩ H) (p : Pending K D)
    (hend : pendEnd p = 0) (hok : pendOk (drainHeap v heap queue) p) :
    Sim v ⟨v, heap, queue ++ [p]⟩ (applyPending v H p) where
  var := rfl
  core := by
    show Pdb.MultiTree.core (applyPending v H p) = Pdb.MultiTree.core (drainHeap v heap (queue ++ [p]))
    rw [drainHeap_append]
    exact applyPending_core v _ _ p sim.core
  next := by
    rw [applyPending_next v H p (by omega)]
    exact sim.next
  qok := QueueOk_append v queue p heap sim.qok hok
  bound := by
    intro p' hp'
    simp only [List.mem_append, List.mem_singleton] at hp'
    rcases hp' with hp' | rfl
    · exact sim.bound p' hp'
    · show pendEnd p' ≤ heap.next
      omega

theorem sim_process (v : Variant) (s : PState K D) (H : Heap K D) (sim : Sim v s H) :
    Sim v (cmdStep s .process) H := by
  obtain ⟨sv, heap, queue⟩ := s
  have hv : sv = v := sim.var
  subst hv
  simp only [cmdStep, processOne]
  cases queue with
  | nil => exact sim
  | cons p q =>
    have hcore : ∀ h', applyPending sv heap p = h' → Sim sv ⟨sv, h', q⟩ H := by
      intro h' e
      subst e
      exact {
        var := rfl
        core := sim.core
        next := by
          show H.next = (applyPending sv heap p).next
          rw [applyPending_next sv heap p (sim.bound p (by simp))]
          exact sim.next
        qok := sim.qok.2
        bound := by
          intro p' hp'
          show pendEnd p' ≤ (applyPending sv heap p).next
          rw [applyPending_next sv heap p (sim.bound p (by simp))]
          exact sim.bound p' (List.mem_cons_of_mem _ hp') }
    cases p with
    | insert k t n0 root ov => exact hcore _ rfl
    | ref k =>
      simp only
      cases e : referenceTree sv heap k with
      | ok h' => exact hcore h' (by simp only [applyPending, e, okOr])
      | error er => exact sim
    | deref k cs =>
      simp only
      cases e : derefProcess sv heap k cs with
      | ok h' => exact hcore h' (by simp only [applyPending, e, okOr])
      | error er => exact sim

theorem sim_commit (v : Variant) (s : PState K D) (H : Heap K D) (sim : Sim v s H) (op : Op K D)
    (hl : op.legal H) : Sim v (cmdStep s (.commit op)) (stepOp v H op) := by
  obtain ⟨sv, heap, queue⟩ := s
  have hv : sv = v := sim.var
  subst hv
  have hD : core (drainHeap sv heap queue) = core H := sim.core.symm
  have hroots : (drainHeap sv heap queue).roots = H.roots := by
    have := sim.core; simp only [core, Prod.mk.injEq] at this; exact this.2.2.symm
  have hnext : H.next = heap.next := sim.next
  cases op with
  | insert k t =>
    simp only [Op.legal] at hl
    simp only [cmdStep, commitInsert, stepOp, applyOp, insertTree]
    cases hval : t.valid with
    | false => exact sim
    | true =>
      simp only [Bool.not_true, Bool.false_eq_true, if_false, if_true, okOr]
      have b := insRefs_basic true t.children (Heap.empty : Heap K D) heap.next 0
      rcases hR : insRefs true (Heap.empty : Heap K D) heap.next t.children with ⟨scratch, n1, as⟩
      simp only [hR] at b
      have hn1 : n1 = heap.next + t.children.size := b.1
      simp only
      obtain ⟨m', em⟩ := drainHeap_withNext sv queue heap n1
      have hH : H = withNext H.next (drainHeap sv heap queue) :=
        eq_withNext_of_core _ _ hD
      exact {
        var := rfl
        core := by
          show core (insertTreeAt sv H H.next k t) =
            core (drainHeap sv (withNext n1 heap)
              (queue ++ [.insert k t heap.next ⟨t.data, as⟩ scratch.nodes]))
          rw [drainHeap_append, em]
          simp only [applyPending]
          rw [insertTreeAt_withNext, hnext]
          conv => lhs; rw [hH, insertTreeAt_withNext]
          rfl
        next := by
          show (insertTreeAt sv H H.next k t).next = n1
          rw [insertTreeAt_next, hnext, hn1]
          exact Nat.max_eq_right (by omega)
        qok := by
          show QueueOk sv (withNext n1 heap) _
          apply QueueOk_append sv queue _ _ (QueueOk_withNext sv queue heap n1 sim.qok)
          rw [em]
          refine ⟨?_, ?_, ?_⟩
          · show (drainHeap sv heap queue).roots.get k = none
            rw [hroots]; exact hl.1
          · simp only [hR]
          · simp only [hR]
        bound := by
          intro p hp
          show pendEnd p ≤ n1
          simp only [List.mem_append, List.mem_singleton] at hp
          rcases hp with hp | rfl
          · have : pendEnd p ≤ heap.next := sim.bound p hp
            omega
          · simp only [pendEnd]; omega }
  | reference k =>
    simp only [cmdStep, commitRef]
    cases sv with
    | plain => exact sim
    | appendOnly => exact sim.push .appendOnly heap queue H (.ref k) rfl trivial
    | rcRoots => exact sim.push .rcRoots heap queue H (.ref k) rfl trivial
  | dereference k =>
    simp only [cmdStep, commitDeref]
    by_cases hap : sv = .appendOnly
    · simp only [hap, if_true, stepOp, applyOp, dereferenceTree, okOr]
      exact hap ▸ sim
    · simp only [hap, if_false]
      have hview := drain_root_view sv queue heap sim.qok k
      cases hvr : viewRoot (⟨sv, heap, queue⟩ : PState K D) k with
      | none =>
        have : H.roots.get k = none := by
          cases hg : H.roots.get k with
          | none => rfl
          | some e =>
            have := hview e.1 e.2 (by rw [hroots]; exact hg)
            simp only [viewRoot] at hvr
            rw [hvr] at this; cases this
        simp only [stepOp, applyOp, dereferenceTree, hap, if_false, this, okOr]
        exact sim
      | some r' =>
        simp only [okOr]
        cases hg : H.roots.get k with
        | none =>
          have hst : stepOp sv H (.dereference k) = applyPending sv H (.deref k r'.children) := by
            simp only [stepOp, applyOp, dereferenceTree, hap, if_false, hg, applyPending,
              derefProcess, okOr]
          rw [hst]
          exact sim.push sv heap queue H (.deref k r'.children) rfl trivial
        | some e =>
          obtain ⟨r, c⟩ := e
          have := hview r c (by rw [hroots]; exact hg)
          simp only [viewRoot] at hvr
          rw [hvr] at this
          simp only [Option.some.injEq] at this
          subst this
          have hst : stepOp sv H (.dereference k) = applyPending sv H (.deref k r'.children) := by
            simp only [stepOp, applyOp, dereferenceTree, hap, if_false, hg, applyPending]
          rw [hst]
          exact sim.push sv heap queue H (.deref k r'.children) rfl trivial

/-- Simulation along a whole command sequence. -/
theorem sim_run (v : Variant) (cmds : List (Cmd K D)) :
    ∀ (s : PState K D) (H : Heap K D), Sim v s H → LegalRun v H (committedOps cmds) →
      Sim v (cmds.foldl cmdStep s) (runOps v H (committedOps cmds)) := by
  induction cmds with
  | nil => intro s H sim _; exact sim
  | cons c cmds ih =>
    intro s H sim hl
    cases c with
    | process =>
      simp only [List.foldl_cons, committedOps] at hl ⊢
      exact ih _ H (sim_process v s H sim) hl
    | commit op =>
      simp only [List.foldl_cons, committedOps, LegalRun, runOps] at hl ⊢
      exact ih _ _ (sim_commit v s H sim op hl.1) hl.2

end Pdb.MultiTree
