/-
C10 / C14: the ref-count tables of a multitree column (`Pdb/Model/RcTables.lean`) refine the single
ref-count map of the heap model: every table operation commutes with `Tabs.abs` (lookup in search
order: current table, then the reindex queue newest first).

  abs_grow / abs_growN          growth does not change the lookup
  abs_insertNew / abs_replaceCur / abs_removeAll
  abs_inc / abs_dec             = mapInc / mapDec on the lookup
  abs_reindexEntry              copying an entry of the FRONT (oldest) table does not change the lookup
  shadowed_reindexEntry         ... and afterwards the entry is shadowed by a newer table
  abs_dropFront                 dropping a completely shadowed front table does not change the lookup
  abs_reindex_drop              a whole reindex pass + drop_ref_count does not change the lookup
  abs_run                       any run of inc / dec / grow / reindex passes from the empty tables
-/
import Pdb.Proofs.C10Map
import Pdb.Model.RcTables

namespace Pdb.MultiTree.Rc

/-! ## lookup lemmas -/

theorem firstHit_append (a : Nat) (l1 l2 : List Tab) :
    firstHit a (l1 ++ l2) = (firstHit a l1).or (firstHit a l2) := by
  induction l1 with
  | nil => simp [firstHit]
  | cons t ts ih => simp only [List.cons_append, firstHit, ih, Option.or_assoc]

theorem firstHit_single (a : Nat) (t : Tab) : firstHit a [t] = t.get a := by
  simp [firstHit]

theorem Tabs.abs_eq (t : Tabs) (a : Nat) :
    t.abs a = (t.cur.get a).or (firstHit a t.queue.reverse) := rfl

/-- the lookup that ignores the front (oldest) table of the queue: a hit here shadows the entry of
    the front table -/
def Tabs.shadow (t : Tabs) (a : Nat) : Option Nat :=
  firstHit a (t.cur :: (t.queue.drop 1).reverse)

theorem Tabs.shadow_eq (t : Tabs) (a : Nat) :
    t.shadow a = (t.cur.get a).or (firstHit a (t.queue.drop 1).reverse) := rfl

/-- with a non-empty queue the lookup is the shadow lookup, then the front table -/
theorem Tabs.abs_eq_shadow (t : Tabs) (f : Tab) (rest : List Tab) (hq : t.queue = f :: rest)
    (a : Nat) : t.abs a = (t.shadow a).or (f.get a) := by
  simp only [Tabs.abs_eq, Tabs.shadow_eq, hq, List.reverse_cons, firstHit_append, firstHit_single,
    List.drop_succ_cons, List.drop_zero, Option.or_assoc]

/-! ## growth -/

theorem abs_grow (t : Tabs) : t.grow.abs = t.abs := by
  funext a
  simp only [Tabs.abs, Tabs.grow, List.reverse_append, List.reverse_cons, List.reverse_nil,
    List.nil_append, List.cons_append, firstHit, FMap.get_empty, Option.none_or]

theorem abs_growN (n : Nat) (t : Tabs) : (Tabs.growN n t).abs = t.abs := by
  induction n generalizing t with
  | zero => rfl
  | succ n ih => simp only [Tabs.growN, ih, abs_grow]

theorem queue_grow (t : Tabs) : t.grow.queue = t.queue ++ [t.cur] := rfl

theorem queue_growN (n : Nat) (t : Tabs) : ∃ ext, (Tabs.growN n t).queue = t.queue ++ ext := by
  induction n generalizing t with
  | zero => exact ⟨[], by simp [Tabs.growN]⟩
  | succ n ih =>
    obtain ⟨ext, h⟩ := ih t.grow
    exact ⟨t.cur :: ext, by simp only [Tabs.growN, h, queue_grow, List.append_assoc,
      List.cons_append, List.nil_append]⟩

theorem shadow_grow (t : Tabs) (f : Tab) (rest : List Tab) (hq : t.queue = f :: rest) :
    t.grow.shadow = t.shadow := by
  funext a
  simp only [Tabs.shadow, Tabs.grow, hq, List.cons_append, List.drop_succ_cons, List.drop_zero,
    List.reverse_append, List.reverse_cons, List.reverse_nil, List.nil_append, firstHit,
    FMap.get_empty, Option.none_or]

theorem shadow_growN (n : Nat) (t : Tabs) (f : Tab) (rest : List Tab) (hq : t.queue = f :: rest) :
    (Tabs.growN n t).shadow = t.shadow := by
  induction n generalizing t rest with
  | zero => rfl
  | succ n ih =>
    have hq' : t.grow.queue = f :: (rest ++ [t.cur]) := by simp [queue_grow, hq]
    simp only [Tabs.growN, ih t.grow _ hq', shadow_grow t f rest hq]

/-! ## writes -/

theorem abs_setCur (t : Tabs) (a c : Nat) :
    (Tabs.abs { t with cur := t.cur.set a (some c) }) =
      fun x => if x = a then some c else t.abs x := by
  funext x
  simp only [Tabs.abs_eq, FMap.get_set]
  by_cases hx : x = a
  · simp [hx]
  · simp [hx]

theorem abs_insertNew (g : Nat) (t : Tabs) (a c : Nat) :
    (t.insertNew g a c).abs = fun x => if x = a then some c else t.abs x := by
  simp only [Tabs.insertNew, abs_setCur, abs_growN]

/-- unconditional: the current table is the front of the search order -/
theorem abs_replaceCur (t : Tabs) (a c : Nat) :
    (t.replaceCur a c).abs = fun x => if x = a then some c else t.abs x := by
  simp only [Tabs.replaceCur, abs_setCur]

theorem firstHit_map_remove (a x : Nat) (l : List Tab) :
    firstHit x (l.map (fun q => q.set a none)) = if x = a then none else firstHit x l := by
  induction l with
  | nil => simp [firstHit]
  | cons q l ih =>
    simp only [List.map_cons, firstHit, ih, FMap.get_set]
    by_cases hx : x = a
    · simp [hx]
    · simp [hx]

theorem abs_removeAll (t : Tabs) (a : Nat) :
    (t.removeAll a).abs = fun x => if x = a then none else t.abs x := by
  funext x
  simp only [Tabs.abs, Tabs.removeAll, firstHit, ← List.map_reverse, firstHit_map_remove,
    FMap.get_set]
  by_cases hx : x = a
  · simp [hx]
  · simp [hx]

theorem abs_inc (g : Nat) (t : Tabs) (a : Nat) : (t.inc g a).abs = mapInc t.abs a := by
  cases h : t.abs a with
  | none =>
    simp only [Tabs.inc, h, abs_insertNew]
    funext x; simp only [mapInc, h]
  | some c =>
    simp only [Tabs.inc, h]
    split
    · simp only [abs_replaceCur]; funext x; simp only [mapInc, h]
    · simp only [abs_insertNew]; funext x; simp only [mapInc, h]

theorem abs_dec (g : Nat) (t : Tabs) (a : Nat) : (t.dec g a).abs = mapDec t.abs a := by
  cases h : t.abs a with
  | none =>
    funext x
    simp only [Tabs.dec, h, mapDec]
    by_cases hx : x = a
    · simp [hx, h]
    · simp [hx]
  | some c =>
    simp only [Tabs.dec, h]
    by_cases hc : c - 1 > 1
    · simp only [hc, if_true]
      split
      · simp only [abs_replaceCur]; funext x; simp only [mapDec, h, hc, if_true]
      · simp only [abs_insertNew]; funext x; simp only [mapDec, h, hc, if_true]
    · simp only [hc, if_false, abs_removeAll]; funext x; simp only [mapDec, h, hc, if_false]

/-! ## reindexing -/

theorem abs_reindexEntry (g : Nat) (t : Tabs) (f : Tab) (rest : List Tab) (a c : Nat)
    (hq : t.queue = f :: rest) (he : f.get a = some c) :
    (t.reindexEntry g a c).abs = t.abs := by
  unfold Tabs.reindexEntry
  split
  · rfl
  · rename_i h1
    split
    · rfl
    · rename_i h2
      funext x
      simp only [abs_insertNew]
      by_cases hx : x = a
      · subst hx
        have hs : t.shadow x = none := by
          simp only [Tabs.shadow_eq, Option.not_isSome_iff_eq_none.mp h1,
            Option.not_isSome_iff_eq_none.mp h2, Option.or_none]
        simp only [if_true, Tabs.abs_eq_shadow t f rest hq, hs, he, Option.none_or]
      · simp [hx]

/-- After reindexing an entry of the front table the address is shadowed by a newer table; entries
    that were shadowed stay shadowed; the front table stays in place (growth appends at the back). -/
theorem shadowed_reindexEntry (g : Nat) (t : Tabs) (f : Tab) (rest : List Tab) (a c : Nat)
    (hq : t.queue = f :: rest) :
    ∃ ext, (t.reindexEntry g a c).queue = f :: (rest ++ ext) ∧
      ((t.reindexEntry g a c).shadow a).isSome = true ∧
      ∀ b, (t.shadow b).isSome = true → ((t.reindexEntry g a c).shadow b).isSome = true := by
  unfold Tabs.reindexEntry
  split
  · rename_i h1
    refine ⟨[], by simp [hq], ?_, fun b hb => hb⟩
    simp only [Tabs.shadow_eq, Option.isSome_or, h1, Bool.true_or]
  · split
    · rename_i h2
      refine ⟨[], by simp [hq], ?_, fun b hb => hb⟩
      simp only [Tabs.shadow_eq, Option.isSome_or, h2, Bool.or_true]
    · obtain ⟨ext, hext⟩ := queue_growN g t
      have hsh := shadow_growN g t f rest hq
      refine ⟨ext, by simp [Tabs.insertNew, hext, hq], ?_, ?_⟩
      · simp [Tabs.shadow_eq, Tabs.insertNew, FMap.get_set]
      · intro b hb
        have hb' : ((Tabs.growN g t).shadow b).isSome = true := by rw [hsh]; exact hb
        simp only [Tabs.shadow_eq, Tabs.insertNew, FMap.get_set] at hb' ⊢
        by_cases hx : b = a
        · simp [hx]
        · simpa [hx] using hb'

theorem abs_dropFront (t : Tabs) (f : Tab) (rest : List Tab) (hq : t.queue = f :: rest)
    (hs : ∀ a c, f.get a = some c → (firstHit a (t.cur :: rest.reverse)).isSome = true) :
    t.dropFront.abs = t.abs := by
  funext a
  have h1 : t.dropFront.abs a = t.shadow a := rfl
  rw [h1, Tabs.abs_eq_shadow t f rest hq]
  cases hf : f.get a with
  | none => simp
  | some c =>
    have := hs a c hf
    have hsh : t.shadow a = firstHit a (t.cur :: rest.reverse) := by
      simp [Tabs.shadow, hq]
    rw [hsh]
    cases hh : firstHit a (t.cur :: rest.reverse) with
    | none => simp [hh] at this
    | some v => simp

/-- a reindex batch over entries of the front table: the lookup is unchanged, the front table
    stays in place, shadowed addresses stay shadowed and every entry of the batch is shadowed. -/
theorem reindexBatch_inv (g : Nat) (f : Tab) (es : List (Nat × Nat))
    (hes : ∀ e ∈ es, f.get e.1 = some e.2) (t : Tabs) (rest : List Tab)
    (hq : t.queue = f :: rest) :
    ∃ ext, (t.reindexBatch g es).queue = f :: (rest ++ ext) ∧
      (t.reindexBatch g es).abs = t.abs ∧
      (∀ b, (t.shadow b).isSome = true → ((t.reindexBatch g es).shadow b).isSome = true) ∧
      (∀ e ∈ es, ((t.reindexBatch g es).shadow e.1).isSome = true) := by
  induction es generalizing t rest with
  | nil => exact ⟨[], by simp [Tabs.reindexBatch, hq], rfl, fun b hb => hb, by simp⟩
  | cons e es ih =>
    have he : f.get e.1 = some e.2 := hes e (by simp)
    obtain ⟨ext1, hq1, hsa, hsb⟩ := shadowed_reindexEntry g t f rest e.1 e.2 hq
    have habs1 := abs_reindexEntry g t f rest e.1 e.2 hq he
    obtain ⟨ext2, hq2, habs2, hsb2, hses⟩ :=
      ih (fun e' h' => hes e' (List.mem_cons_of_mem _ h')) (t.reindexEntry g e.1 e.2) _ hq1
    have hfold : t.reindexBatch g (e :: es) = (t.reindexEntry g e.1 e.2).reindexBatch g es := rfl
    rw [hfold]
    refine ⟨ext1 ++ ext2, by rw [hq2, List.append_assoc], habs2.trans habs1,
      fun b hb => hsb2 b (hsb b hb), ?_⟩
    intro e' he'
    rcases List.mem_cons.mp he' with rfl | h'
    · exact hsb2 _ hsa
    · exact hses e' h'

/-- a whole reindex pass over the front table followed by `drop_ref_count` -/
theorem abs_reindex_drop (g : Nat) (t : Tabs) (f : Tab) (rest : List Tab)
    (hq : t.queue = f :: rest) (hwf : f.WF) :
    (t.reindexBatch g f.l).dropFront.abs = t.abs := by
  obtain ⟨ext, hq', habs, _, hsh⟩ := reindexBatch_inv g f f.l
    (fun e he => (FMap.mem_iff f hwf e.1 e.2).mp he) t rest hq
  rw [abs_dropFront _ f (rest ++ ext) hq', habs]
  intro a c hf
  have := hsh (a, c) (mem_of_alLookup f.l a c hf)
  simpa [Tabs.shadow, hq'] using this

/-! ## well-formed tables (keys Nodup) -/

def Tabs.WF (t : Tabs) : Prop := t.cur.WF ∧ ∀ q ∈ t.queue, q.WF

theorem WF_empty : Tabs.empty.WF := ⟨FMap.WF_empty, by simp [Tabs.empty]⟩

theorem WF_grow (t : Tabs) (h : t.WF) : t.grow.WF := by
  refine ⟨FMap.WF_empty, ?_⟩
  intro q hq
  rcases List.mem_append.mp hq with h' | h'
  · exact h.2 q h'
  · simp only [List.mem_singleton] at h'; subst h'; exact h.1

theorem WF_growN (n : Nat) (t : Tabs) (h : t.WF) : (Tabs.growN n t).WF := by
  induction n generalizing t with
  | zero => exact h
  | succ n ih => exact ih t.grow (WF_grow t h)

theorem WF_insertNew (g : Nat) (t : Tabs) (a c : Nat) (h : t.WF) : (t.insertNew g a c).WF := by
  have := WF_growN g t h
  exact ⟨FMap.WF_set _ this.1 _ _, this.2⟩

theorem WF_replaceCur (t : Tabs) (a c : Nat) (h : t.WF) : (t.replaceCur a c).WF :=
  ⟨FMap.WF_set _ h.1 _ _, h.2⟩

theorem WF_removeAll (t : Tabs) (a : Nat) (h : t.WF) : (t.removeAll a).WF := by
  refine ⟨FMap.WF_set _ h.1 _ _, ?_⟩
  intro q hq
  obtain ⟨q', hq', rfl⟩ := List.mem_map.mp hq
  exact FMap.WF_set _ (h.2 q' hq') _ _

theorem WF_inc (g : Nat) (t : Tabs) (a : Nat) (h : t.WF) : (t.inc g a).WF := by
  unfold Tabs.inc
  split
  · split
    · exact WF_replaceCur t a _ h
    · exact WF_insertNew g t a _ h
  · exact WF_insertNew g t a _ h

theorem WF_dec (g : Nat) (t : Tabs) (a : Nat) (h : t.WF) : (t.dec g a).WF := by
  unfold Tabs.dec
  split
  · split
    · split
      · exact WF_replaceCur t a _ h
      · exact WF_insertNew g t a _ h
    · exact WF_removeAll t a h
  · exact h

theorem WF_reindexEntry (g : Nat) (t : Tabs) (a c : Nat) (h : t.WF) :
    (t.reindexEntry g a c).WF := by
  unfold Tabs.reindexEntry
  split
  · exact h
  · split
    · exact h
    · exact WF_insertNew g t a c h

theorem WF_reindexBatch (g : Nat) (t : Tabs) (es : List (Nat × Nat)) (h : t.WF) :
    (t.reindexBatch g es).WF := by
  induction es generalizing t with
  | nil => exact h
  | cons e es ih => exact ih (t.reindexEntry g e.1 e.2) (WF_reindexEntry g t e.1 e.2 h)

theorem WF_dropFront (t : Tabs) (h : t.WF) : t.dropFront.WF :=
  ⟨h.1, fun q hq => h.2 q (List.mem_of_mem_drop hq)⟩

/-! ## runs -/

inductive RcOp where
  | inc (g a : Nat)
  | dec (g a : Nat)
  | grow
  | reindexPass (g : Nat)
deriving Repr, DecidableEq

/-- one operation on the tables; a reindex pass copies every entry of the front table of the queue
    (unless shadowed) and drops the table; nothing to do with an empty queue -/
def stepTabs (t : Tabs) : RcOp → Tabs
  | .inc g a => t.inc g a
  | .dec g a => t.dec g a
  | .grow => t.grow
  | .reindexPass g =>
    match t.queue with
    | [] => t
    | f :: _ => (t.reindexBatch g f.l).dropFront

/-- the same operation on the single map: growth and reindexing are invisible -/
def stepMap (m : Nat → Option Nat) : RcOp → (Nat → Option Nat)
  | .inc _ a => mapInc m a
  | .dec _ a => mapDec m a
  | .grow => m
  | .reindexPass _ => m

theorem WF_step (t : Tabs) (op : RcOp) (h : t.WF) : (stepTabs t op).WF := by
  cases op with
  | inc g a => exact WF_inc g t a h
  | dec g a => exact WF_dec g t a h
  | grow => exact WF_grow t h
  | reindexPass g =>
    simp only [stepTabs]
    split
    · exact h
    · exact WF_dropFront _ (WF_reindexBatch g t _ h)

theorem abs_step (t : Tabs) (op : RcOp) (h : t.WF) : (stepTabs t op).abs = stepMap t.abs op := by
  cases op with
  | inc g a => exact abs_inc g t a
  | dec g a => exact abs_dec g t a
  | grow => exact abs_grow t
  | reindexPass g =>
    simp only [stepTabs, stepMap]
    split
    · rfl
    · rename_i f rest hq
      exact abs_reindex_drop g t f rest hq (h.2 f (by simp [hq]))

theorem abs_run_from (ops : List RcOp) (t : Tabs) (h : t.WF) :
    (ops.foldl stepTabs t).abs = ops.foldl stepMap t.abs ∧ (ops.foldl stepTabs t).WF := by
  induction ops generalizing t with
  | nil => exact ⟨rfl, h⟩
  | cons op ops ih =>
    simp only [List.foldl_cons]
    rw [← abs_step t op h]
    exact ih (stepTabs t op) (WF_step t op h)

/-- any run of increments, decrements, table growths and reindex passes from the empty tables:
    the table lookup is the single map of the heap model -/
theorem abs_run (ops : List RcOp) :
    (ops.foldl stepTabs Tabs.empty).abs = ops.foldl stepMap (fun _ => none) :=
  (abs_run_from ops Tabs.empty WF_empty).1

/-! ## non-vacuity -/

/-- inc 7 (-> 2), inc 7 (-> 3), growth, inc 9, dec 7 (found in the QUEUED table, the current one has
    to grow once more: new entry 2 in the new current table, the queued 3 is stale), reindex pass
    over the oldest table (its stale entry of 7 is skipped, the table is dropped), dec 9 (found in
    the remaining queued table, 2 - 1 = 1: removed everywhere), inc 7 (-> 3, current table) -/
def exampleRun : List RcOp :=
  [.inc 0 7, .inc 0 7, .grow, .inc 0 9, .dec 1 7, .reindexPass 0, .dec 0 9, .inc 0 7]

example : (exampleRun.foldl stepTabs Tabs.empty).abs 7 = some 3 := by decide
example : (exampleRun.foldl stepTabs Tabs.empty).abs 9 = none := by decide
example : (exampleRun.foldl stepMap (fun _ => none)) 7 = some 3 := by decide
example : (exampleRun.foldl stepMap (fun _ => none)) 9 = none := by decide
-- before the pass: two queued tables, the oldest holds the stale entry (7, 3), the live one is 2
example : ((exampleRun.take 5).foldl stepTabs Tabs.empty).queue.map (·.l) =
    [[(7, 3)], [(9, 2)]] := by decide
example : ((exampleRun.take 5).foldl stepTabs Tabs.empty).cur.l = [(7, 2)] := by decide
example : ((exampleRun.take 5).foldl stepTabs Tabs.empty).abs 7 = some 2 := by decide
-- after the pass: the stale entry is gone with its table, the lookup is unchanged
example : ((exampleRun.take 6).foldl stepTabs Tabs.empty).queue.map (·.l) = [[(9, 2)]] := by decide
example : ((exampleRun.take 6).foldl stepTabs Tabs.empty).abs 7 = some 2 := by decide
example : ((exampleRun.take 6).foldl stepTabs Tabs.empty).abs 9 = some 2 := by decide
-- a pass that really copies: 5 only lives in the queued table
example : ([RcOp.inc 0 5, .inc 0 5, .grow, .reindexPass 2].foldl stepTabs Tabs.empty).cur.l =
    [(5, 3)] := by decide
example : ([RcOp.inc 0 5, .inc 0 5, .grow, .reindexPass 2].foldl stepTabs Tabs.empty).queue.length
    = 2 := by decide

#print axioms abs_grow
#print axioms abs_growN
#print axioms abs_insertNew
#print axioms abs_replaceCur
#print axioms abs_removeAll
#print axioms abs_inc
#print axioms abs_dec
#print axioms abs_reindexEntry
#print axioms shadowed_reindexEntry
#print axioms abs_dropFront
#print axioms abs_reindex_drop
#print axioms abs_run

end Pdb.MultiTree.Rc
