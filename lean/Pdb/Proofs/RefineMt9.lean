/-
R6 lemmas, part 9: the fold over a list of node changes on a plain multitree column (`PlanOk`: static side condition).
-/
import Pdb.Proofs.RefineMt8
import Pdb.Proofs.C10TxBasic

namespace Pdb.MultiTreePhys
open Pdb.Gen Pdb.ValueTable Pdb.MultiTree

/-- side condition of one NewValue: the address is `Address.new offset tier` of a CLAIMED slot of the tier `claim_node`
    selects for the node, and the node is representable -/
def NVOk (rc : Bool) (ly : Layout) (a : Nat) (n : Node Bytes) : Prop :=
  a = Address.new (Address.offset a) (Address.size_tier a) ∧
  Address.offset a ∈ ly.claimed (Address.size_tier a) ∧ NodeOk n ∧ n.data.length < 2 ^ 63 ∧
  Address.size_tier a = nodeTier rc n.data.length n.children.length

/-- slots the NewValues of a list need at most (continuation parts of multipart nodes included) -/
def slotsNeeded (rc : Bool) : List NChange → Nat
  | [] => 0
  | .newValue a n :: rest =>
    numParts (tableOfTier rc (Address.size_tier a)) .noHash (encodeNode n) + slotsNeeded rc rest
  | _ :: rest => slotsNeeded rc rest

/-- static side condition on a list of node changes -/
structure PlanOk (p : PCol) (ly : Layout) (chs : List NChange) : Prop where
  nv : ∀ a n, NodeChange.newValue a n ∈ chs → NVOk p.isRc ly a n
  distinct : (newAddrs chs).Nodup
  room : ∀ tier, (p.vt tier).filled + slotsNeeded p.isRc chs ≤ 2 ^ 56

theorem claimed_nodup {p : PCol} {h : Heap Key Bytes} {ly : Layout} (r : Rep p h ly) (tier : Nat) :
    (ly.claimed tier).Nodup := by
  have hnd := (r.tiers tier).slot.nodup
  rw [List.flatten_append, singles_flatten] at hnd
  exact (List.nodup_append.mp (List.nodup_append.mp hnd).2.1).1

theorem isRc_of_plain (p : PCol) (h : p.variant = .plain) : p.isRc = false := by simp [PCol.isRc, h]

/-- the fill marks after a NewValue -/
theorem newValue_filled (p : PCol) (h : Heap Key Bytes) (ly : Layout) (r : Rep p h ly) (tier idx : Nat) (n : Node Bytes)
    (ht : tier < 256) (hidx : idx ∈ ly.claimed tier)
    (hok : WriteOk (p.vt tier) .noHash (encodeNode n))
    (hb : (p.vt tier).filled + numParts (p.vt tier) .noHash (encodeNode n) ≤ 2 ^ 56) (p' : PCol)
    (hp : physApplyNode p (.newValue (Address.new idx tier) n) = .ok p') :
    ∀ tier', (p'.vt tier').filled ≤ (p.vt tier').filled +
      (if tier' = tier then numParts (p.vt tier) .noHash (encodeNode n) else 0) := by
  have hti := r.tiers tier
  have hidxlt : idx < 2 ^ 56 := by
    have := (hti.slot.range idx (by rw [List.flatten_append, singles_flatten]; simp [hidx])).2
    have := r.bound tier
    omega
  have hat : Address.size_tier (Address.new idx tier) = tier := Index.address_tier_new idx tier hidxlt ht
  have hao : Address.offset (Address.new idx tier) = idx := Index.address_offset_new idx tier hidxlt ht
  simp only [physApplyNode, physNewValue, hat, hao] at hp
  cases hw : writeClaimed (p.vt tier) (encodeNode n) idx with
  | error e => rw [hw] at hp; simp at hp
  | ok w =>
    rw [hw] at hp
    simp only [Except.ok.injEq] at hp
    subst hp
    have hfl := tier_write_filled (p.vt tier) (ly.free tier) (ly.claimed tier) _ (encodeNode n) idx hti hidx hok
      (by omega) w hw
    intro tier'
    by_cases he : tier' = tier
    · subst he; rw [setVT_same, if_pos rfl]; exact hfl
    · rw [setVT_other _ _ _ _ he, if_neg he]; omega

theorem newAddrs_cons_nv (a : Nat) (n : Node Bytes) (rest : List NChange) :
    newAddrs (NodeChange.newValue (K := Key) a n :: rest) = a :: newAddrs rest := rfl

theorem mem_newAddrs {a : Nat} {n : Node Bytes} {chs : List NChange} (h : NodeChange.newValue a n ∈ chs) :
    a ∈ newAddrs chs := by
  unfold newAddrs
  exact List.mem_filterMap.mpr ⟨_, h, rfl⟩

/-- the `node_changes` loop on a plain column: whenever C10's fold succeeds, the physical fold succeeds and represents
    its result -/
theorem sim_nodeChanges : ∀ (chs : List NChange) (p : PCol) (h h' : Heap Key Bytes) (ly : Layout), Rep p h ly →
    p.variant = .plain → PlanOk p ly chs → chs.foldlM (applyNodeChangeH .plain) h = .ok h' →
    ∃ p' ly', chs.foldlM physApplyNode p = .ok p' ∧ Rep p' h' ly' ∧ p'.variant = p.variant ∧
      (∀ tier o, o ∈ ly'.claimed tier → o ∈ ly.claimed tier ∧
        ∀ a n, NodeChange.newValue a n ∈ chs → ¬ (Address.size_tier a = tier ∧ Address.offset a = o)) := by
  intro chs
  induction chs with
  | nil =>
    intro p h h' ly r _ _ hf
    simp only [List.foldlM_nil] at hf
    injection hf with hf
    subst hf
    exact ⟨p, ly, rfl, r, rfl, fun _ _ ho => ⟨ho, fun _ _ hm => by simp at hm⟩⟩
  | cons c rest ih =>
    intro p h h' ly r hv hpl hf
    have hrc := isRc_of_plain p hv
    simp only [List.foldlM_cons] at hf ⊢
    cases h1 : applyNodeChangeH .plain h c with
    | error e => rw [h1] at hf; simp [bind, Except.bind] at hf
    | ok hm =>
      rw [h1] at hf
      simp only [bind, Except.bind] at hf
      -- one step, then the induction hypothesis
      suffices hs : ∃ pm lym, physApplyNode p c = .ok pm ∧ Rep pm hm lym ∧ pm.variant = p.variant ∧
          PlanOk pm lym rest ∧
          (∀ tier o, o ∈ lym.claimed tier → o ∈ ly.claimed tier ∧
            ∀ a n, c = NodeChange.newValue a n → ¬ (Address.size_tier a = tier ∧ Address.offset a = o)) by
        obtain ⟨pm, lym, hpm, rm, hvm, hplm, hleft⟩ := hs
        obtain ⟨p', ly', hp', r', hv', hleft'⟩ := ih pm hm h' lym rm (hvm.trans hv) hplm hf
        refine ⟨p', ly', ?_, r', hv'.trans hvm, ?_⟩
        · rw [hpm]; simp only [bind, Except.bind]; exact hp'
        · intro tier o ho
          obtain ⟨h1, h2⟩ := hleft' tier o ho
          obtain ⟨h3, h4⟩ := hleft tier o h1
          refine ⟨h3, ?_⟩
          intro a n hm
          rcases List.mem_cons.mp hm with e | hm
          · exact h4 a n e.symm
          · exact h2 a n hm
      cases c with
      | incRef a =>
        simp only [applyNodeChangeH, Except.ok.injEq] at h1
        subst h1
        obtain ⟨pm, he, rm⟩ := sim_incRef p h ly r a
        have hpm : pm = { p with rc := (incRef (⟨.empty, p.rc, .empty, 0⟩ : Heap Key Bytes) a).rc } := by
          simp only [physApplyNode, Except.ok.injEq] at he; exact he.symm
        refine ⟨pm, ly, he, rm, by rw [hpm], ?_, fun _ _ ho => ⟨ho, fun _ _ e => by cases e⟩⟩
        subst hpm
        refine ⟨fun a' n' hm' => hpl.nv a' n' (List.mem_cons_of_mem _ hm'), hpl.distinct, hpl.room⟩
      | derefChildren k cs =>
        simp only [applyNodeChangeH] at h1
        cases hg : h.roots.get k with
        | none =>
          simp only [derefProcess, hg, Except.ok.injEq] at h1
          subst h1
          refine ⟨p, ly, ?_, r, rfl, ⟨fun a' n' hm' => hpl.nv a' n' (List.mem_cons_of_mem _ hm'), hpl.distinct,
            hpl.room⟩, fun _ _ ho => ⟨ho, fun _ _ e => by cases e⟩⟩
          simp only [physApplyNode, r.roots.rootNone k hg]
        | some rcnt =>
          obtain ⟨pm, lym, hpm, rm, hvm, hcl⟩ := sim_derefChange_plain_full p h hm ly r k cs hv (by simp [hg]) h1
          have hsf := physApplyDeref_filled p k cs pm hrc hpm
          have hrcm : pm.isRc = p.isRc := by simp [PCol.isRc, hvm]
          refine ⟨pm, lym, hpm, rm, hvm, ⟨?_, hpl.distinct, ?_⟩, fun tier o ho => ⟨by rw [hcl] at ho; exact ho,
            fun _ _ e => by cases e⟩⟩
          · intro a' n' hm'
            have := hpl.nv a' n' (List.mem_cons_of_mem _ hm')
            unfold NVOk at this ⊢
            rw [hrcm, hcl]; exact this
          · intro tier
            rw [hrcm, hsf tier]; exact hpl.room tier
      | newValue a n =>
        simp only [applyNodeChangeH, Except.ok.injEq] at h1
        subst h1
        obtain ⟨heq, hcl, hn, hd, htier⟩ := hpl.nv a n List.mem_cons_self
        have ht : Address.size_tier a < 256 := size_tier_lt' a
        have hcfgT := r.cfg (Address.size_tier a)
        have hok : WriteOk (p.vt (Address.size_tier a)) .noHash (encodeNode n) := by
          apply node_writeOk p.isRc
          rw [← encodeNode_tier p.isRc n hn hd, ← htier]; exact hcfgT
        have hnp : numParts (p.vt (Address.size_tier a)) .noHash (encodeNode n) =
            numParts (tableOfTier p.isRc (Address.size_tier a)) .noHash (encodeNode n) :=
          numParts_cfg _ _ hcfgT _ _
        have hroom := hpl.room
        simp only [slotsNeeded] at hroom
        have hb : (p.vt (Address.size_tier a)).filled +
            numParts (p.vt (Address.size_tier a)) .noHash (encodeNode n) ≤ 2 ^ 56 := by
          rw [hnp]; have := hroom (Address.size_tier a); omega
        obtain ⟨pm, c, hpm, rm, _, hvm⟩ := sim_newValue p h ly r (Address.size_tier a) (Address.offset a) n ht hcl hn
          hok hb
        have hfl := newValue_filled p h ly r (Address.size_tier a) (Address.offset a) n ht hcl hok hb pm hpm
        rw [← heq] at hpm rm
        have hrcm : pm.isRc = p.isRc := by simp [PCol.isRc, hvm]
        have hnd := hpl.distinct
        rw [newAddrs_cons_nv, List.nodup_cons] at hnd
        refine ⟨pm, _, hpm, rm, hvm, ⟨?_, hnd.2, ?_⟩, ?_⟩
        rotate_left 2
        · intro tier o ho
          by_cases he : tier = Address.size_tier a
          · subst he
            simp only [upd_same] at ho
            have := (List.Nodup.mem_erase_iff (claimed_nodup r _)).mp ho
            refine ⟨this.2, ?_⟩
            intro a' n' e
            injection e with e1 _
            subst e1
            intro hh; exact this.1 hh.2.symm
          · simp only [upd_other _ _ _ _ he] at ho
            refine ⟨ho, ?_⟩
            intro a' n' e
            injection e with e1 _
            subst e1
            intro hh; exact he hh.1.symm
        · intro a' n' hm'
          obtain ⟨heq', hcl', hn', hd', htier'⟩ := hpl.nv a' n' (List.mem_cons_of_mem _ hm')
          have hne : a' ≠ a := fun e => hnd.1 (e ▸ mem_newAddrs hm')
          refine ⟨heq', ?_, hn', hd', by rw [hrcm]; exact htier'⟩
          by_cases he : Address.size_tier a' = Address.size_tier a
          · rw [he]
            simp only [upd_same]
            apply (List.mem_erase_of_ne ?_).mpr
            · rw [← he]; exact hcl'
            · intro eo
              apply hne
              rw [heq', heq, he, eo]
          · simp only [upd_other _ _ _ _ he]; exact hcl'
        · intro tier
          rw [hrcm]
          have h1 := hfl tier
          have h2 := hroom tier
          by_cases he : tier = Address.size_tier a
          · rw [if_pos he] at h1; rw [← he] at hnp; subst he; omega
          · rw [if_neg he] at h1; omega

end Pdb.MultiTreePhys
