/-
R6: the physical multitree column (one byte-level value table per size tier, node bytes as the crate writes them,
addresses `Address.new offset tier`, per-tier free lists) refines the abstract heap of C10 (Pdb/Model/MultiTree.lean).

The relation `Rep p h ly` (Pdb/Proofs/RefineMt2.lean) maps abstract addresses to (tier, offset) by the IDENTITY on
numbers: the abstract operations `nodes.set a ..`, `incRef`, `decRef`, `derefChildren` are address-agnostic (the abstract
single LIFO stack only chooses WHICH numbers `claimEntries` hands out; `C10R_insert_reuse` / `C10T_tx_RcInv` hold for
every choice), so the physical column is simulated with the addresses it really uses.  The ghost `Layout` carries what
the abstract heap does not know: per tier the free list (`free_entries.stack`), the claimed slots, the chain of slots of
every node (multipart nodes: several slots, address = head slot) and the chains of the root values that share the tables.

  R6_codec_roundtrip / R6_codec_rejects_256   node bytes decode to the node for <= 255 children; a tree with a wider node is
                                             rejected by `commit` before anything is claimed (fix d16464e)
  R6_address                                 `Address.new` packs (offset, tier) injectively into the number the heap uses
  R6_init                                    the empty column represents the empty heap
  R6_claim                                   `claim_entries(n)` on a tier: LIFO pop of THAT tier's free list, then fresh slots
  R6_plan_is_abstract_plan / R6_claim_tree   `claim_tree_values` (per tier parent-first) = abstract `planRefs` on the supply of
                                             the claimed addresses read in push order; the whole claim phase keeps `Rep` with
                                             the SAME heap
  R6_newValue / R6_newValue_tier             NewValue at a claimed address = `nodes.set a (some n)`, reads back, `WriteOk`
                                             discharged by the tier `claim_node` selects
  R6_incRef                                  IncrementReference = `incRef`
  R6_deref_walk                              `write_dereference_children_plan` = `derefChildren`: nodes with a count entry stay,
                                             the others are removed and their slots pushed on the free list of their own tier
  R6_shared_survives / R6_last_deref_all_free   a node with a count entry survives a decrement untouched; when the last
                                             dereference leaves the heap empty every used slot of every table is free
  R6_get_node / R6_read_back                 `get_node` = abstract node; every tree the abstract heap reads is read from bytes
  R6_slot_inv                                per-tier `SlotInv` (C06 / C14 slot clause) holds in every represented state
  R6_all_free                                no node, no root value, no claim: every used slot of every table is free
  R6_setRoot_new                             `Operation::Set(key, packed root)` on a fresh key = `roots.set k (some (root, 1))`; the
                                             root value takes its slots from the free list of ITS tier (shared with the nodes)
  R6_derefRoot_plain                         removal of a root entry (column without `ref_counted`) = `roots.set k none`, slots pushed
  R6_deref_change                            the whole `DereferenceChildren(key, children)` change of a plain column = `derefProcess`,
                                             with the model's own fuel (`R6_fuel`: `physFuel` covers `walkFuel`; `R6_fuel_mono`)
  R6_setRoot_rc_live / R6_refRoot_rc / R6_deref_change_rc   `ref_counted` columns: the root count is the counter field stored in
                                             front of the key tail (`write_inc_ref` / `write_dec_ref` = `ValueTable.changeRef`, on
                                             top of the R5 lemmas): Set on a live key and Reference raise it, DereferenceChildren
                                             lowers it and removes + walks only at 1 (= `applyRootChange` / `derefProcess .rcRoots`)
Not covered by a theorem (executed by the model and compared with the real column by the harness `mtphys` only): `Set` on a live
key of a column WITHOUT `ref_counted` (replacement of a live root, outside C10's `LegalInOrder`), the postponed `Set` of
`[DereferenceTree k, InsertTree k]`, saturation of the stored counter at `LOCKED_REF` (R5_saturates).
-/
import Pdb.Proofs.RefineMt7

namespace Pdb.MultiTreePhys
open Pdb.Gen Pdb.ValueTable Pdb.MultiTree Pdb.RefineRc

/-! ## codec -/

/-- R6_codec_roundtrip: `unpack_node_data (pack n) = n` for every node with at most 255 children (addresses are u64). -/
theorem R6_codec_roundtrip (n : Node Bytes) (hn : n.children.length ≤ 255) (hc : ∀ c ∈ n.children, c < 2 ^ 64) :
    decodeNode (encodeNode n) = some n := decode_encode n ⟨hn, hc⟩

example : decodeNode (encodeNode ⟨[1, 2, 3], [Address.new 5 0, Address.new 1 255]⟩) =
    some ⟨[1, 2, 3], [Address.new 5 0, Address.new 1 255]⟩ :=
  R6_codec_roundtrip _ (by decide) (by decide)

/-- with 256 children the count byte wraps to 0: the bytes decode to a DIFFERENT node (why the crate must reject) -/
theorem R6_codec_256_wrong (d : Bytes) (cs : List Nat) (h : cs.length = 256) :
    decodeNode (encodeNode ⟨d, cs⟩) = some ⟨d ++ cs.flatMap u64le, []⟩ := by
  unfold decodeNode encodeNode
  rw [unpack_pack_wrapped d cs (by rw [h])]

/-- R6_codec_rejects_256: a transaction with a new node of more than 255 children is rejected by `commit` with
    `InvalidInput` and the state (tables, queue) is unchanged: nothing was claimed. -/
theorem R6_codec_rejects_256 (db : PDb) (k : Key) (t : NewNode Bytes) (h : 255 < t.maxFan) :
    db.commit [.insert k t] = (db, .error (.mt .invalidInput)) := by
  unfold PDb.commit
  have hv : validateOps db.col.variant db.viewRoot ([POp.insert k t].map POp.toOp) = .invalidInput := by
    simp only [List.map_cons, List.map_nil, POp.toOp, validateOps, Op.kind, Validate.validateChange]
    cases db.col.variant <;> simp [Variant.opts, h]
  rw [hv]

/-- the tree: a root with 256 leaf children -/
def exWide : NewNode Bytes := ⟨[1], NRefs.ofList (List.replicate 256 (.new [] .nil))⟩
set_option maxRecDepth 100000 in
example : 255 < exWide.maxFan := by decide

/-! ## addresses -/

/-- R6_address: `(tier, offset)` is recovered from the packed address (the number used as abstract address), so the
    renaming abstract address -> (tier, offset) is injective. -/
theorem R6_address (off tier : Nat) (ho : off < 2 ^ 56) (ht : tier < 256) :
    Address.size_tier (Address.new off tier) = tier ∧ Address.offset (Address.new off tier) = off :=
  ⟨Index.address_tier_new off tier ho ht, Index.address_offset_new off tier ho ht⟩

theorem R6_address_injective (o1 t1 o2 t2 : Nat) (h1 : o1 < 2 ^ 56) (h2 : o2 < 2 ^ 56) (ht1 : t1 < 256)
    (ht2 : t2 < 256) (h : Address.new o1 t1 = Address.new o2 t2) : o1 = o2 ∧ t1 = t2 := by
  have a := R6_address o1 t1 h1 ht1
  have b := R6_address o2 t2 h2 ht2
  rw [h] at a
  exact ⟨a.2.symm.trans b.2, a.1.symm.trans b.1⟩

/-! ## the simulation -/

/-- R6_init: the empty column represents the empty heap. -/
theorem R6_init (v : Variant) : Rep (PCol.init v) Heap.empty Layout.empty := rep_init v

/-- R6_slot_inv: in every represented state every table satisfies C06's `SlotInv` (free list, claimed slots and live
    chains partition the used slots) - the slot clause of C14 for the tables of a multitree column. -/
theorem R6_slot_inv {p : PCol} {h : Heap Key Bytes} {ly : Layout} (r : Rep p h ly) (tier : Nat) :
    SlotInv (p.vt tier) (ly.free tier)
      (singles (ly.claimed tier) ++ ((ly.nodes tier).map ly.chain ++ ly.other tier)) :=
  (r.tiers tier).slot

/-- R6_claim: `claim_entries(n)` on one tier takes the first `n` slots of THAT tier's free list (most recently freed
    first) and then fresh slots from the fill mark; the heap is unchanged, the slots become claimed. -/
theorem R6_claim {p : PCol} {h : Heap Key Bytes} {ly : Layout} (r : Rep p h ly) (tier n : Nat)
    (hb : (p.vt tier).filled + n ≤ 2 ^ 56) :
    ∃ t', allocN (p.vt tier) n = .ok (t', (ly.free tier).take n ++
        List.range' (p.vt tier).filled (n - (ly.free tier).length)) ∧
      Rep (p.setVT tier t') h
        { ly with free := upd ly.free tier ((ly.free tier).drop n),
                  claimed := upd ly.claimed tier (ly.claimed tier ++ ((ly.free tier).take n ++
                    List.range' (p.vt tier).filled (n - (ly.free tier).length))) } ∧
      t'.filled = (p.vt tier).filled + (n - (ly.free tier).length) ∧ SameCfg (p.vt tier) t' :=
  sim_claim p h ly r tier n hb

/-- R6_claim_tree: the claim phase of `commit_changes` for one InsertTree (`claim_tree_values`): nothing but claims happens
    (the same heap `h` is represented, slots claimed before stay claimed), the root node carries the tree's data, and the
    assembled node changes ARE the abstract plan `planRefs` of C10 run on the claimed addresses in push order - so the change
    set queued by the physical commit is a change set of the C10 transaction model (`C10T_*` hold for every supply). -/
theorem R6_claim_tree {p : PCol} {h : Heap Key Bytes} {ly : Layout} (r : Rep p h ly) (t : NewNode Bytes)
    (hb : ∀ tier, (p.vt tier).filled +
      ((tierCounts (tiersRefs p.isRc t.children)).map Prod.snd).sum ≤ 2 ^ 56) :
    ∃ p' root chs ly', physClaimTree p t = .ok (p', root, chs) ∧ Rep p' h ly' ∧ p'.variant = p.variant ∧
      root.data = t.data ∧
      planRefs (K := Key) p.isAppendOnly (newAddrs chs) t.children = (chs, [], root.children) ∧
      (∀ tier o, o ∈ ly.claimed tier → o ∈ ly'.claimed tier) :=
  sim_claimTree p h ly r t hb

/-- a tree with two new nodes of different tiers below the root, on the empty column -/
def exTree : NewNode Bytes :=
  ⟨[1], .cons (.new [7, 7] (.cons (.new (List.replicate 100 3) .nil) .nil)) .nil⟩

set_option maxRecDepth 100000 in
example : ∃ p' root chs ly', physClaimTree (PCol.init .plain) exTree = .ok (p', root, chs) ∧
    Rep p' (Heap.empty : Heap Key Bytes) ly' ∧ root.data = [1] := by
  obtain ⟨p', root, chs, ly', h1, h2, _, h4, _⟩ := R6_claim_tree (R6_init .plain) exTree (by
    intro tier
    rw [init_filled]
    have : ((tierCounts (tiersRefs (PCol.init .plain).isRc exTree.children)).map Prod.snd).sum = 2 := by decide
    rw [this]; decide)
  exact ⟨p', root, chs, ly', h1, h2, h4⟩

/-- R6_plan_is_abstract_plan: the node changes `claim_tree_values` assembles (slots assigned per tier, parent before
    children) are exactly what the abstract `planRefs` of C10 assembles from ONE supply: the claimed addresses in push
    order.  Hence every C10 theorem about `planRefs` / `applyChangeSet` with an arbitrary supply speaks about the
    physical change set. -/
theorem R6_plan_is_abstract_plan (rc ap : Bool) (s : Supply) (cs : NRefs Bytes) :
    planRefs (K := Key) ap (newAddrs (physPlanRefs rc ap s cs).1) cs =
      ((physPlanRefs rc ap s cs).1, [], (physPlanRefs rc ap s cs).2.2) := by
  have := physPlanRefs_eq rc ap s cs []
  simpa using this

/-- R6_newValue: writing the packed node to a claimed slot is simulated by `nodes.set a (some n)` with
    `a = Address.new idx tier`; the node reads back; the tier's free list loses the slots popped for continuation parts. -/
theorem R6_newValue {p : PCol} {h : Heap Key Bytes} {ly : Layout} (r : Rep p h ly)
    (tier idx : Nat) (n : Node Bytes) (ht : tier < 256)
    (hidx : idx ∈ ly.claimed tier) (hn : NodeOk n)
    (hok : WriteOk (p.vt tier) .noHash (encodeNode n))
    (hb : (p.vt tier).filled + numParts (p.vt tier) .noHash (encodeNode n) ≤ 2 ^ 56) :
    ∃ p' c, physApplyNode p (.newValue (Address.new idx tier) n) = .ok p' ∧
      Rep p' { h with nodes := h.nodes.set (Address.new idx tier) (some n) }
        { ly with free := upd ly.free tier ((ly.free tier).drop (numParts (p.vt tier) .noHash (encodeNode n) - 1)),
                  claimed := upd ly.claimed tier ((ly.claimed tier).erase idx),
                  nodes := upd ly.nodes tier (Address.new idx tier :: ly.nodes tier),
                  chain := upd ly.chain (Address.new idx tier) c } ∧
      physGetNode p' (Address.new idx tier) = some n ∧ p'.variant = p.variant :=
  sim_newValue p h ly r tier idx n ht hidx hn hok hb

/-- R6_newValue_tier: for the tier `claim_node` selects, `WriteOk` (the `assert!` of `overwrite_chain`, and "long" for
    the multipart table) needs no hypothesis. -/
theorem R6_newValue_tier {p : PCol} {h : Heap Key Bytes} {ly : Layout} (r : Rep p h ly)
    (n : Node Bytes) (hn : NodeOk n) (hd : n.data.length < 2 ^ 63) :
    nodeTier p.isRc n.data.length n.children.length < 256 ∧
    WriteOk (p.vt (nodeTier p.isRc n.data.length n.children.length)) .noHash (encodeNode n) := by
  rw [encodeNode_tier p.isRc n hn hd]
  exact ⟨tierOfLen_lt_256 _ _ _, node_writeOk p.isRc _ _ (r.cfg _)⟩

/-- R6_incRef -/
theorem R6_incRef {p : PCol} {h : Heap Key Bytes} {ly : Layout} (r : Rep p h ly) (a : Nat) :
    ∃ p', physApplyNode p (.incRef a) = .ok p' ∧ Rep p' (incRef h a) ly :=
  sim_incRef p h ly r a

/-- R6_deref_walk: whenever the abstract walk of C10 succeeds (it always does under `RcInv`: `C10_walk_fuel`), the
    physical walk (children read from the slot bytes BEFORE the decrement, `write_remove_plan` on the node's tier)
    succeeds and ends in a state representing the abstract result; free lists only grow at the top, claimed slots and
    root value chains are untouched. -/
theorem R6_deref_walk (fuel : Nat) (cs : List Nat) {p : PCol} {h h' : Heap Key Bytes} {ly : Layout}
    (r : Rep p h ly) (hw : derefChildren fuel h cs = .ok h') :
    ∃ p' ly', physDerefChildren fuel p cs = .ok p' ∧ Rep p' h' ly' ∧ Pushed ly ly' ∧ p'.variant = p.variant :=
  sim_walk fuel cs p h h' ly r hw

/-- R6_remove_pushes: one removal pushes the slots of the node's chain on the free list of ITS tier, last part on top
    (so the next claim of that tier gets them back in LIFO order, `R6_claim`). -/
theorem R6_remove_pushes {p : PCol} {h : Heap Key Bytes} {ly : Layout} (r : Rep p h ly) (a : Nat) (n : Node Bytes)
    (hg : h.nodes.get a = some n) (hrc : h.rc.get a = none) :
    ∃ p', physDecRef p a = .ok (false, p') ∧
      Rep p' { h with nodes := h.nodes.set a none }
        { ly with free := upd ly.free (Address.size_tier a) ((ly.chain a).reverse ++ ly.free (Address.size_tier a)),
                  nodes := upd ly.nodes (Address.size_tier a) ((ly.nodes (Address.size_tier a)).erase a) } ∧
      p'.variant = p.variant :=
  sim_remove p h ly r a n hg hrc

/-- R6_get_node: `get_node` on a live address decodes the slot bytes to the abstract node. -/
theorem R6_get_node {p : PCol} {h : Heap Key Bytes} {ly : Layout} (r : Rep p h ly) (a : Nat) (n : Node Bytes)
    (hn : h.nodes.get a = some n) : physGetNode p a = some n := r.getNode a n hn

/-- R6_read_back: every (sub)tree the abstract heap reads (`C10_read_back`, `C10T_read_back`) is read, node for node,
    from the slot bytes of the physical column. -/
theorem R6_read_back {p : PCol} {h : Heap Key Bytes} {ly : Layout} (r : Rep p h ly) (fuel a : Nat)
    (t : LTree Bytes) (ht : readNode h.nodes.get fuel a = some t) :
    readNode (physGetNode p) fuel a = some t := readNode_transfer r fuel a t ht

/-- R6_all_free: when the abstract heap holds no node (`C10_all_deref_empty`), no root value is stored and no claim is
    pending, every used slot of every table is on its free list: zero entries, physically. -/
theorem R6_all_free {p : PCol} {h : Heap Key Bytes} {ly : Layout} (r : Rep p h ly)
    (hn : ∀ a, h.nodes.get a = none) (hr : ∀ k, h.roots.get k = none) (hc : ∀ tier, ly.claimed tier = []) :
    ∀ tier, SlotInv (p.vt tier) (ly.free tier) [] ∧ (ly.free tier).length + 1 = (p.vt tier).filled :=
  rep_empty_all_free r hn hr hc


/-! ## roots -/

/-- R6_setRoot_new: `Operation::Set(key, packed root)` for a key without root entry is simulated by
    `applyRootChange (.set k root)` on a fresh key (`roots.set k (some (root, 1))`); `get_root` returns the root with count 1;
    the value's slots are popped from the free list of the root's tier - the same list node claims pop. -/
theorem R6_setRoot_new {p : PCol} {h : Heap Key Bytes} {ly : Layout} (r : Rep p h ly) (k : Key)
    (root : Node Bytes) (hk : k.length = 32) (hnew : h.roots.get k = none) (hn : NodeOk root)
    (hb : (p.vt (rootTier p.isRc k (encodeNode root).length)).filled +
      numParts (p.vt (rootTier p.isRc k (encodeNode root).length)) (keyTail k) (encodeNode root) ≤ 2 ^ 56) :
    ∃ p' c, physApplyRoot p (.set k root) = .ok p' ∧
      Rep p' { h with roots := h.roots.set k (some (root, 1)) }
        { ly with
          free := upd ly.free (rootTier p.isRc k (encodeNode root).length)
            ((ly.free (rootTier p.isRc k (encodeNode root).length)).drop
              (numParts (p.vt (rootTier p.isRc k (encodeNode root).length)) (keyTail k) (encodeNode root))),
          other := upd ly.other (rootTier p.isRc k (encodeNode root).length)
            (c :: ly.other (rootTier p.isRc k (encodeNode root).length)),
          rootKeys := upd ly.rootKeys (rootTier p.isRc k (encodeNode root).length)
            (k :: ly.rootKeys (rootTier p.isRc k (encodeNode root).length)),
          rchain := updK ly.rchain k c } ∧
      physGetRoot p' k = some (root, 1) ∧ p'.variant = p.variant :=
  sim_setRoot_new p h ly r k root hk hnew hn hb

/-- the abstract side of `R6_setRoot_new` is C10's `applyRootChange` -/
theorem R6_setRoot_new_abstract (v : Variant) (h : Heap Key Bytes) (k : Key) (root : Node Bytes)
    (hnew : h.roots.get k = none) :
    applyRootChange v h (.set k root) = { h with roots := h.roots.set k (some (root, 1)) } := by
  simp only [applyRootChange, hnew]
  cases v <;> rfl

/-- R6_derefRoot_plain: removing a root entry on a column without `ref_counted` pushes the slots of the root value on the
    free list of its tier and is simulated by `roots.set k none`. -/
theorem R6_derefRoot_plain {p : PCol} {h : Heap Key Bytes} {ly : Layout} (r : Rep p h ly) (k : Key)
    (n : Node Bytes) (c : Nat) (hrcol : p.isRc = false) (hg : h.roots.get k = some (n, c)) :
    ∃ p' a, p.index.get k = some a ∧ physDerefRoot p k = .ok (true, p') ∧
      Rep p' { h with roots := h.roots.set k none }
        { ly with
          free := upd ly.free (Address.size_tier a) ((ly.rchain k).reverse ++ ly.free (Address.size_tier a)),
          other := upd ly.other (Address.size_tier a) (((ly.rootKeys (Address.size_tier a)).erase k).map ly.rchain),
          rootKeys := upd ly.rootKeys (Address.size_tier a) ((ly.rootKeys (Address.size_tier a)).erase k) } ∧
      p'.variant = p.variant :=
  sim_derefRoot_plain p h ly r k n c hrcol hg

/-- R6_fuel_mono: a physical walk that succeeded gives the same result with any larger fuel. -/
theorem R6_fuel_mono (f f' : Nat) (hle : f ≤ f') (p : PCol) (cs : List Nat) (p' : PCol)
    (h : physDerefChildren f p cs = .ok p') : physDerefChildren f' p cs = .ok p' :=
  physDeref_mono f f' hle p cs p' h

/-- R6_fuel: the fuel the executable walk computes (`physFuel`: sum of the fill marks of all tables + number of children + 1)
    covers the abstract `walkFuel` (number of nodes + 1): every node address is in the node list of its tier and every
    chain occupies a slot. -/
theorem R6_fuel {p : PCol} {h : Heap Key Bytes} {ly : Layout} (r : Rep p h ly) (cs : List Nat) :
    walkFuel h ≤ physFuel p cs := walkFuel_le_physFuel r cs

/-- R6_deref_change: on a plain multitree column, whenever C10's `derefProcess` succeeds on a live root (it always does under
    `RcInv`), the physical `DereferenceChildren` change - root entry removed, walk with the model's own fuel - succeeds and its
    result represents the abstract result. -/
theorem R6_deref_change {p : PCol} {h h' : Heap Key Bytes} {ly : Layout} (r : Rep p h ly) (k : Key)
    (cs : List Nat) (hv : p.variant = .plain) (hlive : (h.roots.get k).isSome)
    (hw : derefProcess .plain h k cs = .ok h') :
    ∃ p' ly', physApplyNode p (.derefChildren k cs) = .ok p' ∧ Rep p' h' ly' ∧ p'.variant = p.variant ∧
      ly'.claimed = ly.claimed :=
  sim_derefChange_plain_full p h h' ly r k cs hv hlive hw

/-- R6_shared_survives ("shared nodes live until unreferenced", physically): a node whose count has an entry (> 1
    references) survives `write_address_dec_ref_plan`: only the ref-count entry changes (as C10's `decRef`), no slot is
    touched, the node still reads from its slot. -/
theorem R6_shared_survives {p : PCol} {h : Heap Key Bytes} {ly : Layout} (r : Rep p h ly) (a : Nat) (n : Node Bytes)
    (c : Nat) (hg : h.nodes.get a = some n) (hrc : h.rc.get a = some c) :
    ∃ p', physDecRef p a = .ok (true, p') ∧ Rep p' (MultiTree.decRef h a).2 ly ∧ (MultiTree.decRef h a).1 = true ∧
      physGetNode p' a = some n :=
  sim_shared_survives p h ly r a n c hg hrc

/-- R6_last_deref_all_free ("zero entries after all dereferences", physically): when the DereferenceChildren change of the
    last root leaves the abstract heap without node and root (`C10_all_deref_empty`, `C10T_all_deref_reclaimed`) and no
    claim is pending, every used slot of every table of the column is on its free list afterwards. -/
theorem R6_last_deref_all_free {p : PCol} {h h' : Heap Key Bytes} {ly : Layout} (r : Rep p h ly) (k : Key)
    (cs : List Nat) (hv : p.variant = .plain) (hlive : (h.roots.get k).isSome)
    (hw : derefProcess .plain h k cs = .ok h')
    (hn : ∀ a, h'.nodes.get a = none) (hr : ∀ k', h'.roots.get k' = none) (hc : ∀ tier, ly.claimed tier = []) :
    ∃ (p' : PCol) (ly' : Layout), physApplyNode p (.derefChildren k cs) = .ok p' ∧
      ∀ tier, SlotInv (p'.vt tier) (ly'.free tier) [] ∧ (ly'.free tier).length + 1 = (p'.vt tier).filled := by
  obtain ⟨p', ly', h1, r', _, hcl⟩ := R6_deref_change r k cs hv hlive hw
  exact ⟨p', ly', h1, R6_all_free r' hn hr (fun tier => by rw [hcl]; exact hc tier)⟩

/-! ## roots of `ref_counted` columns: the stored counter -/

/-- R6_setRoot_rc_live: `Operation::Set(key, _)` on a LIVE key of a `ref_counted` multitree column is `write_inc_ref` on the
    counter field of the stored root value: simulated by C10's `applyRootChange .rcRoots h (.set k _)` (count + 1, value kept);
    no slot moves.  `c + 1 < LOCKED_REF`: the stored counter saturates (R5_saturates), the abstract count does not. -/
theorem R6_setRoot_rc_live {p : PCol} {h : Heap Key Bytes} {ly : Layout} (r : Rep p h ly) (k : Key)
    (n root' : Node Bytes) (c : Nat) (hk : k.length = 32) (hv : p.variant = .rcRoots)
    (hg : h.roots.get k = some (n, c)) (hle : c + 1 < LOCKED_REF) :
    ∃ p', physApplyRoot p (.set k root') = .ok p' ∧ Rep p' (applyRootChange .rcRoots h (.set k root')) ly ∧
      p'.variant = p.variant :=
  sim_setRoot_rc_live p h ly r k n root' c hk hv hg hle

/-- R6_refRoot_rc: `Operation::Reference(key)` (ReferenceTree) on a live root = `applyRootChange .rcRoots h (.reference k)`. -/
theorem R6_refRoot_rc {p : PCol} {h : Heap Key Bytes} {ly : Layout} (r : Rep p h ly) (k : Key)
    (n : Node Bytes) (c : Nat) (hk : k.length = 32) (hv : p.variant = .rcRoots)
    (hg : h.roots.get k = some (n, c)) (hle : c + 1 < LOCKED_REF) :
    ∃ p', physApplyRoot p (.reference k) = .ok p' ∧ Rep p' (applyRootChange .rcRoots h (.reference k)) ly ∧
      p'.variant = p.variant :=
  sim_refRoot_rc p h ly r k n c hk hv hg hle

/-- R6_deref_change_rc: the whole `DereferenceChildren(key, children)` change of a `ref_counted` multitree column is
    simulated by C10's `derefProcess .rcRoots`: count > 1: `write_dec_ref` lowers the stored counter, nothing else; count 1:
    `change_ref` answers "has to go", the root value is removed (slots pushed on its tier's free list) and the children are
    walked with the model's own fuel. -/
theorem R6_deref_change_rc {p : PCol} {h h' : Heap Key Bytes} {ly : Layout} (r : Rep p h ly) (k : Key)
    (cs : List Nat) (n : Node Bytes) (c : Nat) (hk : k.length = 32) (hv : p.variant = .rcRoots)
    (hg : h.roots.get k = some (n, c)) (hle : c < LOCKED_REF)
    (hw : derefProcess .rcRoots h k cs = .ok h') :
    ∃ p' ly', physApplyNode p (.derefChildren k cs) = .ok p' ∧ Rep p' h' ly' ∧ p'.variant = p.variant ∧
      ly'.claimed = ly.claimed :=
  sim_derefChange_rc p h h' ly r k cs n c hk hv hg hle hw

/-! ## non-vacuity: a run on the empty column

claim two slots of the tier of a small node, write a leaf and a parent referring to it, read the tree back, dereference
the parent: both slots return to the tier's free list. -/

def exLeaf : Node Bytes := ⟨[7, 7], []⟩
def exTier : Nat := nodeTier false 2 0
def exParent : Node Bytes := ⟨[9], [Address.new 1 exTier]⟩

set_option maxRecDepth 100000 in
example : exTier = 0 ∧ nodeTier false 1 1 = 0 ∧ NodeOk exLeaf ∧ NodeOk exParent := by
  refine ⟨by decide, by decide, ⟨by decide, by decide⟩, ⟨by decide, by decide⟩⟩

/-- the hypotheses of `R6_claim` / `R6_newValue` / `R6_deref_walk` are satisfiable from `R6_init` on -/
example : ∃ p ly, Rep p (Heap.empty : Heap Key Bytes) ly ∧ ly.claimed 0 = [1, 2] := by
  obtain ⟨t', _, r, _⟩ := R6_claim (R6_init .plain) 0 2 (by rw [init_filled]; decide)
  refine ⟨_, _, r, ?_⟩
  simp only [upd_same, init_filled, Layout.empty]
  decide

/-- a run from the empty plain column: two slots of tier 0 are claimed, a leaf is written to the claimed slot 1
    (`R6_newValue`, with `WriteOk` and the bounds discharged), read back (`R6_get_node`), and dereferenced by the walk
    (`R6_deref_walk` on a walk that really removes a node): the hypotheses of the step theorems are satisfiable and the
    steps compose. -/
def exAddr : Nat := Address.new 1 0
def exH1 : Heap Key Bytes := { (Heap.empty : Heap Key Bytes) with nodes := (Heap.empty : Heap Key Bytes).nodes.set exAddr (some exLeaf) }
def exH2 : Heap Key Bytes := { exH1 with nodes := exH1.nodes.set exAddr none }

set_option maxRecDepth 100000 in
example : ∃ p ly, Rep p exH2 ly ∧ (∀ a, exH2.nodes.get a = none) := by
  obtain ⟨t1, _, r1, hf1, hc1⟩ := R6_claim (R6_init .plain) 0 2 (by rw [init_filled]; decide)
  have hcfg0 : SameCfg (tableOfTier false 0) t1 := SameCfg.trans ((R6_init .plain).cfg 0) hc1
  have hnp : numParts t1 .noHash (encodeNode exLeaf) = 1 := by
    rw [numParts_cfg _ _ hcfg0]; decide
  have hok : WriteOk t1 .noHash (encodeNode exLeaf) :=
    node_writeOk false t1 _ (by
      have : tierOfLen false .noHash (encodeNode exLeaf).length = 0 := by decide
      rw [this]; exact hcfg0)
  obtain ⟨p2, c, _, r2, hget, _⟩ := R6_newValue r1 0 1 exLeaf (by decide)
    (by simp only [upd_same, init_filled, Layout.empty]; decide) ⟨by decide, by decide⟩
    (by rw [setVT_same]; exact hok)
    (by rw [setVT_same, hnp, hf1, init_filled]; decide)
  have hw : derefChildren 2 exH1 [exAddr] = .ok exH2 := rfl
  obtain ⟨p3, ly3, _, r3, _, _⟩ := R6_deref_walk 2 [exAddr] (h := exH1) (h' := exH2) r2 hw
  refine ⟨p3, ly3, r3, ?_⟩
  intro a
  simp only [exH2, exH1, FMap.get_set]
  split
  · rfl
  · simp [Heap.empty, FMap.get, FMap.empty, alLookup]

/-- roots: a root is written on the empty plain column (`R6_setRoot_new`: its value slot comes from the tier's table),
    removed again (`R6_derefRoot_plain`), and then every used slot is on the free list (`R6_all_free` in a state whose
    table HAS a used slot). -/
def exKey : Key := List.replicate 32 5
def exRoot : Node Bytes := ⟨[1, 2, 3], []⟩
def exR1 : Heap Key Bytes := { (Heap.empty : Heap Key Bytes) with roots := (Heap.empty : Heap Key Bytes).roots.set exKey (some (exRoot, 1)) }
def exR2 : Heap Key Bytes := { exR1 with roots := exR1.roots.set exKey none }

set_option maxRecDepth 100000 in
example : ∃ p ly, Rep p exR2 ly ∧
    (∀ tier, SlotInv (p.vt tier) (ly.free tier) [] ∧ (ly.free tier).length + 1 = (p.vt tier).filled) := by
  have hnp : numParts ((PCol.init .plain).vt (rootTier (PCol.init .plain).isRc exKey (encodeNode exRoot).length))
      (keyTail exKey) (encodeNode exRoot) = 1 := by
    rw [numParts_cfg _ _ ((R6_init .plain).cfg _)]; decide
  obtain ⟨p1, c, _, r1, hroot, hv1⟩ := R6_setRoot_new (R6_init .plain) exKey exRoot (by decide) rfl
    ⟨by decide, by decide⟩ (by rw [hnp, init_filled]; decide)
  have hrc1 : p1.isRc = false := by simp [PCol.isRc, hv1, PCol.init]
  obtain ⟨p2, a, _, _, r2, _⟩ := R6_derefRoot_plain (h := exR1) r1 exKey exRoot 1 hrc1 (by
    simp [exR1, FMap.get_set])
  have hroots : ∀ k, exR2.roots.get k = none := by
    intro k
    simp only [exR2, exR1, FMap.get_set]
    split
    · rfl
    · simp [Heap.empty, FMap.get, FMap.empty, alLookup]
  refine ⟨p2, _, r2, R6_all_free (h := exR2) r2 (fun a => rfl) hroots ?_⟩
  intro tier
  rfl

-- `R6_deref_change` on the state of the previous example: the hypotheses (plain column, live root, abstract success)
-- are satisfiable
set_option maxRecDepth 100000 in
example : ∃ p ly, Rep p exR2 ly := by
  have hnp : numParts ((PCol.init .plain).vt (rootTier (PCol.init .plain).isRc exKey (encodeNode exRoot).length))
      (keyTail exKey) (encodeNode exRoot) = 1 := by
    rw [numParts_cfg _ _ ((R6_init .plain).cfg _)]; decide
  obtain ⟨p1, c, _, r1, _, hv1⟩ := R6_setRoot_new (R6_init .plain) exKey exRoot (by decide) rfl
    ⟨by decide, by decide⟩ (by rw [hnp, init_filled]; decide)
  obtain ⟨p2, ly2, _, r2, _, _⟩ := R6_deref_change (h := exR1) (h' := exR2) r1 exKey [] (by rw [hv1]; rfl)
    (by simp [exR1, FMap.get_set]) rfl
  exact ⟨p2, ly2, r2⟩

-- `ref_counted` column: a root is written (count 1), `Set` on the live key (count 2), DereferenceChildren (count 1),
-- DereferenceChildren again (root removed): the hypotheses of R6_setRoot_rc_live / R6_deref_change_rc are satisfiable
-- and the steps compose
def exC1 : Heap Key Bytes := { (Heap.empty : Heap Key Bytes) with roots := (Heap.empty : Heap Key Bytes).roots.set exKey (some (exRoot, 1)) }

set_option maxRecDepth 100000 in
example : ∃ p ly h, Rep p h ly ∧ h.roots.get exKey = none := by
  have hnp : numParts ((PCol.init .rcRoots).vt (rootTier (PCol.init .rcRoots).isRc exKey (encodeNode exRoot).length))
      (keyTail exKey) (encodeNode exRoot) = 1 := by
    rw [numParts_cfg _ _ ((R6_init .rcRoots).cfg _)]; decide
  obtain ⟨p1, c, _, r1, _, hv1⟩ := R6_setRoot_new (R6_init .rcRoots) exKey exRoot (by decide) rfl
    ⟨by decide, by decide⟩ (by rw [hnp, init_filled]; decide)
  have hv1' : p1.variant = .rcRoots := by rw [hv1]; rfl
  have hg1 : exC1.roots.get exKey = some (exRoot, 1) := by simp [exC1, FMap.get_set]
  obtain ⟨p2, _, r2, hv2⟩ := R6_setRoot_rc_live (h := exC1) r1 exKey exRoot exRoot 1 (by decide) hv1' hg1 (by decide)
  have hv2' : p2.variant = .rcRoots := by rw [hv2]; exact hv1'
  have hg2 : (applyRootChange .rcRoots exC1 (.set exKey exRoot)).roots.get exKey = some (exRoot, 2) := by
    simp [applyRootChange, hg1, rootEntry, FMap.get_set]
  obtain ⟨p3, ly3, _, r3, hv3, _⟩ := R6_deref_change_rc r2 exKey [] exRoot 2 (by decide) hv2' hg2 (by decide) rfl
  have hv3' : p3.variant = .rcRoots := by rw [hv3]; exact hv2'
  obtain ⟨p4, ly4, _, r4, _, _⟩ := R6_deref_change_rc r3 exKey [] exRoot 1 (by decide) hv3'
    (by simp [derefProcess, hg2, FMap.get_set]) (by decide) rfl
  refine ⟨p4, ly4, _, r4, ?_⟩
  simp [derefProcess, hg2, FMap.get_set, derefChildren]

end Pdb.MultiTreePhys

section Axioms
open Pdb.MultiTreePhys
#print axioms R6_codec_roundtrip
#print axioms R6_codec_256_wrong
#print axioms R6_codec_rejects_256
#print axioms R6_address
#print axioms R6_address_injective
#print axioms R6_init
#print axioms R6_slot_inv
#print axioms R6_claim
#print axioms R6_plan_is_abstract_plan
#print axioms R6_claim_tree
#print axioms R6_newValue
#print axioms R6_newValue_tier
#print axioms R6_incRef
#print axioms R6_deref_walk
#print axioms R6_remove_pushes
#print axioms R6_get_node
#print axioms R6_read_back
#print axioms R6_all_free
#print axioms R6_setRoot_new
#print axioms R6_setRoot_new_abstract
#print axioms R6_derefRoot_plain
#print axioms R6_fuel_mono
#print axioms R6_fuel
#print axioms R6_deref_change
#print axioms R6_shared_survives
#print axioms R6_last_deref_all_free
#print axioms R6_setRoot_rc_live
#print axioms R6_refRoot_rc
#print axioms R6_deref_change_rc
end Axioms
