/-
C04b  The three modelling gaps of C04 closed by refinement theorems.

GAP 1 (backend cursor).  Model Pdb/Model/BTreeCursor.lean: `BTreeIterState` as it is in
  src/btree/iter.rs: a stack of (LastIndex, Node) over the tree, `Node::seek`, `next` with
  `exit`, descent into children, both directions, direction changes.
  `C04b_cursor_refines`: on every tree satisfying TreeInv, for EVERY sequence of calls
  (seek Include k / seek Exclude k / seek Last / step forward / step backward; seek_to_first
  is seek Include []), the node-stack cursor returns what the abstract cursor of
  Pdb/Model/BTreeIter.lean (`curSeek` / `curAns` / `curAfter`: a position in the sorted list
  `toList tree`) returns.  The fuel of the model (`depth` for the descent of `Node::seek`,
  `depth + 2` passes of the loop of `next`) suffices: `C04b_cursor_total`.
  `C04b_cursor_step` is the simulation step from any related pair of states and
  `C04b_next_backend` instantiates it for `next_backend` of the iterator machine (re-seek
  from `last_key` when the record id changed, then one step), the only places where the
  machine of `C04_iter_spec` uses the backend cursor besides `seek`; so the iterator theorems
  of Props/C04.lean hold of the machine running on the real cursor.

GAP 2 (batching).  Model Pdb/Model/BTreeBatch.lean: the loop of `Node::change` literally
  (one slice for the whole transaction, several changes per descent, the `position` tests
  against the node itself and against the parent, return at a split / underflow).
  `C04b_batch_refines`: on every tree satisfying TreeInv and every key-sorted, key-
  deduplicated change list the batched `write_sorted_changes` returns THE SAME TREE (node by
  node, not only the same enumeration) as the one-change-per-descent model; hence no
  `stuck`, `toList = specApply cs (toList t)` and TreeInv.  Shapes do NOT differ.
  `C04b_batch_refines_tx`: the same for arbitrary transactions (unsorted, repeated keys)
  through `changes.sort()` and the de-duplication inside the loops:
  `applyChangesB t cs = applyChanges t cs`.

GAP 3 (addresses).  `C04b_address_indirection`: the address-carrying tree (the same tree model
  at `V := Addr`) with a store whose referenced slots are live, pairwise distinct and the
  only live ones, run through any transaction with an arbitrary allocator (a fresh slot for
  a new key; in place or a fresh slot for a replaced value; the slot of a removed key is
  freed), satisfies TreeInv, keeps the store invariant, and dereferences to the enumeration
  of the value-carrying model after the same transaction.  `C04b_address_release`: one change
  releases exactly the slots referenced before and not after it (C06 storage release).
  `C04b_update_natural`: the tree update is natural in the value type (it never inspects the
  value component of a separator), hence `C04b_address_shape`: the address-carrying tree has,
  node by node, the keys of the value-carrying tree; with `C04b_address_indirection` (same
  enumeration through the store) the value-carrying tree is the address-carrying tree with
  every address replaced by the value stored there.
-/
import Pdb.Props.C04
import Pdb.Proofs.C04CursorRefine
import Pdb.Proofs.C04BatchMain
import Pdb.Proofs.C04BatchAddr
import Pdb.Proofs.C04BatchNat

namespace Pdb.C04
variable {V : Type}

/-! ## GAP 1: the node-stack cursor -/

/-- The representation relation of the refinement (`Rep`, Proofs/C04CursorRefine.lean): the
    empty stack stands for the fresh cursor; a non-empty stack stands for `c` if a forward
    step of the stack machine from it behaves as a step from a gap `Lf | Rf` of the
    enumeration, a backward step as a step from a gap `Lb | Rb`, and the abstract cursor
    answers `Rf.head?` / `Lb.getLast?`. -/
abbrev CursorRep (t : Tree V) (st : Stack V) (c : Cur) : Prop := Rep t st c

/-- A new `BTreeIterState` (empty stack) represents the fresh abstract cursor. -/
theorem C04b_cursor_new (t : Tree V) : CursorRep t [] .fresh := Or.inl ⟨rfl, rfl⟩

/-- Simulation step: related states, any call: same output, related states again. -/
theorem C04b_cursor_step (t : Tree V) (h : TreeInv t) (st : Stack V) (c : Cur)
    (hr : CursorRep t st c) (call : CCall) :
    (stepC t st call).2 = (stepA t.toList c call).2 ∧
      CursorRep t (stepC t st call).1 (stepA t.toList c call).1 :=
  stepC_refines (good_of_treeInv h) hr call

/-- `seek` positions the stack whatever it held before (it clears it): also a stack left
    over from another tree (the iterator re-opens the tree when the record id changed). -/
theorem C04b_cursor_seek (t : Tree V) (h : TreeInv t) (st : Stack V) (to : SeekTo) :
    (stepC t st (.seek to)).2 = .unit ∧ CursorRep t (stepC t st (.seek to)).1 (curSeek to) := by
  obtain ⟨st', h1, h2⟩ := seekC_spec (good_of_treeInv h) to
  simp only [stepC, h1]
  exact ⟨trivial, seekRes_rep (good_of_treeInv h).2.2 h2⟩

/-- GAP 1, full statement: every call sequence on the real cursor over a tree satisfying
    TreeInv returns what the abstract position-in-`toList` cursor returns. -/
theorem C04b_cursor_refines (t : Tree V) (h : TreeInv t) (calls : List CCall) :
    (runC t [] calls).2 = (runA t.toList .fresh calls).2 :=
  (runC_refines (good_of_treeInv h) calls [] .fresh (C04b_cursor_new t)).1

/-- The fuel suffices and no child is missing: under TreeInv no call ends in
    `outOfFuel` / `Error::Corruption`. -/
theorem C04b_cursor_total (t : Tree V) (h : TreeInv t) (calls : List CCall) :
    ∀ o ∈ (runC t [] calls).2, o ≠ .outOfFuel ∧ o ≠ .corrupt := by
  rw [C04b_cursor_refines t h calls]
  generalize (Cur.fresh) = c
  induction calls generalizing c with
  | nil => intro o ho; simp [runA] at ho
  | cons x xs ih =>
    intro o ho
    simp only [runA, List.mem_cons] at ho
    rcases ho with rfl | ho
    · cases x <;> simp [stepA]
    · exact ih _ o ho

-- `reseekTo` (the `SeekTo` of the re-positioning in `next_backend`): Pdb/Model/BTreeCursor.lean

theorem reseek_eq (L : LastKey) : reseek L = curSeek (reseekTo L) := by
  cases L <;> rfl

/-- `next_backend` on the real cursor: when the record id changed the (re-opened) tree is
    re-sought from `last_key`, then one step.  It returns the item `nextBackend` of the
    iterator machine returns on `toList tree`, and the stack again represents the machine's
    abstract cursor.  (`hrep`: if the record id did not change, the stack represents the
    machine's cursor: the invariant this theorem and `C04b_cursor_seek` maintain.) -/
theorem C04b_next_backend (t : Tree V) (h : TreeInv t) (st : Stack V) (s : IterSt V) (rid : Nat)
    (d : Dir) (hrep : rid = s.rid → CursorRep t st s.cur) :
    let st1 := if rid ≠ s.rid then (stepC t st (.seek (reseekTo s.lastKey))).1 else st
    (stepC t st1 (.step d)).2 = .item (nextBackend t.toList s rid d).1 ∧
      CursorRep t (stepC t st1 (.step d)).1 (nextBackend t.toList s rid d).2.cur := by
  intro st1
  have hr1 : CursorRep t st1 (if rid ≠ s.rid then reseek s.lastKey else s.cur) := by
    by_cases hc : rid ≠ s.rid
    · simp only [st1, hc, if_true, ne_eq, not_false_eq_true, reseek_eq]
      exact (C04b_cursor_seek t h st _).2
    · have hc' : rid = s.rid := by simpa using hc
      simp only [st1, hc, if_false]
      exact hrep hc'
  exact C04b_cursor_step t h st1 _ hr1 (.step d)

/-! ### non-vacuity: a tree of depth 2 and a walk with seeks, direction changes, both ends -/

private def curKeys : List Nat := (List.range 60).map (fun i => (i * 37) % 101)
private def curTree : Tree Nat := (applyChanges Tree.empty (curKeys.map (fun i => Op.set [i] i))).1
private def curCalls : List CCall :=
  [.step .bwd, .step .fwd, .step .fwd, .seek (.incl [50]), .step .bwd, .step .bwd, .step .fwd,
   .seek .last, .step .fwd, .step .bwd, .seek (.excl [37]), .step .fwd, .seek (.incl [200]),
   .step .fwd, .step .fwd, .seek (.incl []), .step .bwd]

example : TreeInv curTree ∧ curTree.depth = 2 :=
  show treeInvB curTree = true ∧ curTree.depth = 2 by decide +kernel
example : (runC curTree [] curCalls).2 = (runA curTree.toList .fresh curCalls).2 :=
  C04b_cursor_refines curTree (show treeInvB curTree = true by decide +kernel) curCalls
example : (runC curTree [] curCalls).2.take 8 =
    [.item (some ([100], 100)), .item none, .item (some ([0], 0)), .unit,
     .item (some ([50], 50)), .item (some ([49], 49)), .item (some ([50], 50)), .unit] := by
  decide +kernel

/-! ## GAP 2: the batched descent -/

/-- GAP 2, full statement.  For every tree satisfying TreeInv and every key-sorted,
    key-deduplicated change list the batched `write_sorted_changes` (`writeSortedB`: the
    literal `Node::change` loop) builds exactly the tree of the one-change-per-descent model
    (`applyList`): equality of trees, so shapes agree; it never reaches `stuck` (no panic,
    fuel suffices), its enumeration is `specApply cs (toList t)` and TreeInv holds. -/
theorem C04b_batch_refines (t : Tree V) (cs : List (Op V)) (h : TreeInv t) (hs : OpsStrict cs) :
    writeSortedB t cs = applyList t cs ∧
    (writeSortedB t cs).2 = true ∧
    (writeSortedB t cs).1.toList = specApply cs t.toList ∧
    TreeInv (writeSortedB t cs).1 := by
  obtain ⟨hw, ho⟩ := (treeInvB_iff t).mp h
  have e : writeSortedB t cs = applyList t cs := by
    rw [writeSortedB_eq t cs hw ho hs.sorted, dedupLast_strict hs]
  obtain ⟨o1, o2⟩ := applyList_occ cs t hw ho
  obtain ⟨w1, w2⟩ := applyList_spec cs t hw o1
  rw [e]
  exact ⟨rfl, o1, w1, (treeInvB_iff _).mpr ⟨w2, o2⟩⟩

/-- The same for whole transactions (any order, repeated keys): `changes.sort()` followed by
    the batched descent with its in-loop de-duplication is the model of `C04_change_refines`,
    so all its conclusions hold of the batched model. -/
theorem C04b_batch_refines_tx (t : Tree V) (cs : List (Op V)) (h : TreeInv t) :
    applyChangesB t cs = applyChanges t cs ∧
    (applyChangesB t cs).2 = true ∧
    (applyChangesB t cs).1.toList = specApply cs t.toList ∧
    TreeInv (applyChangesB t cs).1 := by
  have e := applyChangesB_eq t cs h
  rw [e]
  exact ⟨rfl, C04_change_refines t cs h⟩

/-- What one `Node::change` call does (the induction invariant behind the two theorems, at
    the root: no parent, range = all keys): it consumes a non-empty prefix of the slice,
    applies the last operation per key of that prefix as single changes whose results are
    all `ok` except possibly the last one, and returns the slice starting at the last
    consumed change. -/
theorem C04b_change_run (t : Tree V) (a : Op V) (rest : List (Op V)) (h : TreeInv t)
    (hs : OpsSorted (a :: rest)) :
    ∃ consumed last rest', a :: rest = consumed ++ rest' ∧ consumed.getLast? = some last ∧
      (changeB t.depth none t.root (a :: rest)).2.2 = last :: rest' ∧
      Run t.depth t.root (dedupLast consumed) (changeB t.depth none t.root (a :: rest)).1
        (changeB t.depth none t.root (a :: rest)).2.1 := by
  obtain ⟨hw, ho⟩ := (treeInvB_iff t).mp h
  obtain ⟨consumed, last, rest', e1, e2, _, e3, hrun, _⟩ :=
    changeB_spec t.depth (rootLb t.depth) t.root none (fun _ => True) a rest
      ⟨hw.1, hw.2, ho, rootLb_le _, rootLb_pos _, fun _ _ => trivial⟩
      (fun _ _ _ _ _ _ _ => trivial) (fun _ _ h => by cases h) hs trivial
  exact ⟨consumed, last, rest', e1, e2, e3, hrun⟩

/-! ### non-vacuity: one `root.change` call consuming a run of changes inside one leaf, a run
ended by a split, and a whole transaction -/

private def bKeys : List Nat := (List.range 40).map (fun i => 3 * i)
private def bTree : Tree Nat := (applyChanges Tree.empty (bKeys.map (fun i => Op.set [i] i))).1
private def bOps : List (Op Nat) :=
  [.set [1] 1, .set [2] 2, .del [3], .set [4] 4, .set [5] 5, .set [7] 7, .set [8] 8, .del [60],
   .set [61] 61, .del [117]]

example : TreeInv bTree ∧ bTree.depth = 1 ∧ OpsStrict bOps := by
  refine ⟨show treeInvB bTree = true by decide +kernel, by decide +kernel, ?_⟩
  simp [OpsStrict, bOps, Op.key, keyLt]
-- the first `root.change` call consumes seven of the ten changes (all in the first leaf: six
-- results `ok`, the seventh splits the leaf); three remain after it
example : (changeB bTree.depth none bTree.root bOps).2.2.length = 4 := by decide +kernel
example : writeSortedB bTree bOps = applyList bTree bOps :=
  (C04b_batch_refines bTree bOps (show treeInvB bTree = true by decide +kernel)
    (by simp [OpsStrict, bOps, Op.key, keyLt])).1
example : (writeSortedB bTree bOps).1.toList.length = 44 := by decide +kernel

/-! ## GAP 3: value-table addresses -/

/-- GAP 3.  `s` is the address-level state: the tree with addresses in the separators, the
    store, the slots released so far; `tV` the value-carrying model tree.  If the address tree
    satisfies TreeInv, the store invariant holds (referenced slots live, no slot referenced
    twice, every live slot referenced) and the address tree dereferences to `tV`, then after
    any transaction, with any allocator satisfying `AllocOK`, all of this holds again with
    `tV` advanced by the model's `write_plan`.  TreeInv of the address tree is TreeInv of the
    same tree model at `V := Addr`. -/
theorem C04b_address_indirection (al : Alloc V) (hal : AllocOK al) (s : AState V) (tV : Tree V)
    (cs : List (Op V)) (hA : TreeInv s.tree) (hok : s.ok = true) (hV : TreeInv tV)
    (hst : StoreInv s.store s.tree.toList)
    (habs : derefList s.store s.tree.toList = tV.toList.map (onVal some)) :
    TreeInv (applyListA al s (dedupLast (stableSort cs))).tree ∧
    (applyListA al s (dedupLast (stableSort cs))).ok = true ∧
    StoreInv (applyListA al s (dedupLast (stableSort cs))).store
      (applyListA al s (dedupLast (stableSort cs))).tree.toList ∧
    derefList (applyListA al s (dedupLast (stableSort cs))).store
        (applyListA al s (dedupLast (stableSort cs))).tree.toList =
      (applyChanges tV cs).1.toList.map (onVal some) := by
  obtain ⟨i1, i2, i3, i4⟩ :=
    applyListA_spec al hal (dedupLast (stableSort cs)) s tV.toList ⟨hA, hok, hst, habs⟩
  have hsV : Sorted tV.toList := ((treeInvB_iff tV).mp hV).1.2
  have e : (applyChanges tV cs).1.toList = specApply (dedupLast (stableSort cs)) tV.toList := by
    rw [(C04_change_refines tV cs hV).2.1, specApply_prepare cs _ hsV]
  refine ⟨i1, i2, i3, ?_⟩
  rw [e]
  exact i4

/-- One change releases exactly the slots that were referenced by a separator before it and
    are referenced by none after it (the slot of a removed key, the old slot of a value that
    moved; nothing for a new key or a value rewritten in place). -/
theorem C04b_address_release (al : Alloc V) (hal : AllocOK al) (s : AState V) (l : List (Key × V))
    (op : Op V) (hA : TreeInv s.tree) (hok : s.ok = true) (hst : StoreInv s.store s.tree.toList)
    (habs : derefList s.store s.tree.toList = l.map (onVal some)) :
    ∃ rel, (applyOneA al s op).released = rel ++ s.released ∧
      ∀ b, b ∈ rel ↔ (Refd s.tree.toList b ∧ ¬ Refd (applyOneA al s op).tree.toList b) :=
  (applyOneA_spec al hal s l op ⟨hA, hok, hst, habs⟩).2

/-- The tree update is natural in the value type: mapping the values of all separators and of
    all changes by any `f` commutes with the update (same `stuck` flag, same tree), and the
    enumeration of a mapped tree is the mapped enumeration. -/
theorem C04b_update_natural {W : Type} (f : V → W) (t : Tree V) (ops : List (Op V)) :
    applyList (mapTree f t) (ops.map (mapOp f)) =
      (mapTree f (applyList t ops).1, (applyList t ops).2) ∧
    (mapTree f t).toList = t.toList.map (onVal f) :=
  ⟨applyList_map f ops t, mapTree_toList f t⟩

/-- Under the hypotheses of `C04b_address_indirection`: if the address-carrying tree and the
    value-carrying tree have the same shape (depth, keys of every node: `shapeOf`), they have
    the same shape after the transaction. -/
theorem C04b_address_shape (al : Alloc V) (hal : AllocOK al) (s : AState V) (tV : Tree V)
    (cs : List (Op V)) (hA : TreeInv s.tree) (hok : s.ok = true) (hV : TreeInv tV)
    (hst : StoreInv s.store s.tree.toList)
    (habs : derefList s.store s.tree.toList = tV.toList.map (onVal some))
    (hsh : shapeOf s.tree = shapeOf tV) :
    shapeOf (applyListA al s (dedupLast (stableSort cs))).tree = shapeOf (applyChanges tV cs).1 :=
  applyListA_shape al hal (dedupLast (stableSort cs)) s tV ⟨hA, hok, hst, habs⟩ hV hsh

/-- A slot that is released is dead afterwards, a slot that is live afterwards is referenced:
    the store invariant read as "no dangling separator, no leaked slot". -/
theorem C04b_address_no_leak (σ : Store V) (m : List (Key × Addr)) (h : StoreInv σ m) (a : Addr) :
    ((σ a).isSome = true ↔ Refd m a) :=
  ⟨h.noLeak a, fun ⟨e, he, hb⟩ => by rw [← hb]; exact h.live e he⟩

/-! ### non-vacuity: an allocator satisfying `AllocOK`, the empty state -/

/-- never moves a value; a new value gets some free slot -/
private noncomputable def exAlloc : Alloc Nat :=
  { fresh := fun σ _ => open Classical in if h : ∃ x, σ x = none then Classical.choose h else 0
    rewrite := fun _ a _ => a }

private theorem exAlloc_ok : AllocOK exAlloc := by
  refine ⟨?_, fun _ _ _ _ => Or.inl rfl⟩
  intro σ v h
  simp only [exAlloc, h, dite_true]
  exact Classical.choose_spec h

private def exA0 : AState Nat := { tree := Tree.empty, store := fun _ => none, released := [], ok := true }

example (cs : List (Op Nat)) :
    derefList (applyListA exAlloc exA0 (dedupLast (stableSort cs))).store
        (applyListA exAlloc exA0 (dedupLast (stableSort cs))).tree.toList =
      (applyChanges (Tree.empty : Tree Nat) cs).1.toList.map (onVal some) :=
  (C04b_address_indirection exAlloc exAlloc_ok exA0 Tree.empty cs
    (show treeInvB (Tree.empty : Tree Addr) = true from rfl) rfl
    (show treeInvB (Tree.empty : Tree Nat) = true from rfl)
    ⟨fun _ h => by simp [exA0, Tree.empty, Tree.toList, C04.toList, Node.empty, Node.seps] at h,
     fun _ h => by simp [exA0, Tree.empty, Tree.toList, C04.toList, Node.empty, Node.seps] at h,
     fun _ h => by simp [exA0] at h⟩ rfl).2.2.2

/-! ### audit -/

#print axioms C04b_cursor_new
#print axioms C04b_cursor_step
#print axioms C04b_cursor_seek
#print axioms C04b_cursor_refines
#print axioms C04b_cursor_total
#print axioms C04b_next_backend
#print axioms C04b_batch_refines
#print axioms C04b_batch_refines_tx
#print axioms C04b_change_run
#print axioms C04b_address_indirection
#print axioms C04b_address_release
#print axioms C04b_update_natural
#print axioms C04b_address_shape
#print axioms C04b_address_no_leak

end Pdb.C04
