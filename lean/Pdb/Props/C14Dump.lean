/-
C14, tie T2: the Lean invariants of the C06 / C09 / C14 / C04 theorems evaluated on dumps of the
real implementation state (model file Pdb/Model/DumpCheck.lean, driver command `t2`).

The harness sends every structural dump (after every drain / reopen / recovery) to the compiled
driver, which answers `ok` iff `checkSlots` / `checkIndex` / `checkTree` hold.  The theorems
below say what an `ok` means: the MODEL state rebuilt from the dump (`tableOf`, `colOf`,
`treeOf`) satisfies the very invariants the preservation theorems are about.

  value tables  checkSlots d  ->  Pdb.ValueTable.SlotInv (tableOf d) (freeOf d) (chainsOf d)   FULL
                                  (hypothesis and conclusion of C06_insert/replace/remove...)
                                  + no slot below `filled` unaccounted for, exactly one owner
                                  + chains start at live heads and run through parts only
                                  + file header = (last_removed, filled)
  hash column   checkIndex d  ->  Univ U, IdxInv U (colOf d), Abs U (colOf d) (absOf d),
                                  NoLeak U (colOf d) (absOf d), SlotInv of every value table     FULL
                                  for U = the keys recovered from index entry + stored key tail
                                  (= the oracle's live keys when the dump carries them)
                                  -> `lookup (colOf d) k = absOf d k` for every live key
                checkIndex d  ->  abstract SlotInv (fill mark, free list and the continuation
                                  slots of the live chains, `Tier.chains`), `Good`: every C09 /
                                  C14 step theorem applies to the dumped state                    FULL
                                  (the index model allocates chains slot by slot, so dumps with a
                                  multipart table are covered too)
                checkNoStale d -> Pdb.Index.NoStale (colOf d): every entry of every index table
                                  (current and queued, whole tables) points to a live value whose
                                  stored tail continues the recovered key bits; all entries of one
                                  slot agree on key bits 63..14; one entry per slot and table     FULL
                                  (`T2_checkNoStale_sound`; driver command `t2 nostale`)
  btree         checkTree d   ->  TreeInv (treeOf d), every dumped node reachable exactly once  FULL
Values are abstracted to "" (the dump carries no value bytes).
-/
import Pdb.Proofs.DumpCheckInv
import Pdb.Proofs.DumpCheckNoStale
import Pdb.Props.C04

namespace Pdb.DumpCheck
open Pdb.Gen Pdb.Index

/-! ## value tables -/

/-- Soundness of `t2 slots`: an accepted dump satisfies the byte-level SlotInv of C06 / C14. -/
theorem C14Dump_slots_sound (d : TableDump) (h : checkSlots d = true) :
    ValueTable.SlotInv (tableOf d) (freeOf d) (chainsOf d) :=
  (slotsReason_none d ((checkSlots_iff d).1 h)).inv

/-- No orphan, double-used or leaked slot: every slot below `filled` occurs exactly once in
"free list ++ live chains". -/
theorem C14Dump_slots_exactly_once (d : TableDump) (h : checkSlots d = true) (i : Nat) (h1 : 1 ≤ i)
    (h2 : i < d.filled) : (freeOf d ++ (chainsOf d).flatten).count i = 1 := by
  have inv := C14Dump_slots_sound d h
  have hm := slotInv_cover inv i h1 h2
  have h3 := List.nodup_iff_count.1 inv.nodup i
  have h4 := List.count_pos_iff.2 hm
  omega

/-- The chains of the witness are LIVE values: each starts at a slot that is not a tombstone
(a multi-part head in the multipart table) and continues through parts only; the free list
consists of tombstones (part of SlotInv). -/
theorem C14Dump_slots_live (d : TableDump) (h : checkSlots d = true) :
    ∀ c ∈ chainsOf d, ∃ i, c.head? = some i ∧ 1 ≤ i ∧ i < d.filled ∧
      ¬ ValueTable.isTombstone ((tableOf d).slots i) ∧
      (d.multipart = true → ValueTable.isMultiHead ((tableOf d).slots i)) ∧
      ∀ j ∈ c.tail, ¬ ValueTable.isTombstone ((tableOf d).slots j) ∧
        ¬ ValueTable.isMultiHead ((tableOf d).slots j) :=
  chainsOf_live d (slotsReason_none d ((checkSlots_iff d).1 h)).live

/-- The table file header repeats the in-memory `(last_removed, filled)`. -/
theorem C14Dump_slots_header (d : TableDump) (h : checkSlots d = true) : headerOk d = true :=
  (slotsReason_none d ((checkSlots_iff d).1 h)).header

/-! ## hash column -/

/-- Soundness of `t2 index`: the index-layer invariants of C09 / C14 hold of the state rebuilt
from the dump, for the key universe recovered from the dump itself. -/
theorem C14Dump_index_sound (d : ColumnDump) (h : checkIndex d = true) :
    Univ (U d) ∧ IndexInv (U d) (colOf d) ∧ Abs (U d) (colOf d) (absOf d) ∧
      NoLeak (U d) (colOf d) (absOf d) ∧
      ∀ t ∈ d.tables, ValueTable.SlotInv (tableOf t) (freeOf t) (chainsOf t) :=
  let ok := checkIndex_ok d h
  ⟨ok.univ, ok.idxInv, ok.abs, ok.noLeak, fun t ht => (ok.tables t ht).inv⟩

/-- The key universe is the oracle's set of live keys (when the dump carries it). -/
theorem C14Dump_index_keys (d : ColumnDump) (h : checkIndex d = true) (ex : List Key)
    (he : d.expected = some ex) (k : Key) : U d k ↔ k ∈ ex :=
  ⟨((checkIndex_ok d h).expected ex he).2 k, ((checkIndex_ok d h).expected ex he).1 k⟩

/-- Number of live value chains = number of distinct live keys. -/
theorem C14Dump_index_heads_eq_keys (d : ColumnDump) (h : checkIndex d = true) :
    (headsOf d).length = (keysOf d).length ∧ (keysOf d).Nodup := by
  have ok := checkIndex_ok d h
  constructor
  · rw [← ok.keyed_spec.1]; simp [keysOf]
  · have hn : ((keyed d).map (fun x : Head × Key => x.1.slot.tail)).Nodup := by
      have := ok.tails
      rw [← ok.keyed_spec.1, List.map_map] at this
      exact this
    have hn2 : ((keysOf d).map (·.tail)).Nodup := by
      unfold keysOf
      rw [List.map_map]
      have : (keyed d).map ((fun k : Key => k.tail) ∘ fun x : Head × Key => x.2) =
          (keyed d).map (fun x : Head × Key => x.1.slot.tail) :=
        List.map_congr_left fun x hx => (ok.keyed_spec.2 x hx).1
      rw [this]; exact hn
    exact nodup_of_nodup_map _ _ hn2

/-- The model's `HashColumn::get` run on the dumped index finds every live key. -/
theorem C14Dump_index_lookup (d : ColumnDump) (h : checkIndex d = true) (k : Key) (hk : U d k) :
    lookup (colOf d) k = absOf d k ∧ (lookup (colOf d) k).isSome = true := by
  have ok := checkIndex_ok d h
  have h1 := lookup_eq ok.univ ok.idxInv ok.abs k hk
  refine ⟨h1, ?_⟩
  rw [h1]
  obtain ⟨x, hx, rfl⟩ := List.mem_map.1 hk
  have := (ok.abs x.2 hk x.1.slot.val).2 ⟨x.1.addr, by
    rw [(ok.heads x.1 (ok.keyed_head x hx)).1, (ok.keyed_spec.2 x hx).1]⟩
  rw [this]; rfl

/-- No misattribution: a slot that stores the tail of a live key holds that key's value; in
particular an index entry left behind by another key (stale, slot reused) never resolves a key
to a foreign value, because `get` compares the stored tail. -/
theorem C14Dump_index_no_misattribution (d : ColumnDump) (h : checkIndex d = true) (k : Key)
    (hk : U d k) (a : Nat) (sl : Slot) (ha : (colOf d).valAt a = some sl) (ht : sl.tail = k.tail) :
    absOf d k = some sl.val := by
  have ok := checkIndex_ok d h
  obtain ⟨k', hk', htl, hm⟩ := ok.noLeak.slot_key a sl ha
  have : k' = k := ok.univ.atail k' k hk' hk (htl.trans ht)
  rw [← this]; exact hm

/-- Every accepted dump (multipart tables included: the index model records the continuation
slots of the chains, `colOf` rebuilds them from the dumped chains): the whole hypothesis `Good`
of the C09 / C14 step theorems, so e.g. the next planned write on the dumped state cannot panic
and keeps the invariants. -/
theorem C14Dump_index_good (d : ColumnDump) (h : checkIndex d = true) :
    Good (U d) (colOf d) (absOf d) ∧ SlotInvAbs (colOf d) ∧
      ∀ k op, write (colOf d) k op ≠ .panic := by
  have ok := checkIndex_ok d h
  have hG := ok.good
  exact ⟨hG, hG.slots, fun k op => C09_write_no_panic hG (Or.inl rfl) k op⟩

/-- Soundness of `t2 nostale`: an accepted dump has NO STALE INDEX ENTRY.  Every entry of every
index table of the dumped column (the current table and every queued older one, whole tables)
points to the head slot of a live value whose stored key tail continues the key bits recovered
from the entry (`live`: the key recovered from page, partial key and stored tail hashes to that
page and partial key); all entries pointing to one slot carry the same key bits 63..14 (`agree`:
with the stored tail they name one 256-bit key); no table holds two entries for one slot
(`uniq`). -/
theorem T2_checkNoStale_sound (d : ColumnDump) (h : checkNoStale d = true) :
    Index.NoStale (colOf d) :=
  (nostaleReason_none d ((checkNoStale_iff d).1 h)).noStale

/-- What `ok` means entry by entry, without the model state: the dumped entry `(c, i, e)` of
table `x` has a live target and is the only entry of `x` with that address. -/
theorem T2_checkNoStale_entry (d : ColumnDump) (h : checkNoStale d = true) (x : IndexDump)
    (hx : x ∈ d.index) (y : Nat × Nat × Nat) (hy : y ∈ x.entries) :
    (∃ tl, (colOf d).tailAt (Entry.address y.2.2 x.bits) = some tl ∧
      visOf x.bits y.1 y.2.2 % 4 = tl / 2 ^ 206) ∧
    ∀ z ∈ x.entries, Entry.address z.2.2 x.bits = Entry.address y.2.2 x.bits →
      (z.1, z.2.1) = (y.1, y.2.1) := by
  have ok := nostaleReason_none d ((checkNoStale_iff d).1 h)
  have hf := ok.fine x hx y hy
  simp only [entryFine, Bool.and_eq_true] at hf
  obtain ⟨⟨hl, _⟩, hp⟩ := hf
  constructor
  · unfold entryLive at hl
    cases htl : (colOf d).tailAt (Entry.address y.2.2 x.bits) with
    | none => simp [htl] at hl
    | some tl => exact ⟨tl, rfl, by simpa [htl] using hl⟩
  · intro z hz hza
    have hfz := ok.fine x hx z hz
    simp only [entryFine, Bool.and_eq_true] at hfz
    have p1 := hfz.2
    unfold entrySingle at p1 hp
    simp only [beq_iff_eq] at p1 hp
    rw [hza, hp] at p1
    injection p1 with p1
    exact p1.symm

/-! ## btree -/

/-- Soundness of `t2 tree`: TreeInv (C04) of the tree rebuilt from the node dump. -/
theorem C14Dump_tree_sound (d : TreeDump) (h : checkTree d = true) : C04.TreeInv (treeOf d) := by
  unfold checkTree at h
  unfold C04.TreeInv
  unfold treeReason at h
  split at h
  · rename_i h0
    split at h
    · unfold treeOf; rw [if_pos h0]; decide
    · cases h
  split at h
  · cases h
  split at h
  · cases h
  split at h
  · cases h
  split at h
  · cases h
  rename_i hb
  simpa using hb

/-- Every dumped node is reached from the root exactly once (no node shared or repeated; the
dump has no node outside the tree). -/
theorem C14Dump_tree_reach (d : TreeDump) (h : checkTree d = true) (hr : d.root ≠ 0) :
    (d.nodes.map (·.addr)).Nodup ∧ ∃ n visited, buildNode d.nodes (d.depth + 2) d.root = some (n, visited) ∧
      visited.Nodup ∧ visited.length = d.nodes.length := by
  unfold checkTree at h
  unfold treeReason at h
  rw [if_neg hr] at h
  split at h
  · cases h
  rename_i h1
  split at h
  · cases h
  rename_i n visited hb
  split at h
  · cases h
  rename_i h2
  refine ⟨Decidable.not_not.1 h1, n, visited, hb, ?_, ?_⟩
  · exact Decidable.byContradiction fun hc => h2 (Or.inl hc)
  · exact Decidable.byContradiction fun hc => h2 (Or.inr hc)

/-! ## non-vacuity: dumps of the real crate (taken from a run of `pdbverif c09 --prop C14`) -/

/-- multipart table (tier 255): 20 slots, free list, multi-part chains -/
def exTable : TableDump :=
  ⟨255, 4096, true, false, 21, 1,
      #[[1, 0, 0, 0, 0, 0, 0, 0, 21, 0, 0, 0, 0, 0, 0, 0],
        [255, 255, 0, 0, 0, 0, 0, 0, 0, 0, 184, 103, 0, 0, 0, 4, 28, 88, 22, 138, 165, 73, 112, 130, 0, 0, 0, 0, 0, 0, 0, 0, 0, 0, 0, 0, 240, 86, 26, 115],
        [82, 1, 235, 236, 57, 93, 80, 226, 139, 235, 143, 195, 30, 238, 229, 132, 215, 132, 36, 203, 247, 34, 204, 209, 110, 10, 187, 227, 100, 20, 128, 160, 109, 8, 157, 208, 245, 63, 18, 102],
        [254, 255, 2, 0, 0, 0, 0, 0, 0, 0, 181, 169, 222, 154, 9, 135, 232, 196, 190, 68, 8, 21, 75, 157, 142, 135, 121, 15, 219, 250, 35, 35, 144, 125, 193, 241, 201, 163, 212, 199],
        [254, 255, 3, 0, 0, 0, 0, 0, 0, 0, 158, 241, 94, 221, 127, 3, 255, 198, 232, 253, 97, 91, 230, 100, 233, 233, 108, 210, 237, 145, 89, 192, 124, 166, 139, 230, 125, 249, 181, 172],
        [254, 255, 4, 0, 0, 0, 0, 0, 0, 0, 124, 239, 214, 176, 42, 217, 189, 196, 237, 183, 33, 150, 154, 115, 51, 53, 231, 55, 233, 211, 188, 140, 149, 12, 243, 21, 172, 187, 14, 245],
        [254, 255, 5, 0, 0, 0, 0, 0, 0, 0, 28, 188, 245, 123, 90, 69, 58, 146, 188, 197, 11, 124, 86, 5, 119, 107, 107, 104, 227, 9, 140, 134, 107, 223, 70, 241, 121, 187, 69, 91],
        [254, 255, 6, 0, 0, 0, 0, 0, 0, 0, 101, 194, 66, 177, 88, 203, 62, 165, 155, 59, 167, 197, 124, 28, 127, 168, 174, 207, 189, 67, 174, 28, 254, 192, 86, 130, 190, 175, 232, 162],
        [254, 255, 7, 0, 0, 0, 0, 0, 0, 0, 3, 203, 159, 122, 204, 77, 0, 29, 29, 239, 120, 216, 26, 80, 97, 140, 192, 8, 55, 179, 9, 67, 133, 37, 36, 253, 123, 207, 55, 167],
        [254, 255, 8, 0, 0, 0, 0, 0, 0, 0, 104, 229, 47, 68, 62, 104, 58, 107, 165, 163, 63, 43, 223, 225, 227, 66, 140, 62, 54, 209, 98, 27, 83, 219, 8, 242, 45, 228, 238, 88],
        [253, 255, 9, 0, 0, 0, 0, 0, 0, 0, 184, 103, 0, 0, 0, 4, 28, 88, 22, 138, 165, 73, 112, 130, 0, 0, 0, 0, 0, 0, 0, 0, 0, 0, 0, 0, 13, 130, 129, 95],
        [253, 255, 12, 0, 0, 0, 0, 0, 0, 0, 100, 208, 0, 0, 0, 11, 18, 115, 85, 253, 145, 222, 47, 215, 0, 0, 0, 0, 0, 0, 0, 0, 0, 0, 0, 0, 108, 134, 0, 132],
        [254, 255, 13, 0, 0, 0, 0, 0, 0, 0, 122, 52, 209, 176, 249, 195, 175, 204, 226, 111, 117, 32, 44, 215, 148, 156, 229, 25, 202, 50, 107, 239, 40, 68, 74, 226, 94, 197, 176, 16],
        [254, 255, 14, 0, 0, 0, 0, 0, 0, 0, 9, 50, 131, 226, 6, 130, 78, 81, 142, 26, 70, 0, 106, 212, 164, 41, 249, 182, 252, 241, 158, 66, 98, 202, 0, 185, 79, 109, 112, 162],
        [254, 255, 15, 0, 0, 0, 0, 0, 0, 0, 178, 162, 110, 215, 99, 153, 207, 189, 169, 155, 136, 48, 88, 81, 230, 133, 45, 70, 78, 80, 247, 73, 180, 200, 173, 167, 40, 114, 224, 82],
        [254, 255, 16, 0, 0, 0, 0, 0, 0, 0, 109, 118, 54, 195, 168, 218, 174, 171, 64, 21, 104, 17, 75, 76, 183, 186, 241, 128, 97, 220, 1, 208, 122, 160, 162, 49, 197, 28, 165, 43],
        [254, 255, 17, 0, 0, 0, 0, 0, 0, 0, 45, 52, 15, 235, 0, 242, 142, 103, 178, 255, 238, 234, 76, 42, 150, 169, 133, 113, 96, 227, 145, 86, 175, 252, 57, 153, 138, 247, 151, 55],
        [254, 255, 18, 0, 0, 0, 0, 0, 0, 0, 228, 50, 93, 140, 248, 203, 178, 102, 147, 44, 192, 237, 72, 93, 70, 27, 144, 89, 127, 17, 250, 99, 143, 226, 5, 46, 219, 253, 13, 206],
        [254, 255, 19, 0, 0, 0, 0, 0, 0, 0, 83, 228, 131, 122, 243, 162, 0, 61, 106, 84, 18, 67, 41, 30, 239, 106, 246, 242, 99, 80, 132, 110, 83, 184, 172, 37, 47, 170, 91, 1],
        [254, 255, 20, 0, 0, 0, 0, 0, 0, 0, 41, 233, 221, 113, 52, 195, 190, 52, 201, 209, 121, 27, 51, 78, 38, 238, 163, 226, 202, 11, 221, 2, 92, 62, 221, 129, 122, 69, 40, 86],
        [180, 12, 126, 209, 128, 145, 214, 178, 30, 197, 172, 15, 99, 230, 68, 76, 169, 204, 158, 222, 145, 92, 135, 255, 139, 239, 105, 127, 247, 212, 157, 123, 37, 52, 14, 38, 115, 82, 204, 79]]⟩

/-- a column with three live keys in two size tiers -/
def exColumn : ColumnDump :=
  ⟨0,
    [⟨16, [(5393, 0, 4609485291143561472), (5393, 1, 2946967164554314240), (22648, 0, 16701123873671741747)]⟩],
    [⟨0, 32, false, false, 3, 0,
      #[[0, 0, 0, 0, 0, 0, 0, 0, 3, 0, 0, 0, 0, 0, 0, 0],
        [29, 0, 78, 167, 0, 0, 0, 70, 253, 31, 160, 186, 7, 21, 2, 76, 0, 0, 0, 0, 0, 0, 0, 0, 0, 0, 0, 0, 72, 132, 108, 0],
        [26, 0, 239, 246, 0, 0, 0, 71, 48, 28, 113, 216, 95, 105, 215, 77, 0, 0, 0, 0, 0, 0, 0, 0, 0, 0, 0, 0, 0, 0, 0, 0]]⟩,
      ⟨51, 129, false, false, 2, 0,
      #[[0, 0, 0, 0, 0, 0, 0, 0, 2, 0, 0, 0, 0, 0, 0, 0],
        [126, 0, 83, 188, 0, 0, 0, 105, 191, 173, 88, 79, 251, 101, 22, 40, 0, 0, 0, 0, 0, 0, 0, 0, 0, 0, 0, 0, 103, 125, 249, 185, 56, 181, 38, 196, 85, 150, 209, 41]]⟩],
    some [⟨0x151128e5bb05eff6, 0xeff600000047301c71d85f69d74d000000000000000000000000⟩,
      ⟨0x15113ff82e734ea7, 0x4ea700000046fd1fa0ba0715024c000000000000000000000000⟩,
      ⟨0x5878e7c64fad53bc, 0x53bc00000069bfad584ffb651628000000000000000000000000⟩]⟩

example : checkSlots exTable = true := by decide +kernel
example : freeOf exTable ≠ [] ∧ (chainsOf exTable).any (fun c => decide (1 < c.length)) = true := by
  decide +kernel
example := C14Dump_slots_sound exTable (by decide +kernel)
example := C14Dump_slots_exactly_once exTable (by decide +kernel) 5 (by decide) (by decide)
example : checkIndex exColumn = true := by decide +kernel
example : (keysOf exColumn).length = 3 := by decide +kernel
example := C14Dump_index_sound exColumn (by decide +kernel)
example := C14Dump_index_good exColumn (by decide +kernel)
/-- a column with ten live keys, one of them stored as a chain of ten parts in the multipart
table (tier 255), and a free slot in tier 192 (dump of the real crate, `pdbverif c09 --prop C14`) -/
def exColumnM : ColumnDump :=
  ⟨0,
    [⟨16, [(35292, 0, 18259289856708444431), (35292, 1, 8940506554818364160), (35292, 2, 12340538967119102479), (35292, 3, 14859797908059848960), (35292, 4, 12897492673748795678), (35292, 5, 10229964407266345472), (35292, 6, 10555362224585572863), (35292, 7, 12956352182252208911), (35292, 8, 2725069607646790030), (35292, 9, 14759125587259819008)]⟩],
    [⟨0, 32, false, false, 5, 0,
      #[[0, 0, 0, 0, 0, 0, 0, 0, 5, 0, 0, 0, 0, 0, 0, 0],
        [29, 0, 176, 117, 0, 0, 0, 11, 18, 115, 85, 253, 145, 222, 47, 215, 0, 0, 0, 0, 0, 0, 0, 0, 0, 0, 0, 0, 129, 116, 151, 0],
        [29, 0, 131, 196, 0, 0, 0, 2, 232, 90, 243, 224, 226, 38, 6, 237, 0, 0, 0, 0, 0, 0, 0, 0, 0, 0, 0, 0, 31, 159, 120, 0],
        [30, 0, 242, 170, 0, 0, 0, 70, 253, 31, 160, 186, 7, 21, 2, 76, 0, 0, 0, 0, 0, 0, 0, 0, 0, 0, 0, 0, 250, 67, 182, 30],
        [26, 0, 99, 248, 0, 0, 0, 26, 40, 171, 13, 150, 61, 24, 95, 236, 0, 0, 0, 0, 0, 0, 0, 0, 0, 0, 0, 0, 0, 0, 0, 0]]⟩,
      ⟨15, 48, false, false, 4, 0,
      #[[0, 0, 0, 0, 0, 0, 0, 0, 4, 0, 0, 0, 0, 0, 0, 0],
        [46, 0, 17, 123, 0, 0, 0, 17, 3, 101, 177, 25, 42, 29, 207, 21, 0, 0, 0, 0, 0, 0, 0, 0, 0, 0, 0, 0, 255, 118, 32, 191, 155, 80, 21, 109, 154, 14, 94, 164],
        [46, 0, 220, 34, 0, 0, 0, 15, 21, 101, 242, 40, 248, 175, 79, 20, 0, 0, 0, 0, 0, 0, 0, 0, 0, 0, 0, 0, 55, 69, 233, 97, 21, 91, 24, 59, 25, 20, 214, 81],
        [46, 0, 38, 224, 0, 0, 0, 50, 82, 114, 53, 139, 75, 34, 205, 30, 0, 0, 0, 0, 0, 0, 0, 0, 0, 0, 0, 0, 168, 92, 57, 8, 98, 85, 127, 130, 123, 159, 167, 143]]⟩,
      ⟨30, 73, false, false, 2, 0,
      #[[0, 0, 0, 0, 0, 0, 0, 0, 2, 0, 0, 0, 0, 0, 0, 0],
        [71, 0, 196, 138, 0, 0, 0, 5, 215, 43, 45, 38, 43, 239, 100, 140, 0, 0, 0, 0, 0, 0, 0, 0, 0, 0, 0, 0, 202, 234, 76, 75, 148, 230, 112, 44, 104, 95, 208, 38]]⟩,
      ⟨142, 1542, false, false, 2, 0,
      #[[0, 0, 0, 0, 0, 0, 0, 0, 2, 0, 0, 0, 0, 0, 0, 0],
        [246, 5, 204, 105, 0, 0, 0, 52, 125, 171, 167, 152, 112, 29, 108, 50, 0, 0, 0, 0, 0, 0, 0, 0, 0, 0, 0, 0, 239, 84, 33, 164, 7, 182, 133, 210, 77, 65, 213, 152]]⟩,
      ⟨192, 6034, false, false, 2, 1,
      #[[1, 0, 0, 0, 0, 0, 0, 0, 2, 0, 0, 0, 0, 0, 0, 0],
        [255, 255, 0, 0, 0, 0, 0, 0, 0, 0, 160, 186, 7, 21, 2, 76, 0, 0, 0, 0, 0, 0, 0, 0, 0, 0, 0, 0, 245, 88, 18, 107, 150, 120, 197, 246, 81, 246, 156, 22]]⟩,
      ⟨255, 4096, true, false, 11, 0,
      #[[0, 0, 0, 0, 0, 0, 0, 0, 11, 0, 0, 0, 0, 0, 0, 0],
        [253, 255, 2, 0, 0, 0, 0, 0, 0, 0, 218, 161, 0, 0, 0, 14, 133, 161, 38, 146, 139, 15, 48, 83, 0, 0, 0, 0, 0, 0, 0, 0, 0, 0, 0, 0, 119, 243, 41, 20],
        [254, 255, 3, 0, 0, 0, 0, 0, 0, 0, 28, 83, 101, 116, 20, 18, 174, 233, 201, 184, 142, 77, 228, 239, 145, 170, 40, 174, 254, 185, 109, 114, 171, 135, 95, 51, 48, 223, 44, 88],
        [254, 255, 4, 0, 0, 0, 0, 0, 0, 0, 168, 126, 234, 223, 93, 210, 233, 114, 17, 119, 9, 150, 205, 234, 72, 39, 209, 247, 98, 116, 215, 229, 117, 220, 130, 97, 142, 34, 54, 26],
        [254, 255, 5, 0, 0, 0, 0, 0, 0, 0, 51, 243, 83, 219, 134, 132, 119, 85, 190, 87, 28, 132, 179, 18, 85, 144, 172, 83, 31, 90, 48, 13, 129, 177, 185, 9, 114, 146, 121, 216],
        [254, 255, 6, 0, 0, 0, 0, 0, 0, 0, 185, 206, 142, 137, 240, 231, 183, 183, 117, 123, 105, 62, 94, 104, 242, 7, 37, 193, 98, 164, 84, 105, 149, 214, 115, 17, 26, 237, 193, 141],
        [254, 255, 7, 0, 0, 0, 0, 0, 0, 0, 1, 7, 38, 26, 162, 190, 52, 255, 85, 248, 131, 144, 122, 206, 217, 187, 243, 163, 52, 223, 180, 56, 233, 246, 75, 129, 194, 151, 94, 126],
        [254, 255, 8, 0, 0, 0, 0, 0, 0, 0, 189, 180, 28, 156, 247, 151, 179, 169, 121, 31, 191, 213, 187, 121, 177, 60, 162, 146, 74, 98, 98, 183, 89, 85, 74, 66, 135, 144, 117, 32],
        [254, 255, 9, 0, 0, 0, 0, 0, 0, 0, 176, 40, 118, 242, 131, 189, 59, 27, 235, 183, 81, 72, 145, 161, 178, 79, 216, 81, 27, 224, 97, 48, 218, 203, 220, 150, 7, 34, 65, 121],
        [254, 255, 10, 0, 0, 0, 0, 0, 0, 0, 143, 2, 153, 37, 40, 72, 30, 242, 144, 144, 100, 251, 246, 77, 166, 58, 214, 151, 161, 15, 132, 114, 255, 46, 105, 216, 176, 66, 176, 117],
        [180, 12, 132, 94, 238, 217, 125, 234, 30, 177, 246, 241, 5, 88, 192, 32, 251, 58, 76, 79, 48, 221, 237, 243, 183, 2, 132, 237, 225, 64, 74, 57, 121, 169, 122, 83, 217, 121, 101, 16]]⟩],
    some [⟨0x89dc25d1645ecc69, 0xcc69000000347daba798701d6c32000000000000000000000000⟩,
      ⟨0x89dc7c130f57f2aa, 0xf2aa00000046fd1fa0ba0715024c000000000000000000000000⟩,
      ⟨0x89dc8df8226d83c4, 0x83c400000002e85af3e0e22606ed000000000000000000000000⟩,
      ⟨0x89dc927c2e04daa1, 0xdaa10000000e85a126928b0f3053000000000000000000000000⟩,
      ⟨0x89dcab4266cedc22, 0xdc220000000f1565f228f8af4f14000000000000000000000000⟩,
      ⟨0x89dcb2fd1940c48a, 0xc48a00000005d72b2d262bef648c000000000000000000000000⟩,
      ⟨0x89dcb3ce35aa26e0, 0x26e0000000325272358b4b22cd1e000000000000000000000000⟩,
      ⟨0x89dcccd2f28663f8, 0x63f80000001a28ab0d963d185fec000000000000000000000000⟩,
      ⟨0x89dcce389b77b075, 0xb0750000000b127355fd91de2fd7000000000000000000000000⟩,
      ⟨0x89dcfd660762117b, 0x117b000000110365b1192a1dcf15000000000000000000000000⟩]⟩

example : checkIndex exColumnM = true ∧ exColumnM.tables.any (·.multipart) = true := by decide +kernel
/- the model state rebuilt from the dump records the continuation slots of the chain -/
example : ((colOf exColumnM).tier 255).chains = [(1, [2, 3, 4, 5, 6, 7, 8, 9, 10])] ∧
    ((colOf exColumnM).tier 255).filled = 11 ∧ ((colOf exColumnM).tier 192).free = [1] := by
  decide +kernel
example := C14Dump_index_good exColumnM (by decide +kernel)
/- a structural defect is rejected: the same table with its free-list head cut off -/
/-- `exColumn` right after an index growth: the new current table (17 bits) is still empty, the
old table is queued -/
def exColumnQ : ColumnDump := { exColumn with index := ⟨17, []⟩ :: exColumn.index }
example : checkNoStale exColumn = true := by decide +kernel
example : checkNoStale exColumnQ = true ∧ (colOf exColumnQ).older.length = 1 := by decide +kernel
example := T2_checkNoStale_sound exColumnQ (by decide +kernel)
example : checkNoStale exColumnM = true := by decide +kernel
/-- an entry left behind for a slot that holds no value any more (address 3 of tier 0) -/
example : nostaleReason { exColumn with index :=
    [⟨16, (5393, 2, 4609485291143561472 + 512) :: (exColumn.index.headD ⟨16, []⟩).entries⟩] } =
    some "stale:0:5393:2" := by decide +kernel
/-- the same entry twice in one table -/
example : nostaleReason { exColumn with index :=
    [⟨16, (5393, 2, 4609485291143561472) :: (exColumn.index.headD ⟨16, []⟩).entries⟩] } =
    some "dup:0:5393:2" := by decide +kernel
/-- a second entry for the slot under another partial key (an entry of another key that was not removed) -/
example : checkNoStale { exColumn with index :=
    [⟨16, (5393, 2, 2946967164554314240 / 2 ^ 30 * 2 ^ 30 + 4609485291143561472 % 2 ^ 30) ::
      (exColumn.index.headD ⟨16, []⟩).entries⟩] } = false := by decide +kernel
example : slotsReason { exTable with lastRemoved := 0 } = some "header" := by decide +kernel
/-- the same cut made consistently in the header: a slot is neither free nor live -/
def exCut : TableDump :=
  ⟨255, 4096, true, false, 21, 0, exTable.slots.set! 0 [0, 0, 0, 0, 0, 0, 0, 0, 21, 0, 0, 0, 0, 0, 0, 0]⟩
example : slotsReason exCut = some "count" := by decide +kernel

/-- a btree of depth 1: root with one separator and two leaves (ORDER = 8: four separators each) -/
def exTree : TreeDump :=
  ⟨5, 1, [⟨5, [([5], 50)], [6, 7]⟩,
    ⟨6, [([1], 10), ([2], 20), ([3], 30), ([4], 40)], []⟩,
    ⟨7, [([6], 60), ([7], 70), ([8], 80), ([9], 90)], []⟩]⟩
example : checkTree exTree = true := by decide +kernel
example := C14Dump_tree_sound exTree (by decide +kernel)
example := C14Dump_tree_reach exTree (by decide +kernel) (by decide)
example : treeReason { exTree with nodes := exTree.nodes.take 2 } = some "missing-node" := by decide +kernel

end Pdb.DumpCheck

#print axioms Pdb.DumpCheck.C14Dump_slots_sound
#print axioms Pdb.DumpCheck.C14Dump_slots_exactly_once
#print axioms Pdb.DumpCheck.C14Dump_slots_live
#print axioms Pdb.DumpCheck.C14Dump_slots_header
#print axioms Pdb.DumpCheck.C14Dump_index_sound
#print axioms Pdb.DumpCheck.C14Dump_index_keys
#print axioms Pdb.DumpCheck.C14Dump_index_heads_eq_keys
#print axioms Pdb.DumpCheck.C14Dump_index_lookup
#print axioms Pdb.DumpCheck.C14Dump_index_no_misattribution
#print axioms Pdb.DumpCheck.C14Dump_index_good
#print axioms Pdb.DumpCheck.C14Dump_tree_sound
#print axioms Pdb.DumpCheck.C14Dump_tree_reach
#print axioms Pdb.DumpCheck.T2_checkNoStale_sound
#print axioms Pdb.DumpCheck.T2_checkNoStale_entry
