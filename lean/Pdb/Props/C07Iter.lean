/-
C07 / C14: value iteration on the BYTE-LEVEL model.

  C07 "for hash-indexed columns, value iteration reports exactly the live values with their counts"
  C14 "iterating a hash column's values enumerates each live value exactly once"

Model: Pdb/Model/ValueIter.lean (`VT.iterWhile` = `ValueTable::iter_while`, `pIterValues` =
`HashColumn::iter_values` = `Db::iter_column_while`), on C06's byte-level table `VT` and on the
physical column `PCol`.  Tie to the code: the harness lines `r5 iter` / `r5 iterd` / `r5 iterstop k`
and `c06 t iter` / `c06 t iterd` print what the REAL `iter_column_while` reports (callback order) and
the driver answers them from `pIterValues` on the model's physical state.

  C07_scan_exact        one table: under C06's `SlotInv` (+ the two chain facts of R2's `RepL`) the
                        scan has no error and reports exactly one item per live chain head, in
                        increasing index order, no tombstone, no continuation part, with the bytes
                        and the counter the keyed read returns; the reported cells are the `absVT`
                        image of the table.
  C07_scan_exact_rep    the same from R2's representation relation `RepL`: the reported cells are
                        the cells of the abstract store, in slot order.
  C07_iter_spec         the whole column, composed with R5 / R3: for every kind (plain, preimage,
                        ref-counted) and every history on the physical column `PCol`, the scan of
                        all `SIZE_TIERS` tables (`pScan` = `iter_column_while` with a callback that
                        never stops) has no error and reports exactly the keys `Pdb.spec` holds,
                        each once, with value and count of `Pdb.spec`, and nothing else.  Stated on
                        the 26-byte stored tail (`encTail k.tail`), which is what a slot holds,
                        under R5's hypotheses (A-tail `PUniv`, A-compress, the two C09 fixes, the
                        trajectory hypotheses `hrun` / `hb`).
  C14_iter_each_live_value_once   corollary in the words of C14: the enumeration is `pre ++ ci :: post`
                        with `ci` the key's item and no other item with the key's tail.
  C07_iter_early_stop   `iter_while` with any callback = the callback run over the full enumeration
                        until it returns `false`; the items it was called with are a prefix.
  C07_iter_column_early_stop   `iter_column_while` with any callback = the callback run over the
                        enumeration of each table in turn; a `false` ends one table's run only.
  C07_iter_column_stop_is_per_table   DEVIATION of the crate: at column level a `false` ends only
                        the scan of the current table (concrete witness; reproduced on the crate).
-/
import Pdb.Proofs.C07Iter4
import Pdb.Props.RefineRc

namespace Pdb.ValueIter
open Pdb.Gen Pdb.ValueTable Pdb.Refine Pdb.RefineRc

/-- C07 / C14, one value table.  `hparts` and `hheads` are the two facts about chains that C06's
`SlotInv` does not contain and R2's `RepL` does (`RepL.parts`, `RepL.heads`): a continuation part
does not carry a head marker, and the head of every live chain is readable.  `hes` holds for every
table the column code creates (`SIZES` starts at 32, `MULTIPART_ENTRY_SIZE = 4096`). -/
theorem C07_scan_exact (t : VT) (F : List Nat) (L : List (List Nat))
    (hes : PARTIAL_SIZE ≤ t.entrySize) (hinv : SlotInv t F L)
    (hparts : ∀ c ∈ L, ∀ j ∈ c.tail, t.multipart = true ∧ ¬ isMultiHead (t.slots j))
    (hheads : ∀ c ∈ L, (absVT t (c.headD 0)).isSome = true) :
    ∃ items, t.scan = .ok items ∧ ScanExact t F L items :=
  scan_exact t F L hes hinv hparts hheads

/-- the same from R2's `RepL`: the scan reports the cells of the abstract store `A`, in slot order,
one item per live chain -/
theorem C07_scan_exact_rep (t : VT) (A : AStore) (L : List (List Nat))
    (hes : PARTIAL_SIZE ≤ t.entrySize) (hr : RepL t A L) :
    ∃ items, t.scan = .ok items ∧ ScanExact t A.tier.free L items ∧
      items.map Item.cell = (List.range' 1 (t.filled - 1)).filterMap A.cell :=
  scan_exact_rep t A L hes hr

/-- C07 "value iteration reports exactly the live values with their counts" and C14 "iterating a
hash column's values enumerates each live value exactly once", on the physical column, for every
history of Set / Dereference / Reference operations interleaved with reindex batches, enacted
drops, reopens and relaunches (the model state is "file + overlay": the pipeline is drained).
`items` is what `iter_column_while` hands to a callback that never stops, in callback order (the
fields `tier`, `index`, `tail` are ghost: `ValueIterState` carries `rc` and `value` only).
  1. a key of the universe is reported with (value, count) iff `Pdb.spec` holds exactly that cell
     for it (so: every key with positive count, with its value and its count);
  2. nothing else: every reported item belongs to a key of the universe whose `Pdb.spec` cell it is;
  3. each once: no two items carry the same stored tail;
  4. order: tables in tier order, increasing slot number inside a table.
Hypotheses: exactly those of `R5_rc_refines` (see there: `hU` A-tail is NEEDED, F29; `hex`, `hgrow`
are the two C09 fixes; `hrun`, `hb` are trajectory hypotheses about the model's own run). -/
theorem C07_iter_spec (kind : Pdb.Kind) (cmp : Bytes → Bytes) (decomp : Bytes → Option Bytes)
    (thr : Nat) (U : Index.Key → Prop) (cfg : Index.Cfg) (b0 : Nat) (acts : List RAction)
    (p' : PCol) (txs : List (List (Pdb.Op Index.Key Bytes)))
    (hA : ∀ v, decomp (cmp v) = some v) (hU : PUniv U)
    (hex : cfg.exact = true) (hgrow : cfg.growOnMove = true) (hbits : 16 ≤ b0 ∧ b0 ≤ 49)
    (hkeys : ∀ a ∈ acts, RActKeys U a)
    (hb : RAllBounded kind cmp thr (rInit kind cfg b0) acts)
    (hrun : rRun kind cmp thr (rInit kind cfg b0) acts = .ok p')
    (hops : acts.flatMap RAction.ops = txs.flatten) :
    ∃ items, pScan decomp p' = .ok items ∧
      (∀ k, U k → ∀ v n, (∃ ci ∈ items, ci.tail = encTail k.tail ∧ ci.value = v ∧ ci.rc = n) ↔
        Pdb.spec (fun _ => kind) txs k = some (v, n)) ∧
      (∀ ci ∈ items, ∃ k, U k ∧ ci.tail = encTail k.tail ∧
        Pdb.spec (fun _ => kind) txs k = some (ci.value, ci.rc)) ∧
      (items.map (·.tail)).Nodup ∧ items.Pairwise Before := by
  unfold Pdb.spec
  rw [← hops]
  by_cases hkind : kind = .plain
  · subst hkind
    obtain ⟨s', m', hV, hG, hm⟩ := iter_run_plain decomp hA hU cfg b0 hex hgrow hbits acts p' hkeys hb hrun
    obtain ⟨items, h1, h2, h3, h4, h5⟩ := iter_of_good decomp hA hU hV hG
    refine ⟨items, h1, fun k hk v n => ?_, fun ci hci => ?_, h4, h5⟩
    · rw [h2 k hk v n, hm k hk]
    · obtain ⟨k, hk, e1, e2⟩ := h3 ci hci
      exact ⟨k, hk, e1, by rw [← hm k hk]; exact e2⟩
  · obtain ⟨s', m', hV, hG, hm⟩ := iter_run_rc decomp hA hkind hU cfg b0 hex hgrow hbits acts p' hkeys hb hrun
    obtain ⟨items, h1, h2, h3, h4, h5⟩ := iter_of_good decomp hA hU hV hG
    refine ⟨items, h1, fun k hk v n => ?_, fun ci hci => ?_, h4, h5⟩
    · rw [h2 k hk v n, hm]
    · obtain ⟨k, hk, e1, e2⟩ := h3 ci hci
      exact ⟨k, hk, e1, by rw [← hm]; exact e2⟩

/-- C14 "iterating a hash column's values enumerates each live value exactly once", spelled out:
for every key that `Pdb.spec` holds (count > 0), the enumeration splits as `pre ++ ci :: post` where
`ci` is the key's item (its tail, its value, its count) and NO other item, before or after, carries
the key's tail.  Corollary of `C07_iter_spec` (same hypotheses). -/
theorem C14_iter_each_live_value_once (kind : Pdb.Kind) (cmp : Bytes → Bytes)
    (decomp : Bytes → Option Bytes)
    (thr : Nat) (U : Index.Key → Prop) (cfg : Index.Cfg) (b0 : Nat) (acts : List RAction)
    (p' : PCol) (txs : List (List (Pdb.Op Index.Key Bytes)))
    (hA : ∀ v, decomp (cmp v) = some v) (hU : PUniv U)
    (hex : cfg.exact = true) (hgrow : cfg.growOnMove = true) (hbits : 16 ≤ b0 ∧ b0 ≤ 49)
    (hkeys : ∀ a ∈ acts, RActKeys U a)
    (hb : RAllBounded kind cmp thr (rInit kind cfg b0) acts)
    (hrun : rRun kind cmp thr (rInit kind cfg b0) acts = .ok p')
    (hops : acts.flatMap RAction.ops = txs.flatten) :
    ∃ items, pScan decomp p' = .ok items ∧
      ∀ k, U k → ∀ v n, Pdb.spec (fun _ => kind) txs k = some (v, n) →
        ∃ pre ci post, items = pre ++ ci :: post ∧ ci.tail = encTail k.tail ∧ ci.value = v ∧ ci.rc = n ∧
          ∀ x ∈ pre ++ post, x.tail ≠ encTail k.tail := by
  obtain ⟨items, h1, h2, _, h4, _⟩ := C07_iter_spec kind cmp decomp thr U cfg b0 acts p' txs hA hU hex
    hgrow hbits hkeys hb hrun hops
  refine ⟨items, h1, fun k hk v n hs => ?_⟩
  obtain ⟨ci, hci, e1, e2, e3⟩ := (h2 k hk v n).mpr hs
  obtain ⟨pre, post, e⟩ := List.append_of_mem hci
  refine ⟨pre, ci, post, e, e1, e2, e3, fun x hx hxe => ?_⟩
  rw [e, List.map_append, List.map_cons] at h4
  have hnd := List.nodup_append.mp h4
  have hnd2 := List.nodup_cons.mp hnd.2.1
  rcases List.mem_append.mp hx with hx | hx
  · exact hnd.2.2 x.tail (List.mem_map.mpr ⟨x, hx, rfl⟩) ci.tail (List.mem_cons_self) (hxe.trans e1.symm)
  · exact hnd2.1 (by rw [e1, ← hxe]; exact List.mem_map.mpr ⟨x, hx, rfl⟩)

/-- early stop: whatever the callback, `iter_while` is the callback run over the full enumeration,
stopped after the first call that returns `false`; a callback that records its calls has recorded a
prefix of the enumeration (`takeThrough`: up to and including the item it refused), everything if it
never refuses. -/
theorem C07_iter_early_stop (t : VT) (items : List Item) (hscan : t.scan = .ok items) :
    (∀ (σ : Type) (f : σ → Item → σ × Bool) (s : σ), t.iterWhile f s = .ok (runCb f s items)) ∧
    (∀ keep : Item → Bool,
      t.iterWhile (collect keep) [] = .ok (takeThrough keep items) ∧
      takeThrough keep items <+: items ∧
      ((∀ it ∈ items, keep it = true) → takeThrough keep items = items)) := by
  refine ⟨fun σ f s => iterLoop_eq t f _ _ s items hscan, fun keep => ⟨?_, takeThrough_prefix keep items,
    takeThrough_all keep items⟩⟩
  have := iterLoop_eq t (collect keep) _ _ [] items hscan
  rw [runCb_collect] at this
  exact this

/-- early stop at COLUMN level, as the code is (`HashColumn::iter_values`): whatever the client
callback, `iter_column_while` is the callback run over the enumeration of table 0, then over the
enumeration of table 1, ... - a `false` ends the run over the CURRENT table only (`runCb` stops),
the loop over the tables goes on with the state reached.  So the items a recording callback has
seen are, table by table, a prefix of that table's enumeration; they are NOT a prefix of the
column's enumeration (`C07_iter_column_stop_is_per_table`). -/
theorem C07_iter_column_early_stop {σ : Type} (decomp : Bytes → Option Bytes) (p : PCol)
    (its : Nat → List Item) (hscan : ∀ j, j < SIZE_TIERS → (p.vt j).scan = .ok (its j))
    (f : σ → CItem → σ × Bool) (s : σ) :
    pIterValues decomp p f s =
      .ok ((List.range' 0 SIZE_TIERS).foldl (fun s j => runCb (colCb decomp j f) s (its j)) s) :=
  pIterTiers_eq decomp p f its SIZE_TIERS 0 s (fun j _ hj => hscan j (by omega))

/-! ### non-vacuity: a multipart table with counters: a live three-slot value with count 2, a live two-slot value,
one removed value whose two slots are tombstones on the free list -/

def exKeyA : TKey := .partialKey (List.replicate 26 0xA1)
def exKeyB : TKey := .partialKey (List.replicate 26 0xB2)
def exKeyC : TKey := .partialKey (List.replicate 26 0xC3)
def exVal (n x : Nat) : Bytes := List.replicate n x

def wr (t : VT) (k : TKey) (v : Bytes) : VT :=
  match writeChain t k v none false with
  | .ok r => r.table
  | .error _ => t

def rm (t : VT) (i : Nat) : VT :=
  match removePlan t i with
  | .ok (t', _) => t'
  | .error _ => t

/-- entry size 48, multipart, ref-counted: A (60 bytes) at slots 1,2,3; B at 4,5; C at 6,7; B removed; A
referenced once more -/
def itT : VT :=
  (changeRef (rm (wr (wr (wr (VT.empty 48 true true) exKeyA (exVal 60 1)) exKeyB (exVal 20 2)) exKeyC (exVal 20 3)) 4) 1 true).1

theorem itT_inv : SlotInv itT [5, 4] [[1, 2, 3], [6, 7]] := by decide +kernel
theorem itT_parts : ∀ c ∈ [[1, 2, 3], [6, 7]], ∀ j ∈ c.tail,
    itT.multipart = true ∧ ¬ isMultiHead (itT.slots j) := by decide +kernel
theorem itT_heads : ∀ c ∈ [[1, 2, 3], [6, 7]], (absVT itT (c.headD 0)).isSome = true := by
  decide +kernel

example := C07_scan_exact itT [5, 4] [[1, 2, 3], [6, 7]] (by decide +kernel) itT_inv itT_parts itT_heads

/-- what the scan of the example reports: slot 1 (count 2) and slot 6 (count 1), the tombstones 4, 5
and the continuation parts 2, 3, 7 are skipped -/
theorem itT_scan : itT.scan = .ok
    [⟨1, 2, List.replicate 26 0xA1, exVal 60 1, false⟩, ⟨6, 1, List.replicate 26 0xC3, exVal 20 3, false⟩] := by
  have h : itT.scan.toOption = some
      [⟨1, 2, List.replicate 26 0xA1, exVal 60 1, false⟩, ⟨6, 1, List.replicate 26 0xC3, exVal 20 3, false⟩] := by
    decide +kernel
  cases hs : itT.scan with
  | error e => rw [hs] at h; cases h
  | ok l => rw [hs] at h; simp only [Except.toOption, Option.some.injEq] at h; rw [h]

example : isTombstone (itT.slots 4) ∧ isTombstone (itT.slots 5) ∧ isMultipart (itT.slots 2) ∧
    isMultiHead (itT.slots 1) ∧ isMultiHead (itT.slots 6) ∧ itT.filled = 8 ∧ itT.lastRemoved = 5 := by
  decide +kernel

example := C07_iter_early_stop itT _ itT_scan
/- a callback that refuses the first item is not called again -/
example : (itT.iterWhile (collect (fun _ => false)) []).toOption =
    some [⟨1, 2, List.replicate 26 0xA1, exVal 60 1, false⟩] := by decide +kernel

/-! ### non-vacuity of `C07_iter_spec`: a ref-counted column with a MULTIPART value of count 2, a
small value, and a tombstone

Set of a 33 000-byte value (9 parts in table 255), Reference (count 2), Set of two 3-byte values
(table 3, slots 1 and 2), Dereference of the first of them (slot 1 becomes a tombstone). -/

def exItHist : List RAction :=
  [.set Index.exK1 (List.replicate 33000 6), .ref Index.exK1, .set Index.exK2 [7, 7, 7],
   .set Index.exK3 [1, 2, 3], .deref Index.exK2]

def exItFinal : PCol :=
  (rRunChecked .rc exCmpR 0 (rInit .rc ⟨true, true, false⟩ 16) exItHist).getD (rInit .rc ⟨true, true, false⟩ 16)

set_option maxRecDepth 100000 in
/-- one kernel evaluation: the checked run succeeds; the scan of its final state reports K3 (table
3, slot 2, count 1) and then K1 (table 255, slot 1, count 2, 33 000 bytes); slot 1 of table 3 is a
tombstone, slots 2..9 of table 255 are continuation parts -/
theorem exItEval : ((rRunChecked .rc exCmpR 0 (rInit .rc ⟨true, true, false⟩ 16) exItHist).map
    (fun p => ((pScan exDecompR p).toOption.map (fun l => l.map (fun ci =>
        (ci.tier, ci.index, ci.rc, ci.value.length, decide (ci.tail = encTail Index.exK1.tail)))),
      decide (isTombstone ((p.vt 3).slots 1)), (p.vt 3).filled, (p.vt 255).filled,
      decide (isMultipart ((p.vt 255).slots 2)))) ==
    some (some [((3 : Nat), (2 : Nat), (1 : Nat), (3 : Nat), false),
        ((255 : Nat), (1 : Nat), (2 : Nat), (33000 : Nat), true)], true, (3 : Nat), (10 : Nat), true)) =
    true := by
  decide +kernel

theorem exItRun : rRunChecked .rc exCmpR 0 (rInit .rc ⟨true, true, false⟩ 16) exItHist = some exItFinal := by
  have h := exItEval
  unfold exItFinal
  cases hr : rRunChecked .rc exCmpR 0 (rInit .rc ⟨true, true, false⟩ 16) exItHist with
  | none => rw [hr] at h; cases h
  | some s => rfl

theorem exItKeys : ∀ a ∈ exItHist, RActKeys Index.exU a := by
  intro a ha
  simp only [exItHist, List.mem_cons, List.mem_nil_iff, or_false] at ha
  rcases ha with h | h | h | h | h <;> subst h <;>
    first
    | trivial
    | exact Or.inl rfl
    | exact Or.inr (Or.inl rfl)
    | exact Or.inr (Or.inr rfl)

def exItTxs : List (List (Pdb.Op Index.Key Bytes)) :=
  [[.set Index.exK1 (List.replicate 33000 6), .ref Index.exK1],
   [.set Index.exK2 [7, 7, 7], .set Index.exK3 [1, 2, 3], .deref Index.exK2]]

/- every hypothesis of `C07_iter_spec` holds of this history -/
example := C07_iter_spec .rc exCmpR exDecompR 0 Index.exU ⟨true, true, false⟩ 16 exItHist exItFinal exItTxs
  exCmpR_ok exPUniv rfl rfl ⟨by decide, by decide⟩ exItKeys
  (rRunChecked_sound _ _ _ _ _ _ exItRun).2 (rRunChecked_sound _ _ _ _ _ _ exItRun).1 rfl
example := C14_iter_each_live_value_once .rc exCmpR exDecompR 0 Index.exU ⟨true, true, false⟩ 16 exItHist exItFinal
  exItTxs exCmpR_ok exPUniv rfl rfl ⟨by decide, by decide⟩ exItKeys
  (rRunChecked_sound _ _ _ _ _ _ exItRun).2 (rRunChecked_sound _ _ _ _ _ _ exItRun).1 rfl
/- what `Pdb.spec` holds at the end of the example: K1 with count 2, K3 with count 1, K2 nothing -/
example : Pdb.spec (fun _ => Pdb.Kind.rc) exItTxs Index.exK1 = some (List.replicate 33000 6, 2) ∧
    Pdb.spec (fun _ => Pdb.Kind.rc) exItTxs Index.exK3 = some ([1, 2, 3], 1) ∧
    Pdb.spec (fun _ => Pdb.Kind.rc) exItTxs Index.exK2 = none := by
  refine ⟨?_, ?_, ?_⟩ <;> rfl
/- the plain kind -/
example := C07_iter_spec .plain exCmpR exDecompR 0 Index.exU ⟨true, true, false⟩ 16

/-! ### the column level: a `false` of the callback ends ONE table -/

/-- two tables with one value each -/
def exP2 : PCol :=
  ⟨⟨true, true, false⟩, Pdb.Index.Table.new 16, [], 0, fun tier =>
    if tier = 3 then wr (tableOfTier true 3) exKeyA [1, 2, 3]
    else if tier = 7 then wr (tableOfTier true 7) exKeyB [4, 5, 6, 7, 8, 9, 10]
    else tableOfTier true tier⟩

/-- DEVIATION (crate, `HashColumn::iter_values`): the callback of `iter_column_while` returns
`false` at its first call and is called AGAIN, with the first value of the next table. -/
theorem C07_iter_column_stop_is_per_table :
    (pIterValues some exP2 (stopCb 1) (0, [])).toOption =
      some (2, [⟨3, 1, List.replicate 26 0xA1, 1, [1, 2, 3]⟩,
               ⟨7, 1, List.replicate 26 0xB2, 1, [4, 5, 6, 7, 8, 9, 10]⟩]) := by
  decide +kernel

end Pdb.ValueIter

#print axioms Pdb.ValueIter.C07_scan_exact
#print axioms Pdb.ValueIter.C07_scan_exact_rep
#print axioms Pdb.ValueIter.C07_iter_spec
#print axioms Pdb.ValueIter.C14_iter_each_live_value_once
#print axioms Pdb.ValueIter.exItEval
#print axioms Pdb.ValueIter.C07_iter_early_stop
#print axioms Pdb.ValueIter.C07_iter_column_early_stop
#print axioms Pdb.ValueIter.C07_iter_column_stop_is_per_table
#print axioms Pdb.ValueIter.itT_scan
