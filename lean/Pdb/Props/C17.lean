/-
Property C17 "Column administration and option checks never touch other columns' data".

Model: Pdb/Model/Meta.lean (text is `List Char`; `t!"abc"` is the literal `['a','b','c']`).
The model is built from the string literals, format strings and decision tables that
tools/rs2lean_text.py extracts from the Rust source on every run (Pdb/Gen/Text.lean): the
theorems below are re-proved against what the code says now; the obligations on the generated
constants (`T0 obligation` in Pdb/Proofs/C17Gen.lean, C17Text.lean, C17Meta.lean, C17Dir.lean)
are discharged by `decide`.
Lemmas: Pdb/Proofs/C17Text.lean, C17Gen.lean, C17Meta.lean, C17Dir.lean.  Behaviours of the modelled
code that deviate from the prose property are proved as theorems in
Pdb/Proofs/C17Findings.lean.

MODELLING BOUNDARY.  The directory is an abstraction of the file system: a partial map
from names to contents; I/O errors, the OS file lock and non-UTF-8 names are not
modelled.  Everything a successful `Db::open` + `drop` does after the metadata check (in
particular the replay of pending write-ahead logs into the tables) is the abstract
parameter `replay`; that it preserves the logical content is the subject of other
properties.  The frame statements for `add_column`, `drop_last_column`, `reset_column`
are therefore relative to `adminBase` = the directory left by that precheck open/close,
for an arbitrary `replay`; `clear_column` performs the same open/close with the stored
options (`clearBase`).  The model follows the tree with the C17 fixes applied
(fixes/fix-c17-*.diff), see the header of Pdb/Model/Meta.lean.
-/
import Pdb.Proofs.C17Dir

namespace Pdb.C17

/-! ## 1. Options text codec -/

/-- `ColumnOptions::from_string(o.as_string()) == Some(o)` for all 2^7 x 3 option
combinations, valid or not. -/
theorem C17_codec : ∀ o : ColumnOptions, fromString (asString o) = .ok o :=
  fromString_asString

-- non-vacuity: 384 combinations, an invalid one included; the parser is not constant.
example : allOptions.length = 384 ∧ (∀ o, o ∈ allOptions) := ⟨by decide +kernel, mem_allOptions⟩
example : (⟨false, false, true, .Snappy, true, true, true, true⟩ : ColumnOptions).isValid = false ∧
    fromString (asString ⟨false, false, true, .Snappy, true, true, true, true⟩) =
      .ok ⟨false, false, true, .Snappy, true, true, true, true⟩ := ⟨by decide, C17_codec _⟩
example : fromString t!"uniform: false, refc: false" = .none := by decide

/-- `ColumnOptions::is_valid` (generated from the `if .. { return false }` chain of the source)
rejects exactly: reference counting without `preimage`, reference counting on an append-only
column, compression on a multitree column.  This is the table the c17 harness assumes when it
classifies option sets as valid / invalid (`uniform`, `btree_index`,
`allow_direct_node_access` are irrelevant). -/
theorem C17_isValid_table (o : ColumnOptions) :
    o.isValid = true ↔
      (o.refCounted = true → o.preimage = true) ∧
      (o.refCounted = true → o.appendOnly = false) ∧
      (o.multitree = true → o.compression = .NoCompression) := by
  rw [isValid_table]
  obtain ⟨p, u, r, c, b, m, a, d⟩ := o
  cases p <;> cases r <;> cases c <;> cases m <;> cases a <;> simp

-- non-vacuity: 160 of the 384 combinations are valid; each condition rejects something.
example : (allOptions.filter ColumnOptions.isValid).length = 160 := by decide +kernel
example : (⟨false, false, true, .NoCompression, false, false, false, false⟩ : ColumnOptions).isValid
      = false ∧
    (⟨true, false, true, .NoCompression, false, false, true, false⟩ : ColumnOptions).isValid = false ∧
    (⟨true, false, false, .Lz4, false, true, false, false⟩ : ColumnOptions).isValid = false ∧
    (⟨true, false, true, .Lz4, true, false, false, true⟩ : ColumnOptions).isValid = true := by decide

/-- The on-disk text format, pinned on a sample: databases written by the released crate carry
exactly these texts and names, so ANY change of a literal, a format string, an argument order, a
separator or a compression code in the Rust source (even one that keeps writer and reader
consistent with each other) breaks this theorem. -/
theorem C17_format_golden :
    encodeMeta 8 (List.replicate 32 171)
      [⟨true, false, true, .Lz4, false, true, false, true⟩,
       ⟨false, true, false, .Snappy, true, false, true, false⟩,
       ⟨false, false, false, .NoCompression, false, false, false, false⟩] =
      t!"version=8\nsalt=abababababababababababababababababababababababababababababababab\ncol0=preimage: true, uniform: false, refc: true, compression: 1, ordered: false, multitree: true, append_only: false, allow_direct_node_access: true\ncol1=preimage: false, uniform: true, refc: false, compression: 2, ordered: true, multitree: false, append_only: true, allow_direct_node_access: false\ncol2=preimage: false, uniform: false, refc: false, compression: 0, ordered: false, multitree: false, append_only: false, allow_direct_node_access: false" ∧
    fileName .index 3 16 = t!"index_03_16" ∧ fileName .table 12 10 = t!"table_12_0a" ∧
    fileName .refcount 255 17 = t!"refcount_255_17" ∧
    filePrefix .index 3 = t!"index_03_" ∧ filePrefix .table 12 = t!"table_12_" ∧
    filePrefix .refcount 255 = t!"refcount_255_" ∧
    logName 42 = t!"log42" ∧ metadataName = t!"metadata" ∧ lockName = t!"lock" ∧
    fromString t!"preimage: true, uniform: false, refc: false, compression: 1, sizes: [96, 128]" =
      .ok ⟨true, false, false, .Lz4, false, false, false, false⟩ := by
  decide +kernel

/-- Column descriptions written by old releases end in `, sizes: [..]`: `from_string` cuts
the text at the literal `sizes: ` and ignores everything after it (here: a later
`multitree: true`).  The literal itself is pinned. -/
theorem C17_legacy_sizes_suffix :
    Gen.Text.fromStringSizesSep = t!"sizes: " ∧
    fromString t!"preimage: true, uniform: false, refc: false, ordered: true, sizes: [96, 128], multitree: true" =
      .ok ⟨true, false, false, .NoCompression, true, false, false, false⟩ := by
  decide +kernel

/-! ## 2. Metadata file round trip -/

/-- `load_metadata_file` returns exactly what `write_metadata_file_with_version` wrote: for
every 32-byte salt, every list of columns (any length, any option combinations) and every
supported version (in particular `CURRENT_VERSION`). -/
theorem C17_meta_roundtrip (version : Nat) (salt : List Nat) (cols : List ColumnOptions)
    (hv : Pdb.Gen.LAST_SUPPORTED_VERSION ≤ version ∧ version ≤ u32Max)
    (hs : salt.length = 32 ∧ ∀ b ∈ salt, b < 256) :
    decodeMeta (encodeMeta version salt cols) =
      .ok { salt := salt, version := version, columns := cols } :=
  decodeMeta_encodeMeta hv.1 hv.2 hs.1 hs.2 cols

theorem C17_meta_roundtrip_current (salt : List Nat) (cols : List ColumnOptions)
    (hs : salt.length = 32 ∧ ∀ b ∈ salt, b < 256) :
    decodeMeta (encodeMeta Pdb.Gen.CURRENT_VERSION salt cols) =
      .ok { salt := salt, version := Pdb.Gen.CURRENT_VERSION, columns := cols } :=
  C17_meta_roundtrip _ salt cols (by decide) hs

-- non-vacuity: the hypotheses are satisfiable and the decoder can fail.
example : decodeMeta (encodeMeta Pdb.Gen.CURRENT_VERSION (List.replicate 32 171)
      [⟨true, false, true, .Lz4, false, false, false, false⟩]) =
    .ok ⟨List.replicate 32 171, 8, [⟨true, false, true, .Lz4, false, false, false, false⟩]⟩ :=
  C17_meta_roundtrip_current _ _ ⟨by decide, by decide⟩
example : decodeMeta t!"version=8" = .err .invalidConfigMissingSalt := by decide

/-! ## 3. Option check at open -/

/-- The comparison in `load_and_validate_metadata` accepts exactly equal column lists; a
different column count is `InvalidConfiguration`, otherwise the error is
`IncompatibleColumnConfig` carrying (as `u8`) the first index at which the lists differ. -/
theorem C17_open_check (stored requested : List ColumnOptions) :
    ((validate stored requested).isOk = true ↔ stored = requested) ∧
    (stored.length ≠ requested.length →
      validate stored requested = .error .invalidConfigColumnCount) ∧
    (stored.length = requested.length → stored ≠ requested →
      ∃ j, validate stored requested = .error (.incompatibleColumnConfig (j % 256)) ∧
        j < stored.length ∧ stored[j]? ≠ requested[j]? ∧ stored.take j = requested.take j) :=
  ⟨validate_isOk_iff stored requested, validate_count, validate_mismatch⟩

-- non-vacuity: each of the three outcomes occurs.
example : validate [⟨true, false, false, .Lz4, false, false, false, false⟩]
    [⟨true, false, false, .Lz4, false, false, false, false⟩] = .ok () := by rfl
example : validate [⟨true, false, false, .Lz4, false, false, false, false⟩] [] =
    .error .invalidConfigColumnCount := by rfl
example : validate [⟨true, false, false, .Lz4, false, false, false, false⟩,
      ⟨true, false, false, .Lz4, false, false, false, false⟩]
    [⟨true, false, false, .Lz4, false, false, false, false⟩,
      ⟨true, false, false, .Lz4, false, false, false, true⟩] =
    .error (.incompatibleColumnConfig 1) := by rfl

/-- Opening (with or without create) a directory whose stored columns differ from the
requested ones fails with the error of the comparison and changes no file: the only
possible difference is that the `lock` file exists afterwards.  Opening without create a
directory that holds no metadata file, or a missing directory, fails and creates nothing. -/
theorem C17_open_fails_clean {β : Type} (replay : Dir β → Dir β)
    (requested : List ColumnOptions) (salt : Option (List Nat)) (fresh : List Nat) :
    (∀ (d : Dir β) (m : Metadata) (create : Bool),
      loadMetadataFile (d metadataName) = .ok (some m) → m.columns ≠ requested →
      ∃ e, validate m.columns requested = .error e ∧
        (openDb replay (some d) requested salt create fresh).result = .err e ∧
        (∀ n, n ≠ lockName →
          fsGet (openDb replay (some d) requested salt create fresh).fs n = d n) ∧
        (d lockName ≠ none →
          (openDb replay (some d) requested salt create fresh).fs = some d)) ∧
    (∀ d : Dir β, d metadataName = none →
      openDb replay (some d) requested salt false fresh = ⟨.err .databaseNotFound, some d⟩) ∧
    openDb replay none requested salt false fresh = ⟨.err .databaseNotFound, none⟩ := by
  refine ⟨?_, fun d hd => openDb_no_metadata replay d requested salt fresh hd, rfl⟩
  intro d m create hm hne
  cases hv : validate m.columns requested with
  | ok u => exact absurd ((validate_ok_iff _ _).mp (by cases u; exact hv)) hne
  | error e =>
    refine ⟨e, rfl, ?_, ?_, ?_⟩
    · rw [openDb_mismatch replay d requested salt create fresh hm hv]
    · intro n hn
      rw [openDb_mismatch replay d requested salt create fresh hm hv]
      exact ensureLock_of_ne d hn
    · intro hl
      rw [openDb_mismatch replay d requested salt create fresh hm hv, ensureLock_eq_self d hl]

-- non-vacuity: the hypotheses of C17_open_fails_clean hold for a concrete directory
-- (`exampleDir`, two columns, defined in Pdb/Proofs/C17Dir.lean).
example : ∃ (d : Dir Nat) (m : Metadata),
    loadMetadataFile (d metadataName) = .ok (some m) ∧ m.columns ≠ [] :=
  ⟨exampleDir, _, exampleDir_meta, by decide⟩

/-! ## 4. Deletion prefixes of different columns are disjoint -/

/-- `Column::drop_files(c)` matches a name that starts with the file-name prefix of column
`c'` (any of `index_{c':02}_`, `table_{c':02}_`, `refcount_{c':02}_`, followed by anything)
if and only if `c = c'`.  In particular every name produced by a `TableId::file_name` of
column `c'` is matched by column `c'` and by no other column - also for three-digit
column numbers (`index_10_` vs `index_100_16`).  Holds for all naturals, hence for all
`u8` column ids. -/
theorem C17_prefix_disjoint (c c' : Nat) (k : FileKind) :
    (∀ rest, isColumnFile c (filePrefix k c' ++ rest) = true ↔ c = c') ∧
    (∀ x, isColumnFile c (fileName k c' x) = true ↔ c = c') :=
  ⟨fun rest => isColumnFile_prefix_iff c k c' rest,
   fun x => by
     obtain ⟨rest, h⟩ := fileName_eq k c' x
     rw [h]; exact isColumnFile_prefix_iff c k c' rest⟩

-- non-vacuity / sanity on concrete names.
example : fileName .index 100 16 = t!"index_100_16" ∧ fileName .table 7 10 = t!"table_07_0a" ∧
    fileName .refcount 255 16 = t!"refcount_255_16" := by decide
example : isColumnFile 10 t!"index_100_16" = false ∧ isColumnFile 10 t!"index_10_16" = true ∧
    isColumnFile 1 t!"table_10_00" = false ∧ isColumnFile 25 t!"refcount_255_16" = false := by
  decide

/-! ## 5. Administration calls only touch the affected column and the metadata file -/

/-- Frame.  For each of `add_column`, `drop_last_column`, `reset_column`, `clear_column`,
whatever its outcome: a file that is not the metadata file and is not matched by the
deletion prefixes of the affected column has the same content (or absence) as in
`adminBase`.  If the call does not rewrite the metadata (`reset_column(.., None)`,
`clear_column`, `drop_last_column` on zero columns) the metadata file is unchanged too. -/
theorem C17_admin_frame {β : Type} (replay : Dir β → Dir β) (fs : Option (Dir β))
    (requested : List ColumnOptions) (salt : Option (List Nat)) (op : AdminOp) (n : FileName)
    (hmeta : n ≠ metadataName ∨ op.newColumns requested = none)
    (hcol : ∀ c, op.affected requested = some c → isColumnFile c n = false) :
    fsGet (applyAdmin replay fs requested salt op).fs n =
      fsGet (adminBase replay fs requested salt op) n :=
  admin_frame replay fs requested salt op n hmeta hcol

/-- Frame, in terms of columns: every file of every other column (any name starting with
one of that column's prefixes), the `lock` file and every log file keep their content. -/
theorem C17_admin_other_columns {β : Type} (replay : Dir β → Dir β) (fs : Option (Dir β))
    (requested : List ColumnOptions) (salt : Option (List Nat)) (op : AdminOp) :
    (∀ c' k rest, op.affected requested ≠ some c' →
      fsGet (applyAdmin replay fs requested salt op).fs (filePrefix k c' ++ rest) =
        fsGet (adminBase replay fs requested salt op) (filePrefix k c' ++ rest)) ∧
    fsGet (applyAdmin replay fs requested salt op).fs lockName =
      fsGet (adminBase replay fs requested salt op) lockName ∧
    (∀ i, fsGet (applyAdmin replay fs requested salt op).fs (logName i) =
      fsGet (adminBase replay fs requested salt op) (logName i)) := by
  refine ⟨?_, ?_, ?_⟩
  · intro c' k rest hne
    apply admin_frame
    · left
      exact filePrefix_ne_metadata k c' rest
    · intro c hc
      cases hcf : isColumnFile c (filePrefix k c' ++ rest) with
      | false => rfl
      | true =>
        have := (isColumnFile_prefix_iff c k c' rest).mp hcf
        subst this
        exact absurd hc hne
  · apply admin_frame
    · left; decide
    · intro c _; exact isColumnFile_lock c
  · intro i
    apply admin_frame
    · left; exact logName_ne_metadata i
    · intro c _; exact isColumnFile_log c i

/-- The affected column is empty after a successful call: no name matched by its deletion
prefixes is left (`drop_last_column`, `reset_column`, `clear_column`). -/
theorem C17_admin_affected_empty {β : Type} (replay : Dir β → Dir β) (fs : Option (Dir β))
    (requested : List ColumnOptions) (salt : Option (List Nat)) (op : AdminOp) (c : Nat)
    (n : FileName) (hok : (applyAdmin replay fs requested salt op).result = .ok ())
    (hc : op.affected requested = some c) (hn : isColumnFile c n = true) :
    fsGet (applyAdmin replay fs requested salt op).fs n = none :=
  admin_affected_empty replay fs requested salt op hok hc hn

/-- "Newly configured": after a successful call that changes the column list, loading the
metadata file gives the new list (`requested ++ [new]`, `requested.dropLast`,
`requested.set index new`) together with the salt and the format version that were stored
before the call - whatever `options.salt` the caller passed. -/
theorem C17_admin_metadata {β : Type} (replay : Dir β → Dir β) (fs : Option (Dir β))
    (requested : List ColumnOptions) (salt : Option (List Nat)) (op : AdminOp)
    (cols : List ColumnOptions)
    (hok : (applyAdmin replay fs requested salt op).result = .ok ())
    (hcols : op.newColumns requested = some cols) :
    ∃ d m, fs = some d ∧ loadMetadataFile (d metadataName) = .ok (some m) ∧
      m.columns = requested ∧
      loadMetadataFile (fsGet (applyAdmin replay fs requested salt op).fs metadataName) =
        .ok (some ⟨m.salt, m.version, cols⟩) := by
  obtain ⟨d, m, hfs, hm, hmc, hfile⟩ := admin_metadata replay fs requested salt op hok hcols
  refine ⟨d, m, hfs, hm, hmc, ?_⟩
  rw [hfile]
  simp only [loadMetadataFile]
  rw [C17_meta_roundtrip _ _ _ (loadMetadataFile_version hm) (loadMetadataFile_salt hm)]

-- non-vacuity: on the example directory `reset_column(1, None)` succeeds, the files of
-- column 1 are gone, the file of column 0 and the log are untouched; `add_column` succeeds
-- and the metadata then lists three columns.
example : (applyAdmin id (some exampleDir) exampleCols none (.reset 1 none)).result = .ok () ∧
    fsGet (applyAdmin id (some exampleDir) exampleCols none (.reset 1 none)).fs t!"table_01_00"
      = none ∧
    fsGet (applyAdmin id (some exampleDir) exampleCols none (.reset 1 none)).fs t!"table_00_00"
      = some (.data 11) ∧
    fsGet (applyAdmin id (some exampleDir) exampleCols none (.reset 1 none)).fs t!"log0"
      = some (.data 14) := by
  have hp := example_precheck none
  simp only [applyAdmin, resetColumn_ok id (some exampleDir) exampleCols none 1 none hp]
  refine ⟨by decide, ?_, ?_, ?_⟩ <;> (simp only [fsGet]; decide)

example (new : ColumnOptions) (s : Option (List Nat)) : ∃ d m, some exampleDir = some d ∧
    loadMetadataFile (d metadataName) = .ok (some m) ∧ m.columns = exampleCols ∧
    loadMetadataFile
        (fsGet (applyAdmin id (some exampleDir) exampleCols s (.add new)).fs metadataName) =
      .ok (some ⟨m.salt, m.version, exampleCols ++ [new]⟩) :=
  C17_admin_metadata id (some exampleDir) exampleCols s (.add new) _
    (by simp only [applyAdmin, addColumn_ok id (some exampleDir) exampleCols s new
      (example_precheck s)]; rfl)
    rfl

#print axioms C17_codec
#print axioms C17_isValid_table
#print axioms C17_format_golden
#print axioms C17_legacy_sizes_suffix
#print axioms C17_meta_roundtrip
#print axioms C17_meta_roundtrip_current
#print axioms C17_open_check
#print axioms C17_open_fails_clean
#print axioms C17_prefix_disjoint
#print axioms C17_admin_frame
#print axioms C17_admin_other_columns
#print axioms C17_admin_affected_empty
#print axioms C17_admin_metadata

end Pdb.C17
