/-
R6, saturation of the stored root counter of a `ref_counted` multitree column (`table.rs` `change_ref`: the u32 counter in
front of the key tail stops at `LOCKED_REF = u32::MAX` and a locked entry is never decremented or removed) - the analogue of
`R5_saturates` for multitree roots.  C10's abstract root count is an unbounded number: beyond `LOCKED_REF - 1` the physical
column represents the heap with count `LOCKED_REF`, not C10's `count + 1` (`R6_saturation_deviates`), and a locked tree can no
longer be dereferenced (`R6_root_locked_never_removed`) - the simulation theorems `R6_setRoot_rc_live` / `R6_refRoot_rc` /
`R6_deref_change_rc` carry the hypotheses `c + 1 < LOCKED_REF` / `c < LOCKED_REF` for exactly this reason.
-/
import Pdb.Proofs.RefineMt17

namespace Pdb.MultiTreePhys
open Pdb.Gen Pdb.ValueTable Pdb.MultiTree Pdb.RefineRc

/-- R6_root_saturates: on a live root whose stored count is `LOCKED_REF - 1` or `LOCKED_REF`, `Operation::Set` (InsertTree of a
    live key) and `Operation::Reference` (ReferenceTree) leave the counter at `LOCKED_REF`; the column represents the heap with
    that count. -/
theorem R6_root_saturates {p : PCol} {h : Heap Key Bytes} {ly : Layout} (r : Rep p h ly) (k : Key) (n root' : Node Bytes)
    (c : Nat) (hk : k.length = 32) (hv : p.variant = .rcRoots) (hg : h.roots.get k = some (n, c))
    (hlo : LOCKED_REF ≤ c + 1) (hhi : c ≤ LOCKED_REF) :
    ∃ p', physApplyRoot p (.set k root') = .ok p' ∧ physApplyRoot p (.reference k) = .ok p' ∧
      Rep p' { h with roots := h.roots.set k (some (n, LOCKED_REF)) } ly ∧ p'.variant = p.variant :=
  sim_root_saturates p h ly r k n root' c hk hv hg hlo hhi

/-- R6_saturation_deviates: C10's model counts on: from `LOCKED_REF` the abstract count differs from the stored one. -/
theorem R6_saturation_deviates (h : Heap Key Bytes) (k : Key) (n root' : Node Bytes)
    (hg : h.roots.get k = some (n, LOCKED_REF)) :
    (applyRootChange .rcRoots h (.set k root')).roots.get k = some (n, LOCKED_REF + 1) ∧ LOCKED_REF + 1 ≠ LOCKED_REF := by
  refine ⟨?_, by decide⟩
  simp only [applyRootChange, hg, rootEntry, FMap.get_set_same]

/-- R6_root_locked_never_removed: `DereferenceChildren` on a locked root changes nothing: counter, value and all nodes stay,
    no walk happens, `get_root` still returns the tree with count `LOCKED_REF`. -/
theorem R6_root_locked_never_removed {p : PCol} {h : Heap Key Bytes} {ly : Layout} (r : Rep p h ly) (k : Key)
    (n : Node Bytes) (cs : List Nat) (hk : k.length = 32) (hv : p.variant = .rcRoots)
    (hg : h.roots.get k = some (n, LOCKED_REF)) :
    ∃ p', physApplyNode p (.derefChildren k cs) = .ok p' ∧ Rep p' h ly ∧ p'.variant = p.variant ∧
      physGetRoot p' k = some (n, LOCKED_REF) :=
  sim_root_locked_deref p h ly r k n cs hk hv hg

/-- R6_any_count_represented (ghost step, used for non-vacuity): overwriting the counter field of a live root by any positive
    u32 gives a represented state - the heap with that root count. -/
theorem R6_any_count_represented {p : PCol} {h : Heap Key Bytes} {ly : Layout} (r : Rep p h ly) (k : Key) (n : Node Bytes)
    (c : Nat) (hk : k.length = 32) (hrcol : p.isRc = true) (hg : h.roots.get k = some (n, c)) (c' : Nat)
    (hc' : c' < 256 ^ REFS_SIZE) (hpos' : 0 < c') :
    ∃ a, p.index.get k = some a ∧
      Rep (p.setVT (Address.size_tier a) (bumped (p.vt (Address.size_tier a)) (Address.offset a) c'))
        { h with roots := h.roots.set k (some (n, c')) } ly :=
  sim_rootPoke p h ly r k n c hk hrcol hg c' hc' hpos'

/-! ## non-vacuity: a represented state with root count `LOCKED_REF - 1`, then Set (saturates), then Dereference (stays) -/

def exKs : Key := List.replicate 32 5
def exRs : Node Bytes := ⟨[1, 2, 3], []⟩
def exS1 : Heap Key Bytes := { (Heap.empty : Heap Key Bytes) with roots := (Heap.empty : Heap Key Bytes).roots.set exKs (some (exRs, 1)) }

set_option maxRecDepth 100000 in
example : ∃ p ly h, Rep p h ly ∧ physGetRoot p exKs = some (exRs, LOCKED_REF) := by
  have hnp : numParts ((PCol.init .rcRoots).vt (rootTier (PCol.init .rcRoots).isRc exKs (encodeNode exRs).length))
      (keyTail exKs) (encodeNode exRs) = 1 := by
    rw [numParts_cfg _ _ ((rep_init .rcRoots).cfg _)]; decide
  obtain ⟨p1, c, _, r1, _, hv1⟩ := sim_setRoot_new (PCol.init .rcRoots) Heap.empty Layout.empty (rep_init .rcRoots) exKs exRs
    (by decide) rfl ⟨by decide, by decide⟩ (by rw [hnp, init_filled]; decide)
  have hv1' : p1.variant = .rcRoots := by rw [hv1]; rfl
  have hrc1 : p1.isRc = true := by simp [PCol.isRc, hv1']
  have hg1 : exS1.roots.get exKs = some (exRs, 1) := by simp [exS1, FMap.get_set]
  -- ghost: the counter field set to LOCKED_REF - 1
  obtain ⟨a, _, r2⟩ := R6_any_count_represented (h := exS1) r1 exKs exRs 1 (by decide) hrc1 hg1 (LOCKED_REF - 1)
    (by decide) (by decide)
  have hg2 : (exS1.roots.set exKs (some (exRs, LOCKED_REF - 1))).get exKs = some (exRs, LOCKED_REF - 1) :=
    FMap.get_set_same _ _ _
  obtain ⟨p3, _, _, r3, hv3⟩ := R6_root_saturates r2 exKs exRs exRs (LOCKED_REF - 1) (by decide) hv1' hg2 (by decide)
    (by decide)
  have hv3' : p3.variant = .rcRoots := by rw [hv3]; exact hv1'
  have hg3 : ((exS1.roots.set exKs (some (exRs, LOCKED_REF - 1))).set exKs (some (exRs, LOCKED_REF))).get exKs =
      some (exRs, LOCKED_REF) := FMap.get_set_same _ _ _
  obtain ⟨p4, _, r4, _, hget⟩ := R6_root_locked_never_removed r3 exKs exRs [] (by decide) hv3' hg3
  exact ⟨p4, _, _, r4, hget⟩

end Pdb.MultiTreePhys

section Axioms
open Pdb.MultiTreePhys
#print axioms R6_root_saturates
#print axioms R6_saturation_deviates
#print axioms R6_root_locked_never_removed
#print axioms R6_any_count_represented
end Axioms
