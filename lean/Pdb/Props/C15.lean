/-
C15  The pipeline always drains: commits return, shutdown terminates.

Model: Pdb.Conc.Pipe (Pdb/Model/Conc.lean): N committers, the four workers, the owner of the
handle; program counters at the granularity of lock acquisition / wait / signal / check;
`WaitCondvar<bool>` = flag under a mutex, `wait` re-tests the flag in a loop, a notify with no
parked waiter is lost; the two raw condvars are waited on with a single `if`; transaction
sizes are arbitrary naturals (0 .. beyond the 16 MiB / 128 MiB limits, which are the constants
regenerated from src/db.rs).  All interleavings, injected worker failures at any I/O step,
drop at any moment (Rust ownership: not inside a commit call).

Tie to the code: T0 - the shapes that matter are `Cfg` flags computed from the generated
skeletons (`cfgOfGen`), the WaitCondvar semantics rests on the order obligations
`Ord.signal_under_mutex` / `Ord.wait_retests_flag`, worker loop shapes on `Ord.*_shape`;
plus the oracle runs of harness/src/c15.rs (real crate with workers, watchdog).

THE FULL STATEMENT IS FALSE OF THE CURRENT TREE: three defects (F7, F12, F13) are exhibited
below as machine-checked schedules of the unpatched model (`unpatchedCfg`), each replayed on
the real crate (see the report).  The theorems are proved for the fixed configuration
(`Fixed cfg`: fixes/fix-c15-*.diff applied) and apply to the generated configuration as soon
as `cfgOfGen` has all five flags set (`C15_*_gen`).

Progress is stated under weak fairness of enabled steps: `C15_no_stuck` (no reachable state in
which every thread is blocked while something is pending) together with
`C15_shutdown_terminates` (a measure that every worker step decreases once shutdown is
signalled) gives: every fair run drains and every fair shutdown terminates.
Strength: proof of the model + T0 + oracle runs; OS scheduler fairness and real condvar
semantics (no spurious wake-ups are needed, none are modelled) are assumed: partial by nature.
-/
import Pdb.Proofs.C15Term
import Pdb.Proofs.Order

namespace Pdb.Conc.Pipe
open Pdb.Gen

/-! ### statements -/

/-- Nothing that the configuration promises to process is left when nobody can move. -/
def nothingPending (cfg : Cfg) (s : St) : Prop :=
  -- the owner is not stuck half-way through a drop
  (s.pd = .idle ∨ s.pd = .done) ∧
  -- no commit call is blocked
  (∀ c ∈ s.cms, c = .idle) ∧
  -- running system: queue empty, appending log below the flush threshold (empty with
  -- always_flush), every flushed file enacted, dirty logs within the limit
  (s.shutdown = false →
      s.q = [] ∧ sum s.app ≤ cfg.minLog ∧ s.readQ = [] ∧ s.reading = none ∧ s.dirty ≤ cfg.maxLogs) ∧
  -- after shutdown / a stored error: all four workers have exited
  (s.shutdown = true → s.pl = .done ∧ s.pf = .done ∧ s.pc = .done ∧ s.pk = .done) ∧
  -- handle dropped: logs reclaimed; without a stored error every accepted commit has been logged
  -- and its log file flushed (enacted, or left for replay by the next open)
  (s.pd = .done → s.dirty = 0 ∧ (s.bgErr = false → s.q = [] ∧ sum s.app = 0))

def C15_no_stuck_stmt (cfg : Cfg) (nCm reidx : Nat) : Prop :=
  ∀ s, Reachable cfg nCm reidx s → allBlocked cfg s = true → nothingPending cfg s

theorem fixed_of_patched {cfg : Cfg} (hw : cfg.workers = true) (hp : cfg.patched = true) : Fixed cfg := by
  simp only [Cfg.patched, Bool.and_eq_true] at hp
  exact ⟨hw, hp.1.1.1.1, hp.1.1.1.2, hp.1.1.2, hp.1.2, hp.2⟩

theorem minLog_le_MAXL : MIN_LOG_SIZE_BYTES ≤ MAXL := by decide

/-! ### C15_no_lost_wakeup -/

/-- **C15_no_lost_wakeup** (every configuration, patched or not).  For each of the five
    `WaitCondvar<bool>`: a waiter that is parked and has not been notified finds the flag
    unset ("blocked(w) → ¬flag(w) ∨ notified(w)"); a pending notification implies the flag is
    set, so the woken waiter leaves its loop.  Hence a set flag is never lost: its waiter is
    running, or its next `wait` returns at once, or it has been woken. -/
theorem C15_no_lost_wakeup (cfg : Cfg) (nCm reidx : Nat) (s : St) (h : Reachable cfg nCm reidx s) :
    ∀ c ∈ [s.cvL, s.cvF, s.cvC, s.cvK, s.cvQ],
      (c.waiting = true → c.notified = false → c.flag = false) ∧ (c.notified = true → c.flag = true) := by
  have hI := cvInv_reachable h
  intro c hc
  simp only [List.mem_cons, List.mem_nil_iff, or_false] at hc
  rcases hc with rfl | rfl | rfl | rfl | rfl
  · exact ⟨hI.l.parked, fun hn => (hI.l.noted hn).1⟩
  · exact ⟨hI.f.parked, fun hn => (hI.f.noted hn).1⟩
  · exact ⟨hI.c.parked, fun hn => (hI.c.noted hn).1⟩
  · exact ⟨hI.k.parked, fun hn => (hI.k.noted hn).1⟩
  · exact ⟨hI.q.parked, fun hn => (hI.q.noted hn).1⟩

/-! ### C15_commit_returns -/

/-- **C15_commit_returns.**  A committer that waits (or is about to wait) on the queue-full
    condvar and has not been notified still has its reason to wait: the queue is above
    `MAX_COMMIT_QUEUE_BYTES`, and no background error is stored unless the failing worker's
    `notify_all` is still to come (it is at its `store_err` tail).  The single `if` (no loop)
    around the wait is harmless: a notified committer just proceeds. -/
theorem C15_commit_returns (cfg : Cfg) (hF : Fixed cfg) (nCm reidx : Nat) (s : St)
    (h : Reachable cfg nCm reidx s) (c : Cm) (hc : c ∈ s.cms) (hu : unnot c = true) :
    sum s.q > MAXQ ∧
    (s.bgErr = true → lE23 s.pl = true ∨ fE23 s.pf = true ∨ cE23 s.pc = true ∨ kE23 s.pk = true) := by
  have hI := inv_reachable hF h
  exact ⟨hI.gn.rq ⟨c, hc, hu⟩, fun hb => hI.gd.q2 hb ⟨c, hc, hu⟩⟩

/-- ... and both events wake every parked committer: (a) the pop that takes the queue across
    the limit downwards, (b) the `notify_all` of `store_err` (taken under the queue mutex, so
    nobody is between its test and its wait). -/
theorem C15_commit_wakeups (cfg : Cfg) (s : St) :
    (∀ b q', s.pl = .pop → s.q = b :: q' → qFree s = true → sum q' ≤ MAXQ → sum q' + b > MAXQ →
        ∃ s', tickL cfg s = some s' ∧ ¬ ∃ c ∈ s'.cms, unnot c = true) ∧
    (cfg.storeErrNotifyLocked = true → ∀ s1 n, errStep cfg s .e3 = some (s1, n) →
        ¬ ∃ c ∈ s1.cms, unnot c = true) := by
  constructor
  · intro b q' hp hq hf h1 h2
    have hc : (decide (sum q' ≤ MAXQ) && decide (sum q' + b > MAXQ)) = true := by simp [h1, h2]
    refine ⟨notifyAllCm { s with q := q', pl := .write1 b }, ?_, no_unnot_after_notifyAll hf⟩
    unfold tickL
    rw [hp]
    simp only [hf, if_true, hq, hc]
  · intro hl s1 n he
    simp only [errStep, hl, Bool.true_and] at he
    split at he
    · cases he
    · rename_i hg
      cases he
      have hq : qFree s = true := by simpa using hg
      exact no_unnot_after_notifyAll hq

/-! ### C15_no_stuck -/

/-- **C15_no_stuck.**  Fixed configuration with workers: in every reachable state in which
    every thread is blocked or finished, nothing is pending. -/
theorem C15_no_stuck (cfg : Cfg) (hF : Fixed cfg) (hm : cfg.minLog ≤ MAXL) (n r : Nat) :
    C15_no_stuck_stmt cfg n r := by
  intro s h hb
  obtain ⟨cv, g1, gp, gn, gd⟩ := inv_reachable hF h
  have gx := gx_reachable hF.w h
  simp only [allBlocked, Bool.and_eq_true, Option.isNone_iff_eq_none] at hb
  obtain ⟨⟨⟨⟨⟨hL, hFl⟩, hC⟩, hK⟩, hD⟩, hCm⟩ := hb
  obtain ⟨hqf, hcms⟩ := cms_blocked hCm
  -- the log worker is not between its throttle test and the wait (that step is always enabled)
  have hlf : lqFree s = true := by
    unfold lqFree
    by_cases hp : s.pl = .lqAbout
    · unfold tickL at hL; rw [hp] at hL; cases hL
    · simpa using hp
  have bL := tickL_none hL hlf hqf
  have bF := tickF_none hFl hlf hqf
  have bC := tickC_none hC hlf hqf
  have bK := tickK_none hK hlf hqf
  have bD := tickD_none hF.p1 hD hlf (fun hp => g1.a2 (by rw [hp]; rfl))
  cases hsh : s.shutdown with
  | false =>
    -- running system: nobody has exited, the owner is idle
    have nL : s.pl ≠ .done := fun hp => by have := g1.a6l (by rw [hp]; rfl); rw [hsh] at this; cases this
    have nF : s.pf ≠ .done := fun hp => by have := g1.a6f (by rw [hp]; rfl); rw [hsh] at this; cases this
    have nC : s.pc ≠ .done := fun hp => by have := g1.a6c (by rw [hp]; rfl); rw [hsh] at this; cases this
    have nK : s.pk ≠ .done := fun hp => by have := g1.a6k (by rw [hp]; rfl); rw [hsh] at this; cases this
    have hpd : s.pd = .idle := by
      rcases bD with hp | hp | hp | ⟨hp, _⟩ | ⟨hp, _⟩ | ⟨hp, _⟩ | ⟨hp, _⟩
      · exact hp
      all_goals first
        | (exact absurd hp g1.a8)
        | (have := g1.a2 (by rw [hp]; rfl); rw [hsh] at this; cases this)
    obtain ⟨pF, wF, nfF⟩ := bF.resolve_left nF
    obtain ⟨pK, wK, nfK⟩ := bK.resolve_left nK
    have fF : s.cvF.flag = false := cv.f.parked wF nfF
    have fK : s.cvK.flag = false := cv.k.parked wK nfK
    -- the commit worker cannot be waiting for a cleanup
    have pC : s.pc = .waitC ∧ s.cvC.flag = false := by
      rcases bC.resolve_left nC with ⟨p, w, nf⟩ | ⟨p, w, nf⟩
      · exact ⟨p, cv.c.parked w nf⟩
      · exfalso
        have fQ := cv.q.parked w nf
        rcases gp.rcq hsh p fQ with hd | hk
        · rcases gp.rk hsh hd with h1 | h1 | h1
          · rw [fK] at h1; cases h1
          · rw [pK] at h1; simp [kHead] at h1
          · rw [p] at h1; simp [cSig] at h1
        · rw [pK] at hk; simp [isClSignal] at hk
    have hrq : s.readQ = [] := by
      by_cases hq : s.readQ = []
      · exact hq
      · rcases gp.rc1 hsh hq pC.1 with h1 | h1
        · rw [pC.2] at h1; cases h1
        · rw [pF] at h1; cases h1
    have hrd : s.reading = none := by
      by_cases hq : s.reading = none
      · exact hq
      · have := gp.rc2 hsh hq; rw [pC.1] at this; simp [cHead] at this
    have hnw2 : isWrite2 s.pl = false := by
      rcases bL.resolve_left nL with ⟨p, _⟩ | ⟨p, _⟩ <;> (rw [p]; rfl)
    have happ : sum s.app ≤ cfg.minLog := by
      by_cases hq : sum s.app > cfg.minLog
      · rcases gp.rf hsh hq with h1 | h1 | h1
        · rw [fF] at h1; cases h1
        · rw [pF] at h1; simp [fHead] at h1
        · rw [hnw2] at h1; cases h1
      · omega
    -- the log worker cannot be parked on the log-queue throttle: too few bytes are outstanding
    have pL : s.pl = .waitL ∧ s.cvL.flag = false := by
      rcases bL.resolve_left nL with ⟨p, w, nf⟩ | ⟨p, nn⟩
      · exact ⟨p, cv.l.parked w nf⟩
      · exfalso
        have h1 := gn.rlq (Or.inr ⟨p, nn⟩)
        have h2 := gn.racc
        rw [p, hrq, hrd] at h2
        simp only [RACC, pendL, sumsum_nil, sumOpt] at h2
        have : (MAXL : Int) ≥ (cfg.minLog : Int) := by exact_mod_cast hm
        omega
    have hq : s.q = [] := by
      by_cases hq : s.q = []
      · exact hq
      · rcases gp.rl hsh hq with h1 | h1
        · rw [pL.2] at h1; cases h1
        · rw [pL.1] at h1; simp [lHead] at h1
    have hdirty : s.dirty ≤ cfg.maxLogs := by
      by_cases hd : s.dirty > cfg.maxLogs
      · rcases gp.rk hsh hd with h1 | h1 | h1
        · rw [fK] at h1; cases h1
        · rw [pK] at h1; simp [kHead] at h1
        · rw [pC.1] at h1; simp [cSig] at h1
      · omega
    have hidle : ∀ c ∈ s.cms, c = .idle := by
      intro c hc
      rcases hcms c hc with h1 | ⟨b, h1⟩
      · exact h1
      · exfalso
        have := gn.rq ⟨c, hc, by rw [h1]; rfl⟩
        rw [hq] at this; simp at this
    exact ⟨Or.inl hpd, hidle, fun _ => ⟨hq, happ, hrq, hrd, hdirty⟩, (fun h => by rw [hsh] at h; cases h),
      (fun hp => by rw [hpd] at hp; cases hp)⟩
  | true =>
    -- shutdown requested: the notifications are out (whoever owes them could take a step)
    have hsd : s.sdDone = true := by
      cases hx : s.sdDone with
      | true => rfl
      | false =>
        exfalso
        rcases g1.a5 hsh hx with hp | hp | hp | hp | hp
        · unfold tickD at hD; rw [hp] at hD; simp [hlf] at hD
        · obtain ⟨r, hr⟩ := errStep_some_of_free (cfg := cfg) .e2 hlf hqf
          unfold tickL at hL; rw [hp] at hL; simp only at hL; rw [hr] at hL; cases hL
        · obtain ⟨r, hr⟩ := errStep_some_of_free (cfg := cfg) .e2 hlf hqf
          unfold tickF at hFl; rw [hp] at hFl; simp only at hFl; rw [hr] at hFl; cases hFl
        · obtain ⟨r, hr⟩ := errStep_some_of_free (cfg := cfg) .e2 hlf hqf
          unfold tickC at hC; rw [hp] at hC; simp only at hC; rw [hr] at hC; cases hC
        · obtain ⟨r, hr⟩ := errStep_some_of_free (cfg := cfg) .e2 hlf hqf
          unfold tickK at hK; rw [hp] at hK; simp only at hK; rw [hr] at hK; cases hK
    have dL : s.pl = .done := by
      rcases bL with hp | ⟨p, w, nf⟩ | ⟨p, nn⟩
      · exact hp
      · have := (gd.dl hsd).1 p; rw [cv.l.parked w nf] at this; cases this
      · have := (gd.dl hsd).2.1 p; rw [nn] at this; cases this
    have dF : s.pf = .done := by
      rcases bF with hp | ⟨p, w, nf⟩
      · exact hp
      · have := gd.df hsd p; rw [cv.f.parked w nf] at this; cases this
    have dC : s.pc = .done := by
      rcases bC with hp | ⟨p, w, nf⟩ | ⟨p, w, nf⟩
      · exact hp
      · have := (gd.dc hsd).1 (by rw [p]; rfl); rw [cv.c.parked w nf] at this; cases this
      · have := (gd.dc hsd).2 p; rw [cv.q.parked w nf] at this; cases this
    have dK : s.pk = .done := by
      rcases bK with hp | ⟨p, w, nf⟩
      · exact hp
      · have := gd.dk hsd p; rw [cv.k.parked w nf] at this; cases this
    have hpd : s.pd = .idle ∨ s.pd = .done := by
      rcases bD with hp | hp | hp | ⟨_, hn⟩ | ⟨_, hn⟩ | ⟨_, hn⟩ | ⟨_, hn⟩
      · exact Or.inl hp
      · exact Or.inr hp
      · exact absurd hp g1.a8
      · exact absurd dL hn
      · exact absurd dF hn
      · exact absurd dC hn
      · exact absurd dK hn
    have hidle : ∀ c ∈ s.cms, c = .idle := by
      intro c hc
      rcases hcms c hc with h1 | ⟨b, h1⟩
      · exact h1
      · exfalso
        rcases hpd with hp | hp
        · -- handle alive: the shutdown flag comes from a stored error, whose notify_all is done
          have hbe : s.bgErr = true := by
            rcases gx.a12 hsh with h2 | h2
            · rw [hp] at h2; cases h2
            · exact h2
          rcases gd.q2 hbe ⟨c, hc, by rw [h1]; rfl⟩ with h2 | h2 | h2 | h2
          · rw [dL] at h2; cases h2
          · rw [dF] at h2; cases h2
          · rw [dC] at h2; cases h2
          · rw [dK] at h2; cases h2
        · have := g1.a1 (by rw [hp]; simp) c hc
          rw [h1] at this; cases this
    exact ⟨hpd, hidle, (fun h => by rw [hsh] at h; cases h), fun _ => ⟨dL, dF, dC, dK⟩,
      fun hp => gd.fin (Or.inr hp)⟩

/-! ### C15_shutdown_terminates -/

/-- **C15_shutdown_terminates.**  Fixed configuration: once the notifications of `shutdown()`
    are out (drop or stored error), every step of a worker strictly decreases `measure`
    (40·queued commits + 40·pending reindex batches + 12·unread log records + 8·unread log
    files + 4·[dirty logs above the keep level] + the distance of each worker to its exit), so
    every worker loop exits after finitely many of its own steps; and no worker is ever
    parked for ever (`C15_no_stuck`).  The owner then joins the four threads; `kill_logs` is a
    total sequential function that never waits (`killLogsSeq_some`). -/
theorem C15_shutdown_terminates (cfg : Cfg) (hF : Fixed cfg) (n r : Nat) (s s' : St)
    (h : Reachable cfg n r s) (hsd : s.sdDone = true) (t : Tid) (ht : t ≠ .D)
    (hs : step cfg s (.tick t) = some s') : measure cfg s' < measure cfg s := by
  obtain ⟨_, g1, _, _, gd⟩ := inv_reachable hF h
  cases t with
  | L => exact measure_tickL hF g1 gd hsd hs
  | F => exact measure_tickF hF g1 gd hsd hs
  | C => exact measure_tickC hF g1 gd hsd hs
  | K => exact measure_tickK hF g1 gd hsd hs
  | D => exact absurd rfl ht

/-- the shutdown flag leads to the notifications: whoever owes them can always take its step
    (under the fix of F12 it may have to wait for the log worker to finish parking) -/
theorem C15_shutdown_signalled (cfg : Cfg) (hF : Fixed cfg) (n r : Nat) (s : St)
    (h : Reachable cfg n r s) (hsh : s.shutdown = true) (hsd : s.sdDone = false) :
    s.pd = .sd2 ∨ s.pl = .err .e2 ∨ s.pf = .err .e2 ∨ s.pc = .err .e2 ∨ s.pk = .err .e2 :=
  (inv_reachable hF h).g1.a5 hsh hsd

/-- with the fix of F7 the owner's `kill_logs` never blocks -/
theorem C15_kill_logs_total (cfg : Cfg) (hF : Fixed cfg) (s : St) (hs : s.shutdown = true) :
    ∃ s', killLogsSeq cfg s = some s' := killLogsSeq_some hF.p1 hs

/-! ### the generated configuration -/

theorem C15_no_stuck_gen (syncData : Bool) (n r : Nat)
    (hp : (cfgOfGen MIN_LOG_SIZE_BYTES syncData true).patched = true) :
    C15_no_stuck_stmt (cfgOfGen MIN_LOG_SIZE_BYTES syncData true) n r :=
  C15_no_stuck _ (fixed_of_patched rfl hp) minLog_le_MAXL n r

theorem C15_no_stuck_gen_always_flush (syncData : Bool) (n r : Nat)
    (hp : (cfgOfGen 0 syncData true).patched = true) : C15_no_stuck_stmt (cfgOfGen 0 syncData true) n r :=
  C15_no_stuck _ (fixed_of_patched rfl hp) (Nat.zero_le _) n r

/-- The three fixes (e2435c7, 100a265, 560b45b) are in the tree: the configuration computed from
    the generated skeletons is the patched one, for every option combination.  Un-fixing any of
    them breaks this theorem. -/
theorem C15_gen_fixed :
    (cfgOfGen MIN_LOG_SIZE_BYTES true true).patched = true ∧
    (cfgOfGen MIN_LOG_SIZE_BYTES false true).patched = true ∧
    (cfgOfGen 0 true true).patched = true ∧ (cfgOfGen 0 false true).patched = true := by decide

/-! ### negation witnesses for the unpatched programs -/

def rep (n : Nat) (a : Act) : List Act := List.replicate n a
def L := Act.tick .L
def F := Act.tick .F
def C := Act.tick .C
def K := Act.tick .K
def D := Act.tick .D

def runChk (cfg : Cfg) (nCm reidx : Nat) (sched : List Act) (P : St → Bool) : Bool :=
  match run cfg (init cfg nCm reidx) sched with
  | some s => P s
  | none => false

theorem runChk_sound {cfg : Cfg} {nCm reidx : Nat} {sched : List Act} {P : St → Bool}
    (h : runChk cfg nCm reidx sched P = true) : ∃ s, Reachable cfg nCm reidx s ∧ P s = true := by
  unfold runChk at h
  split at h
  · rename_i s hs; exact ⟨s, ⟨sched, hs⟩, h⟩
  · cases h

/-- F7 without workers: the client enacts five log files without calling `clean_logs`, queues
    one more commit and drops the handle: `kill_logs` logs, flushes and enacts that commit and
    then waits for a cleanup worker that does not exist. -/
def f7NoThreads : List Act :=
  (List.replicate 5 [Act.commit 0 10, .apiProcess, .apiFlush, .apiEnact]).flatten ++
  [.commit 0 10, .drop] ++ rep 6 D

theorem F7_witness_no_workers :
    runChk (unpatchedCfg 0 true false) 1 0 f7NoThreads
      (fun s => allBlocked (unpatchedCfg 0 true false) s && s.pd == .kill && s.dirty == 5 && s.q == [10]) = true := by
  decide

/-- F7 with workers (`sync_data = false`, always_flush): 17 paced commits leave KEEP_LOGS = 16
    dirty logs for ever; two more commits, then drop: the commit worker finishes the file it
    is reading (17 dirty) and exits, the cleanup worker has already exited, all four joins
    succeed, and `kill_logs` enacts the first record of the next file and waits for ever. -/
def f7Threads : List Act :=
  [.commit 0 10] ++ rep 14 L ++ rep 8 F ++ rep 16 C ++ rep 9 K ++
  (List.replicate 15 ([Act.commit 0 10] ++ rep 12 L ++ rep 7 F ++ rep 9 C ++ rep 5 K)).flatten ++
  [.commit 0 10] ++ rep 12 L ++ rep 7 F ++ rep 9 C ++ rep 8 K ++
  [.commit 0 10] ++ rep 12 L ++ rep 7 F ++ [.commit 0 10] ++ rep 12 L ++
  [.drop, D, D] ++ rep 5 L ++ rep 4 F ++ rep 4 K ++ rep 6 C ++ rep 4 D

set_option maxRecDepth 100000 in
theorem F7_witness_workers :
    runChk (unpatchedCfg 0 false true) 1 0 f7Threads
      (fun s => allBlocked (unpatchedCfg 0 false true) s && s.pd == .kill && s.dirty == 17 &&
        s.pl == .done && s.pf == .done && s.pc == .done && s.pk == .done && s.readQ == [[11]]) = true := by
  decide

/-- F12: (after one commit went through all stages) a small commit is logged and flushed but
    not yet enacted, a 128 MiB commit is logged; the log worker
    re-enters `process_commits`, sees `!shutdown && queue > MAX_LOG_QUEUE_BYTES` and is about
    to wait; `shutdown()` stores the flag and notifies the condvar WITHOUT the mutex: nobody is
    parked yet, the notification is lost; the log worker parks.  The commit worker enacts the
    small file only (it stops at the first end of file once shutdown is set), which does not
    take the queue below the limit, so nobody ever notifies again: `join(log_thread)` hangs. -/
def f12Schedule : List Act :=
  [.commit 0 10] ++ rep 14 L ++ rep 8 F ++ rep 16 C ++ rep 9 K ++
  [.commit 0 10] ++ rep 12 L ++ rep 7 F ++ [.commit 0 134217728] ++ rep 8 L ++
  [.drop, D, D, L] ++ rep 4 F ++ rep 6 C ++ rep 4 K

theorem F12_witness :
    runChk (unpatchedCfg 0 true true) 1 0 f12Schedule
      (fun s => allBlocked (unpatchedCfg 0 true true) s && s.pd == .joinL && s.pl == .lqParked &&
        !s.lqNotified && s.pf == .done && s.pc == .done && s.pk == .done && s.readQ == [[134217729]]) = true := by
  decide

/-- F13: commit A (> 16 MiB) is popped by the log worker, commit B (> 16 MiB) is queued, the
    log worker fails on A (I/O error): error stored, shutdown, notify_all - nobody is waiting.
    All workers exit.  The next commit call finds the queue above its limit, waits on the
    queue-full condvar BEFORE looking at the stored error, and nobody is left to wake it. -/
def f13Schedule : List Act :=
  [.commit 0 16777217] ++ rep 5 L ++ [.commit 1 16777217, .fail .L] ++ rep 3 L ++ [F, C] ++ rep 4 K ++
  [.commit 0 5, .cmTick 0]

theorem F13_witness :
    runChk (unpatchedCfg 0 true true) 2 0 f13Schedule
      (fun s => allBlocked (unpatchedCfg 0 true true) s && s.pd == .idle && s.bgErr &&
        s.cms == [.parked 5 false, .idle] && s.pl == .done && s.pf == .done && s.pc == .done && s.pk == .done) = true := by
  decide

/-- The full statement is false of the unpatched programs (each of F7, F12, F13 alone refutes it). -/
theorem C15_no_stuck_false_unpatched :
    ¬ C15_no_stuck_stmt (unpatchedCfg 0 false true) 1 0 ∧ ¬ C15_no_stuck_stmt (unpatchedCfg 0 true true) 1 0 ∧
    ¬ C15_no_stuck_stmt (unpatchedCfg 0 true true) 2 0 := by
  refine ⟨?_, ?_, ?_⟩
  · intro hall
    obtain ⟨s, hr, hp⟩ := runChk_sound F7_witness_workers
    simp only [Bool.and_eq_true, beq_iff_eq] at hp
    have := (hall s hr hp.1.1.1.1.1.1.1).1
    rw [hp.1.1.1.1.1.1.2] at this
    rcases this with h | h <;> cases h
  · intro hall
    obtain ⟨s, hr, hp⟩ := runChk_sound F12_witness
    simp only [Bool.and_eq_true, beq_iff_eq] at hp
    have := (hall s hr hp.1.1.1.1.1.1.1).1
    rw [hp.1.1.1.1.1.1.2] at this
    rcases this with h | h <;> cases h
  · intro hall
    obtain ⟨s, hr, hp⟩ := runChk_sound F13_witness
    simp only [Bool.and_eq_true, beq_iff_eq] at hp
    have := (hall s hr hp.1.1.1.1.1.1.1).2.1
    rw [hp.1.1.1.1.2] at this
    have := this (.parked 5 false) (by simp)
    cases this

/-! ### non-vacuity: the same schedules under the fixed configuration run to completion -/

example : Fixed (patchedCfg 0 false true) := ⟨rfl, rfl, rfl, rfl, rfl, rfl⟩
example : Fixed (patchedCfg MIN_LOG_SIZE_BYTES true true) := ⟨rfl, rfl, rfl, rfl, rfl, rfl⟩

set_option maxRecDepth 100000 in
/-- the F7 schedule, fixed: the drop completes, queue and appending file empty, logs reclaimed -/
example : runChk (patchedCfg 0 false true) 1 0 (f7Threads ++ [D, D])
    (fun s => s.pd == .done && s.q == [] && s.app == [] && s.dirty == 0 && s.accepted == 19) = true := by
  decide

/-- the F12 schedule, fixed: `shutdown()` has to wait for the mutex, the log worker parks, is
    notified and exits; the drop completes -/
example : runChk (patchedCfg 0 true true) 1 0
    ([.commit 0 10] ++ rep 14 L ++ rep 8 F ++ rep 16 C ++ rep 9 K ++
      [.commit 0 10] ++ rep 12 L ++ rep 7 F ++ [.commit 0 134217728] ++ rep 8 L ++
      [.drop, D, L, D] ++ rep 4 L ++ rep 4 F ++ rep 6 C ++ rep 4 K ++ rep 6 D)
    (fun s => s.pd == .done && s.pl == .done && s.q == [] && s.dirty == 0) = true := by
  decide

/-- the F13 schedule, fixed: the late commit call returns (refused) instead of waiting -/
example : runChk (patchedCfg 0 true true) 2 0
    ([.commit 0 16777217] ++ rep 5 L ++ [.commit 1 16777217, .fail .L] ++ rep 3 L ++ [F, C] ++ rep 4 K ++
      [.commit 0 5])
    (fun s => s.cms == [.idle, .idle] && s.refused == 1 && s.accepted == 2 && s.bgErr) = true := by
  decide

/-- a committer is really throttled and woken in the model: three 9 MiB commits, the third
    waits until the log worker pops the first -/
example : runChk (patchedCfg 0 true true) 3 0
    ([.commit 0 9000000, .commit 1 9000000, .commit 2 9000000, .cmTick 2] ++ rep 5 L ++ [.cmTick 2])
    (fun s => s.cms == [.idle, .idle, .idle] && s.accepted == 3 && s.q == [9000000, 9000000]) = true := by
  decide

end Pdb.Conc.Pipe

#print axioms Pdb.Conc.Pipe.C15_no_lost_wakeup
#print axioms Pdb.Conc.Pipe.C15_commit_returns
#print axioms Pdb.Conc.Pipe.C15_commit_wakeups
#print axioms Pdb.Conc.Pipe.C15_no_stuck
#print axioms Pdb.Conc.Pipe.C15_shutdown_terminates
#print axioms Pdb.Conc.Pipe.C15_shutdown_signalled
#print axioms Pdb.Conc.Pipe.C15_kill_logs_total
#print axioms Pdb.Conc.Pipe.C15_no_stuck_gen
#print axioms Pdb.Conc.Pipe.F7_witness_no_workers
#print axioms Pdb.Conc.Pipe.F7_witness_workers
#print axioms Pdb.Conc.Pipe.F12_witness
#print axioms Pdb.Conc.Pipe.F13_witness
#print axioms Pdb.Conc.Pipe.C15_no_stuck_false_unpatched
