/-
C15  The pipeline always drains: commits return, shutdown terminates.

Model: Pdb.Conc.Pipe (Pdb/Model/Conc.lean): N committers, the four workers, the owner of the
handle; program counters at the granularity of lock acquisition / wait / signal / check;
`WaitCondvar<bool>` = flag under a mutex, `wait` re-tests the flag in a loop, a notify with no
parked waiter is lost; the two raw condvars are waited on with a single `if`; transaction
sizes are arbitrary naturals (0 .. beyond the 16 MiB / 128 MiB limits, which are the constants
regenerated from src/db.rs).  All interleavings, injected worker failures at every `?` of the
worker loops, drop at any moment (Rust ownership: not inside a commit call, not inside an
iteration callback).  Environment actions added after the audit: commit DEFERRAL while a client
holds a tree lock (`defer`, `lockTree` / `unlockTree`) and the deferral CYCLE (`makeCycle`),
the iteration lock (`iterHold` / `iterRelease`), index growth and reindex gating by record id
(`grow`, `dropEnacted`, `reClear`), worker panics (`panic`, only in `ReachableP`).

Tie to the code: T0 - the shapes that matter are `Cfg` flags computed from the generated
skeletons (`cfgOfGen`), the WaitCondvar semantics rests on the order obligations
`Ord.signal_under_mutex` / `Ord.wait_retests_flag`, worker loop shapes on `Ord.*_shape`,
`C15_gen_new_shapes`; plus the oracle runs of harness/src/c15.rs (real crate with workers,
watchdog; scenarios `quiesce`, `logqfull`, `growth`, `defercycle` build the states of the
witnesses below on the real crate).

WHAT IS PROVED (fixed configuration = the three fixes e2435c7 / 100a265 / 560b45b, which are in
the tree: `C15_gen_fixed`; schedules without worker panics = `Reachable`):
  * `C15_no_lost_wakeup` (every configuration, panics included: `C15_no_lost_wakeup_with_panic`);
  * `C15_commit_returns`, `C15_commit_wakeups`;
  * `C15_quiescent` / `C15_no_stuck`: when no thread can move, and no CLIENT-held lock is what
    blocks one (`clientLetsGo`: fairness of the client, outside C15's quantifier), and no
    deferral cycle is queued, nothing is pending;
  * `C15_progress` / `C15_client_free_runs_are_finite` / `C15_drains` /
    `C15_quiescent_accounting`: a potential that EVERY step of EVERY thread decreases, running or
    shutting down: without client activity the system reaches quiescence within `phi` steps
    under ANY scheduler (no fairness needed), and there every accepted commit is logged, every
    rotated log file enacted, no commit call parked;
  * `C15_shutdown_terminates`, `C15_shutdown_signalled`, `C15_kill_logs_total`,
    `C15_drop_persists_all` (queue / appending file empty, NO file half read when
    `Log::kill_logs` deletes the reading file, accepted + batches = records = enacted + left in
    complete flushed files), `C15_iteration_lock_exclusive`,
    `C15_reindex_needs_only_a_wakeup`.
WHAT IS REFUTED (machine-checked schedules, each replayed on the real crate by the harness):
  * unpatched programs: F7, F12 (reachable in the LTS; the real window is a few instructions,
    the harness exercises the path but cannot force the window), F13;
  * NEW FINDING `C15_defer_cycle_livelock` / `C15_defer_cycle_kill_blocks`: two queued commits
    that each dereference a tree the other one recorded in `used_trees` are deferred for ever
    by `process_commits` with no lock held: accepted commits are never logged, the log worker
    spins, `drop` never returns (harness scenario `defercycle`);
  * client-held locks: `C15_defer_busy_spin` / `C15_defer_kill_blocks` (tree lock),
    `C15_iter_held_stalls` (iteration lock): progress resumes on release
    (`C15_defer_release_terminates`, `C15_iter_release_drains`);
  * "a pending reindex completes without client activity": `C15_reindex_stalls`,
    `C15_reindex_lost_trigger` (commits are unaffected: `C15_reindex_stall_harmless_for_commits`);
  * worker panic: `C15_panic_witness`, `C15_no_stuck_false_with_panic`;
  * `readQ = []` after drop: `C15_drop_leaves_flushed_files`.
Strength: proof of the model + T0 + oracle runs; real condvar semantics (no spurious wake-ups
are needed, none are modelled) assumed: partial by nature.
-/
import Pdb.Proofs.C15Prog
import Pdb.Proofs.Order

namespace Pdb.Conc.Pipe
open Pdb.Gen

/-! ### statements -/

/-- Nothing that the configuration promises to process is left when nobody can move. -/
def nothingPending (cfg : Cfg) (s : St) : Prop :=
  -- the owner is not stuck half-way through a drop
  (s.pd = .idle ∨ s.pd = .done) ∧
  -- no commit call is blocked
  (∀ c ∈ s.cms, c = .idle) ∧
  -- running system: queue empty, appending log below the flush threshold (empty with
  -- always_flush), every flushed file enacted, dirty logs within the limit
  (s.shutdown = false →
      s.q = [] ∧ sum s.app ≤ cfg.minLog ∧ s.readQ = [] ∧ s.reading = none ∧ s.dirty ≤ cfg.maxLogs) ∧
  -- after shutdown / a stored error: all four workers have exited
  (s.shutdown = true → s.pl = .done ∧ s.pf = .done ∧ s.pc = .done ∧ s.pk = .done) ∧
  -- handle dropped: logs reclaimed; without a stored error every accepted commit has been logged
  -- and its log file flushed (enacted, or left in a COMPLETE flushed file for replay by the next
  -- open): queue and appending file empty, no file half read (`Log::kill_logs` deletes the file
  -- being read), nothing deleted unread; accepted commits + reindex batches = records written,
  -- records written = records enacted + records in the flushed files left behind
  (s.pd = .done → s.dirty = 0 ∧
    (s.bgErr = false → s.q = [] ∧ s.app = [] ∧ s.reading = none ∧ s.killLost = 0 ∧
      s.accepted + s.nBatches + 1 = s.nLogged ∧ s.nLogged = s.nEnacted + lenSum s.readQ))

/-- No CLIENT-held lock is what keeps a thread from moving: the commit worker is not waiting for
    the iteration lock of a client callback, `kill_logs` is not deferring a tree dereference
    whose tree reader a client keeps locked.  (Fairness of the CLIENT, outside C15's quantifier:
    C15 promises progress "without needing further client activity", not without the client
    ever releasing what it holds.) -/
def clientLetsGo (s : St) : Prop :=
  (s.pc = .enRead → s.iterHeld = false) ∧ (s.pd = .kill → s.treeLocked = false)

/-- THE FULL STATEMENT (without the last hypothesis) IS FALSE OF THE CURRENT TREE even with the
    three fixes: a deferral cycle in the commit queue (`deferCycle`, finding "deferral
    livelock", `C15_defer_cycle_livelock` / `C15_defer_cycle_kill_blocks` below) makes
    `process_commits` re-queue the same commits for ever, with no lock held by anybody. -/
def C15_no_stuck_stmt (cfg : Cfg) (nCm reidx : Nat) : Prop :=
  ∀ s, Reachable cfg nCm reidx s → allBlocked cfg s = true → clientLetsGo s → s.deferCycle = false →
    nothingPending cfg s

theorem fixed_of_patched {cfg : Cfg} (hw : cfg.workers = true) (hp : cfg.patched = true) : Fixed cfg := by
  simp only [Cfg.patched, Bool.and_eq_true] at hp
  exact ⟨hw, hp.1.1.1.1, hp.1.1.1.2, hp.1.1.2, hp.1.2, hp.2⟩

theorem minLog_le_MAXL : MIN_LOG_SIZE_BYTES ≤ MAXL := by decide

/-! ### C15_no_lost_wakeup -/

/-- **C15_no_lost_wakeup** (every configuration, patched or not).  For each of the five
    `WaitCondvar<bool>`: a waiter that is parked and has not been notified finds the flag
    unset ("blocked(w) → ¬flag(w) ∨ notified(w)"); a pending notification implies the flag is
    set, so the woken waiter leaves its loop.  Hence a set flag is never lost: its waiter is
    running, or its next `wait` returns at once, or it has been woken. -/
theorem C15_no_lost_wakeup (cfg : Cfg) (nCm reidx : Nat) (s : St) (h : Reachable cfg nCm reidx s) :
    ∀ c ∈ [s.cvL, s.cvF, s.cvC, s.cvK, s.cvQ],
      (c.waiting = true → c.notified = false → c.flag = false) ∧ (c.notified = true → c.flag = true) := by
  have hI := cvInv_reachable h
  intro c hc
  simp only [List.mem_cons, List.mem_nil_iff, or_false] at hc
  rcases hc with rfl | rfl | rfl | rfl | rfl
  · exact ⟨hI.l.parked, fun hn => (hI.l.noted hn).1⟩
  · exact ⟨hI.f.parked, fun hn => (hI.f.noted hn).1⟩
  · exact ⟨hI.c.parked, fun hn => (hI.c.noted hn).1⟩
  · exact ⟨hI.k.parked, fun hn => (hI.k.noted hn).1⟩
  · exact ⟨hI.q.parked, fun hn => (hI.q.noted hn).1⟩

/-! ### C15_commit_returns -/

/-- **C15_commit_returns.**  A committer that waits (or is about to wait) on the queue-full
    condvar and has not been notified still has its reason to wait: the queue is above
    `MAX_COMMIT_QUEUE_BYTES`, and no background error is stored unless the failing worker's
    `notify_all` is still to come (it is at its `store_err` tail).  The single `if` (no loop)
    around the wait is harmless: a notified committer just proceeds. -/
theorem C15_commit_returns (cfg : Cfg) (hF : Fixed cfg) (nCm reidx : Nat) (s : St)
    (h : Reachable cfg nCm reidx s) (c : Cm) (hc : c ∈ s.cms) (hu : unnot c = true) :
    sum s.q > MAXQ ∧
    (s.bgErr = true → lE23 s.pl = true ∨ fE23 s.pf = true ∨ cE23 s.pc = true ∨ kE23 s.pk = true) := by
  have hI := inv_reachable hF h
  exact ⟨hI.gn.rq ⟨c, hc, hu⟩, fun hb => hI.gd.q2 hb ⟨c, hc, hu⟩⟩

/-- ... and both events wake every parked committer: (a) the pop that takes the queue across
    the limit downwards, (b) the `notify_all` of `store_err` (taken under the queue mutex, so
    nobody is between its test and its wait). -/
theorem C15_commit_wakeups (cfg : Cfg) (s : St) :
    (∀ b q', s.pl = .pop → s.q = b :: q' → qFree s = true → sum q' ≤ MAXQ → sum q' + b > MAXQ →
        ∃ s', tickL cfg s = some s' ∧ ¬ ∃ c ∈ s'.cms, unnot c = true) ∧
    (cfg.storeErrNotifyLocked = true → ∀ s1 n, errStep cfg s .e3 = some (s1, n) →
        ¬ ∃ c ∈ s1.cms, unnot c = true) := by
  constructor
  · intro b q' hp hq hf h1 h2
    have hc : (decide (sum q' ≤ MAXQ) && decide (sum q' + b > MAXQ)) = true := by simp [h1, h2]
    refine ⟨notifyAllCm { s with q := q', pl := .write1 b }, ?_, no_unnot_after_notifyAll hf⟩
    unfold tickL
    rw [hp]
    simp only [hf, if_true, hq, hc]
  · intro hl s1 n he
    simp only [errStep, hl, Bool.true_and] at he
    split at he
    · cases he
    · rename_i hg
      cases he
      have hq : qFree s = true := by simpa using hg
      exact no_unnot_after_notifyAll hq

/-! ### C15_no_stuck -/

/-- **C15_quiescent** (running system).  Fixed configuration: when no thread can move, no client
    callback holds the iteration lock the commit worker wants, and the shutdown flag is not set:
    all four workers are parked in their idle waits with unset flags, the queue is empty, the
    appending file is below the flush threshold, every flushed file is enacted, dirty logs are
    within the limit and no commit call is pending. -/
theorem C15_quiescent (cfg : Cfg) (hF : Fixed cfg) (hm : cfg.minLog ≤ MAXL) (n r : Nat) (s : St)
    (h : Reachable cfg n r s) (hb : allBlocked cfg s = true) (hcl : clientLetsGo s) (hsh : s.shutdown = false) :
    s.pd = .idle ∧ s.pl = .waitL ∧ s.cvL.flag = false ∧ s.pf = .waitF ∧ s.pc = .waitC ∧ s.pk = .waitK ∧
    s.q = [] ∧ sum s.app ≤ cfg.minLog ∧ s.readQ = [] ∧ s.reading = none ∧ s.dirty ≤ cfg.maxLogs ∧
    (∀ c ∈ s.cms, c = .idle) := by
  obtain ⟨cv, g1, gp, gn, gd⟩ := inv_reachable hF h
  have gx := gx_reachable hF.w h
  have ga := (ga_reachable hF.w h).2
  simp only [allBlocked, Bool.and_eq_true, Option.isNone_iff_eq_none] at hb
  obtain ⟨⟨⟨⟨⟨hL, hFl⟩, hC⟩, hK⟩, hD⟩, hCm⟩ := hb
  obtain ⟨hqf, hcms⟩ := cms_blocked hCm
  -- the log worker is not between its throttle test and the wait (that step is always enabled)
  have hlf : lqFree s = true := by
    unfold lqFree
    by_cases hp : s.pl = .lqAbout
    · unfold tickL at hL; rw [hp] at hL; cases hL
    · simpa using hp
  have bL := tickL_none hL hlf hqf
  have bF := tickF_none hFl hlf hqf
  have hC : tickC cfg s = none := by
    rcases tickCg_none_held hC with h1 | ⟨h1, h2⟩
    · exact h1
    · rw [hcl.1 h2] at h1; cases h1
  have bC := tickC_none hC hlf hqf
  have bK := tickK_none hK hlf hqf
  have bD : s.pd = .idle ∨ s.pd = .done ∨ s.pd = .stuck ∨ (s.pd = .joinL ∧ s.pl ≠ .done) ∨
      (s.pd = .joinF ∧ s.pf ≠ .done) ∨ (s.pd = .joinC ∧ s.pc ≠ .done) ∨ (s.pd = .joinK ∧ s.pk ≠ .done) := by
    by_cases hk : s.pd = .kill
    · exfalso
      have := g1.a2 (by rw [hk]; rfl)
      rw [hsh] at this; cases this
    · unfold tickD at hD
      split at hD
      · rename_i hp; exact Or.inl hp
      · cases hD
      · simp [hlf] at hD
      · rename_i hp; split at hD
        · cases hD
        · rename_i hn; exact Or.inr (Or.inr (Or.inr (Or.inl ⟨hp, hn⟩)))
      · rename_i hp; split at hD
        · cases hD
        · rename_i hn; exact Or.inr (Or.inr (Or.inr (Or.inr (Or.inl ⟨hp, hn⟩))))
      · rename_i hp; split at hD
        · cases hD
        · rename_i hn; exact Or.inr (Or.inr (Or.inr (Or.inr (Or.inr (Or.inl ⟨hp, hn⟩)))))
      · rename_i hp; split at hD
        · cases hD
        · rename_i hn; exact Or.inr (Or.inr (Or.inr (Or.inr (Or.inr (Or.inr ⟨hp, hn⟩)))))
      · rename_i hp; exact absurd hp hk
      · cases hD
      · rename_i hp; exact Or.inr (Or.inr (Or.inl hp))
      · rename_i hp; exact Or.inr (Or.inl hp)
  -- running system: nobody has exited, the owner is idle
  have nL : s.pl ≠ .done := fun hp => by have := g1.a6l (by rw [hp]; rfl); rw [hsh] at this; cases this
  have nF : s.pf ≠ .done := fun hp => by have := g1.a6f (by rw [hp]; rfl); rw [hsh] at this; cases this
  have nC : s.pc ≠ .done := fun hp => by have := g1.a6c (by rw [hp]; rfl); rw [hsh] at this; cases this
  have nK : s.pk ≠ .done := fun hp => by have := g1.a6k (by rw [hp]; rfl); rw [hsh] at this; cases this
  have hpd : s.pd = .idle := by
    rcases bD with hp | hp | hp | ⟨hp, _⟩ | ⟨hp, _⟩ | ⟨hp, _⟩ | ⟨hp, _⟩
    · exact hp
    all_goals first
      | (exact absurd hp g1.a8)
      | (have := g1.a2 (by rw [hp]; rfl); rw [hsh] at this; cases this)
  obtain ⟨pF, wF, nfF⟩ := bF.resolve_left nF
  obtain ⟨pK, wK, nfK⟩ := bK.resolve_left nK
  have fF : s.cvF.flag = false := cv.f.parked wF nfF
  have fK : s.cvK.flag = false := cv.k.parked wK nfK
  -- the commit worker cannot be waiting for a cleanup
  have pC : s.pc = .waitC ∧ s.cvC.flag = false := by
    rcases bC.resolve_left nC with ⟨p, w, nf⟩ | ⟨p, w, nf⟩
    · exact ⟨p, cv.c.parked w nf⟩
    · exfalso
      have fQ := cv.q.parked w nf
      rcases gp.rcq hsh p fQ with hd | hk
      · rcases gp.rk hsh hd with h1 | h1 | h1
        · rw [fK] at h1; cases h1
        · rw [pK] at h1; simp [kHead] at h1
        · rw [p] at h1; simp [cSig] at h1
      · rw [pK] at hk; simp [isClSignal] at hk
  have hrq : s.readQ = [] := by
    by_cases hq : s.readQ = []
    · exact hq
    · rcases gp.rc1 hsh hq pC.1 with h1 | h1
      · rw [pC.2] at h1; cases h1
      · rw [pF] at h1; cases h1
  have hrd : s.reading = none := by
    by_cases hq : s.reading = none
    · exact hq
    · have := gp.rc2 hsh hq; rw [pC.1] at this; simp [cHead] at this
  have hnw2 : isWrite2 s.pl = false := by
    rcases bL.resolve_left nL with ⟨p, _⟩ | ⟨p, _⟩ <;> (rw [p]; rfl)
  have happ : sum s.app ≤ cfg.minLog := by
    by_cases hq : sum s.app > cfg.minLog
    · rcases gp.rf hsh hq with h1 | h1 | h1
      · rw [fF] at h1; cases h1
      · rw [pF] at h1; simp [fHead] at h1
      · rw [hnw2] at h1; cases h1
    · omega
  -- the log worker cannot be parked on the log-queue throttle: too few bytes are outstanding
  have pL : s.pl = .waitL ∧ s.cvL.flag = false := by
    rcases bL.resolve_left nL with ⟨p, w, nf⟩ | ⟨p, nn⟩
    · exact ⟨p, cv.l.parked w nf⟩
    · exfalso
      have h1 := gn.rlq (Or.inr ⟨p, nn⟩)
      have h2 := gn.racc
      rw [p, hrq, hrd] at h2
      simp only [RACC, pendL, sumsum_nil, sumOpt] at h2
      have : (MAXL : Int) ≥ (cfg.minLog : Int) := by exact_mod_cast hm
      omega
  have hq : s.q = [] := by
    by_cases hq : s.q = []
    · exact hq
    · rcases gp.rl hsh hq with h1 | h1
      · rw [pL.2] at h1; cases h1
      · rw [pL.1] at h1; simp [lHead] at h1
  have hdirty : s.dirty ≤ cfg.maxLogs := by
    by_cases hd : s.dirty > cfg.maxLogs
    · rcases gp.rk hsh hd with h1 | h1 | h1
      · rw [fK] at h1; cases h1
      · rw [pK] at h1; simp [kHead] at h1
      · rw [pC.1] at h1; simp [cSig] at h1
    · omega
  have hidle : ∀ c ∈ s.cms, c = .idle := by
    intro c hc
    rcases hcms c hc with h1 | ⟨b, h1⟩
    · exact h1
    · exfalso
      have := gn.rq ⟨c, hc, by rw [h1]; rfl⟩
      rw [hq] at this; simp at this
  exact ⟨hpd, pL.1, pL.2, pF, pC.1, pK, hq, happ, hrq, hrd, hdirty, hidle⟩

/-- **C15_no_stuck.**  Fixed configuration with workers: in every reachable state in which
    every thread is blocked or finished, nothing is pending. -/
theorem C15_no_stuck (cfg : Cfg) (hF : Fixed cfg) (hm : cfg.minLog ≤ MAXL) (n r : Nat) :
    C15_no_stuck_stmt cfg n r := by
  intro s h hb hcl hdc
  have hb0 := hb
  obtain ⟨cv, g1, gp, gn, gd⟩ := inv_reachable hF h
  have gx := gx_reachable hF.w h
  have ga := (ga_reachable hF.w h).2
  simp only [allBlocked, Bool.and_eq_true, Option.isNone_iff_eq_none] at hb
  obtain ⟨⟨⟨⟨⟨hL, hFl⟩, hC⟩, hK⟩, hD⟩, hCm⟩ := hb
  obtain ⟨hqf, hcms⟩ := cms_blocked hCm
  -- the log worker is not between its throttle test and the wait (that step is always enabled)
  have hlf : lqFree s = true := by
    unfold lqFree
    by_cases hp : s.pl = .lqAbout
    · unfold tickL at hL; rw [hp] at hL; cases hL
    · simpa using hp
  have bL := tickL_none hL hlf hqf
  have bF := tickF_none hFl hlf hqf
  have hC : tickC cfg s = none := by
    rcases tickCg_none_held hC with h1 | ⟨h1, h2⟩
    · exact h1
    · rw [hcl.1 h2] at h1; cases h1
  have bC := tickC_none hC hlf hqf
  have bK := tickK_none hK hlf hqf
  have bD : s.pd = .idle ∨ s.pd = .done ∨ s.pd = .stuck ∨ (s.pd = .joinL ∧ s.pl ≠ .done) ∨
      (s.pd = .joinF ∧ s.pf ≠ .done) ∨ (s.pd = .joinC ∧ s.pc ≠ .done) ∨ (s.pd = .joinK ∧ s.pk ≠ .done) := by
    by_cases hk : s.pd = .kill
    · exfalso
      obtain ⟨s', hs'⟩ := killLogsSeq_some hF.p1 (g1.a2 (by rw [hk]; rfl)) (hcl.2 hk) hdc
      unfold tickD at hD; rw [hk] at hD; simp only at hD; rw [hs'] at hD; cases hD
    · unfold tickD at hD
      split at hD
      · rename_i hp; exact Or.inl hp
      · cases hD
      · simp [hlf] at hD
      · rename_i hp; split at hD
        · cases hD
        · rename_i hn; exact Or.inr (Or.inr (Or.inr (Or.inl ⟨hp, hn⟩)))
      · rename_i hp; split at hD
        · cases hD
        · rename_i hn; exact Or.inr (Or.inr (Or.inr (Or.inr (Or.inl ⟨hp, hn⟩))))
      · rename_i hp; split at hD
        · cases hD
        · rename_i hn; exact Or.inr (Or.inr (Or.inr (Or.inr (Or.inr (Or.inl ⟨hp, hn⟩)))))
      · rename_i hp; split at hD
        · cases hD
        · rename_i hn; exact Or.inr (Or.inr (Or.inr (Or.inr (Or.inr (Or.inr ⟨hp, hn⟩)))))
      · rename_i hp; exact absurd hp hk
      · cases hD
      · rename_i hp; exact Or.inr (Or.inr (Or.inl hp))
      · rename_i hp; exact Or.inr (Or.inl hp)
  cases hsh : s.shutdown with
  | false =>
    obtain ⟨hpd, _, _, _, _, _, hq, happ, hrq, hrd, hdirty, hidle⟩ := C15_quiescent cfg hF hm n r s h hb0 hcl hsh
    exact ⟨Or.inl hpd, hidle, fun _ => ⟨hq, happ, hrq, hrd, hdirty⟩, (fun h => by rw [hsh] at h; cases h),
      (fun hp => by rw [hpd] at hp; cases hp)⟩
  | true =>
    -- shutdown requested: the notifications are out (whoever owes them could take a step)
    have hsd : s.sdDone = true := by
      cases hx : s.sdDone with
      | true => rfl
      | false =>
        exfalso
        rcases g1.a5 hsh hx with hp | hp | hp | hp | hp
        · unfold tickD at hD; rw [hp] at hD; simp [hlf] at hD
        · obtain ⟨r, hr⟩ := errStep_some_of_free (cfg := cfg) .e2 hlf hqf
          unfold tickL at hL; rw [hp] at hL; simp only at hL; rw [hr] at hL; cases hL
        · obtain ⟨r, hr⟩ := errStep_some_of_free (cfg := cfg) .e2 hlf hqf
          unfold tickF at hFl; rw [hp] at hFl; simp only at hFl; rw [hr] at hFl; cases hFl
        · obtain ⟨r, hr⟩ := errStep_some_of_free (cfg := cfg) .e2 hlf hqf
          unfold tickC at hC; rw [hp] at hC; simp only at hC; rw [hr] at hC; cases hC
        · obtain ⟨r, hr⟩ := errStep_some_of_free (cfg := cfg) .e2 hlf hqf
          unfold tickK at hK; rw [hp] at hK; simp only at hK; rw [hr] at hK; cases hK
    have dL : s.pl = .done := by
      rcases bL with hp | ⟨p, w, nf⟩ | ⟨p, nn⟩
      · exact hp
      · have := (gd.dl hsd).1 p; rw [cv.l.parked w nf] at this; cases this
      · have := (gd.dl hsd).2.1 p; rw [nn] at this; cases this
    have dF : s.pf = .done := by
      rcases bF with hp | ⟨p, w, nf⟩
      · exact hp
      · have := gd.df hsd p; rw [cv.f.parked w nf] at this; cases this
    have dC : s.pc = .done := by
      rcases bC with hp | ⟨p, w, nf⟩ | ⟨p, w, nf⟩
      · exact hp
      · have := (gd.dc hsd).1 (by rw [p]; rfl); rw [cv.c.parked w nf] at this; cases this
      · have := (gd.dc hsd).2 p; rw [cv.q.parked w nf] at this; cases this
    have dK : s.pk = .done := by
      rcases bK with hp | ⟨p, w, nf⟩
      · exact hp
      · have := gd.dk hsd p; rw [cv.k.parked w nf] at this; cases this
    have hpd : s.pd = .idle ∨ s.pd = .done := by
      rcases bD with hp | hp | hp | ⟨_, hn⟩ | ⟨_, hn⟩ | ⟨_, hn⟩ | ⟨_, hn⟩
      · exact Or.inl hp
      · exact Or.inr hp
      · exact absurd hp g1.a8
      · exact absurd dL hn
      · exact absurd dF hn
      · exact absurd dC hn
      · exact absurd dK hn
    have hidle : ∀ c ∈ s.cms, c = .idle := by
      intro c hc
      rcases hcms c hc with h1 | ⟨b, h1⟩
      · exact h1
      · exfalso
        rcases hpd with hp | hp
        · -- handle alive: the shutdown flag comes from a stored error, whose notify_all is done
          have hbe : s.bgErr = true := by
            rcases gx.a12 hsh with h2 | h2
            · rw [hp] at h2; cases h2
            · exact h2
          rcases gd.q2 hbe ⟨c, hc, by rw [h1]; rfl⟩ with h2 | h2 | h2 | h2
          · rw [dL] at h2; cases h2
          · rw [dF] at h2; cases h2
          · rw [dC] at h2; cases h2
          · rw [dK] at h2; cases h2
        · have := g1.a1 (by rw [hp]; simp) c hc
          rw [h1] at this; cases this
    refine ⟨hpd, hidle, (fun h => by rw [hsh] at h; cases h), fun _ => ⟨dL, dF, dC, dK⟩, fun hp => ?_⟩
    obtain ⟨hd0, hrest⟩ := gd.fin (Or.inr hp)
    refine ⟨hd0, fun hb => ?_⟩
    obtain ⟨hq, hsum, hrd, hkl⟩ := hrest hb
    have happ : s.app = [] := by
      cases hap : s.app with
      | nil => rfl
      | cons r rs =>
        exfalso
        have := ga.r4 r (by rw [hap]; simp)
        rw [hap, sum_cons] at hsum; omega
    have hlost : s.lost = 0 := by
      cases hl : s.lost with
      | zero => rfl
      | succ n =>
        rcases ga.r3 (by omega) with h1 | h1
        · rw [hb] at h1; cases h1
        · rw [dL] at h1; cases h1
    have h2 := ga.r2
    have h1 := ga.r1
    simp only [RA2, RA1, hq, dL, inflight, hlost, happ, hrd, optLen, List.length_nil] at h1 h2
    exact ⟨hq, happ, hrd, hkl, by omega, by omega⟩

/-! ### C15_shutdown_terminates -/

/-- **C15_shutdown_terminates.**  Fixed configuration: once the notifications of `shutdown()`
    are out (drop or stored error), every step of a worker strictly decreases `measure`
    (40·queued commits + 40·pending reindex batches + 12·unread log records + 8·unread log
    files + 4·[dirty logs above the keep level] + the distance of each worker to its exit), so
    every worker loop exits after finitely many of its own steps; and no worker is ever
    parked for ever (`C15_no_stuck`).  The owner then joins the four threads; `kill_logs` is a
    total sequential function that never waits (`killLogsSeq_some`). -/
theorem C15_shutdown_terminates (cfg : Cfg) (hF : Fixed cfg) (n r : Nat) (s s' : St)
    (h : Reachable cfg n r s) (hsd : s.sdDone = true) (t : Tid) (ht : t ≠ .D)
    (hs : step cfg s (.tick t) = some s') : measure cfg s' < measure cfg s := by
  obtain ⟨_, g1, _, _, gd⟩ := inv_reachable hF h
  cases t with
  | L => exact measure_tickL hF g1 gd hsd hs
  | F => exact measure_tickF hF g1 gd hsd hs
  | C => exact measure_tickC hF g1 gd hsd (tickCg_some hs)
  | K => exact measure_tickK hF g1 gd hsd hs
  | D => exact absurd rfl ht

/-- the shutdown flag leads to the notifications: whoever owes them can always take its step
    (under the fix of F12 it may have to wait for the log worker to finish parking) -/
theorem C15_shutdown_signalled (cfg : Cfg) (hF : Fixed cfg) (n r : Nat) (s : St)
    (h : Reachable cfg n r s) (hsh : s.shutdown = true) (hsd : s.sdDone = false) :
    s.pd = .sd2 ∨ s.pl = .err .e2 ∨ s.pf = .err .e2 ∨ s.pc = .err .e2 ∨ s.pk = .err .e2 :=
  (inv_reachable hF h).g1.a5 hsh hsd

/-- with the fix of F7 the owner's `kill_logs` never blocks (no tree lock held by a client:
    otherwise `while process_commits()? {}` may defer the same commit for ever) -/
theorem C15_kill_logs_total (cfg : Cfg) (hF : Fixed cfg) (s : St) (hs : s.shutdown = true)
    (ht : s.treeLocked = false) (hdc : s.deferCycle = false) : ∃ s', killLogsSeq cfg s = some s' :=
  killLogsSeq_some hF.p1 hs ht hdc

/-! ### the generated configuration -/

theorem C15_no_stuck_gen (syncData : Bool) (n r : Nat)
    (hp : (cfgOfGen MIN_LOG_SIZE_BYTES syncData true).patched = true) :
    C15_no_stuck_stmt (cfgOfGen MIN_LOG_SIZE_BYTES syncData true) n r :=
  C15_no_stuck _ (fixed_of_patched rfl hp) minLog_le_MAXL n r

theorem C15_no_stuck_gen_always_flush (syncData : Bool) (n r : Nat)
    (hp : (cfgOfGen 0 syncData true).patched = true) : C15_no_stuck_stmt (cfgOfGen 0 syncData true) n r :=
  C15_no_stuck _ (fixed_of_patched rfl hp) (Nat.zero_le _) n r

/-- The three fixes (e2435c7, 100a265, 560b45b) are in the tree: the configuration computed from
    the generated skeletons is the patched one, for every option combination.  Un-fixing any of
    them breaks this theorem. -/
theorem C15_gen_fixed :
    (cfgOfGen MIN_LOG_SIZE_BYTES true true).patched = true ∧
    (cfgOfGen MIN_LOG_SIZE_BYTES false true).patched = true ∧
    (cfgOfGen 0 true true).patched = true ∧ (cfgOfGen 0 false true).patched = true := by decide

/-! ### negation witnesses for the unpatched programs -/

def rep (n : Nat) (a : Act) : List Act := List.replicate n a
def L := Act.tick .L
def F := Act.tick .F
def C := Act.tick .C
def K := Act.tick .K
def D := Act.tick .D

/-- no client holds the iteration lock or a tree lock, no deferral cycle is queued -/
def letsGoB (s : St) : Bool := !s.iterHeld && !s.treeLocked && !s.deferCycle

theorem clientLetsGo_of_b {s : St} (h : letsGoB s = true) : clientLetsGo s := by
  simp only [letsGoB, Bool.and_eq_true, Bool.not_eq_true'] at h
  exact ⟨fun _ => h.1.1, fun _ => h.1.2⟩

theorem noCycle_of_b {s : St} (h : letsGoB s = true) : s.deferCycle = false := by
  simp only [letsGoB, Bool.and_eq_true, Bool.not_eq_true'] at h
  exact h.2

/-- the schedule is panic-free, runs to the end, and the final state satisfies `P` -/
def runChk (cfg : Cfg) (nCm reidx : Nat) (sched : List Act) (P : St → Bool) : Bool :=
  sched.all (fun a => !a.isPanic) &&
  match run cfg (init cfg nCm reidx) sched with
  | some s => P s
  | none => false

theorem runChk_sound {cfg : Cfg} {nCm reidx : Nat} {sched : List Act} {P : St → Bool}
    (h : runChk cfg nCm reidx sched P = true) : ∃ s, Reachable cfg nCm reidx s ∧ P s = true := by
  unfold runChk at h
  rw [Bool.and_eq_true] at h
  obtain ⟨hnp, h⟩ := h
  split at h
  · rename_i s hs
    refine ⟨s, ⟨sched, fun a ha => ?_, hs⟩, h⟩
    have := List.all_eq_true.1 hnp a ha
    simpa using this
  · cases h

/-- the same for schedules WITH worker panics -/
def runChkP (cfg : Cfg) (nCm reidx : Nat) (sched : List Act) (P : St → Bool) : Bool :=
  match run cfg (init cfg nCm reidx) sched with
  | some s => P s
  | none => false

theorem runChkP_sound {cfg : Cfg} {nCm reidx : Nat} {sched : List Act} {P : St → Bool}
    (h : runChkP cfg nCm reidx sched P = true) : ∃ s, ReachableP cfg nCm reidx s ∧ P s = true := by
  unfold runChkP at h
  split at h
  · rename_i s hs; exact ⟨s, ⟨sched, hs⟩, h⟩
  · cases h

/-- F7 without workers: the client enacts five log files without calling `clean_logs`, queues
    one more commit and drops the handle: `kill_logs` logs, flushes and enacts that commit and
    then waits for a cleanup worker that does not exist. -/
def f7NoThreads : List Act :=
  (List.replicate 5 [Act.commit 0 10, .apiProcess, .apiFlush, .apiEnact]).flatten ++
  [.commit 0 10, .drop] ++ rep 6 D

theorem F7_witness_no_workers :
    runChk (unpatchedCfg 0 true false) 1 0 f7NoThreads
      (fun s => allBlocked (unpatchedCfg 0 true false) s && s.pd == .kill && s.dirty == 5 && s.q == [10] &&
        letsGoB s) = true := by
  decide

/-- F7 with workers (`sync_data = false`, always_flush): 17 paced commits leave KEEP_LOGS = 16
    dirty logs for ever; two more commits, then drop: the commit worker finishes the file it
    is reading (17 dirty) and exits, the cleanup worker has already exited, all four joins
    succeed, and `kill_logs` enacts the first record of the next file and waits for ever. -/
def f7Threads : List Act :=
  [.commit 0 10] ++ rep 15 L ++ rep 8 F ++ rep 16 C ++ rep 9 K ++
  (List.replicate 15 ([Act.commit 0 10] ++ rep 12 L ++ rep 7 F ++ rep 9 C ++ rep 5 K)).flatten ++
  [.commit 0 10] ++ rep 12 L ++ rep 7 F ++ rep 9 C ++ rep 8 K ++
  [.commit 0 10] ++ rep 12 L ++ rep 7 F ++ [.commit 0 10] ++ rep 12 L ++
  [.drop, D, D] ++ rep 5 L ++ rep 4 F ++ rep 4 K ++ rep 6 C ++ rep 4 D

set_option maxRecDepth 100000 in
theorem F7_witness_workers :
    runChk (unpatchedCfg 0 false true) 1 0 f7Threads
      (fun s => allBlocked (unpatchedCfg 0 false true) s && s.pd == .kill && s.dirty == 17 &&
        s.pl == .done && s.pf == .done && s.pc == .done && s.pk == .done && s.readQ == [[11]] && letsGoB s) = true := by
  decide

/-- F12: (after one commit went through all stages) a small commit is logged and flushed but
    not yet enacted, a 128 MiB commit is logged; the log worker
    re-enters `process_commits`, sees `!shutdown && queue > MAX_LOG_QUEUE_BYTES` and is about
    to wait; `shutdown()` stores the flag and notifies the condvar WITHOUT the mutex: nobody is
    parked yet, the notification is lost; the log worker parks.  The commit worker enacts the
    small file only (it stops at the first end of file once shutdown is set), which does not
    take the queue below the limit, so nobody ever notifies again: `join(log_thread)` hangs. -/
def f12Schedule : List Act :=
  [.commit 0 10] ++ rep 15 L ++ rep 8 F ++ rep 16 C ++ rep 9 K ++
  [.commit 0 10] ++ rep 12 L ++ rep 7 F ++ [.commit 0 134217728] ++ rep 8 L ++
  [.drop, D, D, L] ++ rep 4 F ++ rep 6 C ++ rep 4 K

theorem F12_witness :
    runChk (unpatchedCfg 0 true true) 1 0 f12Schedule
      (fun s => allBlocked (unpatchedCfg 0 true true) s && s.pd == .joinL && s.pl == .lqParked &&
        !s.lqNotified && s.pf == .done && s.pc == .done && s.pk == .done && s.readQ == [[134217729]] &&
        letsGoB s) = true := by
  decide

/-- F13: commit A (> 16 MiB) is popped by the log worker, commit B (> 16 MiB) is queued, the
    log worker fails on A (I/O error): error stored, shutdown, notify_all - nobody is waiting.
    All workers exit.  The next commit call finds the queue above its limit, waits on the
    queue-full condvar BEFORE looking at the stored error, and nobody is left to wake it. -/
def f13Schedule : List Act :=
  [.commit 0 16777217] ++ rep 6 L ++ [.commit 1 16777217, .fail .L] ++ rep 3 L ++ [F, C] ++ rep 4 K ++
  [.commit 0 5, .cmTick 0]

theorem F13_witness :
    runChk (unpatchedCfg 0 true true) 2 0 f13Schedule
      (fun s => allBlocked (unpatchedCfg 0 true true) s && s.pd == .idle && s.bgErr &&
        s.cms == [.parked 5 false, .idle] && s.pl == .done && s.pf == .done && s.pc == .done && s.pk == .done &&
        letsGoB s) = true := by
  decide

/-- The full statement is false of the unpatched programs (each of F7, F12, F13 alone refutes it);
    no client-held lock is involved (`letsGoB`). -/
theorem C15_no_stuck_false_unpatched :
    ¬ C15_no_stuck_stmt (unpatchedCfg 0 false true) 1 0 ∧ ¬ C15_no_stuck_stmt (unpatchedCfg 0 true true) 1 0 ∧
    ¬ C15_no_stuck_stmt (unpatchedCfg 0 true true) 2 0 := by
  refine ⟨?_, ?_, ?_⟩
  · intro hall
    obtain ⟨s, hr, hp⟩ := runChk_sound F7_witness_workers
    simp only [Bool.and_eq_true, beq_iff_eq] at hp
    have := (hall s hr hp.1.1.1.1.1.1.1.1 (clientLetsGo_of_b hp.2) (noCycle_of_b hp.2)).1
    rw [hp.1.1.1.1.1.1.1.2] at this
    rcases this with h | h <;> cases h
  · intro hall
    obtain ⟨s, hr, hp⟩ := runChk_sound F12_witness
    simp only [Bool.and_eq_true, beq_iff_eq] at hp
    have := (hall s hr hp.1.1.1.1.1.1.1.1 (clientLetsGo_of_b hp.2) (noCycle_of_b hp.2)).1
    rw [hp.1.1.1.1.1.1.1.2] at this
    rcases this with h | h <;> cases h
  · intro hall
    obtain ⟨s, hr, hp⟩ := runChk_sound F13_witness
    simp only [Bool.and_eq_true, beq_iff_eq] at hp
    have := (hall s hr hp.1.1.1.1.1.1.1.1 (clientLetsGo_of_b hp.2) (noCycle_of_b hp.2)).2.1
    rw [hp.1.1.1.1.1.2] at this
    have := this (.parked 5 false) (by simp)
    cases this

/-! ### progress of the running system -/

/-- **C15_progress.**  Any configuration with workers, any reachable state (shutdown requested
    or not, error stored or not): EVERY step of EVERY thread - the four workers, the owner of
    the handle inside `drop`, a committer inside a `commit` call - strictly decreases the
    potential `phi` = 100·queued commits + 100·pending reindex batches + 60·records in the
    appending log + 3·records in flushed logs + 25·flushed log files + 7·[dirty logs above the
    keep level] + one credit per set `WaitCondvar` flag (what the wake-up will cost) + the
    distance of each thread to its next park.  Only actions of the client / the environment
    (`commit`, `drop`, lock / unlock, injected failures, index growth) can increase it - and
    `defer`, which IS a step of the log worker but is enabled only while a client holds a tree
    lock (`treeLocked`) or a deferral cycle is queued (`deferCycle`, finding F27 of C15 = F4c of C11): it is kept
    out of `Act.isThread`, `C15_defer_busy_spin` / `C15_defer_cycle_livelock` show that with it
    the log worker does spin.  No fairness assumption is needed: without `defer` the threads
    cannot spin, whatever the scheduler does. -/
theorem C15_progress (cfg : Cfg) (hw : cfg.workers = true) (n r : Nat) (s s' : St) (a : Act)
    (h : Reachable cfg n r s) (ha : a.isThread = true) (hs : step cfg s a = some s') :
    phi cfg s' < phi cfg s := phi_thread_step hw h ha hs

/-- hence a run without client activity is at most `phi` steps long ... -/
theorem C15_client_free_runs_are_finite (cfg : Cfg) (hw : cfg.workers = true) (n r : Nat) (s s' : St)
    (as : List Act) (h : Reachable cfg n r s) (hall : ∀ a ∈ as, a.isThread = true) (hr : run cfg s as = some s') :
    as.length + phi cfg s' ≤ phi cfg s := (phi_bounds_run hw as s s' h hall hr).1

/-- **C15_drains.**  Fixed configuration: from every reachable state the threads by themselves
    ("without needing further client activity") reach, within `phi` steps, a state in which
    none of them can move; EVERY maximal client-free run ends in such a state (it cannot go on
    for ever: `C15_client_free_runs_are_finite`); and there - provided no client-held lock is
    what blocks the commit worker / `kill_logs` - nothing is pending: no commit call is parked
    (a throttled committer has returned), the queue is empty (every accepted commit is
    written to the log), every flushed log file is enacted, the appending file is below the
    flush threshold (a commit is applied to the tables "once its log file is rotated"), and a
    drop in progress has completed. -/
theorem C15_drains (cfg : Cfg) (hF : Fixed cfg) (hm : cfg.minLog ≤ MAXL) (n r : Nat) (s : St)
    (h : Reachable cfg n r s) :
    (∃ as s', (∀ a ∈ as, a.isThread = true) ∧ as.length ≤ phi cfg s ∧ run cfg s as = some s' ∧
        allBlocked cfg s' = true) ∧
    (∀ as s', (∀ a ∈ as, a.isThread = true) → run cfg s as = some s' → allBlocked cfg s' = true →
        clientLetsGo s' → s'.deferCycle = false → nothingPending cfg s') := by
  constructor
  · obtain ⟨as, s', hall, hr, hb, hlen⟩ := reaches_quiescence hF.w (phi cfg s) s h (Nat.le_refl _)
    exact ⟨as, s', hall, hlen, hr, hb⟩
  · intro as s' hall hr hb hcl hdc
    exact C15_no_stuck cfg hF hm n r s' (phi_bounds_run hF.w as s s' h hall hr).2 hb hcl hdc

/-- **C15_quiescent_accounting.**  ... and in that state of the running system, with no error
    stored: every accepted commit has been written to the write-ahead log (accepted commits +
    reindex batches = records written; record ids start at 1), every record but those still in
    the (unrotated) appending file is enacted, no commit call is pending. -/
theorem C15_quiescent_accounting (cfg : Cfg) (hF : Fixed cfg) (hm : cfg.minLog ≤ MAXL) (n r : Nat) (s : St)
    (h : Reachable cfg n r s) (hb : allBlocked cfg s = true) (hcl : clientLetsGo s) (hsh : s.shutdown = false) :
    s.accepted + s.nBatches + 1 = s.nLogged ∧ s.nLogged = s.nEnacted + s.app.length ∧
    sum s.app ≤ cfg.minLog ∧ (∀ c ∈ s.cms, c = .idle) ∧ s.lost = 0 := by
  obtain ⟨_, pl, _, _, _, _, hq, happ, hrq, hrd, _, hidle⟩ := C15_quiescent cfg hF hm n r s h hb hcl hsh
  obtain ⟨g1, ga⟩ := ga_reachable hF.w h
  have hbe : s.bgErr = false := by
    cases hbe : s.bgErr with
    | false => rfl
    | true => have := g1.a7 hbe; rw [hsh] at this; cases this
  have hlost : s.lost = 0 := by
    cases hl : s.lost with
    | zero => rfl
    | succ k =>
      rcases ga.r3 (by omega) with h1 | h1
      · rw [hbe] at h1; cases h1
      · rw [pl] at h1; cases h1
  have h2 := ga.r2
  have h1 := ga.r1
  simp only [RA2, RA1, hq, pl, inflight, hlost, hrq, hrd, optLen, List.length_nil, lenSum_nil] at h1 h2
  exact ⟨by omega, by omega, happ, hidle, hlost⟩

/-- non-vacuity: the potential of the initial state, of a state with a throttled committer and
    two 9 MB commits queued, and the length of a concrete client-free run against it -/
example : phi (patchedCfg 0 true true) (init (patchedCfg 0 true true) 1 0) = 36 := by decide
example : runChk (patchedCfg 0 true true) 3 0
    [.commit 0 9000000, .commit 1 9000000, .commit 2 9000000, .cmTick 2]
    (fun s => phi (patchedCfg 0 true true) s == 356 && s.cms == [.idle, .idle, .parked 9000000 false]) = true := by
  decide

/-! ### after the handle is gone: what `drop` leaves behind -/

/-- **C15_drop_persists_all** (strengthened `FIN` + conservation).  Fixed configuration, drop
    completed, no stored error: the queue and the appending file are EMPTY, no log file is half
    read (so `Log::kill_logs`, which deletes the file being read, deletes no unread record:
    `killLost = 0`), all dirty logs are reclaimed; every accepted commit was written
    (accepted commits + reindex batches = records, ids start at 1) and every record written is
    enacted or sits in a complete flushed file that the next open replays. -/
theorem C15_drop_persists_all (cfg : Cfg) (hF : Fixed cfg) (n r : Nat) (s : St) (h : Reachable cfg n r s)
    (hd : s.pd = .done) (hb : s.bgErr = false) :
    s.dirty = 0 ∧ s.q = [] ∧ s.app = [] ∧ s.reading = none ∧ s.killLost = 0 ∧
    s.accepted + s.nBatches + 1 = s.nLogged ∧ s.nLogged = s.nEnacted + lenSum s.readQ := by
  obtain ⟨_, g1, _, _, gd⟩ := inv_reachable hF h
  have ga := (ga_reachable hF.w h).2
  have dL : s.pl = .done := g1.a9.1 (by rw [hd]; decide)
  obtain ⟨hd0, hrest⟩ := gd.fin (Or.inr hd)
  obtain ⟨hq, hsum, hrd, hkl⟩ := hrest hb
  have happ : s.app = [] := by
    cases hap : s.app with
    | nil => rfl
    | cons r rs =>
      exfalso
      have := ga.r4 r (by rw [hap]; simp)
      rw [hap, sum_cons] at hsum; omega
  have hlost : s.lost = 0 := by
    cases hl : s.lost with
    | zero => rfl
    | succ n =>
      rcases ga.r3 (by omega) with h1 | h1
      · rw [hb] at h1; cases h1
      · rw [dL] at h1; cases h1
  have h2 := ga.r2
  have h1 := ga.r1
  simp only [RA2, RA1, hq, dL, inflight, hlost, happ, hrd, optLen, List.length_nil] at h1 h2
  exact ⟨hd0, hq, happ, hrd, hkl, by omega, by omega⟩

/-- `readQ = []` is NOT part of it: `kill_logs` runs `while enact_logs(false)? {}` three times and
    each run ends at the first end of file, so at most three flushed files are enacted; with five
    flushed, unread files at the time of the drop (commit worker never scheduled before the
    shutdown flag is set: it exits at once) two complete files stay on disk.  (They are
    replayed by the next open: C13.) -/
def dropLeavesFiles : List Act :=
  [.commit 0 10] ++ rep 15 L ++ rep 8 F ++
  (List.replicate 4 ([Act.commit 0 10] ++ rep 12 L ++ rep 7 F)).flatten ++
  [.drop, D, D] ++ rep 5 L ++ rep 3 F ++ rep 4 K ++ [C] ++ rep 6 D

theorem C15_drop_leaves_flushed_files :
    runChk (patchedCfg 0 true true) 1 0 dropLeavesFiles
      (fun s => s.pd == .done && s.readQ == [[11], [11]] && s.reading == none && s.killLost == 0 &&
        s.accepted == 5 && s.nLogged == 6 && s.nEnacted == 4 && !s.bgErr) = true := by
  decide

/-! ### (a) commit deferral -/

/-- `defer_commit` happens only while a client holds the tree lock, or (the other deferral
    reason: a LATER queued commit recorded the tree in `used_trees`) while a deferral cycle is
    queued; the commit goes to the back of the queue, nothing is written, `process_commits`
    returns Ok(true) -/
theorem C15_defer_only_while_locked (cfg : Cfg) (s s' : St) (h : step cfg s .defer = some s') :
    (s.treeLocked = true ∨ (s.deferCycle = true ∧ s.q ≠ [])) ∧
    s'.q = s.q ++ (match s.pl with | .write1 b => [b] | _ => []) ∧
    s'.moreCommits = true ∧ s'.app = s.app ∧ s'.nLogged = s.nLogged := by
  simp only [step] at h
  split at h
  · rename_i hg
    simp only [Bool.and_eq_true, Bool.or_eq_true, Bool.not_eq_true', List.isEmpty_eq_false_iff] at hg
    split at h
    · rename_i b hp; cases h; simp [hg.1, hp]
    · cases h
  · cases h

/-- the busy spin: handle dropped, shutdown notified, flush / commit / cleanup worker gone, the
    log worker holds the popped DereferenceTree while the client keeps the tree lock:
    `defer; L; L; L; L` returns to the SAME state (but for the ghost counter): the log worker
    loops `while !shutdown || more_commits` without ever waiting, `join(log_thread)` never
    returns, nothing is logged.  No thread is blocked, so this is not a stuck state and no
    fairness among the THREADS helps: the client has to release the lock. -/
def deferSpinPrefix : List Act :=
  [.commit 0 10, .lockTree] ++ rep 6 L ++ [.drop, D, D, F, C] ++ rep 4 K ++ [.defer] ++ rep 4 L

def deferCycle : List Act := [.defer] ++ rep 4 L

theorem C15_defer_busy_spin :
    runChk (patchedCfg 0 true true) 1 0 deferSpinPrefix
      (fun s => s.pd == .joinL && s.sdDone && s.treeLocked && s.pl == .write1 10 && s.pf == .done &&
        s.pc == .done && s.pk == .done && s.app == [] && !allBlocked (patchedCfg 0 true true) s &&
        (run (patchedCfg 0 true true) s deferCycle).map (fun s' => { s' with nDeferred := s.nDeferred }) == some s)
      = true := by
  decide

/-- ... and as soon as the client releases the tree lock the deferred commit is logged, the log
    worker exits, `kill_logs` enacts it, the drop completes -/
theorem C15_defer_release_terminates :
    runChk (patchedCfg 0 true true) 1 0
      (deferSpinPrefix ++ deferCycle ++ deferCycle ++ [.unlockTree] ++ rep 8 L ++ rep 6 D)
      (fun s => s.pd == .done && s.q == [] && s.app == [] && s.nEnacted == 2 && s.nDeferred == 3 &&
        s.accepted == 1) = true := by
  decide

/-- without workers (stepping API), same thread: a queued DereferenceTree whose tree the client
    keeps locked makes `kill_logs` (`while process_commits()? {}`) spin for ever: the drop
    blocks at `kill`; this is the state excluded by the second clause of `clientLetsGo` -/
theorem C15_defer_kill_blocks :
    runChk (patchedCfg 0 true false) 1 0 ([.commit 0 10, .lockTree, .drop] ++ rep 6 D)
      (fun s => allBlocked (patchedCfg 0 true false) s && s.pd == .kill && s.treeLocked && s.q == [10]) = true := by
  decide

/-- FINDING (deferral livelock, no lock held): X = [DereferenceTree T, InsertTree A] and
    Y = [DereferenceTree T, InsertTree B] are committed while a reader of T is locked (each
    InsertTree records `used_trees ∋ T`), then the reader is unlocked and dropped.  X is
    deferred because Y behind it uses T, Y because X' behind it uses T, for ever: with the
    handle being dropped, `defer; L⁴; defer; L⁴` returns to the same state; nothing is ever
    logged, `join(log_thread)` never returns, one core spins.  Same schedule on the real
    crate: harness `pdbverif c15` scenario `defercycle`. -/
def deferCyclePrefix : List Act :=
  [.lockTree, .commit 0 10, .commit 1 20, .makeCycle, .unlockTree] ++ rep 6 L ++ [.drop, D, D, F, C] ++ rep 4 K ++
  [.defer] ++ rep 4 L ++ [.defer] ++ rep 4 L

def deferCycle2 : List Act := [.defer] ++ rep 4 L ++ [.defer] ++ rep 4 L

theorem C15_defer_cycle_livelock :
    runChk (patchedCfg 0 true true) 2 0 deferCyclePrefix
      (fun s => s.pd == .joinL && s.sdDone && !s.treeLocked && !s.iterHeld && s.pl == .write1 10 && s.q == [20] &&
        s.pf == .done && s.pc == .done && s.pk == .done && s.app == [] && s.nLogged == 1 && s.accepted == 2 &&
        !allBlocked (patchedCfg 0 true true) s &&
        (run (patchedCfg 0 true true) s deferCycle2).map (fun s' => { s' with nDeferred := s.nDeferred }) == some s)
      = true := by
  decide

/-- the same without workers: `kill_logs` never returns (`while process_commits()? {}`), no lock
    is held: the no-stuck statement without its last hypothesis is false -/
theorem C15_defer_cycle_kill_blocks :
    runChk (patchedCfg 0 true false) 2 0
      ([.lockTree, .commit 0 10, .commit 1 20, .makeCycle, .unlockTree, .drop] ++ rep 6 D)
      (fun s => allBlocked (patchedCfg 0 true false) s && s.pd == .kill && !s.treeLocked && !s.iterHeld &&
        s.q == [10, 20] && s.deferCycle) = true := by
  decide

/-- an ordinary commit queued behind the cycle still gets through (the rotation pops it):
    only the cyclic commits starve -/
example : runChk (patchedCfg 0 true true) 3 0
    ([.lockTree, .commit 0 10, .commit 1 20, .makeCycle, .unlockTree, .commit 2 7] ++ rep 6 L ++
      [.defer] ++ rep 4 L ++ [.defer] ++ rep 4 L ++ rep 4 L)
    (fun s => s.app == [8] && s.q == [10, 20] && s.nLogged == 2) = true := by decide

/-! ### (b) worker panic (`ReachableP`: outside C15's quantifier) -/

/-- The log worker panics while it holds a popped 16 MiB commit (`store_err` is skipped on
    unwind: no shutdown flag, no error, no `notify_all`); a second commit is queued (queue above
    16 MiB); the next commit call parks on the queue-full condvar: every thread is blocked, the
    commit call never returns, no error is ever reported. -/
def panicSchedule : List Act :=
  [.commit 0 16777217] ++ rep 6 L ++ [.commit 1 16777217, .panic .L] ++ rep 2 F ++ rep 4 C ++ rep 9 K ++
  [.commit 0 5, .cmTick 0]

theorem C15_panic_witness :
    runChkP (patchedCfg 0 true true) 2 0 panicSchedule
      (fun s => allBlocked (patchedCfg 0 true true) s && s.pd == .idle && !s.shutdown && !s.bgErr &&
        s.cms == [.parked 5 false, .idle] && s.pl == .done && s.q == [16777217] && letsGoB s) = true := by
  decide

/-- hence the no-stuck statement does NOT extend to schedules with worker panics, even for the
    fixed configuration: every theorem of this file is about `Reachable` (panic-free schedules) -/
theorem C15_no_stuck_false_with_panic :
    ¬ ∀ s, ReachableP (patchedCfg 0 true true) 2 0 s → allBlocked (patchedCfg 0 true true) s = true →
        clientLetsGo s → s.deferCycle = false → nothingPending (patchedCfg 0 true true) s := by
  intro hall
  obtain ⟨s, hr, hp⟩ := runChkP_sound C15_panic_witness
  simp only [Bool.and_eq_true, beq_iff_eq] at hp
  have := (hall s hr hp.1.1.1.1.1.1.1 (clientLetsGo_of_b hp.2) (noCycle_of_b hp.2)).2.1
  rw [hp.1.1.1.2] at this
  have := this (.parked 5 false) (by simp)
  cases this

/-- the `WaitCondvar` protocol itself does not depend on it -/
theorem C15_no_lost_wakeup_with_panic (cfg : Cfg) (nCm reidx : Nat) (s : St) (h : ReachableP cfg nCm reidx s) :
    CvInv s := cvInv_reachableP h

/-! ### (c) the iteration lock -/

/-- `iteration_lock` is a mutex between the commit worker inside `enact_logs` (from the read to
    the return, including the wait for the cleanup worker) and a client inside an
    `iter_column_while` callback -/
theorem C15_iteration_lock_exclusive (cfg : Cfg) (hw : cfg.workers = true) (n r : Nat) (s : St)
    (h : Reachable cfg n r s) (hc : cHoldsIter s = true) : s.iterHeld = false := by
  have ga := (ga_reachable hw h).2
  apply ga.r5
  simpa [cHoldsIter] using hc

/-- a parked client callback stalls the commit worker: everybody is blocked while a flushed log
    file is pending (the state excluded by the first clause of `clientLetsGo`; the harness
    scenario `quiesce` builds exactly this) ... -/
def iterStallSchedule : List Act :=
  [.iterHold, .commit 0 10] ++ rep 15 L ++ rep 8 F ++ rep 3 C ++ rep 9 K

theorem C15_iter_held_stalls :
    runChk (patchedCfg 0 true true) 1 0 iterStallSchedule
      (fun s => allBlocked (patchedCfg 0 true true) s && s.iterHeld && s.pc == .enRead && s.readQ == [[11]] &&
        !s.shutdown) = true := by
  decide

/-- ... and drains by itself once the callback returns -/
theorem C15_iter_release_drains :
    runChk (patchedCfg 0 true true) 1 0 (iterStallSchedule ++ [.iterRelease] ++ rep 13 C ++ rep 5 K)
      (fun s => allBlocked (patchedCfg 0 true true) s && s.readQ == [] && s.reading == none && s.nEnacted == 2 &&
        s.dirty == 0) = true := by
  decide

/-! ### (d) reindex gating -/

/-- **C15_reindex_needs_only_a_wakeup.**  Fixed configuration with `always_flush`: in a quiescent
    state of the running system every record is enacted, so a scheduled reindex
    (`nextRe ≠ 0`) has its gate OPEN, and the log worker is parked on `log_worker_wait` with
    the flag unset: the only thing a pending reindex is waiting for is a `signal` of that
    condvar - which only `commit_raw` and `shutdown` ever issue. -/
theorem C15_reindex_needs_only_a_wakeup (cfg : Cfg) (hF : Fixed cfg) (hm : cfg.minLog = 0) (n r : Nat) (s : St)
    (h : Reachable cfg n r s) (hb : allBlocked cfg s = true) (hcl : clientLetsGo s) (hsh : s.shutdown = false) :
    s.pl = .waitL ∧ s.cvL.flag = false ∧ s.nEnacted = s.nLogged ∧ s.nextRe ≤ s.nEnacted ∧
    (s.nextRe ≠ 0 → reGate s = true) := by
  obtain ⟨_, pl, fl, _, _, _, _, happ, hrq, hrd, _, _⟩ :=
    C15_quiescent cfg hF (by rw [hm]; exact Nat.zero_le _) n r s h hb hcl hsh
  have ga := (ga_reachable hF.w h).2
  have happ' : s.app = [] := by
    cases hap : s.app with
    | nil => rfl
    | cons r rs =>
      exfalso
      have := ga.r4 r (by rw [hap]; simp)
      rw [hap, sum_cons, hm] at happ; omega
  have h1 := ga.r1
  have h6 := ga.r6
  simp only [RA1, RA6, happ', hrq, hrd, optLen, List.length_nil, lenSum_nil] at h1 h6
  refine ⟨pl, fl, by omega, by omega, fun hne => ?_⟩
  simp only [reGate, Bool.and_eq_true, bne_iff_ne, ne_eq, decide_eq_true_eq]
  exact ⟨hne, by omega⟩

/-- REFUTATION of "a pending reindex completes without further client activity": a commit whose
    plan overflowed an index table (`grow 2`: two batches) is logged, flushed, enacted; the log
    worker had found the gate closed (`next_reindex > last_enacted`) and went to sleep; the gate
    is open now, two batches are pending, every thread is parked, nothing will ever happen
    until the next `commit` (or the drop, which does NOT reindex either). -/
def reindexStallSchedule : List Act :=
  [.commit 0 10] ++ rep 7 L ++ [.grow 2] ++ rep 8 L ++ rep 8 F ++ rep 16 C ++ rep 9 K

theorem C15_reindex_stalls :
    runChk (patchedCfg 0 true true) 1 0 reindexStallSchedule
      (fun s => allBlocked (patchedCfg 0 true true) s && s.pd == .idle && !s.shutdown && s.reidx == 2 &&
        reGate s && s.q == [] && s.readQ == [] && s.pl == .waitL && !s.cvL.flag && letsGoB s) = true := by
  decide

/-- one more commit (any) wakes the log worker: both batches are logged, enacted, `next_reindex`
    is cleared -/
theorem C15_reindex_resumes_on_commit :
    runChk (patchedCfg 0 true true) 1 0
      (reindexStallSchedule ++ [.commit 0 10] ++ rep 17 L ++ rep 7 F ++ rep 15 C ++ rep 5 K)
      (fun s => allBlocked (patchedCfg 0 true true) s && s.reidx == 0 && s.nextRe == 0 && s.nBatches == 2 &&
        s.nEnacted == 5 && s.nLogged == 5) = true := by
  decide

/-- the lost trigger: the log worker found nothing more to reindex and is about to store
    `next_reindex = 0` (`reClear`); the commit worker enacts the record that drops the old index
    table, which makes the NEXT queued table's batches available, and calls `start_reindex`;
    the log worker's store overwrites it: a reindex is pending with no trigger left; not even
    further commits restart it (only the next index growth or a reopen does). -/
def lostTriggerSchedule : List Act :=
  [.commit 0 10] ++ rep 7 L ++ [.grow 1] ++ rep 8 L ++ rep 8 F ++ rep 16 C ++ rep 9 K ++
  [.commit 0 10] ++ rep 10 L ++ rep 7 F ++ rep 5 C ++ [.dropEnacted 1] ++ rep 3 L ++ rep 7 C ++ rep 5 K

theorem C15_reindex_lost_trigger :
    runChk (patchedCfg 0 true true) 1 0 lostTriggerSchedule
      (fun s => allBlocked (patchedCfg 0 true true) s && s.reidx == 1 && s.nextRe == 0 && !reGate s &&
        s.nEnacted == s.nLogged && !s.shutdown) = true := by
  decide

/-- ... while every COMMIT is still logged and enacted (C15's statement is about commits): the
    stalled reindex keeps no log file and no commit waiting -/
theorem C15_reindex_stall_harmless_for_commits :
    runChk (patchedCfg 0 true true) 1 0 (lostTriggerSchedule ++ [.commit 0 7] ++ rep 12 L ++ rep 7 F ++ rep 9 C ++ rep 5 K)
      (fun s => allBlocked (patchedCfg 0 true true) s && s.reidx == 1 && s.accepted == 3 &&
        s.nEnacted == s.nLogged && s.nLogged == 5 && s.q == [] && s.readQ == []) = true := by
  decide

/-! ### (e) failures at every `?` of the worker loops; T0 ties for the new behaviours -/

/-- the initial `process_reindex()?` of the log worker fails: error stored, shutdown, everybody
    exits, a later commit is refused, the drop completes -/
example : runChk (patchedCfg 0 true true) 1 0
    ([.fail .L] ++ rep 3 L ++ [F, C] ++ rep 4 K ++ [.commit 0 5, .drop] ++ rep 8 D)
    (fun s => s.pd == .done && s.bgErr && s.refused == 1 && s.pl == .done) = true := by decide

/-- `process_reindex()?` inside the loop fails after a commit was logged -/
example : runChk (patchedCfg 0 true true) 1 0
    ([.commit 0 10] ++ rep 8 L ++ [.fail .L] ++ rep 3 L)
    (fun s => s.pl == .done && s.bgErr && s.shutdown && s.app == [11] && s.lost == 0) = true := by decide

/-- T0: `enact_logs` takes the iteration lock before it reads the log; `process_commits` decides
    the deferral before it begins the record; `process_reindex` is called once before and once
    inside the log worker's loop -/
theorem C15_gen_new_shapes :
    Ord.before .lockIteration .readNext Order.enactLogs = true ∧
    Ord.before .popQueue .deferCommit Order.processCommits = true ∧
    Ord.before .deferCommit .beginRecord Order.processCommits = true ∧
    Ord.count .callProcessReindex Order.logWorker = 2 ∧
    Ord.before .callProcessReindex .whileRunning Order.logWorker = true ∧
    Ord.before .endRecord .startReindex Order.processCommits = true := by decide

/-! ### non-vacuity: the same schedules under the fixed configuration run to completion -/

example : Fixed (patchedCfg 0 false true) := ⟨rfl, rfl, rfl, rfl, rfl, rfl⟩
example : Fixed (patchedCfg MIN_LOG_SIZE_BYTES true true) := ⟨rfl, rfl, rfl, rfl, rfl, rfl⟩

set_option maxRecDepth 100000 in
/-- the F7 schedule, fixed: the drop completes, queue and appending file empty, logs reclaimed -/
example : runChk (patchedCfg 0 false true) 1 0 (f7Threads ++ [D, D])
    (fun s => s.pd == .done && s.q == [] && s.app == [] && s.dirty == 0 && s.accepted == 19) = true := by
  decide

/-- the F12 schedule, fixed: `shutdown()` has to wait for the mutex, the log worker parks, is
    notified and exits; the drop completes -/
example : runChk (patchedCfg 0 true true) 1 0
    ([.commit 0 10] ++ rep 15 L ++ rep 8 F ++ rep 16 C ++ rep 9 K ++
      [.commit 0 10] ++ rep 12 L ++ rep 7 F ++ [.commit 0 134217728] ++ rep 8 L ++
      [.drop, D, L, D] ++ rep 4 L ++ rep 4 F ++ rep 6 C ++ rep 4 K ++ rep 6 D)
    (fun s => s.pd == .done && s.pl == .done && s.q == [] && s.dirty == 0) = true := by
  decide

/-- the F13 schedule, fixed: the late commit call returns (refused) instead of waiting -/
example : runChk (patchedCfg 0 true true) 2 0
    ([.commit 0 16777217] ++ rep 6 L ++ [.commit 1 16777217, .fail .L] ++ rep 3 L ++ [F, C] ++ rep 4 K ++
      [.commit 0 5])
    (fun s => s.cms == [.idle, .idle] && s.refused == 1 && s.accepted == 2 && s.bgErr) = true := by
  decide

/-- a committer is really throttled and woken in the model: three 9 MiB commits, the third
    waits until the log worker pops the first -/
example : runChk (patchedCfg 0 true true) 3 0
    ([.commit 0 9000000, .commit 1 9000000, .commit 2 9000000, .cmTick 2] ++ rep 6 L ++ [.cmTick 2])
    (fun s => s.cms == [.idle, .idle, .idle] && s.accepted == 3 && s.q == [9000000, 9000000]) = true := by
  decide

end Pdb.Conc.Pipe

#print axioms Pdb.Conc.Pipe.C15_no_lost_wakeup
#print axioms Pdb.Conc.Pipe.C15_commit_returns
#print axioms Pdb.Conc.Pipe.C15_commit_wakeups
#print axioms Pdb.Conc.Pipe.C15_no_stuck
#print axioms Pdb.Conc.Pipe.C15_shutdown_terminates
#print axioms Pdb.Conc.Pipe.C15_shutdown_signalled
#print axioms Pdb.Conc.Pipe.C15_kill_logs_total
#print axioms Pdb.Conc.Pipe.C15_no_stuck_gen
#print axioms Pdb.Conc.Pipe.F7_witness_no_workers
#print axioms Pdb.Conc.Pipe.F7_witness_workers
#print axioms Pdb.Conc.Pipe.F12_witness
#print axioms Pdb.Conc.Pipe.F13_witness
#print axioms Pdb.Conc.Pipe.C15_no_stuck_false_unpatched
#print axioms Pdb.Conc.Pipe.C15_quiescent
#print axioms Pdb.Conc.Pipe.C15_progress
#print axioms Pdb.Conc.Pipe.C15_client_free_runs_are_finite
#print axioms Pdb.Conc.Pipe.C15_drains
#print axioms Pdb.Conc.Pipe.C15_quiescent_accounting
#print axioms Pdb.Conc.Pipe.C15_drop_persists_all
#print axioms Pdb.Conc.Pipe.C15_drop_leaves_flushed_files
#print axioms Pdb.Conc.Pipe.C15_defer_only_while_locked
#print axioms Pdb.Conc.Pipe.C15_defer_busy_spin
#print axioms Pdb.Conc.Pipe.C15_defer_release_terminates
#print axioms Pdb.Conc.Pipe.C15_defer_kill_blocks
#print axioms Pdb.Conc.Pipe.C15_defer_cycle_livelock
#print axioms Pdb.Conc.Pipe.C15_defer_cycle_kill_blocks
#print axioms Pdb.Conc.Pipe.C15_panic_witness
#print axioms Pdb.Conc.Pipe.C15_no_stuck_false_with_panic
#print axioms Pdb.Conc.Pipe.C15_no_lost_wakeup_with_panic
#print axioms Pdb.Conc.Pipe.C15_iteration_lock_exclusive
#print axioms Pdb.Conc.Pipe.C15_iter_held_stalls
#print axioms Pdb.Conc.Pipe.C15_iter_release_drains
#print axioms Pdb.Conc.Pipe.C15_reindex_needs_only_a_wakeup
#print axioms Pdb.Conc.Pipe.C15_reindex_stalls
#print axioms Pdb.Conc.Pipe.C15_reindex_resumes_on_commit
#print axioms Pdb.Conc.Pipe.C15_reindex_lost_trigger
#print axioms Pdb.Conc.Pipe.C15_reindex_stall_harmless_for_commits
#print axioms Pdb.Conc.Pipe.C15_gen_new_shapes
