/-
C01  Hash columns are a key-value map at every stage of the write pipeline.

Model: Pdb/Model/Pipeline.lean (P1).  Keys are combined keys (column, hashed key), so
multi-column transactions are ordinary transactions; `kind k` is the kind of k's column.
Assumption A-hash (distinct user keys have distinct hashed keys) is what lets the
harness identify user keys with model keys; it is checked dynamically by the
correspondence run.  The physical layers below P1 (index, value tables, WAL bytes) are
tied to this model by the correspondence check, not by a refinement proof (yet).
-/
import Pdb.Proofs.PipelineThm

namespace Pdb
variable {K V : Type} [DecidableEq K]

/-- The transactions accepted by an action list that contains no crash: the valid ones, in
    commit-return order (no background error can arise at this layer). -/
def accepted (kind : K → Kind) : List (Action K V) → List (List (Op K V))
  | [] => []
  | .commit tx :: as => if tx.all (opValid kind) then tx :: accepted kind as else accepted kind as
  | _ :: as => accepted kind as

def noCrash : List (Action K V) → Bool
  | [] => true
  | .crash _ _ :: _ => false
  | _ :: as => noCrash as

/-- Reads of a plain hash column return exactly the latest committed write to the key
    (or nothing after a removal / if never written), and `get_size` its length, for every
    sequence of commits, pipeline-stage steps, clean reopens and crashes. -/
theorem C01_get_eq_spec (kind : K → Kind) (as : List (Action K V)) (k : K)
    (hk : kind k = .plain) (len : V → Nat) :
    let s := run kind (St.init : St K V) as
    get s k = (spec kind s.hist k).map Prod.fst ∧
    getSize len s k = ((spec kind s.hist k).map Prod.fst).map len := by
  intro s
  have hi : Inv kind s := (Inv.init kind).run as
  have hg := hi.get_plain k hk
  refine ⟨hg, ?_⟩
  rw [← hg]
  unfold getSize get
  cases s.overlay k with
  | none => simp [Function.comp_def]
  | some x => rfl

/-- The ghost history of a crash-free run is exactly the list of accepted transactions, so
    `C01_get_eq_spec` speaks about "the most recent committed write in commit order". -/
theorem step_hist_noCrash (kind : K → Kind) (a : Action K V) (s : St K V)
    (hb : s.bgErr = false) (hn : noCrash [a] = true) :
    (step kind s a).hist = s.hist ++ accepted kind [a] ∧ (step kind s a).bgErr = false := by
  cases a with
  | commit tx =>
    by_cases hv : tx.all (opValid kind) <;> simp [step, commit, hv, hb, accepted]
  | crash j n => simp [noCrash] at hn
  | process => simp [step, accepted, (process_hist kind s).1, process_bgErr, hb]
  | flush => simp [step, accepted, flush, hb]
  | enact => simp [step, accepted, (enactOne_queue s).2.1, enactOne_bgErr, hb]
  | clean => simp [step, accepted, hb]
  | reindex => simp [step, accepted, hb]
  | reopen => simp [step, accepted, cleanReopen, reopenOf, St.init, (drain_frame kind s).1]

theorem accepted_cons (kind : K → Kind) (a : Action K V) (as : List (Action K V)) :
    accepted kind (a :: as) = accepted kind [a] ++ accepted kind as := by
  cases a with
  | commit tx => by_cases hv : tx.all (opValid kind) <;> simp [accepted, hv]
  | _ => simp [accepted]

theorem hist_run_noCrash (kind : K → Kind) (as : List (Action K V)) (s : St K V)
    (hb : s.bgErr = false) (hn : noCrash as = true) :
    (run kind s as).hist = s.hist ++ accepted kind as ∧ (run kind s as).bgErr = false := by
  induction as generalizing s with
  | nil => simp [run, accepted, hb]
  | cons a as ih =>
    have hrun : run kind s (a :: as) = run kind (step kind s a) as := rfl
    have hn1 : noCrash [a] = true ∧ noCrash as = true := by
      cases a <;> simp_all [noCrash]
    have st := step_hist_noCrash kind a s hb hn1.1
    have := ih (step kind s a) st.2 hn1.2
    rw [hrun, this.1, st.1, accepted_cons kind a as, List.append_assoc]
    exact ⟨rfl, this.2⟩

/-- A clean close and reopen changes no read (any kind of column: the tables hold the whole
    specification afterwards). -/
theorem C01_reopen (kind : K → Kind) (as : List (Action K V)) :
    let s := run kind (St.init : St K V) as
    (cleanReopen kind s).tables = spec kind s.hist ∧ (cleanReopen kind s).hist = s.hist := by
  intro s
  have hi : Inv kind s := (Inv.init kind).run as
  exact ⟨hi.cleanReopen.2.2, hi.cleanReopen.2.1⟩

/-! Non-vacuity: a concrete history with two commits at different stages, a repeated key
    inside one transaction and a removal. -/
section Example
private def kd : Nat → Kind := fun _ => .plain
private def acts : List (Action Nat Nat) :=
  [.commit [.set 1 10, .set 2 20, .set 1 11], .process, .commit [.deref 2, .set 3 30], .flush,
   .enact, .commit [.set 1 12]]
example : get (run kd St.init acts) 1 = some 12 ∧ get (run kd St.init acts) 2 = none ∧
    get (run kd St.init acts) 3 = some 30 ∧ (run kd St.init acts).queue.length = 2 ∧
    (run kd St.init acts).nEnacted = 1 := by decide
end Example

end Pdb

#print axioms Pdb.C01_get_eq_spec
#print axioms Pdb.hist_run_noCrash
#print axioms Pdb.C01_reopen
