/-
R7: the PHYSICAL LOG RECORD of a transaction on the physical plain hash column (C02 / C12 / C13 at
the level of location writes; closes the gap named in DESIGN 13.0 / 13.5 "the physical record as a
list of location writes is not modelled").

  model        Pdb/Model/PhysRec.lean   `Write` = (location, absolute after-image), `applyWrite(s)` =
               `Column::enact_plan`, `planWrites` = the record of a transaction, READ OFF the existing
               physical step `Refine.pRun` (`HashColumn::write_plan`): the candidate locations whose
               content differs between the state before and after, with the content after
  R7_frame     the candidates are complete: a transaction changes NO other location (unconditional)
  R7_full      applying the record to the state before gives the state after (every location, the
               table shape, the static configuration) -- so R4 (`planRec`/`applyRec` on `pAbs`) goes
               through the physical record
  R7_redo_*    torn enactment + replay, one record and sequences of records
  tie          harness/src/physrec.rs + driver command `physrec`: the record the real crate WROTE to
               its log file for each transaction is compared, location by location and byte by byte,
               with `planWrites` of the same transaction on the model's own state

`mem p l` is the content of location `l` in the column `p`; two columns with the same `shape` (index
bits of the tables), the same static configuration and the same `mem` are the same physical state
(the only other components of `PCol`, the `count` fields and the shape of the page tries, are
bookkeeping no operation reads).

HYPOTHESIS `NoGrow`: the transaction does not grow the index (`shape p' = shape p`).  A record
that grows the index names a table the column does not have; `applyWrite` models what the crate does
then (`growTo` = `trigger_reindex` by `validate_plan`) and the tie exercises it, but the theorems
below do not cover it.
-/
import Pdb.Proofs.PhysRecHist

namespace Pdb.PhysRec
open Pdb.Gen Pdb.Index Pdb.ValueTable Pdb.Refine

/-! ## R7_frame -/

/-- A transaction that plans without error changes no location outside the candidate locations
`cands`: the chunks ever written of the index tables, the slots `overwrite_chain` /
`write_remove_plan` report and the headers of the tiers they work on.  No invariant is assumed. -/
theorem R7_frame (cmp : Bytes → Bytes) (thr : Nat) (p p' : PCol) (tx : Tx)
    (hrun : runTx cmp thr p tx = some p') (l : Loc) (hl : Loc.Ok l)
    (hn : l ∉ cands (txTouched cmp thr p tx) p p') : mem p' l = mem p l :=
  frame_holds cmp thr p p' tx hrun l hl hn

/-! ## R7_full -/

/-- Applying ALL writes of the record of `tx` (planned on `p`) to `p` gives exactly the state `pRun`
reaches: every location reads as in `p'`, the tables are those of `p'`, and configuration,
reindex progress and the static layout of the value tables are untouched. -/
theorem R7_full (cmp : Bytes → Bytes) (thr : Nat) (p p' : PCol) (tx : Tx)
    (hrun : runTx cmp thr p tx = some p') (hng : NoGrow p p') :
    (∀ l, Loc.Ok l → mem (applyWrites p (planWrites cmp thr p tx)) l = mem p' l) ∧
    shape (applyWrites p (planWrites cmp thr p tx)) = shape p' ∧
    Static p (applyWrites p (planWrites cmp thr p tx)) := by
  obtain ⟨h, s⟩ := full_mem cmp thr p p' p tx hrun hng rfl (fun _ _ => rfl)
  exact ⟨h, s.shape.trans hng.symm, s⟩

/-- The same for any state `q` that reads like `p` (e.g. the state an earlier replay produced). -/
theorem R7_full_on (cmp : Bytes → Bytes) (thr : Nat) (p p' q : PCol) (tx : Tx)
    (hrun : runTx cmp thr p tx = some p') (hng : NoGrow p p')
    (hqs : shape q = shape p) (hqm : ∀ l, Loc.Ok l → mem q l = mem p l) :
    (∀ l, Loc.Ok l → mem (applyWrites q (planWrites cmp thr p tx)) l = mem p' l) ∧
    shape (applyWrites q (planWrites cmp thr p tx)) = shape p' := by
  obtain ⟨h, s⟩ := full_mem cmp thr p p' q tx hrun hng hqs hqm
  exact ⟨h, s.shape.trans (hqs.trans hng.symm)⟩

/-- Every write of the record is one the enactment does not skip. -/
theorem R7_writes_ok (cmp : Bytes → Bytes) (thr : Nat) (p p' : PCol) (tx : Tx)
    (hrun : runTx cmp thr p tx = some p') (hng : NoGrow p p') :
    ∀ w ∈ planWrites cmp thr p tx, Write.Ok (shape p) w :=
  planWrites_ok cmp thr p p' tx hrun hng

/-- A whole history: the records of the transactions, applied in order to the start state, give a
state that reads like the end state of the history. -/
theorem R7_history (cmp : Bytes → Bytes) (thr : Nat) (p p' : PCol) (txs : List Tx)
    (recs : List (List Write)) (h : Hist cmp thr p txs recs p') :
    (∀ l, Loc.Ok l → mem (applyWrites p recs.flatten) l = mem p' l) ∧
    shape (applyWrites p recs.flatten) = shape p' := by
  obtain ⟨hm, s⟩ := h.mem p rfl (fun _ _ => rfl)
  exact ⟨hm, s.shape.trans h.shape.symm⟩

/-! ## R7_redo: torn enactment and replay -/

/-- LOCATION MAPS.  For ANY list of writes and ANY memory: a crash after the first `j` writes
followed by all the writes again = all the writes once (absolute after-images are idempotent and
overwrite a torn prefix). -/
theorem R7_redo_mem (m : Mem) (ws : List Write) (j : Nat) :
    mapplys (mapplys m (ws.take j)) ws = mapplys m ws :=
  redo_torn m ws j

/-- ONE RECORD on the physical column: the enactment of the record of `tx` is torn after `j`
writes (crash in the middle of `enact_logs`), replay applies the whole record again: the result
reads like the state after the transaction. -/
theorem R7_redo (cmp : Bytes → Bytes) (thr : Nat) (p p' : PCol) (tx : Tx)
    (hrun : runTx cmp thr p tx = some p') (hng : NoGrow p p') (j : Nat) (l : Loc) (hl : Loc.Ok l) :
    mem (applyWrites (applyWrites p ((planWrites cmp thr p tx).take j)) (planWrites cmp thr p tx)) l =
      mem p' l := by
  rw [col_redo_torn p _ j (planWrites_ok cmp thr p p' tx hrun hng) l hl]
  exact (R7_full cmp thr p p' tx hrun hng).1 l hl

/-- SEQUENCES OF RECORDS on the physical column, any records the enactment does not skip (no
growth): `pre` enacted and not replayed, `mid` enacted and replayed again, `r` torn after `j`
writes, `post` not yet enacted.  Replaying `mid ++ r :: post` over the crash state = all records
once. -/
theorem R7_redo_seq (p : PCol) (pre mid post : List (List Write)) (r : List Write) (j : Nat)
    (hok : ∀ w ∈ (pre ++ mid ++ r :: post).flatten, Write.Ok (shape p) w) (l : Loc) (hl : Loc.Ok l) :
    mem (applyWrites (applyWrites (applyWrites p (pre ++ mid).flatten) (r.take j))
        (mid ++ r :: post).flatten) l =
      mem (applyWrites p (pre ++ mid ++ r :: post).flatten) l :=
  col_redo_seq p pre mid post r j hok l hl

/-- HISTORIES: the records of a history of transactions (no growth) split as
`pre ++ mid ++ r :: post`; the crate enacted `pre ++ mid` completely and the first `j` writes of
`r`, crashed, and replays the consecutive records `mid ++ r :: post` (any start at or before the
torn record): the recovered column reads like the RECORD BOUNDARY after the last replayed record,
i.e. like `pRun` of the transactions. -/
theorem R7_redo_history (cmp : Bytes → Bytes) (thr : Nat) (p p' : PCol) (txs : List Tx)
    (pre mid post : List (List Write)) (r : List Write)
    (h : Hist cmp thr p txs (pre ++ mid ++ r :: post) p') (j : Nat) (l : Loc) (hl : Loc.Ok l) :
    mem (applyWrites (applyWrites (applyWrites p (pre ++ mid).flatten) (r.take j))
        (mid ++ r :: post).flatten) l = mem p' l := by
  rw [col_redo_seq p pre mid post r j h.flatten_ok l hl]
  exact (R7_history cmp thr p p' txs _ h).1 l hl

/-! ## the canonicalisation of the tie is harmless -/

/-- The crate's record is a MAP from locations to images, so it may contain writes that rewrite what
is already there (a header after pop + push, a value replaced by itself); `planWrites` lists only
what changes.  The tie compares `planWrites` with `dropNoops` of the real record w.r.t. the memory
before the record.  For a record that names every location at most once (checked by the driver),
dropping those writes does not change what the record does to that memory. -/
theorem R7_canon (m : Mem) (real : List Write) (hnd : (real.map (·.1)).Nodup) :
    mapplys m (dropNoops m real) = mapplys m real :=
  mapplys_dropNoops m real hnd

/-! ## non-vacuity -/

section Example

def exCmp (v : Bytes) : Bytes := v
def exP0 : PCol := PCol.init ⟨true, true, true⟩ 16
def exKa : Key := ⟨0x1234000000004001, 1001⟩
def exKb : Key := ⟨0x1234000000004002, 1002⟩
def exKc : Key := ⟨0x9999000000000000, 1003⟩
def exTx1 : Tx := [.set exKa [1, 2, 3], .set exKb (List.replicate 40 7)]
def exTx2 : Tx := [.del exKa, .set exKc (List.replicate 300 9), .set exKb [5]]
def exP1 : PCol := (runTx exCmp 0 exP0 exTx1).getD exP0
def exP2 : PCol := (runTx exCmp 0 exP1 exTx2).getD exP0

theorem getD_of_isSome {α : Type} (o : Option α) (d : α) (h : o.isSome = true) : o = some (o.getD d) := by
  cases o with
  | none => cases h
  | some x => rfl

theorem exRun1 : runTx exCmp 0 exP0 exTx1 = some exP1 :=
  getD_of_isSome _ _ (by decide +kernel)
theorem exRun2 : runTx exCmp 0 exP1 exTx2 = some exP2 :=
  getD_of_isSome _ _ (by decide +kernel)
theorem exNg1 : NoGrow exP0 exP1 := by unfold NoGrow; decide +kernel
theorem exNg2 : NoGrow exP1 exP2 := by unfold NoGrow; decide +kernel

/-- the two records: 2 index entries + 2 slots + 2 headers; 1 index entry removed + 1 added, a
tombstone, a value moved to another tier into the slot just freed there (the header of that tier
ends as it began: no write) -/
example : (planWrites exCmp 0 exP0 exTx1).length = 6 ∧ (planWrites exCmp 0 exP1 exTx2).length = 8 := by
  refine ⟨by decide +kernel, by decide +kernel⟩

example := R7_full exCmp 0 exP0 exP1 exTx1 exRun1 exNg1
example : dropNoops (mem exP1) ((Loc.hdr 0, mem exP1 (.hdr 0)) :: planWrites exCmp 0 exP1 exTx2) =
    planWrites exCmp 0 exP1 exTx2 := by decide +kernel
example := R7_redo exCmp 0 exP1 exP2 exTx2 exRun2 exNg2 4

theorem exHist : Hist exCmp 0 exP0 [exTx1, exTx2]
    ([] ++ [planWrites exCmp 0 exP0 exTx1] ++ planWrites exCmp 0 exP1 exTx2 :: []) exP2 :=
  .cons exRun1 exNg1 (.cons exRun2 exNg2 (.nil _))

/-- record 1 enacted, record 2 torn after 5 of its 8 writes, replay starts at record 1 -/
example := R7_redo_history exCmp 0 exP0 exP2 [exTx1, exTx2] [] [planWrites exCmp 0 exP0 exTx1] []
  (planWrites exCmp 0 exP1 exTx2) exHist 5

/-- the torn state is NOT a record boundary: it differs from both neighbours -/
example :
    mem (applyWrites exP1 ((planWrites exCmp 0 exP1 exTx2).take 5)) (.hdr 0) ≠ mem exP2 (.hdr 0) ∨
    ∃ l ∈ (planWrites exCmp 0 exP1 exTx2).map (·.1),
      mem (applyWrites exP1 ((planWrites exCmp 0 exP1 exTx2).take 5)) l ≠ mem exP2 l := by
  refine Or.inr ?_
  decide +kernel

end Example

end Pdb.PhysRec

#print axioms Pdb.PhysRec.R7_frame
#print axioms Pdb.PhysRec.R7_full
#print axioms Pdb.PhysRec.R7_full_on
#print axioms Pdb.PhysRec.R7_writes_ok
#print axioms Pdb.PhysRec.R7_history
#print axioms Pdb.PhysRec.R7_redo_mem
#print axioms Pdb.PhysRec.R7_redo
#print axioms Pdb.PhysRec.R7_redo_seq
#print axioms Pdb.PhysRec.R7_redo_history
#print axioms Pdb.PhysRec.R7_canon
