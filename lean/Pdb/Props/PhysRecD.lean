/-
R7, DROP_TABLE as a record action (item 2): the last batch record of a reindex is
`(writes, some b)`: index writes into the newer tables, then `DROP_TABLE` of the queue front `b`
(`enactD` = validation pass, apply pass, `drop_index`).

  R7d_mem_drop        memory after the drop: the dropped table reads as empty, nothing else changes
  R7d_redo_torn       enactment torn after `j` writes (before the drop), whole record replayed
  R7d_redo_gone       crash AFTER the drop with the log file still there: the record is replayed over a
                      state in which the table is already gone (legal since fix dfcb873): the writes are
                      applied again, the drop is a no-op, the state is unchanged
  R7d_skip_gone       an OLDER record replayed after the drop: its writes into the dropped table are
                      skipped (`skip_plan`), they cannot resurrect it
Hypotheses (`DropRec`): the writes are into tables the column has and none into the dropped table
(a reindex batch only copies INTO newer tables: no `I16` token in any of the 93 DROP_TABLE records of
the tie runs), the dropped table is the queue front, index bits pairwise distinct.
NOT done: DROP_TABLE records inside `HistV` / `R7v_redo_history` (sequences in which the tables
shrink), and in `C02_phys_replay_prefix`.
-/
import Pdb.Proofs.PhysRecD
import Pdb.Props.PhysRecV

namespace Pdb.PhysRec
open Pdb.Gen Pdb.Index Pdb.ValueTable Pdb.Refine

theorem R7d_mem_drop (p : PCol) (b : Nat) (h : FrontIs p b) (l : Loc) :
    mem (dropTable p b) l = if Loc.inTable b l then [0] else mem p l :=
  mem_dropTable p b h l

theorem R7d_redo_torn (q : PCol) (ws : List Write) (b : Nat) (h : DropRec q ws b) (j : Nat) :
    (∀ l, Loc.Ok l → mem (enactD (applyWrites q (ws.take j)) (ws, some b)) l =
      mem (enactD q (ws, some b)) l) ∧
    shape (enactD (applyWrites q (ws.take j)) (ws, some b)) = shape (enactD q (ws, some b)) :=
  dropRec_redo_torn q ws b h j

theorem R7d_redo_gone (q : PCol) (ws : List Write) (b : Nat) (h : DropRec q ws b) :
    (∀ l, Loc.Ok l → mem (enactD (enactD q (ws, some b)) (ws, some b)) l =
      mem (enactD q (ws, some b)) l) ∧
    shape (enactD (enactD q (ws, some b)) (ws, some b)) = shape (enactD q (ws, some b)) :=
  dropRec_redo_gone q ws b h

/-- a write into an index table the column does not have and that is not bigger than the current one
is skipped -/
theorem R7d_skip_gone (p : PCol) (b c i e : Nat) (hb : b ∉ shape p) (hle : ¬ p.current.bits < b) :
    applyWrite p (Loc.idx b c i, [e]) = p := by
  have : tableByBits (PCol.tables p) b = none := tableByBits_none hb
  simp [applyWrite, this, hle]

theorem FrontIs.of_shape_eq {p : PCol} {b c : Nat} {rest : List Nat} (hs : shape p = c :: b :: rest)
    (hnd : (shape p).Nodup) : FrontIs p b := by
  refine ⟨?_, hnd⟩
  simp only [shape, PCol.tables, List.map_cons, List.cons.injEq] at hs
  cases ho : p.older with
  | nil => rw [ho] at hs; simp at hs
  | cons t ts =>
    rw [ho] at hs
    simp only [List.map_cons, List.cons.injEq] at hs
    exact ⟨t, ts, rfl, hs.2.1⟩

/-! ## non-vacuity -/

section Example

/-- on the grown column `exPG` (tables of 17 and 16 bits): a batch record copying two entries into
the 17-bit table and dropping the 16-bit one -/
def exWsD : List Write := [(Loc.idx 17 9320 0, [0x1234]), (Loc.idx 17 9321 3, [0x5678])]

theorem exDropRec : DropRec exPG exWsD 16 := by
  refine ⟨?_, ?_, FrontIs.of_shape_eq (c := 17) (rest := []) (by decide +kernel) exNdG⟩
  · intro w hw
    have hs : shape exPG = [17, 16] := by decide +kernel
    simp only [exWsD, List.mem_cons, List.mem_nil_iff, or_false] at hw
    rcases hw with h | h <;> subst h <;> exact ⟨by rw [hs]; decide, by decide, _, rfl⟩
  · intro w hw
    simp only [exWsD, List.mem_cons, List.mem_nil_iff, or_false] at hw
    rcases hw with h | h <;> subst h <;> simp [Loc.inTable]

example := R7d_redo_torn exPG exWsD 16 exDropRec 1
example := R7d_redo_gone exPG exWsD 16 exDropRec
example : shape (enactD exPG (exWsD, some 16)) = [17] := by decide +kernel

end Example

end Pdb.PhysRec

#print axioms Pdb.PhysRec.R7d_mem_drop
#print axioms Pdb.PhysRec.R7d_redo_torn
#print axioms Pdb.PhysRec.R7d_redo_gone
#print axioms Pdb.PhysRec.R7d_skip_gone
