/-
R8  The physical layer below btree columns (serves C04, C14, C06; DESIGN 13.0 / 13.5).

Model: Pdb/Model/BTreePhys.lean.  A btree column is `PCol`: one byte-level value table
`ValueTable.VT` per size tier (the tables C06 is about), entries without key tail
(`TableKey::NoHash`), addresses `Address::new(offset, tier)` (generated bit functions), the header
entry at `HEADER_ADDRESS` = (root address u64 LE, depth u32 LE), nodes stored as the bytes of
`C04.encodeNode` (BTreeNode.lean codec, possibly multipart), values as separate entries referenced
from the separators.

  R8_abs        `absTree`: the abstraction from the bytes of the column to the address-indirected
                tree of `C04b_address_indirection` (`C04.Tree Nat`: separators carry value addresses),
                obtained by DECODING every reachable node; `R8_abs_frame`: it depends on the column
                only through the header entry and the entries of the reachable nodes.
  R8_get        the descent of `BTreeTable::get` through the stored bytes (`physGet`) is
                `C04.nodeGet` on the abstraction followed by the read of the value entry - for every
                key, full; with TreeInv it is the lookup in the in-order enumeration (`R8_get_lookup`).
  R8_step_*     the primitive writes of the plan functions, through C06's `writeChain` /
                `removePlan` (`writeChain_spec`, `removePlan_spec`, the lemmas R2 is built on):
                insert (new node / new value), replace in place (node, value or header whose tier
                stays), replace with a change of tier (remove + insert, new address), remove (free a
                node / a value).  Each keeps `ColInv` (per-tier `SlotInv` with the chains of the owner
                addresses as THE live chains, table configurations) for the updated owner list, stores
                what was written, and leaves the entry of every other owner unchanged (hence, by
                `R8_abs_frame`, the abstraction when header and nodes are among the others).
  R8_header_fetch / R8_node_fetch / R8_node_write_new / R8_node_write_inplace   the header and node
                codecs at address level: what `physSetHeader` / `physWriteNode` stored is what
                `btree_header` / `get_encoded_entry + Node::from_encoded` read back
                (`C04_node_roundtrip_exact` below the value table).
  R8_value_replace   a value rewritten in place keeps the JOINT invariant (`JointInv`: TreeInv of
                the abstraction + `SlotInv` of every tier with header / reachable nodes / referenced
                values as the owners) with the same tree, and the physical `get` of every key of that
                address returns the new value.
  R8_set_existing    full for the first transaction shape: the WHOLE transaction `Set(k, v)` on a
                present key whose stored form stays in its tier, exactly as `write_plan` runs it
                (`physSetExisting`: descent, value entry in place, the node holding the key rewritten
                at its address): it succeeds, the joint invariant holds again with the same tree, `get k`
                returns the new value.  `physSetExisting` is the function replayed against the real
                crate (`c04b phys put`, also for values that change tier).
  R8_joint_partition  what `ColInv` / `JointInv` say slot by slot: in every tier the free list and
                the chains of the owners are duplicate-free and list EXACTLY the slots `1 .. filled-1`
                (C14: "every slot is in exactly one live chain or free" and "no unreachable node"
                together: an allocated slot that is neither header, reachable node part, referenced
                value part nor free cannot exist).
  R8_owners_distinct  header, nodes and values are pairwise distinct addresses (no node reachable
                twice, no value referenced by two separators).
  R8_jointCheck_sound  the executable check the driver runs on dumps of the real column
                (`c04b phys inv`) implies `JointInv`.
  R8_tx_insert_root_leaf / R8_tx_remove_root_leaf / R8_tx_move_root_leaf   whole transactions WITHOUT
                any hypothesis about the final column, for trees whose root is a leaf (header depth 0):
                Set of an absent key that fits (no split), removal that keeps ORDER/2 separators (no
                rebalance), Set whose value moves to another tier; each as `write_plan` runs it in its
                write-back order (value, leaf in place or moved, header if the root moved), each stating
                `JointInv` of the final column for the tree of the abstract `C04.applyChanges` and the
                physical `get` of every key = lookup in the abstract enumeration.
  R8_tx_partial  NOT full (deeper trees, splits, merges): a whole `BTreeBatch` transaction (node splits / merges) is covered only
                as a sequence of primitive steps each of which keeps `ColInv`; that the sequence of
                steps `write_sorted_changes` performs ends in a column whose abstraction is the tree
                of `C04.applyChangesB` with exactly the tracked owners is the hypothesis `hfinal`
                (not proved: it needs a model of the dirty-flag driven write-back of
                `write_node_plan` for every node of the batched descent).

Tie: the driver command `c04b phys` (Pdb.BTreePhys.step) rebuilds `PCol` from the RAW SLOTS of the
real value tables (harness/src/c04phys.rs, hooks `Db::verif_table_state` / `verif_table_entry`) and
runs `physHeader`, `physGetRaw` (every key of the case, present and absent, against the real
`Db::get`) and `jointCheck`; `c04b phys put` runs `physWriteValue` / `physWriteNode` against a real
single-key transaction (resulting raw tables compared slot by slot).
-/
import Pdb.Proofs.RefineBt6
import Pdb.Proofs.C04PipeTree
import Pdb.Props.C04
import Pdb.Props.C04d

namespace Pdb.BTreePhys
open Pdb.Gen Pdb.ValueTable

/-! ## R8_abs -/

/-- R8_abs (frame).  `absTree` and the list of node addresses depend on the column only through
the entries of the header and of the reachable nodes. -/
theorem R8_abs_frame (decomp : Bytes → Option Bytes) (c c' : PCol)
    (h : ∀ a ∈ HEADER_ADDRESS :: rootNodes decomp c, entryAt c' a = entryAt c a) :
    absTree decomp c' = absTree decomp c ∧ rootNodes decomp c' = rootNodes decomp c :=
  abs_frame decomp c c' h

/-- R8_abs (header).  The abstraction has the depth of the header entry, and it is the empty tree
iff the header's root address is `NULL_ADDRESS`. -/
theorem R8_abs_header (decomp : Bytes → Option Bytes) (c : PCol) (t : C04.Tree Nat)
    (h : absTree decomp c = some t) :
    ∃ root, physHeader decomp c = .ok (root, t.depth) ∧
      (root = NULL_ADDRESS → t.root = .empty) ∧
      (root ≠ NULL_ADDRESS → absNode decomp c t.depth root = some t.root) :=
  abs_header decomp c t h

/-! ## R8_get -/

/-- R8_get.  For EVERY key: the physical `get` (header slot, decoded node bytes, child addresses,
value entry) is `Node::get` of the tree model on the abstraction, then the read of the value
entry at the address found. -/
theorem R8_get (decomp : Bytes → Option Bytes) (c : PCol) (t : C04.Tree Nat)
    (h : absTree decomp c = some t) (k : Key) :
    physGetAddr decomp c k = .ok (C04.nodeGet t.depth t.root k) ∧
    physGet decomp c k = (C04.nodeGet t.depth t.root k).elim (.ok none) (valueAt decomp c) ∧
    physGetRaw decomp c k = (C04.nodeGet t.depth t.root k).elim (.ok none) (entryAt c) := by
  have haddr : physGetAddr decomp c k = .ok (C04.nodeGet t.depth t.root k) := by
    obtain ⟨root, hp, h0, h1⟩ := R8_abs_header decomp c t h
    unfold physGetAddr
    rw [hp]
    simp only
    by_cases hr : root = NULL_ADDRESS
    · rw [if_pos hr, h0 hr]
      cases t.depth <;> simp [C04.nodeGet, C04.Node.empty, C04.Node.seps, C04.Node.children, C04.position]
    · rw [if_neg hr]
      obtain ⟨n, hn⟩ := absNode_fetch (h1 hr)
      rw [hn]
      exact physNodeGet_abs decomp c k t.depth _ root n t.root
        (Nat.lt_of_lt_of_le (Nat.lt_succ_self _) (Nat.le_max_left _ _)) hn (h1 hr)
  refine ⟨haddr, ?_, ?_⟩
  · delta physGet; rw [haddr]; cases C04.nodeGet t.depth t.root k <;> rfl
  · delta physGetRaw; rw [haddr]; cases C04.nodeGet t.depth t.root k <;> rfl

/-- R8_get with TreeInv: the physical `get` is the lookup of the key in the in-order enumeration
of the abstraction (the ordered map the column stores, values as addresses), dereferenced. -/
theorem R8_get_lookup (decomp : Bytes → Option Bytes) (c : PCol) (t : C04.Tree Nat)
    (h : absTree decomp c = some t) (hinv : C04.TreeInv t) (k : Key) :
    physGet decomp c k = (C04.lookup t.toList k).elim (.ok none) (valueAt decomp c) := by
  rw [(R8_get decomp c t h k).2.1]
  obtain ⟨hw, _⟩ := (C04.treeInvB_iff t).mp hinv
  rw [C04.nodeGet_spec t.depth t.root hw.1 hw.2 k]
  rfl

/-! ## R8_step -/

/-- R8_step (insert): `write_new_value_plan` of a node or a value. -/
theorem R8_step_insert (cp : Cmp) (c : PCol) (own : List Nat) (v : Bytes) (h : ColInv c own)
    (hb : (c.tables (newTier cp c v)).filled +
      numParts (c.tables (newTier cp c v)) .noHash (storedForm cp.cmp cp.threshold v).1 ≤ 2 ^ 56) :
    ∃ c' a, physWriteNew cp c v = .ok (c', a) ∧
      entryAt c' a = .ok (some (storedForm cp.cmp cp.threshold v)) ∧
      a ∉ own ∧ ColInv c' (a :: own) ∧ (∀ b ∈ own, entryAt c' b = entryAt c b) ∧ c'.rc = c.rc :=
  let ⟨c', a, h1, h2, h3, h4, h5, h6, _⟩ := step_insert cp c own v h hb
  ⟨c', a, h1, h2, h3, h4, h5, h6⟩

/-- R8_step (replace in place): `write_existing_value_plan(Set)` when the tier stays. -/
theorem R8_step_replace (cp : Cmp) (c : PCol) (a : Nat) (own : List Nat) (v : Bytes)
    (h : ColInv c (a :: own)) (hτe : Address.size_tier a = newTier cp c v)
    (hb : (c.tables (newTier cp c v)).filled +
      numParts (c.tables (newTier cp c v)) .noHash (storedForm cp.cmp cp.threshold v).1 ≤ 2 ^ 56) :
    ∃ c', physWriteExisting cp c a v = .ok (c', none) ∧
      entryAt c' a = .ok (some (storedForm cp.cmp cp.threshold v)) ∧
      ColInv c' (a :: own) ∧ (∀ b ∈ own, entryAt c' b = entryAt c b) ∧ c'.rc = c.rc :=
  let ⟨c', h1, h2, h3, h4, h5, _⟩ := step_replace cp c a own v h hτe hb
  ⟨c', h1, h2, h3, h4, h5⟩

/-- R8_step (replace with a change of tier): the old entry is freed, the new address is fresh. -/
theorem R8_step_move (cp : Cmp) (c : PCol) (a : Nat) (own : List Nat) (v : Bytes)
    (h : ColInv c (a :: own)) (hne : Address.size_tier a ≠ newTier cp c v)
    (hb1 : (c.tables (Address.size_tier a)).filled ≤ 2 ^ 64)
    (hb2 : (c.tables (newTier cp c v)).filled +
      numParts (c.tables (newTier cp c v)) .noHash (storedForm cp.cmp cp.threshold v).1 ≤ 2 ^ 56) :
    ∃ c' na, physWriteExisting cp c a v = .ok (c', some na) ∧
      entryAt c' na = .ok (some (storedForm cp.cmp cp.threshold v)) ∧
      na ∉ own ∧ ColInv c' (na :: own) ∧ (∀ b ∈ own, entryAt c' b = entryAt c b) ∧ c'.rc = c.rc :=
  let ⟨c', na, h1, h2, h3, h4, h5, h6, _⟩ := step_move cp c a own v h hne hb1 hb2
  ⟨c', na, h1, h2, h3, h4, h5, h6⟩

/-- R8_step (remove): `write_plan_remove_node` / removal of a value. -/
theorem R8_step_remove (c : PCol) (a : Nat) (own : List Nat) (h : ColInv c (a :: own))
    (hb : (c.tables (Address.size_tier a)).filled ≤ 2 ^ 64) :
    ∃ c', physRemove c a = .ok c' ∧ ColInv c' own ∧ (∀ b ∈ own, entryAt c' b = entryAt c b) ∧
      c'.rc = c.rc :=
  let ⟨c', h1, h2, h3, h4, _⟩ := step_remove c a own h hb
  ⟨c', h1, h2, h3, h4⟩

/-- the plan functions of the btree code are these steps -/
theorem R8_plan_functions (cp : Cmp) (c : PCol) (n : C04.RawNode) (a root depth : Nat) (v : Bytes) :
    physWriteNode c n (some a) = physWriteExisting noCompression c a (C04.encodeNode n) ∧
    physWriteNode c n none = (physWriteNew noCompression c (C04.encodeNode n)).map
      (fun r => (r.1, some r.2)) ∧
    physFreeNode c a = physRemove c a ∧
    physWriteValue cp c (some a) v = physWriteExisting cp c a v ∧
    physSetHeader cp c root depth = physWriteExisting cp c HEADER_ADDRESS (headerBytes root depth) := by
  refine ⟨rfl, ?_, rfl, rfl, rfl⟩
  unfold physWriteNode
  cases physWriteNew noCompression c (C04.encodeNode n) with
  | error e => rfl
  | ok r => rfl

/-- `NO_COMPRESSION` never compresses: the stored form of node bytes is the bytes, flag clear. -/
theorem R8_node_stored (b : Bytes) :
    storedForm noCompression.cmp noCompression.threshold b = (b, false) :=
  node_stored b

/-- R8_step, nodes (codec at address level).  Where a step stored the encoding of a node (any of
`physWriteNode`'s three outcomes: new entry, in place, moved), `fetchNode` (= `get_encoded_entry` +
`Node::from_encoded`) returns that node: `C04_node_roundtrip_exact` below the value table. -/
theorem R8_node_fetch (decomp : Bytes → Option Bytes) (c' : PCol) (a : Nat) (n : C04.RawNode)
    (hlen : n.seps.length ≤ C04.ORDER) (hch : n.children.length = n.seps.length + 1)
    (hk : ∀ s ∈ n.seps, s.1.length < 2 ^ 32 ∧ 0 < s.2 ∧ s.2 < 2 ^ 64)
    (hc : ∀ x ∈ n.children, x < 2 ^ 64)
    (h : entryAt c' a = .ok (some (storedForm noCompression.cmp noCompression.threshold
      (C04.encodeNode n)))) :
    fetchNode decomp c' a = .ok n :=
  node_fetch decomp c' a n hlen hch hk hc h

/-- a new node: `write_node_plan(.., None)` -/
theorem R8_node_write_new (decomp : Bytes → Option Bytes) (c : PCol) (own : List Nat)
    (n : C04.RawNode) (h : ColInv c own)
    (hlen : n.seps.length ≤ C04.ORDER) (hch : n.children.length = n.seps.length + 1)
    (hk : ∀ s ∈ n.seps, s.1.length < 2 ^ 32 ∧ 0 < s.2 ∧ s.2 < 2 ^ 64)
    (hc : ∀ x ∈ n.children, x < 2 ^ 64)
    (hb : (c.tables (newTier noCompression c (C04.encodeNode n))).filled +
      numParts (c.tables (newTier noCompression c (C04.encodeNode n))) .noHash
        (storedForm noCompression.cmp noCompression.threshold (C04.encodeNode n)).1 ≤ 2 ^ 56) :
    ∃ c' a, physWriteNode c n none = .ok (c', some a) ∧ fetchNode decomp c' a = .ok n ∧
      a ∉ own ∧ ColInv c' (a :: own) ∧ (∀ b ∈ own, entryAt c' b = entryAt c b) := by
  obtain ⟨c', a, h1, h2, h3, h4, h5, _⟩ := step_insert noCompression c own (C04.encodeNode n) h hb
  refine ⟨c', a, ?_, R8_node_fetch decomp c' a n hlen hch hk hc h2, h3, h4, h5⟩
  unfold physWriteNode
  simp only [h1]

/-- a node rewritten at its address (`write_node_plan(.., Some(existing))`, same tier) -/
theorem R8_node_write_inplace (decomp : Bytes → Option Bytes) (c : PCol) (a : Nat) (own : List Nat)
    (n : C04.RawNode) (h : ColInv c (a :: own))
    (hlen : n.seps.length ≤ C04.ORDER) (hch : n.children.length = n.seps.length + 1)
    (hk : ∀ s ∈ n.seps, s.1.length < 2 ^ 32 ∧ 0 < s.2 ∧ s.2 < 2 ^ 64)
    (hc : ∀ x ∈ n.children, x < 2 ^ 64)
    (hτ : Address.size_tier a = newTier noCompression c (C04.encodeNode n))
    (hb : (c.tables (newTier noCompression c (C04.encodeNode n))).filled +
      numParts (c.tables (newTier noCompression c (C04.encodeNode n))) .noHash
        (storedForm noCompression.cmp noCompression.threshold (C04.encodeNode n)).1 ≤ 2 ^ 56) :
    ∃ c', physWriteNode c n (some a) = .ok (c', none) ∧ fetchNode decomp c' a = .ok n ∧
      ColInv c' (a :: own) ∧ (∀ b ∈ own, entryAt c' b = entryAt c b) := by
  obtain ⟨c', h1, h2, h3, h4, _⟩ := step_replace noCompression c a own (C04.encodeNode n) h hτ hb
  exact ⟨c', h1, R8_node_fetch decomp c' a n hlen hch hk hc h2, h3, h4⟩

/-- R8_step, header (codec at address level).  Where a step stored `Entry::write_header(root,
depth)` at `HEADER_ADDRESS` (`physSetHeader`, in place: 12 bytes never leave tier 0 unless the
compressor says so) and the decompressor inverts the stored form (A-compress), `btree_header`
reads `(root, depth)` back. -/
theorem R8_header_fetch (decomp : Bytes → Option Bytes) (cp : Cmp) (c' : PCol) (root depth : Nat)
    (hr : root < 2 ^ 64) (hd : depth < 2 ^ 32)
    (h : entryAt c' HEADER_ADDRESS =
      .ok (some (storedForm cp.cmp cp.threshold (headerBytes root depth))))
    (hdec : decodeEntry decomp (some (storedForm cp.cmp cp.threshold (headerBytes root depth))) =
      .ok (some (headerBytes root depth))) :
    physHeader decomp c' = .ok (root, depth) := by
  unfold physHeader valueAt
  rw [h]
  simp only [hdec]
  have hl : (headerBytes root depth).length = 12 := by
    simp [headerBytes, C04.leBytes_length]
  have h8 : (headerBytes root depth).take 8 = C04.leBytes 8 root := by
    unfold headerBytes
    rw [List.take_append_of_le_length (by rw [C04.leBytes_length]; omega),
      List.take_of_length_le (by rw [C04.leBytes_length]; omega)]
  have h4 : ((headerBytes root depth).drop 8).take 4 = C04.leBytes 4 depth := by
    unfold headerBytes
    rw [List.drop_append_of_le_length (by rw [C04.leBytes_length]; omega),
      List.drop_of_length_le (by rw [C04.leBytes_length]; omega), List.nil_append,
      List.take_of_length_le (by rw [C04.leBytes_length]; omega)]
  rw [if_neg (by rw [hl]; decide), h8, h4, C04.fromLe_leBytes, C04.fromLe_leBytes]
  have e1 : root % 256 ^ 8 = root := Nat.mod_eq_of_lt (by
    have : (256 : Nat) ^ 8 = 2 ^ 64 := by decide
    omega)
  have e2 : depth % 256 ^ 4 = depth := Nat.mod_eq_of_lt (by
    have : (256 : Nat) ^ 4 = 2 ^ 32 := by decide
    omega)
  rw [e1, e2]

/-- The order of the owner list is irrelevant, owners are pairwise distinct. -/
theorem R8_owners_distinct (c : PCol) (own : List Nat) (h : ColInv c own) :
    own.Nodup ∧ ∀ own', own.Perm own' → ColInv c own' :=
  ⟨h.nodup, fun _ hp => h.perm hp⟩

/-! ## the joint invariant -/

/-- `JointInv` is the abstraction + TreeInv + `ColInv` for the owners header / nodes / values. -/
theorem R8_joint_meaning (decomp : Bytes → Option Bytes) (c : PCol) (t : C04.Tree Nat)
    (hcfg : ∀ tier, SameCfg (tableOfTier c.rc tier) (c.tables tier)) :
    JointInv decomp c t ↔
      absTree decomp c = some t ∧ C04.TreeInv t ∧ ColInv c (owners decomp c t) :=
  jointInv_iff decomp c t hcfg

theorem nodup_map_inj {α β : Type} (f : α → β) : ∀ l : List α, (l.map f).Nodup →
    ∀ a ∈ l, ∀ b ∈ l, f a = f b → a = b := by
  intro l
  induction l with
  | nil => intro _ a ha; simp at ha
  | cons x r ih =>
    intro hnd a ha b hb hab
    rw [List.map_cons, List.nodup_cons] at hnd
    rcases List.mem_cons.mp ha with ea | ha' <;> rcases List.mem_cons.mp hb with eb | hb'
    · rw [ea, eb]
    · exact absurd (List.mem_map.mpr ⟨b, hb', by rw [← hab, ea]⟩) hnd.1
    · exact absurd (List.mem_map.mpr ⟨a, ha', by rw [hab, eb]⟩) hnd.1
    · exact ih hnd.2 a ha' b hb' hab

/-- Under the joint invariant the header address, the addresses of the reachable nodes and the
value addresses of the separators are pairwise distinct: no node is reachable twice, no value entry
is referenced by two separators (`StoreInv.inj` of `C04b_address_indirection`), no address serves
two purposes. -/
theorem R8_joint_distinct (decomp : Bytes → Option Bytes) (c : PCol) (t : C04.Tree Nat)
    (hcfg : ∀ tier, SameCfg (tableOfTier c.rc tier) (c.tables tier)) (hj : JointInv decomp c t) :
    (HEADER_ADDRESS :: (rootNodes decomp c ++ valAddrs t)).Nodup ∧
    ∀ e1 ∈ t.toList, ∀ e2 ∈ t.toList, e1.2 = e2.2 → e1.1 = e2.1 := by
  have hnd : (HEADER_ADDRESS :: (rootNodes decomp c ++ valAddrs t)).Nodup :=
    ((jointInv_iff decomp c t hcfg).mp hj).2.2.nodup
  refine ⟨hnd, ?_⟩
  have hv : (valAddrs t).Nodup := (List.nodup_append.mp (List.nodup_cons.mp hnd).2).2.1
  unfold valAddrs at hv
  intro e1 h1 e2 h2 he
  have := nodup_map_inj (fun x : C04.Key × Nat => x.2) t.toList hv e1 h1 e2 h2 he
  rw [this]

/-- R8_joint_partition (C14 for btree columns).  In every tier the free list `F` and the chains of
the owners are duplicate-free and list exactly the used slots: every slot below the fill mark is
a free-list member or a part of the entry of exactly one owner (header, reachable node, referenced
value), never both, never two. -/
theorem R8_joint_partition (c : PCol) (own : List Nat) (h : ColInv c own) (tier : Nat)
    (ht : tier < NTABLES) :
    ∃ F, FreeChain (c.tables tier) (c.tables tier).lastRemoved F ∧
      (F ++ (tierChains c own tier).flatten).Nodup ∧
      ∀ i, (1 ≤ i ∧ i < (c.tables tier).filled) ↔ i ∈ F ++ (tierChains c own tier).flatten := by
  obtain ⟨F, hF⟩ := h.slots tier ht
  refine ⟨F, hF.free, hF.nodup, fun i => ⟨fun ⟨h1, h2⟩ => ?_, hF.range i⟩⟩
  exact nodup_range_complete _ _ hF.nodup hF.range
    (by have := hF.count; rw [List.length_append]; omega) i h1 h2

/-- a slot of an owner's chain belongs to that owner only -/
theorem R8_joint_exclusive (c : PCol) (own : List Nat) (h : ColInv c own) (a b : Nat)
    (ha : a ∈ own) (hb : b ∈ own) (hτ : Address.size_tier a = Address.size_tier b) (i : Nat)
    (hia : i ∈ chainOf (c.tables (Address.size_tier a)) (Address.offset a))
    (hib : i ∈ chainOf (c.tables (Address.size_tier a)) (Address.offset b)) : a = b := by
  apply Classical.byContradiction
  intro hne
  -- move `a` and `b` to the front of the owner list
  have hperm1 := List.perm_cons_erase ha
  have hb' : b ∈ own.erase a := (h.nodup.mem_erase_iff).mpr ⟨fun e => hne e.symm, hb⟩
  have hperm2 := List.perm_cons_erase hb'
  have hperm : own.Perm (a :: b :: (own.erase a).erase b) := hperm1.trans (hperm2.cons a)
  have h' := h.perm hperm
  obtain ⟨F, hF⟩ := h'.slots _ (h.tiers a ha)
  rw [tierChains_cons_same _ _ _ _ rfl, tierChains_cons_same _ _ _ _ hτ.symm] at hF
  have hnd := (List.nodup_append.mp hF.nodup).2.1
  rw [List.flatten_cons, List.flatten_cons] at hnd
  exact (List.nodup_append.mp hnd).2.2 i hia i (List.mem_append_left _ hib) rfl

/-- R8_jointCheck_sound: what the driver evaluates on a dump (`c04b phys inv` answers `ok`)
is the joint invariant. -/
theorem R8_jointCheck_sound (decomp : Bytes → Option Bytes) (c : PCol)
    (h : jointCheck decomp c = true) : ∃ t, JointInv decomp c t := by
  delta jointCheck at h
  cases ha : absTree decomp c with
  | none => rw [ha] at h; simp at h
  | some t =>
    rw [ha] at h
    simp only [Bool.and_eq_true, List.all_eq_true, decide_eq_true_eq, List.mem_range] at h
    obtain ⟨⟨h1, h2⟩, h3⟩ := h
    refine ⟨t, ha, h1, h2, fun tier ht => ⟨freeOf (c.tables tier), ?_⟩⟩
    have := h3 tier ht
    unfold tierCheck at this
    exact of_decide_eq_true this

/-! ## R8_value_replace -/

/-- R8_value_replace.  A value rewritten in place (`Node::change` on an existing key whose new
stored form stays in the tier of its entry): `TreeInv` + per-tier `SlotInv` hold JOINTLY after the
write with the same tree, no node and no header byte is touched, and the physical `get` of a key
whose separator holds `a` returns the new stored form. -/
theorem R8_value_replace (decomp : Bytes → Option Bytes) (cp : Cmp) (c : PCol) (t : C04.Tree Nat)
    (k : Key) (a : Nat) (v : Bytes)
    (hcfg : ∀ tier, SameCfg (tableOfTier c.rc tier) (c.tables tier))
    (hj : JointInv decomp c t) (hk : C04.lookup t.toList k = some a)
    (hτe : Address.size_tier a = newTier cp c v)
    (hb : (c.tables (newTier cp c v)).filled +
      numParts (c.tables (newTier cp c v)) .noHash (storedForm cp.cmp cp.threshold v).1 ≤ 2 ^ 56) :
    ∃ c', physWriteValue cp c (some a) v = .ok (c', none) ∧
      JointInv decomp c' t ∧
      (∀ tier, SameCfg (tableOfTier c'.rc tier) (c'.tables tier)) ∧
      physGetRaw decomp c' k = .ok (some (storedForm cp.cmp cp.threshold v)) ∧
      (∀ b ∈ owners decomp c t, b ≠ a → entryAt c' b = entryAt c b) := by
  have hti : C04.TreeInv t := hj.2.1
  obtain ⟨hw, _⟩ := (C04.treeInvB_iff t).mp hti
  have hget : C04.nodeGet t.depth t.root k = some a := by
    rw [C04.nodeGet_spec t.depth t.root hw.1 hw.2 k]; exact hk
  have ha : a ∈ valAddrs t := by
    unfold valAddrs
    have hm := (C04.mem_iff_lookup hw.2 k a).mpr hk
    exact List.mem_map.mpr ⟨(k, a), hm, rfl⟩
  obtain ⟨c', h1, h2, h3, h4, h5, _⟩ := value_replace decomp cp c t a v hcfg hj ha hτe hb
  refine ⟨c', h1, h2, h3, ?_, h5⟩
  rw [(R8_get decomp c' t h2.1 k).2.2, hget]
  exact h4

/-- R8_set_existing: the WHOLE TRANSACTION `Set(k, v)` on a present key whose new stored form
stays in the tier of its entry, as `BTreeChangeSet::write_plan` runs it (`physSetExisting`: header
read, descent through decoded nodes to the node holding the key, value entry rewritten in place,
that node's entry rewritten at its address; the function the harness runs against the real crate,
`c04b phys put`).  It succeeds, TreeInv + per-tier SlotInv hold JOINTLY afterwards with the same
tree (no unreachable node, no leaked slot, header / nodes / values still the only owners), and the
physical `get` of the key returns the new stored form.  `hnode` (see `set_existing_inplace`): the
reachable nodes satisfy the bounds of decoded nodes and sit in the tier of their re-encoding. -/
theorem R8_set_existing (decomp : Bytes → Option Bytes) (cp : Cmp) (c : PCol) (t : C04.Tree Nat)
    (k : Key) (va : Nat) (v : Bytes)
    (hcfg : ∀ tier, SameCfg (tableOfTier c.rc tier) (c.tables tier))
    (hj : JointInv decomp c t) (hk : C04.lookup t.toList k = some va)
    (hτe : Address.size_tier va = newTier cp c v)
    (hb : (c.tables (newTier cp c v)).filled +
      numParts (c.tables (newTier cp c v)) .noHash (storedForm cp.cmp cp.threshold v).1 ≤ 2 ^ 56)
    (hnode : ∀ na ∈ rootNodes decomp c, ∀ n, fetchNode decomp c na = .ok n →
      NodeBounds n ∧ Address.size_tier na = newTier noCompression c (C04.encodeNode n) ∧
      (c.tables (Address.size_tier na)).filled +
        numParts (c.tables (newTier cp c v)) .noHash (storedForm cp.cmp cp.threshold v).1 +
        numParts (c.tables (Address.size_tier na)) .noHash (C04.encodeNode n) ≤ 2 ^ 56) :
    ∃ c2, physSetExisting decomp cp c k v = .ok (some (c2, false)) ∧
      JointInv decomp c2 t ∧
      (∀ tier, SameCfg (tableOfTier c2.rc tier) (c2.tables tier)) ∧
      physGetRaw decomp c2 k = .ok (some (storedForm cp.cmp cp.threshold v)) := by
  have hti : C04.TreeInv t := hj.2.1
  obtain ⟨hw, _⟩ := (C04.treeInvB_iff t).mp hti
  have hget : C04.nodeGet t.depth t.root k = some va := by
    rw [C04.nodeGet_spec t.depth t.root hw.1 hw.2 k]; exact hk
  have hva : va ∈ valAddrs t := by
    unfold valAddrs
    exact List.mem_map.mpr ⟨(k, va), (C04.mem_iff_lookup hw.2 k va).mpr hk, rfl⟩
  obtain ⟨c2, h1, h2, h3, h4⟩ :=
    set_existing_inplace decomp cp c t k va v hcfg hj hget hva hτe hb hnode
  refine ⟨c2, h1, h2, h3, ?_⟩
  rw [(R8_get decomp c2 t h2.1 k).2.2, hget]
  exact h4

/-! ## R8_tx_<case>: whole transactions WITHOUT the hypothesis `hfinal` -/

/-- R8_tx_insert_root_leaf.  The whole transaction `Set(k, v)` for an ABSENT key `k` on a tree that
is a root leaf with room (header depth 0, between 1 and `ORDER - 1` separators: no split), as
`BTreeChangeSet::write_plan` runs it and in its write-back order (`physInsertAbsent`: value entry,
then the leaf written back - in place, or at a NEW address when its entry changes tier, which is the
usual case since the leaf grows - then the header entry if the root moved; replayed against the real
crate by `c04b phys ins`).  It succeeds; the joint invariant (TreeInv + per-tier SlotInv with header /
nodes / values as the only owners) holds for the tree of the abstract `write_plan`
(`C04.applyChanges t [Set k va]`, the tree of `C04b_batch_refines_tx`), whose enumeration is
`put (toList t) k va`; the physical `get` of `k` returns the stored form of `v`, and the physical
`get` of every key is the lookup in that enumeration.  No hypothesis about the final column.
`hspace`: the 56-bit offset space is not exhausted (`SpaceOk`); `hdec`: the decompressor inverts the
stored form of a header (A-compress); `hsb`, `hkl`: 64-bit addresses and 32-bit key lengths. -/
theorem R8_tx_insert_root_leaf (decomp : Bytes → Option Bytes) (cp : Cmp) (c : PCol)
    (t : C04.Tree Nat) (k : Key) (v : Bytes)
    (hcfg : ∀ tier, SameCfg (tableOfTier c.rc tier) (c.tables tier))
    (hj : JointInv decomp c t) (hd : t.depth = 0) (hne : t.root.seps ≠ [])
    (hk : (C04.position t.root.seps k).1 = false) (hlen : t.root.seps.length < C04.ORDER)
    (hkl : k.length < 2 ^ 32)
    (hsb : ∀ s ∈ t.root.seps, s.1.length < 2 ^ 32 ∧ s.2 < 2 ^ 64)
    (hdec : ∀ r, decodeEntry decomp (some (storedForm cp.cmp cp.threshold (headerBytes r 0))) =
      .ok (some (headerBytes r 0)))
    (hbv : (c.tables (newTier cp c v)).filled +
      numParts (c.tables (newTier cp c v)) .noHash (storedForm cp.cmp cp.threshold v).1 ≤ 2 ^ 56)
    (hspace : SpaceOk cp c
      (numParts (c.tables (newTier cp c v)) .noHash (storedForm cp.cmp cp.threshold v).1)
      (fun va => ⟨insertAtL t.root.seps (C04.position t.root.seps k).2 (k, va),
        List.replicate (t.root.seps.length + 1) 0⟩)) :
    ∃ c3 va, physInsertAbsent decomp cp c k v = .ok (some c3) ∧
      JointInv decomp c3 (C04.applyChanges t [.set k va]).1 ∧
      (∀ tier, SameCfg (tableOfTier c3.rc tier) (c3.tables tier)) ∧
      (C04.applyChanges t [.set k va]).1.toList = C04.put t.toList k va ∧
      physGetRaw decomp c3 k = .ok (some (storedForm cp.cmp cp.threshold v)) ∧
      ∀ k', physGet decomp c3 k' =
        (C04.lookup (C04.put t.toList k va) k').elim (.ok none) (valueAt decomp c3) := by
  obtain ⟨c3, va, h1, h2, h3, h4⟩ :=
    tx_insert_root_leaf decomp cp c t k v hcfg hj hd hne hk hlen hkl hsb hdec hbv hspace
  have hti : C04.TreeInv t := hj.2.1
  obtain ⟨_, hlist, hti'⟩ := C04.C04_change_refines t [.set k va] hti
  have hlist' : (C04.applyChanges t [.set k va]).1.toList = C04.put t.toList k va := by
    rw [hlist]; rfl
  refine ⟨c3, va, h1, h2, h3, hlist', ?_, ?_⟩
  · obtain ⟨hw, _⟩ := (C04.treeInvB_iff _).mp hti'
    rw [(R8_get decomp c3 _ h2.1 k).2.2, C04.nodeGet_spec _ _ hw.1 hw.2 k]
    have : C04.lookup (C04.applyChanges t [.set k va]).1.toList k = some va := by
      rw [hlist', C04.lookup_put]; simp
    unfold C04.Tree.toList at this
    rw [this]
    exact h4
  · intro k'
    rw [R8_get_lookup decomp c3 _ h2.1 hti' k', hlist']

/-- R8_tx_remove_root_leaf.  The whole transaction `Dereference(k)` (column not ref-counted) for a
key held by a root leaf (header depth 0) that keeps at least `ORDER/2` separators (no rebalance), as
`write_plan` runs it (`physRemoveLeafKey`: value entry freed, leaf written back in place or at a new
address - it shrinks, so it usually changes tier -, header entry rewritten if the root moved; replayed
against the real crate by `c04b phys del`).  It succeeds; the joint invariant holds for the tree of
the abstract `write_plan`, whose enumeration is `del (toList t) k`: the freed value slot is on the
free list, nothing leaks; the physical `get` of every key is the lookup in that enumeration (`k`
itself: none).  No hypothesis about the final column. -/
theorem R8_tx_remove_root_leaf (decomp : Bytes → Option Bytes) (cp : Cmp) (c : PCol)
    (t : C04.Tree Nat) (k : Key)
    (hcfg : ∀ tier, SameCfg (tableOfTier c.rc tier) (c.tables tier))
    (hj : JointInv decomp c t) (hd : t.depth = 0)
    (hk : (C04.position t.root.seps k).1 = true) (hlen : C04.MIDDLE < t.root.seps.length)
    (hsb : ∀ s ∈ t.root.seps, s.1.length < 2 ^ 32 ∧ s.2 < 2 ^ 64)
    (hdec : ∀ r, decodeEntry decomp (some (storedForm cp.cmp cp.threshold (headerBytes r 0))) =
      .ok (some (headerBytes r 0)))
    (hspace : SpaceOk cp c 0
      (fun _ => ⟨t.root.seps.eraseIdx (C04.position t.root.seps k).2,
        List.replicate (t.root.seps.length + 1) 0⟩)) :
    ∃ c3, physRemoveLeafKey decomp cp c k = .ok (some c3) ∧
      JointInv decomp c3 (C04.applyChanges t [.del k]).1 ∧
      (∀ tier, SameCfg (tableOfTier c3.rc tier) (c3.tables tier)) ∧
      (C04.applyChanges t [.del k]).1.toList = C04.del t.toList k ∧
      ∀ k', physGet decomp c3 k' =
        (C04.lookup (C04.del t.toList k) k').elim (.ok none) (valueAt decomp c3) := by
  obtain ⟨c3, h1, h2, h3⟩ := tx_remove_root_leaf decomp cp c t k hcfg hj hd hk hlen hsb hdec hspace
  have hti : C04.TreeInv t := hj.2.1
  obtain ⟨_, hlist, hti'⟩ := C04.C04_change_refines t [.del k] hti
  have hlist' : (C04.applyChanges t [.del k]).1.toList = C04.del t.toList k := by
    rw [hlist]; rfl
  refine ⟨c3, h1, h2, h3, hlist', fun k' => ?_⟩
  rw [R8_get_lookup decomp c3 _ h2.1 hti' k', hlist']

/-- R8_tx_move_root_leaf (the tier-moving variant of `R8_set_existing`, at `JointInv` level).  The
whole transaction `Set(k, v)` for a key held by a root leaf (header depth 0) whose new stored form
goes to ANOTHER tier than the old value entry, as `write_plan` runs it (`physSetExisting` with
`moved = true`: old value entry freed, new entry in the new tier, the leaf rewritten AT ITS ADDRESS
with the new value address - proved, not assumed: the encoding of a node keeps its length when a value
address changes, `encodeNode_length_keys`, so the node entry keeps its tier; replayed against the real
crate by `c04b phys put`).  The joint invariant holds for the tree of the abstract `write_plan`, the
physical `get` of `k` returns the stored form of `v`, every `get` is the lookup in `put (toList t) k va'`.
`hroot`: the root entry sits in the tier of the re-encoding of the node it decodes to. -/
theorem R8_tx_move_root_leaf (decomp : Bytes → Option Bytes) (cp : Cmp) (c : PCol)
    (t : C04.Tree Nat) (k : Key) (v : Bytes)
    (hcfg : ∀ tier, SameCfg (tableOfTier c.rc tier) (c.tables tier))
    (hj : JointInv decomp c t) (hd : t.depth = 0)
    (hk : (C04.position t.root.seps k).1 = true)
    (hτv : ∀ x, t.root.seps[(C04.position t.root.seps k).2]? = some (k, x) →
      Address.size_tier x ≠ newTier cp c v)
    (hsb : ∀ s ∈ t.root.seps, s.1.length < 2 ^ 32 ∧ s.2 < 2 ^ 64)
    (hroot : ∀ root n, root ∈ rootNodes decomp c → fetchNode decomp c root = .ok n →
      Address.size_tier root = newTier noCompression c (C04.encodeNode n))
    (hbv : (c.tables (newTier cp c v)).filled +
      numParts (c.tables (newTier cp c v)) .noHash (storedForm cp.cmp cp.threshold v).1 ≤ 2 ^ 56)
    (hspace : SpaceOk cp c
      (numParts (c.tables (newTier cp c v)) .noHash (storedForm cp.cmp cp.threshold v).1)
      (fun va' => ⟨t.root.seps.set (C04.position t.root.seps k).2 (k, va'),
        List.replicate (t.root.seps.length + 1) 0⟩)) :
    ∃ c2 va', physSetExisting decomp cp c k v = .ok (some (c2, true)) ∧
      JointInv decomp c2 (C04.applyChanges t [.set k va']).1 ∧
      (∀ tier, SameCfg (tableOfTier c2.rc tier) (c2.tables tier)) ∧
      (C04.applyChanges t [.set k va']).1.toList = C04.put t.toList k va' ∧
      physGetRaw decomp c2 k = .ok (some (storedForm cp.cmp cp.threshold v)) ∧
      ∀ k', physGet decomp c2 k' =
        (C04.lookup (C04.put t.toList k va') k').elim (.ok none) (valueAt decomp c2) := by
  obtain ⟨c2, va', h1, h2, h3, h4⟩ :=
    tx_move_root_leaf decomp cp c t k v hcfg hj hd hk hτv hsb hroot hbv hspace
  have hti : C04.TreeInv t := hj.2.1
  obtain ⟨_, hlist, hti'⟩ := C04.C04_change_refines t [.set k va'] hti
  have hlist' : (C04.applyChanges t [.set k va']).1.toList = C04.put t.toList k va' := by
    rw [hlist]; rfl
  refine ⟨c2, va', h1, h2, h3, hlist', ?_, ?_⟩
  · obtain ⟨hw, _⟩ := (C04.treeInvB_iff _).mp hti'
    rw [(R8_get decomp c2 _ h2.1 k).2.2, C04.nodeGet_spec _ _ hw.1 hw.2 k]
    have : C04.lookup (C04.applyChanges t [.set k va']).1.toList k = some va' := by
      rw [hlist', C04.lookup_put]; simp
    unfold C04.Tree.toList at this
    rw [this]
    exact h4
  · intro k'
    rw [R8_get_lookup decomp c2 _ h2.1 hti' k', hlist']

/-! ## R8_tx_partial -/

/-- One primitive step of a transaction on the column with its owner list. -/
inductive PStep : PCol × List Nat → PCol × List Nat → Prop where
  | insert (cp : Cmp) (c c' : PCol) (own : List Nat) (v : Bytes) (a : Nat) :
      physWriteNew cp c v = .ok (c', a) →
      (c.tables (newTier cp c v)).filled +
        numParts (c.tables (newTier cp c v)) .noHash (storedForm cp.cmp cp.threshold v).1 ≤ 2 ^ 56 →
      PStep (c, own) (c', a :: own)
  | replace (cp : Cmp) (c c' : PCol) (own : List Nat) (a : Nat) (v : Bytes) (r : Option Nat) :
      a ∈ own → physWriteExisting cp c a v = .ok (c', r) →
      (c.tables (Address.size_tier a)).filled ≤ 2 ^ 64 →
      (c.tables (newTier cp c v)).filled +
        numParts (c.tables (newTier cp c v)) .noHash (storedForm cp.cmp cp.threshold v).1 ≤ 2 ^ 56 →
      PStep (c, own) (c', r.getD a :: own.erase a)
  | remove (c c' : PCol) (own : List Nat) (a : Nat) :
      a ∈ own → physRemove c a = .ok c' → (c.tables (Address.size_tier a)).filled ≤ 2 ^ 64 →
      PStep (c, own) (c', own.erase a)

inductive PSteps : PCol × List Nat → PCol × List Nat → Prop where
  | nil (s) : PSteps s s
  | cons (s1 s2 s3) : PStep s1 s2 → PSteps s2 s3 → PSteps s1 s3

theorem PStep.inv {s s' : PCol × List Nat} (h : PStep s s') (hi : ColInv s.1 s.2) :
    ColInv s'.1 s'.2 := by
  cases h with
  | insert cp c c' own v a hw hb =>
    obtain ⟨c2, a2, e, _, _, h4, _⟩ := step_insert cp c own v hi hb
    rw [hw] at e
    obtain ⟨rfl, rfl⟩ := Prod.mk.inj (Except.ok.inj e)
    exact h4
  | replace cp c c' own a v r ha hw hb1 hb2 =>
    have hi' := hi.perm (List.perm_cons_erase ha)
    by_cases hτ : Address.size_tier a = newTier cp c v
    · obtain ⟨c2, e, _, h3, _⟩ := step_replace cp c a _ v hi' hτ hb2
      rw [hw] at e
      obtain ⟨rfl, rfl⟩ := Prod.mk.inj (Except.ok.inj e)
      exact h3
    · obtain ⟨c2, na, e, _, _, h4, _⟩ := step_move cp c a _ v hi' hτ hb1 hb2
      rw [hw] at e
      obtain ⟨rfl, rfl⟩ := Prod.mk.inj (Except.ok.inj e)
      exact h4
  | remove c c' own a ha hw hb =>
    have hi' := hi.perm (List.perm_cons_erase ha)
    obtain ⟨c2, e, h2, _⟩ := step_remove c a _ hi' hb
    rw [hw] at e
    obtain rfl := Except.ok.inj e
    exact h2

/-- Every sequence of primitive steps keeps the per-tier slot invariant for the tracked owners. -/
theorem R8_steps_inv {s s' : PCol × List Nat} (h : PSteps s s') (hi : ColInv s.1 s.2) :
    ColInv s'.1 s'.2 := by
  induction h with
  | nil => exact hi
  | cons s1 s2 s3 h12 _ ih => exact ih (h12.inv hi)

/-- R8_tx_partial.  A transaction run as primitive steps from a column satisfying the joint
invariant: IF the final column's abstraction is a tree `t'` satisfying TreeInv whose owners are
(a permutation of) the tracked owners - hypothesis `hfinal`, what `write_sorted_changes` would have
to be shown to achieve for the tree of `C04b_batch_refines` - THEN the joint invariant holds after
the transaction: TreeInv and per-tier SlotInv together, no unreachable node, no leaked slot. -/
theorem R8_tx_partial (decomp : Bytes → Option Bytes) (c c' : PCol) (t t' : C04.Tree Nat)
    (own' : List Nat)
    (hcfg : ∀ tier, SameCfg (tableOfTier c.rc tier) (c.tables tier))
    (hj : JointInv decomp c t)
    (hsteps : PSteps (c, owners decomp c t) (c', own'))
    (hfinal : absTree decomp c' = some t' ∧ C04.TreeInv t' ∧ own'.Perm (owners decomp c' t')) :
    JointInv decomp c' t' := by
  have hci := ((jointInv_iff decomp c t hcfg).mp hj).2.2
  have hci' := R8_steps_inv hsteps hci
  exact (jointInv_iff decomp c' t' hci'.cfg).mpr ⟨hfinal.1, hfinal.2.1, hci'.perm hfinal.2.2⟩

/-! ## non-vacuity: a column built by the plan functions (header, one value, one leaf node) -/

/-- fresh column: `BTreeTable::open` writes the header `(NULL_ADDRESS, 0)`; then the value
`[7,7,7]`, a leaf holding key `[1,2]`, the header rewritten to point at the leaf -/
def exCol : Option (PCol × Nat × Nat) :=
  match physWriteNew noCompression (PCol.empty false) (headerBytes 0 0) with
  | .ok (c0, _) =>
    match physWriteValue noCompression c0 none [7, 7, 7] with
    | .ok (c1, some va) =>
      match physWriteNode c1 ⟨[([1, 2], va)], [0, 0]⟩ none with
      | .ok (c2, some na) =>
        match physSetHeader noCompression c2 na 0 with
        | .ok (c3, none) => some (c3, va, na)
        | _ => none
      | _ => none
    | _ => none
  | _ => none

def exDecomp : Bytes → Option Bytes := fun _ => none

def okOf {α : Type} : Except PErr α → Option α
  | .ok x => some x
  | .error _ => none

/-- the header lands at `HEADER_ADDRESS`, the joint invariant holds, `get` finds the value -/
example : (exCol.map fun r => jointCheck exDecomp r.1) = some true := by decide +kernel
example : (exCol.map fun r => okOf (physGet exDecomp r.1 [1, 2])) = some (some (some [7, 7, 7])) := by
  decide +kernel
example : (exCol.map fun r => okOf (physGet exDecomp r.1 [1])) = some (some none) := by
  decide +kernel
example : (exCol.map fun r => okOf (physHeader exDecomp r.1) == some (r.2.2, 0)) = some true := by
  decide +kernel

example : ∃ c t, JointInv exDecomp c t ∧ t.toList.length = 1 := by
  have h : (exCol.map fun r => jointCheck exDecomp r.1) = some true := by decide +kernel
  cases hc : exCol with
  | none => rw [hc] at h; simp at h
  | some r =>
    rw [hc] at h
    obtain ⟨t, ht⟩ := R8_jointCheck_sound exDecomp r.1 (by simpa using h)
    have hlen : (exCol.map fun r => (absTree exDecomp r.1).map (·.toList.length)) = some (some 1) := by
      decide +kernel
    rw [hc] at hlen
    have : (absTree exDecomp r.1).map (·.toList.length) = some 1 := by simpa using hlen
    rw [ht.1] at this
    exact ⟨r.1, t, ht, by simpa using this⟩

/-- the whole transaction on the example column: `Set([1,2], [9,9,9,9])` (same tier), then the
joint check again and the new value -/
def exCol2 : Option PCol :=
  match exCol with
  | some (c, _, _) =>
    match physSetExisting exDecomp noCompression c [1, 2] [9, 9, 9, 9] with
    | .ok (some (c2, false)) => some c2
    | _ => none
  | none => none

example : (exCol2.map fun c => jointCheck exDecomp c) = some true := by decide +kernel
example : (exCol2.map fun c => okOf (physGet exDecomp c [1, 2])) = some (some (some [9, 9, 9, 9])) := by
  decide +kernel

/-- non-vacuity of the `R8_tx_*` cases on the example column (a root leaf holding `[1,2]`): an
absent key inserted (the leaf grows, changes tier, the header follows), five more, one removed,
one value moved to another tier; the joint check holds after each, `get` sees the changes -/
def exIns (c : Option PCol) (k : Key) (v : Bytes) : Option PCol :=
  match c with
  | some c => match physInsertAbsent exDecomp noCompression c k v with
    | .ok (some c') => some c'
    | _ => none
  | none => none

def exCol3 : Option PCol := exIns (exCol.map (·.1)) [3] [5, 5]
def exCol4 : Option PCol :=
  exIns (exIns (exIns (exIns exCol3 [4] [6]) [0] [7]) [2] [8]) [9, 9] [1]
def exCol5 : Option PCol :=
  match exCol4 with
  | some c => match physRemoveLeafKey exDecomp noCompression c [3] with
    | .ok (some c') => some c'
    | _ => none
  | none => none
def exCol6 : Option PCol :=
  match exCol5 with
  | some c => match physSetExisting exDecomp noCompression c [4] (List.replicate 100 3) with
    | .ok (some (c', true)) => some c'
    | _ => none
  | none => none

example : (exCol3.map fun c => jointCheck exDecomp c) = some true := by decide +kernel
example : (exCol3.map fun c => okOf (physGet exDecomp c [3])) = some (some (some [5, 5])) := by
  decide +kernel
example : (exCol5.map fun c => jointCheck exDecomp c) = some true := by decide +kernel
example : (exCol5.map fun c => okOf (physGet exDecomp c [3])) = some (some none) := by decide +kernel
example : (exCol6.map fun c => jointCheck exDecomp c) = some true := by decide +kernel
example : (exCol6.map fun c => okOf (physGet exDecomp c [4])) =
    some (some (some (List.replicate 100 3))) := by decide +kernel

/-! ### audit -/

#print axioms R8_abs_frame
#print axioms R8_abs_header
#print axioms R8_get
#print axioms R8_get_lookup
#print axioms R8_step_insert
#print axioms R8_step_replace
#print axioms R8_step_move
#print axioms R8_step_remove
#print axioms R8_plan_functions
#print axioms R8_header_fetch
#print axioms R8_node_stored
#print axioms R8_node_fetch
#print axioms R8_node_write_new
#print axioms R8_node_write_inplace
#print axioms R8_owners_distinct
#print axioms R8_joint_meaning
#print axioms R8_joint_distinct
#print axioms R8_joint_partition
#print axioms R8_joint_exclusive
#print axioms R8_jointCheck_sound
#print axioms R8_value_replace
#print axioms R8_set_existing
#print axioms R8_tx_insert_root_leaf
#print axioms R8_tx_remove_root_leaf
#print axioms R8_tx_move_root_leaf
#print axioms R8_steps_inv
#print axioms R8_tx_partial

end Pdb.BTreePhys
