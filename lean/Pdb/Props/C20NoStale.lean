/-
C20 and "no stale index entry": the physical index walk (`HashColumn::iter_index_tables`, model
`Pdb.Migrate.walkPhys`) on a dumped column that the Lean checker `checkNoStale` accepts
(driver command `t2 nostale`, soundness `T2_checkNoStale_sound`).

`physOfDump d` is the walk's view of the dump: the index tables OLDEST first (the dump lists them
in search order: current table first, then the queue oldest first), every entry as (key bits
63..14 recovered from page and partial key, address); a slot is the stored tail of the live value
at that address (values are not dumped: "", count 1).

  * `C20_walk_nostale_dump`  on an accepted dump the walk does not fail (`walkPhys = some ..`: no
                             `Corruption("Missing indexed value")`), `PhysCol.NoStale` holds for
                             the owner map read off the entries, and EVERY reported item is a live
                             value under the key bits of its owner (`C20_walk_only_written_keys`):
                             `C20_walk_stale_witness` cannot occur.
  * `C20_walk_complete_notail` / `C20_walk_dest_eq_source_notail`  the physical walk on ANY `PhysCol`
                             satisfying `PhysCol.InvN` (one live slot per KEY instead of one per key
                             tail: no A-tail) does not fail, reports exactly the keys `get` finds,
                             each once, and migration gives destination = source
  * `C20_walk_exact_notail`  for every reachable state `s'` of the fixed index model
                             (`NoStale_run` + `AbsN` + `Prog`, Pdb/Props/C09NoStale.lean), with
                             `physOf s'` = all index tables oldest first in walk order: the walk does
                             not fail, reports every live key of `spec` exactly once with its value
                             and count 1, and nothing else.  WITHOUT A-tail.
  * `C20_migrate_reachable_notail`  composed with the migration theorem: for a reachable source
                             state, destination cell = `expectCell` of the source's `spec` value
-/
import Pdb.Props.C20
import Pdb.Props.C14Dump
import Pdb.Props.C09NoStale
import Pdb.Proofs.C20Bridge

namespace Pdb.DumpCheck
open Pdb.Gen Pdb.Index Pdb.Migrate

/-- the physical walk's view of a dumped hash column -/
def physOfDump (d : ColumnDump) : PhysCol Nat Nat Nat String :=
  { tables := (d.index.tail ++ d.index.take 1).map (fun x =>
      x.entries.map (fun y => (visOf x.bits y.1 y.2.2, Entry.address y.2.2 x.bits)))
    slot := fun a => ((colOf d).valAt a).map (fun sl => (sl.tail, sl.val, 1)) }

theorem physOfDump_mem (d : ColumnDump) (t : List (PEntry Nat Nat)) (ht : t ∈ (physOfDump d).tables)
    (e : PEntry Nat Nat) (he : e ∈ t) :
    ∃ x ∈ d.index, ∃ y ∈ x.entries, e = (visOf x.bits y.1 y.2.2, Entry.address y.2.2 x.bits) := by
  simp only [physOfDump, List.mem_map] at ht
  obtain ⟨x, hx, rfl⟩ := ht
  simp only [List.mem_map] at he
  obtain ⟨y, hy, rfl⟩ := he
  refine ⟨x, ?_, y, hy, rfl⟩
  rcases List.mem_append.1 hx with h | h
  · exact List.mem_of_mem_tail h
  · exact List.mem_of_mem_take h

/-- On a dump without stale entries the index walk `migrate` relies on does not fail and reports
only live values under the key bits of the key that owns the slot. -/
theorem C20_walk_nostale_dump (d : ColumnDump) (h : checkNoStale d = true) :
    walkPhys (physOfDump d) = some (walkItems (physOfDump d)) ∧
    (physOfDump d).NoStale (fun a => (ownersOf d.index).get a) ∧
    ∀ k v n, (k, n, v) ∈ walkItems (physOfDump d) →
      ∃ a, (ownersOf d.index).get a = some k.1 ∧ (physOfDump d).slot a = some (k.2, v, n) := by
  have ok := nostaleReason_none d ((checkNoStale_iff d).1 h)
  have hfine : ∀ t ∈ (physOfDump d).tables, ∀ e ∈ t,
      ((physOfDump d).slot e.2).isSome = true ∧ (ownersOf d.index).get e.2 = some e.1 := by
    intro t ht e he
    obtain ⟨x, hx, y, hy, rfl⟩ := physOfDump_mem d t ht e he
    have hf := ok.fine x hx y hy
    simp only [entryFine, Bool.and_eq_true] at hf
    obtain ⟨⟨hl, ho⟩, _⟩ := hf
    constructor
    · unfold entryLive at hl
      simp only [physOfDump]
      cases htl : (colOf d).tailAt (Entry.address y.2.2 x.bits) with
      | none => simp [htl] at hl
      | some tl =>
        obtain ⟨v, hv⟩ := (tailAt_eq_some (colOf d) _ tl).1 htl
        simp [hv]
    · unfold entryOwner at ho
      simpa using ho
  have hns : (physOfDump d).NoStale (fun a => (ownersOf d.index).get a) :=
    fun t ht e he => (hfine t ht e he).2
  refine ⟨?_, hns, fun k v n hk => C20_walk_only_written_keys (physOfDump d) _ hns k v n hk⟩
  simp [walkPhys, walkOk_of_live (physOfDump d) (fun t ht e he => (hfine t ht e he).1)]

/- non-vacuity: the dump of the real crate used in C14Dump, with a queued table -/
example : walkPhys (physOfDump exColumnQ) = some (walkItems (physOfDump exColumnQ)) :=
  (C20_walk_nostale_dump exColumnQ (by decide +kernel)).1
example : (walkItems (physOfDump exColumnQ)).length = 3 := by decide +kernel

end Pdb.DumpCheck

namespace Pdb.Migrate
open Pdb Pdb.Gen

section
variable {P A T V : Type} [DecidableEq P] [DecidableEq A] [DecidableEq T]

/-- `C20_walk_complete` without A-tail: under `InvN` (one live slot per key, no stale entry, no
duplicate entry in a table) the walk the code performs does not fail and reports exactly the keys
`get` finds, with their counts and values, each once. -/
theorem C20_walk_complete_notail (p : PhysCol P A T V) (h : p.InvN) :
    walkPhys p = some (walkItems p) ∧
    (∀ k v n, (k, n, v) ∈ walkItems p ↔ p.content k = some (v, n)) ∧
    ((walkItems p).map (·.1)).Nodup := by
  refine ⟨by simp [walkPhys, walkOk_of_live p h.live], ?_, walkItems_keys_nodup_N p h⟩
  intro k v n
  rw [mem_walkItems, content_eq_some_iff_N p h]

/-- `C20_walk_dest_eq_source` without A-tail. -/
theorem C20_walk_dest_eq_source_notail (p : PhysCol P A T V) (h : p.InvN) (dstKind : Kind)
    (items : List (Item (P × T) V)) (hw : walkPhys p = some items) (k : P × T) :
    migrateWith items setsOf dstKind k = expectCell dstKind (p.content k) := by
  have : items = walkItems p := by
    have h1 := (C20_walk_complete_notail p h).1
    rw [h1] at hw
    exact (Option.some.inj hw).symm
  rw [this]
  exact walk_dest_eq_N p h dstKind k

end
end Pdb.Migrate

namespace Pdb.Index
open Pdb.Gen Pdb.IndexPage Pdb.Migrate

/-- an entry showing the bits of the well-formed key `k` addresses a slot with `k`'s tail, value
`v`, count `n`  iff  `n = 1` and the abstract map holds `v` for `k` -/
theorem physOf_item_iff {s : Col} {m : Key → Option Val} (hS : Shape s) (hA : AbsN s m)
    (k : Key) (hk : KeyWF k) (v : Val) (n : Nat) :
    (∃ e ∈ (physOf s).tables.flatten, e.1 = vis k.pre ∧ (physOf s).slot e.2 = some (k.tail, v, n)) ↔
      (n = 1 ∧ m k = some v) := by
  constructor
  · rintro ⟨e, he, h1, h2⟩
    obtain ⟨kp, hkp, hv, hE⟩ := physOf_entry hS e he
    simp only [physOf] at h2
    cases hva : s.valAt e.2 with
    | none => rw [hva] at h2; cases h2
    | some sl =>
      rw [hva] at h2
      simp only [Option.map_some, Option.some.injEq, Prod.mk.injEq] at h2
      obtain ⟨sl1, sl2⟩ := sl
      simp only at h2
      obtain ⟨r1, r2, r3⟩ := h2
      subst r1; subst r2
      refine ⟨r3.symm, (hA.abs k hk _).2 ⟨e.2, hva, ?_⟩⟩
      exact Ent.of_vis hS hkp hk.pre_lt (hv.symm.trans h1) hE
  · rintro ⟨rfl, hm⟩
    obtain ⟨a, ha, t, ht, hh⟩ := (hA.abs k hk v).1 hm
    refine ⟨(vis k.pre, a), (physOf_mem_flatten s _).2 ⟨t, ht, ?_⟩, rfl, ?_⟩
    · exact (Table.mem_enum (hS.wf t ht) _ _).2 ⟨k.pre, hk.pre_lt, rfl, hh⟩
    · simp [physOf, ha]

/-- C20 on reachable states WITHOUT A-tail: the index walk over ALL index tables (queued ones
oldest first, then the current one; an entry is skipped iff an older table holds the same key bits
with the same address) of a state reached by ANY history of the fixed code does not fail, reports
no key twice, reports every live key of the abstract map `spec` with its value (count 1), and
reports nothing else: every item is a well-formed key that `spec` holds, with that value. -/
theorem C20_walk_exact_notail (cfg : Cfg) (hex : cfg.exact = true) (hgrow : cfg.growOnMove = true)
    (hpurge : cfg.purge = true) (b0 : Nat) (hb : 16 ≤ b0 ∧ b0 ≤ 49) (acts : List Action)
    (hact : ∀ a ∈ acts, ActWF a) (hbound : AllBounded (Col.init cfg b0) acts) (s' : Col)
    (hrun : runA (Col.init cfg b0) acts = .ok s') :
    (physOf s').InvN ∧
    walkPhys (physOf s') = some (walkItems (physOf s')) ∧
    ((walkItems (physOf s')).map (·.1)).Nodup ∧
    (∀ k, KeyWF k → ∀ v n, ((vis k.pre, k.tail), n, v) ∈ walkItems (physOf s') ↔
      (n = 1 ∧ spec (fun _ => none) acts k = some v)) ∧
    (∀ kk n v, (kk, n, v) ∈ walkItems (physOf s') →
      ∃ k, KeyWF k ∧ kk = (vis k.pre, k.tail) ∧ n = 1 ∧ spec (fun _ => none) acts k = some v) := by
  have hR := C09_run_inv_notail cfg hex hgrow hpurge b0 hb acts hact hbound s' hrun
  have hS := hR.good.shape
  have hN := hR.good.ns
  have hI := physOf_invN hS hN hR.abs
  obtain ⟨w1, _, w3⟩ := C20_walk_complete_notail (physOf s') hI
  refine ⟨hI, w1, w3, fun k hk v n => ?_, fun kk n v hmem => ?_⟩
  · rw [mem_walkItems]
    exact physOf_item_iff hS hR.abs k hk v n
  · obtain ⟨e, he, h1, h2⟩ := (mem_walkItems (physOf s') kk v n).1 hmem
    obtain ⟨kp, hkp, hv, t, ht, hh⟩ := physOf_entry hS e he
    obtain ⟨tl, htl, hbits⟩ := hN.live t ht kp e.2 hkp hh
    obtain ⟨hwf, hvk⟩ := keyOf_wf kp tl hkp hbits
    have hkt : kk.2 = tl := by
      simp only [physOf] at h2
      obtain ⟨vv, hvv⟩ := (tailAt_eq_some s' e.2 tl).1 htl
      rw [hvv] at h2
      simp only [Option.map_some, Option.some.injEq, Prod.mk.injEq] at h2
      exact h2.1.symm
    have hkk : kk = (vis (keyOf kp tl).pre, (keyOf kp tl).tail) := by
      apply Prod.ext
      · show kk.1 = vis (keyOf kp tl).pre
        rw [hvk, ← h1, hv]
      · exact hkt
    have hitem := (physOf_item_iff hS hR.abs (keyOf kp tl) hwf v n).1
      ⟨e, he, by rw [hvk]; exact hv, by rw [h2, hkt]; rfl⟩
    exact ⟨keyOf kp tl, hwf, hkk, hitem.1, hitem.2⟩

/-- `get` of the walk's view = `spec`, and migration of a reachable source state: the destination
cell of every well-formed key is `expectCell` of the source's abstract value (count 1). -/
theorem C20_migrate_reachable_notail (cfg : Cfg) (hex : cfg.exact = true)
    (hgrow : cfg.growOnMove = true) (hpurge : cfg.purge = true) (b0 : Nat) (hb : 16 ≤ b0 ∧ b0 ≤ 49)
    (acts : List Action) (hact : ∀ a ∈ acts, ActWF a) (hbound : AllBounded (Col.init cfg b0) acts)
    (s' : Col) (hrun : runA (Col.init cfg b0) acts = .ok s') (dstKind : Kind)
    (items : List (Item (Nat × Nat) Val)) (hw : walkPhys (physOf s') = some items)
    (k : Key) (hk : KeyWF k) :
    (physOf s').content (vis k.pre, k.tail) = (spec (fun _ => none) acts k).map (fun v => (v, 1)) ∧
    migrateWith items setsOf dstKind (vis k.pre, k.tail) =
      expectCell dstKind ((spec (fun _ => none) acts k).map (fun v => (v, 1))) := by
  have hR := C09_run_inv_notail cfg hex hgrow hpurge b0 hb acts hact hbound s' hrun
  have hI := physOf_invN hR.good.shape hR.good.ns hR.abs
  have hc : (physOf s').content (vis k.pre, k.tail) =
      (spec (fun _ => none) acts k).map (fun v => (v, 1)) := by
    cases hcont : (physOf s').content (vis k.pre, k.tail) with
    | some c =>
      obtain ⟨v, n⟩ := c
      have := (physOf_item_iff hR.good.shape hR.abs k hk v n).1
        ((content_eq_some_iff_N (physOf s') hI (vis k.pre, k.tail) v n).1 hcont)
      rw [this.2, this.1]; rfl
    | none =>
      cases hsp : spec (fun _ => none) acts k with
      | none => rfl
      | some v =>
        have := (content_eq_some_iff_N (physOf s') hI (vis k.pre, k.tail) v 1).2
          ((physOf_item_iff hR.good.shape hR.abs k hk v 1).2 ⟨rfl, hsp⟩)
        rw [hcont] at this; cases this
  refine ⟨hc, ?_⟩
  rw [← hc]
  exact C20_walk_dest_eq_source_notail (physOf s') hI dstKind items hw _

/-- non-vacuity: the twin history of `C09_twin_tails_readable` (two keys with EQUAL tails): the
walk over the reached state reports the surviving twin with its latest value, not the removed one -/
example : ∃ s1, runA (Col.init ⟨true, true, true⟩ 16) nsActs = .ok s1 ∧
    ((vis nsK2.pre, nsK2.tail), 1, "v3") ∈ walkItems (physOf s1) ∧
    (∀ v n, ((vis nsK1.pre, nsK1.tail), n, v) ∉ walkItems (physOf s1)) ∧
    ((walkItems (physOf s1)).map (·.1)).Nodup := by
  obtain ⟨s1, h1, e1, e2, _, _⟩ := nsRun
  have r := runChecked_sound _ _ _ h1
  have hw := C20_walk_exact_notail ⟨true, true, true⟩ rfl rfl rfl 16 ⟨by decide, by decide⟩ nsActs
    nsActs_wf r.2 s1 r.1
  have l1 := C09_lookup_latest_notail ⟨true, true, true⟩ rfl rfl rfl 16 ⟨by decide, by decide⟩ nsActs
    nsActs_wf r.2 s1 r.1 nsK1 (keyWFB_sound _ (by decide))
  have l2 := C09_lookup_latest_notail ⟨true, true, true⟩ rfl rfl rfl 16 ⟨by decide, by decide⟩ nsActs
    nsActs_wf r.2 s1 r.1 nsK2 (keyWFB_sound _ (by decide))
  refine ⟨s1, r.1, (hw.2.2.2.1 nsK2 (keyWFB_sound _ (by decide)) "v3" 1).2 ⟨rfl, by rw [← l2]; exact e2⟩,
    fun v n hmem => ?_, hw.2.2.1⟩
  have := ((hw.2.2.2.1 nsK1 (keyWFB_sound _ (by decide)) v n).1 hmem).2
  rw [← l1, e1] at this; cases this

end Pdb.Index

#print axioms Pdb.DumpCheck.C20_walk_nostale_dump
#print axioms Pdb.Migrate.C20_walk_complete_notail
#print axioms Pdb.Migrate.C20_walk_dest_eq_source_notail
#print axioms Pdb.Index.C20_walk_exact_notail
#print axioms Pdb.Index.C20_migrate_reachable_notail
