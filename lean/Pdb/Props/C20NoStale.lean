/-
C20 and "no stale index entry": the physical index walk (`HashColumn::iter_index_tables`, model
`Pdb.Migrate.walkPhys`) on a dumped column that the Lean checker `checkNoStale` accepts
(driver command `t2 nostale`, soundness `T2_checkNoStale_sound`).

`physOfDump d` is the walk's view of the dump: the index tables OLDEST first (the dump lists them
in search order: current table first, then the queue oldest first), every entry as (key bits
63..14 recovered from page and partial key, address); a slot is the stored tail of the live value
at that address (values are not dumped: "", count 1).

  * `C20_walk_nostale_dump`  on an accepted dump the walk does not fail (`walkPhys = some ..`: no
                             `Corruption("Missing indexed value")`), `PhysCol.NoStale` holds for
                             the owner map read off the entries, and EVERY reported item is a live
                             value under the key bits of its owner (`C20_walk_only_written_keys`):
                             `C20_walk_stale_witness` cannot occur.
NOT proved: "exactly once" (`C20_walk_complete` needs `PhysCol.Inv.inj` = one slot per tail, i.e.
A-tail, and `nodup` of the entry lists of the dump).
-/
import Pdb.Props.C20
import Pdb.Props.C14Dump

namespace Pdb.DumpCheck
open Pdb.Gen Pdb.Index Pdb.Migrate

/-- the physical walk's view of a dumped hash column -/
def physOfDump (d : ColumnDump) : PhysCol Nat Nat Nat String :=
  { tables := (d.index.tail ++ d.index.take 1).map (fun x =>
      x.entries.map (fun y => (visOf x.bits y.1 y.2.2, Entry.address y.2.2 x.bits)))
    slot := fun a => ((colOf d).valAt a).map (fun sl => (sl.tail, sl.val, 1)) }

theorem physOfDump_mem (d : ColumnDump) (t : List (PEntry Nat Nat)) (ht : t ∈ (physOfDump d).tables)
    (e : PEntry Nat Nat) (he : e ∈ t) :
    ∃ x ∈ d.index, ∃ y ∈ x.entries, e = (visOf x.bits y.1 y.2.2, Entry.address y.2.2 x.bits) := by
  simp only [physOfDump, List.mem_map] at ht
  obtain ⟨x, hx, rfl⟩ := ht
  simp only [List.mem_map] at he
  obtain ⟨y, hy, rfl⟩ := he
  refine ⟨x, ?_, y, hy, rfl⟩
  rcases List.mem_append.1 hx with h | h
  · exact List.mem_of_mem_tail h
  · exact List.mem_of_mem_take h

/-- On a dump without stale entries the index walk `migrate` relies on does not fail and reports
only live values under the key bits of the key that owns the slot. -/
theorem C20_walk_nostale_dump (d : ColumnDump) (h : checkNoStale d = true) :
    walkPhys (physOfDump d) = some (walkItems (physOfDump d)) ∧
    (physOfDump d).NoStale (fun a => (ownersOf d.index).get a) ∧
    ∀ k v n, (k, n, v) ∈ walkItems (physOfDump d) →
      ∃ a, (ownersOf d.index).get a = some k.1 ∧ (physOfDump d).slot a = some (k.2, v, n) := by
  have ok := nostaleReason_none d ((checkNoStale_iff d).1 h)
  have hfine : ∀ t ∈ (physOfDump d).tables, ∀ e ∈ t,
      ((physOfDump d).slot e.2).isSome = true ∧ (ownersOf d.index).get e.2 = some e.1 := by
    intro t ht e he
    obtain ⟨x, hx, y, hy, rfl⟩ := physOfDump_mem d t ht e he
    have hf := ok.fine x hx y hy
    simp only [entryFine, Bool.and_eq_true] at hf
    obtain ⟨⟨hl, ho⟩, _⟩ := hf
    constructor
    · unfold entryLive at hl
      simp only [physOfDump]
      cases htl : (colOf d).tailAt (Entry.address y.2.2 x.bits) with
      | none => simp [htl] at hl
      | some tl =>
        obtain ⟨v, hv⟩ := (tailAt_eq_some (colOf d) _ tl).1 htl
        simp [hv]
    · unfold entryOwner at ho
      simpa using ho
  have hns : (physOfDump d).NoStale (fun a => (ownersOf d.index).get a) :=
    fun t ht e he => (hfine t ht e he).2
  refine ⟨?_, hns, fun k v n hk => C20_walk_only_written_keys (physOfDump d) _ hns k v n hk⟩
  simp [walkPhys, walkOk_of_live (physOfDump d) (fun t ht e he => (hfine t ht e he).1)]

/- non-vacuity: the dump of the real crate used in C14Dump, with a queued table -/
example : walkPhys (physOfDump exColumnQ) = some (walkItems (physOfDump exColumnQ)) :=
  (C20_walk_nostale_dump exColumnQ (by decide +kernel)).1
example : (walkItems (physOfDump exColumnQ)).length = 3 := by decide +kernel

end Pdb.DumpCheck

#print axioms Pdb.DumpCheck.C20_walk_nostale_dump
