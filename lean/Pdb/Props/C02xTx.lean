/-
C02xTx  A crash at any instant of the MULTITREE pipeline with MULTI-OPERATION transactions and
        ADDRESS REUSE recovers to a prefix of the accepted transactions; the database continues
        correctly (allocator included); finding F19 as a theorem.

Closes the gap named in DESIGN.md section 14 (C02: "Props/C02x.lean is about single-operation
commits with monotone addresses; crash recovery of multi-operation tree transactions with address
reuse is covered by the c02x correspondence and oracle, not by a theorem"; C10: "crash recovery of
multitree columns is not covered here").

Model: Pdb/Model/MultiTreeCrashTx.lean (`XState`, `xstep`, `xrecover`): the transaction model of
C10 (`TState`: `commit_changes` with several InsertTree / ReferenceTree / DereferenceTree, node slots
claimed at commit time from the LIFO free stack, tables changed by `process_commits` in the
planning order of `write_plan`, slots freed by dereference walks reused by later transactions)
refined with logged-vs-enacted; a log record = the absolute after-images of one processed commit
INCLUDING the table header (fill mark, free chain) as the memory allocator has it when the record is
published.  `crash n` is a COMMAND (n published records intact; every flushed one survives, the
unsynced tail may be cut anywhere), so every theorem about command lists covers histories with
earlier crashes.

Hypothesis of every theorem: `LegalX` - each committed transaction is legal when it is committed
(C10T's `DerefApart`, `DerefLive`, `LegalInOrder`, judged on the atomic heap of the accepted
transactions): a hypothesis on the INPUT.  Nothing is assumed about process / flush / enact / crash.

`atomRun v hist` is the specification: every accepted transaction applied AT ONCE, in commit
order (`specTx` of C10T), with the addresses the allocator handed out.

Theorems
  (0)  C02xTx_invariant                 `XGood` of every reachable state, crashes included
  (1)  C02xTx_recover_prefix            recovery = specification of a prefix containing everything synced
  (1') C02xTx_tx_read_back              every transaction of the prefix is a legal accepted one; its trees stored exactly
  (2)  C02xTx_idempotent                recovering the recovered database changes nothing
  (2') C02xTx_replay_absorbs            location level: any physical records, any partially written image
  (3)  C02xTx_continues                 the invariant (allocator included) after the crash and after any further history
  (4)  C02xTx_leak_exactly_F19          finding F19: the leaked slots, upper AND lower bound
  (4') C02xTx_leaked_are_lost_claims    ... are claims of exactly the lost transactions the surviving header covers
  witnesses (`decide`): C02xTx_F19_witness_fresh, C02xTx_F19_witness_reuse, TxEx.legal (hypothesis non-vacuous)
Tie to the code: driver `c02xt` (Pdb/Model/C02xTxDriver.lean) replays the `tx` cases of
harness/src/c02x.rs with `xstep`; at every crash point the prefix is computed by the real recovery
algorithm (`realAccepted`, Model/Recover.lean) from the log files of the crash image, and prefix
length, every tree, the entry count and the number of leaked slots must equal what the real
database shows.
-/
import Pdb.Proofs.C02xTxInv
import Pdb.Proofs.C02xTxClaims
import Pdb.Proofs.C02xTxReplay
import Pdb.Proofs.C02xTxHist
import Pdb.Proofs.C10TxRead
import Pdb.Props.C10

namespace Pdb.MultiTree
set_option linter.unusedSectionVars false
variable {K D : Type} [DecidableEq K]

/-- what the invariant gives about ANY state reachable by a legal command list: the memory state
    against the atomic heap `H` of the accepted transactions that were not lost -/
structure XGood (v : Variant) (c : XState K D) : Prop where
  /-- the ghost is the specification of the surviving history, and satisfies RcInv -/
  spec : c.H = atomRun v c.hist
  inv : InvR v c.H
  /-- every root / node of the specification is readable (overlay, then tables); every tree reads
      exactly as in the specification (root, data, child order), for every fuel -/
  roots : ∀ k r cnt, c.H.roots.get k = some (r, cnt) →
    c.t.viewRoot k = some r ∧
    ∀ fuel, mapOpt (readNode c.t.viewNode fuel) r.children =
      mapOpt (readNode c.H.nodes.get fuel) r.children
  nodes : ∀ a n, c.H.nodes.get a = some n → c.t.viewNode a = some n
  stored : ∀ k t, StoredTree (viewOf c.H) c.H.nodes.get k t →
    StoredTree c.t.viewRoot c.t.viewNode k t
  /-- drained: the tables ARE the specification -/
  drained : c.t.queue = [] → core c.t.heap = core c.H
  /-- allocator: the free stack has no repetition, lies below the fill mark, and NO SLOT ON IT IS
      PART OF A LIVE TREE (neither in the tables nor in the specification, i.e. not in a queued
      commit either); every node lies below the fill mark -/
  freeNodup : c.t.free.Nodup
  freeDead : ∀ a ∈ c.t.free, ¬ present c.t.heap a ∧ ¬ present c.H a ∧ a < c.t.heap.next ∧
    a ∉ queueClaimed c.t.queue
  below : ∀ a, present c.H a → a < c.t.heap.next
  /-- slot accounting with the leaks: free stack, claimed slots of queued commits, leaked slots
      and table nodes are pairwise disjoint, without repetition, and are exactly the addresses
      below the fill mark -/
  acct : Acct c.t.heap.next c.t.heap c.t.free (queueClaimed c.t.queue ++ c.leaked)

theorem XInv.good {v : Variant} {c : XState K D} (hi : XInv v c) : XGood v c := by
  have sim := hi.sim
  obtain ⟨rank, hsr⟩ := sim.inv.shape
  have sup := sim.supply
  refine ⟨hi.hH, sim.inv, ?_, sim.viewN, ?_, ?_, sup.nodup, ?_, sup.nodesBelow, sim.alloc⟩
  · intro k r cnt hg
    refine ⟨sim.viewR k r cnt hg, ?_⟩
    intro fuel
    apply mapOpt_congr
    intro x hx
    exact readNode_viewC c.H hsr.core c.t.viewNode sim.viewN fuel x
      (hsr.core.closedR k (r, cnt) hg x hx)
  · intro k t st
    exact stored_of_views c.H c.t.viewRoot c.t.viewNode sim.viewR sim.viewN k t st
  · intro hq
    have := sim.core
    rw [hq] at this
    exact this.symm
  · intro a ha
    have hnd := List.nodup_append.mp sim.alloc.nodup
    refine ⟨sim.alloc.notPresent a (List.mem_append.mpr (Or.inl ha)), sup.fresh a ha,
      sup.below a ha, ?_⟩
    intro hc
    exact hnd.2.2 a ha a (List.mem_append.mpr (Or.inl hc)) rfl

/-- (0) The invariant of every reachable state, crashes included. -/
theorem C02xTx_invariant (v : Variant) (cmds : List (XCmd K D))
    (hl : LegalX v (XState.init v) cmds) : XGood v (xrun (XState.init v) cmds) :=
  (xinv_run v cmds _ (xinv_init v) hl).good

/-- (1) PREFIX.  For every legal history of multi-operation tree transactions (with address reuse,
with earlier crashes) and every crash point `n`: with `m = nEn + kept` (enacted + surviving
records)
  (a) nothing enacted or synced is lost, `m` is a prefix length of the accepted history, the
      surviving history is that prefix;
  (b) the recovered tables (nodes, reference counts, roots) are EXACTLY the specification of the
      first `m` transactions: each transaction entirely present or absent, none present without
      all earlier ones; the specification satisfies RcInv, so all C10 / C10T theorems apply;
  (c) queue, overlay, log are empty; every root and node of the prefix is readable, every tree reads
      back exactly (root, data, child order; `XGood.roots / nodes / stored`): no node of a live tree
      is lost or overwritten by a reused address;
  (d) the recovered free stack (from the header after-image of the last surviving record) has no
      repetition and contains no slot of a live tree (`XGood.freeDead`). -/
theorem C02xTx_recover_prefix (v : Variant) (cmds : List (XCmd K D))
    (hl : LegalX v (XState.init v) cmds) (n : Nat) :
    let c := xrun (XState.init v) cmds
    let r := xstep c (.crash n)
    let m := c.nEn + kept c n
    (c.nEn + c.flushed ≤ m ∧ m ≤ c.nEn + c.logged.length ∧ m ≤ c.hist.length ∧
      r.hist = c.hist.take m ∧ r.nEn = m) ∧
    (core r.t.heap = core (atomRun v (c.hist.take m)) ∧ r.H = atomRun v (c.hist.take m) ∧
      InvR v (atomRun v (c.hist.take m))) ∧
    (r.t.queue = [] ∧ r.logged = [] ∧ r.base = r.t.heap ∧ r.baseFree = r.t.free) ∧
    XGood v r := by
  intro c r m
  have hi : XInv v c := xinv_run v cmds _ (xinv_init v) hl
  have hr : XInv v r := xinv_crash v c hi n
  have hb := kept_bounds c n hi.fl
  have hvar := hi.sim.var
  have hlen := hi.len
  have hH : r.H = atomRun v (c.hist.take m) := by
    show atomRun c.t.variant _ = _
    rw [hvar]
  refine ⟨⟨by omega, by omega, by omega, rfl, rfl⟩, ⟨?_, hH, ?_⟩, ⟨rfl, rfl, rfl, rfl⟩, hr.good⟩
  · rw [← hH]; exact hr.good.drained rfl
  · rw [← hH]; exact hr.good.inv

/-- (1') READ BACK OF THE TRANSACTIONS OF THE PREFIX.  Every entry `j` of the surviving history is a
legal ACCEPTED transaction on the specification of the entries before it (`EntryOk`), so C10T applies
to each: every tree it inserted is stored EXACTLY as supplied (root data, node data, child order,
`Existing` children = the addresses named; new nodes possibly at REUSED addresses) in the
specification right after it; and the trees of the LAST surviving transaction are readable in
exactly this form in the recovered database (for earlier ones: until a later transaction of the
prefix dereferences them - C10T_tx_RcInv's frame clauses - by `XGood.stored`). -/
theorem C02xTx_tx_read_back (v : Variant) (cmds : List (XCmd K D))
    (hl : LegalX v (XState.init v) cmds) (n : Nat) :
    let r := xstep (xrun (XState.init v) cmds) (.crash n)
    (∀ j e, r.hist[j]? = some e → EntryOk v r.hist j e ∧
      ∀ k t, Op.insert k t ∈ e.ops →
        StoredTree (viewOf (atomRun v (r.hist.take (j + 1))))
          (atomRun v (r.hist.take (j + 1))).nodes.get k t) ∧
    (∀ e, r.hist.getLast? = some e → ∀ k t, Op.insert k t ∈ e.ops →
      StoredTree r.t.viewRoot r.t.viewNode k t) := by
  intro r
  have hi : XInv v (xrun (XState.init v) cmds) := xinv_run v cmds _ (xinv_init v) hl
  have hr : XInv v r := xinv_crash v _ hi n
  have hh : HistInv v r :=
    histInv_take v _ _ (histInv_run v cmds _ (xinv_init v) (histInv_init v) hl)
  have hstored : ∀ j e, r.hist[j]? = some e → ∀ k t, Op.insert k t ∈ e.ops →
      StoredTree (viewOf (atomRun v (r.hist.take (j + 1))))
        (atomRun v (r.hist.take (j + 1))).nodes.get k t := by
    intro j e he k t hm
    obtain ⟨h1, h2, h3, h4, h5⟩ := hh j e he
    have : r.hist.take (j + 1) = r.hist.take j ++ [e] := by
      rw [List.take_add_one, he]; rfl
    rw [this, atomRun_snoc]
    exact C10T_read_back v _ e.free e.next e.ops h1 h2 h3 h4 h5 k t hm
  refine ⟨fun j e he => ⟨hh j e he, hstored j e he⟩, ?_⟩
  intro e he k t hm
  have hne : r.hist ≠ [] := by intro h0; rw [h0] at he; cases he
  have hlen : 0 < r.hist.length := List.length_pos_iff.mpr hne
  have hget : r.hist[r.hist.length - 1]? = some e := by
    rw [← he, List.getLast?_eq_getElem?]
  have := hstored _ e hget k t hm
  rw [show r.hist.length - 1 + 1 = r.hist.length by omega, List.take_length, ← hr.hH] at this
  exact hr.good.stored k t this

/-- (2) CRASH DURING RECOVERY / crash again before anything new is committed: recovering the
recovered database changes nothing - for every number of records the second crash "keeps". -/
theorem C02xTx_idempotent (v : Variant) (cmds : List (XCmd K D))
    (hl : LegalX v (XState.init v) cmds) (n n' : Nat) :
    let r := xstep (xrun (XState.init v) cmds) (.crash n)
    xstep r (.crash n') = r := by
  intro r
  have hi : XInv v (xrun (XState.init v) cmds) := xinv_run v cmds _ (xinv_init v) hl
  have hr : XInv v r := xinv_crash v _ hi n
  have hlen := hr.len
  have hk : kept r n' = 0 := by
    show min (max n' r.flushed) r.logged.length = 0
    have : r.logged.length = 0 := rfl
    omega
  have hq : r.t.queue = [] := rfl
  have hlog : r.logged = [] := rfl
  rw [hq, hlog] at hlen
  simp only [List.length_nil, Nat.add_zero] at hlen
  have htake : r.hist.take (r.nEn + 0) = r.hist := List.take_of_length_le (by omega)
  have hH := hr.hH
  have hvar := hr.sim.var
  show xrecover r (kept r n') = r
  rw [hk]
  simp only [xrecover, htake]
  have hs : snapAt r.t.variant r 0 = (r.base, r.baseFree, r.baseClaims) := by
    simp [snapAt]
  rw [hs]
  rfl

/-- (2') CRASH (j, n) AND CRASH DURING RECOVERY AT THE LEVEL OF LOCATIONS.  Log records as the
files hold them: sets of written locations (node slot / reference count / root / TABLE HEADER) with
absolute after-images (`PRec`, Pdb/Proofs/C02xTxReplay.lean); `ps` are ANY physical records of the
`i` surviving logged records (each writes at least what its step changes, with the values after
it: `PRecsOf`), `x` is ANY disk image that agrees with the enacted base outside the locations `ps`
write - the base with any part of the record being enacted already written (crash (j, n)), or
with any part of an earlier, interrupted replay.  Replaying `ps` over `x` yields exactly the
tables AND header the record-level recovery `xrecover c i` produces; and replaying everything
again after a replay that was interrupted after `k` records does too. -/
theorem C02xTx_replay_absorbs (v : Variant) (c : XState K D) (hv : c.t.variant = v) (i k : Nat)
    (ps : List (PRec K D)) (x : XLoc K → XVal K D)
    (hp : PRecsOf v (c.base, c.baseFree, c.baseClaims) (c.logged.take i) ps)
    (hx : ∀ l, (∀ p ∈ ps, ¬ p.W l) → x l = diskTbl (c.base, c.baseFree, c.baseClaims) l) :
    replayP x ps = diskTbl ((xrecover c i).base, (xrecover c i).baseFree, []) ∧
    replayP (replayP x (ps.take k)) ps = diskTbl ((xrecover c i).base, (xrecover c i).baseFree, []) := by
  have e : diskTbl ((xrecover c i).base, (xrecover c i).baseFree, []) = diskTbl (snapAt v c i) := by
    subst hv
    exact diskTbl_claims _ _ _ _
  rw [e, snapAt_eq]
  refine ⟨replayP_absorbs v _ _ ps x hp hx, replayP_absorbs v _ _ ps _ hp ?_⟩
  intro l hl
  rw [replayP_other _ _ l (fun p hp' => hl p (List.mem_of_mem_take hp'))]
  exact hx l hl

/-- (3) THE DATABASE CONTINUES: after any crash, any further legal history (more crashes included)
keeps the whole invariant: specification = surviving history, RcInv, every tree of the
specification readable exactly, and the ALLOCATOR: free stack without repetition, below the fill
mark, and never containing a slot of a live tree, although slots are reused and some are leaked. -/
theorem C02xTx_continues (v : Variant) (cmds cmds' : List (XCmd K D)) (n : Nat)
    (hl : LegalX v (XState.init v) (cmds ++ .crash n :: cmds')) :
    let r := xstep (xrun (XState.init v) cmds) (.crash n)
    XGood v r ∧ XGood v (xrun r cmds') := by
  intro r
  rw [LegalX_append] at hl
  obtain ⟨h1, h2⟩ := hl
  simp only [LegalX] at h2
  have hi : XInv v (xrun (XState.init v) cmds) := xinv_run v cmds _ (xinv_init v) h1
  have hr : XInv v r := xinv_crash v _ hi n
  exact ⟨hr.good, (xinv_run v cmds' r hr h2).good⟩

/-- the claims a header after-image covers: the ghost of the last replayed record, or of the
    enacted base -/
theorem snapFold_claims (v : Variant) (rs : List (XRec K D)) :
    ∀ x0 : Heap K D × List Addr × List Addr,
      (snapFold v x0 rs).2.2 = ((rs.getLast?).map (·.claims)).getD x0.2.2 := by
  induction rs with
  | nil => intro x0; rfl
  | cons r rs ih =>
    intro x0
    show (snapFold v (snapStep v x0 r) rs).2.2 = _
    rw [ih]
    cases rs with
    | nil => rfl
    | cons r2 rs2 =>
      rw [List.getLast?_cons_cons]
      cases h : (r2 :: rs2).getLast? with
      | none => simp at h
      | some y => rfl

/-- (4) FINDING F19, EXACTLY.  After recovery the slots that are allocated (below the fill mark)
but unreachable (not on the free stack, holding no node; nothing is queued) are EXACTLY
  * the slots leaked by earlier crashes, and
  * the `claims` the header after-image of the LAST SURVIVING record (or of the enacted base, if
    no logged record survives) covers: the slots claimed at commit time by the commits that were
    queued behind it when it was published - all of them lost by the crash (they are later than
    every surviving record) -
no other slot is lost (upper bound) and every one of these is lost (lower bound), each exactly
once.  `process` defines the ghost: `claims := queueClaimed t'.queue`. -/
theorem C02xTx_leak_exactly_F19 (v : Variant) (cmds : List (XCmd K D))
    (hl : LegalX v (XState.init v) cmds) (n : Nat) :
    let c := xrun (XState.init v) cmds
    let r := xstep c (.crash n)
    let covered := (((c.logged.take (kept c n)).getLast?).map (·.claims)).getD c.baseClaims
    r.leaked = covered ++ c.leaked ∧ r.leaked.Nodup ∧
    (∀ a, (a < r.t.heap.next ∧ a ∉ r.t.free ∧ ¬ present r.t.heap a) ↔ a ∈ r.leaked) ∧
    (∀ a, a ∈ leakedSlots r.t ↔ a ∈ r.leaked) := by
  intro c r covered
  have hi : XInv v c := xinv_run v cmds _ (xinv_init v) hl
  have hr : XInv v r := xinv_crash v c hi n
  have ac := hr.sim.alloc
  have hq : queueClaimed r.t.queue = [] := rfl
  rw [hq, List.nil_append] at ac
  have hnd := List.nodup_append.mp ac.nodup
  have hexact : ∀ a, (a < r.t.heap.next ∧ a ∉ r.t.free ∧ ¬ present r.t.heap a) ↔ a ∈ r.leaked := by
    intro a
    constructor
    · rintro ⟨h1, h2, h3⟩
      rcases (ac.cover a).mp h1 with h | h | h
      · exact absurd h h2
      · exact h
      · exact absurd h h3
    · intro h
      refine ⟨(ac.cover a).mpr (Or.inr (Or.inl h)), ?_, ac.notPresent a (List.mem_append.mpr (Or.inr h))⟩
      intro hf
      exact hnd.2.2 a hf a h rfl
  refine ⟨?_, hnd.2.1, hexact, ?_⟩
  · show (snapAt c.t.variant c (kept c n)).2.2 ++ c.leaked = covered ++ c.leaked
    rw [snapAt_eq, snapFold_claims]
  · intro a
    rw [← hexact a]
    simp only [leakedSlots, List.mem_filter, List.mem_range, Bool.and_eq_true, Bool.not_eq_true',
      List.contains_eq_mem, decide_eq_false_iff_not, hq, present]
    constructor
    · rintro ⟨h1, ⟨h2, h3⟩, _⟩
      refine ⟨h1, h2, ?_⟩
      simpa using h3
    · rintro ⟨h1, h2, h3⟩
      refine ⟨h1, ⟨h2, ?_⟩, by simp⟩
      simpa using h3

/-- (4') ... and these ARE claims of LOST transactions, for every command list (no legality
needed): with `i = kept c n` surviving logged records, `laterCs c i` are the change sets of exactly
the transactions the crash loses, in commit order (the logged records from index `i` on, then the
queue); the `covered` slots of (4) are the slots claimed (`queueClaimed`: the addresses of their
NewValue node changes) by the first `k` of them - the `k` commits that were queued behind the last
surviving record when it was published, whose claims its header after-image therefore contains.
Claims of lost transactions committed AFTER that record was published are not covered and are
not leaked (the header does not know them: the slots are free / above the fill mark again). -/
theorem C02xTx_leaked_are_lost_claims (v : Variant) (cmds : List (XCmd K D)) (n : Nat) :
    let c := xrun (XState.init v) cmds
    let i := kept c n
    let covered := (((c.logged.take i).getLast?).map (·.claims)).getD c.baseClaims
    ∃ k, k ≤ (laterCs c i).length ∧ covered = queueClaimed ((laterCs c i).take k) := by
  intro c i covered
  have hc : ClaimsInv c := claimsInv_run cmds _ (claimsInv_init v)
  have hil : i ≤ c.logged.length := by show min _ _ ≤ _; omega
  cases hi : i with
  | zero =>
    refine ⟨c.baseNq, hc.base.2, ?_⟩
    show (((c.logged.take i).getLast?).map (·.claims)).getD c.baseClaims = _
    rw [hi]
    exact hc.base.1
  | succ j =>
    have hj : j < c.logged.length := by omega
    have hget : c.logged[j]? = some c.logged[j] := List.getElem?_eq_getElem hj
    obtain ⟨h1, h2⟩ := hc.recs j _ hget
    refine ⟨c.logged[j].nq, h2, ?_⟩
    show (((c.logged.take i).getLast?).map (·.claims)).getD c.baseClaims = _
    rw [hi, getLast?_take_succ _ j hj, hget]
    exact h1

/-! ## Non-vacuity: concrete histories (`decide`) -/

namespace TxEx

def leaf (d : Nat) : NRef Nat := .new d .nil
/-- tree A: root 10 -> [leaf 11, leaf 12] -/
def tA : NewNode Nat := ⟨10, .cons (leaf 11) (.cons (leaf 12) .nil)⟩
/-- tree B: root 20 -> [leaf 21] -/
def tB : NewNode Nat := ⟨20, .cons (leaf 21) .nil⟩
/-- tree C: root 30 -> [leaf 31, leaf 32] -/
def tC : NewNode Nat := ⟨30, .cons (leaf 31) (.cons (leaf 32) .nil)⟩
/-- tree E: root 40 -> [leaf 41] -/
def tE : NewNode Nat := ⟨40, .cons (leaf 41) .nil⟩

/-- F19 with fresh slots: two inserts committed, ONE processed (its header after-image already
    covers the two slots the second commit claimed), crash with the unsynced record intact. -/
def sched1 : List (XCmd Nat Nat) :=
  [.commit [.insert 1 tA], .commit [.insert 2 tC], .process]

/-- F19 with REUSED slots and multi-operation transactions (ref-counted roots):
    tx1 = [insert 1 A, insert 2 B]: slots 0, 1 (A's leaves) and 2 (B's leaf); processed, flushed,
          enacted;
    tx2 = [dereference 1, reference 2]: processed - the walk frees A's leaves: free stack [1, 0]
          (slot 0 cleared first, slot 1 on top);
    tx3 = [insert 3 E] claims the REUSED slot 1 by popping the stack;
    tx4 = [insert 4 C, dereference 2] claims the REUSED slot 0 and the fresh slot 3;
    tx3 processed: its header after-image (fill mark 4, free stack []) covers tx4's claims;
    flush; tx4 stays queued.  Crash: tx4 is lost, slots 0 and 3 are neither free nor used. -/
def sched2 : List (XCmd Nat Nat) :=
  [.commit [.insert 1 tA, .insert 2 tB], .process, .flush, .enact,
   .commit [.dereference 1, .reference 2], .process,
   .commit [.insert 3 tE],
   .commit [.insert 4 tC, .dereference 2],
   .process, .flush]

def c1 : XState Nat Nat := xrun (XState.init .plain) sched1
def c2 : XState Nat Nat := xrun (XState.init .rcRoots) sched2
def r1 : XState Nat Nat := xstep c1 (.crash 1)
def r2 : XState Nat Nat := xstep c2 (.crash 0)

def nodeAddrs (c : XState Nat Nat) : List Nat := c.t.heap.nodes.l.map Prod.fst
def rootKeys (c : XState Nat Nat) : List Nat := c.t.heap.roots.l.map Prod.fst

end TxEx

open TxEx in
/-- the hypothesis of the theorems holds of both histories, also continued after the crash
    (evaluated through the Bool mirror `legalXB`, which the driver evaluates on every replayed
    history) -/
theorem TxEx.legal :
    LegalX .plain (XState.init .plain) (sched1 ++ .crash 1 :: [.commit [.insert 5 tB], .process]) ∧
    LegalX .rcRoots (XState.init .rcRoots)
      (sched2 ++ .crash 0 :: [.commit [.dereference 3, .insert 6 tC], .process]) :=
  ⟨(legalXB_iff _ _ _).mp (by decide), (legalXB_iff _ _ _).mp (by decide)⟩

open TxEx in
example : c1.hist.length = 2 ∧ c1.logged.length = 1 ∧ c1.t.queue.length = 1 ∧ c1.flushed = 0 := by
  decide

open TxEx in
/-- (4), lower bound shown: prefix of ONE transaction, slots 1 and 0 hold tree A's leaves, slots
    3 and 2 - claimed by the lost second transaction, covered by the first record's header (fill
    mark 4) - are allocated and unreachable: exactly the predicted leak. -/
theorem C02xTx_F19_witness_fresh :
    r1.hist.length = 1 ∧ r1.t.heap.next = 4 ∧ r1.t.free = [] ∧ rootKeys r1 = [1] ∧
    r1.leaked = [2, 3] ∧ leakedSlots r1.t = [2, 3] ∧ nodeAddrs r1 = [1, 0] := by
  decide

open TxEx in
example : c2.hist.length = 4 ∧ c2.nEn = 1 ∧ c2.logged.length = 2 ∧ c2.flushed = 2 ∧
    c2.t.queue.length = 1 := by decide

open TxEx in
/-- (4) with REUSE and multi-operation transactions (see `sched2`): the walk of tx2 frees slots 0
    and 1 (free stack [1, 0]), tx3 pops 1, tx4 pops 0 and bumps the fill mark to 4; tx3's record is
    published after that.  `crash 0` keeps the two flushed records: the recovered prefix has 3
    transactions (trees 3 and 2 live at slots 1 and 2, tree 1 dereferenced), its header says "free
    stack empty, fill mark 4", and the slots 0 (REUSED, freed by tx2 itself) and 3 claimed by the
    lost tx4 are allocated and unreachable: exactly the predicted leak. -/
theorem C02xTx_F19_witness_reuse :
    (xrun (XState.init .rcRoots) (sched2.take 6)).t.free = [1, 0] ∧
    (xrun (XState.init .rcRoots) (sched2.take 7)).t.free = [0] ∧
    (xrun (XState.init .rcRoots) (sched2.take 8)).t.free = [] ∧
    r2.hist.length = 3 ∧ r2.t.heap.next = 4 ∧ r2.t.free = [] ∧ rootKeys r2 = [3, 2] ∧
    nodeAddrs r2 = [1, 2] ∧ r2.leaked = [0, 3] ∧ leakedSlots r2.t = [0, 3] := by
  decide

namespace TxEx

theorem legal1 : LegalX .plain (XState.init .plain) sched1 :=
  ((LegalX_append _ _ _ _).mp legal.1).1
theorem legal2 : LegalX .rcRoots (XState.init .rcRoots) sched2 :=
  ((LegalX_append _ _ _ _).mp legal.2).1

/-- the theorems apply to the two histories (hypotheses established above) -/
example := C02xTx_recover_prefix .plain sched1 legal1 1
example := C02xTx_recover_prefix .rcRoots sched2 legal2 0
example := C02xTx_idempotent .rcRoots sched2 legal2 0 5
example := C02xTx_tx_read_back .rcRoots sched2 legal2 0
example := C02xTx_continues .plain sched1 [.commit [.insert 5 tB], .process] 1 legal.1
example := C02xTx_continues .rcRoots sched2 [.commit [.dereference 3, .insert 6 tC], .process] 0 legal.2
example := C02xTx_leak_exactly_F19 .rcRoots sched2 legal2 0
example := C02xTx_leaked_are_lost_claims .rcRoots sched2 0
/-- (2') applies: the minimal physical records of the two surviving records of `c2`, replayed over
    the enacted base itself (also after an interrupted replay of the first of them) -/
example := C02xTx_replay_absorbs .rcRoots c2 rfl 2 1
  (minPRecs .rcRoots (c2.base, c2.baseFree, c2.baseClaims) (c2.logged.take 2))
  (diskTbl (c2.base, c2.baseFree, c2.baseClaims)) (minPRecs_of _ _ _) (fun _ _ => rfl)
/-- in `sched2` the crash loses one transaction (tx4, queued), whose change set claims 0 and 3 -/
example : kept c2 0 = 2 ∧ (laterCs c2 2).length = 1 ∧ queueClaimed (laterCs c2 2) = [0, 3] := by
  decide

/-- after the crash of `sched2` the continuation `[dereference 3, insert 6 C]` takes slots 4 and 5
    from the fill mark (the free stack is empty when it commits; the leaked slots 0 and 3 are NOT
    handed out again), the walk of tree 3 then frees slot 1: the leak stays, the free stack stays
    disjoint from the live trees. -/
example :
    let c := xrun r2 [.commit [.dereference 3, .insert 6 tC], .process]
    c.leaked = [0, 3] ∧ leakedSlots c.t = [0, 3] ∧ c.t.heap.next = 6 ∧ c.hist.length = 4 ∧
    rootKeys c = [6, 2] ∧ c.t.free = [1] := by
  decide

end TxEx

end Pdb.MultiTree

#print axioms Pdb.MultiTree.C02xTx_invariant
#print axioms Pdb.MultiTree.C02xTx_recover_prefix
#print axioms Pdb.MultiTree.C02xTx_tx_read_back
#print axioms Pdb.MultiTree.C02xTx_idempotent
#print axioms Pdb.MultiTree.C02xTx_replay_absorbs
#print axioms Pdb.MultiTree.C02xTx_continues
#print axioms Pdb.MultiTree.C02xTx_leak_exactly_F19
#print axioms Pdb.MultiTree.C02xTx_leaked_are_lost_claims
#print axioms Pdb.MultiTree.C02xTx_F19_witness_fresh
#print axioms Pdb.MultiTree.C02xTx_F19_witness_reuse
#print axioms Pdb.MultiTree.TxEx.legal
