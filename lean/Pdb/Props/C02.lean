/-
C02  A crash at any instant recovers to a prefix of the committed transactions.

Model: P1 (Pdb/Model/Pipeline.lean).  A crash instant is described by
  * the reachable state `s` it happens in (any action list, including earlier crashes),
  * `j`: how many writes of the record being enacted had reached the tables,
  * `n`: how many published records are intact in the log files; every flushed (synced)
    record survives, the unflushed tail may be cut anywhere, so `n ≥ s.flushed`.
A record half-written to the log is simply not among the `n`; a transaction whose commit
call did not return is not in the history.  Recovery replays the surviving records in
order (absolute after-images).  `hist` is the ghost list of accepted transactions.

Not covered here: the byte-level validation of damaged logs (C13), page-granular power
loss (C12), the physical layout of records (tied by correspondence).  The hypothesis "no
concurrently locked tree reader" of the property is vacuous at this layer (no tree
operations in P1).
-/
import Pdb.Proofs.PipelineCrash

namespace Pdb
variable {K V : Type} [DecidableEq K]

/-- Every crash of every reachable state recovers to the specification of a prefix of the
    committed transactions: each transaction entirely present or absent, none present
    without all earlier ones, nothing synced is lost, and the recovered state satisfies
    the pipeline invariant again (so all other theorems apply to it, including further
    crashes). -/
theorem C02_recover_prefix (kind : K → Kind) (as : List (Action K V)) (j n : Nat) :
    let s := run kind (St.init : St K V) as
    let s' := crashRecover s j (max n s.flushed)
    ∃ m, s.nEnacted + s.flushed ≤ m ∧ m ≤ s.hist.length ∧
      s'.tables = spec kind (s.hist.take m) ∧ s'.hist = s.hist.take m ∧
      (∀ k, kind k = .plain → get s' k = (spec kind (s.hist.take m) k).map Prod.fst) ∧
      Inv kind s' := by
  intro s s'
  have hi : Inv kind s := (Inv.init kind).run as
  have h := hi.crashRecover j (max n s.flushed) (Nat.le_max_right _ _)
  refine ⟨s.nEnacted + min (max n s.flushed) s.logged.length, h.2.1, h.2.2.1, h.2.2.2.2, h.2.2.2.1,
    ?_, h.1⟩
  intro k hk
  have := h.1.get_plain k hk
  rw [this, h.2.2.2.1]

/-- Repeated crashes and crashes during recovery: `crash` is an action like any other, so
    the statement above covers any number of them; and replaying the surviving records over
    ANY partially replayed state (first `i` records re-applied, then `j'` writes of the
    next one) gives the same tables as replaying them over the crash image. -/
theorem C02_crash_during_recovery (t : Tbl K V) (rs : List (Rec K V)) (i j' : Nat) :
    applyRecs (applyRecPrefix j' (applyRecs t (rs.take i)) (rs.getD i [])) rs = applyRecs t rs :=
  replay_after_partial_replay t rs i j'

/-- The recovered database keeps accepting commits and obeying C01: any continuation. -/
theorem C02_continues (kind : K → Kind) (as bs : List (Action K V)) (j n : Nat) (k : K)
    (hk : kind k = .plain) :
    let s := run kind (St.init : St K V) (as ++ [.crash j n] ++ bs)
    get s k = (spec kind s.hist k).map Prod.fst := by
  intro s
  exact ((Inv.init kind).run _).get_plain k hk

/-! Non-vacuity: a crash in the middle of enacting record 1 with record 2 unsynced and cut
    off recovers to exactly the first transaction. -/
section Example
private def kd : Nat → Kind := fun _ => .plain
private def acts : List (Action Nat Nat) :=
  [.commit [.set 1 10, .set 2 20], .process, .flush, .commit [.set 1 11, .deref 2], .process,
   .crash 1 0]
example : (run kd St.init acts).tables 1 = some (10, 1) ∧ (run kd St.init acts).tables 2 = some (20, 1) ∧
    (run kd St.init acts).hist.length = 1 := by decide
end Example

end Pdb

#print axioms Pdb.C02_recover_prefix
#print axioms Pdb.C02_crash_during_recovery
#print axioms Pdb.C02_continues
