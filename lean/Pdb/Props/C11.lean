/-
C11  A locked tree reader is never invalidated, and deferral keeps commit order.

Model: Pdb/Model/ConcRead.lean, Part 3 (`Tr`): commit queue, commit overlay, the log worker's
two steps `process` (pop, deferral decision, plan) and `publish` (`end_record` + overlay
cleaning), the reader registry (`locked`, the log worker's write locks `wlocked`,
`to_dereference`, `used_trees`) over a logical forest with claimed addresses, all interleavings
of {commit, process, publish, lock, unlock} as action lists.  Two variants of `process`:
`Variant.current` (the code as it is) and `Variant.patched` (fixes/fix-c11-defer-order.diff).

THE CURRENT CODE VIOLATES THE PROPERTY IN THREE WAYS (all replayed on the real crate by the
harness, `pdbverif c11`):
  F4   `C11_F4_counterexample`: T1 = {DereferenceTree A, Set k=1}, T2 = {Set k=2}, reader lock on
       A held when T1 reaches the head of the queue: the WHOLE of T1 is re-queued behind T2
       under a fresh id and its overlay entries are copied again: reads of k return 1 at once
       and the final value is 1.  Hence `C11_order` is false (`C11_order_false`).
  F4'  `C11_F4_insert_counterexample`: the same re-queueing applied to a transaction that
       inserts a tree B sharing nodes of A and dereferences another, locked, tree C (the
       pruning pattern): the later DereferenceTree A overtakes it, frees the shared nodes, B is
       left with dangling children although B was committed first under A's lock.
  F13  `C11_F13_counterexample`: the dereference walk takes the tree's write lock only while it
       PLANS; the plan is published (`end_record`) after the lock is released.  A reader that
       gets the lock in between sees an intact tree whose root and nodes then vanish under its
       held lock.
With the patch (try-lock all dereferenced trees before planning, hold until published, postpone
ONLY the tree dereferences) the model satisfies `C11_order_patched`, `C11_locked_stable`,
`C11_released_completes`; for the current code `C11_order_partial` is what remains true.

Not covered by a theorem: "trees inserted meanwhile that reuse its nodes stay valid" in
general (it needs the client contract "existing nodes are referenced only under the lock of a
tree that reaches them" plus reference-count correctness, C10); the patched model keeps B
intact on the F4' schedule (example below) and the harness checks it on the real crate.
-/
import Pdb.Proofs.C11Order
import Pdb.Proofs.C11Stable

namespace Pdb
open CRd CRd.Tr
variable {K V TK : Type} [DecidableEq K] [DecidableEq TK]

/-- Full statement: once everything is published the ordinary columns hold exactly the
    specification of all transactions in commit-return order. -/
def C11_order (var : Variant) : Prop :=
  ∀ (kind : Nat → Kind) (fuel : Nat) (as : List (TAct Nat Nat Nat)),
    let s := trun var kind fuel (TSt.init : TSt Nat Nat Nat) as
    s.queue = [] → s.pend = none → ∀ k, kind k = .plain → s.tbl k = spec kind s.hist k

private def kd : Nat → Kind := fun _ => .plain

/-- tree A under key 1: root -> 100 -> 101 -/
private def insA : TAct Nat Nat Nat := .commit [] [] [(1, [100], [(100, [101]), (101, [])])]
private def insC : TAct Nat Nat Nat := .commit [] [] [(3, [300], [(300, [])])]

/-- F4: T1 = {DereferenceTree A, Set 7 := 1}, T2 = {Set 7 := 2}; A is locked when T1 reaches the
    head of the queue. -/
private def f4Head : List (TAct Nat Nat Nat) :=
  [insA, .process, .publish, .lock 1, .commit [.set 7 1] [1] [], .commit [.set 7 2] [] [], .process]
private def f4Tail : List (TAct Nat Nat Nat) :=
  [.unlock 1, .process, .publish, .process, .publish, .process, .publish]

/-- F4 on the current code: right after the deferral a read of k returns T1's value although
    T2 committed later, and the final state keeps T1's value; the history says 2. -/
theorem C11_F4_counterexample :
    tget (trun .current kd 4 (TSt.init : TSt Nat Nat Nat) f4Head) 7 = some 1 ∧
    (let s := trun .current kd 4 (TSt.init : TSt Nat Nat Nat) (f4Head ++ f4Tail)
     s.queue = [] ∧ s.pend = none ∧ s.root 1 = none ∧ (s.tbl 7).map Prod.fst = some 1 ∧
     (spec kd s.hist 7).map Prod.fst = some 2) := by decide

theorem C11_order_false : ¬ C11_order .current := by
  intro h
  have := h kd 4 (f4Head ++ f4Tail) (by decide) (by decide) 7 rfl
  revert this
  decide

/-- F4': {InsertTree B sharing node 100 of A, DereferenceTree C} is committed under A's lock while
    C is locked by another reader; DereferenceTree A is committed afterwards.  On the current
    code B ends up with a dangling child. -/
private def f4Ins : List (TAct Nat Nat Nat) :=
  [insA, insC, .process, .publish, .process, .publish,
   .lock 3,
   .lock 1, .commit [] [3] [(2, [100, 200], [(200, [])])], .unlock 1,
   .commit [] [1] [],
   .process, .publish, .process, .publish, .process, .publish,
   .unlock 3, .process, .publish, .process, .publish]

theorem C11_F4_insert_counterexample :
    let s := trun .current kd 4 (TSt.init : TSt Nat Nat Nat) f4Ins
    s.queue = [] ∧ s.pend = none ∧ s.root 2 = some [100, 200] ∧ s.node 100 = none ∧
    treeIntact 4 s 2 = false := by decide

/-- F13: the removal of A is planned, the reader then gets the lock (nothing is visible yet),
    the removal is published under the held lock. -/
private def f13 : List (TAct Nat Nat Nat) :=
  [insA, .process, .publish, .commit [] [1] [], .process, .lock 1]

theorem C11_F13_counterexample :
    let s := trun .current kd 4 (TSt.init : TSt Nat Nat Nat) f13
    let s' := tstep .current kd 4 s .publish
    0 < s.locked 1 ∧ 0 < s'.locked 1 ∧ treeIntact 4 s 1 = true ∧ s'.root 1 = none ∧
    s'.node 100 = none := by decide

/-- What remains true of the current code (and holds for the patched one as well): for every key
    that no re-queued transaction writes, the final value is the specification of all
    transactions in commit-return order. -/
theorem C11_order_partial (var : Variant) (kind : K → Kind) (fuel : Nat)
    (as : List (TAct K V TK)) (k : K) :
    let s := trun var kind fuel (TSt.init : TSt K V TK) as
    s.queue = [] → s.pend = none → k ∉ s.deferredKeys → s.tbl k = spec kind s.hist k := by
  intro s hq hp hk
  exact ((OInv.init kind).run as).final hq hp k hk

/-- With the patch nothing but tree dereferences is ever postponed: commit-return order holds
    for every key, whatever the readers lock. -/
theorem C11_order_patched (kind : K → Kind) (fuel : Nat) (as : List (TAct K V TK)) :
    let s := trun .patched kind fuel (TSt.init : TSt K V TK) as
    s.queue = [] → s.pend = none → s.tbl = spec kind s.hist := by
  intro s hq hp
  funext k
  have hd : s.deferredKeys = [] := patched_run_no_deferredKeys TSt.init rfl as
  exact ((OInv.init kind).run as).final hq hp k (by rw [hd]; simp)

/-- While a client holds the read lock of tree `key` (from the state reached by `pre` through
    the whole of `as`), its root and every present node reachable from it (within the depth
    bound `fuel`) are exactly as they were, whatever is committed, planned and published
    meanwhile: other trees dereferenced, trees inserted (also ones sharing its nodes), its own
    dereference committed and postponed. -/
theorem C11_locked_stable (kind : K → Kind) (fuel : Nat) (pre as : List (TAct K V TK)) (key : TK)
    (hr : ((trun .patched kind fuel (TSt.init : TSt K V TK) pre).root key).isSome)
    (hl : lockedThroughout kind fuel key (trun .patched kind fuel TSt.init pre) as) :
    let s0 := trun .patched kind fuel (TSt.init : TSt K V TK) pre
    let s := trun .patched kind fuel s0 as
    s.root key = s0.root key ∧
    ∀ x ∈ reachN s0.node fuel ((s0.root key).getD []), (s0.node x).isSome → s.node x = s0.node x := by
  intro s0 s
  have hi : SInv s0 := SInv.init.run pre
  exact stable_run hi ⟨rfl, fun _ _ _ => rfl⟩ hr as hl

/-- Once the lock is released (and no later commit uses the tree) the postponed removal, when it
    next reaches the head of the queue, is planned and its removal becomes visible with the
    following `publish` ("under fairness": the log worker keeps calling `process`). -/
theorem C11_released_completes (kind : K → Kind) (fuel : Nat) (s : TSt K V TK)
    (c : TCommit K V TK) (rest : List (TCommit K V TK)) (hp : s.pend = none)
    (hq : s.queue = c :: rest)
    (hfree : ∀ k ∈ c.derefs, s.locked k = 0 ∧ ∀ c' ∈ rest, k ∉ c'.used) :
    (Tr.process .patched kind s).pend = some c ∧
    ∀ k ∈ c.derefs, (Tr.publish kind fuel (Tr.process .patched kind s)).root k = none :=
  released_completes s c rest hp hq hfree

/-! ### non-vacuity: the patched variant on the three schedules -/

example :
    tget (trun .patched kd 4 (TSt.init : TSt Nat Nat Nat) f4Head) 7 = some 2 ∧
    (let s := trun .patched kd 4 (TSt.init : TSt Nat Nat Nat) (f4Head ++ f4Tail)
     s.queue = [] ∧ s.pend = none ∧ s.root 1 = none ∧ (s.tbl 7).map Prod.fst = some 2 ∧
     s.nDeferred = 1) := by decide

example :
    let s := trun .patched kd 4 (TSt.init : TSt Nat Nat Nat) f4Ins
    s.queue = [] ∧ s.pend = none ∧ treeIntact 4 s 2 = true ∧ s.root 1 = none ∧ s.root 3 = none ∧
    s.node 100 = some [101] ∧ s.node 300 = none ∧ s.nDeferred = 2 := by decide

/-- the reader is refused while the planner holds the write lock; `lockedThroughout` is
    satisfiable across a postponed dereference and a concurrent insert sharing nodes -/
example :
    (trun .patched kd 4 (TSt.init : TSt Nat Nat Nat) f13).locked 1 = 0 ∧
    lockedThroughout kd 4 1 (trun .patched kd 4 (TSt.init : TSt Nat Nat Nat) [insA, .process, .publish, .lock 1])
      [.commit [] [1] [], .commit [] [] [(2, [100, 200], [(200, [])])], .process, .process, .publish,
       .process] := by
  refine ⟨by decide, ?_⟩
  simp only [lockedThroughout]
  decide

end Pdb

#print axioms Pdb.C11_F4_counterexample
#print axioms Pdb.C11_order_false
#print axioms Pdb.C11_F4_insert_counterexample
#print axioms Pdb.C11_F13_counterexample
#print axioms Pdb.C11_order_partial
#print axioms Pdb.C11_order_patched
#print axioms Pdb.C11_locked_stable
#print axioms Pdb.C11_released_completes
