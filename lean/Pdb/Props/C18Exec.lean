/-
C18 / C17, executable layer.  `Pdb.LockDir` (Pdb/Model/LockDir.lean) is an executable state machine
of one database directory shared by several processes; its `open` and `drop` INTERPRET the marker
programs regenerated from src/db.rs (Pdb.Gen.Order), and the harness (harness/src/c18.rs, scripted
part) runs the same operation sequences on the real crate in child processes and diffs every result
(driver command `c18`).  The theorems below hold for ALL operation sequences of the machine.

Assumption A-os as in Pdb/Props/C18.lean (flock(2): one holder per lock file, per open file
description, released by unlock / close / process death).
-/
import Pdb.Proofs.C18Exec
import Pdb.Proofs.C18Refine
import Pdb.Props.C18

namespace Pdb.LockDir

/-- **LockDir_mutex.**  After any sequence of operations (opens with any options, from any process
    and slot, drops, kills, commits, administration calls, outside manipulation of the lock file)
    at most one handle is alive, and it is the holder of the OS lock. -/
theorem LockDir_mutex (ops : List Op) :
    (runOps init ops).live.length ≤ 1 ∧
    (∀ h ∈ (runOps init ops).live, (runOps init ops).holder = some h) ∧
    (∀ h, (runOps init ops).holder = some h → (runOps init ops).live = [h]) := by
  have hI := inv_runOps ops init inv_init
  have hl := hI.live
  refine ⟨?_, ?_, ?_⟩
  · rw [hl]; cases (runOps init ops).holder <;> simp
  · intro h hh; rw [hl] at hh; cases hx : (runOps init ops).holder <;> simp_all
  · intro h hh; rw [hl, hh]; rfl

/-- **LockDir_failed_open_noop.**  An `open` that does not return Ok leaves the directory, the lock
    table and the handles exactly as they were, except that it may have created the (empty) `lock`
    file; when some handle is alive (in particular for every Locked result, also from a sibling
    thread of the holder's process and also with options that disagree) NOTHING changes. -/
theorem LockDir_failed_open_noop (s : St) (hr : Reachable s) (h : Handle) (c : Bool) (o : List Nat)
    (hf : (apply s (.open h c o)).2 ≠ .ok) :
    (apply s (.open h c o)).1 = { s with lockFile := (apply s (.open h c o)).1.lockFile } ∧
    (s.lockFile = true → (apply s (.open h c o)).1.lockFile = true) ∧
    (s.holder.isSome = true → (apply s (.open h c o)).1 = s) := by
  have hI := inv_reachable hr
  rcases lopen_cases s hI h c o with ⟨h1, _⟩ | ⟨_, he, hl1, _, hh⟩
  · exact absurd h1 hf
  · exact ⟨he, hl1, hh⟩

/-- **LockDir_open_while_held.**  While a handle is alive every other open (any live process, also
    the holder's own; create or not; matching or disagreeing options) returns Locked and changes
    nothing. -/
theorem LockDir_open_while_held (s : St) (hr : Reachable s) (h' : Handle) (hh : s.holder = some h')
    (h : Handle) (hd : s.dead.contains h.1 = false) (hne : h ≠ h') (c : Bool) (o : List Nat) :
    apply s (.open h c o) = (s, .err "Locked") :=
  lopen_held (inv_reachable hr) hh h hd hne c o

/-- **LockDir_admin_while_held** (C17).  `add_column`, `drop_last_column`, `reset_column` called by
    any live process while a handle is alive fail with Locked and change nothing; `clear_column`
    changes nothing and fails with Locked (or with Migration when its column index is out of range,
    which it checks on the metadata file before it opens the database). -/
theorem LockDir_admin_while_held (s : St) (hr : Reachable s) (h' : Handle) (hh : s.holder = some h')
    (p : Nat) (hd : s.dead.contains p = false) (hne : h' ≠ (p, tmpSlot)) (o : List Nat) :
    (∀ c, apply s (.add p o c) = (s, .err "Locked")) ∧
    apply s (.dropLast p o) = (s, .err "Locked") ∧
    (∀ i c, apply s (.reset p o i c) = (s, .err "Locked")) ∧
    (∀ i, apply s (.clear p i) = (s, .err "Locked") ∨ apply s (.clear p i) = (s, .err "Migration")) := by
  have hI := inv_reachable hr
  have hp := fun o => precheck_held hI hh p hd hne o
  have hd' : p ∉ s.dead := by simpa using hd
  refine ⟨?_, ?_, ?_, ?_⟩
  · intro c; simp [apply, hd', laddColumn, hp]
  · simp [apply, hd', ldropLast, hp]
  · intro i c; simp [apply, hd', lreset, hp]
  · intro i
    simp only [apply, lclear, hd]
    obtain ⟨h1, _, h3⟩ := hI.files (by rw [hh]; rfl)
    cases hc : s.cols with
    | none => rw [hc] at h3; simp at h3
    | some m =>
      by_cases hi : i ≥ m.length
      · right; simp [h1, hi]
      · left; simp [h1, hi, hp]

/-- **LockDir_stable_while_held** (C17).  While a handle is alive no operation of anybody changes
    the stored column set, and the content changes only by commits through that handle. -/
theorem LockDir_stable_while_held (s : St) (hr : Reachable s) (h' : Handle) (hh : s.holder = some h')
    (op : Op) :
    (apply s op).1.cols = s.cols ∧
    ((∀ c k v, op ≠ .commit h' c k v) → (apply s op).1.content = s.content) := by
  have hI := inv_reachable hr
  have hs : s.holder.isSome = true := by rw [hh]; rfl
  have hlive : s.live = [h'] := by rw [hI.live, hh]; rfl
  have hpre : ∀ p o, ∃ x e, precheck s p o = ({ s with lockFile := x }, some e) := by
    intro p o
    rcases precheck_cases s hI p o with ⟨_, hn, _⟩ | ⟨e, x, he, _⟩
    · rw [hn] at hh; cases hh
    · exact ⟨x, e, he⟩
  cases op with
  | env e => cases e <;> simp only [apply, lenv] <;> (try split) <;> simp
  | «open» h c o =>
    rcases lopen_cases s hI h c o with ⟨_, hn, _⟩ | ⟨_, he, _⟩
    · rw [hn] at hh; cases hh
    · simp only [apply]; rw [he]; simp
  | commit h c k v =>
    simp only [apply, lcommit]
    split
    · rename_i hg
      cases v <;> refine ⟨rfl, fun hne => ?_⟩ <;>
        (exfalso; rw [hlive] at hg; simp at hg; exact hne c k _ (by rw [hg.1]))
    · simp
  | get h c k => simp [apply]
  | fp h => simp [apply]
  | drop h => simp only [apply]; rw [ldrop_eq]; split <;> simp
  | kill p => simp only [apply, lkill]; split <;> simp
  | ls => simp [apply]
  | add p o c =>
    obtain ⟨x, e, he⟩ := hpre p o
    simp only [apply, laddColumn, he]; split <;> simp
  | dropLast p o =>
    obtain ⟨x, e, he⟩ := hpre p o
    simp only [apply, ldropLast, he]; split <;> simp
  | reset p o i c =>
    obtain ⟨x, e, he⟩ := hpre p o
    simp only [apply, lreset, he]; split <;> simp
  | clear p i =>
    simp only [apply, lclear]
    split
    · simp
    · split
      · simp
      · split
        · simp
        · rename_i m _ _
          obtain ⟨x, e, he⟩ := hpre p m
          simp [he]

/-- **LockDir_reopen_after_drop_or_kill.**  (a) dropping the live handle and (b) killing its
    process free the lock and keep the content; (c) whenever the lock is free, an open by any
    live process with options accepted by the stored metadata (or any options when there is no
    metadata and the call may create) succeeds, becomes the one live handle and sees the same
    content. -/
theorem LockDir_reopen_after_drop_or_kill (s : St) (hr : Reachable s) :
    (∀ h', s.holder = some h' →
      (apply s (.drop h')).2 = .ok ∧ (apply s (.drop h')).1.holder = none ∧
      (apply s (.drop h')).1.content = s.content ∧ (apply s (.drop h')).1.cols = s.cols) ∧
    (∀ h', s.holder = some h' →
      (apply s (.kill h'.1)).2 = .ok ∧ (apply s (.kill h'.1)).1.holder = none ∧
      (apply s (.kill h'.1)).1.content = s.content ∧ (apply s (.kill h'.1)).1.cols = s.cols) ∧
    (s.holder = none → ∀ h c o, s.dead.contains h.1 = false → (c = true ∨ s.cols.isSome = true) →
      (∀ m, s.cols = some m → checkOptions m o = none) →
      (apply s (.open h c o)).2 = .ok ∧ (apply s (.open h c o)).1.holder = some h ∧
      (apply s (.open h c o)).1.live = [h] ∧ (apply s (.open h c o)).1.content = s.content) := by
  have hI := inv_reachable hr
  refine ⟨?_, ?_, ?_⟩
  · intro h' hh
    have hlive : s.live = [h'] := by rw [hI.live, hh]; rfl
    simp only [apply]; rw [ldrop_eq]
    simp [hlive, hh]
  · intro h' hh
    have hd := hI.alive h' hh
    simp only [apply, lkill, hd]
    simp [hh]
  · intro hn h c o hd hc hck
    simp only [apply]
    rw [lopen_free hI hn h hd c o hc hck]
    simp

/-! ### Refinement of the interleaving model of Pdb/Props/C18.lean -/

/-- **LockDir_refines_interleaving (step).**  In a reachable state related to a state `a` of the
    interleaving model `Pdb.Conc.Lock` (threads `tid (pid, slot) = 256 * pid + slot`, process of a
    thread `pidOf t = t / 256`), every operation of the machine except the outside `env` steps is a
    run of that model executing the programs generated from src/db.rs: `open` = `start` + the markers
    of `Db::open_inner` up to the point where the call returns (`failOpen` where it returns an error
    after taking the lock), `drop` = `drop` + all markers of `Db::drop_inner`, `kill` = `die`, an
    administration call = the run of its open followed by the run of its drop, observations and
    rejected calls = the empty run.  The relation keeps thread phases, lock holder, directory and
    lock file existence equal. -/
theorem LockDir_refines_interleaving_step (a : Conc.Lock.St) (s : St) (hr : Reachable s) (hR : Rel a s)
    (op : Op) (hop : op.isEnv = false) :
    ∃ as a', Conc.Lock.run Conc.Lock.genProg pidOf a as = some a' ∧ Rel a' (apply s op).1 :=
  sim_apply a s (inv_reachable hr) hR op hop

/-- **LockDir_refines_interleaving.**  Every state the machine reaches by crate operations is the
    image of a reachable state of the interleaving model. -/
theorem LockDir_refines_interleaving (ops : List Op) (hops : ops.all (fun o => !o.isEnv) = true) :
    ∃ a, Conc.Lock.Reachable Conc.Lock.genProg pidOf a ∧ Rel a (runOps init ops) := by
  obtain ⟨as, a, r, R⟩ := sim_runOps ops Conc.Lock.init init inv_init rel_init hops
  exact ⟨a, ⟨as, r⟩, R⟩

/-- The mutual exclusion of the machine obtained THROUGH the refinement from `C18_mutex_gen` (the
    theorem about all interleavings of the generated programs): two live handles are the same. -/
theorem LockDir_mutex_via_model (ops : List Op) (hops : ops.all (fun o => !o.isEnv) = true)
    (h h' : Handle) (hl : h ∈ (runOps init ops).live) (hl' : h' ∈ (runOps init ops).live) : h = h' := by
  obtain ⟨a, ha, R⟩ := LockDir_refines_interleaving ops hops
  have hI := inv_runOps ops init inv_init
  have key : ∀ x, x ∈ (runOps init ops).live → (a.th (tid x)).phase = .live := by
    intro x hx
    have hh : (runOps init ops).holder = some x := by
      have := hI.live; rw [this] at hx
      cases hq : (runOps init ops).holder <;> simp_all
    have hd := hI.alive x hh
    have hc : (runOps init ops).live.contains x = true := by simpa using hx
    rw [R.th]; simp only [thOf, pidOf_tid, hOf_tid, hd, hc]; simp
  have := (Conc.Lock.C18_mutex_gen pidOf a ha).1 (tid h) (tid h') (key h hl) (key h' hl')
  rw [← hOf_tid h, ← hOf_tid h', this]

/-! ### Non-vacuity -/

/-- results of a sequence of operations -/
def results : St → List Op → List Res
  | _, [] => []
  | s, o :: os => (apply s o).2 :: results (apply s o).1 os

/-- open-while-held from another process, from a sibling slot of the holder's process, with
    disagreeing options, an administration call while held; kill -9 of the holder; reopen reads the
    committed value -/
def demoOps : List Op :=
  [.open (0, 0) true [0, 2], .open (1, 0) false [0, 2], .open (0, 1) false [0, 2], .open (1, 1) true [0],
   .add 1 [0, 2] 1, .commit (0, 0) 1 3 (some 7), .kill 0, .open (1, 0) false [0, 2], .get (1, 0) 1 3]

example : results init demoOps =
    [.ok, .err "Locked", .err "Locked", .err "Locked", .err "Locked", .ok, .ok, .ok, .text "some 7"] := by
  decide

example : (runOps init demoOps).live = [(1, 0)] ∧ (runOps init demoOps).holder = some (1, 0) ∧
    (runOps init demoOps).dead = [0] := by decide

/-- the hypothesis of the refinement theorems holds for it, so its final state (one live handle of
    process 1, process 0 dead) is the image of a reachable state of the interleaving model -/
example : demoOps.all (fun o => !o.isEnv) = true := by decide
example : ∃ a, Conc.Lock.Reachable Conc.Lock.genProg pidOf a ∧ (a.th (tid (1, 0))).phase = .live ∧
    (a.th (tid (0, 0))).phase = .dead ∧ a.holder = some (tid (1, 0)) := by
  obtain ⟨a, ha, R⟩ := LockDir_refines_interleaving demoOps (by decide)
  refine ⟨a, ha, ?_, ?_, ?_⟩
  · rw [R.th]; decide
  · rw [R.th]; decide
  · rw [R.holder]; decide

/-- `Db::open` of a missing directory creates nothing -/
example : apply init (.open (0, 0) false [0]) = (init, .err "DatabaseNotFound") := by decide

/-- a failed open CAN create the lock file (options rejected after the lock file was created;
    the lock file had been removed by hand): the exception clause of `LockDir_failed_open_noop`
    is needed -/
example :
    let s := runOps init [.open (0, 0) true [0], .drop (0, 0), .env .rmLock]
    s.lockFile = false ∧ (apply s (.open (1, 0) true [1])).2 = .err "IncompatibleColumnConfig:0" ∧
    (apply s (.open (1, 0) true [1])).1 = { s with lockFile := true } := by decide

/-- the administration calls work when nobody holds the directory, and change the column set -/
example : (runOps init [.open (0, 0) true [0], .commit (0, 0) 0 1 (some 5), .drop (0, 0), .add 1 [0] 3,
    .reset 1 [0, 3] 0 none]).cols = some [0, 3] ∧
    (runOps init [.open (0, 0) true [0], .commit (0, 0) 0 1 (some 5), .drop (0, 0), .add 1 [0] 3,
    .reset 1 [0, 3] 0 none]).content = [] := by decide

/-- the hypotheses of `LockDir_admin_while_held` are satisfiable -/
example : Reachable (runOps init [.open (0, 0) true [0]]) ∧
    (runOps init [.open (0, 0) true [0]]).holder = some (0, 0) := ⟨⟨_, rfl⟩, by decide⟩

end Pdb.LockDir

#print axioms Pdb.LockDir.LockDir_mutex
#print axioms Pdb.LockDir.LockDir_failed_open_noop
#print axioms Pdb.LockDir.LockDir_open_while_held
#print axioms Pdb.LockDir.LockDir_admin_while_held
#print axioms Pdb.LockDir.LockDir_stable_while_held
#print axioms Pdb.LockDir.LockDir_reopen_after_drop_or_kill
#print axioms Pdb.LockDir.LockDir_refines_interleaving_step
#print axioms Pdb.LockDir.LockDir_refines_interleaving
#print axioms Pdb.LockDir.LockDir_mutex_via_model
